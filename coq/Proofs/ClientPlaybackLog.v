(* Proofs/ClientPlaybackLog.v -- invariants of the event log of Model/ClientPlayback.v over ALL
   histories: replays never overlap, entries leave the queue in acceptance order and none is lost,
   every finished replay has a response or an error, check admits exactly the replayable flows,
   a replay in flight can always finish unless a stop_replay corrupted it. *)
From Coq Require Import List Bool Arith Lia Sorted.
From MV Require Import Base.Bytes Model.FlowBackup Model.ClientPlayback.
Import ListNotations.

(* ------------------------------------------------------------------ generic *)
Lemma run_inv : forall (P : st -> Prop), (forall s o, P s -> P (step s o)) ->
  forall ops s, P s -> P (run s ops).
Proof.
  intros P H ops. induction ops as [|o r IH]; intros s Ps; simpl; [exact Ps|].
  apply IH. apply H. exact Ps.
Qed.

Lemma run_app : forall a b s, run s (a ++ b) = run (run s a) b.
Proof. intros. unfold run. apply fold_left_app. Qed.

Lemma loop_net_cases : forall s,
  loop_net s = s \/
  (exists a, act s = Some a /\ a_phase a <> Corrupt /\ a_pend a = Some NConnected /\
     loop_net s = mkSt (flows s) (queue s) (Some (mkAct (a_seq a) (a_flow a) Sent None)) (next_seq s)
                       (log s ++ [LReq (a_seq a) (a_flow a)])) \/
  (exists a t, act s = Some a /\ a_phase a <> Corrupt /\ loop_net s = finish s a t).
Proof.
  intros s. unfold loop_net. destruct (act s) as [a|] eqn:A; auto.
  destruct (a_phase a) eqn:P; destruct (a_pend a) as [[]|] eqn:Q; auto;
    try (right; left; exists a; repeat split; auto; congruence);
    right; right; eexists a, _; repeat split; try reflexivity; congruence.
Qed.

(* ------------------------------------------------------------------ check *)
Definition replayable (infl : bool) (f : cflow) : Prop :=
  flive (cf f) = false /\ infl = false /\ o_int (fo (cf f)) = false /\ c_http f = true /\
  o_req (fo (cf f)) = true /\ o_content (fo (cf f)) <> None /\ o_ws (fo (cf f)) = false.

Lemma check_table : forall b f, check b f = None <-> replayable b f.
Proof.
  intros b [[i o l bk] h]. unfold check, replayable. simpl.
  destruct o as [rq ct ws rs er it rp]. simpl.
  destruct l, b, it, h, rq, ct, ws; simpl; split; intro H; try discriminate;
    try (repeat split; congruence); destruct H as (?&?&?&?&?&?&?); congruence.
Qed.

(* the reason given is the first one that applies, in the order of the code *)
Lemma check_reason : forall b f,
  check b f =
    if flive (cf f) || b then Some RLive
    else if o_int (fo (cf f)) then Some RIntercepted
    else if negb (c_http f) then Some RNotHttp
    else if negb (o_req (fo (cf f))) then Some RNoRequest
    else match o_content (fo (cf f)) with
         | None => Some RNoContent
         | Some _ => if o_ws (fo (cf f)) then Some RWebsocket else None
         end.
Proof.
  intros b f. unfold check. destruct (flive (cf f) || b); auto.
  destruct (o_int (fo (cf f))); auto. destruct (c_http f); auto.
Qed.

Lemma check_prepare : forall b f, check b (on_fl prepare f) = check b f.
Proof.
  intros b [[i o l bk] h]. unfold check, on_fl, prepare, on_obj, f_backup, backup. simpl.
  destruct bk; reflexivity.
Qed.

(* ------------------------------------------------------------------ updf *)
Lemma updf_length : forall s i g, length (updf i g s) = length s.
Proof. induction s as [|f r IH]; intros [|k] g; simpl; auto. Qed.

Lemma updf_other : forall s i j g, i <> j -> nth_error (updf i g s) j = nth_error s j.
Proof.
  induction s as [|f r IH]; intros [|i] [|j] g H; simpl; auto; congruence.
Qed.

Lemma updf_same : forall s i g, nth_error (updf i g s) i = option_map g (nth_error s i).
Proof. induction s as [|f r IH]; intros [|i] g; simpl; auto. Qed.

(* ------------------------------------------------------------------ start_loop *)
Lemma start_loop_spec : forall ids infl fs q next upd fs' q' nx' upd',
  start_loop infl ids fs q next upd = (fs', q', nx', upd') ->
  exists acc, upd' = upd ++ acc /\ q' = q ++ combine (seq next (length acc)) acc
              /\ nx' = next + length acc /\ length fs' = length fs
              /\ (forall b j, option_map (check b) (nth_error fs' j) = option_map (check b) (nth_error fs j))
              /\ (forall i, In i acc -> In i ids /\
                    exists f, nth_error fs i = Some f /\
                      check (match infl with Some j => Nat.eqb i j | None => false end) f = None).
Proof.
  induction ids as [|i r IH]; intros infl fs q next upd fs' q' nx' upd' H; simpl in H.
  - inversion H; subst. exists []. simpl. rewrite !app_nil_r. repeat split; auto; try lia.
    all: try (intros i []).
  - destruct (nth_error fs i) as [f|] eqn:N.
    + destruct (check _ f) eqn:C.
      * destruct (IH _ _ _ _ _ _ _ _ _ H) as (acc & A1 & A2 & A3 & A4 & A5 & A6).
        exists acc. do 5 (split; [assumption|]). intros k K. destruct (A6 k K) as [B1 B2]. split; [right|]; auto.
      * destruct (IH _ _ _ _ _ _ _ _ _ H) as (acc & A1 & A2 & A3 & A4 & A5 & A6).
        assert (CK : forall b j, option_map (check b) (nth_error (updf i (on_fl prepare) fs) j)
                               = option_map (check b) (nth_error fs j)).
        { intros b j. destruct (Nat.eq_dec i j) as [->|D].
          - rewrite updf_same. destruct (nth_error fs j); simpl; auto. rewrite check_prepare. reflexivity.
          - rewrite updf_other by exact D. reflexivity. }
        exists (i :: acc). rewrite A1, A2, A3, A4, updf_length. simpl.
        rewrite <- !app_assoc. simpl. do 2 (split; [reflexivity|]). split; [lia|]. split; [reflexivity|]. split.
        -- intros b j. rewrite A5. apply CK.
        -- intros k [<-|K].
           ++ split; [left; reflexivity|]. exists f. split; assumption.
           ++ destruct (A6 k K) as [B1 (g & B2 & B3)]. split; [right; exact B1|].
              pose proof (CK (match infl with Some j => Nat.eqb k j | None => false end) k) as E.
              rewrite B2 in E. simpl in E. destruct (nth_error fs k) as [g0|]; simpl in E; [|discriminate].
              exists g0. split; auto. congruence.
    + destruct (IH _ _ _ _ _ _ _ _ _ H) as (acc & A1 & A2 & A3 & A4 & A5 & A6).
      exists acc. do 5 (split; [assumption|]). intros k K. destruct (A6 k K) as [B1 B2]. split; [right|]; auto.
Qed.

Lemma map_fst_combine_seq : forall (acc : list nat) a, map fst (combine (seq a (length acc)) acc) = seq a (length acc).
Proof. induction acc as [|x r IH]; intros a; simpl; auto. rewrite IH. reflexivity. Qed.

Lemma map_snd_combine_seq : forall (acc : list nat) a, map snd (combine (seq a (length acc)) acc) = acc.
Proof. induction acc as [|x r IH]; intros a; simpl; auto. rewrite IH. reflexivity. Qed.

Lemma in_combine_seq : forall (l : list nat) a n i,
  In (n, i) (combine (seq a (length l)) l) -> a <= n /\ nth_error l (n - a) = Some i.
Proof.
  induction l as [|x r IH]; intros a n i H; simpl in H; [contradiction|].
  destruct H as [H|H].
  - inversion H; subst. rewrite Nat.sub_diag. split; auto.
  - destruct (IH _ _ _ H) as [L E]. split; [lia|].
    replace (n - a) with (S (n - S a)) by lia. exact E.
Qed.

(* ------------------------------------------------------------------ the scan of the log *)
(* cur = the entry whose replay() has been called and has not returned *)
Definition scan_step (cur : option nat) (e : ev) : option (option nat) :=
  match e with
  | LStart n _ => match cur with None => Some (Some n) | Some _ => None end
  | LReq n _ | LStale n _ => match cur with Some m => if Nat.eqb n m then Some cur else None | None => None end
  | LFin n _ _ _ => match cur with Some m => if Nat.eqb n m then Some None else None | None => None end
  | LCrash _ _ => match cur with None => Some None | Some _ => None end
  | LSubmit _ _ | LStopped _ => Some cur
  end.

Fixpoint scan (cur : option nat) (l : list ev) : option (option nat) :=
  match l with
  | [] => Some cur
  | e :: r => match scan_step cur e with Some c => scan c r | None => None end
  end.

Lemma scan_app : forall l1 l2 c,
  scan c (l1 ++ l2) = match scan c l1 with Some c' => scan c' l2 | None => None end.
Proof.
  induction l1 as [|e r IH]; intros l2 c; simpl; auto.
  destruct (scan_step c e); auto.
Qed.

Definition scan_inv (s : st) : Prop := scan None (log s) = Some (option_map a_seq (act s)).

Lemma start_next_scan : forall q fs lg q' fs' a' lg',
  start_next q fs lg = (q', fs', a', lg') -> scan None lg = Some None ->
  scan None lg' = Some (option_map a_seq a').
Proof.
  induction q as [|[n i] r IH]; intros fs lg q' fs' a' lg' H S; simpl in H.
  - inversion H; subst. exact S.
  - destruct (nth_error fs i) as [f|].
    + destruct (negb (o_req (fo (cf f)))).
      * eapply IH; [exact H|]. rewrite scan_app, S. reflexivity.
      * destruct (o_resp (fo (cf f))).
        -- eapply IH; [exact H|]. rewrite scan_app, S. simpl. rewrite Nat.eqb_refl. simpl.
           rewrite Nat.eqb_refl. reflexivity.
        -- inversion H; subst. rewrite scan_app, S. reflexivity.
    + eapply IH; [exact H|]. rewrite scan_app, S. reflexivity.
Qed.

Lemma loop_net_scan : forall s, scan_inv s -> scan_inv (loop_net s).
Proof.
  intros s I. unfold scan_inv in *.
  destruct (loop_net_cases s) as [E|[(a & A & _ & _ & E)|(a & t & A & _ & E)]]; rewrite E; auto.
  - simpl. rewrite scan_app, I, A. simpl. rewrite Nat.eqb_refl. reflexivity.
  - unfold finish. simpl. rewrite scan_app, I, A. simpl. rewrite Nat.eqb_refl. reflexivity.
Qed.

Lemma step_scan : forall s o, scan_inv s -> scan_inv (step s o).
Proof.
  intros s o I. destruct o as [ids| | |r|i e]; simpl.
  - unfold start_replay. destruct (start_loop _ _ _ _ _ _) as [[[fs q] nx] upd].
    unfold scan_inv in *. simpl. rewrite scan_app, I. reflexivity.
  - unfold stop_replay, scan_inv in *. simpl. rewrite scan_app, I. simpl.
    destruct (hits_connected s); auto. destruct (act s); reflexivity.
  - unfold loop. pose proof (loop_net_scan s I) as J. set (s1 := loop_net s) in *.
    destruct (act s1) eqn:A; auto.
    destruct (start_next _ _ _) as [[[q' fs'] a'] lg'] eqn:SN.
    unfold scan_inv in *. simpl. eapply start_next_scan; [exact SN|]. rewrite J, A. reflexivity.
  - unfold net, scan_inv in *. destruct (act s) as [a|] eqn:A; [|rewrite A; exact I].
    destruct (a_pend a); [rewrite A; exact I|]. destruct (compatible (a_phase a) r); simpl; rewrite ?A; exact I.
  - unfold scan_inv in *. simpl. exact I.
Qed.

Lemma scan_inv_run : forall fs ops, scan_inv (run (init fs) ops).
Proof. intros. apply run_inv; [apply step_scan|]. reflexivity. Qed.

Definition finished (n : nat) (l : list ev) : Prop := exists i r e, In (LFin n i r e) l.

Lemma scan_open : forall l n c, scan (Some n) l = Some c -> c = Some n \/ finished n l.
Proof.
  induction l as [|e r IH]; intros n c H; simpl in H.
  - inversion H. auto.
  - destruct e as [f a|q|m i|m i|m i x y|m i|m i]; simpl in H; try discriminate.
    + destruct (IH _ _ H) as [E|(i & x & y & F)]; auto. right. exists i, x, y. right. exact F.
    + destruct (IH _ _ H) as [E|(i & x & y & F)]; auto. right. exists i, x, y. right. exact F.
    + destruct (Nat.eqb m n) eqn:E; [|discriminate].
      destruct (IH _ _ H) as [E2|(j & x & y & F)]; auto. right. exists j, x, y. right. exact F.
    + destruct (Nat.eqb m n) eqn:E; [|discriminate]. apply Nat.eqb_eq in E. subst.
      right. exists i, x, y. left. reflexivity.
    + destruct (Nat.eqb m n) eqn:E; [|discriminate].
      destruct (IH _ _ H) as [E2|(j & x & y & F)]; auto. right. exists j, x, y. right. exact F.
Qed.

Lemma scan_starts : forall l c0 c, scan c0 l = Some c ->
  forall n i, In (LStart n i) l -> c = Some n \/ finished n l.
Proof.
  induction l as [|e r IH]; intros c0 c H n i I; [contradiction|].
  simpl in H. destruct (scan_step c0 e) as [c1|] eqn:S; [|discriminate].
  destruct I as [->|I].
  - simpl in S. destruct c0; [discriminate|]. inversion S; subst.
    destruct (scan_open _ _ _ H) as [E|(j & x & y & F)]; auto. right. exists j, x, y. right. exact F.
  - destruct (IH _ _ H _ _ I) as [E|(j & x & y & F)]; auto. right. exists j, x, y. right. exact F.
Qed.

(* what an event needs to be in progress *)
Definition needs (e : ev) : option nat :=
  match e with LReq m _ | LStale m _ => Some m | LFin m _ _ _ => Some m | _ => None end.

Lemma scan_prefix : forall pre e post c, scan None (pre ++ e :: post) = Some c ->
  exists c1 c2, scan None pre = Some c1 /\ scan_step c1 e = Some c2.
Proof.
  intros pre e post c H. rewrite scan_app in H. destruct (scan None pre) as [c1|]; [|discriminate].
  simpl in H. destruct (scan_step c1 e) as [c2|] eqn:S; [|discriminate]. eauto.
Qed.

(* request m reaches the server only when every replay started before it, other than m itself,
   has finished; and a replay starts only when every earlier one has finished *)
Theorem sequential : forall fs ops pre e post,
  log (run (init fs) ops) = pre ++ e :: post ->
  (forall m, needs e = Some m -> forall n i, In (LStart n i) pre -> n <> m -> finished n pre)
  /\ (forall m j, e = LStart m j -> forall n i, In (LStart n i) pre -> finished n pre).
Proof.
  intros fs ops pre e post L. pose proof (scan_inv_run fs ops) as I. unfold scan_inv in I. rewrite L in I.
  destruct (scan_prefix _ _ _ _ I) as (c1 & c2 & P & S). split.
  - intros m N n i In1 D. destruct (scan_starts _ _ _ P _ _ In1) as [E|F]; auto. subst c1.
    destruct e; simpl in N; inversion N; subst; simpl in S;
      destruct (Nat.eqb m n) eqn:Q; try discriminate; apply Nat.eqb_eq in Q; congruence.
  - intros m j -> n i In1. destruct (scan_starts _ _ _ P _ _ In1) as [E|F]; auto. subst c1. discriminate.
Qed.

(* ------------------------------------------------------------------ order *)
Definition popped_ev (e : ev) : list nat := match e with LStart n _ | LCrash n _ => [n] | _ => [] end.
Definition popped (l : list ev) : list nat := flat_map popped_ev l.
Definition stopped_ev (e : ev) : list nat := match e with LStopped q => map fst q | _ => [] end.
Definition stopped (l : list ev) : list nat := flat_map stopped_ev l.
Definition acc_ev (e : ev) : list nat := match e with LSubmit _ acc => acc | _ => [] end.
Definition accepted (l : list ev) : list nat := flat_map acc_ev l.

Lemma popped_app : forall a b, popped (a ++ b) = popped a ++ popped b.
Proof. intros. apply flat_map_app. Qed.
Lemma stopped_app : forall a b, stopped (a ++ b) = stopped a ++ stopped b.
Proof. intros. apply flat_map_app. Qed.
Lemma accepted_app : forall a b, accepted (a ++ b) = accepted a ++ accepted b.
Proof. intros. apply flat_map_app. Qed.

Lemma start_next_popped : forall q fs lg q' fs' a' lg',
  start_next q fs lg = (q', fs', a', lg') ->
  popped lg' ++ map fst q' = popped lg ++ map fst q
  /\ stopped lg' = stopped lg /\ accepted lg' = accepted lg.
Proof.
  induction q as [|[n i] r IH]; intros fs lg q' fs' a' lg' H; simpl in H.
  - inversion H; subst. auto.
  - destruct (nth_error fs i) as [f|].
    + destruct (negb (o_req (fo (cf f)))).
      * destruct (IH _ _ _ _ _ _ H) as (A & B & C). rewrite A, B, C, popped_app, stopped_app, accepted_app.
        simpl. rewrite <- !app_assoc, !app_nil_r. auto.
      * destruct (o_resp (fo (cf f))).
        -- destruct (IH _ _ _ _ _ _ H) as (A & B & C). rewrite A, B, C, popped_app, stopped_app, accepted_app.
           simpl. rewrite <- !app_assoc, !app_nil_r. auto.
        -- inversion H; subst. rewrite popped_app, stopped_app, accepted_app. simpl.
           rewrite <- !app_assoc, !app_nil_r. auto.
    + destruct (IH _ _ _ _ _ _ H) as (A & B & C). rewrite A, B, C, popped_app, stopped_app, accepted_app.
      simpl. rewrite <- !app_assoc, !app_nil_r. auto.
Qed.

Lemma loop_net_popped : forall s,
  popped (log (loop_net s)) = popped (log s) /\ queue (loop_net s) = queue s
  /\ stopped (log (loop_net s)) = stopped (log s) /\ accepted (log (loop_net s)) = accepted (log s)
  /\ next_seq (loop_net s) = next_seq s.
Proof.
  intros s. destruct (loop_net_cases s) as [E|[(a & A & _ & _ & E)|(a & t & A & _ & E)]]; rewrite E; auto;
    unfold finish; simpl; rewrite popped_app, stopped_app, accepted_app; simpl; rewrite !app_nil_r; auto.
Qed.

Lemma ss_seq : forall k n, StronglySorted lt (seq n k).
Proof.
  induction k as [|k IH]; intros n; simpl; constructor; auto.
  apply Forall_forall. intros x X. apply in_seq in X. lia.
Qed.

Lemma ss_app_seq : forall l n k, StronglySorted lt l -> Forall (fun x => x < n) l ->
  StronglySorted lt (l ++ seq n k).
Proof.
  induction l as [|a r IH]; intros n k S F; simpl; [apply ss_seq|].
  inversion S; subst. inversion F; subst. constructor; auto.
  apply Forall_app. split; auto. apply Forall_forall. intros x X. apply in_seq in X. lia.
Qed.

Lemma ss_app_l : forall (a b : list nat), StronglySorted lt (a ++ b) -> StronglySorted lt a.
Proof.
  induction a as [|x r IH]; intros b S; [constructor|]. simpl in S. inversion S; subst.
  constructor; eauto. apply Forall_app in H2. tauto.
Qed.

Definition order_inv (s : st) : Prop :=
  StronglySorted lt (popped (log s) ++ map fst (queue s))
  /\ Forall (fun n => n < next_seq s) (popped (log s) ++ map fst (queue s))
  /\ (forall n, n < next_seq s -> In n (popped (log s) ++ map fst (queue s)) \/ In n (stopped (log s))).

Lemma step_order : forall s o, order_inv s -> order_inv (step s o).
Proof.
  intros s o (S & F & M). destruct o as [ids| | |r|i e]; simpl.
  - unfold start_replay. destruct (start_loop _ _ _ _ _ _) as [[[fs q] nx] upd] eqn:SL.
    destruct (start_loop_spec _ _ _ _ _ _ _ _ _ _ SL) as (acc & A1 & A2 & A3 & _).
    unfold order_inv. simpl. rewrite popped_app, stopped_app. simpl. rewrite !app_nil_r.
    subst q nx. rewrite map_app, map_fst_combine_seq, app_assoc. repeat split.
    + apply ss_app_seq; auto.
    + apply Forall_app. split.
      * eapply Forall_impl; [|exact F]. simpl. intros; lia.
      * apply Forall_forall. intros x X. apply in_seq in X. lia.
    + intros n N. destruct (Nat.lt_ge_cases n (next_seq s)) as [L|G].
      * destruct (M n L) as [I|I]; auto. left. apply in_or_app. left. exact I.
      * left. apply in_or_app. right. apply in_seq. lia.
  - unfold stop_replay, order_inv. simpl. rewrite popped_app, stopped_app. simpl. rewrite !app_nil_r.
    repeat split.
    + eapply ss_app_l. exact S.
    + apply Forall_app in F. tauto.
    + intros n N. destruct (M n N) as [I|I].
      * apply in_app_or in I. destruct I as [I|I]; [left; exact I|right; apply in_or_app; right; exact I].
      * right. apply in_or_app. left. exact I.
  - unfold loop. destruct (loop_net_popped s) as (P1 & P2 & P3 & P4 & P5). set (s1 := loop_net s) in *.
    destruct (act s1) eqn:A.
    + unfold order_inv. rewrite P1, P2, P3, P5. auto.
    + destruct (start_next _ _ _) as [[[q' fs'] a'] lg'] eqn:SN.
      destruct (start_next_popped _ _ _ _ _ _ _ SN) as (Q1 & Q2 & Q3).
      unfold order_inv. simpl. rewrite Q1, Q2, P1, P2, P3, P5. auto.
  - unfold net. destruct (act s) as [a|]; [|unfold order_inv; auto].
    destruct (a_pend a); [unfold order_inv; auto|]. destruct (compatible _ _); unfold order_inv; auto.
  - unfold order_inv. simpl. auto.
Qed.

Lemma order_inv_run : forall fs ops, order_inv (run (init fs) ops).
Proof.
  intros. apply run_inv; [apply step_order|]. unfold order_inv, init. simpl.
  split; [constructor|]. split; [constructor|]. intros n N. lia.
Qed.

(* ---- sequence numbers are positions in the global order of acceptance ---- *)
Definition entry_ev (e : ev) : list (nat * nat) :=
  match e with
  | LStart n i | LReq n i | LCrash n i | LStale n i => [(n, i)]
  | LFin n i _ _ => [(n, i)]
  | _ => []
  end.
Definition entries (l : list ev) : list (nat * nat) := flat_map entry_ev l.
Lemma entries_app : forall a b, entries (a ++ b) = entries a ++ entries b.
Proof. intros. apply flat_map_app. Qed.

Definition known (s : st) (n i : nat) : Prop :=
  In (n, i) (queue s) \/ In (n, i) (entries (log s)) \/ (exists a, act s = Some a /\ a_seq a = n /\ a_flow a = i).

Definition acc_inv (s : st) : Prop :=
  length (accepted (log s)) = next_seq s
  /\ forall n i, known s n i -> nth_error (accepted (log s)) n = Some i.

Lemma nth_error_app_l : forall (l l' : list nat) n i, nth_error l n = Some i -> nth_error (l ++ l') n = Some i.
Proof.
  intros l l' n i H. rewrite nth_error_app1; auto. apply nth_error_Some. congruence.
Qed.

Lemma start_next_known : forall q fs lg q' fs' a' lg',
  start_next q fs lg = (q', fs', a', lg') ->
  forall n i, (In (n, i) q' \/ In (n, i) (entries lg') \/ (exists a, a' = Some a /\ a_seq a = n /\ a_flow a = i)) ->
  In (n, i) q \/ In (n, i) (entries lg).
Proof.
  induction q as [|[m j] r IH]; intros fs lg q' fs' a' lg' H n i K; simpl in H.
  - inversion H; subst. destruct K as [K|[K|(a & K & _)]]; auto; discriminate.
  - assert (G : forall fs0 lgx, start_next r fs0 (lg ++ lgx) = (q', fs', a', lg') ->
                (forall p, In p (entries lgx) -> p = (m, j)) -> In (n, i) ((m, j) :: r) \/ In (n, i) (entries lg)).
    { intros fs0 lgx H0 X. destruct (IH _ _ _ _ _ _ H0 n i K) as [I|I]; [left; right; exact I|].
      rewrite entries_app in I. apply in_app_or in I. destruct I as [I|I]; auto.
      left. left. symmetry. apply X. exact I. }
    destruct (nth_error fs i) as [f0|] eqn:N0; clear N0.
    all: destruct (nth_error fs j) as [f|].
    all: try (destruct (negb (o_req (fo (cf f))));
              [eapply G; [exact H|]; simpl; intros p [<-|[]]; reflexivity|];
              destruct (o_resp (fo (cf f)));
              [eapply G; [exact H|]; simpl; intros p [<-|[<-|[<-|[]]]]; reflexivity|];
              inversion H; subst;
              destruct K as [K|[K|(a & K & K1 & K2)]];
              [left; right; exact K
              |rewrite entries_app in K; apply in_app_or in K; destruct K as [K|[K|[]]]; [right; exact K|left; left; exact K]
              |inversion K; subst; simpl; left; left; reflexivity]).
    all: eapply G; [exact H|]; simpl; intros p [<-|[]]; reflexivity.
Qed.

Lemma step_acc : forall s o, acc_inv s -> acc_inv (step s o).
Proof.
  intros s o (L & K). destruct o as [ids| | |r|i e]; simpl.
  - unfold start_replay. destruct (start_loop _ _ _ _ _ _) as [[[fs q] nx] upd] eqn:SL.
    destruct (start_loop_spec _ _ _ _ _ _ _ _ _ _ SL) as (acc & A1 & A2 & A3 & _). simpl in A1. subst upd.
    unfold acc_inv, known. simpl. rewrite accepted_app, entries_app. simpl. rewrite !app_nil_r, app_length.
    split; [lia|]. intros n j [I|[I|I]].
    + subst q. apply in_app_or in I. destruct I as [I|I].
      * apply nth_error_app_l. apply K. left. exact I.
      * destruct (in_combine_seq _ _ _ _ I) as [G E]. rewrite nth_error_app2 by lia. rewrite L. exact E.
    + apply nth_error_app_l. apply K. right. left. exact I.
    + apply nth_error_app_l. apply K. right. right. exact I.
  - unfold stop_replay, acc_inv, known. simpl. rewrite accepted_app, entries_app. simpl. rewrite !app_nil_r.
    split; auto. intros n j [[]|[I|(a & A & B & C)]]; apply K.
    + right. left. exact I.
    + right. right. destruct (hits_connected s); [|eauto]. destruct (act s) as [a0|]; [|discriminate].
      simpl in A. inversion A; subst. simpl. eauto.
  - assert (K1 : acc_inv (loop_net s)).
    { destruct (loop_net_popped s) as (_ & P2 & _ & P4 & P5). unfold acc_inv. rewrite P4, P5. split; auto.
      intros n j. unfold known. rewrite P2.
      destruct (loop_net_cases s) as [E|[(a & A & _ & _ & E)|(a & t & A & _ & E)]]; rewrite E.
      - apply K.
      - simpl. rewrite entries_app. simpl. intros [I|[I|(a0 & A0 & B & C)]]; apply K.
        + left. exact I.
        + apply in_app_or in I. destruct I as [I|[I|[]]]; [right; left; exact I|].
          inversion I; subst. right. right. eauto.
        + inversion A0; subst. simpl. right. right. eauto.
      - unfold finish. simpl. rewrite entries_app. simpl. intros [I|[I|(a0 & A0 & _)]]; [| |discriminate]; apply K.
        + left. exact I.
        + apply in_app_or in I. destruct I as [I|[I|[]]]; [right; left; exact I|].
          inversion I; subst. right. right. eauto. }
    unfold loop. set (s1 := loop_net s) in *. destruct (act s1) eqn:A; auto.
    destruct (start_next _ _ _) as [[[q' fs'] a'] lg'] eqn:SN.
    destruct (start_next_popped _ _ _ _ _ _ _ SN) as (_ & _ & Q3). destruct K1 as (L1 & K1).
    unfold acc_inv. simpl. rewrite Q3. split; auto. intros n j KN. apply K1.
    destruct (start_next_known _ _ _ _ _ _ _ SN n j KN) as [I|I]; [left|right; left]; exact I.
  - unfold net. destruct (act s) as [a|] eqn:A; [|split; auto].
    destruct (a_pend a); [split; auto|]. destruct (compatible _ _); [|split; auto].
    unfold acc_inv, known. simpl. split; auto. intros n j [I|[I|(a0 & A0 & B & C)]]; apply K.
    + left. exact I.
    + right. left. exact I.
    + inversion A0; subst. simpl. right. right. eauto.
  - unfold acc_inv, known. simpl. split; auto.
Qed.

Lemma acc_inv_run : forall fs ops, acc_inv (run (init fs) ops).
Proof.
  intros. apply run_inv; [apply step_acc|]. unfold acc_inv, known, init. simpl. split; auto.
  intros n i [[]|[[]|(a & A & _)]]. discriminate.
Qed.

Lemma popped_entries : forall l n, In n (popped l) -> exists i, In (n, i) (entries l) /\ (In (LStart n i) l \/ In (LCrash n i) l).
Proof.
  induction l as [|e r IH]; intros n H; simpl in H; [contradiction|].
  apply in_app_or in H. destruct H as [H|H].
  - destruct e; simpl in H; try contradiction; destruct H as [<-|[]]; eexists; split;
      try (simpl; left; reflexivity); simpl; auto.
  - destruct (IH _ H) as (i & A & B). exists i. split.
    + unfold entries. simpl. apply in_or_app. right. exact A.
    + destruct B; [left|right]; right; assumption.
Qed.

(* entries leave the queue in the order in which they were accepted, each one is the flow that was
   accepted at that position, and no accepted entry is lost: it is taken, still queued, or was
   removed by stop_replay *)
Theorem queue_order : forall fs ops,
  let s := run (init fs) ops in
  StronglySorted lt (popped (log s) ++ map fst (queue s))
  /\ (forall n i, In (LStart n i) (log s) \/ In (LCrash n i) (log s) \/ In (n, i) (queue s) ->
        nth_error (accepted (log s)) n = Some i)
  /\ (forall n, n < length (accepted (log s)) ->
        In n (popped (log s)) \/ In n (map fst (queue s)) \/ In n (stopped (log s))).
Proof.
  intros fs ops s. destruct (order_inv_run fs ops) as (S & F & M). destruct (acc_inv_run fs ops) as (L & K).
  fold s in S, F, M, L, K. repeat split; auto.
  - intros n i [I|[I|I]]; apply K.
    + right. left. unfold entries. apply in_flat_map. exists (LStart n i). split; simpl; auto.
    + right. left. unfold entries. apply in_flat_map. exists (LCrash n i). split; simpl; auto.
    + left. exact I.
  - intros n N. rewrite L in N. destruct (M n N) as [I|I]; auto. apply in_app_or in I. tauto.
Qed.

(* ------------------------------------------------------------------ outcome *)
Definition fin_ok (e : ev) : Prop :=
  match e with LFin _ _ r e => r <> None \/ e = true | _ => True end.

Lemma start_next_fin : forall q fs lg q' fs' a' lg',
  start_next q fs lg = (q', fs', a', lg') -> Forall fin_ok lg -> Forall fin_ok lg'.
Proof.
  induction q as [|[n i] r IH]; intros fs lg q' fs' a' lg' H F; simpl in H.
  - inversion H; subst. exact F.
  - destruct (nth_error fs i) as [f|].
    + destruct (negb (o_req (fo (cf f)))).
      * eapply IH; [exact H|]. apply Forall_app. split; auto. repeat constructor.
      * destruct (o_resp (fo (cf f))).
        -- eapply IH; [exact H|]. apply Forall_app. split; auto.
           constructor; [exact I|]. constructor; [exact I|]. constructor; [left; discriminate|constructor].
        -- inversion H; subst. apply Forall_app. split; auto. repeat constructor.
    + eapply IH; [exact H|]. apply Forall_app. split; auto. repeat constructor.
Qed.

Lemma step_fin : forall s o, Forall fin_ok (log s) -> Forall fin_ok (log (step s o)).
Proof.
  intros s o F. assert (F1 : Forall fin_ok (log (loop_net s))).
  { destruct (loop_net_cases s) as [E|[(a & A & _ & _ & E)|(a & t & A & _ & E)]]; rewrite E; auto.
    - simpl. apply Forall_app. split; auto. repeat constructor.
    - unfold finish. simpl. apply Forall_app. split; auto. constructor; [|constructor].
      unfold fin_ok, fin_resp, fin_err, finish_edit. destruct t; simpl; [left; discriminate|right; reflexivity]. }
  destruct o as [ids| | |r|i e]; simpl.
  - unfold start_replay. destruct (start_loop _ _ _ _ _ _) as [[[fs q] nx] upd]. simpl.
    apply Forall_app. split; auto. repeat constructor.
  - unfold stop_replay. simpl. apply Forall_app. split; auto. repeat constructor.
  - unfold loop. set (s1 := loop_net s) in *. destruct (act s1); auto.
    destruct (start_next _ _ _) as [[[q' fs'] a'] lg'] eqn:SN. simpl. eapply start_next_fin; eauto.
  - unfold net. destruct (act s) as [a|]; auto. destruct (a_pend a); auto. destruct (compatible _ _); auto.
  - exact F.
Qed.

Theorem outcome : forall fs ops n i r e,
  In (LFin n i r e) (log (run (init fs) ops)) -> r <> None \/ e = true.
Proof.
  intros fs ops n i r e H.
  assert (F : Forall fin_ok (log (run (init fs) ops))).
  { apply (run_inv (fun s => Forall fin_ok (log s))); [apply step_fin|]. constructor. }
  rewrite Forall_forall in F. apply (F _ H).
Qed.

(* the state of the flow when replay() returns is what the log says *)
Lemma finish_flow : forall s a t f, nth_error (flows s) (a_flow a) = Some f ->
  exists g, nth_error (flows (finish s a t)) (a_flow a) = Some g
    /\ o_resp (fo (cf g)) = fin_resp t (fo (cf f)) /\ o_err (fo (cf g)) = fin_err t (fo (cf f))
    /\ flive (cf g) = false
    /\ log (finish s a t) = log s ++ [LFin (a_seq a) (a_flow a) (o_resp (fo (cf g))) (o_err (fo (cf g)))].
Proof.
  intros s a t f N. unfold finish. simpl. rewrite updf_same, N. simpl. eexists. split; [reflexivity|].
  simpl. unfold obj_or_default, obj_at. rewrite N. simpl. repeat split; reflexivity.
Qed.

(* ------------------------------------------------------------------ progress and the wedge *)
Lemma can_fail : forall s a, act s = Some a -> a_phase a = Connecting -> a_pend a = None ->
  exists r, log (loop_net (net s NFailed)) = log s ++ [LFin (a_seq a) (a_flow a) r true]
            /\ act (loop_net (net s NFailed)) = None.
Proof.
  intros s a A P Q. unfold net. rewrite A, Q, P. simpl. unfold loop_net. simpl.
  eexists. split; reflexivity.
Qed.

Lemma can_connect : forall s a, act s = Some a -> a_phase a = Connecting -> a_pend a = None ->
  loop (net s NConnected) =
    mkSt (flows s) (queue s) (Some (mkAct (a_seq a) (a_flow a) Sent None)) (next_seq s)
         (log s ++ [LReq (a_seq a) (a_flow a)]).
Proof.
  intros s a A P Q. unfold loop, net. rewrite A, Q, P. simpl. unfold loop_net. simpl. reflexivity.
Qed.

Lemma can_respond : forall s a t, act s = Some a -> a_phase a = Sent -> a_pend a = None ->
  exists e, log (loop_net (net s (NResponse t))) = log s ++ [LFin (a_seq a) (a_flow a) (Some t) e]
            /\ act (loop_net (net s (NResponse t))) = None.
Proof.
  intros s a t A P Q. unfold net. rewrite A, Q, P. simpl. unfold loop_net. simpl.
  eexists. split; reflexivity.
Qed.

Lemma can_break : forall s a, act s = Some a -> a_phase a = Sent -> a_pend a = None ->
  exists r, log (loop_net (net s NBroken)) = log s ++ [LFin (a_seq a) (a_flow a) r true]
            /\ act (loop_net (net s NBroken)) = None.
Proof.
  intros s a A P Q. unfold net. rewrite A, Q, P. simpl. unfold loop_net. simpl.
  eexists. split; reflexivity.
Qed.

Definition corrupt (s : st) : Prop := exists a, act s = Some a /\ a_phase a = Corrupt.

Lemma step_corrupt_keeps : forall s o, corrupt s ->
  corrupt (step s o) /\ popped (log (step s o)) = popped (log s)
  /\ (forall n i r e, In (LFin n i r e) (log (step s o)) -> In (LFin n i r e) (log s)).
Proof.
  intros s o (a & A & P). destruct o as [ids| | |r|i e]; simpl.
  - unfold start_replay. destruct (start_loop _ _ _ _ _ _) as [[[fs q] nx] upd]. simpl.
    rewrite popped_app. simpl. rewrite app_nil_r. repeat split; auto. exists a; auto.
    intros n i0 r e I. apply in_app_or in I. destruct I as [I|[I|[]]]; auto. discriminate.
  - unfold stop_replay. simpl. rewrite popped_app. simpl. rewrite app_nil_r.
    assert (H : hits_connected s = false) by (unfold hits_connected; rewrite A, P; reflexivity).
    rewrite H. repeat split; auto. exists a; auto.
    intros n i0 r e I. apply in_app_or in I. destruct I as [I|[I|[]]]; auto. discriminate.
  - assert (E : loop_net s = s) by (unfold loop_net; rewrite A, P; reflexivity).
    unfold loop. rewrite E, A. repeat split; auto. exists a; auto.
  - unfold net. rewrite A. destruct (a_pend a); [repeat split; auto; exists a; auto|].
    rewrite P. simpl. repeat split; auto. exists a; auto.
  - repeat split; auto. exists a; auto.
Qed.

(* once corrupted, no sequence of operations ever finishes the replay or serves the queue again *)
Theorem corrupt_forever : forall ops s, corrupt s ->
  corrupt (run s ops) /\ popped (log (run s ops)) = popped (log s)
  /\ (forall n i r e, In (LFin n i r e) (log (run s ops)) -> In (LFin n i r e) (log s)).
Proof.
  induction ops as [|o r IH]; intros s C; simpl; [auto|].
  destruct (step_corrupt_keeps s o C) as (C1 & P1 & F1).
  destruct (IH _ C1) as (C2 & P2 & F2). split; [exact C2|]. split; [congruence|].
  intros n i x e I. apply F1. eapply F2. exact I.
Qed.

(* the only way in: stop_replay while the flow in flight, request sent, is queued again *)
Lemma corrupt_only_by_stop : forall s o, ~ corrupt s -> corrupt (step s o) ->
  o = Stop /\ hits_connected s = true.
Proof.
  intros s o NC (a & A & P). destruct o as [ids| | |r|i e]; simpl in A.
  - unfold start_replay in A. destruct (start_loop _ _ _ _ _ _) as [[[fs q] nx] upd]. simpl in A.
    exfalso. apply NC. exists a; auto.
  - split; auto. unfold stop_replay in A. simpl in A. destruct (hits_connected s); auto.
    exfalso. apply NC. exists a; auto.
  - exfalso. unfold loop in A.
    destruct (loop_net_cases s) as [E|[(a0 & A0 & _ & _ & E)|(a0 & t & A0 & _ & E)]]; rewrite E in A.
    + destruct (act s) as [a1|] eqn:A1.
      * inversion A; subst. apply NC. exists a; auto.
      * destruct (start_next _ _ _) as [[[q' fs'] a'] lg'] eqn:SN. simpl in A. subst a'.
        clear -SN P. revert SN. generalize (flows s), (log s). induction (queue s) as [|[n i] r IH]; intros fs lg SN; simpl in SN.
        -- inversion SN.
        -- destruct (nth_error fs i) as [f|]; [|eauto].
           destruct (negb _); [eauto|]. destruct (o_resp _); [eauto|]. inversion SN; subst. discriminate.
    + simpl in A. inversion A; subst. discriminate.
    + unfold finish in A. simpl in A.
      destruct (start_next _ _ _) as [[[q' fs'] a'] lg'] eqn:SN. simpl in A. subst a'.
      clear -SN P. revert SN. generalize (updf (a_flow a0) (on_fl (fun f => set_live false (on_obj (finish_edit t) f))) (flows s)), (log s ++ [LFin (a_seq a0) (a_flow a0) (fin_resp t (obj_or_default (flows s) (a_flow a0))) (fin_err t (obj_or_default (flows s) (a_flow a0)))]).
      induction (queue s) as [|[n i] r IH]; intros fs lg SN; simpl in SN.
      * inversion SN.
      * destruct (nth_error fs i) as [f|]; [|eauto].
        destruct (negb _); [eauto|]. destruct (o_resp _); [eauto|]. inversion SN; subst. discriminate.
  - exfalso. unfold net in A. destruct (act s) as [a0|] eqn:A0; [|congruence].
    destruct (a_pend a0); [inversion A; subst; apply NC; exists a; auto|].
    destruct (compatible (a_phase a0) r) eqn:CP.
    + simpl in A. inversion A; subst. simpl in P. rewrite P in CP. destruct r; discriminate.
    + inversion A; subst. apply NC. exists a; auto.
  - exfalso. apply NC. exists a; auto.
Qed.

(* ------------------------------------------------------------------ crash *)
Definition req_at (fs : list cflow) (i : nat) : bool :=
  match nth_error fs i with Some f => o_req (fo (cf f)) | None => false end.

Lemma req_at_updf : forall fs i j g, (forall f, o_req (fo (cf (g f))) = o_req (fo (cf f))) ->
  req_at (updf i g fs) j = req_at fs j.
Proof.
  intros fs i j g H. unfold req_at. destruct (Nat.eq_dec i j) as [->|D].
  - rewrite updf_same. destruct (nth_error fs j); simpl; auto.
  - rewrite updf_other by exact D. reflexivity.
Qed.

Lemma start_next_crash : forall q fs lg q' fs' a' lg' n i,
  start_next q fs lg = (q', fs', a', lg') -> In (LCrash n i) lg' ->
  In (LCrash n i) lg \/ (In (n, i) q /\ req_at fs i = false).
Proof.
  induction q as [|[m j] r IH]; intros fs lg q' fs' a' lg' n i H I; simpl in H.
  - inversion H; subst. auto.
  - destruct (nth_error fs j) as [f|] eqn:N.
    + destruct (negb (o_req (fo (cf f)))) eqn:R.
      * destruct (IH _ _ _ _ _ _ _ _ H I) as [J|[J1 J2]]; [|right; split; [right|]; auto].
        apply in_app_or in J. destruct J as [J|[J|[]]]; auto. inversion J; subst.
        right. split; [left; reflexivity|]. unfold req_at. rewrite N. destruct (o_req _); auto; discriminate.
      * destruct (o_resp (fo (cf f))).
        -- destruct (IH _ _ _ _ _ _ _ _ H I) as [J|[J1 J2]].
           ++ apply in_app_or in J. destruct J as [J|[J|[J|[J|[]]]]]; auto; discriminate.
           ++ right. split; [right; exact J1|]. rewrite req_at_updf in J2; auto.
        -- inversion H; subst. apply in_app_or in I. destruct I as [I|[I|[]]]; auto. discriminate.
    + destruct (IH _ _ _ _ _ _ _ _ H I) as [J|[J1 J2]]; [|right; split; [right|]; auto].
      apply in_app_or in J. destruct J as [J|[J|[]]]; auto. inversion J; subst.
      right. split; [left; reflexivity|]. unfold req_at. rewrite N. reflexivity.
Qed.

(* the except branch is taken only for a queued flow that has lost its request *)
Theorem crash_only_without_request : forall s o n i,
  In (LCrash n i) (log (step s o)) -> In (LCrash n i) (log s) \/
  (o = Loop /\ In (n, i) (queue s) /\ req_at (flows s) i = false).
Proof.
  intros s o n i I. destruct o as [ids| | |r|j e]; simpl in I.
  - unfold start_replay in I. destruct (start_loop _ _ _ _ _ _) as [[[fs q] nx] upd]. simpl in I.
    apply in_app_or in I. destruct I as [I|[I|[]]]; auto. discriminate.
  - unfold stop_replay in I. simpl in I. apply in_app_or in I. destruct I as [I|[I|[]]]; auto. discriminate.
  - unfold loop in I.
    assert (LN : In (LCrash n i) (log (loop_net s)) -> In (LCrash n i) (log s)).
    { destruct (loop_net_cases s) as [E|[(a & A & _ & _ & E)|(a & t & A & _ & E)]]; rewrite E; auto.
      - simpl. intros J. apply in_app_or in J. destruct J as [J|[J|[]]]; auto. discriminate.
      - unfold finish. simpl. intros J. apply in_app_or in J. destruct J as [J|[J|[]]]; auto. discriminate. }
    destruct (act (loop_net s)) eqn:A; [left; apply LN; exact I|].
    destruct (start_next _ _ _) as [[[q' fs'] a'] lg'] eqn:SN. simpl in I.
    destruct (start_next_crash _ _ _ _ _ _ _ _ _ SN I) as [J|[J1 J2]]; [left; apply LN; exact J|].
    right. split; auto. destruct (loop_net_popped s) as (_ & Q & _). rewrite Q in J1. split; auto.
    destruct (loop_net_cases s) as [E|[(a & A0 & _ & _ & E)|(a & t & A0 & _ & E)]]; rewrite E in J2; auto.
    unfold finish in J2. simpl in J2. rewrite req_at_updf in J2; auto.
    intros [[] ?]. unfold finish_edit. destruct t; reflexivity.
  - unfold net in I. destruct (act s) as [a|]; auto. destruct (a_pend a); auto. destruct (compatible _ _); auto.
  - auto.
Qed.
