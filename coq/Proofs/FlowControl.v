(* Proofs/FlowControl.v — intercepted flows are held; resume and kill release the hook exactly once. *)
From Coq Require Import List Bool Arith Lia.
From MV Require Import Model.LayerCore Model.FlowControl.
Import ListNotations.

Ltac cases_fl f :=
  destruct f as [i l k r p n]; destruct i, l, k, r as [|[|]], p; simpl in *.

(* a hook suspended in wait_for_resume belongs to an intercepted flow whose event is clear:
   it is never stuck, Resume (and Kill, when killable) will release it *)
Definition finv (f : fl) : Prop :=
  hp f = HWaiting -> intercepted f = true /\ rev f = Ev false.

Lemma finv0 : finv fl0.
Proof. intros H; discriminate. Qed.

Lemma fstep_inv f o : finv f -> finv (fstep f o).
Proof.
  unfold finv. intros Hw. destruct o; cases_fl f; intros H; try discriminate;
    try (split; reflexivity); try (destruct (Hw eq_refl); split; congruence); try (apply Hw; exact H).
Qed.

Lemma frun_inv ops : forall f, finv f -> finv (frun f ops).
Proof. induction ops as [|o ops IH]; intros f H; simpl; [exact H|]. apply IH, fstep_inv, H. Qed.

(* (a) while the hook waits, only Resume or Kill can move it *)
Lemma held f o :
  hp f = HWaiting -> o <> Resume -> o <> Kill -> hp (fstep f o) = HWaiting.
Proof.
  intros H Hr Hk. destruct o; try contradiction; cases_fl f; try discriminate; reflexivity.
Qed.

(* (b) Resume releases a waiting hook; it completes at the next loop step, and stays completed *)
Lemma resume_completes f :
  finv f -> hp f = HWaiting ->
  let f1 := fstep f Resume in
  hp f1 = HReleased /\ intercepted f1 = false /\ releases f1 = S (releases f) /\
  hp (fstep f1 LoopStep) = HDone.
Proof.
  intros Hi H. destruct (Hi H) as [Hx Hr].
  cases_fl f; try discriminate; repeat split.
Qed.

Lemma done_absorbing f o : hp f = HDone -> hp (fstep f o) = HDone.
Proof. intros H. destruct o; cases_fl f; try discriminate; reflexivity. Qed.

(* (c) Kill on a killable waiting flow releases the hook and marks the flow killed and not live *)
Lemma kill_completes f :
  finv f -> hp f = HWaiting -> live f = true -> killed f = false ->
  let f1 := fstep f Kill in
  hp f1 = HReleased /\ killed f1 = true /\ live f1 = false /\ intercepted f1 = false /\
  hp (fstep f1 LoopStep) = HDone.
Proof.
  intros Hi H Hl Hk. destruct (Hi H) as [Hx Hr].
  cases_fl f; try discriminate; repeat split.
Qed.

(* (d) the hook never completes out of a wait without a release *)
Lemma completes_only_released f o :
  hook_done f = false -> hook_done (fstep f o) = true ->
  (o = LoopStep /\ hp f = HReleased) \/ (o = HookWait /\ hp f = HNotStarted /\ (intercepted f = false \/ rev f = Ev true)).
Proof.
  intros Hn Hd. destruct o; cases_fl f; try discriminate; auto.
Qed.

Lemma released_counted f o :
  hp f <> HReleased -> hp (fstep f o) = HReleased -> releases (fstep f o) = S (releases f) /\ (o = Resume \/ o = Kill).
Proof.
  intros Hn H. destruct o; cases_fl f; try discriminate; try congruence; split; auto.
Qed.

(* reachable-state versions *)
Theorem waiting_is_resumable ops :
  let f := frun fl0 ops in
  hp f = HWaiting ->
  intercepted f = true /\
  hp (fstep (fstep f Resume) LoopStep) = HDone /\
  (live f = true -> killed f = false ->
     let f' := fstep (fstep f Kill) LoopStep in hp f' = HDone /\ killed f' = true /\ live f' = false).
Proof.
  intros f H. pose proof (frun_inv ops fl0 finv0) as Hi. fold f in Hi.
  destruct (Hi H) as [Hx _]. split; [exact Hx|]. split.
  - apply (resume_completes f Hi H).
  - intros Hl Hk. pose proof (kill_completes f Hi H Hl Hk) as Hk2. cbv zeta in Hk2.
    destruct Hk2 as (_ & A & B & _ & C). cbv zeta.
    assert (E : forall g, hp g = HReleased -> killed (fstep g LoopStep) = killed g /\ live (fstep g LoopStep) = live g)
      by (intros g Hg; cases_fl g; try discriminate; split; reflexivity).
    pose proof (proj1 (kill_completes f Hi H Hl Hk)) as Hrel. cbv zeta in Hrel.
    destruct (E _ Hrel) as [E1 E2]. rewrite E1, E2. repeat split; assumption.
Qed.

(* ---- the relay skeleton: nothing is sent before the hook completes; killed => never sent ---- *)
Definition has_tag (t : nat) (out : list cmd) : bool := existsb (fun c => Nat.eqb (ctag c) t) out.

Lemma relay_holds me ctr k i :
  exists kont, process me (relay_handler ctr (Ext k i))
  = (Waiting ctr kont, [mkCmd ctr TAG_MSG_HOOK (Owned me)], [TPause ctr]) /\
  (forall v, Nat.odd v = true ->
     let '(_, out, _) := process me (kont (Some v)) in has_tag TAG_SEND out = false /\ has_tag TAG_ERR_HOOK out = true) /\
  (forall v, Nat.odd v = false ->
     let '(_, out, _) := process me (kont (Some v)) in
     out = [mkCmd (ctr + 1) TAG_SEND NotBlocking]).
Proof.
  eexists. split; [reflexivity|]. split; intros v Hv; simpl; rewrite Hv; simpl; [split; reflexivity | reflexivity].
Qed.
