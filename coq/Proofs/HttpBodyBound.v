(* Proofs/HttpBodyBound.v -- the memory bound: with body_size_limit = L (L >= 0), in every reachable state of a
   stream each body buffer holds at most L bytes plus the largest chunk received so far; while a body is merely
   buffered (the state_consume states) it holds at most L bytes.  Bytes kept on request by store_streamed_bodies while a
   body is streamed are the only exception, and are excluded by hypothesis. *)
From Coq Require Import List Bool NArith ZArith Lia.
From MV Require Import Base.Bytes Model.HttpBody Proofs.HttpBodyBase Proofs.HttpBodyLimit Proofs.HttpBodySteps.
Import ListNotations.
Open Scope Z_scope.

Definition req_len (e : event) : Z := match e with ReqData d => blen d | _ => 0 end.
Definition resp_len (e : event) : Z := match e with RespData d => blen d | _ => 0 end.
(* largest request / response chunk of a history *)
Fixpoint max_req (evs : list event) : Z :=
  match evs with [] => 0 | e :: r => Z.max (req_len e) (max_req r) end.
Fixpoint max_resp (evs : list event) : Z :=
  match evs with [] => 0 | e :: r => Z.max (resp_len e) (max_resp r) end.

Lemma req_len_nonneg e : 0 <= req_len e.
Proof. destruct e; cbn; try lia; apply blen_nonneg. Qed.
Lemma resp_len_nonneg e : 0 <= resp_len e.
Proof. destruct e; cbn; try lia; apply blen_nonneg. Qed.
Lemma max_req_nonneg evs : 0 <= max_req evs.
Proof. induction evs; cbn; lia. Qed.
Lemma max_resp_nonneg evs : 0 <= max_resp evs.
Proof. induction evs; cbn; lia. Qed.

Ltac fin C := rewrite C; let X := fresh in intros X; first [discriminate | contradiction].

Section Bound.
Variable S : Type.
Variable fq fs : S -> bytes -> S * sres.
Variable cfg : config.
Variable L : Z.
Hypothesis HL : parse_size (o_limit cfg) = PVal L.
Hypothesis HL0 : 0 <= L.

Notation st := (st S).
Notation handle_event := (handle_event S fq fs cfg).
Notation run := (run S fq fs cfg).

Definition req_inv (M : Z) (s : st) : Prop :=
  match client_state s with
  | Uninit | WaitHeaders | Done => request_body_buf s = []
  | Consume => blen (request_body_buf s) <= L
  | Streaming => o_store cfg = false -> request_body_buf s = []
  | Errored => o_store cfg = false -> blen (request_body_buf s) <= L + M
  end.
Definition resp_inv (M : Z) (s : st) : Prop :=
  match server_state s with
  | Uninit | WaitHeaders | Done => response_body_buf s = []
  | Consume => blen (response_body_buf s) <= L
  | Streaming => o_store cfg = false -> response_body_buf s = []
  | Errored => o_store cfg = false -> blen (response_body_buf s) <= L + M
  end.
Definition inv (Mq Ms : Z) (s : st) : Prop :=
  req_inv Mq s /\ resp_inv Ms s /\ (client_state s = WaitHeaders -> server_state s = Uninit).

Lemma req_inv_weak M s : 0 <= M -> req_inv M s -> o_store cfg = false -> blen (request_body_buf s) <= L + M.
Proof.
  unfold req_inv. intros HM H ST. destruct (client_state s); try (rewrite H; rewrite ?blen_nil; lia); auto; try lia.
  rewrite (H ST), blen_nil. lia.
Qed.
Lemma resp_inv_weak M s : 0 <= M -> resp_inv M s -> o_store cfg = false -> blen (response_body_buf s) <= L + M.
Proof.
  unfold resp_inv. intros HM H ST. destruct (server_state s); try (rewrite H; rewrite ?blen_nil; lia); auto; try lia.
  rewrite (H ST), blen_nil. lia.
Qed.
Lemma req_inv_mono M M' s : M <= M' -> req_inv M s -> req_inv M' s.
Proof. unfold req_inv. destruct (client_state s); auto. intros; specialize (H0 H1); lia. Qed.
Lemma resp_inv_mono M M' s : M <= M' -> resp_inv M s -> resp_inv M' s.
Proof. unfold resp_inv. destruct (server_state s); auto. intros; specialize (H0 H1); lia. Qed.

(* transfer of an invariant to a state with the same buffer whose state is unchanged or errored *)
Lemma req_inv_same M s s' : 0 <= M ->
  request_body_buf s' = request_body_buf s -> (client_state s' = client_state s \/ client_state s' = Errored) ->
  req_inv M s -> req_inv M s'.
Proof.
  intros HM HB [HC|HC] H.
  - unfold req_inv in *. rewrite HC, HB. exact H.
  - pose proof (req_inv_weak M s HM H) as W. unfold req_inv. rewrite HC, HB. exact W.
Qed.
Lemma resp_inv_same M s s' : 0 <= M ->
  response_body_buf s' = response_body_buf s -> (server_state s' = server_state s \/ server_state s' = Errored) ->
  resp_inv M s -> resp_inv M s'.
Proof.
  intros HM HB [HC|HC] H.
  - unfold resp_inv in *. rewrite HC, HB. exact H.
  - pose proof (resp_inv_weak M s HM H) as W. unfold resp_inv. rewrite HC, HB. exact W.
Qed.

Lemma truthy : truthy_opts cfg = true.
Proof. unfold truthy_opts. rewrite (limit_truthy cfg L HL). apply orb_true_r. Qed.

Lemma side_bound (buf : bytes) :
  (nonempty buf = true -> truthy_opts cfg = true -> over (parse_size (o_limit cfg)) (blen buf) = false) ->
  blen buf <= L.
Proof.
  intros H. destruct (nonempty buf) eqn:NE.
  - specialize (H eq_refl truthy). rewrite HL in H. cbn in H. apply Z.ltb_ge in H. exact H.
  - apply nonempty_false in NE. subst. rewrite blen_nil. exact HL0.
Qed.

Theorem inv_step (s s' : st) e c Mq Ms :
  0 <= Mq -> 0 <= Ms ->
  handle_event s e = Some (s', c) -> inv Mq Ms s ->
  inv (Z.max Mq (req_len e)) (Z.max Ms (resp_len e)) s'.
Proof.
  intros HMq HMs H (IQ & IS & IC).
  pose proof (req_len_nonneg e) as Nq. pose proof (resp_len_nonneg e) as Ns.
  assert (HMq' : 0 <= Z.max Mq (req_len e)) by lia. assert (HMs' : 0 <= Z.max Ms (resp_len e)) by lia.
  destruct (is_request_event e) eqn:RQ.
  - (* request events *)
    destruct (client_state s) eqn:CS.
    + unfold HttpBody.handle_event in H. rewrite RQ, CS in H. discriminate.
    + (* WaitHeaders *)
      assert (B : request_body_buf s = []) by (unfold req_inv in IQ; rewrite CS in IQ; exact IQ).
      assert (SU : server_state s = Uninit) by auto.
      assert (RB : response_body_buf s = []) by (unfold resp_inv in IS; rewrite SU in IS; exact IS).
      destruct e; try (unfold HttpBody.handle_event in H; rewrite CS in H; cbn in H; discriminate).
      apply step_wait_request_headers in H; auto.
      destruct H as (B' & R' & _ & [(C1 & _ & _ & S1)|(_ & S1 & [(C1 & _)|[(C1 & _)|(C1 & _)]])]);
        (split; [unfold req_inv; rewrite C1, B', ?blen_nil; auto; intros; lia|]);
        (split; [unfold resp_inv; rewrite S1, ?SU, R', RB; auto|]); rewrite C1; discriminate.
    + (* Consume *)
      destruct e; try discriminate.
      * unfold HttpBody.handle_event in H. rewrite CS in H. cbn in H. discriminate.
      * apply step_consume_request_data in H; auto. cbn zeta in H.
        assert (BQ : blen (request_body_buf s) <= L) by (unfold req_inv in IQ; rewrite CS in IQ; exact IQ).
        destruct H as (R' & _ & _ & [(C1 & B1 & _ & S1 & SIDE)|[(C1 & _ & _ & B1 & S1 & _)|[(C1 & _ & S1 & B1 & _)|(C1 & _ & _ & B1 & _ & S1)]]]).
        -- split; [unfold req_inv; rewrite C1, B1; apply side_bound; exact SIDE|].
           split; [apply resp_inv_mono with Ms; [lia|]; apply (resp_inv_same Ms s); auto|].
           rewrite C1; discriminate.
        -- split; [unfold req_inv; rewrite C1, B1; intros _; rewrite blen_app; cbn [req_len]; lia|].
           split; [apply resp_inv_mono with Ms; [lia|]; apply (resp_inv_same Ms s); auto|].
           rewrite C1; discriminate.
        -- split; [unfold req_inv; rewrite C1, B1; intros ->; reflexivity|].
           split; [apply resp_inv_mono with Ms; [lia|]; apply (resp_inv_same Ms s); auto|].
           rewrite C1; discriminate.
        -- split; [unfold req_inv; rewrite C1, B1, blen_nil; intros; lia|].
           split; [apply resp_inv_mono with Ms; [lia|]; apply (resp_inv_same Ms s); auto|].
           rewrite C1; discriminate.
      * apply step_consume_request_eom in H; auto.
        destruct H as (R' & _ & _ & _ & B1 & C1 & _ & OK & KO).
        split; [unfold req_inv; rewrite C1; exact B1|].
        split; [|rewrite C1; discriminate].
        apply resp_inv_mono with Ms; [lia|]. apply (resp_inv_same Ms s); auto.
        destruct (c_ok cfg); [left; apply OK; auto|right; apply KO; auto].
    + (* Streaming *)
      pose proof H as H0. apply step_stream_request in H; auto.
      destruct H as (R' & S1 & _ & _ & NS & REST).
      assert (BQ : o_store cfg = false -> request_body_buf s = []) by (unfold req_inv in IQ; rewrite CS in IQ; exact IQ).
      split; [|split; [apply resp_inv_mono with Ms; [lia|]; apply (resp_inv_same Ms s); auto|]].
      * destruct e; try discriminate.
        -- unfold HttpBody.handle_event in H0. rewrite CS in H0. cbn in H0. discriminate.
        -- destruct REST as (C1 & _). unfold req_inv. rewrite C1. intros ST. rewrite (NS ST). auto.
        -- destruct REST as (C1 & B1 & _). unfold req_inv. rewrite C1.
           destruct (o_store cfg) eqn:ST; [auto|]. rewrite (NS eq_refl). auto.
      * destruct e; try discriminate; try (destruct REST as (C1 & _); rewrite C1; discriminate).
    + unfold HttpBody.handle_event in H. rewrite RQ, CS in H. discriminate.
    + (* Errored *)
      rewrite (step_request_errored S fq fs cfg s e CS RQ) in H. inversion H; subst.
      split; [apply req_inv_mono with Mq; [lia|auto]|]. split; [apply resp_inv_mono with Ms; [lia|auto]|].
      rewrite CS; discriminate.
  - (* response events *)
    assert (NW : client_state s <> WaitHeaders).
    { intros CW. specialize (IC CW). unfold HttpBody.handle_event in H. rewrite RQ, IC in H. discriminate. }
    destruct (server_state s) eqn:SS.
    + unfold HttpBody.handle_event in H. rewrite RQ, SS in H. discriminate.
    + (* WaitHeaders *)
      assert (B : response_body_buf s = []) by (unfold resp_inv in IS; rewrite SS in IS; exact IS).
      destruct e; try discriminate; try (unfold HttpBody.handle_event in H; rewrite SS in H; cbn in H; discriminate).
      apply step_wait_response_headers in H; auto.
      destruct H as (B' & R' & _ & _ & [(S1 & C1 & _)|(_ & C1 & [(S1 & _)|(S1 & _)])]);
        (split; [apply req_inv_mono with Mq; [lia|]; apply (req_inv_same Mq s); auto|]);
        (split; [unfold resp_inv; rewrite S1, B', ?blen_nil; auto; intros; lia|]);
        fin C1.
    + (* Consume *)
      destruct e; try discriminate.
      * unfold HttpBody.handle_event in H. rewrite SS in H. cbn in H. discriminate.
      * apply step_consume_response_data in H; auto. cbn zeta in H.
        assert (BQ : blen (response_body_buf s) <= L) by (unfold resp_inv in IS; rewrite SS in IS; exact IS).
        destruct H as (R' & _ & _ & [(S1 & C1 & B1 & _ & SIDE)|[(S1 & C1 & _ & _ & B1 & _)|(S1 & C1 & _ & B1 & _)]]).
        -- split; [apply req_inv_mono with Mq; [lia|]; apply (req_inv_same Mq s); auto|].
           split; [unfold resp_inv; rewrite S1, B1; apply side_bound; exact SIDE|]. fin C1.
        -- split; [apply req_inv_mono with Mq; [lia|]; apply (req_inv_same Mq s); auto|].
           split; [unfold resp_inv; rewrite S1, B1; intros _; rewrite blen_app; cbn [resp_len]; lia|].
           fin C1.
        -- split; [apply req_inv_mono with Mq; [lia|]; apply (req_inv_same Mq s); auto|].
           split; [unfold resp_inv; rewrite S1, B1; intros ->; reflexivity|]. fin C1.
      * apply step_consume_response_eom in H; auto.
        destruct H as (R' & C1 & _ & _ & _ & B1 & S1 & _).
        split; [apply req_inv_mono with Mq; [lia|]; apply (req_inv_same Mq s); auto|].
        split; [unfold resp_inv; rewrite S1; exact B1|]. fin C1.
    + (* Streaming *)
      pose proof H as H0. apply step_stream_response in H; auto.
      destruct H as (R' & C1 & _ & _ & _ & NS & REST).
      assert (BQ : o_store cfg = false -> response_body_buf s = []) by (unfold resp_inv in IS; rewrite SS in IS; exact IS).
      split; [apply req_inv_mono with Mq; [lia|]; apply (req_inv_same Mq s); auto|].
      split; [|fin C1].
      destruct e; try discriminate.
      * unfold HttpBody.handle_event in H0. rewrite SS in H0. cbn in H0. discriminate.
      * unfold resp_inv. rewrite REST. intros ST. rewrite (NS ST). auto.
      * destruct REST as (S1 & B1). unfold resp_inv. rewrite S1.
        destruct (o_store cfg) eqn:ST; [auto|]. rewrite (NS eq_refl). auto.
    + unfold HttpBody.handle_event in H. rewrite RQ, SS in H. discriminate.
    + rewrite (step_response_errored S fq fs cfg s e SS RQ) in H. inversion H; subst.
      split; [apply req_inv_mono with Mq; [lia|auto]|]. split; [apply resp_inv_mono with Ms; [lia|auto]|].
      intros X; contradiction.
Qed.

Lemma inv_init q0 s0 : inv 0 0 (init S q0 s0).
Proof. unfold inv, req_inv, resp_inv; cbn. auto. Qed.

(* the invariant holds after every history *)
Theorem inv_run evs : forall (s s' : st) out cr Mq Ms,
  0 <= Mq -> 0 <= Ms -> inv Mq Ms s -> run s evs = (s', out, cr) ->
  inv (Z.max Mq (max_req evs)) (Z.max Ms (max_resp evs)) s'.
Proof.
  induction evs as [|e r IH]; intros s s' out cr Mq Ms HMq HMs I R.
  - cbn in R. inversion R; subst. cbn. rewrite !Z.max_l by lia. exact I.
  - cbn in R. destruct (handle_event s e) as [[s1 c1]|] eqn:HE.
    + destruct (run s1 r) as [[s2 c2] cr2] eqn:RR. inversion R; subst.
      pose proof (inv_step _ _ _ _ _ _ HMq HMs HE I) as I1.
      pose proof (req_len_nonneg e). pose proof (resp_len_nonneg e).
      eapply IH in RR; [|idtac|idtac|exact I1]; try lia.
      cbn [max_req max_resp].
      destruct RR as (A & B & C). split; [|split; auto].
      * eapply req_inv_mono; [|exact A]. lia.
      * eapply resp_inv_mono; [|exact B]. lia.
    + inversion R; subst. destruct I as (A & B & C). split; [|split; auto].
      * eapply req_inv_mono; [|exact A]. pose proof (max_req_nonneg (e :: r)). lia.
      * eapply resp_inv_mono; [|exact B]. pose proof (max_resp_nonneg (e :: r)). lia.
Qed.

(* the bound, for every history from the initial state, every prefix being a history itself *)
Theorem buffer_bound q0 s0 evs (s : st) out cr :
  run (init S q0 s0) evs = (s, out, cr) ->
  (* while buffering, never more than the limit *)
  (client_state s = Consume -> blen (request_body_buf s) <= L)
  /\ (server_state s = Consume -> blen (response_body_buf s) <= L)
  (* in every state: the limit plus one received chunk, unless streamed bytes are kept on request *)
  /\ (o_store cfg = false ->
      blen (request_body_buf s) <= L + max_req evs /\ blen (response_body_buf s) <= L + max_resp evs)
  (* streamed without buffering *)
  /\ (o_store cfg = false -> client_state s = Streaming -> request_body_buf s = [])
  /\ (o_store cfg = false -> server_state s = Streaming -> response_body_buf s = [])
  (* nothing is held before the head and after the message is complete *)
  /\ (client_state s = WaitHeaders \/ client_state s = Done -> request_body_buf s = [])
  /\ (server_state s = WaitHeaders \/ server_state s = Done -> response_body_buf s = []).
Proof.
  intros R. pose proof (inv_run evs _ _ _ _ 0 0 (Z.le_refl 0) (Z.le_refl 0) (inv_init q0 s0) R) as (A & B & _).
  pose proof (max_req_nonneg evs). pose proof (max_resp_nonneg evs).
  rewrite !Z.max_r in * by lia.
  repeat split.
  - intros C. unfold req_inv in A. rewrite C in A. exact A.
  - intros C. unfold resp_inv in B. rewrite C in B. exact B.
  - apply req_inv_weak; auto.
  - apply resp_inv_weak; auto.
  - intros ST C. unfold req_inv in A. rewrite C in A. auto.
  - intros ST C. unfold resp_inv in B. rewrite C in B. auto.
  - intros [C|C]; unfold req_inv in A; rewrite C in A; exact A.
  - intros [C|C]; unfold resp_inv in B; rewrite C in B; exact B.
Qed.

End Bound.
