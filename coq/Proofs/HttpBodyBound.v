(* Proofs/HttpBodyBound.v -- the memory bound: with body_size_limit = L, the body buffers of a stream never hold
   more than L bytes plus one received chunk (bytes kept on request by store_streamed_bodies while streaming excepted). *)
From Coq Require Import List Bool NArith ZArith Lia.
From MV Require Import Base.Bytes Model.HttpBody Proofs.HttpBodyBase Proofs.HttpBodyLimit.
Import ListNotations.
Open Scope Z_scope.

Ltac norm H :=
  cbv beta iota zeta delta
    [set_client set_server set_reqbuf set_respbuf set_req_framing set_resp_framing set_req_stream set_resp_stream
     set_fq_st set_fs_st set_req_content set_resp_content set_error set_live
     client_state server_state request_body_buf response_body_buf req_framing resp_framing req_stream resp_stream
     fq_st fs_st req_content resp_content flow_error flow_live
     hstate_eqb negb andb orb fst snd stream_truthy] in H.
Ltac break_hyp H :=
  repeat first
    [ rewrite relay_chunks_eq in H
    | progress norm H
    | progress cbn in H
    | match type of H with
      | context [match ?x with _ => _ end] => destruct x eqn:?
      | context [if ?x then _ else _] => destruct x eqn:?
      end ].

Section Bound.
Variable S : Type.
Variable fq fs : S -> bytes -> S * sres.
Variable cfg : config.
Variable L : Z.
Hypothesis HL : parse_size (o_limit cfg) = PVal L.
Hypothesis HL0 : 0 <= L.

Notation st := (st S).
Notation handle_event := (handle_event S fq fs cfg).
Notation check_body_size := (check_body_size S fq fs cfg).

(* invariant of the request side; M = largest request chunk received so far *)
Definition req_inv (M : Z) (s : st) : Prop :=
  match client_state s with
  | Uninit | WaitHeaders | Done => request_body_buf s = []
  | Consume => blen (request_body_buf s) <= L
  | Streaming => o_store cfg = false -> request_body_buf s = []
  | Errored => o_store cfg = false -> blen (request_body_buf s) <= L + M
  end.

Lemma cbs_req_inv (s : st) b s' c M :
  0 <= M ->
  check_body_size true s = Some (b, s', c) ->
  (client_state s = WaitHeaders /\ request_body_buf s = []) \/ client_state s = Consume ->
  blen (request_body_buf s) <= L + M ->
  (client_state s = WaitHeaders -> b = false -> client_state s' = WaitHeaders /\ request_body_buf s' = [])
  /\ (client_state s = WaitHeaders -> b = true -> client_state s' = Errored /\ request_body_buf s' = [])
  /\ (client_state s = Consume -> req_inv M s').
Proof.
  intros HM H Hst Hb.
  unfold HttpBody.check_body_size in H. rewrite (limit_truthy cfg L HL), orb_true_r in H. cbn [negb andb] in H.
  rewrite HL in H.
  unfold switch_to_stream, HttpBody.abort_body, start_request_stream, make_server_connection,
    handle_protocol_error_connect, state_stream_request_body, hook_requestheaders in H.
  destruct s as [cs ss qb sb qf sf qs rs q1 q2 qc sc er lv]. cbn in *.
  destruct (c_ok cfg) eqn:Hok; destruct (o_store cfg) eqn:Hsto;
    destruct (parse_size (o_stream cfg)) as [| |T] eqn:HT; destruct (p_req cfg) as [[| |]|] eqn:Hp;
    (destruct Hst as [[-> ->]| ->];
     [ cbn in H; break_hyp H; inversion H; subst; cbn; repeat split; auto; try discriminate; try congruence
     | destruct (nonempty qb) eqn:NE;
       [ cbn in H; destruct (blen qb <=? 0) eqn:E0; [apply Z.leb_le in E0; apply nonempty_true_blen in NE; lia|];
         destruct (L <? blen qb) eqn:EL;
         [ break_hyp H; inversion H; subst; unfold req_inv; cbn; repeat split; try discriminate; intros; lia
         | apply Z.ltb_ge in EL;
           break_hyp H; inversion H; subst; unfold req_inv; cbn; repeat split; try discriminate; intros; auto;
           try lia; try congruence ]
       | apply nonempty_false in NE; subst qb; cbn in H;
         break_hyp H; inversion H; subst; unfold req_inv; cbn; repeat split; try discriminate; intros;
         rewrite ?blen_nil; auto; try lia ] ]).
Qed.

End Bound.
