(* Proofs/ViewSteps.v -- every operation, from any state satisfying the invariant: it does not raise,
   re-establishes the invariant, keeps the guarded invariants under the guards, and its signals describe the change. *)
From Coq Require Import List Bool Arith NArith ZArith Lia Permutation Sorted.
From MV Require Import Base.Bytes Model.View Proofs.ViewBase Proofs.ViewSpec Proofs.ViewPrim Proofs.ViewOps.
Import ListNotations.

Definition post (o : op) (s s' : state) : Prop :=
  Inv s' /\ (M3 s -> M3 s') /\ (FreshV s -> FreshV s')
  /\ notif (raw_ids s) (log s') (raw_ids s').

Definition same_mem (s s' : state) : Prop := forall id, In id (raw_ids s') <-> In id (raw_ids s).

Lemma M1_mem s s' : cfg_eq s s' -> same_mem s s' -> M1 s -> M1 s'.
Proof. intros C V H id Hin. rewrite (attr_cfg _ _ id C), (ce_filt _ _ C). apply H, V, Hin. Qed.
Lemma M2_mem s s' : cfg_eq s s' -> same_mem s s' -> M2 s -> M2 s'.
Proof.
  intros C V H id Hin Hw. apply V. rewrite (ce_store _ _ C) in Hin. rewrite (wanted_cfg _ _ id C) in Hw. auto.
Qed.
Lemma M3_mem s s' : cfg_eq s s' -> same_mem s s' -> M3 s -> M3 s'.
Proof.
  intros C V H Hs id Hin. rewrite (ce_sm _ _ C) in Hs. rewrite (attr_cfg _ _ id C). apply H; [exact Hs | apply V, Hin].
Qed.
Lemma same_mem_view s s' : view s' = view s -> same_mem s s'.
Proof. intros V id. unfold raw_ids. rewrite V. tauto. Qed.

Lemma notif_refresh l l' tail : (tail = [] \/ tail = [StoreRefresh]) -> notif l (ViewRefresh :: tail) l'.
Proof.
  intros [->| ->]; apply (n_refresh _ l').
  - apply n_done. reflexivity.
  - apply n_srefresh, n_done. reflexivity.
Qed.

(* a state that differs from s only in fields the invariants do not read, or only by cfg-preserving settings growth *)
Lemma post_simple o s s' : Inv s -> updm s s' -> view s' = view s -> FocusOk s' ->
  notif (raw_ids s) (log s') (raw_ids s') -> post o s s'.
Proof.
  intros I U V F Nt. pose proof (u_cfg _ _ (um_upd _ _ U)) as Cf. split; [|split; [|split]].
  - apply (Inv_transfer s s'); auto; [apply (um_upd _ _ U) | eapply CoreV_updm; eauto; apply (i_core _ I)].
  - intros H. eapply M3_cfg; eauto.
  - intros H. eapply FreshV_cfg; eauto.
  - exact Nt.
Qed.

(* ---------- settings purge (sig_store_refresh) and delete (sig_store_remove) ---------- *)
Lemma sget_filter_none l (p : N -> bool) id : p id = false -> sget (filter (fun e => p (fst e)) l) id = None.
Proof.
  intros Hp. induction l as [|[i c0] t IH]; simpl; [reflexivity|].
  destruct (p i) eqn:E; simpl; [|exact IH].
  destruct (N.eqb i id) eqn:E2; [apply N.eqb_eq in E2; congruence | exact IH].
Qed.

Lemma cache_of_filter s (p : N -> bool) id o :
  cache_of (set_settings (filter (fun e => p (fst e)) (settings s)) s) id o = if p id then cache_of s id o else None.
Proof.
  unfold cache_of. simpl. destruct (p id) eqn:E; [rewrite sget_filter by exact E; reflexivity | rewrite sget_filter_none by exact E; reflexivity].
Qed.
Lemma sids_filter s (p : N -> bool) id :
  In id (settings_ids (set_settings (filter (fun e => p (fst e)) (settings s)) s)) -> p id = true /\ In id (settings_ids s).
Proof.
  unfold settings_ids. simpl. rewrite in_map_iff. intros ([i c] & E & H). simpl in E. subst i.
  apply filter_In in H as [H1 H2]. simpl in H2. split; [exact H2|]. apply in_map_iff. exists (id, c). auto.
Qed.

(* ---------- the simple operations ---------- *)
Lemma CoreV_same s s' : store s' = store s -> view s' = view s -> okey s' = okey s -> settings s' = settings s ->
  CoreV s -> CoreV s'.
Proof.
  intros A B C D [H1 H2 H3 H4]. constructor.
  - rewrite A. exact H1.
  - rewrite B. exact H2.
  - intros k id H. rewrite B in H. rewrite A, C. unfold cache_of. rewrite D. apply H3. exact H.
  - unfold raw_ids. rewrite B. exact H4.
Qed.

Lemma do_focus_follow b s : Inv s -> log s = [] -> exists s', do_op (SetFocusFollow b) s = Ok (tt, s') /\ post (SetFocusFollow b) s s'.
Proof.
  intros I L. eexists. split; [reflexivity|]. apply post_simple; auto.
  - apply updm_same_settings; [constructor; reflexivity | reflexivity].
  - apply (i_focus _ I).
  - simpl. rewrite L. apply n_done. reflexivity.
Qed.

Lemma do_set_reversed b s : Inv s -> log s = [] -> exists s', do_op (SetReversed b) s = Ok (tt, s') /\ post (SetReversed b) s s'.
Proof.
  intros I L. simpl. unfold set_reversed. msimp.
  set (s0 := set_reversed_f b s).
  assert (U0 : updm s s0) by (apply updm_same_settings; [constructor; reflexivity | reflexivity]).
  assert (C0 : CoreV s0) by (apply (CoreV_same s); auto; apply (i_core _ I)).
  destruct (send_view_refresh_spec s0 C0) as (s1 & E & X & F).
  exists s1. split; [exact E|]. apply post_simple; auto.
  - eapply updm_trans; [exact U0 | apply (sn_updm _ _ _ X)].
  - rewrite (sn_view _ _ _ X). reflexivity.
  - rewrite (sn_log _ _ _ X). simpl. rewrite L. apply notif_refresh. auto.
Qed.

(* _refilter after a change of filter / show_marked *)
Lemma refilter_post o s s0 : Inv s -> log s = [] ->
  heap s0 = heap s -> store s0 = store s -> okey s0 = okey s -> settings s0 = settings s -> log s0 = log s ->
  exists s', _refilter s0 = Ok (tt, s') /\ post o s s'.
Proof.
  intros I L Hh Hst Ho Hse Hl.
  assert (Nd : NoDup (store s0)) by (rewrite Hst; apply (c_store _ (i_core _ I))).
  destruct (refilter_spec s0 Nd) as (s' & E & U & Lg & C & F & A1 & A2 & A3 & Fv).
  exists s'. split; [exact E|]. split; [|split; [|split]].
  - constructor; auto. eapply Sids_upd; [exact U|].
    intros id H. rewrite Hst. apply (i_sids _ I). unfold settings_ids in *. rewrite Hse in H. exact H.
  - intros _. exact A3.
  - intros _. exact Fv.
  - rewrite Lg, Hl, L. apply notif_refresh. auto.
Qed.

Lemma do_set_filter n s : Inv s -> log s = [] -> exists s', do_op (SetFilter n) s = Ok (tt, s') /\ post (SetFilter n) s s'.
Proof. intros I L. simpl. unfold set_filter. msimp. apply refilter_post; auto. Qed.
Lemma do_toggle_marked s : Inv s -> log s = [] -> exists s', do_op ToggleMarked s = Ok (tt, s') /\ post ToggleMarked s s'.
Proof. intros I L. simpl. unfold toggle_marked. msimp. apply refilter_post; auto. Qed.

Lemma do_clear s : Inv s -> log s = [] -> exists s', do_op Clear s = Ok (tt, s') /\ post Clear s s'.
Proof.
  intros I L. simpl. unfold clear. msimp.
  set (s0 := set_view [] (set_store [] s)).
  assert (C0 : CoreV s0).
  { constructor; simpl; [constructor | apply ksorted_nil | intros k id [] | constructor]. }
  destruct (send_view_refresh_spec s0 C0) as (s1 & E1 & X1 & F1).
  rewrite (bind_ok _ _ _ _ _ E1). unfold send_store_refresh, emit, settings_sig_store_refresh. msimp.
  eexists. split; [reflexivity|].
  pose proof (u_cfg _ _ (um_upd _ _ (sn_updm _ _ _ X1))) as Cf.
  assert (V1 : view s1 = []) by (rewrite (sn_view _ _ _ X1); reflexivity).
  assert (S1 : store s1 = []) by (rewrite (ce_store _ _ Cf); reflexivity).
  split; [|split; [|split]].
  - constructor.
    + constructor; simpl; rewrite ?V1, ?S1; [constructor | apply ksorted_nil | intros k id [] | unfold raw_ids; simpl; rewrite V1; constructor].
    + intros id H. apply (sids_filter _ (fun i => memN i (store (set_log (log s1 ++ [StoreRefresh]) s1)))) in H as [H _].
      simpl in H. rewrite S1 in H. discriminate.
    + unfold FocusOk in *. simpl. exact F1.
    + intros id H. unfold raw_ids in H. simpl in H. rewrite V1 in H. destruct H.
    + intros id H. simpl in H. rewrite S1 in H. destruct H.
  - intros _ _ id H. unfold raw_ids in H. simpl in H. rewrite V1 in H. destruct H.
  - intros _ k id H. simpl in H. rewrite V1 in H. destruct H.
  - simpl. rewrite (sn_log _ _ _ X1). simpl. rewrite L. apply notif_refresh. auto.
Qed.

Lemma do_clear_not_marked s : Inv s -> log s = [] ->
  exists s', do_op ClearNotMarked s = Ok (tt, s') /\ post ClearNotMarked s s'.
Proof.
  intros I L. simpl. unfold clear_not_marked. msimp.
  set (s0 := set_store (filter (fun i => fmarked (attr s i)) (store s)) s).
  assert (Nd : NoDup (store s0)) by (simpl; apply NoDup_filter, (c_store _ (i_core _ I))).
  destruct (refilter_spec s0 Nd) as (s1 & E & U & Lg & C & F & A1 & A2 & A3 & Fv).
  rewrite (bind_ok _ _ _ _ _ E). unfold send_store_refresh, emit, settings_sig_store_refresh. msimp.
  eexists. split; [reflexivity|].
  set (t := set_log (log s1 ++ [StoreRefresh]) s1).
  set (p := fun i => memN i (store t)).
  assert (Cft : cfg_eq s1 (set_settings (filter (fun e => p (fst e)) (settings t)) t)) by (constructor; reflexivity).
  split; [|split; [|split]].
  - constructor.
    + destruct C as [H1 H2 H3 H4]. constructor; try assumption.
      intros k id H. destruct (H3 _ _ H) as [Ha Hb]. split; [exact Ha|].
      change (okey (set_settings (filter (fun e => p (fst e)) (settings t)) t)) with (okey s1).
      rewrite (cache_of_filter t p). replace (p id) with true by (symmetry; apply memN_In; exact Ha). exact Hb.
    + intros id H. apply (sids_filter t p) in H as [H _]. apply memN_In in H. exact H.
    + exact F.
    + eapply M1_cfg; [exact Cft | reflexivity | exact A1].
    + eapply M2_cfg; [exact Cft | reflexivity | exact A2].
  - intros _. eapply M3_cfg; [exact Cft | reflexivity | exact A3].
  - intros _. eapply FreshV_cfg; [exact Cft | reflexivity | exact Fv].
  - simpl. rewrite Lg. simpl. rewrite L. simpl. apply notif_refresh. auto.
Qed.

(* ---------- set_order ---------- *)
Lemma do_set_order o s : Inv s -> log s = [] -> exists s', do_op (SetOrder o) s = Ok (tt, s') /\ post (SetOrder o) s s'.
Proof.
  intros I L. simpl. unfold set_order. msimp.
  set (s0 := set_okey o s). pose proof (i_core _ I) as C.
  assert (Hst : forall id, In id (map snd (view s0)) -> In id (store s0)).
  { intros id H. apply in_ids_split in H as [k H]. apply (c_cached _ C _ _ H). }
  destruct (regen_all o (map snd (view s0)) s0 [] Hst) as (sa & Ea & Ua & Va & Fa & La & Ka); [intros id []|].
  rewrite (bind_ok _ _ _ _ _ Ea).
  pose proof (u_cfg _ _ Ua) as Cfa.
  assert (Hsta : forall id, In id (map snd (view s0)) -> In id (store sa)).
  { intros id H. rewrite (ce_store _ _ Cfa). apply Hst. exact H. }
  destruct (mapM_keys o _ sa Hsta) as (kv & s1 & E & X & Hm & Hc).
  rewrite (bind_ok _ _ _ _ _ E). unfold modify. eexists. split; [reflexivity|].
  destruct (sl_sorted_spec kv) as [Sk Pk].
  assert (U01 : upd s0 s1) by (eapply upd_trans; [exact Ua | apply (um_upd _ _ (e_updm _ _ X))]).
  pose proof (u_cfg _ _ U01) as Cf.
  set (s' := set_view (sl_sorted kv) s1).
  assert (P : Permutation (raw_ids s') (raw_ids s)).
  { unfold raw_ids, s'. simpl. change (map snd (view s)) with (map snd (view s0)). rewrite <- Hm.
    apply Permutation_map. exact Pk. }
  assert (Sm : same_mem s s').
  { intros id. split; intros H; [eapply Permutation_in; [exact P | exact H] | eapply Permutation_in; [symmetry; exact P | exact H]]. }
  assert (Hh : heap s' = heap s) by apply (ce_heap _ _ Cf).
  assert (Hs : store s' = store s) by apply (ce_store _ _ Cf).
  assert (Hf : filt s' = filt s) by apply (ce_filt _ _ Cf).
  assert (Hsm : show_marked s' = show_marked s) by apply (ce_sm _ _ Cf).
  assert (At : forall id, attr s' id = attr s id) by (intros id; unfold attr; rewrite Hh; reflexivity).
  assert (Ok' : okey s' = o) by (change (okey s') with (okey s1); rewrite (ce_okey _ _ Cf); reflexivity).
  split; [|split; [|split]].
  - constructor.
    + constructor.
      * rewrite Hs. apply (c_store _ C).
      * exact Sk.
      * intros k id H. simpl in H. apply (Permutation_in _ Pk) in H. split.
        { rewrite Hs. apply Hst. rewrite <- Hm. eapply in_ids; eauto. }
        { rewrite Ok'. apply (Hc _ _ H). }
      * eapply Permutation_NoDup; [symmetry; exact P | apply (c_nodup _ C)].
    + intros id H. rewrite Hs. change (settings_ids s') with (settings_ids s1) in H.
      destruct (u_ids _ _ U01 _ H) as [H1|H1]; [apply (i_sids _ I); exact H1 | exact H1].
    + pose proof (i_focus _ I) as F. unfold FocusOk in *. change (focus s') with (focus s1).
      rewrite (e_focus _ _ X), Fa. simpl.
      destruct (focus s) as [g|]; [apply Sm; exact F|].
      simpl. assert (kv = []) by (destruct kv; [reflexivity | simpl in Hm; rewrite F in Hm; discriminate]). subst. reflexivity.
    + intros id H. rewrite At, Hf. apply (i_m1 _ I), Sm, H.
    + intros id H Hw. apply Sm. apply (i_m2 _ I); [rewrite <- Hs; exact H|].
      unfold wanted in *. rewrite At, Hf, Hsm in Hw. exact Hw.
  - intros H3 Hs3 id H. rewrite At. apply H3; [rewrite <- Hsm; exact Hs3 | apply Sm, H].
  - intros _ k id H. simpl in H. apply (Permutation_in _ Pk) in H. rewrite Ok', At.
    pose proof (Hc _ _ H) as H1.
    assert (Hi : In id (map snd (view s0))) by (rewrite <- Hm; eapply in_ids; eauto).
    pose proof (um_mono _ _ (e_updm _ _ X) _ _ _ (Ka id (or_intror Hi))) as H2.
    rewrite H1 in H2. inversion H2. reflexivity.
  - change (log s') with (log s1). rewrite (e_log _ _ X), La. simpl. rewrite L. apply n_done. symmetry. exact P.
Qed.
