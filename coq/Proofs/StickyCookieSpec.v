(* Proofs/StickyCookieSpec.v -- RFC 6265 5.1.3 / 5.1.4 / 5.2.3 written independently of the code, and the
   proofs that the predicates of stickycookie.py (Fixed variant in full, Orig variant outside the
   findings) imply them. *)
From Coq Require Import List Bool Arith NArith Lia.
From MV Require Import Base.Bytes Model.StickyCookie.
Import ListNotations.

(* ================= specification ================= *)
Definition COLON : byte := x3a.
Definition is_hex (c : byte) : bool :=
  is_digit c || ((97 <=? bN c) && (bN c <=? 102))%N || ((65 <=? bN c) && (bN c <=? 70))%N.
Definition is_digits (g : str) : Prop := g <> [] /\ Forall (fun c => is_digit c = true) g.
(* dotted quad *)
Definition is_ipv4 (s : str) : Prop :=
  exists g1 g2 g3 g4, s = g1 ++ DOT :: g2 ++ DOT :: g3 ++ DOT :: g4
    /\ is_digits g1 /\ is_digits g2 /\ is_digits g3 /\ is_digits g4.
(* hex groups and colons up to the last colon, then a hex group or a dotted quad *)
Definition is_ipv6 (s : str) : Prop :=
  exists pre tail, s = pre ++ COLON :: tail
    /\ Forall (fun c => is_hex c = true \/ c = COLON) pre
    /\ (Forall (fun c => is_hex c = true) tail \/ is_ipv4 tail).
Definition is_ip_address (s : str) : Prop := is_ipv4 s \/ is_ipv6 s.

(* RFC 6265 5.1.3: string s domain-matches domain string d (both canonicalised) *)
Definition rfc_domain_match (s d : str) : Prop :=
  s = d \/ ((exists n, s = n ++ DOT :: d) /\ ~ is_ip_address s).
(* RFC 6265 5.2.3: the cookie-domain of a Domain attribute: lower case, one leading dot removed *)
Definition rfc_cookie_domain (attr : str) : str :=
  match lower attr with c :: r => if byte_eqb c DOT then r else c :: r | [] => [] end.
(* RFC 6265 5.1.4: request-path rp path-matches cookie-path cp *)
Definition rfc_path_match (rp cp : str) : Prop :=
  rp = cp \/ exists rest, rp = cp ++ rest /\ rest <> []
                          /\ ((exists p, cp = p ++ [SLASH]) \/ exists r, rest = SLASH :: r).
(* u is the path part of request target t: everything before the first question mark *)
Definition uri_path_of (u t : str) : Prop :=
  ~ In QMARK u /\ (t = u \/ exists q, t = u ++ QMARK :: q).

(* ================= string lemmas ================= *)
Lemma starts_with_spec p s : starts_with p s = true <-> exists r, s = p ++ r.
Proof.
  revert s; induction p as [|x p IH]; intros s; simpl.
  - split; [intros _; exists s; reflexivity | reflexivity].
  - destruct s as [|y s].
    + split; [discriminate | intros [r Hr]; discriminate].
    + rewrite andb_true_iff, byte_eqb_eq, IH. split.
      * intros [-> [r ->]]. exists r; reflexivity.
      * intros [r Hr]. inversion Hr; subst. split; [reflexivity | exists r; reflexivity].
Qed.

Lemma ends_with_spec suf s : ends_with suf s = true -> exists n, s = n ++ suf.
Proof.
  induction s as [|y s IH]; simpl; intros H.
  - rewrite orb_false_r in H. apply bytes_eqb_eq in H. subst. exists []; reflexivity.
  - apply orb_true_iff in H as [H|H].
    + apply bytes_eqb_eq in H. subst. exists []; reflexivity.
    + destruct (IH H) as [n ->]. exists (y :: n); reflexivity.
Qed.

Lemma to_lower_idem : forall b, byte_eqb (to_lower (to_lower b)) (to_lower b) = true.
Proof. apply forall_bytes. vm_compute. reflexivity. Qed.

Lemma lower_idem s : lower (lower s) = lower s.
Proof.
  unfold lower. rewrite map_map. apply map_ext. intros b. apply byte_eqb_eq, to_lower_idem.
Qed.

Lemma dot_not_digit : is_digit DOT = false. Proof. reflexivity. Qed.

Lemma skip_digits_app ds c r :
  Forall (fun c => is_digit c = true) ds -> is_digit c = false ->
  skip_digits (ds ++ c :: r) = c :: r.
Proof.
  intros H Hc. induction H as [|d ds Hd _ IH]; simpl.
  - rewrite Hc. reflexivity.
  - rewrite Hd. exact IH.
Qed.

Lemma Forall_rev {A} (P : A -> Prop) l : Forall P l -> Forall P (rev l).
Proof. rewrite !Forall_forall. intros H x Hx. apply H, in_rev, Hx. Qed.

Lemma dot_digits_end_app p g : is_digits g -> dot_digits_end (p ++ DOT :: g) = true.
Proof.
  intros [Hne Hg]. unfold dot_digits_end.
  rewrite rev_app_distr. simpl rev. rewrite <- app_assoc. simpl app.
  assert (Hr : Forall (fun c => is_digit c = true) (rev g)) by (apply Forall_rev, Hg).
  rewrite (skip_digits_app _ DOT _ Hr dot_not_digit). simpl first_is.
  destruct (rev g) as [|c r] eqn:E.
  - exfalso. apply Hne. rewrite <- (rev_involutive g), E. reflexivity.
  - simpl. inversion Hr; subst. assumption.
Qed.

Lemma ipv4_dot_digits_end p s : is_ipv4 s -> dot_digits_end (p ++ s) = true.
Proof.
  intros (g1 & g2 & g3 & g4 & -> & _ & _ & _ & H4).
  replace (p ++ g1 ++ DOT :: g2 ++ DOT :: g3 ++ DOT :: g4)
    with ((p ++ g1 ++ DOT :: g2 ++ DOT :: g3) ++ DOT :: g4).
  - apply dot_digits_end_app, H4.
  - repeat (rewrite <- app_assoc; simpl). reflexivity.
Qed.

Lemma hex_not_dot c : is_hex c = true \/ c = COLON -> c <> DOT.
Proof. intros [H|H] ->; [vm_compute in H | ]; discriminate. Qed.

(* an IP address that contains a dot ends with a dot and digits *)
Lemma ip_with_dot s : is_ip_address s -> In DOT s -> dot_digits_end s = true.
Proof.
  intros [H4 | (pre & tail & -> & Hpre & Htail)] Hdot.
  - apply (ipv4_dot_digits_end [] s H4).
  - destruct Htail as [Hhex | H4].
    + exfalso. apply in_app_or in Hdot as [Hd | [Hd | Hd]].
      * rewrite Forall_forall in Hpre. exact (hex_not_dot _ (Hpre _ Hd) eq_refl).
      * discriminate.
      * rewrite Forall_forall in Hhex. exact (hex_not_dot _ (or_introl (Hhex _ Hd)) eq_refl).
    + replace (pre ++ COLON :: tail) with ((pre ++ [COLON]) ++ tail)
        by (rewrite <- app_assoc; reflexivity).
      apply ipv4_dot_digits_end, H4.
Qed.

(* an IP address does not start with a dot *)
Lemma ip_not_dot_first r : ~ is_ip_address (DOT :: r).
Proof.
  intros [(g1 & g2 & g3 & g4 & E & [Hne H1] & _) | (pre & tail & E & Hpre & _)].
  - destruct g1 as [|c g1]; [contradiction|]. inversion E; subst. inversion H1; subst. discriminate.
  - destruct pre as [|c pre]; [discriminate|]. inversion E; subst. inversion Hpre; subst.
    exact (hex_not_dot _ H1 eq_refl).
Qed.

Lemma HDN_not_dot_digits a : is_HDN a = true -> dot_digits_end a = false.
Proof.
  unfold is_HDN, ipv4_re_search. destruct (dot_digits_end a); simpl; [discriminate | reflexivity].
Qed.

(* ================= http.cookiejar.domain_match ================= *)
Lemma cj_domain_match_inv A B : cj_domain_match A B = true ->
  lower A = lower B \/
  (is_HDN (lower A) = true /\ exists X, lower B = DOT :: X).
Proof.
  unfold cj_domain_match.
  destruct (bytes_eqb (lower A) (lower B)) eqn:E; [left; apply bytes_eqb_eq, E|].
  destruct (is_HDN (lower A)) eqn:EH; simpl; [|discriminate].
  destruct (rfind (lower A) (lower B)) as [[|i]|]; try discriminate.
  destruct (lower B) as [|c X] eqn:EB; simpl; [discriminate|].
  destruct (byte_eqb c DOT) eqn:Ec; simpl; [|discriminate].
  intros _. right. split; [reflexivity|]. apply byte_eqb_eq in Ec. subst. exists X; reflexivity.
Qed.

(* a B without a leading dot only matches by (case-insensitive) equality *)
Lemma cj_domain_match_nodot A B : cj_domain_match A B = true -> first_is DOT (lower B) = false ->
  lower A = lower B.
Proof.
  intros H Hd. apply cj_domain_match_inv in H as [H | [_ [X HX]]]; [exact H|].
  rewrite HX in Hd. simpl in Hd. unfold DOT in Hd. rewrite byte_eqb_refl in Hd. discriminate.
Qed.

(* ================= domain_match, Fixed ================= *)
Lemma rfc_cookie_domain_eq b : rfc_cookie_domain b = remove_dot_prefix (lower b).
Proof. unfold rfc_cookie_domain, remove_dot_prefix. destruct (lower b); reflexivity. Qed.

Lemma domain_match_fixed_rfc a b :
  domain_match_fixed a b = true -> rfc_domain_match (lower a) (rfc_cookie_domain b).
Proof.
  unfold domain_match_fixed. rewrite rfc_cookie_domain_eq.
  destruct (cj_domain_match (lower a) (lower b) && ends_with (lower b) (lower a)) eqn:E1.
  - intros _. apply andb_true_iff in E1 as [Hcj Hend].
    apply cj_domain_match_inv in Hcj. rewrite !lower_idem in Hcj.
    destruct Hcj as [Heq | [HDN [X HX]]].
    + (* equal strings *)
      rewrite <- Heq. destruct (lower a) as [|c r] eqn:Ea; [left; reflexivity|].
      simpl. destruct (byte_eqb c DOT) eqn:Ec; [|left; reflexivity].
      apply byte_eqb_eq in Ec; subst c. right. split.
      * exists []; reflexivity.
      * apply ip_not_dot_first.
    + (* proper suffix *)
      apply ends_with_spec in Hend as [n Hn]. rewrite HX in *. simpl.
      right. split.
      * exists n. exact Hn.
      * intros Hip. apply ip_with_dot in Hip.
        -- rewrite (HDN_not_dot_digits _ HDN) in Hip. discriminate.
        -- rewrite Hn. apply in_or_app. right. left. reflexivity.
  - destruct (bytes_eqb (lower a) (remove_dot_prefix (lower b))) eqn:E2; [|discriminate].
    intros _. left. apply bytes_eqb_eq, E2.
Qed.

(* ================= path_match, Fixed ================= *)
Lemma take_until_spec t : uri_path_of (take_until QMARK t) t.
Proof.
  unfold uri_path_of.
  induction t as [|x t [IHn IHe]]; simpl.
  - split; [intros []|left; reflexivity].
  - destruct (byte_eqb x QMARK) eqn:E.
    + apply byte_eqb_eq in E; subst. split; [intros []|]. right. exists t. reflexivity.
    + apply byte_eqb_neq in E. split.
      * intros [H|H]; [congruence | exact (IHn H)].
      * destruct IHe as [He | [q Hq]].
        -- left. f_equal. exact He.
        -- right. exists q. simpl. f_equal. exact Hq.
Qed.

Lemma last_is_spec c s : last_is c s = true -> exists p, s = p ++ [c].
Proof.
  unfold last_is. destruct (rev s) as [|x r] eqn:E; [discriminate|].
  intros H. apply byte_eqb_eq in H; subst x. exists (rev r).
  rewrite <- (rev_involutive s), E. reflexivity.
Qed.

Lemma skipn_length_app {A} (p r : list A) : skipn (length p) (p ++ r) = r.
Proof. induction p; simpl; auto. Qed.

(* the index request_path[len(cookie_path)] is in range whenever it is evaluated *)
Lemma path_index_in_range rp cp :
  bytes_eqb rp cp = false -> starts_with cp rp = true -> skipn (length cp) rp <> [].
Proof.
  intros Hne Hsw. apply starts_with_spec in Hsw as [r ->]. rewrite skipn_length_app.
  intros ->. rewrite app_nil_r, bytes_eqb_refl in Hne. discriminate.
Qed.

Lemma path_match_fixed_rfc t cp :
  path_match_fixed t cp = true -> exists u, uri_path_of u t /\ rfc_path_match u cp.
Proof.
  unfold path_match_fixed. intros H. exists (take_until QMARK t).
  split; [apply take_until_spec|].
  set (u := take_until QMARK t) in *.
  destruct (bytes_eqb u cp) eqn:E; [left; apply bytes_eqb_eq, E|].
  destruct (starts_with cp u) eqn:Es; [|discriminate].
  pose proof (path_index_in_range _ _ E Es) as Hidx.
  apply starts_with_spec in Es as [rest Hrest]. right. exists rest.
  rewrite Hrest, skipn_length_app in *. split; [reflexivity|]. split; [exact Hidx|].
  apply orb_true_iff in H as [H|H].
  - left. apply last_is_spec, H.
  - right. destruct rest as [|c r]; [discriminate|]. apply byte_eqb_eq in H; subst. exists r; reflexivity.
Qed.

(* ================= Orig variant: decomposition into Fixed behaviour and the findings ================= *)
(* finding domain-inner-substring: cookiejar.domain_match accepts although host does not end with the domain *)
Definition dom_inner_substring (a b : str) : bool :=
  cj_domain_match a b && negb (ends_with (lower b) (lower a)).
(* finding domain-extra-dots: host equals the domain with all leading and trailing dots stripped, and this is
   not what removing one leading dot gives *)
Definition dom_extra_dots (a b : str) : bool :=
  bytes_eqb (lower a) (strip_dots (lower b)) && negb (bytes_eqb (lower a) (remove_dot_prefix (lower b))).

Lemma to_lower_dot' : forall c, Bool.eqb (byte_eqb (to_lower c) DOT) (byte_eqb c DOT) = true.
Proof. apply forall_bytes. vm_compute. reflexivity. Qed.

Lemma lstrip_dots_lower s : lstrip_dots (lower s) = lower (lstrip_dots s).
Proof.
  induction s as [|c s IH]; simpl; [reflexivity|].
  pose proof (to_lower_dot' c) as H. apply eqb_prop in H. rewrite H.
  destruct (byte_eqb c DOT); [exact IH | reflexivity].
Qed.

Lemma lower_rev s : lower (rev s) = rev (lower s).
Proof. unfold lower. apply map_rev. Qed.

Lemma strip_dots_lower s : strip_dots (lower s) = lower (strip_dots s).
Proof.
  unfold strip_dots. rewrite lstrip_dots_lower, <- lower_rev, lstrip_dots_lower, <- lower_rev. reflexivity.
Qed.

Lemma lstrip_dots_first s : first_is DOT (lstrip_dots s) = false.
Proof.
  induction s as [|c s IH]; simpl; [reflexivity|].
  destruct (byte_eqb c DOT) eqn:E; [exact IH | simpl; exact E].
Qed.

Lemma lstrip_dots_last s : last_is DOT s = false -> last_is DOT (lstrip_dots s) = false.
Proof.
  induction s as [|c s IH]; simpl; [reflexivity|].
  destruct (byte_eqb c DOT) eqn:E; [|tauto].
  intros H. apply IH. unfold last_is in *. simpl in H.
  destruct (rev s) as [|x r] eqn:Er; [reflexivity|]. simpl in H. exact H.
Qed.

Lemma strip_dots_first s : first_is DOT (strip_dots s) = false.
Proof.
  unfold strip_dots.
  pose proof (lstrip_dots_first (rev (lstrip_dots s))) as H1.
  pose proof (lstrip_dots_last (rev (lstrip_dots s))) as H2.
  unfold last_is in H2. rewrite rev_involutive in H2.
  specialize (H2 (lstrip_dots_first s)).
  unfold last_is in H2. unfold first_is. exact H2.
Qed.

Lemma domain_match_orig_decompose a b :
  domain_match_orig a b = true ->
  domain_match_fixed a b = true \/ dom_inner_substring a b = true \/ dom_extra_dots a b = true.
Proof.
  unfold domain_match_orig, domain_match_fixed, dom_inner_substring, dom_extra_dots.
  assert (Hcj : cj_domain_match (lower a) (lower b) = cj_domain_match a b)
    by (unfold cj_domain_match; rewrite !lower_idem; reflexivity).
  rewrite Hcj.
  destruct (cj_domain_match a b) eqn:E1; simpl.
  - intros _. destruct (ends_with (lower b) (lower a)); simpl; auto.
  - destruct (cj_domain_match a (strip_dots b)) eqn:E2; [|discriminate]. intros _.
    apply cj_domain_match_nodot in E2.
    + rewrite <- strip_dots_lower in E2. rewrite E2, bytes_eqb_refl. simpl.
      destruct (bytes_eqb (strip_dots (lower b)) (remove_dot_prefix (lower b))); simpl; auto.
    + rewrite <- strip_dots_lower. apply strip_dots_first.
Qed.

(* the findings are behaviours of the unchanged code (the guard of the partial theorem is exact) *)
Lemma dom_findings_are_orig a b :
  dom_inner_substring a b = true \/ dom_extra_dots a b = true -> domain_match_orig a b = true.
Proof.
  unfold dom_inner_substring, dom_extra_dots, domain_match_orig. intros [H|H].
  - apply andb_true_iff in H as [-> _]. reflexivity.
  - apply andb_true_iff in H as [H _]. apply bytes_eqb_eq in H.
    destruct (cj_domain_match a b); [reflexivity|].
    unfold cj_domain_match. rewrite <- strip_dots_lower, <- H, bytes_eqb_refl. reflexivity.
Qed.

(* Orig path test: the cookie path must end inside the URI path (not in the query) at a segment boundary *)
Definition path_segment_boundary (t cp : str) : bool :=
  let u := take_until QMARK t in
  Nat.leb (length cp) (length u)
  && match skipn (length cp) u with
     | [] => true
     | c :: _ => last_is SLASH cp || byte_eqb c SLASH
     end.

Lemma take_until_prefix c t : exists q, t = take_until c t ++ q.
Proof.
  induction t as [|x t [q IH]]; simpl; [exists []; reflexivity|].
  destruct (byte_eqb x c); [exists (x :: t); reflexivity|]. exists q. simpl. f_equal. exact IH.
Qed.

Lemma prefix_shorter {A} (p u r q : list A) :
  p ++ r = u ++ q -> (length p <= length u)%nat -> exists m, u = p ++ m.
Proof.
  revert u; induction p as [|x p IH]; intros u H L; [exists u; reflexivity|].
  destruct u as [|y u]; [simpl in L; lia|].
  simpl in H. inversion H; subst. destruct (IH u H2) as [m ->]; [simpl in L; lia|]. exists m; reflexivity.
Qed.

Lemma path_match_orig_partial t cp :
  starts_with cp t = true -> path_segment_boundary t cp = true -> path_match_fixed t cp = true.
Proof.
  unfold path_segment_boundary, path_match_fixed. intros Hs Hb.
  apply andb_true_iff in Hb as [Hlen Hb]. apply Nat.leb_le in Hlen.
  apply starts_with_spec in Hs as [r Hr].
  destruct (take_until_prefix QMARK t) as [q Hq].
  set (u := take_until QMARK t) in *.
  destruct (prefix_shorter cp u r q) as [m Hm]; [congruence | exact Hlen |].
  rewrite Hm in *. rewrite skipn_length_app in Hb.
  destruct (bytes_eqb (cp ++ m) cp) eqn:E; [reflexivity|].
  assert (Hsw : starts_with cp (cp ++ m) = true) by (apply starts_with_spec; exists m; reflexivity).
  rewrite Hsw, skipn_length_app.
  destruct m as [|c m']; [rewrite app_nil_r, bytes_eqb_refl in E; discriminate|]. exact Hb.
Qed.
