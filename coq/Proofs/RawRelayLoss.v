(* Proofs/RawRelayLoss.v -- no-loss theorem for Model.RawRelay under the environment contract
   [respects] (data and closes only from readable peers, connect succeeds, and -- the guard that is
   the complement of finding close-while-paused-drops-data -- ConnectionClosed is never delivered
   while the layer is paused). *)
From Coq Require Import List Bool Arith Lia.
From MV Require Import Base.Bytes Model.RawRelay Proofs.RawRelay.
Import ListNotations.

Definition started st : bool :=
  negb (match ph st, wait st with PStart, NoWait => true | _, _ => false end).
Definition is_data (s : side) (e : event) : bool :=
  match e with EData f _ => side_eqb f s | _ => false end.
Definition count_data (s : side) (l : list event) : nat := length (filter (is_data s) l).

(* what server.py can deliver in state st.  calm = true additionally demands that a
   ConnectionClosed is delivered only while the layer is not paused. *)
Definition allowed (calm : bool) st (e : event) : bool :=
  match e with
  | EStart => negb (started st)
  | EData s _ => started st && can_read (conn_of st s)
  | EClosed s => started st && can_read (conn_of st s) && (negb calm || negb (waiting st))
  | EInject _ _ => started st
  | EReply _ err => negb (err && match wait st with WOpen => true | _ => false end)
  end.
Fixpoint respects (calm : bool) (pol : policy) st (evs : list event) : bool :=
  match evs with
  | [] => true
  | e :: r => allowed calm st e && respects calm pol (fst (arrive pol st e)) r
  end.

Definition payload_only (e : event) : bool :=
  match e with EData _ _ | EInject _ _ => true | _ => false end.
Definition mu (X : side) st (q : list event) : nat :=
  length (rec_of (is_client X) (messages (fl st))) + count_data X q.

Definition I4 (X : side) (k : nat) st (q : list event) (out : list cmd) : Prop :=
  pr (cf st) = UDP /\ ignore (cf st) = false /\ wait_ph_ok st /\ crashed st = false /\ wait st <> WErrorHook /\
  forallb payload_only q = true /\
  (ph st = PStart -> waiting st = true \/ q = []) /\
  (ph st = PDone -> count_data X q = 0 /\ can_read (client st) = false /\ can_read (server st) = false) /\
  k <= mu X st q.

Definition G4 st e : Prop := allowed true st e = true.

Lemma count_data_app X a b : count_data X (a ++ b) = count_data X a + count_data X b.
Proof. unfold count_data. rewrite filter_app, app_length. reflexivity. Qed.

Lemma len_rec_cons fc m ms :
  length (rec_of fc (m :: ms)) = length (rec_of fc ms) + (if Bool.eqb (fst m) fc then 1 else 0).
Proof. rewrite rec_of_cons, app_length. destruct (Bool.eqb (fst m) fc); reflexivity. Qed.

Lemma len_rec_edit fc f a :
  length (rec_of fc (messages (apply_kill (apply_edit f a) a))) = length (rec_of fc (messages f)).
Proof.
  rewrite messages_apply_kill. unfold apply_edit.
  destruct (edit a) as [c|]; [|reflexivity]. destruct (messages f) as [|[fc0 c0] ms] eqn:Em; simpl; rewrite ?Em; [reflexivity|].
  rewrite !len_rec_cons. reflexivity.
Qed.

Ltac inv4 H := destruct H as (Hu & Hi & Hp & Hc & Hne & Hq & Hn & Hd & Hk).

Lemma eqb_is_client X : Bool.eqb (is_client X) (is_client X) = true.
Proof. destruct X; reflexivity. Qed.

(* handling a queued payload event *)
Lemma I4_handle X k st e q out st' o :
  I4 X k st (e :: q) out -> waiting st = false -> crashed st = false -> handle st e = (st', o) -> I4 X k st' q (out ++ o).
Proof.
  intros H Hw _ Hh. inv4 H. unfold waiting in Hw. destruct (wait st) eqn:Ew; try discriminate. clear Hw.
  simpl in Hq. apply andb_true_iff in Hq as [He Hq].
  unfold I4, mu in *. unfold handle in Hh.
  destruct (ph st) eqn:Eph.
  - (* PStart with a non-empty queue and not waiting: excluded *)
    destruct (Hn eq_refl) as [A|A]; [unfold waiting in A; rewrite Ew in A|]; discriminate.
  - destruct e as [|f d|f|fc d|a err]; try discriminate; simpl in Hh;
      unfold relay_data, has_flow in Hh; rewrite Hi in Hh; simpl in Hh; inversion Hh; subst; clear Hh;
      simpl; unfold wait_ph_ok; simpl; rewrite Eph;
      (repeat split; auto; try discriminate; try (intros A; discriminate)).
    + simpl in Hk. unfold count_data in *. simpl in Hk. rewrite len_rec_cons. simpl.
      destruct (side_eqb f X) eqn:Ef; simpl in Hk.
      * assert (f = X) by (destruct f, X; simpl in Ef; try discriminate; reflexivity). subst f.
        rewrite eqb_is_client. lia.
      * lia.
    + simpl in Hk. unfold count_data in *. simpl in Hk. rewrite len_rec_cons. simpl. lia.
  - destruct (Hd eq_refl) as (D0 & D1 & D2).
    assert (Hx : is_data X e = false).
    { unfold count_data in D0. simpl in D0. destruct (is_data X e); [discriminate|reflexivity]. }
    assert (Hcq : count_data X q = 0).
    { unfold count_data in *. simpl in D0. rewrite Hx in D0. exact D0. }
    destruct e as [|f d|f|fc d|a err]; try discriminate; simpl in Hh; inversion Hh; subst; clear Hh.
    all: repeat split; auto; try (intros A; congruence);
      unfold count_data in *; simpl in Hk; simpl in Hx; rewrite ?Hx in Hk; simpl in Hk; lia.
Qed.

Lemma I4_queue X k st q out q' : I4 X k st q out -> I4 X k (set_queue st q') q out.
Proof. intros H; exact H. Qed.

Lemma I4_intro X k st q (out : list cmd) :
  pr (cf st) = UDP -> ignore (cf st) = false -> wait_ph_ok st -> crashed st = false -> wait st <> WErrorHook ->
  forallb payload_only q = true -> (ph st = PStart -> waiting st = true \/ q = []) ->
  (ph st = PDone -> count_data X q = 0) -> (ph st = PDone -> can_read (client st) = false) ->
  (ph st = PDone -> can_read (server st) = false) -> k <= mu X st q -> I4 X k st q out.
Proof. unfold I4. intuition. Qed.

Lemma I4_enqueue X k st q out e :
  G4 st e -> not_reply e -> waiting st = true -> crashed st = false ->
  I4 X k st q out -> I4 X k (env_arrive st e) (q ++ [e]) out.
Proof.
  intros HG He Hw _ H. inv4 H. unfold G4, allowed in HG.
  destruct e as [|f d|f|fc d|a err]; try contradiction; simpl env_arrive.
  - (* EStart while waiting: not allowed *)
    unfold started, waiting in *. destruct (ph st), (wait st); simpl in *; discriminate.
  - apply andb_true_iff in HG as [_ Hr].
    apply I4_intro; auto.
    all: try (rewrite forallb_app, Hq; reflexivity).
    all: try (intros A; apply (Hd A)).
    all: try (unfold mu in *; rewrite count_data_app; lia).
    intros A. destruct (Hd A) as (D0 & D1 & D2). rewrite count_data_app, D0.
    unfold count_data. simpl. destruct (side_eqb f X) eqn:Ef; [|reflexivity].
    destruct f; simpl in Hr; congruence.
  - (* EClosed while waiting: not allowed under calm *)
    apply andb_true_iff in HG as [_ Hcalm]. simpl in Hcalm. rewrite Hw in Hcalm. discriminate.
  - apply I4_intro; auto.
    all: try (rewrite forallb_app, Hq; reflexivity).
    all: try (intros A; apply (Hd A)).
    all: try (unfold mu in *; rewrite count_data_app; lia).
    intros A. destruct (Hd A) as (D0 & D1 & D2). rewrite count_data_app, D0. reflexivity.
Qed.

Ltac fin4 Hd :=
  apply I4_intro; unfold wait_ph_ok; simpl; auto;
  try discriminate; try (intros A; discriminate); try (intros A; congruence);
  try (intros A; apply (Hd A)); try (left; reflexivity).

Lemma I4_resume X k st q out a a0 err st' o :
  G4 st (EReply a0 err) -> I4 X k st q out -> waiting st = true -> crashed st = false ->
  resume st a err = (st', o) -> I4 X k st' q (out ++ o).
Proof.
  intros HG H _ _ Hr. inv4 H. unfold G4, allowed in HG. unfold mu in Hk.
  unfold wait_ph_ok in Hp. unfold resume in Hr.
  destruct (wait st) eqn:Ew.
  - inversion Hr; subst. fin4 Hd. rewrite Ew. exact Logic.I.
  - (* start hook *)
    unfold_layer. unfold has_flow in *. simpl in Hr.
    destruct (negb (server_open (cf st))); inversion Hr; subst; clear Hr; fin4 Hd;
      unfold mu; simpl; rewrite ?messages_apply_kill; auto.
  - (* OpenConnection: err = false by the guard *)
    destruct err; [discriminate|].
    unfold_layer. simpl in Hr. rewrite ?Hu in Hr. inversion Hr; subst; clear Hr. fin4 Hd.
  - congruence.
  - (* message hook *)
    unfold_layer. inversion Hr; subst; clear Hr. fin4 Hd.
    unfold mu; simpl. rewrite len_rec_edit. exact Hk.
  - (* end hook *)
    unfold_layer. inversion Hr; subst; clear Hr. fin4 Hd.
    unfold mu; simpl. rewrite messages_apply_kill. exact Hk.
Qed.

Lemma I4_direct X k st e out st' o :
  G4 st e -> not_reply e -> I4 X k st [] out -> waiting st = false -> crashed st = false ->
  handle (env_arrive st e) e = (st', o) -> I4 X k st' [] (out ++ o).
Proof.
  intros HG He H Hw _ Hh. inv4 H. unfold G4, allowed in HG.
  unfold waiting in Hw. destruct (wait st) eqn:Ew; try discriminate. clear Hw.
  unfold mu in Hk. unfold count_data in Hk. simpl in Hk.
  destruct e as [|f d|f|fc d|a err]; try contradiction; simpl env_arrive in Hh.
  - (* EStart *)
    unfold started in HG. rewrite Ew in HG. destruct (ph st) eqn:Eph; try discriminate.
    unfold handle in Hh. rewrite Eph in Hh. unfold start, mark_unreadable, has_flow in Hh.
    rewrite Hu in Hh. destruct (server_open (cf st)); rewrite ?Hu, Hi in Hh; simpl in Hh;
      inversion Hh; subst; clear Hh; fin4 Hd.
  - (* EData *)
    apply andb_true_iff in HG as [Hs Hr]. unfold started in Hs. rewrite Ew in Hs.
    unfold handle in Hh. destruct (ph st) eqn:Eph; try discriminate.
    + unfold relay_data, has_flow in Hh. rewrite Hi in Hh. simpl in Hh. inversion Hh; subst; clear Hh.
      fin4 Hd. unfold mu, count_data. simpl. rewrite len_rec_cons. lia.
    + destruct (Hd eq_refl) as (_ & D1 & D2). destruct f; simpl in Hr; congruence.
  - (* EClosed *)
    apply andb_true_iff in HG as [HG _]. apply andb_true_iff in HG as [Hs Hr].
    unfold started in Hs. rewrite Ew in Hs.
    assert (Eph : ph st = PRelay).
    { destruct (ph st) eqn:Eph; try discriminate; [reflexivity|].
      destruct (Hd eq_refl) as (_ & D1 & D2). destruct f; simpl in Hr; congruence. }
    unfold handle in Hh.
    unfold relay_closed, close_if_open, end_flow, yield, has_flow, env_cmd, set_conn in Hh.
    destruct (pr (cf st)) eqn:Epr, f; simpl in Hh; rewrite ?Eph, ?Epr, ?Hi in Hh; simpl in Hh;
      split_run Hh; inversion Hh; subst; clear Hh; fin4 Hd; rewrite ?Ew; auto;
      try (apply negb_true_iff in Heqb; apply orb_false_iff in Heqb; simpl in Heqb; tauto);
      try (intros _; apply negb_true_iff in Heqb; simpl in Heqb; exact Heqb).
  - (* EInject *)
    unfold started in HG. rewrite Ew in HG.
    unfold handle in Hh. destruct (ph st) eqn:Eph; try discriminate.
    + unfold relay_data, has_flow in Hh. rewrite Hi in Hh. simpl in Hh. inversion Hh; subst; clear Hh.
      fin4 Hd. unfold mu, count_data. simpl. rewrite len_rec_cons. lia.
    + inversion Hh; subst; clear Hh. fin4 Hd; intros _; apply (Hd eq_refl).
Qed.

Lemma I4_step pol X k st out e st' o :
  G4 st e -> Inv (I4 X k) st out -> arrive pol st e = (st', o) -> Inv (I4 X k) st' (out ++ o).
Proof.
  apply (I_step pol G4 (I4 X k)).
  - apply I4_handle.
  - apply I4_direct.
  - apply I4_enqueue.
  - apply I4_resume.
  - apply I4_queue.
Qed.

Lemma I4_rebound X k st out : Inv (I4 X k) st out -> Inv (I4 X (mu X st (queue st))) st out.
Proof. intros [H S]. split; [|exact S]. inv4 H. apply I4_intro; auto; intros A; apply (Hd A). Qed.

(* an allowed data arrival is recorded or queued: the measure grows by one *)
Lemma data_step pol X k st out d st' o :
  Inv (I4 X k) st out -> allowed true st (EData X d) = true -> arrive pol st (EData X d) = (st', o) ->
  mu X st' (queue st') = mu X st (queue st) + 1.
Proof.
  intros [H S] HG Ha. inv4 H. unfold arrive in Ha. rewrite Hc in Ha. simpl env_arrive in Ha.
  unfold allowed in HG. apply andb_true_iff in HG as [Hs Hr].
  destruct (waiting st) eqn:Hw.
  - inversion Ha; subst; clear Ha. unfold mu. simpl. rewrite count_data_app.
    unfold count_data at 2. simpl. destruct X; simpl; lia.
  - rewrite (S eq_refl Hc) in *. unfold waiting in Hw. destruct (wait st) eqn:Ew; try discriminate.
    unfold started in Hs. rewrite Ew in Hs. unfold handle in Ha.
    destruct (ph st) eqn:Eph; try discriminate.
    + unfold relay_data, has_flow in Ha. rewrite Hi in Ha. simpl in Ha. inversion Ha; subst; clear Ha.
      unfold mu. simpl. rewrite len_rec_cons. simpl. rewrite eqb_is_client.
      rewrite (S eq_refl Hc). lia.
    + destruct (Hd eq_refl) as (_ & D1 & D2). destruct X; simpl in Hr; congruence.
Qed.

Lemma mu_step_other pol X k st out e st' o :
  Inv (I4 X k) st out -> allowed true st e = true -> arrive pol st e = (st', o) ->
  mu X st (queue st) <= mu X st' (queue st').
Proof.
  intros HI HG Ha.
  pose proof (I4_step pol X _ st out e st' o HG (I4_rebound X k st out HI) Ha) as [H _].
  inv4 H. exact Hk.
Qed.

Lemma no_loss_gen pol X : forall evs k st out st' o,
  Inv (I4 X k) st out -> respects true pol st evs = true -> run pol st evs = (st', o) ->
  count_data X evs + mu X st (queue st) <= mu X st' (queue st').
Proof.
  induction evs as [|e evs IH]; intros k st out st' o HI HR H; simpl in H.
  - inversion H; subst. unfold count_data. simpl. lia.
  - simpl in HR. apply andb_true_iff in HR as [HG HR].
    destruct (arrive pol st e) as [st1 o1] eqn:Ha. destruct (run pol st1 evs) as [st2 o2] eqn:Hr.
    inversion H; subst; clear H. simpl in HR.
    pose proof (I4_step pol X k st out e st1 o1 HG HI Ha) as HI1.
    specialize (IH k st1 (out ++ o1) st' o2 HI1 HR Hr).
    assert (Hstep : (if is_data X e then 1 else 0) + mu X st (queue st) <= mu X st1 (queue st1)).
    { destruct (is_data X e) eqn:Ed.
      - destruct e as [|f d|f|fc d|a err]; try discriminate. simpl in Ed.
        assert (f = X) by (destruct f, X; try discriminate; reflexivity). subst f.
        rewrite (data_step pol X k st out d st1 o1 HI HG Ha). lia.
      - simpl. eapply mu_step_other; eauto. }
    unfold count_data in *. simpl. destruct (is_data X e); simpl in *; lia.
Qed.

Lemma I4_init X c : pr c = UDP -> ignore c = false -> Inv (I4 X 0) (init c) [].
Proof.
  intros Hu Hi. split; [|reflexivity]. unfold I4. simpl.
  repeat split; auto; try discriminate; try (intros A; discriminate); lia.
Qed.

(* T4 (partial): under the calm environment contract every chunk that arrived from X is recorded
   in the flow or still waits in the event queue *)
Lemma no_loss_udp pol c evs X :
  pr c = UDP -> ignore c = false -> respects true pol (init c) evs = true ->
  let '(st, out) := run pol (init c) evs in
  count_data X evs <= length (recorded (is_client X) (fl st)) + count_data X (queue st).
Proof.
  intros Hu Hi HR. destruct (run pol (init c) evs) as [st out] eqn:H.
  pose proof (no_loss_gen pol X evs 0 (init c) [] st out (I4_init X c Hu Hi) HR H) as L.
  unfold mu in L. simpl in L. unfold count_data in L at 2. simpl in L.
  unfold recorded. fold (rec_of (is_client X) (messages (fl st))). lia.
Qed.

(* ================= T5: nothing is sent to a connection after the layer closed (its write side) ===== *)
Definition is_shut (Y : side) (c : cmd) : bool :=
  match c with HalfClose s | CloseConnection s => side_eqb s Y | _ => false end.
Definition shut_in (Y : side) (out : list cmd) : bool := existsb (is_shut Y) out.
(* true iff some SendData goes to a side that is already shut (sc/ss: shut before [out] starts) *)
Fixpoint late_from (sc ss : bool) (out : list cmd) : bool :=
  match out with
  | [] => false
  | c :: r => (match c with SendData Client _ => sc | SendData Server _ => ss | _ => false end)
              || late_from (sc || is_shut Client c) (ss || is_shut Server c) r
  end.
Definition late_send (out : list cmd) : bool := late_from false false out.

Lemma late_app : forall a b sc ss,
  late_from sc ss (a ++ b) = late_from sc ss a || late_from (sc || shut_in Client a) (ss || shut_in Server a) b.
Proof.
  induction a as [|c a IH]; intros b sc ss; simpl.
  - rewrite !orb_false_r. reflexivity.
  - rewrite IH, !orb_assoc. reflexivity.
Qed.

Definition from_side (X : side) (e : event) : bool :=
  match e with EData f _ => side_eqb f X | EInject fc _ => side_eqb (side_of fc) X | _ => false end.
Definition count_from (X : side) (q : list event) : nat := length (filter (from_side X) q).
(* injections are made only on behalf of a peer that has not closed yet *)
Definition inject_live st (e : event) : bool :=
  match e with EInject fc _ => can_read (conn_of st (side_of fc)) | _ => true end.
Fixpoint injects_live (pol : policy) st (evs : list event) : bool :=
  match evs with
  | [] => true
  | e :: r => inject_live st e && injects_live pol (fst (arrive pol st e)) r
  end.

(* nothing more will be sent to Y *)
Definition Q (Y : side) st (q : list event) : Prop :=
  ph st <> PStart /\ can_read (conn_of st (other Y)) = false /\ count_from (other Y) q = 0 /\ wait st <> WMsgHook Y.
Definition E5 st : Prop :=
  (forall Y, eof_of st Y = true -> can_read (conn_of st Y) = false) /\
  (ph st = PStart -> server_open (cf st) = false -> eof_s st = false) /\
  (wait st = WOpen -> server_open (cf st) = false).
Definition I5 st (q : list event) (out : list cmd) : Prop :=
  E5 st /\ wait_ph_ok st /\ crashed st = false /\ wait st <> WErrorHook /\ forallb payload_only q = true /\
  (ph st = PStart -> waiting st = true \/ q = []) /\
  late_send out = false /\
  (shut_in Client out = true -> Q Client st q) /\ (shut_in Server out = true -> Q Server st q).
Definition G5 st e : Prop := allowed true st e = true /\ inject_live st e = true.

Lemma count_from_app X a b : count_from X (a ++ b) = count_from X a + count_from X b.
Proof. unfold count_from. rewrite filter_app, app_length. reflexivity. Qed.

Definition is_send (Y : side) (c : cmd) : bool :=
  match c with SendData s _ => side_eqb s Y | _ => false end.
Definition has_send (Y : side) (o : list cmd) : bool := existsb (is_send Y) o.

Lemma late_from_flags : forall o sc ss,
  late_from sc ss o = late_from false false o || sc && has_send Client o || ss && has_send Server o.
Proof.
  induction o as [|c o IH]; intros sc ss; simpl.
  - rewrite !andb_false_r. reflexivity.
  - rewrite (IH (sc || is_shut Client c) (ss || is_shut Server c)).
    rewrite (IH (is_shut Client c) (is_shut Server c)).
    destruct (late_from false false o), (has_send Client o), (has_send Server o), sc, ss;
      destruct c as [| | | | |[] d|[]|[]]; reflexivity.
Qed.

Lemma I5_extend st q out st' q' o :
  I5 st q out ->
  E5 st' -> wait_ph_ok st' -> crashed st' = false -> wait st' <> WErrorHook -> forallb payload_only q' = true ->
  (ph st' = PStart -> waiting st' = true \/ q' = []) ->
  late_send o = false ->
  (forall Y, Q Y st q -> has_send Y o = false /\ Q Y st' q') ->
  (forall Y, shut_in Y o = true -> Q Y st' q') ->
  I5 st' q' (out ++ o).
Proof.
  intros (_ & _ & _ & _ & _ & _ & Hl & HC & HS) A0 A1 A2 A3 A4 A5 Ho Hpres Hnew.
  unfold I5. repeat (split; [assumption|]).
  split.
  - unfold late_send in *. rewrite late_app, Hl, late_from_flags, Ho. simpl.
    destruct (shut_in Client out) eqn:EC; destruct (shut_in Server out) eqn:ES; simpl;
      try (destruct (Hpres Client (HC eq_refl)) as [-> _]); try (destruct (Hpres Server (HS eq_refl)) as [-> _]);
      reflexivity.
  - split; intros H; unfold shut_in in *; rewrite existsb_app in H; apply orb_true_iff in H as [H|H].
    + apply (Hpres Client (HC H)).
    + apply (Hnew Client H).
    + apply (Hpres Server (HS H)).
    + apply (Hnew Server H).
Qed.

Ltac solveQ :=
  unfold Q, count_from, has_send, shut_in, late_send, wait_ph_ok in *; simpl in *;
  repeat match goal with
  | |- forall _, _ => intro
  end;
  repeat match goal with
  | Y : side |- _ => destruct Y
  | b : bool |- _ => destruct b
  end; simpl in *;
  repeat match goal with
  | H : negb _ = true |- _ => apply negb_true_iff in H
  | H : negb _ = false |- _ => apply negb_false_iff in H
  | H : _ || _ = false |- _ => apply orb_false_iff in H; destruct H
  end; simpl in *; intuition (try congruence; try discriminate; try lia).

Ltac solveE HE :=
  let E1 := fresh "E1" in let E2 := fresh "E2" in
  let E3 := fresh "E3" in
  destruct HE as (E1 & E2 & E3); unfold E5; simpl; split; [|split];
  [ let Y := fresh "Y" in intros Y; pose proof (E1 Client); pose proof (E1 Server); destruct Y; simpl in *;
    repeat match goal with
    | H : negb _ = true |- _ => apply negb_true_iff in H
    | H : negb _ = false |- _ => apply negb_false_iff in H
    end; intuition congruence
  | simpl in *; intuition congruence
  | simpl in *; repeat match goal with
    | H : negb _ = true |- _ => apply negb_true_iff in H
    | H : negb _ = false |- _ => apply negb_false_iff in H
    end; intuition congruence ].

Ltac inv5 H := destruct H as (HE & Hp & Hc & Hne & Hq & Hn & Hl & HQC & HQS).

Lemma I5_handle st e q out st' o :
  I5 st (e :: q) out -> waiting st = false -> crashed st = false -> handle st e = (st', o) -> I5 st' q (out ++ o).
Proof.
  intros H Hw _ Hh. pose proof H as H0. inv5 H.
  unfold waiting in Hw. destruct (wait st) eqn:Ew; try discriminate. clear Hw.
  simpl in Hq. apply andb_true_iff in Hq as [He Hq].
  unfold handle in Hh. destruct (ph st) eqn:Eph.
  - destruct (Hn eq_refl) as [A|A]; [unfold waiting in A; rewrite Ew in A|]; discriminate.
  - destruct e as [|f d|f|fc d|a err]; try discriminate; simpl in Hh;
      unfold relay_data in Hh; destruct (has_flow st); inversion Hh; subst; clear Hh;
      (apply (I5_extend _ _ _ _ _ _ H0); clear H0 HQC HQS Hl; [try (solveE HE)|..|solveQ|solveQ];
       unfold wait_ph_ok; simpl; rewrite ?Ew; auto; try discriminate; try (intros A; congruence);
       try (destruct f; reflexivity); try (destruct fc; reflexivity)).
  - destruct e as [|f d|f|fc d|a err]; try discriminate; simpl in Hh; inversion Hh; subst; clear Hh;
      (apply (I5_extend _ _ _ _ _ _ H0); clear H0 HQC HQS Hl; [try (solveE HE)|..|solveQ|solveQ];
       auto; try (intros A; congruence)).
Qed.

Lemma I5_queue st q out q' : I5 st q out -> I5 (set_queue st q') q out.
Proof. intros H; exact H. Qed.

Lemma I5_resume st q out a a0 err st' o :
  G5 st (EReply a0 err) -> I5 st q out -> waiting st = true -> crashed st = false ->
  resume st a err = (st', o) -> I5 st' q (out ++ o).
Proof.
  intros [HG _] H _ _ Hr. pose proof H as H0. inv5 H. unfold allowed in HG.
  unfold wait_ph_ok in Hp. unfold resume in Hr.
  destruct (wait st) eqn:Ew.
  - inversion Hr; subst. rewrite app_nil_r. exact H0.
  - unfold_layer. simpl in Hr.
    split_run Hr; inversion Hr; subst; clear Hr;
      (apply (I5_extend _ _ _ _ _ _ H0); clear H0 HQC HQS Hl; [try (solveE HE)|..|solveQ|solveQ];
       unfold wait_ph_ok; simpl; auto; try discriminate; try (intros A; congruence); try (left; reflexivity)).
  - destruct err; [discriminate|].
    unfold_layer. simpl in Hr.
    split_run Hr; inversion Hr; subst; clear Hr;
    (apply (I5_extend _ _ _ _ _ _ H0); clear H0 HQC HQS Hl; [try (solveE HE)|..|solveQ|solveQ];
      unfold wait_ph_ok; simpl; auto; try discriminate; try (intros A; congruence)).
  - congruence.
  - unfold_layer. inversion Hr; subst; clear Hr.
    apply (I5_extend _ _ _ _ _ _ H0); clear H0 HQC HQS Hl; [try (solveE HE)|..|solveQ|solveQ];
      unfold wait_ph_ok; simpl; auto; try discriminate; try (intros A; congruence);
      try (destruct to; reflexivity).
  - unfold_layer. inversion Hr; subst; clear Hr.
    apply (I5_extend _ _ _ _ _ _ H0); clear H0 HQC HQS Hl; [try (solveE HE)|..|solveQ|solveQ];
      unfold wait_ph_ok; simpl; auto; try discriminate; try (intros A; congruence).
Qed.

Lemma I5_enqueue st q out e :
  G5 st e -> not_reply e -> waiting st = true -> crashed st = false ->
  I5 st q out -> I5 (env_arrive st e) (q ++ [e]) out.
Proof.
  intros [HG HL] He Hw _ H. pose proof H as H0. inv5 H. unfold allowed in HG. unfold inject_live in HL.
  rewrite <- (app_nil_r out).
  destruct e as [|f d|f|fc d|a err]; try contradiction; simpl env_arrive.
  - unfold started, waiting in *. destruct (ph st), (wait st); simpl in *; discriminate.
  - apply andb_true_iff in HG as [_ Hr].
    apply (I5_extend _ _ _ _ _ _ H0); clear H0 HQC HQS Hl; auto.
    + rewrite forallb_app, Hq. reflexivity.
    + intros Y (Q1 & Q2 & Q3 & Q4). split; [reflexivity|]. unfold Q. rewrite count_from_app, Q3.
      repeat split; auto. unfold count_from. simpl.
      destruct (side_eqb f (other Y)) eqn:E; [|reflexivity].
      destruct f, Y; simpl in *; congruence.
    + intros Y A. discriminate.
  - apply andb_true_iff in HG as [_ Hcalm]. simpl in Hcalm. rewrite Hw in Hcalm. discriminate.
  - apply (I5_extend _ _ _ _ _ _ H0); clear H0 HQC HQS Hl; auto.
    + rewrite forallb_app, Hq. reflexivity.
    + intros Y (Q1 & Q2 & Q3 & Q4). split; [reflexivity|]. unfold Q. rewrite count_from_app, Q3.
      repeat split; auto. unfold count_from. simpl.
      destruct (side_eqb (side_of fc) (other Y)) eqn:E; [|reflexivity].
      destruct fc, Y; simpl in *; congruence.
    + intros Y A. discriminate.
Qed.

Lemma I5_direct st e out st' o :
  G5 st e -> not_reply e -> I5 st [] out -> waiting st = false -> crashed st = false ->
  handle (env_arrive st e) e = (st', o) -> I5 st' [] (out ++ o).
Proof.
  intros [HG HL] He H Hw _ Hh. pose proof H as H0. inv5 H. unfold allowed in HG. unfold inject_live in HL.
  unfold waiting in Hw. destruct (wait st) eqn:Ew; try discriminate. clear Hw.
  pose proof (proj1 HE Client) as HEc. pose proof (proj1 HE Server) as HEs. simpl in HEc, HEs.
  destruct e as [|f d|f|fc d|a err]; try contradiction; simpl env_arrive in Hh.
  - (* EStart *)
    unfold started in HG. rewrite Ew in HG. destruct (ph st) eqn:Eph; try discriminate.
    unfold handle in Hh. rewrite Eph in Hh. unfold_layer.
    split_run Hh; inversion Hh; subst; clear Hh;
      (apply (I5_extend _ _ _ _ _ _ H0); clear H0 HQC HQS Hl; [try (solveE HE)|..|solveQ|solveQ];
       unfold wait_ph_ok; simpl; auto; try discriminate; try (intros A; congruence)).
  - (* EData *)
    apply andb_true_iff in HG as [Hs Hr]. unfold started in Hs. rewrite Ew in Hs.
    unfold handle in Hh. destruct (ph st) eqn:Eph; try discriminate.
    + unfold relay_data in Hh. destruct (has_flow st); inversion Hh; subst; clear Hh;
        (apply (I5_extend _ _ _ _ _ _ H0); clear H0 HQC HQS Hl; [try (solveE HE)|..|solveQ|solveQ];
         unfold wait_ph_ok; simpl; rewrite ?Ew; auto; try discriminate; try (intros A; congruence);
         try (destruct f; reflexivity)).
    + inversion Hh; subst; clear Hh. rewrite app_nil_r. exact H0.
  - (* EClosed *)
    apply andb_true_iff in HG as [HG _]. apply andb_true_iff in HG as [Hs Hr].
    unfold started in Hs. rewrite Ew in Hs.
    unfold handle in Hh.
    unfold relay_closed, close_if_open, end_flow, yield, has_flow, env_cmd, set_conn in Hh.
    destruct (ph st) eqn:Eph; try discriminate;
    destruct (pr (cf st)) eqn:Epr, f; simpl in Hh; rewrite ?Eph, ?Epr in Hh; simpl in Hh;
      split_run Hh; inversion Hh; subst; clear Hh;
      (apply (I5_extend _ _ _ _ _ _ H0); clear H0 HQC HQS Hl; [try (solveE HE)|..|solveQ|solveQ];
       unfold wait_ph_ok; simpl; rewrite ?Ew; auto; try discriminate; try (intros A; congruence)).
  - (* EInject *)
    unfold started in HG. rewrite Ew in HG.
    unfold handle in Hh. destruct (ph st) eqn:Eph; try discriminate.
    + unfold relay_data in Hh. destruct (has_flow st); inversion Hh; subst; clear Hh;
        (apply (I5_extend _ _ _ _ _ _ H0); clear H0 HQC HQS Hl; [try (solveE HE)|..|solveQ|solveQ];
         unfold wait_ph_ok; simpl; rewrite ?Ew; auto; try discriminate; try (intros A; congruence);
         try (destruct fc; reflexivity)).
    + inversion Hh; subst; clear Hh. rewrite app_nil_r. exact H0.
Qed.

Lemma guarded5 pol : forall evs st,
  respects true pol st evs = true -> injects_live pol st evs = true -> guarded pol G5 st evs.
Proof.
  induction evs as [|e evs IH]; intros st HR HL; simpl; [exact Logic.I|].
  simpl in HR, HL. apply andb_true_iff in HR as [A HR]. apply andb_true_iff in HL as [B HL].
  split; [split; assumption|]. apply IH; assumption.
Qed.

Lemma I5_init c : Inv I5 (init c) [].
Proof.
  split; [|reflexivity]. unfold I5, E5. simpl.
  repeat split; auto; try discriminate; try (intros A; discriminate).
  intros Y A. destruct Y; discriminate.
Qed.

(* T5 (partial) *)
Lemma no_late_send pol c evs :
  respects true pol (init c) evs = true -> injects_live pol (init c) evs = true ->
  late_send (snd (run pol (init c) evs)) = false.
Proof.
  intros HR HL. destruct (run pol (init c) evs) as [st out] eqn:H.
  pose proof (I_run pol G5 I5 I5_handle I5_direct I5_enqueue I5_resume I5_queue evs _ _ _ _
                    (guarded5 pol evs _ HR HL) (I5_init c) H) as [HI _].
  inv5 HI. exact Hl.
Qed.

(* T3: a close handled while the peer is still readable is propagated as a half-close (and nothing else),
   the layer keeps relaying, and the next chunk from the peer goes through the hook and is sent, with
   the addon edit, to the side that closed *)
Lemma half_close_step pol st from :
  crashed st = false -> pr (cf st) = TCP -> ph st = PRelay -> wait st = NoWait -> queue st = [] ->
  eof_of st (other from) = false ->
  let '(st1, o1) := arrive pol st (EClosed from) in
  o1 = [HalfClose (other from)] /\ ph st1 = PRelay /\ wait st1 = NoWait /\ crashed st1 = false /\
  can_read (conn_of st1 from) = false /\ eof_of st1 from = true /\ eof_of st1 (other from) = false /\
  can_write (conn_of st1 (other from)) = false /\
  forall d, let '(st2, o2) := arrive pol st1 (EData (other from) d) in
    if ignore (cf st) then o2 = [SendData from d]
    else o2 = [MessageHook] /\
         forall a err, snd (arrive pol st2 (EReply a err)) =
           [SendData from (match edit (pol (messages (fl st2)) a) with Some c => c | None => d end)].
Proof.
  destruct st as [[p ig so un] ph0 w q [clr clw] [svr svw] f cr ec es]. simpl. intros -> -> -> -> -> Hr.
  destruct from; simpl in Hr; subst; unfold arrive; simpl.
  - destruct svw; simpl; (repeat split; auto); intros d; destruct ig; simpl; auto;
      (split; [reflexivity|]); intros a err; unfold apply_edit; simpl;
      destruct (edit (pol ((false, d) :: messages f) a)); unfold last_content; rewrite messages_apply_kill; reflexivity.
  - destruct clw; simpl; (repeat split; auto); intros d; destruct ig; simpl; auto;
      (split; [reflexivity|]); intros a err; unfold apply_edit; simpl;
      destruct (edit (pol ((true, d) :: messages f) a)); unfold last_content; rewrite messages_apply_kill; reflexivity.
Qed.

(* ---------- statements used by Props/C29.v *)
Lemma exact_relay_full pol c evs :
  ignore c = false ->
  let '(st, out) := run pol (init c) evs in
  forall from_client : bool,
    sends (side_of (negb from_client)) out = rec_of from_client (sent_msgs st) /\
    ((forall to, wait st <> WMsgHook to) ->
     sends (side_of (negb from_client)) out = recorded from_client (fl st)).
Proof.
  intros Hi. pose proof (exact_relay pol c evs Hi) as H.
  destruct (run pol (init c) evs) as [st out]. intros fc. split; [apply H|].
  intros Hw. rewrite H. unfold sent_msgs. destruct (wait st) eqn:Ew; try reflexivity.
  exfalso. apply (Hw to). reflexivity.
Qed.

Definition keep : action := mkAction None false.
Definition late_witness : list event :=
  [EStart; EReply keep false; EClosed Client; EInject true [x61]; EReply keep false].
Lemma no_late_send_refuted :
  exists pol c evs,
    respects true pol (init c) evs = true /\ late_send (snd (run pol (init c) evs)) = true.
Proof. exists pol_id, (mkCfg TCP false true false), late_witness. vm_compute. split; reflexivity. Qed.

Definition demo : list event :=
  [EStart; EReply keep false; EReply keep false;
   EData Client [x61]; EData Server [x62]; EReply (mkAction (Some [x41; x42]) false) false; EReply keep false;
   EClosed Client; EData Server [x63]; EInject false [x64]; EReply (mkAction None true) false; EReply keep false;
   EClosed Server; EReply keep false].
Lemma demo_run :
  let c := mkCfg TCP false false false in
  respects true pol_id (init c) demo = true /\ injects_live pol_id (init c) demo = true /\
  let '(st, out) := run pol_id (init c) demo in
  out = [StartHook; OpenConnection; MessageHook; SendData Server [x41; x42]; MessageHook; SendData Client [x62];
         HalfClose Server; MessageHook; SendData Client [x63]; MessageHook; SendData Client [x64];
         CloseConnection Client; EndHook] /\
  ph st = PDone /\ wait st = NoWait /\ f_live (fl st) = false /\ f_error (fl st) = true /\
  recorded true (fl st) = [[x41; x42]] /\ recorded false (fl st) = [[x62]; [x63]; [x64]].
Proof. vm_compute. repeat split; reflexivity. Qed.
