(* Proofs/ProxyAuthHooks.v -- what the ProxyAuth hooks and the proxy core do with a request, for every
   validator, every header list and every history of events on any number of connections. *)
From Coq Require Import Arith NArith List Bool Lia.
From MV Require Import Base.Bytes Model.ProxyAuth Proofs.ProxyAuthCodec.
Import ListNotations.
Local Open Scope N_scope.

Implicit Types V : validator.

(* the request carries, in the header of its entry path, Basic credentials the validator accepts *)
Definition valid_creds (ms1 : bool) (V : validator) (f : flow) : Prop :=
  exists u p, creds_of ms1 f = Some (u, p) /\ V u p = true.

Definition server_side (c : cmd) : bool :=
  match c with OpenServer | ToServer _ | Tunnel => true | _ => false end.
Definition reaches_server (o : outcome) : Prop :=
  match o with OHttp _ cmds => existsb server_side cmds = true | OSocks v => v = true end.

Definition deny_flow (c : N) (ip rp sm : bool) (hs : headers) : flow :=
  mkFlow c ip rp sm hs (Some (auth_required_status ip)) None.
Definition pass_flow (c : N) (ip rp sm : bool) (hs : headers) (u p : str) : flow :=
  mkFlow c ip rp sm (headers_del (http_auth_header ip) hs) None (Some (u, p)).

Lemma valid_creds_dec ms1 V f : valid_creds ms1 V f \/ ~ valid_creds ms1 V f.
Proof.
  unfold valid_creds. destruct (creds_of ms1 f) as [[u p]|] eqn:E.
  - destruct (V u p) eqn:EV.
    + left. exists u, p. auto.
    + right. intros (u' & p' & H1 & H2). inversion H1; subst. congruence.
  - right. intros (u' & p' & H1 & _). discriminate.
Qed.

Lemma auth_http_valid ms1 V c ip rp sm hs u p :
  creds_of ms1 (new_flow c ip rp sm hs) = Some (u, p) -> V u p = true ->
  authenticate_http ms1 V (new_flow c ip rp sm hs) = (true, pass_flow c ip rp sm hs u p).
Proof. intros H1 H2. unfold authenticate_http. rewrite H1, H2. reflexivity. Qed.

Lemma auth_http_invalid ms1 V c ip rp sm hs :
  ~ valid_creds ms1 V (new_flow c ip rp sm hs) ->
  authenticate_http ms1 V (new_flow c ip rp sm hs) = (false, deny_flow c ip rp sm hs).
Proof.
  intros H. unfold authenticate_http.
  destruct (creds_of ms1 (new_flow c ip rp sm hs)) as [[u p]|] eqn:E; [|reflexivity].
  destruct (V u p) eqn:EV; [|reflexivity].
  exfalso. apply H. exists u, p. auto.
Qed.

Lemma status_not_2xx ip : (200 <=? auth_required_status ip) && (auth_required_status ip <? 300) = false.
Proof. destruct ip; reflexivity. Qed.

(* ---------------------------------------------------------------- single steps *)
Theorem unauth_request_denied ms1 V st c ip sm hs :
  lookup c st = None -> ~ valid_creds ms1 V (new_flow c ip false sm hs) ->
  step ms1 (Some V) st (EReq c ip false false sm hs) =
    (st, OHttp (deny_flow c ip false sm hs) (if sm then [Crash] else [ToClient (auth_required_status ip)])).
Proof.
  intros L H. unfold step, requestheaders. cbn [new_flow f_conn f_replay]. rewrite L.
  rewrite auth_http_invalid by exact H. reflexivity.
Qed.

Theorem unauth_connect_denied ms1 V st c ip rp sm hs :
  ~ valid_creds ms1 V (new_flow c ip rp sm hs) ->
  step ms1 (Some V) st (EReq c ip true rp sm hs) =
    (st, OHttp (deny_flow c ip rp sm hs) [ToClient (auth_required_status ip)]).
Proof.
  intros H. unfold step, http_connect. rewrite auth_http_invalid by exact H.
  unfold stream_connect, deny_flow. cbn [f_resp]. rewrite status_not_2xx. reflexivity.
Qed.

Theorem valid_request_forwarded ms1 V st c ip sm hs u p :
  lookup c st = None -> creds_of ms1 (new_flow c ip false sm hs) = Some (u, p) -> V u p = true ->
  step ms1 (Some V) st (EReq c ip false false sm hs) =
    (st, OHttp (pass_flow c ip false sm hs u p) [OpenServer; ToServer (headers_del (http_auth_header ip) hs)]).
Proof.
  intros L H1 H2. unfold step, requestheaders. cbn [new_flow f_conn f_replay]. rewrite L.
  rewrite (auth_http_valid ms1 V c ip false sm hs u p H1 H2). reflexivity.
Qed.

Theorem valid_connect_tunnel ms1 V st c ip rp sm hs u p :
  creds_of ms1 (new_flow c ip rp sm hs) = Some (u, p) -> V u p = true ->
  step ms1 (Some V) st (EReq c ip true rp sm hs) =
    (set_auth c (u, p) st, OHttp (pass_flow c ip rp sm hs u p) [Tunnel; ToClient 200]).
Proof.
  intros H1 H2. unfold step, http_connect.
  rewrite (auth_http_valid ms1 V c ip rp sm hs u p H1 H2). reflexivity.
Qed.

Theorem authenticated_request_passes ms1 V st c ip rp sm hs m :
  lookup c st = Some m ->
  step ms1 (Some V) st (EReq c ip false rp sm hs) =
    (st, OHttp (mkFlow c ip rp sm hs None (Some m)) [OpenServer; ToServer hs]).
Proof. intros L. unfold step, requestheaders. cbn [new_flow f_conn]. rewrite L. reflexivity. Qed.

Theorem replay_passes ms1 V st c ip sm hs :
  lookup c st = None ->
  step ms1 (Some V) st (EReq c ip false true sm hs) =
    (st, OHttp (new_flow c ip true sm hs) [OpenServer; ToServer hs]).
Proof. intros L. unfold step, requestheaders. cbn [new_flow f_conn f_replay]. rewrite L. reflexivity. Qed.

Theorem socks_step V st c u p :
  step false (Some V) st (ESocks c u p) =
    if V u p then (set_auth c (u, p) st, OSocks true) else (st, OSocks false).
Proof. unfold step, socks5_auth. destruct (V u p); reflexivity. Qed.

Lemma socks_step_any ms1 V st c u p :
  step ms1 (Some V) st (ESocks c u p) =
    if V u p then (set_auth c (u, p) st, OSocks true) else (st, OSocks false).
Proof. unfold step, socks5_auth. destruct (V u p); reflexivity. Qed.

(* the credential header is gone, every other header is kept in order *)
Lemma headers_del_spec k hs h : In h (headers_del k hs) <-> In h hs /\ name_is k h = false.
Proof.
  unfold headers_del. rewrite filter_In. split; intros [A B]; split; auto.
  - apply negb_true_iff in B. exact B.
  - rewrite B. reflexivity.
Qed.

Lemma headers_del_other k hs : forallb (fun h => negb (name_is k h)) hs = true -> headers_del k hs = hs.
Proof.
  induction hs as [|h hs IH]; intros H; [reflexivity|].
  cbn [forallb] in H. apply andb_prop in H. destruct H as [A B].
  unfold headers_del in *. cbn [filter]. rewrite A. f_equal. apply IH, B.
Qed.

(* ---------------------------------------------------------------- state over histories *)
Lemma lookup_set c c' v st : lookup c (set_auth c' v st) = if c' =? c then Some v else lookup c st.
Proof. reflexivity. Qed.

Definition ev_authenticates (ms1 : bool) (V : validator) (e : event) : Prop :=
  match e with
  | EReq c ip true rp sm hs => valid_creds ms1 V (new_flow c ip rp sm hs)
  | EReq _ _ false _ _ _ => False
  | ESocks _ u p => V u p = true
  end.
Definition justified (ms1 : bool) (V : validator) (hist : list event) (c : N) : Prop :=
  exists e, In e hist /\ ev_conn e = c /\ ev_authenticates ms1 V e.

Lemma step_request_state ms1 V st c ip rp sm hs :
  fst (step ms1 (Some V) st (EReq c ip false rp sm hs)) = st.
Proof.
  unfold step, requestheaders. cbn [new_flow f_conn f_replay].
  destruct (lookup c st); [reflexivity|]. destruct rp; reflexivity.
Qed.

(* a connection enters ProxyAuth.authenticated only through an accepted CONNECT or SOCKS5 negotiation on it *)
Lemma step_state ms1 V st e c :
  lookup c (fst (step ms1 (Some V) st e)) <> None ->
  lookup c st <> None \/ (ev_conn e = c /\ ev_authenticates ms1 V e).
Proof.
  destruct e as [c' ip ic rp sm hs | c' u p].
  - destruct ic.
    + destruct (valid_creds_dec ms1 V (new_flow c' ip rp sm hs)) as [Hv|Hv].
      * destruct Hv as (u & p & H1 & H2).
        rewrite (valid_connect_tunnel ms1 V st c' ip rp sm hs u p H1 H2). cbn [fst].
        rewrite lookup_set. destruct (N.eqb_spec c' c) as [->|Hne]; intros H.
        -- right. split; [reflexivity|]. exists u, p. auto.
        -- left. exact H.
      * rewrite (unauth_connect_denied ms1 V st c' ip rp sm hs Hv). cbn [fst]. auto.
    + rewrite step_request_state. auto.
  - rewrite socks_step_any. destruct (V u p) eqn:EV; cbn [fst]; [|auto].
    rewrite lookup_set. destruct (N.eqb_spec c' c) as [->|Hne]; intros H.
    + right. split; [reflexivity|exact EV].
    + left. exact H.
Qed.

Lemma step_mono ms1 V st e c : lookup c st <> None -> lookup c (fst (step ms1 (Some V) st e)) <> None.
Proof.
  intros H. destruct e as [c' ip ic rp sm hs | c' u p].
  - destruct ic.
    + destruct (valid_creds_dec ms1 V (new_flow c' ip rp sm hs)) as [Hv|Hv].
      * destruct Hv as (u & p & H1 & H2).
        rewrite (valid_connect_tunnel ms1 V st c' ip rp sm hs u p H1 H2). cbn [fst].
        rewrite lookup_set. destruct (c' =? c); [discriminate|exact H].
      * rewrite (unauth_connect_denied ms1 V st c' ip rp sm hs Hv). exact H.
    + rewrite step_request_state. exact H.
  - rewrite socks_step_any. destruct (V u p); cbn [fst]; [|exact H].
    rewrite lookup_set. destruct (c' =? c); [discriminate|exact H].
Qed.

Lemma step_sets ms1 V st e : ev_authenticates ms1 V e -> lookup (ev_conn e) (fst (step ms1 (Some V) st e)) <> None.
Proof.
  destruct e as [c' ip ic rp sm hs | c' u p]; cbn [ev_authenticates ev_conn].
  - destruct ic; [|tauto]. intros (u & p & H1 & H2).
    rewrite (valid_connect_tunnel ms1 V st c' ip rp sm hs u p H1 H2). cbn [fst].
    rewrite lookup_set, N.eqb_refl. discriminate.
  - intros H. rewrite socks_step_any, H. cbn [fst]. rewrite lookup_set, N.eqb_refl. discriminate.
Qed.

(* events on other connections never change whether a connection is authenticated *)
Theorem other_connection_no_effect ms1 V st e c :
  ev_conn e <> c -> lookup c (fst (step ms1 (Some V) st e)) = lookup c st.
Proof.
  intros Hne. destruct e as [c' ip ic rp sm hs | c' u p]; cbn [ev_conn] in Hne.
  - destruct ic.
    + destruct (valid_creds_dec ms1 V (new_flow c' ip rp sm hs)) as [Hv|Hv].
      * destruct Hv as (u & p & H1 & H2).
        rewrite (valid_connect_tunnel ms1 V st c' ip rp sm hs u p H1 H2). cbn [fst].
        rewrite lookup_set. destruct (N.eqb_spec c' c); [contradiction|reflexivity].
      * rewrite (unauth_connect_denied ms1 V st c' ip rp sm hs Hv). reflexivity.
    + rewrite step_request_state. reflexivity.
  - rewrite socks_step_any. destruct (V u p); cbn [fst]; [|reflexivity].
    rewrite lookup_set. destruct (N.eqb_spec c' c); [contradiction|reflexivity].
Qed.

Lemma final_state_app ms1 (oV : option validator) : forall a b st,
  final_state ms1 oV st (a ++ b) = final_state ms1 oV (final_state ms1 oV st a) b.
Proof. induction a as [|e a IH]; intros b st; [reflexivity|]. cbn [app final_state]. apply IH. Qed.

Lemma final_state_mono ms1 V c : forall es st,
  lookup c st <> None -> lookup c (final_state ms1 (Some V) st es) <> None.
Proof.
  induction es as [|e es IH]; intros st H; [exact H|].
  cbn [final_state]. apply IH. apply step_mono. exact H.
Qed.

Theorem authenticated_only_by_credentials ms1 V : forall hist c,
  lookup c (final_state ms1 (Some V) [] hist) <> None -> justified ms1 V hist c.
Proof.
  induction hist as [|e hist IH] using rev_ind; intros c H.
  - cbn in H. congruence.
  - rewrite final_state_app in H. cbn [final_state] in H.
    apply step_state in H. destruct H as [H|[H1 H2]].
    + destruct (IH c H) as (e0 & I & A & B). exists e0. split; [apply in_or_app; auto|auto].
    + exists e. split; [apply in_or_app; right; left; reflexivity|auto].
Qed.

(* whatever reaches the server side, after any history, is covered by credentials the validator accepts *)
Theorem history_sound ms1 V hist e :
  reaches_server (snd (step ms1 (Some V) (final_state ms1 (Some V) [] hist) e)) ->
  match e with
  | EReq c ip true rp sm hs => valid_creds ms1 V (new_flow c ip rp sm hs)
  | EReq c ip false rp sm hs =>
      valid_creds ms1 V (new_flow c ip rp sm hs) \/ rp = true \/ justified ms1 V hist c
  | ESocks c u p => V u p = true
  end.
Proof.
  set (st := final_state ms1 (Some V) [] hist).
  destruct e as [c ip ic rp sm hs | c u p].
  - destruct ic.
    + destruct (valid_creds_dec ms1 V (new_flow c ip rp sm hs)) as [Hv|Hv]; [auto|].
      rewrite (unauth_connect_denied ms1 V st c ip rp sm hs Hv). cbn. discriminate.
    + destruct (lookup c st) as [m|] eqn:L.
      * intros _. right. right. apply authenticated_only_by_credentials. fold st. congruence.
      * destruct rp; [auto|].
        destruct (valid_creds_dec ms1 V (new_flow c ip false sm hs)) as [Hv|Hv]; [auto|].
        rewrite (unauth_request_denied ms1 V st c ip sm hs L Hv). destruct sm; cbn; discriminate.
  - rewrite socks_step_any. destruct (V u p); cbn; auto.
Qed.

(* once a connection has authenticated, every later plain request on it passes untouched, whatever happened since *)
Theorem authenticated_later_pass ms1 V pre e0 mid c ip rp sm hs :
  ev_conn e0 = c -> ev_authenticates ms1 V e0 ->
  exists m,
    step ms1 (Some V) (final_state ms1 (Some V) [] (pre ++ e0 :: mid)) (EReq c ip false rp sm hs) =
      (final_state ms1 (Some V) [] (pre ++ e0 :: mid),
       OHttp (mkFlow c ip rp sm hs None (Some m)) [OpenServer; ToServer hs]).
Proof.
  intros Hc Ha. set (st := final_state ms1 (Some V) [] (pre ++ e0 :: mid)).
  assert (L : lookup c st <> None).
  { unfold st. rewrite final_state_app. cbn [final_state]. apply final_state_mono.
    subst c. apply step_sets. exact Ha. }
  destruct (lookup c st) as [m|] eqn:E; [|congruence].
  exists m. apply authenticated_request_passes. exact E.
Qed.

(* ---------------------------------------------------------------- SOCKS5 sub-negotiation *)
Theorem socks_invalid_rejected V st c buf ub pb rest :
  state_auth_parse buf = AuthMsg ub pb rest ->
  V (decode_with h_backslashreplace ub) (decode_with h_backslashreplace pb) = false ->
  state_auth (Some V) st c buf = (st, SFail [x01; x01]).
Proof. intros H1 H2. unfold state_auth, socks5_auth. rewrite H1, H2. reflexivity. Qed.

Theorem socks_valid_accepted V st c buf ub pb rest :
  state_auth_parse buf = AuthMsg ub pb rest ->
  V (decode_with h_backslashreplace ub) (decode_with h_backslashreplace pb) = true ->
  state_auth (Some V) st c buf =
    (set_auth c (decode_with h_backslashreplace ub, decode_with h_backslashreplace pb) st, SOk [x01; x00] rest).
Proof. intros H1 H2. unfold state_auth, socks5_auth. rewrite H1, H2. reflexivity. Qed.

Lemma blen_cons b s : blen (b :: s) = 1 + blen s.
Proof. unfold blen. cbn [length]. lia. Qed.
Lemma blen_app a b : blen (a ++ b) = blen a + blen b.
Proof. unfold blen. rewrite app_length. lia. Qed.

Lemma skipn_len_app {A} (a b : list A) : skipn (length a) (a ++ b) = b.
Proof. induction a; [reflexivity|exact IHa]. Qed.

(* an RFC 1929 message for (ub, pb) is read back as exactly these two strings *)
Lemma state_auth_parse_msg ver ub pb :
  blen ub < 256 -> blen pb < 256 ->
  state_auth_parse (ver :: Nb (blen ub) :: ub ++ Nb (blen pb) :: pb) = AuthMsg ub pb [].
Proof.
  intros Hu Hp. unfold state_auth_parse.
  set (buf := ver :: Nb (blen ub) :: ub ++ Nb (blen pb) :: pb).
  assert (LB : blen buf = 3 + blen ub + blen pb).
  { unfold buf. rewrite !blen_cons, blen_app, blen_cons. lia. }
  assert (N1 : bN (nth 1 buf x00) = blen ub) by (unfold buf; cbn [nth]; apply bN_Nb; exact Hu).
  rewrite N1.
  assert (T2 : N.to_nat (2 + blen ub) = S (S (length ub))) by (unfold blen; lia).
  assert (N2 : bN (nth (N.to_nat (2 + blen ub)) buf x00) = blen pb).
  { rewrite T2. unfold buf. cbn [nth]. rewrite app_nth2 by lia. rewrite Nat.sub_diag. cbn [nth].
    apply bN_Nb; exact Hp. }
  rewrite N2, LB.
  destruct (N.ltb_spec (3 + blen ub + blen pb) 3); [lia|].
  destruct (N.ltb_spec (3 + blen ub + blen pb) (3 + blen ub)); [lia|].
  destruct (N.ltb_spec (3 + blen ub + blen pb) (3 + blen ub + blen pb)); [lia|].
  assert (S1 : slice buf 2 (blen ub) = ub).
  { unfold slice, buf. change (N.to_nat 2) with 2%nat. cbn [skipn].
    replace (N.to_nat (blen ub)) with (length ub + 0)%nat by (unfold blen; lia).
    rewrite firstn_app_2. cbn [firstn]. apply app_nil_r. }
  assert (T3 : N.to_nat (3 + blen ub) = S (S (length ub + 1))) by (unfold blen; lia).
  assert (K : skipn (length ub + 1) (ub ++ Nb (blen pb) :: pb) = pb).
  { replace (ub ++ Nb (blen pb) :: pb) with ((ub ++ [Nb (blen pb)]) ++ pb) by (rewrite <- app_assoc; reflexivity).
    replace (length ub + 1)%nat with (length (ub ++ [Nb (blen pb)])) by (rewrite app_length; reflexivity).
    apply skipn_len_app. }
  assert (S2 : slice buf (3 + blen ub) (blen pb) = pb).
  { unfold slice. rewrite T3. unfold buf. cbn [skipn]. rewrite K.
    replace (N.to_nat (blen pb)) with (length pb) by (unfold blen; lia). apply firstn_all. }
  assert (S3 : skipn (N.to_nat (3 + blen ub + blen pb)) buf = []).
  { apply skipn_all2. unfold blen in *. lia. }
  rewrite S1, S2, S3. reflexivity.
Qed.
