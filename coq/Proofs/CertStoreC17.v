(* Proofs/CertStoreC17.v -- corollaries, witnesses and the wildcard-form characterisation
   used by Props/C17.v. *)
From Coq Require Import List Bool Arith Lia.
From MV Require Import Base.Bytes Model.CertStore Proofs.CertStoreInv Proofs.CertStoreStable.
Import ListNotations.

(* ---------- asterisk_forms: every form is the name or "*." + what follows one of its dots ---------- *)
Lemma split_nonempty cur s : split_dot_aux cur s <> [].
Proof.
  revert cur. induction s as [|c r IH]; intros cur; simpl; [discriminate|].
  destruct (byte_eqb c x2e); [discriminate | apply IH].
Qed.

Lemma join_split cur s : join_dot (split_dot_aux cur s) = rev cur ++ s.
Proof.
  revert cur. induction s as [|c r IH]; intros cur; simpl.
  - rewrite app_nil_r. reflexivity.
  - destruct (byte_eqb c x2e) eqn:E.
    + apply byte_eqb_eq in E. subst c.
      pose proof (IH []) as J. pose proof (split_nonempty [] r) as N.
      simpl. destruct (split_dot_aux [] r) as [|y l]; [contradiction|].
      rewrite J. reflexivity.
    + rewrite IH. simpl. rewrite <- app_assoc. reflexivity.
Qed.

Lemma tails_split cur s t :
  In t (tails1 (split_dot_aux cur s)) -> exists p, s = p ++ x2e :: join_dot t.
Proof.
  revert cur. induction s as [|c r IH]; intros cur; simpl; [intros []|].
  destruct (byte_eqb c x2e) eqn:E.
  - apply byte_eqb_eq in E. subst c. simpl.
    pose proof (split_nonempty [] r) as N. pose proof (join_split [] r) as J.
    destruct (split_dot_aux [] r) as [|y l] eqn:S; [contradiction|].
    intros [H|H].
    + subst t. exists []. simpl in *. rewrite J. reflexivity.
    + rewrite <- S in H. apply IH in H as [p Hp]. exists (x2e :: p). simpl. rewrite <- Hp. reflexivity.
  - intros H. apply IH in H as [p Hp]. exists (c :: p). simpl. rewrite <- Hp. reflexivity.
Qed.

Lemma asterisk_forms_str_spec dn f :
  In f (asterisk_forms_str dn) -> f = dn \/ exists p t, dn = p ++ x2e :: t /\ f = x2a :: x2e :: t.
Proof.
  unfold asterisk_forms_str. intros [H|H]; [left; symmetry; exact H|].
  apply in_map_iff in H as [t [Hf Ht]]. unfold split_dot in Ht. apply tails_split in Ht as [p Hp].
  right. exists p, (join_dot t). split; [exact Hp | symmetry; exact Hf].
Qed.

(* the names under which a custom certificate can be served for a request *)
Definition covers (cn : option name) (sans : list san) (n : name) : Prop :=
  n = [x2a]
  \/ (exists c, cn = Some c /\ c <> [] /\ (n = c \/ exists p t, c = p ++ x2e :: t /\ n = x2a :: x2e :: t))
  \/ (exists v, In (DNS v) sans /\ (n = v \/ exists p t, v = p ++ x2e :: t /\ n = x2a :: x2e :: t))
  \/ (exists v, In (Other v) sans /\ n = v).

Lemma potential_names_covers cn sans n : In n (potential_names cn sans) -> covers cn sans n.
Proof.
  unfold potential_names. intros H. apply in_app_or in H as [H|H].
  - destruct cn as [c|]; [|contradiction]. destruct c as [|b c]; [contradiction|]. simpl truthy_name in H.
    right. left. exists (b :: c). split; [reflexivity | split; [discriminate|]]. apply asterisk_forms_str_spec, H.
  - apply in_app_or in H as [H|[H|[]]].
    + apply in_flat_map in H as [s [Hs H]]. destruct s as [v|v]; simpl in H.
      * right. right. left. exists v. split; [exact Hs | apply asterisk_forms_str_spec, H].
      * destruct H as [H|[]]. right. right. right. exists v. split; [exact Hs | symmetry; exact H].
    + left. symmetry. exact H.
Qed.

(* ---------- T3 corollaries ---------- *)
(* repaired code ([if name is not None]): no guard *)
Lemma stable_strict cap cn sans pre mid st1 e :
  let st0 := run false cap pre empty_store in
  get_cert false cap st0 cn sans = Some (st1, e) ->
  let st2 := run false cap mid st1 in
  no_touch cn sans mid ->
  (forall i c s, e = EGen i c s -> next_gen st2 - i <= cap) ->
  get_cert false cap st2 cn sans = Some (st2, e).
Proof. intros st0 H st2 NT F. apply (stable cap false cn sans pre mid st1 e H NT); [discriminate | exact F]. Qed.

(* a freshly generated entry survives fewer than cap further generations *)
Lemma stable_fresh cap truthy cn sans pre mid st1 e :
  let st0 := run truthy cap pre empty_store in
  get_cert truthy cap st0 cn sans = Some (st1, e) ->
  next_gen st1 = S (next_gen st0) ->
  let st2 := run truthy cap mid st1 in
  no_touch cn sans mid ->
  (truthy = true -> ~ empty_hit cn sans st0) ->
  next_gen st2 - next_gen st1 < cap ->
  get_cert truthy cap st2 cn sans = Some (st2, e).
Proof.
  intros st0 H Hn st2 NT G Hc. apply (stable cap truthy cn sans pre mid st1 e H NT G).
  intros i c s He.
  assert (I0 : Inv cap st0) by apply Inv_reachable.
  subst st0 st2.
  destruct (get_cert_cases _ _ _ _ _ _ _ H) as [E|Hg]; [rewrite E in Hn; lia|].
  destruct (generate_spec _ _ _ _ _ _ I0 Hg) as [_ [He' _]]. rewrite He in He'. inversion He'; subst.
  lia.
Qed.

(* ---------- witnesses ---------- *)
Definition w_empty : list op := [AddCert 0 None [] [[]]].      (* add_cert(entry, "") *)
Definition w_sans : list san := [DNS []].                       (* DNSName("") *)

(* the unguarded statement fails for the [if name:] code: same request twice in a row,
   capacity 2, nothing in between, two different certificates *)
Lemma stable_refuted :
  exists cap pre cn sans st1 e st2 e',
    get_cert true cap (run true cap pre empty_store) cn sans = Some (st1, e)
    /\ no_touch cn sans [] /\ next_gen (run true cap [] st1) - gid e <= cap
    /\ get_cert true cap (run true cap [] st1) cn sans = Some (st2, e') /\ e' <> e.
Proof.
  exists 2, w_empty, None, w_sans.
  eexists. eexists. eexists. eexists.
  split; [vm_compute; reflexivity|]. split; [constructor|]. split; [vm_compute; lia|].
  split; [vm_compute; reflexivity|]. discriminate.
Qed.

(* FIFO, not LRU: a cache hit does not refresh an entry, so "fewer than cap generations between
   two requests" is not enough when the first one was itself a cache hit *)
Definition nA : name := [x61]. Definition nB : name := [x62]. Definition nC : name := [x63].
Lemma fifo_not_lru :
  let pre := [GetCert (Some nA) []; GetCert (Some nB) []] in
  let st0 := run false 2 pre empty_store in
  exists st1 st2,
    get_cert false 2 st0 (Some nA) [] = Some (st1, EGen 0 (Some nA) [])
    /\ next_gen (run false 2 [GetCert (Some nC) []] st1) - next_gen st1 = 1
    /\ get_cert false 2 (run false 2 [GetCert (Some nC) []] st1) (Some nA) [] = Some (st2, EGen 3 (Some nA) []).
Proof. eexists. eexists. split; [vm_compute; reflexivity|]. split; vm_compute; reflexivity. Qed.

(* non-vacuity: capacity 2; a custom cert for *.b, a request for a.b served by it; a request for c
   generated, one more generation and an unrelated registration in between, then c again from the
   cache; the bound is attained *)
Definition n_ab : name := [x61; x2e; x62].
Definition n_sb : name := [x2a; x2e; x62].
Definition w_pre : list op := [AddCert 0 None [DNS n_sb] []; GetCert (Some n_ab) [DNS n_ab]].
Definition w_mid : list op := [GetCert (Some nB) []; AddCert 1 (Some n_ab) [] []; GetCert (Some n_ab) []].

Lemma nonvacuous :
  let st0 := run true 2 w_pre empty_store in
  exists st1,
    get_cert true 2 st0 (Some nC) [] = Some (st1, EGen 0 (Some nC) [])
    /\ no_touch (Some nC) [] w_mid
    /\ ~ empty_hit (Some nC) [] st0
    /\ next_gen (run true 2 w_mid st1) - 0 <= 2
    /\ gen_count (certs (run true 2 w_mid st1)) = 2
    /\ snd (step true 2 empty_store (GetCert (Some n_ab) [DNS n_ab])) = Some (EGen 0 (Some n_ab) [DNS n_ab])
    /\ snd (step true 2 (run true 2 [AddCert 0 None [DNS n_sb] []] empty_store) (GetCert (Some n_ab) [DNS n_ab]))
       = Some (ECustom 0).
Proof.
  eexists. split; [vm_compute; reflexivity|]. split.
  - unfold no_touch, w_mid. constructor; [|constructor; [|constructor; [|constructor]]].
    + simpl. intros [].
    + simpl. intros [n [H1 H2]]. vm_compute in H1, H2.
      destruct H1 as [<-|[]]. destruct H2 as [H2|[H2|[]]]; discriminate.
    + simpl. intros [].
  - split; [intros [e H]; vm_compute in H; discriminate|].
    split; [vm_compute; lia|]. split; [vm_compute; reflexivity|]. split; vm_compute; reflexivity.
Qed.
