(* Proofs/IgnoreHostsRelay.v -- C19.  NextLayer + TCPLayer(ignore=True): for EVERY configuration and EVERY
   event list, the payloads sent to one peer are exactly the payloads that arrived from the other peer, chunk
   by chunk and in order, including those buffered before the decision; nothing else is ever sent. *)
From Coq Require Import List Bool NArith Lia.
From MV Require Import Base.Bytes Model.ClientHello Model.IgnoreHosts.
Import ListNotations.

Lemma data_of_app fc a b : data_of fc (a ++ b) = data_of fc a ++ data_of fc b.
Proof. unfold data_of. apply flat_map_app. Qed.
Lemma sent_app ts a b : sent ts (a ++ b) = sent ts a ++ sent ts b.
Proof. unfold sent. apply flat_map_app. Qed.

(* env_arrive / env_cmd do not touch the layer part of the state *)
Lemma env_arrive_ph s e : ph (env_arrive s e) = ph s /\ nl_events (env_arrive s e) = nl_events s /\ tq (env_arrive s e) = tq s.
Proof. destruct e as [fc d|[|]|[|]]; simpl; auto. Qed.
Lemma env_cmd_ph s c : ph (env_cmd s c) = ph s /\ nl_events (env_cmd s c) = nl_events s /\ tq (env_cmd s c) = tq s.
Proof. destruct c as [| |ts d| |[|]|[|]]; simpl; auto. Qed.
Lemma env_cmds_ph o : forall s,
  ph (fold_left env_cmd o s) = ph s /\ nl_events (fold_left env_cmd o s) = nl_events s /\ tq (fold_left env_cmd o s) = tq s.
Proof.
  induction o as [|c o IH]; intros s; [simpl; auto|].
  simpl. destruct (IH (env_cmd s c)) as [A [B C]]. destruct (env_cmd_ph s c) as [A' [B' C']].
  rewrite A, B, C. auto.
Qed.

(* relay_messages over a list of events *)
Lemma relay_many_spec s fc : forall l p o,
  relay_many s PRelay l = (p, o) ->
  (p = PRelay /\ sent fc o = data_of fc l) \/
  (p = PDone /\ exists rest, data_of fc l = sent fc o ++ rest).
Proof.
  induction l as [|e l IH]; intros p o H.
  - injection H as <- <-. left. auto.
  - cbn [relay_many] in H.
    destruct (relay_one s e) as [p1 o1] eqn:R1.
    destruct (relay_many s p1 l) as [p2 o2] eqn:R2. injection H as <- <-.
    change (e :: l) with ([e] ++ l). rewrite sent_app, data_of_app.
    destruct e as [f d|f|ok]; simpl in R1.
    + injection R1 as <- <-. destruct (IH _ _ R2) as [[-> E]|[-> [rest E]]].
      * left. split; [reflexivity|]. rewrite E. reflexivity.
      * right. split; [reflexivity|]. exists rest. rewrite E, app_assoc. reflexivity.
    + destruct (negb (c_rd s || s_rd s)).
      * injection R1 as <- <-.
        assert (R2' : relay_many s PDone l = (PDone, [])) by (destruct l; reflexivity).
        rewrite R2' in R2. injection R2 as <- <-.
        right. split; [reflexivity|]. exists (data_of fc l).
        assert (X : forall a b : bool, sent fc ((if a then [CClose true] else []) ++ (if b then [CClose false] else [])) = [])
          by (intros [|] [|]; reflexivity).
        rewrite X. reflexivity.
      * injection R1 as <- <-. destruct (IH _ _ R2) as [[-> E]|[-> [rest E]]].
        -- left. split; [reflexivity|]. simpl. exact E.
        -- right. split; [reflexivity|]. exists rest. simpl. exact E.
    + injection R1 as <- <-. destruct (IH _ _ R2) as [[-> E]|[-> [rest E]]].
      * left. split; [reflexivity|]. simpl. exact E.
      * right. split; [reflexivity|]. exists rest. simpl. exact E.
Qed.

Section Relay.
  Variable pat : Type.
  Variable re_search : pat -> bytes -> bool.
  Variable ace_ok : bytes -> bool.
  Variable c : cfg pat.
  Notation layer_step := (layer_step re_search ace_ok c).
  Notation step := (step re_search ace_ok c).
  Notation run := (run re_search ace_ok c).

  (* A = payloads that have arrived from one peer, S = payloads sent to the other *)
  Definition inv (fc : bool) (s : st) (A S : list bytes) : Prop :=
    match ph s with
    | PUndecided => S = [] /\ tq s = [] /\ A = data_of fc (nl_events s)
    | PWaitOpen => S = [] /\ nl_events s = [] /\ A = data_of fc (tq s)
    | PRelay => A = S /\ nl_events s = [] /\ tq s = []
    | PDone => exists rest, A = S ++ rest
    | POther => S = []
    end.

  Lemma layer_step_inv fc s e s' o A S :
    inv fc s A S -> layer_step s e = (s', o) ->
    inv fc s' (A ++ data_of fc [e]) (S ++ sent fc o).
  Proof.
    unfold inv, IgnoreHosts.layer_step. intros I H.
    destruct (ph s) eqn:P.
    - (* undecided *)
      destruct I as [-> [Q ->]].
      assert (EA : data_of fc (nl_events s) ++ data_of fc [e] = data_of fc (nl_events s ++ [e]))
        by (rewrite data_of_app; reflexivity).
      destruct e as [f d|[|]|ok].
      + destruct (ignore_connection re_search ace_ok c _ _) as [|[|] hs].
        * injection H as <- <-. simpl ph. cbn [nl_events tq set_ph]. simpl sent. auto.
        * destruct (s_started s).
          -- destruct (relay_many s PRelay (nl_events s ++ [EData f d])) as [p o'] eqn:R.
             injection H as <- <-. cbn [ph set_ph nl_events tq].
             change ([] ++ sent fc (CAsk :: o')) with (sent fc o').
             destruct (relay_many_spec s fc _ _ _ R) as [[-> E]|[-> [rest E]]].
             ++ rewrite EA, E. auto.
             ++ exists rest. rewrite EA. exact E.
          -- injection H as <- <-. cbn [ph set_ph nl_events tq]. simpl sent. auto.
        * injection H as <- <-. cbn [ph set_ph]. reflexivity.
      + injection H as <- <-. cbn [ph set_ph nl_events tq]. simpl sent. auto.
      + injection H as <- <-. cbn [ph set_ph nl_events tq]. simpl sent. auto.
      + injection H as <- <-. cbn [ph set_ph nl_events tq]. simpl sent. auto.
    - (* waiting for the server connection *)
      destruct I as [-> [Q ->]].
      destruct e as [f d|f|[|]].
      + injection H as <- <-. cbn [ph set_ph nl_events tq]. rewrite data_of_app. auto.
      + injection H as <- <-. cbn [ph set_ph nl_events tq]. rewrite data_of_app. auto.
      + destruct (relay_many s PRelay (tq s)) as [p o'] eqn:R. injection H as <- <-.
        cbn [ph set_ph nl_events tq]. simpl. rewrite app_nil_r.
        destruct (relay_many_spec s fc _ _ _ R) as [[-> E]|[-> [rest E]]]; [rewrite E; auto | exists rest; exact E].
      + injection H as <- <-. cbn [ph set_ph]. simpl. rewrite app_nil_r. exists (data_of fc (tq s)). reflexivity.
    - (* relaying *)
      destruct I as [-> [Q1 Q2]].
      destruct (relay_one s e) as [p o'] eqn:R. injection H as <- <-. cbn [ph set_ph nl_events tq].
      destruct e as [f d|f|ok]; simpl in R.
      + injection R as <- <-. split; [|auto]. simpl. destruct (Bool.eqb f fc); reflexivity.
      + destruct (negb (c_rd s || s_rd s)); injection R as <- <-.
        * exists []. simpl. destruct (s_rd s || s_wr s), (c_rd s || c_wr s); simpl; rewrite ?app_nil_r; reflexivity.
        * simpl. rewrite !app_nil_r. auto.
      + injection R as <- <-. simpl. rewrite !app_nil_r. auto.
    - (* done *)
      injection H as <- <-. rewrite P. destruct I as [rest ->].
      change (sent fc []) with (@nil bytes). rewrite app_nil_r.
      exists (rest ++ data_of fc [e]). rewrite app_assoc. reflexivity.
    - injection H as <- <-. rewrite P. change (sent fc []) with (@nil bytes). rewrite app_nil_r. exact I.
  Qed.

  Lemma inv_env fc s s' A S :
    ph s' = ph s -> nl_events s' = nl_events s -> tq s' = tq s -> inv fc s A S -> inv fc s' A S.
  Proof. unfold inv. intros -> -> ->. auto. Qed.

  Lemma step_inv fc s e s' o A S :
    inv fc s A S -> step s e = (s', o) -> inv fc s' (A ++ data_of fc [e]) (S ++ sent fc o).
  Proof.
    intros I H. unfold IgnoreHosts.step in H.
    destruct (layer_step (env_arrive s e) e) as [s1 o1] eqn:L. injection H as <- <-.
    destruct (env_arrive_ph s e) as [A1 [A2 A3]].
    destruct (env_cmds_ph o1 s1) as [B1 [B2 B3]].
    apply (inv_env fc s1 _ _ _ B1 B2 B3).
    apply (layer_step_inv fc (env_arrive s e) e s1 o1 A S); [|exact L].
    apply (inv_env fc s _ _ _ A1 A2 A3). exact I.
  Qed.

  Lemma run_inv fc : forall l s s' o A S,
    inv fc s A S -> run s l = (s', o) -> inv fc s' (A ++ data_of fc l) (S ++ sent fc o).
  Proof.
    induction l as [|e l IH]; intros s s' o A S I H.
    - injection H as <- <-. simpl. rewrite !app_nil_r. exact I.
    - cbn [IgnoreHosts.run] in H.
      destruct (step s e) as [s1 o1] eqn:E1. destruct (run s1 l) as [s2 o2] eqn:E2. injection H as <- <-.
      change (e :: l) with ([e] ++ l). rewrite data_of_app, sent_app, !app_assoc.
      apply (IH s1 s2 o2); [|exact E2]. apply (step_inv fc s e s1 o1); assumption.
  Qed.

  Lemma inv_init fc so : inv fc (init so) [] [].
  Proof. unfold inv. simpl. auto. Qed.

  (* the theorem: for every event list *)
  Theorem relay_exact (so : bool) (l : list ev) (fc : bool) :
    let '(s, o) := run (init so) l in
    (ph s = PRelay -> sent fc o = data_of fc l) /\
    (ph s = PUndecided \/ ph s = PWaitOpen ->
       sent fc o = [] /\ data_of fc l = data_of fc (nl_events s ++ tq s)) /\
    (ph s = PDone -> exists rest, data_of fc l = sent fc o ++ rest) /\
    (ph s = POther -> sent fc o = []).
  Proof.
    destruct (run (init so) l) as [s o] eqn:R.
    pose proof (run_inv fc l (init so) s o [] [] (inv_init fc so) R) as I. simpl in I.
    unfold inv in I. repeat split.
    - intros P. rewrite P in I. destruct I as [E _]. auto.
    - destruct H as [P|P]; rewrite P in I; destruct I as [E _]; exact E.
    - destruct H as [P|P]; rewrite P in I; destruct I as [_ [Q E]]; rewrite Q, E, ?app_nil_r; reflexivity.
    - intros P. rewrite P in I. exact I.
    - intros P. rewrite P in I. exact I.
  Qed.

  (* ---------- the decision inside the machine is first_decision ---------- *)
  Definition only_data (l : list ev) : Prop := forall e, In e l -> exists f d, e = EData f d.

  Lemma data_of_client_map segs : data_of true (map (EData true) segs) = segs.
  Proof. induction segs as [|x segs IH]; [reflexivity|]. simpl. rewrite IH. reflexivity. Qed.
  Lemma data_of_server_map segs : data_of false (map (EData true) segs) = [].
  Proof. induction segs as [|x segs IH]; [reflexivity|]. simpl. exact IH. Qed.

  Lemma relay_many_data s : forall l, only_data l -> fst (relay_many s PRelay l) = PRelay.
  Proof.
    induction l as [|e l IH]; intros D; [reflexivity|].
    destruct (D e (or_introl eq_refl)) as [f [d ->]]. cbn [relay_many relay_one].
    assert (D' : only_data l) by (intros x Hx; apply D; right; exact Hx).
    specialize (IH D'). destruct (relay_many s PRelay l) as [p o]. simpl in *. exact IH.
  Qed.

  Lemma step_data_ph s f d : ph s <> PUndecided -> ph (fst (step s (EData f d))) = ph s.
  Proof.
    intros N. unfold IgnoreHosts.step. cbn [env_arrive]. unfold IgnoreHosts.layer_step.
    destruct (ph s) eqn:P; try contradiction; cbn [relay_one]; simpl; try exact P; reflexivity.
  Qed.

  Lemma run_data_ph : forall segs s, ph s <> PUndecided -> ph (fst (run s (map (EData true) segs))) = ph s.
  Proof.
    induction segs as [|x segs IH]; intros s N; [reflexivity|].
    cbn [map IgnoreHosts.run]. pose proof (step_data_ph s true x N) as E.
    destruct (step s (EData true x)) as [s1 o1]. simpl in E.
    assert (N1 : ph s1 <> PUndecided) by (rewrite E; exact N).
    specialize (IH s1 N1). destruct (run s1 (map (EData true) segs)) as [s2 o2]. simpl in *. congruence.
  Qed.

  Lemma data_of_client_snoc pre x :
    data_of true (map (EData true) pre ++ [EData true x]) = pre ++ [x].
  Proof. rewrite data_of_app, data_of_client_map. reflexivity. Qed.
  Lemma data_of_server_snoc pre x :
    data_of false (map (EData true) pre ++ [EData true x]) = [].
  Proof. rewrite data_of_app, data_of_server_map. reflexivity. Qed.
  Lemma concat_snoc (pre : list bytes) (x : bytes) : concat (pre ++ [x]) = concat pre ++ x.
  Proof. rewrite concat_app. simpl. rewrite app_nil_r. reflexivity. Qed.

  Lemma only_data_map pre x : only_data (map (EData true) pre ++ [EData true x]).
  Proof.
    intros e H. apply in_app_or in H as [H|[H|[]]].
    - apply in_map_iff in H as [d [<- _]]. eauto.
    - subst. eauto.
  Qed.

  Lemma run_cons_fst s e l : fst (run s (e :: l)) = fst (run (fst (step s e)) l).
  Proof.
    cbn [IgnoreHosts.run]. destruct (step s e) as [s1 o1]. cbn [fst]. destruct (run s1 l) as [s2 o2]. reflexivity.
  Qed.

  Lemma step_undecided_data s pre x :
    ph s = PUndecided -> tq s = [] -> nl_events s = map (EData true) pre ->
    let s1 := fst (step s (EData true x)) in
    match ignore_connection re_search ace_ok c (concat pre ++ x) [] with
    | NeedsMore => ph s1 = PUndecided /\ tq s1 = [] /\ nl_events s1 = map (EData true) (pre ++ [x])
                   /\ s_started s1 = s_started s
    | Decided true _ => ph s1 = if s_started s then PRelay else PWaitOpen
    | Decided false _ => ph s1 = POther
    end.
  Proof.
    intros P Q E. unfold IgnoreHosts.step. cbn [env_arrive]. unfold IgnoreHosts.layer_step. rewrite P, E.
    rewrite data_of_client_snoc, data_of_server_snoc, concat_snoc. cbn [concat].
    destruct (ignore_connection re_search ace_ok c (concat pre ++ x) []) as [|[|] hs] eqn:D.
    - cbn [fold_left env_cmd fst ph tq nl_events set_ph s_started]. rewrite map_app. auto.
    - destruct (s_started s) eqn:SS.
      + pose proof (relay_many_data s _ (only_data_map pre x)) as R.
        destruct (relay_many s PRelay (map (EData true) pre ++ [EData true x])) as [p o']. simpl in R. subst p.
        cbn [fst]. destruct (env_cmds_ph (CAsk :: o') (set_ph s PRelay [] [])) as [A _]. exact A.
      + reflexivity.
    - reflexivity.
  Qed.

  (* the machine fed the client's first flight decides what first_decision says *)
  Lemma run_first_decision : forall segs s pre,
    ph s = PUndecided -> tq s = [] -> nl_events s = map (EData true) pre ->
    match first_decision re_search ace_ok c (concat pre) segs with
    | NeedsMore => ph (fst (run s (map (EData true) segs))) = PUndecided
    | Decided true _ => ph (fst (run s (map (EData true) segs))) = if s_started s then PRelay else PWaitOpen
    | Decided false _ => ph (fst (run s (map (EData true) segs))) = POther
    end.
  Proof.
    induction segs as [|x segs IH]; intros s pre P Q E; [exact P|].
    cbn [map IgnoreHosts.first_decision]. rewrite !run_cons_fst.
    pose proof (step_undecided_data s pre x P Q E) as K. cbn zeta in K.
    destruct (ignore_connection re_search ace_ok c (concat pre ++ x) []) as [|[|] hs] eqn:D.
    - destruct K as [P1 [Q1 [E1 S1]]].
      specialize (IH _ (pre ++ [x]) P1 Q1 E1). rewrite concat_snoc, S1 in IH. exact IH.
    - rewrite run_data_ph; [exact K | rewrite K; destruct (s_started s); discriminate].
    - rewrite run_data_ph; [exact K | rewrite K; discriminate].
  Qed.

  (* ignored and the server already connected: every segment of the first flight, including those
     buffered before the decision, has been forwarded unchanged *)
  Theorem ignored_first_flight_forwarded (segs : list bytes) hs :
    first_decision re_search ace_ok c [] segs = Decided true hs ->
    let '(s, o) := run (init true) (map (EData true) segs) in
    ph s = PRelay /\ sent true o = segs /\ sent false o = [].
  Proof.
    intros D. pose proof (run_first_decision segs (init true) [] eq_refl eq_refl eq_refl) as K.
    simpl concat in K. rewrite D in K. simpl in K.
    pose proof (relay_exact true (map (EData true) segs) true) as T1.
    pose proof (relay_exact true (map (EData true) segs) false) as T2.
    destruct (run (init true) (map (EData true) segs)) as [s o]. simpl in K.
    destruct T1 as [T1 _]. destruct T2 as [T2 _].
    rewrite (T1 K), (T2 K), data_of_client_map, data_of_server_map. auto.
  Qed.

  Theorem not_ignored_intercepted (segs : list bytes) hs so :
    first_decision re_search ace_ok c [] segs = Decided false hs ->
    ph (fst (run (init so) (map (EData true) segs))) = POther.
  Proof.
    intros D. pose proof (run_first_decision segs (init so) [] eq_refl eq_refl eq_refl) as K.
    simpl concat in K. rewrite D in K. exact K.
  Qed.
End Relay.
