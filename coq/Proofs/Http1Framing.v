(* Proofs/Http1Framing.v -- (a) framing_agree: for every head accepted by the generated validate_headers, the
   generated expected_http_body_size equals the RFC 9112 6.3 decision of the reference parser on the same fields;
   (d) what validate_headers rejects. *)
From Coq Require Import List Bool NArith ZArith Lia.
From MV Require Import Base.Bytes Model.Http1Msg Model.BodySizePrelude Gen.BodySize Model.Rfc9112
  Proofs.Http1Regex Proofs.Http1Validate Proofs.Http1TeNorm Proofs.Http1Lower.
Import ListNotations.

Definition SET := _HTTP_1_1_TRANSFER_ENCODINGS.
Definition size_agrees (sz : option Z) (bl : body_len) : Prop :=
  match sz, bl with
  | None, BLChunked => True
  | Some z, BLUntilClose => z = (-1)%Z
  | Some z, BLZero => z = 0%Z
  | Some z, BLTunnel => z = 0%Z
  | Some z, BLLen n => z = Z.of_N n
  | _, _ => False
  end.

(* ---------- digits *)
Lemma digit_props : forall b, is_digit b = true ->
  is_pyspace b = false /\ is_ows b = false /\ byte_eqb b x2c = false /\ byte_eqb b x2d = false /\ byte_eqb b x2b = false.
Proof.
  intros b. 
  assert (H : implb (is_digit b) (negb (is_pyspace b) && negb (is_ows b) && negb (byte_eqb b x2c)
                                  && negb (byte_eqb b x2d) && negb (byte_eqb b x2b)) = true).
  { revert b. apply (forall_bytes (fun b => implb (is_digit b) (negb (is_pyspace b) && negb (is_ows b) && negb (byte_eqb b x2c)
                                  && negb (byte_eqb b x2d) && negb (byte_eqb b x2b)))). vm_compute. reflexivity. }
  intros D. rewrite D in H. simpl in H.
  repeat (apply andb_true_iff in H as [H ?]). repeat split; apply negb_true_iff; assumption.
Qed.

Lemma rstrip_nospace s : forallb (fun b => negb (is_pyspace b)) s = true -> rstrip s = s.
Proof.
  induction s as [|x s IH]; simpl; auto. intros H. apply andb_true_iff in H as [A B].
  rewrite (IH B). destruct s; auto. apply negb_true_iff in A. rewrite A. reflexivity.
Qed.

Lemma digits_nospace s : forallb is_digit s = true -> forallb (fun b => negb (is_pyspace b)) s = true.
Proof.
  induction s as [|x s IH]; simpl; auto. intros H. apply andb_true_iff in H as [A B].
  destruct (digit_props x A) as [P _]. rewrite P, (IH B). reflexivity.
Qed.

Lemma strip_digits s : forallb is_digit s = true -> strip s = s.
Proof.
  intros H. unfold strip.
  assert (lstrip s = s).
  { destruct s as [|x s]; auto. simpl in *. apply andb_true_iff in H as [A _].
    destruct (digit_props x A) as [P _]. rewrite P. reflexivity. }
  rewrite H0. apply rstrip_nospace, digits_nospace, H.
Qed.

Lemma int_digits_dec s : forall acc p, forallb is_digit s = true ->
  int_digits s acc p = match s with [] => if p then Some acc else None | _ => dec_value s acc end.
Proof.
  induction s as [|x s IH]; intros acc p H; simpl; auto.
  simpl in H. apply andb_true_iff in H as [A B]. rewrite A. rewrite (IH _ true B).
  destruct s; reflexivity.
Qed.

Lemma dec_value_some s : forall acc, forallb is_digit s = true -> exists n, dec_value s acc = Some n.
Proof.
  induction s as [|x s IH]; intros acc H; simpl; eauto.
  simpl in H. apply andb_true_iff in H as [A B]. rewrite A. apply IH, B.
Qed.

Lemma py_int_digits s n : s <> [] -> forallb is_digit s = true -> dec_value s 0%N = Some n ->
  py_int_res s = Ok (Z.of_N n).
Proof.
  intros Hne H Hn. unfold py_int_res. rewrite (strip_digits _ H).
  destruct s as [|x s]; [congruence|].
  assert (A : is_digit x = true) by (simpl in H; apply andb_true_iff in H as [A _]; exact A).
  destruct (digit_props x A) as (_ & _ & _ & M & P).
  assert (E : py_int (x :: s) = match int_digits (x :: s) 0%N false with Some n => Some (Z.of_N n) | None => None end).
  { unfold py_int. destruct x; try reflexivity; simpl in M, P; discriminate. }
  rewrite E, (int_digits_dec _ _ _ H), Hn. reflexivity.
Qed.

Lemma contains1 c s : contains [c] s = existsb (byte_eqb c) s.
Proof.
  induction s as [|x s IH]; simpl; auto. rewrite IH, andb_true_r. reflexivity.
Qed.

Lemma not_bad_nolf v : bad_value v = false -> existsb (byte_eqb LF) v = false.
Proof.
  unfold bad_value. intros H. apply orb_false_iff in H as [H _]. apply orb_false_iff in H as [_ H].
  rewrite contains1 in H. exact H.
Qed.

Lemma get_all_in key fs v : In v (get_all key fs) -> exists n, In (n, v) fs.
Proof.
  unfold get_all. intros H. apply in_map_iff in H as [[n v'] [E H]]. simpl in E; subst.
  apply filter_In in H as [H _]. eauto.
Qed.

Lemma field_ok_value fs key v : forallb field_ok fs = true -> In v (get_all key fs) -> bad_value v = false.
Proof.
  intros H Hin. destruct (get_all_in _ _ _ Hin) as [n Hn].
  rewrite forallb_forall in H. specialize (H _ Hn). unfold field_ok in H. simpl in H.
  apply andb_true_iff in H as [_ H]. apply negb_true_iff in H. exact H.
Qed.

(* parse_content_length accepts exactly canonical decimals (given no LF) and returns their value *)
Lemma pcl_flag v : parse_content_length true v = parse_content_length false v.
Proof.
  unfold parse_content_length, re_match_anchored. rewrite ?cl_lang_str, ?cl_lang_bytes.
  destruct (drop_final_lf v); reflexivity.
Qed.

Lemma pcl_ok v z : existsb (byte_eqb LF) v = false -> parse_content_length false v = Ok z ->
  v <> [] /\ forallb is_digit v = true /\ exists n, dec_value v 0%N = Some n /\ z = Z.of_N n.
Proof.
  intros Hlf H. unfold parse_content_length in H. cbv zeta in H.
  rewrite (re_match_anchored_nolf _ _ Hlf), cl_lang_bytes in H.
  destruct (canon_dec v) eqn:C; simpl in H; [|discriminate].
  destruct (canon_dec_digits _ C) as [Hne Hd]. split; auto. split; auto.
  destruct (dec_value_some v 0%N Hd) as [n Hn]. exists n. split; auto.
  rewrite (py_int_digits v n Hne Hd Hn) in H. congruence.
Qed.

(* ---------- reference side on simple values *)
Lemma field_values_te fs : field_values r_te fs = get_all TRANSFER_ENCODING fs.
Proof. reflexivity. Qed.
Lemma field_values_cl fs : field_values r_cl fs = get_all CONTENT_LENGTH fs.
Proof. reflexivity. Qed.

Lemma trim_digits s : forallb is_digit s = true -> trim_ows s = s.
Proof.
  intros H. unfold trim_ows.
  assert (L : ltrim_ows s = s).
  { destruct s as [|x s]; auto. simpl in *. apply andb_true_iff in H as [A _].
    destruct (digit_props x A) as (_ & P & _). rewrite P. reflexivity. }
  rewrite L. clear L. induction s as [|x s IH]; simpl; auto.
  simpl in H. apply andb_true_iff in H as [A B]. rewrite (IH B).
  destruct s; auto. destruct (digit_props x A) as (_ & P & _). rewrite P. reflexivity.
Qed.

Lemma digits_nocomma s : forallb is_digit s = true -> existsb (byte_eqb COMMA) s = false.
Proof.
  induction s as [|x s IH]; simpl; auto. intros H. apply andb_true_iff in H as [A B].
  rewrite (IH B), orb_false_r. destruct (digit_props x A) as (_ & _ & P & _).
  destruct (byte_eqb COMMA x) eqn:E; auto. apply byte_eqb_eq in E. subst x. discriminate.
Qed.

Lemma ref_cl_single v n : v <> [] -> forallb is_digit v = true -> dec_value v 0%N = Some n ->
  match list_elements [v] with [] => None | es => match all_same_dec es None with Some k => Some (BLLen k) | None => None end end
  = Some (BLLen n).
Proof.
  intros Hne Hd Hn. rewrite list_elements_single.
  rewrite (split_comma_nocomma v [] (digits_nocomma _ Hd)). cbn [rev app map]. rewrite (trim_digits _ Hd).
  destruct v as [|x v]; [congruence|].
  change (filter nonempty_b [x :: v]) with [x :: v].
  cbn [all_same_dec]. unfold parse_dec. rewrite Hn. reflexivity.
Qed.

(* ---------- Transfer-Encoding: the eight accepted values *)
Definition set_entry_ok (t : bytes) : bool :=
  match coding_names (filter nonempty_b (map trim_ows (split_comma t []))) with
  | Some (n :: ns) => Bool.eqb (bytes_eqb (last (n :: ns) []) r_chunked) (in_set t (firstn 4 SET))
                      && Bool.eqb (negb (in_set t (firstn 4 SET))) (in_set t (skipn 4 SET))
  | _ => false
  end.
Lemma set_ok : forallb set_entry_ok SET = true.
Proof. vm_compute. reflexivity. Qed.

Lemma in_set_ok t : in_set t SET = true -> set_entry_ok t = true.
Proof.
  intros H. unfold in_set in H. apply existsb_exists in H as [x [Hin E]]. apply bytes_eqb_eq in E. subst x.
  pose proof set_ok as S. rewrite forallb_forall in S. apply S, Hin.
Qed.

Lemma pte_flag v : parse_transfer_encoding true v = parse_transfer_encoding false v.
Proof. unfold parse_transfer_encoding. destruct (isascii v); reflexivity. Qed.

Lemma pte_ok v t : parse_transfer_encoding false v = Ok t -> t = norm (lower v) /\ in_set t SET = true.
Proof.
  unfold parse_transfer_encoding. destruct (isascii v); cbn [negb]; [|discriminate]. cbv zeta.
  fold SET. change (re_sub_trim [(9%N, 9%N); (32%N, 32%N)] x2c [(9%N, 9%N); (32%N, 32%N)] [x2c] (lower v)) with (norm (lower v)).
  destruct (in_set (norm (lower v)) SET) eqn:E; cbn [negb]; [|discriminate].
  intros H. injection H as <-. auto.
Qed.

(* the reference reads the codings of an accepted Transfer-Encoding value exactly as mitmproxy classifies it *)
Lemma ref_te_single v t : parse_transfer_encoding false v = Ok t ->
  exists n ns, coding_names (list_elements [v]) = Some (n :: ns)
    /\ bytes_eqb (last (n :: ns) []) r_chunked = in_set t (firstn 4 SET)
    /\ in_set t (skipn 4 SET) = negb (in_set t (firstn 4 SET)).
Proof.
  intros H. destruct (pte_ok _ _ H) as [Ht Hs].
  pose proof (in_set_ok _ Hs) as K. unfold set_entry_ok in K.
  rewrite <- coding_names_elements_lower, list_elements_single, norm_same_elements, <- Ht.
  destruct (coding_names _) as [[|n ns]|]; try discriminate.
  apply andb_true_iff in K as [K1 K2]. apply eqb_prop in K1. apply eqb_prop in K2.
  exists n, ns. repeat split; auto.
Qed.
