(* Proofs/ConnHandlerPair.v -- the hook word of every upstream connection is determined by the
   program counter of its task (pairing grammar), together with the writer / transports-entry
   state; the client hook word is determined by the program counter of handle_client. *)
From Coq Require Import List Bool Arith Lia.
From MV Require Import Model.ConnHandler Proofs.ConnHandlerBase.
Import ListNotations.

Definition srv_hook (h : hookname) : bool :=
  match h with HServerConnect | HServerConnected | HServerConnectError | HServerDisconnected => true | _ => false end.
Definition cli_hook (h : hookname) : bool :=
  match h with HClientConnected | HClientDisconnected => true | _ => false end.

(* hook calls about upstream connection c, newest first *)
Fixpoint proj (c : nat) (tr : list ev) : list hookname :=
  match tr with
  | [] => []
  | EHook h c' :: t => if srv_hook h && Nat.eqb c' c then h :: proj c t else proj c t
  | _ :: t => proj c t
  end.
(* client hook calls, newest first *)
Fixpoint cproj (tr : list ev) : list hookname :=
  match tr with
  | [] => []
  | EHook h _ :: t => if cli_hook h then h :: cproj t else cproj t
  | _ :: t => cproj t
  end.

Definition xword (x : exitk) : list hookname :=
  match x with
  | XNoAddr | XLostStart => []
  | XLostConnectHook | XLostSem => [HServerConnect]
  | XErr _ => [HServerConnectError; HServerConnect]
  | XLostConnectedHook => [HServerConnected; HServerConnect]
  | XClosed _ => [HServerDisconnected; HServerConnected; HServerConnect]
  end.
Definition rword (p : cpc) : list hookname :=
  match p with
  | P0 => []
  | PHookConnect | PSem _ | PConnecting => [HServerConnect]
  | PHookErrKilled | PHookErr _ => [HServerConnectError; HServerConnect]
  | PHookConnected | PRead | PDrainLock _ | PDrain _ _ | PEvent => [HServerConnected; HServerConnect]
  | PHookDisc _ => [HServerDisconnected; HServerConnected; HServerConnect]
  | PDone x => xword x
  end.
Definition mword (p : mpc) : list hookname :=
  match p with
  | M0 => []
  | MHookConn | MWaitHandler => [HClientConnected]
  | _ => [HClientDisconnected; HClientConnected]
  end.

(* writer / entry / task as a function of the program counter (upstream connections) *)
Definition wokv (p : cpc) (w : wst) (e t : bool) : Prop :=
  match p with
  | P0 | PHookConnect | PHookErrKilled | PSem _ | PConnecting | PHookErr _ => w = WNone /\ e = true /\ t = true
  | PHookConnected | PRead | PDrainLock _ | PDrain _ _ | PEvent => w = WOpen /\ e = true /\ t = true
  | PHookDisc _ => w = WClosed /\ e = false /\ t = true
  | PDone (XClosed _) => w = WClosed /\ e = false
  | PDone XLostConnectedHook => w = WOpen
  | PDone _ => w = WNone
  end.
Definition wok (x : conn) : Prop := wokv (c_pc x) (c_writer x) (c_entry x) (c_task x).

Definition cinv (c : nat) (s : st) : Prop :=
  proj c (trace s) = rword (c_pc (getc s c)) /\ wok (getc s c).

Definition kpc (p : cpc) : cpc :=
  match p with PSem _ => PSem WPending | PDrainLock _ => PDrainLock WPending | _ => p end.
Lemma rword_kpc : forall p, rword (kpc p) = rword p. Proof. destruct p; auto. Qed.
Lemma wokv_kpc : forall p w e t, wokv (kpc p) w e t <-> wokv p w e t. Proof. destruct p; simpl; tauto. Qed.

Definition ksoft (x y : conn) : Prop :=
  c_addr y = c_addr x /\ kpc (c_pc y) = kpc (c_pc x) /\ c_task y = c_task x /\
  c_entry y = c_entry x /\ c_writer y = c_writer x.
Lemma ksoft_refl : forall x, ksoft x x. Proof. unfold ksoft; intuition. Qed.
Lemma ksoft_trans : forall x y z, ksoft x y -> ksoft y z -> ksoft x z.
Proof. unfold ksoft; intuition congruence. Qed.
Lemma psoft_ksoft : forall x y, psoft x y -> ksoft x y.
Proof.
  unfold psoft, ksoft. intros x y (A & P & T & E & W). repeat split; auto.
  destruct P as [P | [[P P'] | [P P']]]; rewrite P; auto; rewrite P'; auto.
Qed.
Definition knew (y : conn) : Prop := exists a, ksoft (new_conn a) y.

Definition okev (c : nat) (e : ev) : bool :=
  match e with EHook h c' => srv_hook h && Nat.eqb c' c | _ => true end.

Lemma proj_okev : forall c c' evs t, forallb (okev c) evs = true -> c' <> c -> proj c' (evs ++ t) = proj c' t.
Proof.
  induction evs; simpl; intros; auto. apply andb_true_iff in H as [H1 H2].
  destruct a; simpl; auto. simpl in H1. apply andb_true_iff in H1 as [H1 H3]. apply Nat.eqb_eq in H3. subst.
  rewrite H1. simpl. destruct (Nat.eqb c c') eqn:E; [apply Nat.eqb_eq in E; congruence|]. auto.
Qed.
Lemma cproj_okev : forall c evs t, forallb (okev c) evs = true -> cproj (evs ++ t) = cproj t.
Proof.
  induction evs; simpl; intros; auto. apply andb_true_iff in H as [H1 H2].
  destruct a; simpl; auto. simpl in H1. apply andb_true_iff in H1 as [H1 H3].
  destruct h; simpl in *; try discriminate; auto.
Qed.
Lemma nohook_okev : forall c evs, forallb nohook evs = true -> forallb (okev c) evs = true.
Proof. induction evs; simpl; intros; auto. apply andb_true_iff in H as [H1 H2]. rewrite IHevs; auto. destruct a; simpl in *; auto; discriminate. Qed.
Lemma proj_nohook : forall c evs t, forallb nohook evs = true -> proj c (evs ++ t) = proj c t.
Proof. induction evs; simpl; intros; auto. apply andb_true_iff in H as [H1 H2]. destruct a; simpl in *; auto; discriminate. Qed.
Lemma cproj_nohook : forall evs t, forallb nohook evs = true -> cproj (evs ++ t) = cproj t.
Proof. induction evs; simpl; intros; auto. apply andb_true_iff in H as [H1 H2]. destruct a; simpl in *; auto; discriminate. Qed.

(* ---------------------------------------------------------------- what a step of task c does to the others *)
Record oframe (c : nat) (s s' : st) : Prop := mkO {
  o_len : length (conns s) <= length (conns s');
  o_old : forall c', c' <> c -> c' < length (conns s) -> ksoft (getc s c') (getc s' c');
  o_new : forall c', c' <> c -> length (conns s) <= c' -> c' < length (conns s') -> knew (getc s' c');
  o_main : mainpc s' = mainpc s;
  o_td : teardown_n s' = teardown_n s;
  o_trace : exists evs, trace s' = evs ++ trace s /\ forallb (okev c) evs = true }.

Lemma oframe_refl : forall c s, oframe c s s.
Proof. intros. constructor; auto using ksoft_refl; try lia. exists []; auto. Qed.

Lemma oframe_trans : forall c s1 s2 s3, oframe c s1 s2 -> oframe c s2 s3 -> oframe c s1 s3.
Proof.
  intros c s1 s2 s3 [] []. constructor; try lia; try congruence.
  - intros. eapply ksoft_trans; [apply o_old0; auto|apply o_old1; auto; lia].
  - intros. destruct (Nat.lt_ge_cases c' (length (conns s2))).
    + destruct (o_new0 c') as [a Ha]; auto. exists a. eapply ksoft_trans; eauto.
    + apply o_new1; auto.
  - destruct o_trace0 as (e1 & T1 & N1), o_trace1 as (e2 & T2 & N2).
    exists (e2 ++ e1). rewrite T2, T1, app_assoc. split; auto. rewrite forallb_app, N1, N2. auto.
Qed.

Lemma frame_oframe : forall c s s', frame s s' -> oframe c s s'.
Proof.
  intros c s s' F. pose proof (frame_len _ _ F). destruct F. constructor; auto.
  - intros. apply psoft_ksoft. unfold getc. apply lrel_nth; auto.
  - intros. destruct (lrel_nth_new _ _ f_conns c') as [a Ha]; auto. exists a. apply psoft_ksoft; auto.
  - destruct f_trace as (evs & T & N). exists evs. split; auto using nohook_okev.
Qed.

Lemma of_frame : forall c s s1 s2, frame s1 s2 -> oframe c s s1 -> oframe c s s2.
Proof. intros. eapply oframe_trans; eauto using frame_oframe. Qed.

Lemma of_setc : forall c s s1 x, oframe c s s1 -> oframe c s (setc s1 c x).
Proof.
  intros. eapply oframe_trans; eauto. constructor; simpl; auto.
  - rewrite upd_length; auto.
  - intros. rewrite getc_setc_other; auto using ksoft_refl.
  - intros. rewrite upd_length in *. lia.
  - exists []; auto.
Qed.

Lemma of_setc_other : forall c s s1 d x, ksoft (getc s1 d) x -> oframe c s s1 -> oframe c s (setc s1 d x).
Proof.
  intros. eapply oframe_trans; eauto. constructor; simpl; auto.
  - rewrite upd_length; auto.
  - intros. destruct (Nat.eq_dec d c').
    + subst. rewrite getc_setc_same; auto.
    + rewrite getc_setc_other; auto using ksoft_refl.
  - intros. rewrite upd_length in *. lia.
  - exists []; auto.
Qed.

Lemma of_emit : forall c s s1 e, okev c e = true -> oframe c s s1 -> oframe c s (emit s1 e).
Proof.
  intros. eapply oframe_trans; eauto. constructor; simpl; auto using ksoft_refl; try lia.
  exists [e]. simpl. rewrite H. auto.
Qed.

Lemma of_set_sem : forall c s s1 a v q, oframe c s s1 -> oframe c s (set_sem s1 a v q).
Proof.
  intros. eapply oframe_trans; eauto. constructor; simpl; auto using ksoft_refl; try lia. exists []; auto.
Qed.

Lemma first_pending_pc : forall s q d, first_pending s q = Some d -> c_pc (getc s d) = PSem WPending.
Proof.
  induction q; simpl; intros; try discriminate.
  destruct (c_pc (getc s a)) eqn:E; auto. destruct w; auto. inversion H; subst; auto.
Qed.

Lemma of_wake_next : forall c s s1 a, oframe c s s1 -> oframe c s (wake_next s1 a).
Proof.
  intros. unfold wake_next. destruct (first_pending s1 (semq s1 a)) eqn:E; auto.
  apply of_set_sem. apply of_setc_other; auto.
  apply first_pending_pc in E. unfold ksoft; simpl. rewrite E. auto.
Qed.

Lemma of_release_of : forall c s s1 d, oframe c s s1 -> oframe c s (release_of s1 d).
Proof.
  intros. unfold release_of, sem_release. destruct (c_addr (getc s1 d)); auto.
  apply of_wake_next. apply of_set_sem. auto.
Qed.

Lemma of_finish : forall c s s1 x k, oframe c s s1 -> oframe c s (finish s1 c x k).
Proof. intros. unfold finish. apply of_emit; auto. apply of_setc. auto. Qed.

Lemma of_goto : forall c s s1 p, oframe c s s1 -> oframe c s (goto s1 c p).
Proof. intros. unfold goto. apply of_setc. auto. Qed.

Lemma of_hook_at : forall c s s1 h p, srv_hook h = true -> oframe c s s1 -> oframe c s (hook_at s1 c h p).
Proof. intros. unfold hook_at. apply of_goto. apply of_emit; auto. simpl. rewrite H, Nat.eqb_refl. auto. Qed.

Lemma of_server_event : forall c s s1 e, oframe c s s1 -> oframe c s (server_event s1 e).
Proof. intros. eapply of_frame; eauto. apply frame_server_event. Qed.

Lemma of_set_lock : forall c s s1 b q, oframe c s s1 -> oframe c s (set_lock s1 b q).
Proof. intros. eapply of_frame; eauto. apply frame_set_lock. Qed.
Lemma of_drain_error : forall c s s1 d, oframe c s s1 -> oframe c s (drain_error s1 d).
Proof. intros. eapply of_frame; eauto. apply frame_drain_error. Qed.
Lemma of_wake_first : forall c s s1, oframe c s s1 -> oframe c s (wake_first s1).
Proof.
  intros. unfold wake_first. destruct (dlockq s1); auto. destruct (c_pc (getc s1 n)) eqn:E; auto. destruct w; auto.
  apply of_setc_other; auto. unfold ksoft; simpl. rewrite E. auto.
Qed.
Lemma of_lock_release : forall c s s1, oframe c s s1 -> oframe c s (lock_release s1).
Proof. intros. unfold lock_release. destruct (dlocked s1); auto. apply of_wake_first, of_set_lock. auto. Qed.
Lemma of_setc_cong : forall c s s1 d b, oframe c s s1 -> oframe c s (setc s1 d (with_cong (getc s1 d) b)).
Proof. intros. eapply of_frame; eauto. apply frame_setc. unfold psoft; simpl; intuition. Qed.

Lemma of_hc_cleanup : forall c s s1 b, oframe c s s1 -> oframe c s (hc_cleanup s1 c b).
Proof.
  intros. unfold hc_cleanup. destruct (Nat.eqb c 0).
  - apply of_finish. apply of_setc. apply of_emit; auto.
  - apply of_hook_at; auto. apply of_setc. apply of_emit; auto.
Qed.

Lemma of_hc_after_loop : forall c s s1 b, oframe c s s1 -> oframe c s (hc_after_loop s1 c b).
Proof.
  intros. unfold hc_after_loop.
  match goal with |- context [server_event ?S _] => assert (oframe c s S) by (destruct b; apply of_setc; auto) end.
  destruct (_ && _).
  - apply of_goto. apply of_server_event. auto.
  - apply of_hc_cleanup. apply of_server_event. auto.
Qed.

Lemma of_hc_read : forall c s s1, oframe c s s1 -> oframe c s (hc_read s1 c).
Proof. intros. unfold hc_read. apply of_goto. apply of_emit; auto. Qed.

Lemma of_enter : forall c s s1, oframe c s s1 -> oframe c s (enter_sem_body s1 c).
Proof. intros. unfold enter_sem_body. apply of_goto. apply of_emit; auto. Qed.

Lemma of_drain_go : forall c l s s1, oframe c s s1 -> oframe c s (drain_go s1 c l).
Proof.
  induction l; simpl; intros.
  - apply of_hc_read, of_lock_release. auto.
  - destruct (c_writer (getc s1 a)); auto. destruct (c_broken (getc s1 a)).
    + apply IHl, of_drain_error. auto.
    + destruct (c_cong (getc s1 a)); auto. apply of_goto, of_emit; auto.
Qed.
Lemma of_drain_start : forall c s s1, oframe c s s1 -> oframe c s (drain_start s1 c).
Proof.
  intros. unfold drain_start. destruct (lock_free s1).
  - apply of_drain_go, of_set_lock. auto.
  - apply of_goto, of_set_lock. auto.
Qed.

Ltac ofr :=
  repeat first
    [ apply oframe_refl
    | apply of_drain_start | apply of_drain_go | apply of_lock_release | apply of_wake_first | apply of_set_lock
    | apply of_drain_error | apply of_setc_cong
    | apply of_finish | apply of_hook_at; [reflexivity|] | apply of_hc_read | apply of_enter
    | apply of_hc_after_loop | apply of_hc_cleanup | apply of_release_of | apply of_server_event
    | apply of_goto | apply of_wake_next | apply of_set_sem | apply of_setc ].

Lemma oframe_run_conn : forall s c, oframe c s (run_conn s c).
Proof.
  intros. unfold run_conn.
  destruct (c_pc (getc s c)) eqn:Epc; destruct (c_cf (getc s c)) eqn:Ecf; try solve [ofr].
  - destruct (Nat.eqb c 0); [ofr|]. destruct (c_addr (getc s c)); ofr.
  - match goal with |- context [if ?k then setc _ _ (with_err _) else _] => destruct k end;
    (match goal with |- context [c_err (getc ?S c)] => destruct (c_err (getc S c)) end; [ofr|]);
    (match goal with |- context [c_addr (getc ?S c)] => destruct (c_addr (getc S c)) end; [|ofr]);
    (match goal with |- context [sem_locked ?S ?a] => destruct (sem_locked S a) end); ofr.
  - destruct (c_addr (getc s c)); [|ofr]. destruct w; ofr.
  - destruct (c_addr (getc s c)); [|ofr]. destruct w; ofr.
    match goal with |- context [Nat.ltb 0 ?v] => destruct (Nat.ltb 0 v) end; ofr.
  - destruct (c_wk (getc s c)) as [[| | |[|]|]|]; ofr.
  - destruct (c_wk (getc s c)) as [[| |[| |]| |]|]; ofr.
  - destruct w; ofr; match goal with |- context [if dlocked ?S then _ else _] => destruct (dlocked S) end; ofr.
  - destruct w; ofr.
  - destruct (c_wk (getc s c)) as [[| | | |[|]]|]; ofr.
Qed.

(* ---------------------------------------------------------------- what a step of task c does to c itself *)
Definition OV (c : nat) (S : st) (p : cpc) (w : wst) (e t : bool) (h : list hookname) : Prop :=
  c < length (conns S) /\ kpc (c_pc (getc S c)) = kpc p /\ c_writer (getc S c) = w /\
  c_entry (getc S c) = e /\ c_task (getc S c) = t /\ proj c (trace S) = h.

Definition Good (c : nat) (S : st) : Prop :=
  exists p w e t h, OV c S p w e t h /\ h = rword p /\ wokv p w e t.

Lemma good_ov : forall c S p w e t h, OV c S p w e t h -> h = rword p -> wokv p w e t -> Good c S.
Proof. intros. exists p, w, e, t, h. auto. Qed.

Lemma good_cinv : forall c S, Good c S -> cinv c S.
Proof.
  intros c S (p & w & e & t & h & (L & P & W & E & T & H) & Hh & Hw). split.
  - rewrite H, Hh, <- rword_kpc, <- P, rword_kpc. auto.
  - unfold wok. rewrite W, E, T. apply wokv_kpc. rewrite P. apply wokv_kpc. auto.
Qed.

Lemma cinv_ov : forall c S, c < length (conns S) -> cinv c S ->
  OV c S (c_pc (getc S c)) (c_writer (getc S c)) (c_entry (getc S c)) (c_task (getc S c)) (rword (c_pc (getc S c))).
Proof. intros c S L [H1 H2]. repeat split; auto. Qed.

Lemma ov_frame : forall c S S' p w e t h, frame S S' -> OV c S p w e t h -> OV c S' p w e t h.
Proof.
  intros c S S' p w e t h F (L & P & W & E & T & H).
  pose proof (frame_len _ _ F). pose proof (psoft_ksoft _ _ (frame_getc _ _ c F L)) as (A & K & T' & E' & W').
  destruct F. destruct f_trace as (evs & Tr & N).
  repeat split; try congruence; try lia. rewrite Tr, proj_nohook; auto.
Qed.

Lemma ov_setc_pc : forall c S p w e t h q, OV c S p w e t h -> OV c (setc S c (with_pc (getc S c) q)) q w e t h.
Proof. intros c S p w e t h q (L & P & W & E & T & H). unfold OV. rewrite len_setc, getc_setc_same; auto; simpl; repeat split; auto. Qed.
Lemma ov_setc_wake : forall c S p w e t h k f, OV c S p w e t h -> OV c (setc S c (with_wake (getc S c) k f)) p w e t h.
Proof. intros c S p w e t h k f (L & P & W & E & T & H). unfold OV. rewrite len_setc, getc_setc_same; auto; simpl; repeat split; auto. Qed.
Lemma ov_setc_state : forall c S p w e t h a b, OV c S p w e t h -> OV c (setc S c (with_state (getc S c) a b)) p w e t h.
Proof. intros c S p w e t h a b (L & P & W & E & T & H). unfold OV. rewrite len_setc, getc_setc_same; auto; simpl; repeat split; auto. Qed.
Lemma ov_setc_err : forall c S p w e t h, OV c S p w e t h -> OV c (setc S c (with_err (getc S c))) p w e t h.
Proof. intros c S p w e t h (L & P & W & E & T & H). unfold OV. rewrite len_setc, getc_setc_same; auto; simpl; repeat split; auto. Qed.
Lemma ov_setc_io : forall c S p w e t h e' w', OV c S p w e t h -> OV c (setc S c (with_io (getc S c) e' w')) p w' e' t h.
Proof. intros c S p w e t h e' w' (L & P & W & E & T & H). unfold OV. rewrite len_setc, getc_setc_same; auto; simpl; repeat split; auto. Qed.
Lemma ov_setc_io_state : forall c S p w e t h e' w' a b,
  OV c S p w e t h -> OV c (setc S c (with_io (with_state (getc S c) a b) e' w')) p w' e' t h.
Proof. intros c S p w e t h e' w' a b (L & P & W & E & T & H). unfold OV. rewrite len_setc, getc_setc_same; auto; simpl; repeat split; auto. Qed.

Lemma ov_emit_hook : forall c S p w e t h k, srv_hook k = true -> OV c S p w e t h -> OV c (emit S (EHook k c)) p w e t (k :: h).
Proof. intros c S p w e t h k K (L & P & W & E & T & H). unfold OV; simpl. rewrite K, Nat.eqb_refl. simpl. repeat split; auto. congruence. Qed.
Lemma ov_emit_other : forall c S p w e t h ev, nohook ev = true -> OV c S p w e t h -> OV c (emit S ev) p w e t h.
Proof. intros c S p w e t h ev K (L & P & W & E & T & H). unfold OV; simpl. repeat split; auto. destruct ev; auto; discriminate. Qed.
Lemma ov_set_sem : forall c S p w e t h a v q, OV c S p w e t h -> OV c (set_sem S a v q) p w e t h.
Proof. intros c S p w e t h a v q H. exact H. Qed.

Lemma ov_wake_next : forall c S p w e t h a, OV c S p w e t h -> OV c (wake_next S a) p w e t h.
Proof.
  intros c S p w e t h a H. unfold wake_next. destruct (first_pending S (semq S a)) eqn:E0; auto.
  apply ov_set_sem. apply first_pending_pc in E0. destruct H as (L & P & W & E & T & H).
  unfold OV. rewrite len_setc. destruct (Nat.eq_dec n c).
  - subst. rewrite getc_setc_same; auto. simpl. rewrite E0 in P. repeat split; auto.
  - rewrite getc_setc_other; auto. repeat split; auto.
Qed.
Lemma ov_release_of : forall c S p w e t h d, OV c S p w e t h -> OV c (release_of S d) p w e t h.
Proof. intros. unfold release_of, sem_release. destruct (c_addr (getc S d)); auto. apply ov_wake_next, ov_set_sem; auto. Qed.
Lemma ov_server_event : forall c S p w e t h le, OV c S p w e t h -> OV c (server_event S le) p w e t h.
Proof. intros. eapply ov_frame; eauto using frame_server_event. Qed.
Lemma ov_set_lock : forall c S p w e t h b q, OV c S p w e t h -> OV c (set_lock S b q) p w e t h.
Proof. intros c S p w e t h b q H. exact H. Qed.
Lemma ov_drain_error : forall c S p w e t h d, OV c S p w e t h -> OV c (drain_error S d) p w e t h.
Proof. intros. eapply ov_frame; eauto using frame_drain_error. Qed.
Lemma ov_setc_cong : forall c S p w e t h d b, OV c S p w e t h -> OV c (setc S d (with_cong (getc S d) b)) p w e t h.
Proof. intros. eapply ov_frame; eauto. apply frame_setc. unfold psoft; simpl; intuition. Qed.
Lemma ov_wake_first : forall c S p w e t h, OV c S p w e t h -> OV c (wake_first S) p w e t h.
Proof.
  intros c S p w e t h H. unfold wake_first. destruct (dlockq S); auto.
  destruct (c_pc (getc S n)) eqn:E0; auto. destruct w0; auto.
  destruct H as (L & P & W & E & T & H). unfold OV. rewrite len_setc. destruct (Nat.eq_dec n c).
  - subst. rewrite getc_setc_same; auto. simpl. rewrite E0 in P. repeat split; auto.
  - rewrite getc_setc_other; auto. repeat split; auto.
Qed.
Lemma ov_lock_release : forall c S p w e t h, OV c S p w e t h -> OV c (lock_release S) p w e t h.
Proof. intros. unfold lock_release. destruct (dlocked S); auto. apply ov_wake_first, ov_set_lock. auto. Qed.

Lemma ov_finish : forall c S p w e t h x k, OV c S p w e t h -> OV c (finish S c x k) (PDone x) w e t h.
Proof.
  intros. unfold finish. apply ov_emit_other; auto.
  destruct H as (L & P & W & E & T & H). unfold OV. rewrite len_setc, getc_setc_same; auto; simpl; repeat split; auto.
Qed.
Lemma ov_goto : forall c S p w e t h q, OV c S p w e t h -> OV c (goto S c q) q w e t h.
Proof. intros. unfold goto. eapply ov_setc_pc; eauto. Qed.
Lemma ov_hook_at : forall c S p w e t h k q, srv_hook k = true -> OV c S p w e t h -> OV c (hook_at S c k q) q w e t (k :: h).
Proof. intros. unfold hook_at. eapply ov_goto. eapply ov_emit_hook; eauto. Qed.
Lemma ov_hc_read : forall c S p w e t h, OV c S p w e t h -> OV c (hc_read S c) PRead w e t h.
Proof. intros. unfold hc_read. eapply ov_goto. eapply ov_emit_other; eauto. Qed.
Lemma ov_enter : forall c S p w e t h, OV c S p w e t h -> OV c (enter_sem_body S c) PConnecting w e t h.
Proof. intros. unfold enter_sem_body. eapply ov_goto. eapply ov_emit_other; eauto. Qed.
Lemma ov_hc_cleanup : forall c S p w e t h b, Nat.eqb c 0 = false -> OV c S p w e t h ->
  OV c (hc_cleanup S c b) (PHookDisc b) WClosed false t (HServerDisconnected :: h).
Proof.
  intros. unfold hc_cleanup. rewrite H. eapply ov_hook_at; auto. eapply ov_setc_io. eapply ov_emit_other; eauto.
Qed.

Lemma good_hc_after_loop : forall c S p b, Nat.eqb c 0 = false ->
  OV c S p WOpen true true [HServerConnected; HServerConnect] -> Good c (hc_after_loop S c b).
Proof.
  intros c S p b C H. unfold hc_after_loop.
  match goal with |- context [server_event ?S1 _] =>
    assert (H1 : OV c S1 p WOpen true true [HServerConnected; HServerConnect]) by (destruct b; apply ov_setc_state; auto) end.
  destruct (_ && _).
  - eapply good_ov; [eapply ov_goto, ov_server_event, H1|reflexivity|simpl; auto].
  - eapply good_ov; [eapply ov_hc_cleanup, ov_server_event, H1; auto|reflexivity|simpl; auto].
Qed.

Lemma good_drain_go : forall c l S p,
  OV c S p WOpen true true [HServerConnected; HServerConnect] -> Good c (drain_go S c l).
Proof.
  induction l; simpl; intros S p H.
  - eapply good_ov; [eapply ov_hc_read, ov_lock_release, H|reflexivity|simpl; auto].
  - destruct (c_writer (getc S a)); eauto. destruct (c_broken (getc S a)).
    + eapply IHl. eapply ov_drain_error; eauto.
    + destruct (c_cong (getc S a)); eauto.
      eapply good_ov; [eapply ov_goto, ov_emit_other; [reflexivity|exact H]|reflexivity|simpl; auto].
Qed.
Lemma good_drain_start : forall c S p,
  OV c S p WOpen true true [HServerConnected; HServerConnect] -> Good c (drain_start S c).
Proof.
  intros. unfold drain_start. destruct (lock_free S).
  - eapply good_drain_go. eapply ov_set_lock; eauto.
  - destruct (c_cf (getc S c)); (eapply good_ov; [eapply ov_goto, ov_set_lock; eauto|reflexivity|simpl; auto]).
Qed.

Ltac ovr :=
  repeat match goal with
  | |- OV _ (set_lock _ _ _) _ _ _ _ _ => eapply ov_set_lock
  | |- OV _ (lock_release _) _ _ _ _ _ => eapply ov_lock_release
  | |- OV _ (wake_first _) _ _ _ _ _ => eapply ov_wake_first
  | |- OV _ (drain_error _ _) _ _ _ _ _ => eapply ov_drain_error
  | |- OV _ (setc _ _ (with_cong _ _)) _ _ _ _ _ => eapply ov_setc_cong
  | |- OV _ _ _ _ _ _ _ => eassumption
  | |- OV _ (finish _ _ _ _) _ _ _ _ _ => eapply ov_finish
  | |- OV _ (hook_at _ _ _ _) _ _ _ _ _ => eapply ov_hook_at; [reflexivity|]
  | |- OV _ (hc_read _ _) _ _ _ _ _ => eapply ov_hc_read
  | |- OV _ (enter_sem_body _ _) _ _ _ _ _ => eapply ov_enter
  | |- OV _ (hc_cleanup _ _ _) _ _ _ _ _ => eapply ov_hc_cleanup; [assumption|]
  | |- OV _ (release_of _ _) _ _ _ _ _ => eapply ov_release_of
  | |- OV _ (server_event _ _) _ _ _ _ _ => eapply ov_server_event
  | |- OV _ (goto _ _ _) _ _ _ _ _ => eapply ov_goto
  | |- OV _ (wake_next _ _) _ _ _ _ _ => eapply ov_wake_next
  | |- OV _ (set_sem _ _ _ _) _ _ _ _ _ => eapply ov_set_sem
  | |- OV _ (setc _ _ (with_io (with_state _ _ _) _ _)) _ _ _ _ _ => eapply ov_setc_io_state
  | |- OV _ (setc _ _ (with_io _ _ _)) _ _ _ _ _ => eapply ov_setc_io
  | |- OV _ (setc _ _ (with_err _)) _ _ _ _ _ => eapply ov_setc_err
  | |- OV _ (setc _ _ (with_state _ _ _)) _ _ _ _ _ => eapply ov_setc_state
  | |- OV _ (setc _ _ (with_wake _ _ _)) _ _ _ _ _ => eapply ov_setc_wake
  | |- OV _ (setc _ _ (with_pc _ _)) _ _ _ _ _ => eapply ov_setc_pc
  end.
Ltac gd := eapply good_ov; [ovr | try reflexivity | simpl; auto].

Lemma own_run_conn : forall s c, Nat.eqb c 0 = false -> c < length (conns s) -> cinv c s -> cinv c (run_conn s c).
Proof.
  intros s c C L I. apply good_cinv. pose proof (cinv_ov _ _ L I) as H. destruct I as [_ I2]. unfold wok in I2.
  unfold run_conn. rewrite C.
  destruct (c_pc (getc s c)) eqn:Epc; simpl in I2, H;
    repeat match type of I2 with _ /\ _ => let a := fresh "Q" in destruct I2 as [a I2] end;
    destruct (c_cf (getc s c)) eqn:Ecf.
  all: try solve [gd].
  - destruct (c_addr (getc s c)); gd.
  - match goal with |- context [if ?k then setc _ _ (with_err _) else _] => destruct k end;
    (match goal with |- context [c_err (getc ?S c)] => destruct (c_err (getc S c)) end; [gd|]);
    (match goal with |- context [c_addr (getc ?S c)] => destruct (c_addr (getc S c)) end; [|gd]);
    (match goal with |- context [sem_locked ?S ?a] => destruct (sem_locked S a) end); gd.
  - destruct (c_addr (getc s c)); [|gd]. destruct w; gd.
  - destruct (c_addr (getc s c)); [|gd]. destruct w; try solve [gd].
    match goal with |- context [Nat.ltb 0 ?v] => destruct (Nat.ltb 0 v) end; gd.
  - destruct (c_wk (getc s c)) as [[| | |[|]|]|]; gd.
  - rewrite Q, Q0, I2 in H. eapply good_hc_after_loop; auto. ovr.
  - rewrite Q, Q0, I2 in H. destruct (c_wk (getc s c)) as [[| |[| |]| |]|]; try solve [gd];
      try (eapply good_hc_after_loop; auto; ovr). eapply good_drain_start. ovr.
  - rewrite Q, Q0, I2 in H. destruct w; try solve [gd];
      (match goal with |- context [if dlocked ?S then _ else _] => destruct (dlocked S) end;
       eapply good_hc_after_loop; auto; ovr).
  - rewrite Q, Q0, I2 in H. destruct w; try solve [gd]. eapply good_drain_go. ovr.
  - rewrite Q, Q0, I2 in H. eapply good_hc_after_loop; auto. ovr.
  - rewrite Q, Q0, I2 in H. destruct (c_wk (getc s c)) as [[| | | |[|]]|]; try solve [gd]; (eapply good_drain_go; ovr).
Qed.

(* ---------------------------------------------------------------- the global pairing invariant *)
Definition Inv1 (s : st) : Prop :=
  (forall c, Nat.eqb c 0 = false -> cinv c s) /\ cproj (trace s) = mword (mainpc s).

Lemma cinv_other : forall s s' c,
  cinv c s -> length (conns s) <= length (conns s') ->
  (c < length (conns s) -> ksoft (getc s c) (getc s' c)) ->
  (length (conns s) <= c -> c < length (conns s') -> knew (getc s' c)) ->
  proj c (trace s') = proj c (trace s) -> cinv c s'.
Proof.
  intros s s' c [I1 I2] L Ho Hn Hp. unfold cinv, wok in *. rewrite Hp.
  destruct (Nat.lt_ge_cases c (length (conns s))) as [Lt | Ge].
  - destruct (Ho Lt) as (A & K & T & E & W). rewrite T, E, W. split.
    + rewrite I1, <- rword_kpc, <- K, rword_kpc. auto.
    + apply wokv_kpc. rewrite K. apply wokv_kpc. auto.
  - rewrite (getc_oob s c Ge) in *. simpl in I1. rewrite I1.
    destruct (Nat.lt_ge_cases c (length (conns s'))) as [Lt' | Ge'].
    + destruct (Hn Ge Lt') as (a & A & K & T & E & W). simpl in *. rewrite T, E, W. split.
      * rewrite <- rword_kpc, K. auto.
      * apply wokv_kpc. rewrite K. simpl. auto.
    + rewrite (getc_oob s' c Ge'). simpl. auto.
Qed.

Lemma inv1_run_conn : forall s c, conn_ready s c = true -> Inv1 s -> Inv1 (run_conn s c).
Proof.
  intros s c R [I1 I2]. destruct (oframe_run_conn s c) as [o_len o_old o_new o_main o_td o_trace]. destruct o_trace as (evs & T & N). split.
  - intros c' C'. destruct (Nat.eq_dec c' c).
    + subst. apply own_run_conn; auto. unfold conn_ready in R.
      repeat (apply andb_true_iff in R as [R ?]). apply Nat.ltb_lt in R. auto.
    + apply (cinv_other s _ c'); auto. rewrite T. eapply proj_okev; eauto.
  - rewrite o_main, T. erewrite cproj_okev; eauto.
Qed.

Lemma inv1_frame : forall s s', frame s s' -> Inv1 s -> Inv1 s'.
Proof.
  intros s s' F [I1 I2]. destruct (frame_oframe 0 _ _ F) as [o_len o_old o_new o_main o_td o_trace]. destruct F. destruct f_trace as (evs & T & N). split.
  - intros c C. pose proof C as C'. apply Nat.eqb_neq in C'. apply (cinv_other s _ c); auto. rewrite T. apply proj_nohook; auto.
  - rewrite f_main, T, cproj_nohook; auto.
Qed.

(* steps of handle_client and of hook tasks: connection 0 may change, no server hook is emitted *)
Definition okevm (e : ev) : bool := match e with EHook h _ => negb (srv_hook h) | _ => true end.
Record mframe (s s' : st) : Prop := mkM {
  m_len : length (conns s) <= length (conns s');
  m_old : forall c', c' <> 0 -> c' < length (conns s) -> ksoft (getc s c') (getc s' c');
  m_new : forall c', c' <> 0 -> length (conns s) <= c' -> c' < length (conns s') -> knew (getc s' c');
  m_trace : exists evs, trace s' = evs ++ trace s /\ forallb okevm evs = true }.

Lemma mframe_refl : forall s, mframe s s.
Proof. intros. constructor; auto using ksoft_refl; try lia. exists []; auto. Qed.
Lemma mframe_trans : forall s1 s2 s3, mframe s1 s2 -> mframe s2 s3 -> mframe s1 s3.
Proof.
  intros s1 s2 s3 [m_len0 m_old0 m_new0 m_trace0] [m_len1 m_old1 m_new1 m_trace1]. constructor; try lia.
  - intros. eapply ksoft_trans; [apply m_old0; auto|apply m_old1; auto; lia].
  - intros. destruct (Nat.lt_ge_cases c' (length (conns s2))).
    + destruct (m_new0 c') as [a Ha]; auto. exists a. eapply ksoft_trans; eauto.
    + apply m_new1; auto.
  - destruct m_trace0 as (e1 & T1 & N1), m_trace1 as (e2 & T2 & N2).
    exists (e2 ++ e1). rewrite T2, T1, app_assoc. split; auto. rewrite forallb_app, N1, N2. auto.
Qed.
Lemma frame_mframe : forall s s', frame s s' -> mframe s s'.
Proof.
  intros s s' F. destruct (frame_oframe 0 _ _ F) as [o_len o_old o_new o_main o_td o_trace]. destruct F. constructor; auto.
  destruct f_trace as (evs & T & N). exists evs. split; auto.
  clear - N. induction evs; simpl in *; auto. apply andb_true_iff in N as [N1 N2]. rewrite IHevs; auto.
  destruct a; simpl in *; auto; discriminate.
Qed.
Lemma mf_frame : forall s s1 s2, frame s1 s2 -> mframe s s1 -> mframe s s2.
Proof. intros. eapply mframe_trans; eauto using frame_mframe. Qed.
Lemma mf_setc0 : forall s s1 x, mframe s s1 -> mframe s (setc s1 0 x).
Proof.
  intros. eapply mframe_trans; eauto. constructor; simpl; auto.
  - rewrite upd_length; auto.
  - intros. rewrite getc_setc_other; auto using ksoft_refl.
  - intros. rewrite upd_length in *. lia.
  - exists []; auto.
Qed.
Lemma mf_emit : forall s s1 e, okevm e = true -> mframe s s1 -> mframe s (emit s1 e).
Proof.
  intros. eapply mframe_trans; eauto. constructor; simpl; auto using ksoft_refl; try lia.
  exists [e]. simpl. rewrite H. auto.
Qed.
Lemma mf_same_conns_trace : forall s s1 s2, conns s2 = conns s1 -> trace s2 = trace s1 -> mframe s s1 -> mframe s s2.
Proof.
  intros. eapply mframe_trans; eauto. constructor; unfold getc; rewrite ?H; auto using ksoft_refl; try lia.
  exists []; auto.
Qed.

Lemma proj_okevm : forall c evs t, forallb okevm evs = true -> proj c (evs ++ t) = proj c t.
Proof.
  induction evs; simpl; intros; auto. apply andb_true_iff in H as [H1 H2].
  destruct a; simpl in *; auto. apply negb_true_iff in H1. rewrite H1. simpl. auto.
Qed.

Lemma others_mframe : forall s s', mframe s s' -> (forall c, Nat.eqb c 0 = false -> cinv c s) ->
  forall c, Nat.eqb c 0 = false -> cinv c s'.
Proof.
  intros s s' [m_len m_old m_new m_trace] I c C. destruct m_trace as (evs & T & N). pose proof C as C'. apply Nat.eqb_neq in C'.
  apply (cinv_other s _ c); auto. rewrite T. apply proj_okevm; auto.
Qed.

Lemma mf_mk : forall s s1 a b c d e f g h i j, mframe s s1 -> mframe s (mkSt (conns s1) a b c d e f g (trace s1) h i j).
Proof. intros. eapply mf_same_conns_trace; [| |eassumption]; reflexivity. Qed.
Lemma mf_set_main : forall s s1 p w, mframe s s1 -> mframe s (set_main s1 p w).
Proof. intros. unfold set_main. apply mf_mk. auto. Qed.
Lemma mf_main_finish : forall s s1 k, mframe s s1 -> mframe s (main_finish s1 k).
Proof. intros. unfold main_finish. apply mf_emit; auto. apply mf_set_main. auto. Qed.
Lemma mf_main_disconnect : forall s s1, mframe s s1 -> mframe s (main_disconnect s1).
Proof. intros. unfold main_disconnect. apply mf_set_main. apply mf_emit; auto. Qed.

Lemma mframe_run_main : forall s, mframe s (run_main s).
Proof.
  intros. unfold run_main. destruct (mainpc s).
  - apply mf_set_main. apply mf_emit; auto. apply mframe_refl.
  - match goal with |- context [client_err ?S1] => set (s1 := S1) end.
    assert (M1 : mframe s s1) by (apply mf_mk, mframe_refl).
    destruct (client_err s1).
    + apply mf_main_disconnect. apply mf_emit; auto. apply mf_setc0. auto.
    + apply mf_set_main. apply mf_setc0. eapply mf_frame; [apply frame_server_event|]. auto.
  - apply mf_main_disconnect. apply mframe_refl.
  - match goal with |- context [existsb c_entry (conns ?S0)] => set (s0 := S0) end.
    assert (M0 : mframe s s0) by (apply mf_mk, mframe_refl).
    destruct (existsb c_entry (conns s0)).
    + assert (M1 : mframe s (cancel_all s0 (length (conns s)) 0)) by (eapply mf_frame; [apply frame_cancel_all|]; auto).
      destruct (waited (conns s0) 0).
      * apply mf_main_finish. auto.
      * apply mf_set_main. auto.
    + apply mf_main_finish. auto.
  - apply mf_main_finish. apply mframe_refl.
  - apply mframe_refl.
Qed.

Lemma cproj_server_event : forall s e, cproj (trace (server_event s e)) = cproj (trace s).
Proof. intros. destruct (frame_server_event s e). destruct f_trace as (evs & T & N). rewrite T. apply cproj_nohook; auto. Qed.
Lemma cproj_cancel_all : forall n s i, cproj (trace (cancel_all s n i)) = cproj (trace s).
Proof. intros. destruct (frame_cancel_all n s i). destruct f_trace as (evs & T & N). rewrite T. apply cproj_nohook; auto. Qed.

Lemma cproj_run_main : forall s, cproj (trace s) = mword (mainpc s) -> cproj (trace (run_main s)) = mword (mainpc (run_main s)).
Proof.
  intros s H. unfold run_main. destruct (mainpc s) eqn:E; simpl in H.
  - simpl. rewrite H. auto.
  - match goal with |- context [client_err ?S1] => destruct (client_err S1) end.
    + simpl. rewrite H. auto.
    + simpl. rewrite cproj_server_event. simpl. auto.
  - simpl. rewrite H. auto.
  - match goal with |- context [existsb c_entry ?L] => destruct (existsb c_entry L) end.
    + match goal with |- context [waited ?L 0] => destruct (waited L 0) end; simpl; rewrite cproj_cancel_all; simpl; auto.
    + simpl. auto.
  - simpl. auto.
  - rewrite E. simpl. auto.
Qed.

Lemma inv1_run_main : forall s, Inv1 s -> Inv1 (run_main s).
Proof. intros s [I1 I2]. split. eapply others_mframe; eauto using mframe_run_main. apply cproj_run_main; auto. Qed.

Lemma mf_seth : forall s s1 k p, mframe s s1 -> mframe s (seth s1 k p).
Proof. intros. unfold seth. apply mf_mk. auto. Qed.

Lemma inv1_run_hook : forall s k, Inv1 s -> Inv1 (run_hook s k).
Proof.
  intros s k [I1 I2]. unfold run_hook. destruct (geth s k).
  - split.
    + eapply others_mframe; eauto. apply mf_seth. apply mf_emit; auto. apply mframe_refl.
    + simpl. auto.
  - split.
    + eapply others_mframe; eauto. apply mf_emit; auto. apply mf_seth.
      eapply mf_frame; [apply frame_server_event|apply mframe_refl].
    + simpl. rewrite cproj_server_event. destruct (frame_server_event s (LHookDone k)). rewrite f_main. auto.
  - split; auto.
Qed.

Lemma psoft_any_flags : forall x k f b g, psoft x (mkConn (c_addr x) (c_pc x) k f (c_task x) (c_entry x) (c_writer x) b (c_rd x) (c_wr x) (c_err x) g).
Proof. intros. unfold psoft; simpl; intuition. Qed.

Lemma inv1_step : forall s i s', step s i = Some s' -> Inv1 s -> Inv1 s'.
Proof.
  intros s i s' H I. destruct i; simpl in H.
  - destruct t.
    + destruct (mainpc s) eqn:E; try discriminate; destruct (mwk s); try discriminate; inversion H; subst;
        (destruct I as [I1 I2]; split; [exact I1|simpl; rewrite E in *; auto]).
    + destruct (_ && _ && _); inversion H; subst. eapply inv1_frame; eauto. apply frame_setc. apply psoft_any_flags.
    + destruct (geth s k) as [|[|]|]; try discriminate. destruct (k <? length (hooks s)); inversion H; subst.
      destruct I as [I1 I2]; split; auto.
  - destruct (c_pc (getc s c)); try discriminate. destruct (_ && _); inversion H; subst.
    eapply inv1_frame; eauto. apply frame_setc. apply psoft_any_flags.
  - destruct (c_pc (getc s c)); try discriminate. destruct (_ && _); inversion H; subst.
    eapply inv1_frame; eauto. apply frame_setc. apply psoft_any_flags.
  - inversion H; subst. destruct (_ && _); auto. eapply inv1_frame; eauto using frame_cancel.
  - destruct (_ && _); inversion H; subst. eapply inv1_frame; eauto. apply frame_setc. apply psoft_any_flags.
  - destruct (_ && _); inversion H; subst. eapply inv1_frame; eauto. apply frame_setc. apply psoft_any_flags.
  - destruct (c_pc (getc s c)); try discriminate. destruct (_ && _); inversion H; subst.
    eapply inv1_frame; eauto. apply frame_setc. apply psoft_any_flags.
  - destruct t.
    + destruct (_ && _); inversion H; subst. apply inv1_run_main; auto.
    + destruct (conn_ready s c) eqn:R; simpl in H; [|discriminate].
      destruct (Bool.eqb _ _); inversion H; subst. apply inv1_run_conn; auto.
    + destruct (_ && _); inversion H; subst. apply inv1_run_hook; auto.
Qed.

Lemma inv1_init : forall sc, Inv1 (init sc).
Proof.
  intros. split; auto. intros c C. unfold cinv, wok, getc. simpl.
  destruct c; [discriminate|]. destruct c; simpl; auto.
Qed.

Lemma inv1_run : forall l s, Inv1 s -> Inv1 (run s l).
Proof.
  induction l; simpl; intros; auto. apply IHl. unfold step'. destruct (step s a) eqn:E; auto.
  eapply inv1_step; eauto.
Qed.

Theorem pairing_invariant : forall sc l, Inv1 (run (init sc) l).
Proof. intros. apply inv1_run, inv1_init. Qed.
