(* Proofs/Http1Validate.v -- the generated validate_headers (Gen/BodySize.v) characterised: its loop computes
   the Transfer-Encoding / Content-Length value lists and rejects bad names and values; what it accepts. *)
From Coq Require Import List Bool NArith ZArith Lia.
From MV Require Import Base.Bytes Model.Http1Msg Model.BodySizePrelude Gen.BodySize Model.Rfc9112 Proofs.Http1Regex.
Import ListNotations.

Definition bad_value (v : bytes) : bool := contains [x0d] v || contains [x0a] v || contains [x00] v.
Definition field_ok (f : header) : bool :=
  re_match_anchored _valid_header_name (fst f) && negb (bad_value (snd f)).

(* the decision validate_headers takes once the value lists are known *)
Definition vh_decide (m : message) (te cl : list bytes) : res unit :=
  if nonempty te && nonempty cl then ValueError
  else if nonempty te then
    if len_gt1 te then ValueError
    else if negb (is_http11 m) then ValueError
    else if is_response m && ((Z.leb 100 (status_code m) && Z.leb (status_code m) 199) || Z.eqb (status_code m) 204)
    then ValueError
    else bind (parse_transfer_encoding false (first_or_empty te))
           (fun t => if in_set t (firstn 4 _HTTP_1_1_TRANSFER_ENCODINGS) then Ok tt
                     else if in_set t (skipn 4 _HTTP_1_1_TRANSFER_ENCODINGS)
                          then (if is_request m then ValueError else Ok tt)
                          else OtherError)
  else if nonempty cl then
    if len_gt1 cl then ValueError else bind (parse_content_length false (first_or_empty cl)) (fun _ => Ok tt)
  else Ok tt.

Lemma get_all_cons key n v fs :
  get_all key ((n, v) :: fs) = if bytes_eqb (lower n) (lower key) then v :: get_all key fs else get_all key fs.
Proof. unfold get_all. simpl. destruct (bytes_eqb (lower n) (lower key)); reflexivity. Qed.

Lemma get_all_te_cons n v fs :
  get_all TRANSFER_ENCODING ((n, v) :: fs) =
  if bytes_eqb (lower n) TRANSFER_ENCODING then v :: get_all TRANSFER_ENCODING fs else get_all TRANSFER_ENCODING fs.
Proof. exact (get_all_cons TRANSFER_ENCODING n v fs). Qed.
Lemma get_all_cl_cons n v fs :
  get_all CONTENT_LENGTH ((n, v) :: fs) =
  if bytes_eqb (lower n) CONTENT_LENGTH then v :: get_all CONTENT_LENGTH fs else get_all CONTENT_LENGTH fs.
Proof. exact (get_all_cons CONTENT_LENGTH n v fs). Qed.

Lemma validate_headers_spec m :
  validate_headers m =
  if forallb field_ok (msg_headers m)
  then vh_decide m (get_all TRANSFER_ENCODING (msg_headers m)) (get_all CONTENT_LENGTH (msg_headers m))
  else ValueError.
Proof.
  unfold validate_headers.
  match goal with |- context [?f (msg_headers m) [] []] => set (loop := f) end.
  assert (Hnil : forall cl te, loop [] cl te = vh_decide m te cl) by (intros; reflexivity).
  assert (H : forall fields cl te,
             loop fields cl te =
             if forallb field_ok fields
             then vh_decide m (te ++ get_all TRANSFER_ENCODING fields) (cl ++ get_all CONTENT_LENGTH fields)
             else ValueError).
  { induction fields as [|[n v] fs IH]; intros cl te.
    - rewrite Hnil. simpl. rewrite !app_nil_r. reflexivity.
    - unfold loop at 1. cbv beta iota zeta. fold loop.
      rewrite get_all_te_cons, get_all_cl_cons. cbn [forallb]. unfold field_ok at 1. cbn [fst snd].
      destruct (re_match_anchored _valid_header_name n); cbn [negb andb]; [|reflexivity].
      fold (bad_value v). destruct (bad_value v); cbn [negb andb]; [reflexivity|].
      unfold in_set, existsb. rewrite !orb_false_r.
      change [x74;x72;x61;x6e;x73;x66;x65;x72;x2d;x65;x6e;x63;x6f;x64;x69;x6e;x67] with TRANSFER_ENCODING.
      change [x63;x6f;x6e;x74;x65;x6e;x74;x2d;x6c;x65;x6e;x67;x74;x68] with CONTENT_LENGTH.
      destruct (bytes_eqb (lower n) TRANSFER_ENCODING) eqn:Et.
      + assert (Ec : bytes_eqb (lower n) CONTENT_LENGTH = false).
        { apply bytes_eqb_eq in Et. rewrite Et. reflexivity. }
        rewrite Ec, IH, <- app_assoc. reflexivity.
      + destruct (bytes_eqb (lower n) CONTENT_LENGTH) eqn:Ec.
        * rewrite IH, <- app_assoc. reflexivity.
        * apply IH. }
  rewrite H. reflexivity.
Qed.
