(* Proofs/HttpBodyWire.v -- the bytes on the wire.
   (1) For a chunked message, the chunks mitmproxy writes for ANY list of data events (empty ones included), followed
       by the last-chunk, are read back by the RFC 9112 reference decoder (Model/Rfc9112.v) as exactly the
       concatenation of the data -- with the repaired send_data.  With the unrepaired encoding an empty data event
       ends the body early (witness).
   (2) The client is answered with an error page when a body is rejected -- unless an interim 100 Continue response
       is still recorded as the response of the HTTP/1 server connection (known finding; witness + guarded theorem). *)
From Coq Require Import List Bool NArith ZArith Lia.
From MV Require Import Base.Bytes Model.Http1Msg Model.Rfc9112 Proofs.Http1Chunks.
From MV Require Import Model.HttpBody Proofs.HttpBodyBase Proofs.HttpBodyLimit.
Import ListNotations.
Open Scope Z_scope.

(* ---------- (1) chunk framing *)
Definition wire_chunks (send : bool -> bytes -> list bytes) (pieces : list bytes) : bytes :=
  concat (concat (map (send true) pieces)) ++ LAST_CHUNK.

Lemma send_data_chunked p : send_data true p = if nonempty p then [emit_chunk p] else [].
Proof.
  unfold send_data. destruct p as [|b r]; cbn [nonempty andb]; [reflexivity|].
  assert (N : nonempty (emit_chunk (b :: r)) = true).
  { unfold emit_chunk. destruct (hex_of_N (N.of_nat (length (b :: r)))) eqn:E; reflexivity. }
  rewrite N. reflexivity.
Qed.

Lemma wire_pieces_filter pieces :
  concat (concat (map (send_data true) pieces)) = concat (map emit_chunk (filter nonempty pieces)).
Proof.
  induction pieces as [|p r IH]; [reflexivity|].
  cbn [map concat filter]. rewrite concat_app, IH, send_data_chunked.
  destruct (nonempty p); cbn; rewrite ?app_nil_r; reflexivity.
Qed.
Lemma concat_filter_nonempty pieces : concat (filter nonempty pieces) = concat pieces.
Proof. induction pieces as [|p r IH]; [reflexivity|]. destruct p; cbn; rewrite IH; reflexivity. Qed.
Lemma filter_nonempty_all pieces : Forall (fun c : bytes => c <> []) (filter nonempty pieces).
Proof.
  induction pieces as [|p r IH]; cbn; [constructor|]. destruct p; cbn; auto. constructor; auto. discriminate.
Qed.

Theorem wire_chunked_decodes (o : ref_opts) (pieces : list bytes) (rest : bytes) :
  read_body o BLChunked (wire_chunks send_data pieces ++ rest) = POk (concat pieces, [], rest).
Proof.
  unfold wire_chunks. rewrite wire_pieces_filter, <- app_assoc.
  rewrite body_reframe_read_body by apply filter_nonempty_all.
  rewrite concat_filter_nonempty. reflexivity.
Qed.

(* the encoding before fixes/C07-empty-chunk.diff: [b""; b"defg"] is read back as an empty body, and the bytes of
   the second chunk are left on the connection, to be parsed as the next message *)
Theorem wire_unrepaired_empty_chunk :
  exists pieces body rest,
    read_body (mkOpts false false false) BLChunked (wire_chunks send_data_unrepaired pieces) = POk (body, [], rest)
    /\ body <> concat pieces /\ rest <> [].
Proof.
  exists [[]; [x64; x65; x66; x67]]. eexists. eexists. split; [vm_compute; reflexivity|].
  split; discriminate.
Qed.

(* ---------- bytes sent on a connection *)
Fixpoint sent_to (p : peer) (t : list titem) : bytes :=
  match t with
  | [] => []
  | TSend q raw :: r =>
      match p, q with
      | Client, Client | Server, Server => raw ++ sent_to p r
      | _, _ => sent_to p r
      end
  | _ :: r => sent_to p r
  end.
Lemma sent_to_app p a b : sent_to p (a ++ b) = sent_to p a ++ sent_to p b.
Proof.
  induction a as [|x a IH]; [reflexivity|]. destruct x; cbn; auto.
  destruct p, p0; cbn; rewrite IH, ?app_assoc; reflexivity.
Qed.
Lemma sent_to_map_same p l : sent_to p (map (TSend p) l) = concat l.
Proof. induction l; cbn; auto. destruct p; rewrite IHl; reflexivity. Qed.

Section Wire.
Variable S : Type.
Variable fq fs : S -> bytes -> S * sres.
Variable cfg : config.

Notation wst := (wst S).
Notation exec_cmd := (exec_cmd S cfg).
Notation exec_cmds := (exec_cmds S cfg).

Lemma exec_data_server (w : wst) ps :
  exec_cmds w (map (fun c => CSend Server (MData c)) ps)
  = (w, map (TSend Server) (concat (map (send_data (is_chunked (req_framing (hs S w)))) ps))).
Proof.
  induction ps as [|p r IH]; [reflexivity|].
  cbn [map HttpBody.exec_cmds]. cbn [HttpBody.exec_cmd]. rewrite IH. cbn [concat]. rewrite map_app. reflexivity.
Qed.
Lemma exec_data_client (w : wst) ps :
  exec_cmds w (map (fun c => CSend Client (MData c)) ps)
  = (w, map (TSend Client) (concat (map (send_data (is_chunked (resp_fr S w))) ps))).
Proof.
  induction ps as [|p r IH]; [reflexivity|].
  cbn [map HttpBody.exec_cmds]. cbn [HttpBody.exec_cmd]. rewrite IH. cbn [concat]. rewrite map_app. reflexivity.
Qed.

(* a streamed chunked request on the wire: the data events followed by the end of message *)
Theorem wire_request_stream_decodes (w : wst) (pieces : list bytes) o rest :
  req_framing (hs S w) = FChunked ->
  let '(w1, t1) := exec_cmds w (map (fun c => CSend Server (MData c)) pieces) in
  let '(w2, t2) := exec_cmd w1 (CSend Server MEom) in
  read_body o BLChunked (sent_to Server (t1 ++ t2) ++ rest) = POk (concat pieces, [], rest).
Proof.
  intros F. rewrite exec_data_server. rewrite F. cbn [is_chunked].
  cbn [HttpBody.exec_cmd]. rewrite F. cbn [is_chunked send_eom map app].
  destruct (cli_mark_done S w true false) as [w2 t] eqn:E.
  assert (T : sent_to Server t = []).
  { unfold cli_mark_done in E.
    destruct (cli_req_done S w || true); destruct (cli_resp_done S w || false); cbn in E;
      try destruct (is_until_close (resp_fr S w)); inversion E; reflexivity. }
  rewrite sent_to_app, sent_to_map_same. cbn [sent_to]. rewrite T, app_nil_r.
  apply (wire_chunked_decodes o pieces rest).
Qed.

(* ... and a streamed chunked response *)
Theorem wire_response_stream_decodes (w : wst) (pieces : list bytes) o rest :
  resp_fr S w = FChunked ->
  let '(w1, t1) := exec_cmds w (map (fun c => CSend Client (MData c)) pieces) in
  let '(w2, t2) := exec_cmd w1 (CSend Client MEom) in
  read_body o BLChunked (sent_to Client (t1 ++ t2) ++ rest) = POk (concat pieces, [], rest).
Proof.
  intros F. rewrite exec_data_client. rewrite F. cbn [is_chunked].
  cbn [HttpBody.exec_cmd]. rewrite F. cbn [is_chunked send_eom map app].
  destruct (srv_mark_done S w false true) as [w2 t] eqn:E.
  assert (T : sent_to Client t = []).
  { unfold srv_mark_done in E. rewrite F in E.
    destruct (srv_req_done S w || false); destruct (srv_resp_done S w || true); cbn in E;
      inversion E; reflexivity. }
  rewrite sent_to_app, sent_to_map_same. cbn [sent_to]. rewrite T, app_nil_r.
  apply (wire_chunked_decodes o pieces rest).
Qed.

(* ---------- (2) the error response *)
Theorem client_error_response (w : wst) code :
  client_open S w = true -> srv_response S w = SrNone ->
  exists w', exec_cmd w (CSend Client (MErr code)) = (w', [TErrPage (status_of code); TClose Client])
             /\ client_open S w' = false.
Proof.
  intros O R. cbn [HttpBody.exec_cmd]. rewrite O, R. cbn. eexists; split; reflexivity.
Qed.

(* end to end, early case: a request head announcing more than the limit is answered 413 and the connection closed,
   whatever the options, callables and the Expect header *)
Theorem wire_early_reject (q0 s0 : S) L n e100 :
  parse_size (o_limit cfg) = PVal L -> 0 < n -> L < n ->
  exists w', wstep S fq fs cfg (winit S q0 s0) (WReqHead (FLen n) e100)
             = Some (w', [THook HRequestHeaders; THook HError; TErrPage 413; TClose Client])
    /\ client_open S w' = false /\ server_conn S w' = None
    /\ flow_error (hs S w') = true /\ flow_live (hs S w') = false.
Proof.
  intros HL Hn Hlt.
  destruct (early_reject_request S fq fs cfg L HL (init S q0 s0) n e100 eq_refl eq_refl Hn Hlt)
    as (s' & HE & C & E & LV & B).
  unfold wstep, winit. cbn [client_open rd_req negb].
  unfold make_body_reader, read_data. cbn [expected_size].
  replace (n =? -1) with false by (symmetry; apply Z.eqb_neq; lia).
  rewrite firstn_nil. change (blen []) with 0. cbn [nonempty].
  replace (n - 0 =? 0) with false by (symmetry; apply Z.eqb_neq; lia).
  cbn [app]. unfold set_rd_req. cbn [hs dropped rd_resp srv_response srv_req_done srv_resp_done cli_req_done
    cli_resp_done client_open server_conn cli_response].
  cbn [run_actions dropped hs]. rewrite HE. cbn [split_blocking is_blocking].
  cbn. eexists. split; [reflexivity|]. cbn. auto.
Qed.

End Wire.

(* the known finding: after 100 Continue the rejected request gets no error response *)
Theorem client_error_after_continue_refuted :
  exists cfg steps trace bufs w,
    wrun unit (fun q _ => (q, RB [])) (fun q _ => (q, RB [])) cfg (winit unit tt tt) steps = (trace, bufs, w, false)
    /\ In (THook HError) trace /\ flow_error (hs unit w) = true
    /\ In (TClose Client) trace
    /\ (forall z, ~ In (TErrPage z) trace).
Proof.
  exists (mkConfig (Some [x33]) None false None None true).
  exists [WReqHead FChunked true; WReqChunk [x61; x62]; WReqChunk [x63; x64]].
  eexists. eexists. eexists. split; [vm_compute; reflexivity|].
  cbn. repeat split; auto 10. intros z H. repeat (destruct H as [H|H]; [discriminate|]). exact H.
Qed.

(* concrete instances: parse_size values; a late rejection (limit 3, chunks ab|cd: 4 bytes held, third chunk
   swallowed); a late switch to streaming (threshold 2, chunks ab|c|d, store_streamed_bodies) *)
Lemma nonvacuous_examples :
  parse_size (Some [x31; x6b]) = PVal 1024
  /\ parse_size (Some [x20; x2d; x33; x6d]) = PVal (-3145728)
  /\ parse_size (Some [x31; x4b]) = PErr
  /\ (let cfg := mkConfig (Some [x33]) None false None None true in
      exists s out,
        run unit (fun q d => (q, RB d)) (fun q d => (q, RB d)) cfg (init unit tt tt)
            [ReqHeaders FChunked false; ReqData [x61; x62]; ReqData [x63; x64]; ReqData [x65]] = (s, out, false)
        /\ In (CSend Client (MErr ReqTooLarge)) out /\ blen (request_body_buf s) = 4)
  /\ (let cfg := mkConfig None (Some [x32]) true None None true in
      exists s out,
        run unit (fun q d => (q, RB d)) (fun q d => (q, RB d)) cfg (init unit tt tt)
            [ReqHeaders FChunked false; ReqData [x61; x62]; ReqData [x63]; ReqData [x64]; ReqEom] = (s, out, false)
        /\ data_to Server out = [[x61; x62; x63]; [x64]] /\ req_content s = Some [x61; x62; x63; x64]).
Proof.
  split; [vm_compute; reflexivity|]. split; [vm_compute; reflexivity|]. split; [vm_compute; reflexivity|].
  split.
  - eexists; eexists. split; [vm_compute; reflexivity|]. split; [cbn; auto 10|reflexivity].
  - eexists; eexists. split; [vm_compute; reflexivity|]. split; reflexivity.
Qed.
