(* Proofs/Http1Lower.v -- ASCII lower-casing commutes with the list reading of the reference parser. *)
From Coq Require Import List Bool NArith ZArith Lia.
From MV Require Import Base.Bytes Model.Rfc9112.
Import ListNotations.

Ltac sweep P := let b := fresh "b" in intros b; apply eqb_prop; revert b; apply (forall_bytes P); vm_compute; reflexivity.

Lemma low_ows : forall b, is_ows (to_lower b) = is_ows b.
Proof. sweep (fun b => Bool.eqb (is_ows (to_lower b)) (is_ows b)). Qed.
Lemma low_comma : forall b, byte_eqb (to_lower b) x2c = byte_eqb b x2c.
Proof. sweep (fun b => Bool.eqb (byte_eqb (to_lower b) x2c) (byte_eqb b x2c)). Qed.
Lemma low_semi : forall b, byte_eqb (to_lower b) x3b = byte_eqb b x3b.
Proof. sweep (fun b => Bool.eqb (byte_eqb (to_lower b) x3b) (byte_eqb b x3b)). Qed.
Lemma low_tchar : forall b, is_tchar (to_lower b) = is_tchar b.
Proof. sweep (fun b => Bool.eqb (is_tchar (to_lower b)) (is_tchar b)). Qed.
Lemma low_idem_b : forall b, to_lower (to_lower b) = to_lower b.
Proof. intros b. apply byte_eqb_eq. revert b. apply (forall_bytes (fun b => byte_eqb (to_lower (to_lower b)) (to_lower b))). vm_compute. reflexivity. Qed.

Lemma lower_idem s : lower (lower s) = lower s.
Proof. unfold lower. rewrite map_map. apply map_ext, low_idem_b. Qed.
Lemma lower_app a b : lower (a ++ b) = lower a ++ lower b.
Proof. apply map_app. Qed.
Lemma lower_rev a : lower (rev a) = rev (lower a).
Proof. apply map_rev. Qed.

Lemma split_comma_lower s : forall cur, split_comma (lower s) (lower cur) = map lower (split_comma s cur).
Proof.
  induction s as [|x s IH]; intros cur; simpl.
  - rewrite lower_rev. reflexivity.
  - rewrite low_comma. destruct (byte_eqb x x2c).
    + simpl. rewrite lower_rev. f_equal. apply (IH []).
    + apply (IH (x :: cur)).
Qed.

Lemma ltrim_lower s : ltrim_ows (lower s) = lower (ltrim_ows s).
Proof. induction s as [|x s IH]; simpl; auto. rewrite low_ows. destruct (is_ows x); auto. Qed.
Lemma rtrim_lower s : rtrim_ows (lower s) = lower (rtrim_ows s).
Proof.
  induction s as [|x s IH]; simpl; auto. rewrite IH, low_ows.
  destruct (rtrim_ows s); simpl; auto. destruct (is_ows x); auto.
Qed.
Lemma trim_lower s : trim_ows (lower s) = lower (trim_ows s).
Proof. unfold trim_ows. rewrite ltrim_lower, rtrim_lower. reflexivity. Qed.

Lemma span_tchar_lower s : span is_tchar (lower s) = (lower (fst (span is_tchar s)), lower (snd (span is_tchar s))).
Proof.
  induction s as [|x s IH]; simpl; auto. rewrite low_tchar. destruct (is_tchar x); simpl; auto.
  change (map to_lower s) with (lower s). rewrite IH. destruct (span is_tchar s); reflexivity.
Qed.

Lemma coding_name_lower e : coding_name (lower e) = coding_name e.
Proof.
  unfold coding_name. rewrite span_tchar_lower. destruct (span is_tchar e) as [n r]. cbn [fst snd].
  rewrite lower_idem, ltrim_lower.
  destruct n as [|c n]; [reflexivity|].
  destruct (ltrim_ows r) as [|d r']; simpl; auto.
  rewrite low_semi. reflexivity.
Qed.

Lemma coding_names_lower es : coding_names (map lower es) = coding_names es.
Proof. induction es as [|e es IH]; simpl; auto. rewrite coding_name_lower, IH. reflexivity. Qed.

Definition nonempty_b (e : bytes) : bool := match e with [] => false | _ => true end.
Lemma filter_ne_lower es : filter nonempty_b (map lower es) = map lower (filter nonempty_b es).
Proof. induction es as [|e es IH]; simpl; auto. destruct e; simpl; rewrite IH; reflexivity. Qed.

Lemma list_elements_single v : list_elements [v] = filter nonempty_b (map trim_ows (split_comma v [])).
Proof. unfold list_elements. simpl. rewrite app_nil_r. reflexivity. Qed.

Lemma coding_names_elements_lower v :
  coding_names (list_elements [lower v]) = coding_names (list_elements [v]).
Proof.
  rewrite !list_elements_single.
  change (split_comma (lower v) []) with (split_comma (lower v) (lower [])).
  rewrite split_comma_lower, map_map.
  rewrite (map_ext (fun x => trim_ows (lower x)) (fun x => lower (trim_ows x))) by (intros; apply trim_lower).
  rewrite <- map_map, filter_ne_lower. apply coding_names_lower.
Qed.
