(* Proofs/TlsTunnelBase.v -- a small relational program logic for the monad of
   Model/TlsTunnel.v, and the invariants that need no assumption on the record layer:
   ConnectionClosed(conn) reaches the child at most once, and the tunnel queue is replayed
   in order, each event once.  Everything holds for every record layer, every child layer,
   every configuration and every fuel. *)
From Coq Require Import List Bool Arith NArith Lia.
From MV Require Import Base.Bytes Model.TlsTunnel.
Import ListNotations.

Lemma child_closes_app c a b : child_closes c (a ++ b) = child_closes c a + child_closes c b.
Proof. unfold child_closes. rewrite filter_app, app_length. reflexivity. Qed.
Lemma drops_app a b : drops (a ++ b) = drops a + drops b.
Proof. unfold drops. rewrite filter_app, app_length. reflexivity. Qed.
Lemma replayed_app a b : replayed (a ++ b) = replayed a ++ replayed b.
Proof. apply flat_map_app. Qed.
Lemma child_data_app c a b : child_data c (a ++ b) = child_data c a ++ child_data c b.
Proof. apply flat_map_app. Qed.
Lemma child_sends_app c a b : child_sends c (a ++ b) = child_sends c a ++ child_sends c b.
Proof. apply flat_map_app. Qed.
Lemma sent_wire_app c a b : sent_wire c (a ++ b) = sent_wire c a ++ sent_wire c b.
Proof. apply flat_map_app. Qed.
Lemma tunnel_data_app c a b : tunnel_data c (a ++ b) = tunnel_data c a ++ tunnel_data c b.
Proof. apply flat_map_app. Qed.
Lemma conn_eqb_refl c : conn_eqb c c = true.
Proof. destruct c; reflexivity. Qed.
Lemma conn_eqb_eq a b : conn_eqb a b = true <-> a = b.
Proof. destruct a, b; simpl; split; congruence. Qed.
Lemma tstate_eqb_eq a b : tstate_eqb a b = true <-> a = b.
Proof. destruct a, b; simpl; split; congruence. Qed.

Section Base.
  Variable R : Type.
  Variable bio_write : R -> bytes -> R.
  Variable recv : R -> R * recv_res.
  Variable bio_read : R -> R * option bytes.
  Variable sendall : R -> bytes -> R * send_res.
  Variable do_handshake : R -> R * hs_res.
  Variable parse_hello : bytes -> hello_res.
  Variable CS : Type.
  Variable child : CS -> event -> CS * list cmd * bool.
  Variable cf : cfg.

  Notation ST := (st R CS).
  Notation MM := (M R CS).
  Notation Bind := (bind R CS).
  Notation Ret := (ret R CS).

  Definition stt {A} (x : option A * ST * list titem) : ST := snd (fst x).
  Definition trc {A} (x : option A * ST * list titem) : list titem := snd x.
  Definition val {A} (x : option A * ST * list titem) : option A := fst (fst x).

  Definition okv {A} (x : option A * ST * list titem) : bool :=
    match val x with Some _ => true | None => false end.

  (* start state, whether the handler returned normally, final state, trace *)
  Definition Rel := ST -> bool -> ST -> list titem -> Prop.
  Definition sat {A} (F : Rel) (m : MM A) : Prop := forall s, F s (okv (m s)) (stt (m s)) (trc (m s)).

  Lemma sat_bind {A B} (F1 F2 F3 : Rel) (m : MM A) (f : A -> MM B) :
    sat F1 m -> (forall a, sat F2 (f a)) ->
    (forall s s1 t1, F1 s false s1 t1 -> F3 s false s1 t1) ->
    (forall s s1 b s2 t1 t2, F1 s true s1 t1 -> F2 s1 b s2 t2 -> F3 s b s2 (t1 ++ t2)) ->
    sat F3 (Bind m f).
  Proof.
    intros H1 H2 Hc Ht s. unfold bind. specialize (H1 s).
    destruct (m s) as [[[a|] s1] t1]; cbn [okv val stt trc fst snd] in *.
    - specialize (H2 a s1). destruct (f a s1) as [[b s2] t2]; cbn [okv val stt trc fst snd] in *. eauto.
    - eauto.
  Qed.

  Definition good (F : Rel) : Prop :=
    (forall s, F s true s []) /\
    (forall s s1 b s2 t1 t2, F s true s1 t1 -> F s1 b s2 t2 -> F s b s2 (t1 ++ t2)).

  Lemma sat_seq {A B} (F : Rel) (m : MM A) (f : A -> MM B) :
    good F -> sat F m -> (forall a, sat F (f a)) -> sat F (Bind m f).
  Proof. intros [_ Ht] H1 H2. eapply sat_bind; eauto. Qed.
  Lemma sat_ret {A} (F : Rel) (a : A) : good F -> sat F (Ret a).
  Proof. intros [Hr _] s. apply Hr. Qed.
  Lemma sat_get_any {B} (F : Rel) (f : ST -> MM B) :
    (forall s0, sat F (f s0)) -> sat F (Bind (get R CS) f).
  Proof.
    intros H s. unfold bind, get. specialize (H s s).
    destruct (f s s) as [[b s2] t2]; cbn [okv val stt trc fst snd app] in *. exact H.
  Qed.
  Lemma bind_get_eq {B} (f : ST -> MM B) s : Bind (get R CS) f s = f s s.
  Proof. unfold bind, get. destruct (f s s) as [[b s2] t2]. reflexivity. Qed.
  Lemma bind_modify_eq {B} (g : ST -> ST) (f : unit -> MM B) s : Bind (modify R CS g) f s = f tt (g s).
  Proof. unfold bind, modify. destruct (f tt (g s)) as [[b s2] t2]. reflexivity. Qed.
  Lemma sat_when (F : Rel) b m : good F -> sat F m -> sat F (when R CS b m).
  Proof. intros G H. destruct b; simpl; [exact H | apply sat_ret; exact G]. Qed.
  Lemma sat_iter {A} (F : Rel) (f : A -> MM unit) l :
    good F -> (forall x, sat F (f x)) -> sat F (iter R CS f l).
  Proof.
    intros G H. induction l as [|x l IH]; simpl.
    - apply sat_ret; exact G.
    - apply sat_seq; auto.
  Qed.
  Lemma sat_weaken {A} (F G : Rel) (m : MM A) :
    (forall s b s' t, F s b s' t -> G s b s' t) -> sat F m -> sat G m.
  Proof. intros H Hm s. apply H, Hm. Qed.

  (* ------------------------------------------------------------------ *)
  (* ConnectionClosed(conn) at most once; replay of the tunnel queue     *)
  (* ------------------------------------------------------------------ *)
  Definition is_close (e : event) : bool :=
    match e with EClose c => conn_eqb c (me cf) | _ => false end.
  Definition qclose (q : list event) : nat := length (filter is_close q).
  Definition credit (s : ST) : nat := if close_sent s then 0 else 1.
  Definition closes (tr : list titem) : nat := child_closes (me cf) tr.
  Definition b2n (b : bool) : nat := if b then 1 else 0.
  (* the tunnel never queues while a reply is owed *)
  Definition K (s : ST) : Prop := tunnel_state s = ESTABLISHING -> reply_to s = true.

  Lemma qclose_app a b : qclose (a ++ b) = qclose a + qclose b.
  Proof. unfold qclose. rewrite filter_app, app_length. reflexivity. Qed.
  Lemma closes_app a b : closes (a ++ b) = closes a + closes b.
  Proof. apply child_closes_app. Qed.

  (* what code below _handle_event (event_to_child, _handle_command, ...) may do *)
  Definition N (k : nat) : Rel := fun s ok s' tr =>
    closes tr + qclose (queue s') + credit s' <= qclose (queue s) + credit s + k
    /\ (exists x, queue s' = queue s ++ x)
    /\ replayed tr = []
    /\ errored s' = errored s
    /\ (K s -> K s')
    /\ (ok = false -> crashed s' <> None).

  Lemma N_comp a b s s1 ok s2 t1 t2 : N a s true s1 t1 -> N b s1 ok s2 t2 -> N (a + b) s ok s2 (t1 ++ t2).
  Proof.
    intros (H1 & [x1 Q1] & R1 & E1 & K1 & _) (H2 & [x2 Q2] & R2 & E2 & K2 & C2).
    repeat split; auto.
    - rewrite closes_app. lia.
    - exists (x1 ++ x2). rewrite Q2, Q1, app_assoc. reflexivity.
    - rewrite replayed_app, R1, R2. reflexivity.
    - congruence.
  Qed.
  Lemma N_weaken a b s ok s' t : a <= b -> N a s ok s' t -> N b s ok s' t.
  Proof. intros L (H & Q & Rp & E & Kp & C). repeat split; auto. lia. Qed.
  Lemma N_refl s : N 0 s true s [].
  Proof. repeat split; auto. - simpl. lia. - exists []. rewrite app_nil_r. reflexivity. - discriminate. Qed.
  Lemma N_good : good (N 0).
  Proof. split; [apply N_refl | intros; change 0 with (0 + 0); eapply N_comp; eauto]. Qed.

  Lemma N_frame s ok s' tr :
    queue s' = queue s -> close_sent s' = close_sent s -> errored s' = errored s ->
    (K s -> K s') -> closes tr = 0 -> replayed tr = [] -> (ok = false -> crashed s' <> None) -> N 0 s ok s' tr.
  Proof.
    intros Q C E Kp Cl Rp Cr. unfold N, credit. rewrite Q, C, Cl. repeat split; auto.
    - lia.
    - exists []. rewrite app_nil_r. reflexivity.
  Qed.

  Ltac frame := apply N_frame; try reflexivity; try (unfold K; simpl; tauto); try discriminate.

  Lemma emit_N t :
    (match t with TChild _ | TReplay _ => false | _ => true end) = true -> sat (N 0) (emit R CS t).
  Proof. intros H s. unfold emit; cbn [okv val stt trc fst snd]. frame; destruct t; try discriminate; reflexivity. Qed.
  Lemma raise_N {A} k : sat (N 0) (@raise R CS A k).
  Proof. intros s. unfold raise; cbn [okv val stt trc fst snd]. frame. Qed.
  Lemma tls_op_N {A} (op : R -> R * A) : sat (N 0) (tls_op R CS op).
  Proof.
    intros s. unfold tls_op. destruct (has_tls s).
    - destruct (op (tls s)) as [r a]; cbn [okv val stt trc fst snd]. frame.
    - apply raise_N.
  Qed.
  Lemma pop_open_reply_N : sat (N 0) (pop_open_reply R CS).
  Proof. intros s. unfold pop_open_reply. destruct (open_replies s); cbn [okv val stt trc fst snd]; frame. Qed.

  Ltac step :=
    match goal with
    | |- sat (N 0) (bind _ _ (get _ _) _) => apply sat_get_any; intro
    | |- sat (N 0) (bind _ _ _ _) => apply sat_seq; [exact N_good| |intro]
    | |- sat (N 0) (ret _ _ _) => apply sat_ret; exact N_good
    | |- sat (N 0) (when _ _ _ _) => apply sat_when; [exact N_good|]
    | |- sat (N 0) (emit _ _ _) => apply emit_N; reflexivity
    | |- sat (N 0) (raise _ _ _) => apply raise_N
    | |- sat (N 0) (tls_op _ _ _) => apply tls_op_N
    | |- sat (N 0) (tls_bio_write _ _ _ _) => apply tls_op_N
    | |- sat (N 0) (pop_open_reply _ _) => apply pop_open_reply_N
    | |- sat (N 0) (if ?b then _ else _) => destruct b
    | |- sat (N 0) (match ?x with _ => _ end) => destruct x
    end.

  Lemma tls_interact_N n : sat (N 0) (tls_interact R bio_read CS cf n).
  Proof. induction n as [|n IH]; cbn [tls_interact]; repeat step. exact IH. Qed.
  Lemma recv_loop_N n acc : sat (N 0) (recv_loop R recv CS n acc).
  Proof. revert acc; induction n as [|n IH]; intro acc; cbn [recv_loop]; repeat step. apply IH. Qed.

  Lemma modify_frame_N (f : ST -> ST) :
    (forall s, queue (f s) = queue s /\ close_sent (f s) = close_sent s /\ errored (f s) = errored s
               /\ (K s -> K (f s))) ->
    sat (N 0) (modify R CS f).
  Proof.
    intros H s. unfold modify; cbn [okv val stt trc fst snd]. destruct (H s) as (? & ? & ? & ?).
    apply N_frame; auto. discriminate.
  Qed.

  Ltac mframe := apply modify_frame_N; intro; repeat split; try reflexivity; unfold K; simpl; try tauto; try congruence.

  Section Nested.
    Variable etc : event -> MM unit.
    Hypothesis etc_N : forall e, sat (N (b2n (is_close e))) (etc e).

    Lemma etc_N0 e : is_close e = false -> sat (N 0) (etc e).
    Proof. intros H. generalize (etc_N e). rewrite H. auto. Qed.

    (* the close_sent guard *)
    Lemma guarded_close_N :
      sat (N 0) (Bind (get R CS) (fun s => if close_sent s then Ret tt
                   else Bind (modify R CS (set_close_sent R CS true)) (fun _ => etc (EClose (me cf))))).
    Proof.
      intros s. unfold bind, get, modify. cbn [okv val stt trc fst snd].
      destruct (close_sent s) eqn:Hc; cbn [okv val stt trc fst snd ret app].
      - apply N_refl.
      - generalize (etc_N (EClose (me cf)) (set_close_sent R CS true s)).
        destruct (etc (EClose (me cf)) (set_close_sent R CS true s)) as [[v s'] t]; cbn [okv val stt trc fst snd app].
        unfold is_close; rewrite conn_eqb_refl. unfold N, credit at 2 4, b2n, K. simpl.
        rewrite Hc. intros (H & Q & Rp & E & Kp & C). repeat split; auto. lia.
    Qed.

    Ltac nstep := first [ apply guarded_close_N | step ].

    Lemma receive_data_N d : sat (N 0) (receive_data R bio_write recv bio_read CS cf etc d).
    Proof.
      unfold receive_data. repeat nstep.
      - apply recv_loop_N.
      - apply tls_interact_N.
      - apply etc_N0. reflexivity.
    Qed.

    Lemma receive_close_N : sat (N 0) (receive_close R CS cf etc).
    Proof. apply guarded_close_N. Qed.

    Lemma send_data_N d : sat (N 0) (send_data R bio_read sendall CS cf d).
    Proof. unfold send_data. repeat step. all: apply tls_interact_N. Qed.

    Lemma start_tls_N : sat (N 0) (start_tls R CS cf).
    Proof. unfold start_tls. repeat step. mframe. Qed.

    Lemma tls_rhd_N d : sat (N 0) (tls_receive_handshake_data R bio_write recv bio_read do_handshake CS cf etc d).
    Proof.
      unfold tls_receive_handshake_data. repeat step.
      - apply receive_data_N.
      - apply tls_interact_N.
    Qed.

    Lemma start_handshake_N : sat (N 0) (start_handshake R bio_write recv bio_read do_handshake CS cf etc).
    Proof.
      unfold start_handshake. repeat step.
      - mframe.
      - mframe.
      - apply start_tls_N.
      - apply tls_rhd_N.
    Qed.

    Lemma handle_command_N c :
      sat (N 0) (handle_command R bio_write recv bio_read sendall do_handshake CS cf etc c).
    Proof.
      unfold handle_command. destruct c; repeat step.
      all: try (apply send_data_N). all: try (apply start_handshake_N).
      all: try (apply etc_N0; reflexivity). all: mframe.
    Qed.
  End Nested.

  Notation ETC := (event_to_child R bio_write recv bio_read sendall do_handshake CS child cf).

  Lemma call_child_N e : sat (N (b2n (is_close e))) (call_child R CS child e).
  Proof.
    intros s. unfold call_child. destruct (child (cstate s) e) as [[cs cmds] r]; cbn [okv val stt trc fst snd].
    unfold N, closes, child_closes, K. cbn [filter]. simpl.
    assert (Hc : (match e with EClose c' => conn_eqb c' (me cf) | _ => false end) = is_close e) by reflexivity.
    repeat split; auto; try discriminate.
    - rewrite Hc. unfold credit. simpl. destruct (is_close e); simpl; lia.
    - exists []. rewrite app_nil_r. reflexivity.
  Qed.

  Lemma N0_k k {A} (m : MM A) : sat (N 0) m -> sat (N k) m.
  Proof. apply sat_weaken. intros; eapply N_weaken; [|eassumption]. lia. Qed.

  Lemma enqueue_N e : sat (N (b2n (is_close e))) (modify R CS (fun s => set_queue R CS (queue s ++ [e]) s)).
  Proof.
    intros s. unfold modify; cbn [okv val stt trc fst snd]. unfold N, K; simpl. repeat split; auto; try discriminate.
    - rewrite qclose_app. unfold qclose at 2, credit. simpl. destruct (is_close e); simpl; lia.
    - eexists; reflexivity.
  Qed.

  Lemma etc_N_all n e : sat (N (b2n (is_close e))) (ETC n e).
  Proof.
    revert e; induction n as [|n IH]; intro e; cbn [event_to_child]; apply sat_get_any; intro s0.
    - destruct (errored s0); [apply N0_k, sat_ret, N_good|].
      destruct (tstate_eqb (tunnel_state s0) ESTABLISHING && negb (reply_to s0)).
      + apply enqueue_N.
      + apply N0_k, raise_N.
    - destruct (errored s0); [apply N0_k, sat_ret, N_good|].
      destruct (tstate_eqb (tunnel_state s0) ESTABLISHING && negb (reply_to s0)).
      + apply enqueue_N.
      + eapply sat_bind with (F1 := N (b2n (is_close e))) (F2 := N 0).
        * apply call_child_N.
        * intro cr. apply sat_seq; [exact N_good| |intro].
          -- apply sat_iter; [exact N_good|]. intro c. apply sat_seq; [exact N_good| |intro].
             ++ apply emit_N. reflexivity.
             ++ apply handle_command_N. exact IH.
          -- destruct (snd cr); [apply raise_N | apply sat_ret; exact N_good].
        * auto.
        * intros. replace (b2n (is_close e)) with (b2n (is_close e) + 0) by lia. eapply N_comp; eauto.
  Qed.

  Notation ETOP := (etc_top R bio_write recv bio_read sendall do_handshake CS child cf).
  Lemma etc_top_N e : sat (N (b2n (is_close e))) (ETOP e).
  Proof. apply etc_N_all. Qed.
  Lemma etc_top_N0 e : is_close e = false -> sat (N 0) (ETOP e).
  Proof. intros H. generalize (etc_top_N e). rewrite H. auto. Qed.

  (* ---- the top level: _handle_event *)
  Definition T : Rel := fun s ok s' tr =>
    (ok = true -> closes tr + qclose (queue s') + credit s' <= qclose (queue s) + credit s)
    /\ closes tr <= qclose (queue s) + credit s
    /\ (ok = false -> crashed s' <> None).
  Lemma T_good : good T.
  Proof.
    split; unfold T.
    - intros; change (closes []) with 0; repeat split; [intros; lia | lia | discriminate].
    - intros s s1 b s2 t1 t2 (H1 & _ & _) (H2 & H2' & C2). specialize (H1 eq_refl).
      rewrite closes_app. repeat split; auto; try lia. intro Hb. specialize (H2 Hb). lia.
  Qed.
  Lemma N_T s b s' t : N 0 s b s' t -> T s b s' t.
  Proof. intros (H & _ & _ & _ & _ & C). repeat split; auto; intros; lia. Qed.
  Lemma sat_N_T {A} (m : MM A) : sat (N 0) m -> sat T m.
  Proof. apply sat_weaken. exact N_T. Qed.
  Lemma modify_T (f : ST -> ST) :
    (forall s, queue (f s) = queue s /\ close_sent (f s) = close_sent s) -> sat T (modify R CS f).
  Proof.
    intros H s. unfold modify; cbn [okv val stt trc fst snd]. destruct (H s) as [Q C].
    unfold T, credit. rewrite Q, C. change (closes []) with 0. repeat split; [intros; lia | lia | discriminate].
  Qed.

  (* one replayed event *)
  Definition replay_one (e : event) : MM unit := Bind (emit R CS (TReplay e)) (fun _ => ETOP e).
  Definition N1 (q : list event) : Rel := fun s ok s' tr =>
    closes tr + qclose (queue s') + credit s' <= qclose (queue s) + credit s + qclose (replayed tr)
    /\ (exists x, queue s' = queue s ++ x)
    /\ (ok = true -> replayed tr = q)
    /\ (exists rest, q = replayed tr ++ rest)
    /\ (ok = false -> crashed s' <> None).
  Lemma replay_one_N1 e : sat (N1 [e]) (replay_one e).
  Proof.
    intros s. unfold replay_one, bind, emit. generalize (etc_top_N e s).
    destruct (ETOP e s) as [[v s'] t]; cbn [okv val stt trc fst snd app].
    intros (H & Q & Rp & E & Kp & C). unfold N1. simpl replayed. rewrite Rp. repeat split; auto.
    - unfold closes, child_closes in *. cbn [filter]. unfold qclose at 3. simpl filter.
      destruct (is_close e); simpl in *; lia.
    - exists []. reflexivity.
  Qed.
  Lemma replay_all_N1 q : sat (N1 q) (iter R CS replay_one q).
  Proof.
    induction q as [|e q IH]; cbn [iter].
    - intros s. cbn [okv val stt trc fst snd ret]. unfold N1. repeat split; auto; try discriminate.
      + simpl. lia.
      + exists []. rewrite app_nil_r. reflexivity.
      + exists []. reflexivity.
    - eapply sat_bind; [apply replay_one_N1 | intros _; exact IH | |].
      + intros s s1 t1 (H & Q & Rp & [rest Rs] & C). unfold N1. repeat split; auto; try discriminate.
        exists (rest ++ q). rewrite app_assoc, <- Rs. reflexivity.
      + intros s s1 b s2 t1 t2 (H1 & [x1 Q1] & Rp1 & _ & _) (H2 & [x2 Q2] & Rp2 & [rest Rs] & C2).
        unfold N1. rewrite replayed_app, (Rp1 eq_refl) in *. repeat split; auto.
        * change (e :: replayed t2) with ([e] ++ replayed t2). rewrite closes_app, qclose_app. lia.
        * exists (x1 ++ x2). rewrite Q2, Q1, app_assoc. reflexivity.
        * intros Hb. rewrite (Rp2 Hb). reflexivity.
        * exists rest. simpl. rewrite <- Rs. reflexivity.
  Qed.

  Notation HF := (handshake_finished R bio_write recv bio_read sendall do_handshake CS child cf).

  (* the second half of _handshake_finished *)
  Definition finish_tail (err : bool) : MM unit :=
    Bind (get R CS) (fun s =>
      if reply_to s then Bind (ETOP (EOpened (me cf) err)) (fun _ => modify R CS (set_reply_to R CS false))
      else Bind (iter R CS replay_one (queue s)) (fun _ => modify R CS (set_queue R CS []))).

  (* the queue is replayed in order, each event once (unless an exception escapes meanwhile) *)
  Definition Treplay : Rel := fun s ok s' tr =>
    T s ok s' tr /\
    (reply_to s = false -> (ok = true -> replayed tr = queue s /\ queue s' = []) /\ exists rest, queue s = replayed tr ++ rest).

  Lemma finish_tail_T err : sat Treplay (finish_tail err).
  Proof.
    intros s. unfold finish_tail. rewrite bind_get_eq. destruct (reply_to s) eqn:Hr.
    - assert (H : sat T (Bind (ETOP (EOpened (me cf) err)) (fun _ => modify R CS (set_reply_to R CS false)))).
      { apply sat_seq; [exact T_good| |intro].
        - apply sat_N_T, etc_top_N0. reflexivity.
        - apply modify_T. intro; split; reflexivity. }
      specialize (H s).
      destruct (Bind (ETOP (EOpened (me cf) err)) (fun _ => modify R CS (set_reply_to R CS false)) s) as [[v s'] t].
      split; [exact H | intro; congruence].
    - generalize (replay_all_N1 (queue s) s). unfold bind.
      destruct (iter R CS replay_one (queue s) s) as [[[u|] s1] t1]; cbn [okv val stt trc fst snd app modify].
      + intros (H & [x Q] & Rp & Rs & C). rewrite app_nil_r. unfold Treplay, T, credit in *. simpl.
        rewrite Q, qclose_app, (Rp eq_refl) in H. change (qclose []) with 0.
        repeat split; auto; try discriminate; lia.
      + intros (H & [x Q] & Rp & [rest Rs] & C). unfold Treplay, T. rewrite Q, qclose_app in H.
        assert (qclose (queue s) = qclose (replayed t1) + qclose rest) by (rewrite Rs at 1; apply qclose_app).
        repeat split; auto; try discriminate; try lia. exists rest; exact Rs.
  Qed.

  Lemma handshake_finished_eq err :
    HF err = Bind (modify R CS (set_tunnel_state R CS (if err then CLOSED else OPEN))) (fun _ => finish_tail err).
  Proof. reflexivity. Qed.

  Lemma handshake_finished_T err : sat T (HF err).
  Proof.
    rewrite handshake_finished_eq. apply sat_seq; [exact T_good| |intro].
    - apply modify_T. intro; split; reflexivity.
    - eapply sat_weaken; [|apply finish_tail_T]. intros s b s' t [H _]. exact H.
  Qed.

  Lemma emit_T t : (match t with TChild _ => false | _ => true end) = true -> sat T (emit R CS t).
  Proof.
    intros H s. unfold emit; cbn [okv val stt trc fst snd]. unfold T, closes, child_closes.
    destruct t; try discriminate; simpl; repeat split; intros; try lia; discriminate.
  Qed.

  Lemma on_handshake_error_T err : sat T (on_handshake_error R CS cf err).
  Proof.
    unfold on_handshake_error. destruct (me cf).
    all: repeat first [ apply sat_seq; [exact T_good| |intro] | apply sat_when; [exact T_good|]
                      | apply emit_T; reflexivity | apply modify_T; intro; split; reflexivity ].
  Qed.

  Lemma receive_handshake_data_N d :
    sat (N 0) (receive_handshake_data R bio_write recv bio_read do_handshake parse_hello CS cf ETOP d).
  Proof.
    unfold receive_handshake_data. destruct (me cf).
    - repeat step.
      all: try (apply tls_rhd_N; exact etc_top_N). all: try (apply start_tls_N).
      all: apply modify_frame_N; intro; repeat split; try reflexivity; unfold K; simpl; tauto.
    - apply tls_rhd_N. exact etc_top_N.
  Qed.

  Notation HE := (handle_event R bio_write recv bio_read sendall do_handshake parse_hello CS child cf).

  Lemma handle_event_T e : sat T (HE e).
  Proof.
    unfold handle_event. destruct e as [|c d|c|c err|t].
    - apply sat_seq; [exact T_good| |intro].
      + apply sat_when; [exact T_good|]. apply sat_seq; [exact T_good| |intro].
        * apply modify_T. intro; split; reflexivity.
        * apply sat_N_T, start_handshake_N. exact etc_top_N.
      + apply sat_N_T, etc_top_N0. reflexivity.
    - destruct (conn_eqb c (me cf)) eqn:Hc.
      + apply sat_get_any; intro s0. destruct (tstate_eqb (tunnel_state s0) ESTABLISHING).
        * apply sat_seq; [exact T_good| |intro de].
          -- apply sat_N_T, receive_handshake_data_N.
          -- destruct (snd de).
             ++ apply sat_seq; [exact T_good| |intro]; [apply on_handshake_error_T | apply handshake_finished_T].
             ++ apply sat_when; [exact T_good | apply handshake_finished_T].
        * apply sat_N_T, receive_data_N. exact etc_top_N.
      + apply sat_N_T, etc_top_N0. reflexivity.
    - destruct (conn_eqb c (me cf)) eqn:Hc.
      + apply sat_get_any; intro s0. apply sat_seq; [exact T_good| |intro].
        * destruct (tstate_eqb (tunnel_state s0) OPEN).
          -- apply sat_N_T, receive_close_N. exact etc_top_N.
          -- destruct (tstate_eqb (tunnel_state s0) ESTABLISHING).
             ++ apply sat_seq; [exact T_good| |intro]; [apply on_handshake_error_T | apply handshake_finished_T].
             ++ apply sat_ret, T_good.
        * apply modify_T. intro; split; reflexivity.
      + apply sat_N_T, etc_top_N0. simpl. exact Hc.
    - apply sat_N_T, etc_top_N0. reflexivity.
    - apply sat_N_T, etc_top_N0. reflexivity.
  Qed.

  Notation STEP := (step R bio_write recv bio_read sendall do_handshake parse_hello CS child cf).
  Notation RUN := (run R bio_write recv bio_read sendall do_handshake parse_hello CS child cf).

  Definition potential (s : ST) : nat :=
    match crashed s with None => qclose (queue s) + credit s | Some _ => 0 end.

  Lemma step_closes s e : closes (snd (STEP s e)) + potential (fst (STEP s e)) <= potential s.
  Proof.
    unfold step, potential. destruct (crashed s) eqn:Hc.
    - simpl. rewrite Hc. lia.
    - generalize (handle_event_T e s). destruct (HE e s) as [[v s'] t]; cbn [okv val stt trc fst snd].
      intros (H & H' & C). destruct v; simpl in *.
      + specialize (H eq_refl). destruct (crashed s'); lia.
      + destruct (crashed s'); [lia | exfalso; apply C; reflexivity].
  Qed.

  Lemma run_closes evs : forall s, closes (snd (RUN s evs)) + potential (fst (RUN s evs)) <= potential s.
  Proof.
    induction evs as [|e evs IH]; intro s; cbn [run].
    - simpl. lia.
    - generalize (step_closes s e). destruct (STEP s e) as [s1 t1]; cbn [fst snd].
      generalize (IH s1). destruct (RUN s1 evs) as [s2 t2]; cbn [fst snd]. rewrite closes_app. lia.
  Qed.

  (* ConnectionClosed(conn) is given to the child at most once, whatever the record layer,
     the child and the environment do *)
  Theorem close_at_most_once r replies cs evs :
    child_closes (me cf) (snd (RUN (init r replies cs) evs)) <= 1.
  Proof.
    generalize (run_closes evs (init r replies cs)). fold (closes (snd (RUN (init r replies cs) evs))).
    assert (H : potential (init r replies cs) = 1) by reflexivity. rewrite H. lia.
  Qed.

  (* _handshake_finished replays the queued events in order, each once *)
  Theorem replay_in_order err s :
    reply_to s = false ->
    let x := HF err s in
    (okv x = true -> replayed (trc x) = queue s /\ queue (stt x) = []) /\
    exists rest, queue s = replayed (trc x) ++ rest.
  Proof.
    intros Hr. rewrite handshake_finished_eq, bind_modify_eq. cbv zeta.
    generalize (finish_tail_T err (set_tunnel_state R CS (if err then CLOSED else OPEN) s)).
    intros [_ H]. apply H. exact Hr.
  Qed.
End Base.
