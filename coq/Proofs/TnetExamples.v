(* Proofs/TnetExamples.v -- concrete witnesses: non-vacuity of the hypotheses and the inputs
   that refute full totality of today's FlowReader.stream handlers. *)
From Coq Require Import List Bool Arith NArith ZArith Lia.
From MV Require Import Base.Bytes Model.Tnet Proofs.TnetBase Proofs.TnetRoundtrip Proofs.TnetReader Proofs.TnetTrunc.
Import ListNotations.

(* float(): knows the single literal 1.5 *)
Definition pf_sample (tok : bytes) : option (bytes * option Z) :=
  if bytes_eqb tok [x31; x2e; x35] then Some ([x31; x2e; x35], None) else None.

(* {"version": 21, "k": [1.5, b"\xff", None, True, "e-acute"], "type": "http"} *)
Definition sample : tv :=
  TDict [ (TStr [x76;x65;x72;x73;x69;x6f;x6e], TInt 21);
          (TStr [x6b], TList [TFloat [x31;x2e;x35]; TBytes [xff]; TNull; TBool true; TStr [xc3;xa9]]);
          (TStr [x74;x79;x70;x65], TStr [x68;x74;x74;x70]) ].
Definition sample2 : tv := TDict [ (TStr [x69;x64], TInt (-7)) ].

Ltac wf_tac := repeat (split || constructor); cbn [fst snd];
  try (vm_compute; (reflexivity || discriminate)); try (eexists; vm_compute; reflexivity).

Lemma sample_wf : wf pf_sample sample /\ top_ok sample /\ height sample = 2%nat.
Proof. split; [|split; [vm_compute; lia | reflexivity]]. cbn [wf sample fold_right fst snd map]. wf_tac. Qed.
Lemma sample2_wf : wf pf_sample sample2 /\ top_ok sample2 /\ height sample2 = 1%nat.
Proof. split; [|split; [vm_compute; lia | reflexivity]]. cbn [wf sample2 fold_right fst snd map]. wf_tac. Qed.

Lemma sample_roundtrips :
  wf pf_sample sample /\ top_ok sample /\ (height sample <= 2)%nat
  /\ load pf_sample 2 (dumps sample) = LValue (mirror sample) []
  /\ mirror sample <> sample
  /\ load pf_sample 2 (dumps (mirror sample)) = LValue sample [].
Proof.
  destruct sample_wf as (W & T & H).
  split; [exact W|]. split; [exact T|]. split; [rewrite H; lia|].
  split; [vm_compute; reflexivity|]. split; [vm_compute; discriminate | vm_compute; reflexivity].
Qed.

(* nesting one level deeper than the stack budget: RecursionError escapes *)
Fixpoint nest (n : nat) (v : tv) : tv := match n with O => v | S n' => TList [nest n' v] end.

Lemma recursion_error_escapes :
  snd (stream (fun _ => None) outer_current inner_current (fun _ => None) 496
              (dumps (TDict [(TStr [x6d], nest 497 (TList []))]))) = Other RecursionError
  /\ snd (stream (fun _ => None) outer_current inner_current (fun _ => None) 498
              (dumps (TDict [(TStr [x6d], nest 497 (TList []))]))) = Clean.
Proof. split; vm_compute; reflexivity. Qed.

(* a well-formed dict that is not a flow state: whatever from_state raises outside
   ValueError/TypeError/IndexError escapes *)
Lemma key_error_escapes :
  snd (stream (fun _ => None) outer_current inner_current (fun _ => Some KeyError) 10 [x30; x3a; x7d]) = Other KeyError.
Proof. vm_compute. reflexivity. Qed.

(* two records, cut inside the second *)
Lemma truncation_example :
  Forall (loadable pf_sample (fun _ => None) 5) [sample; sample2]
  /\ (length (dumps sample) < length (dumps sample) + 4 < length (file_of [sample; sample2]))%nat
  /\ stream pf_sample outer_current inner_current (fun _ => None) 5
       (firstn (length (dumps sample) + 4) (file_of [sample; sample2])) = ([mirror sample], ReadError)
  /\ stream pf_sample outer_current inner_current (fun _ => None) 5
       (firstn (length (dumps sample)) (file_of [sample; sample2])) = ([mirror sample], Clean).
Proof.
  destruct sample_wf as (W & T & H). destruct sample2_wf as (W2 & T2 & H2).
  split; [|split; [vm_compute; lia | split; vm_compute; reflexivity]].
  constructor; [|constructor; [|constructor]]; unfold loadable.
  - split; [exact W|]. split; [exact T|]. split; [rewrite H; lia|]. split; reflexivity.
  - split; [exact W2|]. split; [exact T2|]. split; [rewrite H2; lia|]. split; reflexivity.
Qed.
