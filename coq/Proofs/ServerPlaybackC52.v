(* Proofs/ServerPlaybackC52.v -- history-level corollaries used by Props/C52.v, the concrete
   witness refuting recording order across a re-index, and a non-vacuity witness. *)
From Coq Require Import ZArith List Bool Lia ZifyBool Permutation Sorted.
From MV Require Import Base.Bytes Model.ServerPlayback Proofs.ServerPlaybackKey Proofs.ServerPlaybackMap
  Proofs.ServerPlaybackMain.
Import ListNotations.

(* the state reached from an empty replay list with options o0 after history h *)
Definition after (o0 : options) (h : list op) : state := final (init o0) h.

Lemma after_is_run_last o0 h : after o0 h = last (map fst (run (init o0) h)) (init o0).
Proof. symmetry. apply run_last. Qed.

Lemma index_invariant o0 h : Inv (st_opts (after o0 h)) (st_map (after o0 h)).
Proof. apply Inv_reachable. Qed.

Lemma served_only_matching o0 h rq r m2 :
  request_hook (st_opts (after o0 h)) rq (st_map (after o0 h)) = (Served r, m2) ->
  In r (pending (st_map (after o0 h))) /\ rec_has_resp r = true
  /\ same_key (st_opts (after o0 h)) (rec_req r) rq.
Proof.
  intro E. destruct (served_matches _ _ _ _ _ (index_invariant o0 h) E) as [H1 [H2 H3]].
  split; [exact H1|]. split; [exact H2|]. apply hash_eq_iff. exact H3.
Qed.

Lemma decision o0 h rq :
  let s := after o0 h in
  let out := fst (request_hook (st_opts s) rq (st_map s)) in
  (st_map s = [] -> out = Forward) /\
  (st_map s <> [] ->
     (live (st_opts s) rq (st_map s) -> exists r, out = Served r) /\
     (~ live (st_opts s) rq (st_map s) -> out = unmatched_action (st_opts s))).
Proof. exact (request_decision _ rq _ (index_invariant o0 h)). Qed.

Lemma never_index_error o0 h rq :
  fst (request_hook (st_opts (after o0 h)) rq (st_map (after o0 h))) <> Raised.
Proof. apply no_index_error. apply index_invariant. Qed.

Lemma pop_conserves o0 h rq :
  let s := after o0 h in
  reuse_on (st_opts s) = false ->
  exists skipped, Forall (fun x => noresp x /\ matches (st_opts s) rq x) skipped /\
    Permutation (pending (st_map s))
      (skipped ++ served_list (fst (request_hook (st_opts s) rq (st_map s)))
               ++ pending (snd (request_hook (st_opts s) rq (st_map s)))).
Proof. intros s R. apply request_pop; [apply index_invariant | exact R]. Qed.

Lemma history_accounting o0 h :
  exists skipped, Forall noresp skipped /\
    Permutation (loaded h)
      (served_pop (init o0) h ++ skipped ++ discarded (init o0) h ++ pending (st_map (after o0 h))).
Proof. exact (accounting h (init o0) (Inv_nil o0)). Qed.

Lemma reuse_first_every_time o0 h rq n :
  let s := after o0 h in
  reuse_on (st_opts s) = true ->
  run s (repeat (ORequest rq) n)
  = repeat (s, Some (fst (request_hook (st_opts s) rq (st_map s)))) n.
Proof.
  intros s R. pose proof (index_invariant o0 h) as I. fold s in I.
  destruct s as [o m]. apply reuse_every_time; assumption.
Qed.

Lemma reindex_conserves o0 h upd :
  let s := after o0 h in
  Permutation (pending (st_map (fst (step s (OConfigure upd))))) (pending (st_map s)).
Proof.
  intros s. simpl. pose proof (configure_conserves (st_opts s) upd (st_map s)) as C.
  destruct (configure (st_opts s) upd (st_map s)); exact C.
Qed.

Lemma order_no_reindex o0 h rq :
  recorded_in_order h -> no_reindex h -> earliest_served (after o0 h) rq.
Proof. intros RO NR. apply order_partial; [exact RO | apply no_reindex_sorted; exact NR]. Qed.

(* ---------- concrete witnesses ---------- *)

Definition opts0 : options := Build_options false false false [] [] [] false false false EForward.

(* GET http://host:80/p with an empty body *)
Definition mkreq (host : bytes) : request :=
  Build_request [x68;x74;x74;x70] [x47;x45;x54] [x2f;x70] [] host 80 [x62;x27;x27] [] [] [].

Definition mkrec (i : N) (host : bytes) : recording := Build_recording i (mkreq host) true.

Definition host_a : bytes := [x61].
Definition host_b : bytes := [x62].
Definition host_z : bytes := [x7a].

(* recordings for hosts a, b, a; then the host is ignored; one request has been answered *)
Definition h_bad : list op :=
  [OLoad [FHttp (mkrec 0 host_a); FHttp (mkrec 1 host_b); FHttp (mkrec 2 host_a)];
   OConfigure [SetIgnoreHost true];
   ORequest (mkreq host_z)].

Lemma order_refuted :
  exists o0 h rq, recorded_in_order h /\ ~ earliest_served (after o0 h) rq.
Proof.
  exists opts0, h_bad, (mkreq host_z). split.
  - unfold recorded_in_order. vm_compute. repeat constructor.
  - intro H. unfold earliest_served in H.
    assert (E : exists m2, request_hook (st_opts (after opts0 h_bad)) (mkreq host_z)
                                        (st_map (after opts0 h_bad)) = (Served (mkrec 2 host_a), m2)).
    { eexists. vm_compute. reflexivity. }
    destruct E as [m2 E].
    assert (L : (rec_id (mkrec 2 host_a) <= rec_id (mkrec 1 host_b))%N).
    { apply (H _ _ E).
      - vm_compute. right. left. reflexivity.
      - reflexivity.
      - vm_compute. reflexivity. }
    vm_compute in L. apply L. reflexivity.
Qed.

(* recordings for hosts a, b; the host is ignored (a re-index of two buckets that are in
   recording order); two requests for a third host get recording 0, then recording 1 *)
Definition h_good : list op :=
  [OLoad [FHttp (mkrec 0 host_a); FHttp (mkrec 1 host_b)];
   OConfigure [SetIgnoreHost true];
   ORequest (mkreq host_z); ORequest (mkreq host_z); ORequest (mkreq host_z)].

Lemma nonvacuous :
  recorded_in_order h_good /\ reindex_sorted (init opts0) h_good
  /\ length (st_map (final (init opts0) [OLoad [FHttp (mkrec 0 host_a); FHttp (mkrec 1 host_b)]])) = 2%nat
  /\ map snd (run (init opts0) h_good)
     = [None; None; Some (Served (mkrec 0 host_a)); Some (Served (mkrec 1 host_b)); Some Forward]
  /\ same_key (st_opts (after opts0 h_good)) (mkreq host_a) (mkreq host_z)
  /\ ~ same_key opts0 (mkreq host_a) (mkreq host_z).
Proof.
  split; [unfold recorded_in_order; vm_compute; repeat constructor|].
  split; [simpl; repeat split; intros; vm_compute; repeat constructor|].
  split; [vm_compute; reflexivity|].
  split; [vm_compute; reflexivity|].
  split.
  - apply hash_eq_iff. vm_compute. reflexivity.
  - intro H. apply hash_eq_iff in H. vm_compute in H. discriminate.
Qed.
