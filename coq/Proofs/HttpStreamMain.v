(* Proofs/HttpStreamMain.v -- the lifecycle theorems for every stream reachable in the model (all option sets, all
   inputs, all addon actions), and the lifting to the streams of the whole system model (Model/HttpSys.v). *)
From Coq Require Import List Bool NArith.
From MV Require Import Base.Bytes Model.HttpStream Model.HttpSys Proofs.HttpStreamAbs Proofs.HttpStreamSound
  Proofs.HttpStreamInv Proofs.HttpStreamHooks Proofs.HookSeq.
Import ListNotations.

Lemma HM_drain o q : forall s acc, HM s -> HM (fst (drain o s q acc)).
Proof.
  induction q as [|e q IH]; intros s acc H; simpl.
  - apply (HM_queue [] s H).
  - destruct (is_some (pc s) || stopped s); [apply (HM_queue (e :: q) s H)|].
    destruct (run_event o (upd_queue q s) e) as [s1 c1] eqn:R.
    apply IH. change s1 with (fst (s1, c1)). rewrite <- R. apply HM_event. apply (HM_queue q s H).
Qed.
Theorem HM_handle o s inp : HM s -> HM (fst (stream_handle o s inp)).
Proof.
  intros H. unfold stream_handle. destruct (stopped s); [exact H|].
  assert (D : forall k, HM (fst (let '(s1, c1) := resume o k inp (upd_pc None s) in drain o s1 (queue s1) c1))).
  { intros k. pose proof (HM_resume o k inp _ (HM_pc s H)) as R.
    destruct (resume o k inp (upd_pc None s)) as [s1 c1]. apply HM_drain. exact R. }
  destruct inp as [e | | c].
  - destruct (pc s); [apply (HM_queue _ s H) | apply HM_event, H].
  - destruct (pc s); [apply D | apply HM_crash, H].
  - destruct (pc s); [apply D | apply HM_crash, H].
Qed.

(* ---------- streams reachable in the model *)
Inductive sreach (o : opts) : stream -> Prop :=
| sr_new id : sreach o (new_stream id)
| sr_handle s inp : sreach o s -> sreach o (fst (stream_handle o s inp))
| sr_act s h a : sreach o s -> sreach o (apply_act h a s).

Lemma sreach_good o s : sreach o s -> Inv s /\ HM s.
Proof.
  induction 1 as [id | s inp _ [I H] | s h a _ [I H]].
  - split; [apply Inv_new | apply HM_new].
  - split; [apply Inv_handle, I | apply HM_handle, H].
  - split; [apply Inv_act, I | apply HM_act, H].
Qed.

Theorem T_order o s : sreach o s -> venv s = false ->
  forall pre h post, hooks s = pre ++ h :: post -> rule h pre = true.
Proof.
  intros R Hv. destruct (sreach_good o s R) as [I H]. destruct (Inv_facts s I) as (Pok & _).
  unfold P_ok in Pok. simpl in Pok. rewrite Hv in Pok. simpl in Pok. rewrite H in Pok.
  apply ok_rule. exact Pok.
Qed.

Theorem T_not_both o s : sreach o s -> venv s = false ->
  mem HkResponse (hooks s) && mem HkError (hooks s) = false
  /\ (forall pre post, hooks s = pre ++ HkError :: post -> mem HkError pre = false).
Proof.
  intros R Hv. destruct (sreach_good o s R) as [I H]. destruct (Inv_facts s I) as (_ & Pb & _).
  unfold P_both in Pb. simpl in Pb. rewrite Hv in Pb. simpl in Pb. rewrite H in Pb.
  apply andb_prop in Pb. destruct Pb as [B1 B2].
  pose proof (bits_mem (hooks s)) as (_ & _ & _ & D & E & _).
  split.
  - rewrite <- D, <- E. destruct (m_r (summ (hooks s)) && m_er (summ (hooks s))); [discriminate | reflexivity].
  - apply er2_rule. destruct (m_er2 (summ (hooks s))); [discriminate | reflexivity].
Qed.

Theorem T_request_first o s : sreach o s -> venv s = false -> req_stream s = false ->
  forall pre post, hooks s = pre ++ HkRespHeaders :: post -> mem HkRequest pre = true.
Proof.
  intros R Hv Hs. destruct (sreach_good o s R) as [I H]. destruct (Inv_facts s I) as (_ & _ & Pe & _).
  unfold P_early in Pe. simpl in Pe. rewrite Hv, Hs in Pe. simpl in Pe. rewrite orb_false_r in Pe. rewrite H in Pe.
  apply early_rule. destruct (m_early (summ (hooks s))); [discriminate | reflexivity].
Qed.

Theorem T_outcome o s : sreach o s ->
  pc s = None -> tunnel s = false -> crashed s = false -> venv s = false -> fws s = false ->
  mem HkReqHeaders (hooks s) = true -> closed_s s = true ->
  xorb (mem HkResponse (hooks s)) (mem HkError (hooks s)) = true /\ live s = false.
Proof.
  intros R Hpc Ht Hc Hv Hw Hq Hcl. destruct (sreach_good o s R) as [I H]. destruct (Inv_facts s I) as (_ & _ & _ & Po).
  pose proof (bits_mem (hooks s)) as (A & _ & _ & D & E & _).
  unfold P_out, HttpStreamInv.closed_ok in Po. unfold closed_s in Hcl.
  replace (is_pnone (x_pc (abs s))) with true in Po by (destruct s; simpl in *; subst; reflexivity).
  simpl in Po. rewrite Ht, Hc, Hv, Hw, Hcl, H, A, Hq, D, E in Po. simpl in Po.
  apply andb_prop in Po. destruct Po as [P1 P2]. split; [exact P1 | destruct (live s); [discriminate | reflexivity]].
Qed.

(* ---------- runs of one stream.  gap_run is the schedule that made the unrepaired code fire both the error and the
   response hook (streamed request; while its request hook is pending the client disconnects and the server answers):
   with check_killed after the hook it ends with the error outcome only *)
Inductive sstep := SIn (i : sinput) | SAct (h : hook) (a : act).
Definition run_stream (o : opts) (l : list sstep) : stream :=
  fold_left (fun s st => match st with SIn i => fst (stream_handle o s i) | SAct h a => apply_act h a s end) l (new_stream 1).
Lemma run_stream_reach o l : sreach o (run_stream o l).
Proof.
  unfold run_stream. assert (G : forall s, sreach o s -> sreach o (fold_left (fun s st => match st with SIn i => fst (stream_handle o s i) | SAct h a => apply_act h a s end) l s)).
  { induction l as [|st l IH]; intros s R; simpl; [exact R|]. apply IH. destruct st; [apply sr_handle | apply sr_act]; exact R. }
  apply G. apply sr_new.
Qed.
Definition gap_opts : opts := mkOpts None None true false.
Definition gap_req : head := mkHead [] MGet (HLen 1) 0 true true false false 0 false.
Definition gap_resp : head := mkHead [] MGet (HLen 0) 0 true true false false 200 false.
Definition gap_run : list sstep :=
  [SIn (IEvent (EReqHeaders gap_req false)); SAct HkReqHeaders AStream; SIn IHookDone; SIn (IConnDone (Some 1%N));
   SIn (IEvent (EReqData [x61])); SIn (IEvent EReqEOM);
   SIn (IEvent (EReqErr None)); SIn (IEvent (ERespHeaders gap_resp true)); SIn (IEvent ERespEOM);
   SIn IHookDone; SIn IHookDone; SIn IHookDone; SIn IHookDone].
Theorem T_gap_closed :
  let s := run_stream gap_opts gap_run in
  venv s = false /\ hooks s = [HkReqHeaders; HkRequest; HkError] /\ live s = false.
Proof. vm_compute. repeat split. Qed.

(* an addon replaces the 101 response of a WebSocket handshake in the response hook: flow.websocket was set before the
   hook, flow_done therefore leaves the flow live, and the replaced response is not a 101, so nothing takes the flow over *)
Definition ws_req : head := mkHead [] MGet HNone 0 true true false false 0 true.
Definition ws_resp : head := mkHead [] MGet HNone 0 true true false false 101 true.
Definition ws_run : list sstep :=
  [SIn (IEvent (EReqHeaders ws_req true)); SIn IHookDone; SIn (IEvent EReqEOM); SIn IHookDone; SIn (IConnDone (Some 1%N));
   SIn (IEvent (ERespHeaders ws_resp true)); SIn IHookDone; SIn (IEvent ERespEOM); SAct HkResponse AResp; SIn IHookDone].
Theorem T_live_refuted :
  let s := run_stream gap_opts ws_run in
  pc s = None /\ tunnel s = false /\ crashed s = false /\ venv s = false /\ closed_s s = true
  /\ hooks s = [HkReqHeaders; HkRequest; HkRespHeaders; HkResponse] /\ fws s = true /\ live s = true.
Proof. vm_compute. repeat split. Qed.

(* ---------- every stream of the system model is a reachable stream *)
Definition all_reach (e : env) (y : sys) : Prop := Forall (fun p => sreach (e_opts e) (fst p)) (streams y).

Lemma find_stream_In id l v : find_stream id l = Some v -> In v l.
Proof.
  induction l as [|[s d] r IH]; simpl; [discriminate|].
  destruct (N.eqb (sid s) id); [intros H; inversion H; auto | intros H; right; apply IH, H].
Qed.
Lemma put_stream_Forall (P : stream * bool -> Prop) id v l : Forall P l -> P v -> Forall P (put_stream id v l).
Proof.
  induction 1 as [|[s d] r Hx Hr IH]; intros Hv; simpl; [constructor|].
  destruct (N.eqb (sid s) id); constructor; auto.
Qed.

Ltac keep_streams := solve [assumption | simpl; assumption].
Lemma streams_add_trace c y : streams (add_trace c y) = streams y.
Proof. destruct y; reflexivity. Qed.
Lemma streams_do_crash y : streams (do_crash y) = streams y.
Proof. destruct y; reflexivity. Qed.

Lemma get_connection_streams e id host y : streams (fst (get_connection e id host y)) = streams y.
Proof.
  unfold get_connection. destruct (find_conn host (srvs y) 1) as [[k| |k]|].
  - destruct (nth_srv k (srvs y)); destruct y; reflexivity.
  - reflexivity.
  - reflexivity.
  - destruct (e_conn e _); destruct y; reflexivity.
Qed.

Lemma step_reach e y w : all_reach e y -> all_reach e (fst (step e y w)).
Proof.
  intros A. unfold all_reach in *. destruct w as [id inp | id c | k c]; simpl.
  - destruct (find_stream id (streams y)) as [[s d]|] eqn:F; [|exact A].
    destruct (stream_handle (e_opts e) s inp) as [s1 cmds] eqn:SH. simpl.
    replace (streams (sy_streams (put_stream id (s1, d) (streams y)) y)) with (put_stream id (s1, d) (streams y)) by (destruct y; reflexivity).
    apply put_stream_Forall; [exact A|]. simpl. change s1 with (fst (s1, cmds)). rewrite <- SH. apply sr_handle.
    apply find_stream_In in F. rewrite Forall_forall in A. exact (A _ F).
  - destruct (find_stream id (streams y)) as [[s d]|] eqn:F; [|exact A].
    assert (Rs : sreach (e_opts e) s) by (apply find_stream_In in F; rewrite Forall_forall in A; exact (A _ F)).
    destruct c as [h | t ev | host | | | |].
    + destruct (assoc id (ords y)) as [o|]; simpl.
      * destruct (e_defer e o h); destruct y; simpl in *; apply put_stream_Forall; auto; simpl; apply sr_act; exact Rs.
      * destruct (e_defer e (next_ord y) h); destruct y; simpl in *; apply put_stream_Forall; auto; simpl; apply sr_act; exact Rs.
    + destruct t.
      * destruct (h1s_send (cl_w y) id ev (cl y)); destruct y; exact A.
      * destruct (srv s) as [k|]; [|destruct y; exact A].
        destruct (nth_srv k (srvs y)) as [v|]; [|destruct y; exact A].
        destruct (h1c_send id ev (v_conn v)); destruct y; exact A.
    + rewrite get_connection_streams. exact A.
    + destruct y; simpl in *. apply put_stream_Forall; auto.
    + destruct (srv s); destruct y; exact A.
    + destruct y; exact A.
    + destruct y; exact A.
  - destruct c as [b | st | half | id ev | |].
    + destruct y; exact A.
    + destruct y; exact A.
    + destruct y; simpl in *. destruct (N.eqb k 0); [destruct half; exact A|].
      unfold add_trace; simpl. destruct (nth_srv k srvs); [destruct half|]; exact A.
    + assert (A1 : Forall (fun p => sreach (e_opts e) (fst p))
                     (streams (if is_reqheaders ev then sy_streams (streams y ++ [(new_stream id, false)]) y else y))).
      { destruct (is_reqheaders ev); [|exact A]. destruct y; simpl in *. apply Forall_app. split; [exact A|].
        constructor; [apply sr_new | constructor]. }
      destruct (find_stream id _) as [[? []]|]; exact A1.
    + destruct y; exact A.
    + destruct y; exact A.
Qed.

Lemma run_reach e : forall fuel y stack, all_reach e y -> all_reach e (run fuel e y stack).
Proof.
  induction fuel as [|f IH]; intros y stack A; destruct stack as [|w rest]; simpl; try exact A.
  - destruct (halted y); [exact A | destruct y; exact A].
  - destruct (halted y); [exact A|]. destruct (step e y w) as [y1 new] eqn:S. apply IH.
    change y1 with (fst (y1, new)). rewrite <- S. apply step_reach, A.
Qed.
Lemma complete_reach e y p : all_reach e y -> all_reach e (fst (complete y p)).
Proof.
  intros A. destruct p as [id | k ok]; simpl; [exact A|].
  destruct (nth_srv k (srvs y)); [destruct y; exact A | exact A].
Qed.
Lemma pump_reach e : forall n y, all_reach e y -> all_reach e (pump n e y).
Proof.
  induction n as [|n IH]; intros y A; cbn [pump].
  - destruct (pendq y); [exact A|]. destruct (halted y); [exact A | destruct y; exact A].
  - destruct (pendq y) as [|p q] eqn:Q; [exact A|]. destruct (halted y); [exact A|].
    destruct (complete (sy_pendq q y) p) as [y1 ws] eqn:C. apply IH. apply run_reach.
    change y1 with (fst (y1, ws)). rewrite <- C. apply complete_reach. destruct y; exact A.
Qed.
Lemma settle_reach e y ws : all_reach e y -> all_reach e (settle e y ws).
Proof. intros A. unfold settle. apply pump_reach, run_reach, A. Qed.

Opaque run pump.
Lemma do_op_reach e y o : all_reach e y -> all_reach e (do_op e y o).
Proof.
  intros A. unfold do_op. destruct (halted y); [exact A|].
  destruct o as [t | k t | | k |].
  - destruct (cl_r y); [|exact A]. destruct (feed true t (cl y)). apply settle_reach. destruct y; exact A.
  - destruct (nth_srv k (srvs y)) as [v|]; [|exact A]. destruct (v_r v && negb (N.eqb k 0)); [|exact A].
    destruct (feed false t (v_conn v)). apply settle_reach. destruct y; exact A.
  - destruct (cl_r y); [|exact A]. destruct (h1_closed true (cl_w y) (cl y)). apply settle_reach. destruct y; exact A.
  - destruct (nth_srv k (srvs y)) as [v|]; [|exact A]. destruct (v_r v && negb (N.eqb k 0)); [|exact A].
    destruct (h1_closed false (v_w v) (v_conn v)). apply settle_reach. destruct y; exact A.
  - destruct (deferred y) as [|p r] eqn:D; [exact A|].
    destruct (complete (sy_deferred r y) p) as [y1 ws] eqn:C. apply settle_reach.
    change y1 with (fst (y1, ws)). rewrite <- C. apply complete_reach. destruct y; exact A.
Qed.

Lemma fold_ops_reach e ops : forall y, all_reach e y -> all_reach e (fold_left (do_op e) ops y).
Proof. induction ops as [|o r IH]; intros y A; cbn [fold_left]; [exact A | apply IH, do_op_reach, A]. Qed.
Lemma resume_all_reach e : forall n y, all_reach e y -> all_reach e (resume_all n e y).
Proof.
  induction n as [|n IH]; intros y A; cbn [resume_all]; [exact A|].
  destruct (deferred y); [exact A|]. destruct (halted y); [exact A|]. apply IH, do_op_reach, A.
Qed.
Lemma close_all_reach e y : all_reach e y -> all_reach e (close_all e y).
Proof.
  intros A. unfold close_all.
  assert (G : forall l y0, all_reach e y0 -> all_reach e (fold_left (fun y k => do_op e y (OCloseS k)) l y0)).
  { induction l as [|k l IH]; intros y0 A0; cbn [fold_left]; [exact A0 | apply IH, do_op_reach, A0]. }
  apply G, do_op_reach, A.
Qed.
Lemma finish_reach e : forall r y, all_reach e y -> all_reach e (finish r e y).
Proof. induction r as [|r IH]; intros y A; cbn [finish]; [exact A | apply IH, close_all_reach, resume_all_reach, A]. Qed.

Theorem run_ops_reach e ops : all_reach e (run_ops e ops).
Proof. unfold run_ops. apply finish_reach, fold_ops_reach. unfold all_reach. apply Forall_nil. Qed.
