(* Proofs/DnsFuel.v -- decoding is total: the fuel of the model is never exhausted (pointer
   chains and loops included), and the only error classes a decoder can produce are
   EStruct (struct.error), EAce (outside the modelled IDNA fragment) and, from the pack()
   call inside decompress_from_record_data, EValue / EUnicode. *)
From Coq Require Import List Bool Arith NArith ZArith Lia.
From MV Require Import Base.Bytes Model.DnsNames Model.DnsMessage.
Import ListNotations.

Definition parse_err (e : pyexc) : Prop := e = EStruct \/ e = EAce.
Definition decode_err (e : pyexc) : Prop := e = EStruct \/ e = EAce \/ e = EValue \/ e = EUnicode.

Lemma parse_decode e : parse_err e -> decode_err e.
Proof. unfold parse_err, decode_err. tauto. Qed.

Lemma byte_at_some buf off b : byte_at buf off = Some b -> off < length buf.
Proof.
  unfold byte_at. intros H. destruct (skipn off buf) eqn:E; [discriminate|].
  destruct (Nat.lt_ge_cases off (length buf)) as [L|L]; [exact L|].
  rewrite skipn_all2 in E by exact L. discriminate.
Qed.

Lemma byte_at_lt buf off : off < length buf -> exists b, byte_at buf off = Some b.
Proof.
  intros H. unfold byte_at. destruct (skipn off buf) eqn:E; [|eauto].
  pose proof (skipn_length off buf) as L. rewrite E in L. cbn in L. lia.
Qed.

Lemma idna_decode_err l e : idna_decode l = Err e -> parse_err e.
Proof.
  unfold idna_decode, parse_err. destruct (has_ace l); [intros [= <-]; auto|].
  destruct (forallb is_ascii l); [discriminate|intros [= <-]; auto].
Qed.

Lemma label_ok acc buf off ls n : unpack_label_into acc buf off = Ok (ls, n) ->
  1 <= n /\ off + n <= length buf.
Proof.
  unfold unpack_label_into. destruct (byte_at buf off) eqn:B; [|discriminate].
  apply byte_at_some in B.
  destruct (64 <=? _); [discriminate|]. destruct (_ =? 0); [intros [= <- <-]; lia|].
  destruct (length buf <? _) eqn:E; [discriminate|]. apply Nat.ltb_ge in E.
  destruct (idna_decode _); [intros [= <- <-]; lia|discriminate].
Qed.

Lemma label_err acc buf off e : unpack_label_into acc buf off = Err e -> parse_err e.
Proof.
  unfold unpack_label_into. destruct (byte_at buf off); [|intros [= <-]; left; reflexivity].
  destruct (64 <=? _); [intros [= <-]; left; reflexivity|]. destruct (_ =? 0); [discriminate|].
  destruct (length buf <? _); [intros [= <-]; left; reflexivity|].
  destruct (idna_decode _) eqn:D; [discriminate|]. intros [= <-]. eapply idna_decode_err, D.
Qed.

(* ---------- the label scan ---------- *)
Lemma scan_facts fuel : forall buf off acc, 1 <= fuel -> length buf < fuel + off ->
  match scan_labels fuel buf off acc with
  | SErr e => parse_err e
  | SEnd _ off' => off < off' /\ off < length buf
  | SPtr _ poff => off <= poff /\ poff < length buf
  end.
Proof.
  induction fuel as [|f IH]; intros buf off acc H1 Hf; [lia|]. cbn [scan_labels].
  destruct (byte_at buf off) eqn:B; [|left; reflexivity].
  pose proof (byte_at_some _ _ _ B) as Hlt.
  destruct (is_ptr b); [lia|].
  destruct (unpack_label_into acc buf off) as [[ls n]|e] eqn:U; [|eapply label_err, U].
  apply label_ok in U as [Hn Hle].
  destruct (bN b =? 0)%N; [lia|].
  specialize (IH buf (off + n) ls ltac:(lia) ltac:(lia)).
  destruct (scan_labels f buf (off + n) ls); [exact IH|lia|lia].
Qed.

Lemma scan_top buf off :
  match scan_labels (S (length buf)) buf off [] with
  | SErr e => parse_err e
  | SEnd _ off' => off < off' /\ off < length buf
  | SPtr _ poff => off <= poff /\ poff < length buf
  end.
Proof. apply scan_facts; lia. Qed.

(* ---------- free offsets: the measure for the pointer recursion ---------- *)
Definition is_free (c : cache) (o : nat) : bool :=
  match lookup o c with None => true | Some _ => false end.
Definition free (buf : bytes) (c : cache) : nat := length (filter (is_free c) (seq 0 (length buf))).
Definition ext (c c' : cache) : Prop := forall o, is_free c' o = true -> is_free c o = true.

Lemma filter_le (P Q : nat -> bool) l : (forall x, Q x = true -> P x = true) ->
  length (filter Q l) <= length (filter P l).
Proof.
  intros H. induction l as [|x l IH]; [reflexivity|]. cbn [filter].
  destruct (Q x) eqn:Eq; [rewrite (H x Eq); cbn [length]; lia|].
  destruct (P x); cbn [length]; lia.
Qed.

Lemma filter_lt (P Q : nat -> bool) l x : (forall y, Q y = true -> P y = true) ->
  In x l -> P x = true -> Q x = false -> length (filter Q l) < length (filter P l).
Proof.
  intros H. induction l as [|y l IH]; intros Hin Px Qx; [destruct Hin|]. cbn [filter].
  destruct Hin as [->|Hin].
  - rewrite Px, Qx. cbn [length]. pose proof (filter_le P Q l H). lia.
  - specialize (IH Hin Px Qx). destruct (Q y) eqn:Eq; [rewrite (H y Eq); cbn [length]; lia|].
    destruct (P y); cbn [length]; lia.
Qed.

Lemma free_ext buf c c' : ext c c' -> free buf c' <= free buf c.
Proof. intros H. apply filter_le, H. Qed.

Lemma free_bound buf c : free buf c <= length buf.
Proof.
  unfold free. rewrite <- (seq_length (length buf) 0) at 2.
  induction (seq 0 (length buf)) as [|x l IH]; [reflexivity|]. cbn [filter].
  destruct (is_free c x); cbn [length]; lia.
Qed.

Lemma is_free_cons c k v o : is_free ((k, v) :: c) o = negb (k =? o) && is_free c o.
Proof. unfold is_free. cbn [lookup]. destruct (k =? o); reflexivity. Qed.

Lemma ext_cons c k v : ext c ((k, v) :: c).
Proof. intros o. rewrite is_free_cons. intros H. apply andb_true_iff in H. tauto. Qed.

Lemma ext_trans a b c : ext a b -> ext b c -> ext a c.
Proof. unfold ext. auto. Qed.

Lemma free_mark buf c off v : lookup off c = None -> off < length buf ->
  free buf ((off, v) :: c) < free buf c.
Proof.
  intros L H. unfold free. apply (filter_lt _ _ _ off).
  - apply ext_cons.
  - apply in_seq. lia.
  - unfold is_free. rewrite L. reflexivity.
  - rewrite is_free_cons, Nat.eqb_refl. reflexivity.
Qed.

(* every cached result has a positive size *)
Definition cache_pos (c : cache) : Prop := forall o n l, lookup o c = Some (Some (n, l)) -> 1 <= l.

Lemma cache_pos_cons c k v : cache_pos c ->
  match v with Some (_, l) => 1 <= l | None => True end -> cache_pos ((k, v) :: c).
Proof.
  intros Hc Hv o n l. cbn [lookup]. destruct (k =? o); [|apply Hc].
  intros [= ->]. exact Hv.
Qed.

Definition fwc_post (c : cache) (rc : result (name * nat) * cache) : Prop :=
  match fst rc with
  | Ok (_, l) => 1 <= l
  | Err e => parse_err e
  end /\ cache_pos (snd rc) /\ ext c (snd rc).

Lemma fwc_facts buf fuel : forall off c, free buf c < fuel -> cache_pos c ->
  fwc_post c (unpack_from_with_compression fuel buf off c).
Proof.
  induction fuel as [|f IH]; intros off c Hf Hc; [lia|]. cbn [unpack_from_with_compression].
  destruct (lookup off c) as [[[n l]|]|] eqn:L.
  - split; [exact (Hc _ _ _ L)|split; [exact Hc|intros o H; exact H]].
  - split; [left; reflexivity|split; [exact Hc|intros o H; exact H]].
  - assert (Hc1 : cache_pos ((off, None) :: c)) by (apply cache_pos_cons; [exact Hc|exact I]).
    pose proof (scan_top buf off) as Sc.
    destruct (scan_labels (S (length buf)) buf off []) as [e|ls off'|ls poff].
    + split; [exact Sc|split; [exact Hc1|apply ext_cons]].
    + split; [cbn; lia|split].
      * apply cache_pos_cons; [exact Hc1|lia].
      * eapply ext_trans; apply ext_cons.
    + destruct (u16_at buf poff) as [p|].
      2:{ split; [left; reflexivity|split; [exact Hc1|apply ext_cons]]. }
      assert (Hf1 : free buf ((off, None) :: c) < f).
      { pose proof (free_mark buf c off None L ltac:(lia)). lia. }
      specialize (IH (ptr_target p) _ Hf1 Hc1).
      destruct (unpack_from_with_compression f buf (ptr_target p) ((off, None) :: c))
        as [[[label l2]|e] c2]; destruct IH as (R & P2 & E2); cbn [fst snd] in *.
      * split; [cbn; lia|split].
        -- apply cache_pos_cons; [exact P2|lia].
        -- eapply ext_trans; [|apply ext_cons]. eapply ext_trans; [apply ext_cons|exact E2].
      * split; [exact R|split; [exact P2|]]. eapply ext_trans; [apply ext_cons|exact E2].
Qed.

Lemma fwc_top buf off c : cache_pos c -> fwc_post c (unpack_fwc buf off c).
Proof. intros H. apply fwc_facts; [|exact H]. pose proof (free_bound buf c). lia. Qed.

(* ---------- pack ---------- *)
Lemma pack_err n e : pack n = Err e -> e = EAce \/ e = EValue \/ e = EUnicode.
Proof.
  unfold pack. destruct n as [|c n']; [discriminate|]. generalize (split_dot (c :: n')).
  intros parts. induction parts as [|p r IH]; cbn [pack_parts]; [discriminate|].
  unfold idna_encode. destruct p as [|x p'].
  - cbn. intros [= <-]. auto.
  - destruct (negb _); [intros [= <-]; auto|]. destruct (64 <=? length (x :: p')); [intros [= <-]; auto|].
    destruct (length (x :: p') =? 0); [intros [= <-]; auto|].
    destruct (64 <=? length (x :: p')); [intros [= <-]; auto|].
    destruct (pack_parts r); [discriminate|]. intros [= <-]. apply IH. reflexivity.
Qed.

(* ---------- decompress_from_record_data ---------- *)
Definition dec_post (c : cache) (rc : result bytes * cache) : Prop :=
  match fst rc with Ok _ => True | Err e => decode_err e end /\ cache_pos (snd rc).

Lemma decompress_loop_facts buf off end_data fuel : end_data <= length buf ->
  forall c data i s, cache_pos c -> 1 <= fuel -> end_data - off < fuel + i ->
  dec_post c (decompress_loop fuel buf off end_data c data i s).
Proof.
  intros He. induction fuel as [|f IH]; intros c data i s Hc H1 Hf.
  - exfalso. lia.
  - cbn [decompress_loop]. destruct (i <? end_data - off) eqn:E; [|split; [exact I|exact Hc]].
    apply Nat.ltb_lt in E.
    destruct (byte_at_lt buf (off + i) ltac:(lia)) as [b B]. rewrite B.
    destruct (is_ptr b); [|apply IH; [exact Hc|lia|lia]].
    pose proof (fwc_top buf (off + i) c Hc) as (R & P & _).
    destruct (unpack_fwc buf (off + i) c) as [[[nm l]|e] c']; cbn [fst snd] in *.
    + destruct (pack nm) eqn:Pk.
      * apply IH; [exact P|lia|lia].
      * split; [|exact P]. cbn. unfold decode_err. destruct (pack_err _ _ Pk) as [->|[->| ->]]; auto.
    + destruct e; try (split; [apply parse_decode; exact R|exact P]).
      apply IH; [exact P|lia|lia].
Qed.

Lemma decompress_facts buf off end_data c : end_data <= length buf -> cache_pos c ->
  dec_post c (decompress_from_record_data buf off end_data c).
Proof.
  intros He Hc. unfold decompress_from_record_data.
  apply decompress_loop_facts; [exact He|exact Hc|lia|lia].
Qed.

(* ---------- the message ---------- *)
Lemma unpack_domain_name_facts buf off c : cache_pos c ->
  match unpack_domain_name buf off c with
  | (Ok _, c') => cache_pos c'
  | (Err e, _) => parse_err e
  end.
Proof.
  intros Hc. unfold unpack_domain_name. pose proof (fwc_top buf off c Hc) as (R & P & _).
  destruct (unpack_fwc buf off c) as [[[n l]|e] c']; cbn [fst snd] in *; assumption.
Qed.

Lemma unpack_questions_facts count : forall buf off c, cache_pos c ->
  match unpack_questions count buf off c with
  | Ok (_, _, c') => cache_pos c'
  | Err e => parse_err e
  end.
Proof.
  induction count as [|k IH]; intros buf off c Hc; cbn [unpack_questions]; [exact Hc|].
  pose proof (unpack_domain_name_facts buf off c Hc) as D.
  destruct (unpack_domain_name buf off c) as [[[n off1]|e] c1]; [|exact D].
  destruct (skipn off1 buf) as [|t1 [|t2 [|c1b [|c2b tl]]]]; try (left; reflexivity).
  specialize (IH buf (off1 + 4) c1 D).
  destruct (unpack_questions k buf (off1 + 4) c1) as [[[qs o2] c2]|e]; exact IH.
Qed.

(* generic in the error class E produced by decompress_from_record_data on this buffer *)
Section Message.
Variable buf : bytes.
Variable E : pyexc -> Prop.
Hypothesis HE : forall e, parse_err e -> E e.
Hypothesis Hdec : forall off end_data c, end_data <= length buf -> cache_pos c ->
  match decompress_from_record_data buf off end_data c with
  | (Ok _, c') => cache_pos c'
  | (Err e, _) => E e
  end.

Lemma unpack_rrs_facts count : forall off c, cache_pos c ->
  match unpack_rrs count buf off c with
  | Ok (_, _, c') => cache_pos c'
  | Err e => E e
  end.
Proof.
  induction count as [|k IH]; intros off c Hc; cbn [unpack_rrs]; [exact Hc|].
  pose proof (unpack_domain_name_facts buf off c Hc) as D.
  destruct (unpack_domain_name buf off c) as [[[n off1]|e] c1]; [|apply HE, D].
  destruct (skipn off1 buf) as [|t1 [|t2 [|k1 [|k2 [|l1 [|l2 [|l3 [|l4 [|d1 [|d2 tl]]]]]]]]]];
    try (apply HE; left; reflexivity).
  destruct (length buf <? _) eqn:El; [apply HE; left; reflexivity|]. apply Nat.ltb_ge in El.
  destruct (record_data_can_have_compression (u16be t1 t2)).
  - pose proof (Hdec (off1 + 10) _ c1 El D) as R.
    destruct (decompress_from_record_data buf (off1 + 10) _ c1) as [[data|e] c2]; [|exact R].
    specialize (IH (off1 + 10 + N.to_nat (u16be d1 d2)) c2 R).
    destruct (unpack_rrs k buf _ c2) as [[[rs o3] c3]|e]; exact IH.
  - specialize (IH (off1 + 10 + N.to_nat (u16be d1 d2)) c1 D).
    destruct (unpack_rrs k buf _ c1) as [[[rs o3] c3]|e]; exact IH.
Qed.

Lemma unpack_total_gen :
  match DnsMessage.unpack buf with Ok _ => True | Err e => E e end.
Proof.
  unfold DnsMessage.unpack, DnsMessage.unpack_from.
  destruct (skipn 0 buf) as [|i1 [|i2 [|f1 [|f2 [|q1 [|q2 [|a1 [|a2 [|n1 [|n2 [|x1 [|x2 tl]]]]]]]]]]]];
    try (apply HE; left; reflexivity).
  pose proof (unpack_questions_facts (N.to_nat (u16be q1 q2)) buf (0 + 12) [] ltac:(intros o n l; discriminate)) as Q.
  destruct (unpack_questions _ buf (0 + 12) []) as [[[qs o1] c1]|e]; [|apply HE, Q].
  pose proof (unpack_rrs_facts (N.to_nat (u16be a1 a2)) o1 c1 Q) as A.
  destruct (unpack_rrs _ buf o1 c1) as [[[ans o2] c2]|e]; [|exact A].
  pose proof (unpack_rrs_facts (N.to_nat (u16be n1 n2)) o2 c2 A) as NS.
  destruct (unpack_rrs _ buf o2 c2) as [[[aut o3] c3]|e]; [|exact NS].
  pose proof (unpack_rrs_facts (N.to_nat (u16be x1 x2)) o3 c3 NS) as X.
  destruct (unpack_rrs _ buf o3 c3) as [[[add o4] c4]|e]; [|exact X].
  destruct (o4 =? length buf); [exact I|apply HE; left; reflexivity].
Qed.
End Message.

Theorem unpack_total buf :
  match DnsMessage.unpack buf with Ok _ => True | Err e => decode_err e end.
Proof.
  apply (unpack_total_gen buf decode_err parse_decode). intros off end_data c He Hc.
  pose proof (decompress_facts buf off end_data c He Hc) as (R & P).
  destruct (decompress_from_record_data buf off end_data c) as [[d|e] c']; assumption.
Qed.

(* a buffer without any byte >= 0xC0: pack() is never reached, only parse errors remain *)
Definition no_ptr_bytes (buf : bytes) : bool := forallb (fun b => negb (is_ptr b)) buf.

Lemma byte_at_in buf off b : byte_at buf off = Some b -> In b buf.
Proof.
  unfold byte_at. destruct (skipn off buf) eqn:Es; [discriminate|]. intros [= ->].
  rewrite <- (firstn_skipn off buf), Es. apply in_or_app. right. left. reflexivity.
Qed.

Lemma decompress_loop_plain buf off end_data c data : no_ptr_bytes buf = true ->
  forall fuel i s, exists r, decompress_loop fuel buf off end_data c data i s = (r, c)
    /\ (r = Ok data \/ r = Err EFuel \/ r = Err EIndex).
Proof.
  intros Hn. induction fuel as [|f IH]; intros i s; cbn [decompress_loop]; [eauto|].
  destruct (i <? end_data - off); [|eauto].
  destruct (byte_at buf (off + i)) eqn:B; [|eauto].
  apply byte_at_in in B. unfold no_ptr_bytes in Hn. rewrite forallb_forall in Hn.
  specialize (Hn _ B). apply negb_true_iff in Hn. rewrite Hn. apply IH.
Qed.

Theorem unpack_total_plain buf : no_ptr_bytes buf = true ->
  match DnsMessage.unpack buf with Ok _ => True | Err e => parse_err e end.
Proof.
  intros Hn. apply (unpack_total_gen buf parse_err (fun e H => H)). intros off end_data c He Hc.
  pose proof (decompress_facts buf off end_data c He Hc) as (R & P).
  unfold decompress_from_record_data in *.
  destruct (decompress_loop_plain buf off end_data c (firstn (end_data - off) (skipn off buf)) Hn
              (S (length buf)) 0 0%Z) as (r & Er & Hr).
  rewrite Er in *. cbn [fst snd] in *.
  destruct Hr as [->|[->| ->]]; [exact P| |]; unfold decode_err in R;
    destruct R as [R|[R|[R|R]]]; discriminate.
Qed.

Lemma unpack_name_total buf off c : cache_pos c ->
  match fst (unpack_fwc buf off c) with Ok _ => True | Err e => parse_err e end.
Proof.
  intros Hc. pose proof (fwc_top buf off c Hc) as (R & _).
  destruct (fst (unpack_fwc buf off c)) as [[n l]|e]; [exact I|exact R].
Qed.
