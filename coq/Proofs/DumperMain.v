(* Proofs/DumperMain.v -- C49 for the executable model of every Dumper hook: for all flows
   (all texts, all header lists, all option values) every token written is a harmless
   character or, when styling is on, one of the dumper's own SGR sequences. *)
From Coq Require Import List Bool NArith Lia String.
From MV Require Import Base.Bytes Model.Strutils Model.Dumper Proofs.DumperBase.
Import ListNotations.
Local Open Scope N_scope.

Ltac ok_lit := apply OK_lit; vm_compute; reflexivity.

Ltac ok_step :=
  match goal with
  | |- OK _ [] => apply OK_nil
  | |- OK _ (_ ++ _) => apply OK_app_intro
  | |- OK _ (style_ _ _ _) => apply OK_style
  | |- OK _ (echo _ _ _ _) => apply OK_echo
  | |- OK _ (esc _) => apply OK_esc
  | |- OK _ (b2e _) => apply OK_b2e
  | |- OK _ (P _) => ok_lit
  | |- OK _ (plain (dec _)) => apply OK_dec
  | |- OK _ (repeat (Ch 32) _) => apply OK_spaces
  | |- OK _ (if ?c then _ else _) => destruct c
  | |- OK _ (match ?x with _ => _ end) => destruct x
  end.
Ltac ok := repeat ok_step.

Lemma OK_fmt_client o c : OK (vt o) (fmt_client o c).
Proof. unfold fmt_client. ok. Qed.

Lemma OK_echo_headers o hs : OK (vt o) (echo_headers o hs).
Proof. unfold echo_headers. apply OK_flat_map. intros h _. ok. Qed.

Lemma OK_echo_trailers o tr : OK (vt o) (echo_trailers o tr).
Proof. unfold echo_trailers. destruct tr as [[|h hs]|]; ok; apply OK_echo_headers. Qed.

Lemma OK_echo_message o m : pm_ok m = true -> OK (vt o) (echo_message o m).
Proof.
  intro Hm. unfold echo_message. cbv zeta.
  ok_step; [|ok].
  destruct (if detail o =? 3 then cut_after_n_lines (prettify_message m) (cutoff o) else prettify_message m);
    [apply OK_nil|].
  ok_step; [ok|]. apply OK_echo. apply OK_flat_map. intros c Hc.
  apply OK_style. apply OK_plain. apply (chunks_ok m Hm c Hc).
Qed.

Lemma OK_request_line o r rs : OK (vt o) (echo_request_line o r rs).
Proof. unfold echo_request_line. cbv zeta. apply OK_echo. ok; apply OK_fmt_client. Qed.

Lemma OK_response_line o r x : resp_ok x = true -> OK (vt o) (echo_response_line o r x).
Proof.
  intro Hx. apply andb_true_iff in Hx as [_ Hsize].
  unfold echo_response_line. cbv zeta. apply OK_echo.
  ok.
  apply OK_plain. destruct (rs_size x); [exact Hsize | vm_compute; reflexivity].
Qed.

Lemma OK_matched o t : OK (vt o) t -> OK (vt o) (matched o t).
Proof. intro H. unfold matched. destruct (detail o =? 0); [apply OK_nil | exact H]. Qed.

Theorem http_ok o r rs err :
  pm_ok (rq_msg r) = true -> (forall x, rs = Some x -> resp_ok x = true) ->
  OK (vt o) (hook_http o r rs err).
Proof.
  intros Hq Hr. apply OK_matched. unfold echo_flow.
  ok_step; [|ok_step].
  - ok; try apply OK_request_line; try apply OK_echo_headers;
      try apply OK_echo_trailers. apply OK_echo_message, Hq.
  - destruct rs as [x|]; [|apply OK_nil]. specialize (Hr x eq_refl).
    ok; try apply OK_echo_headers; try apply OK_echo_trailers.
    + apply OK_response_line, Hr.
    + apply OK_echo_message. apply andb_true_iff in Hr as [Hr _]. exact Hr.
  - ok.
Qed.

Theorem websocket_message_ok o cl sv p fc it m :
  pm_ok m = true -> OK (vt o) (hook_websocket_message o cl sv p fc it m).
Proof. intro Hm. apply OK_matched. ok. apply OK_echo_message, Hm. Qed.

Theorem websocket_end_ok o code name bc reason sv :
  OK (vt o) (hook_websocket_end o code name bc reason sv).
Proof. apply OK_matched. ok. Qed.

Theorem proto_error_ok o tcp sv msg : OK (vt o) (hook_proto_error o tcp sv msg).
Proof. apply OK_matched. ok. Qed.

Theorem proto_message_ok o tcp fc cl sv q m :
  pm_ok m = true -> OK (vt o) (hook_proto_message o tcp fc cl sv q m).
Proof.
  intro Hm. unfold hook_proto_message. cbv zeta. apply OK_matched.
  ok. apply OK_echo_message, Hm.
Qed.

Lemma OK_dns_query o c op ty qn :
  ok_text op = true -> ok_text ty = true -> OK (vt o) (echo_dns_query o c op ty qn).
Proof.
  intros Hop Hty. unfold echo_dns_query. cbv zeta. apply OK_echo.
  ok; try apply OK_fmt_client.
  all: apply OK_plain; rewrite !ok_text_app, Hop, Hty; vm_compute; reflexivity.
Qed.

Theorem dns_response_ok o c op ty qn ans rc :
  ok_text op = true -> ok_text ty = true -> ok_text rc = true ->
  OK (vt o) (hook_dns_response o c op ty qn ans rc).
Proof.
  intros Hop Hty Hrc. apply OK_matched. ok_step; [apply OK_dns_query; assumption|].
  apply OK_echo. ok.
  - apply OK_plain, Hrc.
  - apply OK_join_tt; [ok_lit|]. intros x Hx. apply in_map_iff in Hx as [a [<- _]]. ok.
Qed.

Theorem dns_error_ok o c op ty qn msg :
  ok_text op = true -> ok_text ty = true -> OK (vt o) (hook_dns_error o c op ty qn msg).
Proof.
  intros Hop Hty. apply OK_matched. ok_step; [apply OK_dns_query; assumption | ok].
Qed.

(* ---- reading of OK on the stream that is really written *)
(* styling off: the stream itself contains no control character other than TAB, LF, CR *)
Lemma unstyled_stream t : OK false t -> forall c, In c (flatten t) -> is_cc c = false \/ is_spacing c = true.
Proof.
  intros H c Hc. unfold flatten in Hc. apply in_flat_map in Hc as [k [Hk Hin]].
  apply (proj1 (OK_In false t) H) in Hk. destruct k as [d|s]; [|discriminate].
  destruct Hin as [<-|[]]. cbn [ok_tok] in Hk. unfold okc in Hk.
  apply orb_true_iff in Hk as [Hk|Hk]; [left; apply negb_true_iff, Hk | right; exact Hk].
Qed.

(* styling on: every token is a harmless character or ESC [ digits m *)
Lemma styled_stream t : OK true t -> forall k, In k t ->
  match k with
  | Ch c => is_cc c = false \/ is_spacing c = true
  | Sgr s => exists d, s = [27; 91] ++ d ++ [109] /\ d <> [] /\ forallb is_digit_n d = true
  end.
Proof.
  intros H k Hk. apply (proj1 (OK_In true t) H) in Hk. destruct k as [c|s]; cbn [ok_tok andb] in Hk.
  - unfold okc in Hk. apply orb_true_iff in Hk as [Hk|Hk]; [left; apply negb_true_iff, Hk | right; exact Hk].
  - unfold own_sgr in Hk. destruct s as [|a [|b r]]; try discriminate.
    apply andb_true_iff in Hk as [Hab Hk]. apply andb_true_iff in Hab as [Ha Hb].
    apply N.eqb_eq in Ha. apply N.eqb_eq in Hb. subst a b.
    destruct (rev r) as [|l d] eqn:Er; [discriminate|].
    apply andb_true_iff in Hk as [Hk Hd]. apply andb_true_iff in Hk as [Hl Hne].
    apply N.eqb_eq in Hl. subst l.
    exists (rev d). split; [|split].
    + cbn [app]. f_equal. f_equal. rewrite <- (rev_involutive r), Er. reflexivity.
    + destruct d; [discriminate|]. cbn [rev]. intro E. apply app_eq_nil in E as [_ E]. discriminate.
    + rewrite forallb_forall in *. intros x Hx. apply Hd. apply in_rev. exact Hx.
Qed.

(* ---- non-vacuity: an HTTP flow whose every text field carries ESC, CSI (C1) and BEL *)
Definition evil : text := [27; 91; 50; 74; 155; 7; 10; 120].
Definition evil_b : bytes := [x1b; x5b; x32; x4a; x9b; x07].
Definition sample_msg : pmsg :=
  {| pm_raw := Some evil; pm_chunks := [(2, [46; 91; 50; 74]); (0, [46; 46; 10; 120])] |}.
Definition sample_req : req :=
  {| rq_client := CPeer evil; rq_pushed := true; rq_method := evil; rq_url := evil; rq_ver := evil;
     rq_headers := [(evil_b, evil_b)]; rq_msg := sample_msg; rq_trailers := Some [(evil_b, evil_b)] |}.
Definition sample_resp : resp :=
  {| rs_replay := true; rs_code := 418; rs_reason := evil; rs_reason_tbl := []; rs_size := Some [49; 98];
     rs_ver := evil; rs_headers := [(evil_b, evil_b)]; rs_msg := sample_msg; rs_trailers := None;
     rs_addr_len := 30 |}.
Definition sample_opts : opts := {| detail := 4; vt := true; cutoff := 2; term_limit := 50 |}.

Lemma sample_nonvacuous :
  pm_ok sample_msg = true /\ resp_ok sample_resp = true
  /\ existsb (N.eqb 27) evil = true
  /\ (200 <? N.of_nat (List.length (hook_http sample_opts sample_req (Some sample_resp) (Some evil))))%N = true
  /\ existsb (fun k => match k with Sgr _ => true | _ => false end)
       (hook_http sample_opts sample_req (Some sample_resp) (Some evil)) = true.
Proof. vm_compute. repeat split; reflexivity. Qed.

(* ---- the table before fixes/C49-c1-controls.diff (Model.Strutils keeps that model): C1 controls
   pass, and the repair changes nothing else *)
Definition is_c1 (c : N) : bool := (128 <=? c) && (c <=? 159).

Lemma prerepair_c1_passes : In 155 (Strutils.escape_control_characters [155] true) /\ is_cc 155 = true.
Proof. vm_compute. split; [left|]; reflexivity. Qed.

Lemma repair_only_c1 t ks : forallb (fun c => negb (is_c1 c)) t = true ->
  escape_control_characters t ks = Strutils.escape_control_characters t ks.
Proof.
  intro H. unfold escape_control_characters, Strutils.escape_control_characters. apply map_ext_in.
  intros c Hc. rewrite forallb_forall in H. specialize (H c Hc). apply negb_true_iff in H.
  unfold is_cc, is_c0_or_del. unfold is_c1 in H. rewrite H, orb_false_r. reflexivity.
Qed.
