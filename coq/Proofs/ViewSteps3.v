(* Proofs/ViewSteps3.v -- update (the flow object was mutated just before the call), and the step lemma. *)
From Coq Require Import List Bool Arith NArith ZArith Lia Permutation Sorted.
From MV Require Import Base.Bytes Model.View Proofs.ViewBase Proofs.ViewSpec Proofs.ViewPrim Proofs.ViewOps
  Proofs.ViewSteps Proofs.ViewSteps2.
Import ListNotations.

Definition mutated (f : flow) (s : state) : state := set_heap (hset (heap s) f) s.

Lemma update_post f s s' :
  let id := fid f in let s0 := mutated f s in
  Inv s -> In id (store s) -> upd s0 s' -> CoreV s' -> FocusOk s' ->
  (forall x, x <> id -> (In x (raw_ids s') <-> In x (raw_ids s))) ->
  (In id (raw_ids s') <-> shows s f = true) ->
  (forall k x, In (k, x) (view s') -> (x = id /\ k = generate (okey s) f) \/ (x <> id /\ In (k, x) (view s))) ->
  Inv s' /\ (M3 s -> M3 s') /\ (FreshV s -> FreshV s').
Proof.
  intros id s0 I Hst U C F Hm Hid Hc. pose proof (u_cfg _ _ U) as Cf.
  assert (At : forall x, attr s' x = if N.eqb id x then f else attr s x).
  { intros x. rewrite (attr_cfg _ _ x Cf). unfold attr, s0, mutated. simpl. apply hget_hset. }
  assert (Atid : attr s' id = f) by (rewrite At, N.eqb_refl; reflexivity).
  assert (Atne : forall x, x <> id -> attr s' x = attr s x).
  { intros x H. rewrite At. destruct (N.eqb id x) eqn:E; [apply N.eqb_eq in E; congruence | reflexivity]. }
  assert (Fl : filt s' = filt s) by apply (ce_filt _ _ Cf).
  assert (Sm : show_marked s' = show_marked s) by apply (ce_sm _ _ Cf).
  assert (St : store s' = store s) by apply (ce_store _ _ Cf).
  split; [|split].
  - constructor; auto.
    + intros x H. rewrite St. destruct (u_ids _ _ U _ H) as [H1|H1]; [apply (i_sids _ I); exact H1 | exact H1].
    + intros x H. rewrite Fl. destruct (N.eq_dec x id) as [->|Hne].
      * rewrite Atid. apply Hid in H. apply shows_true in H. apply H.
      * rewrite Atne by exact Hne. apply (i_m1 _ I). apply Hm; assumption.
    + intros x H Hw. rewrite St in H. unfold wanted in Hw. rewrite Fl, Sm in Hw. destruct (N.eq_dec x id) as [->|Hne].
      * rewrite Atid in Hw. apply Hid. unfold shows. destruct (show_marked s), (fmarked f); exact Hw.
      * rewrite Atne in Hw by exact Hne. apply Hm; [exact Hne|]. apply (i_m2 _ I); assumption.
  - intros H3 Hs x H. rewrite Sm in Hs. destruct (N.eq_dec x id) as [->|Hne].
    + rewrite Atid. apply Hid in H. apply shows_true in H. apply H. exact Hs.
    + rewrite Atne by exact Hne. apply H3; [exact Hs|]. apply Hm; assumption.
  - intros Fr k x H. rewrite (ce_okey _ _ Cf). change (okey s0) with (okey s).
    destruct (Hc _ _ H) as [[-> ->]|[Hne Hin]]; [rewrite Atid; reflexivity | rewrite Atne by exact Hne; apply Fr; exact Hin].
Qed.

Lemma do_update f s : Inv s -> log s = [] -> exists s', do_op (Update f) s = Ok (tt, s') /\ post (Update f) s s'.
Proof.
  intros I L. simpl. unfold mutate, update. simpl forM. msimp.
  fold (mutated f s). set (id := fid f) in *. set (s0 := mutated f s).
  pose proof (i_core _ I) as C.
  assert (C0 : CoreV s0) by (apply (CoreV_same s); auto).
  assert (R0 : raw_ids s0 = raw_ids s) by reflexivity.
  assert (Atid : attr s0 id = f).
  { unfold attr, s0, mutated. simpl. rewrite hget_hset. unfold id. rewrite N.eqb_refl. reflexivity. }
  assert (Atne : forall x, x <> id -> attr s0 x = attr s x).
  { intros x H. unfold attr, s0, mutated. simpl. rewrite hget_hset.
    destruct (N.eqb (fid f) x) eqn:E; [apply N.eqb_eq in E; unfold id in H; congruence | reflexivity]. }
  assert (Vst : forall x, In x (raw_ids s) -> In x (store s)).
  { intros x H. apply in_ids_split in H as [k H]. apply (c_cached _ C _ _ H). }
  destruct (memN id (store s0)) eqn:Em.
  2:{ (* the flow is not stored: nothing happens *)
    apply memN_false in Em. change (store s0) with (store s) in Em.
    exists s0. split; [reflexivity|].
    assert (Ne : forall x, In x (store s) -> x <> id) by (intros x H ->; auto).
    split; [|split; [|split]].
    - constructor; auto.
      + apply (i_sids _ I).
      + apply (i_focus _ I).
      + intros x H. rewrite Atne by (apply Ne, Vst, H). apply (i_m1 _ I). exact H.
      + intros x H Hw. unfold wanted in Hw. rewrite Atne in Hw by (apply Ne, H). apply (i_m2 _ I); assumption.
    - intros H3 Hs x H. rewrite Atne by (apply Ne, Vst, H). apply H3; assumption.
    - intros Fr k x H. change (okey s0) with (okey s). rewrite Atne; [apply Fr; exact H|].
      apply Ne, Vst. eapply in_ids; eauto.
    - change (log s0) with (log s). rewrite L. apply n_done. reflexivity. }
  apply memN_In in Em. change (store s0) with (store s) in Em.
  rewrite bind_ret_r. msimp.
  rewrite Atid. change (shows s0 f) with (shows s f).
  assert (Fin : forall s', (exists l, log s' = l /\ notif (raw_ids s) l (raw_ids s')) ->
            (Inv s' /\ (M3 s -> M3 s') /\ (FreshV s -> FreshV s')) ->
            post (Update f) s s').
  { intros s' (l & <- & Hn) (A & B & D). split; [exact A | split; [exact B | split; [exact D | exact Hn]]]. }
  destruct (shows s f) eqn:Emf.
  - destruct (view_contains_spec id s0 C0) as (b & s1 & E1 & X1 & Hb). rewrite (bind_ok _ _ _ _ _ E1).
    assert (C1 : CoreV s1) by (apply (CoreV_updm s0 s1); [apply (e_updm _ _ X1) | apply (e_view _ _ X1) | exact C0]).
    assert (R1 : raw_ids s1 = raw_ids s) by (unfold raw_ids; rewrite (e_view _ _ X1); reflexivity).
    pose proof (u_cfg _ _ (um_upd _ _ (e_updm _ _ X1))) as Cf1.
    destruct b; cbn [negb].
    + (* shown already: refresh its key *)
      assert (Hin : In id (raw_ids s)) by (apply Hb; reflexivity).
      msimp.
      assert (F1 : FocusOk s1).
      { eapply FocusOk_eq; [apply (e_view _ _ X1) | apply (e_focus _ _ X1) | apply (i_focus _ I)]. }
      destruct (okey_refresh_spec id s1 C1) as (s2 & E2 & U2 & C2 & P2 & F2 & L2 & Hv2); [rewrite R1; exact Hin | exact F1 |].
      rewrite (bind_ok _ _ _ _ _ E2). unfold send_view_update, emit, modify.
      eexists. split; [reflexivity|].
      set (s3 := set_log (log s2 ++ [ViewUpdate id]) s2).
      assert (U : upd s0 s3).
      { eapply upd_trans; [apply (um_upd _ _ (e_updm _ _ X1))|]. eapply upd_trans; [exact U2|].
        apply (um_upd _ _ (updm_same_settings s2 s3 ltac:(constructor; reflexivity) eq_refl)). }
      assert (Mem : forall x, In x (raw_ids s3) <-> In x (raw_ids s)).
      { intros x. change (raw_ids s3) with (raw_ids s2). rewrite <- R1. split; intros H.
        - eapply Permutation_in; [exact P2 | exact H].
        - eapply Permutation_in; [symmetry; exact P2 | exact H]. }
      assert (O1 : okey s1 = okey s) by apply (ce_okey _ _ Cf1).
      apply Fin.
      * eexists. split; [reflexivity|]. change (log s3) with (log s2 ++ [ViewUpdate id]).
        assert (P : Permutation (raw_ids s) (raw_ids s3)).
        { change (raw_ids s3) with (raw_ids s2). rewrite <- R1. symmetry. exact P2. }
        destruct L2 as [L2|L2]; rewrite L2, (e_log _ _ X1); change (log s0) with (log s); rewrite L; simpl.
        { apply (n_update id _ (raw_ids s3)); [exact Hin | exact P | apply n_done; reflexivity]. }
        { apply (n_refresh _ (raw_ids s3)). apply (n_update id _ (raw_ids s3)); [apply Mem; exact Hin | reflexivity | apply n_done; reflexivity]. }
      * apply (update_post f s s3 I Em U).
        { apply (CoreV_same s2); auto. }
        { exact F2. }
        { intros x _. apply Mem. }
        { split; [intros _; exact Emf | intros _; apply Mem; exact Hin]. }
        { intros k x H. change (view s3) with (view s2) in H. destruct (Hv2 _ _ H) as [[-> ->]|[Hne Hi]].
          - left. split; [reflexivity|]. rewrite O1, (attr_cfg _ _ id Cf1), Atid. reflexivity.
          - right. split; [exact Hne|]. rewrite (e_view _ _ X1) in Hi. exact Hi. }
    + (* not shown yet: show it *)
      assert (Hn : ~ In id (raw_ids s)) by (intros H; apply Hb in H; discriminate).
      change (_base_add id ;;; ff <- gets focus_follow ;; (if ff then focus_set_flow (Some id) else ret tt) ;;; send_view_add id)
        with (show_flow id).
      assert (Hst1 : In id (store s1)) by (rewrite (ce_store _ _ Cf1); exact Em).
      assert (Hf1 : forall g, focus s1 = Some g -> In g (raw_ids s1)).
      { intros g Hg. rewrite (e_focus _ _ X1) in Hg. rewrite R1. pose proof (i_focus _ I) as F. unfold FocusOk in F.
        change (focus s0) with (focus s) in Hg. rewrite Hg in F. exact F. }
      destruct (show_flow_spec id s1 C1 Hst1) as (s2 & E2 & U2 & C2 & F2 & P2 & L2 & _ & V2); [rewrite R1; exact Hn | exact Hf1 |].
      exists s2. split; [exact E2|].
      assert (U : upd s0 s2) by (eapply upd_trans; [apply (um_upd _ _ (e_updm _ _ X1)) | exact U2]).
      rewrite R1 in P2.
      apply Fin.
      * eexists. split; [reflexivity|]. rewrite L2, (e_log _ _ X1). change (log s0) with (log s). rewrite L. simpl.
        apply (n_add id _ (raw_ids s2)); [exact Hn | symmetry; exact P2 | apply n_done; reflexivity].
      * apply (update_post f s s2 I Em U C2 F2).
        { intros x Hne. split; intros H.
          - apply (Permutation_in _ P2) in H. destruct H as [H|H]; [exfalso; apply Hne; symmetry; exact H | exact H].
          - apply (Permutation_in _ (Permutation_sym P2)). right. exact H. }
        { split; [intros _; exact Emf | intros _; apply (Permutation_in _ (Permutation_sym P2)); left; reflexivity]. }
        { intros k x H. rewrite V2 in H. apply (Permutation_in _ (sl_add_perm _ _ _)) in H. destruct H as [H|H].
          - injection H as <- <-. left. split; [reflexivity|]. rewrite (ce_okey _ _ Cf1), (attr_cfg _ _ id Cf1), Atid. reflexivity.
          - rewrite (e_view _ _ X1) in H. right. split; [intros ->; apply Hn; eapply in_ids; eauto | exact H]. }
  - destruct (view_find_spec id s0 C0) as (r & s1 & E1 & X1 & Hs & Hnone). rewrite (bind_ok _ _ _ _ _ E1).
    assert (C1 : CoreV s1) by (apply (CoreV_updm s0 s1); [apply (e_updm _ _ X1) | apply (e_view _ _ X1) | exact C0]).
    assert (R1 : raw_ids s1 = raw_ids s) by (unfold raw_ids; rewrite (e_view _ _ X1); reflexivity).
    assert (F1 : FocusOk s1).
    { eapply FocusOk_eq; [apply (e_view _ _ X1) | apply (e_focus _ _ X1) | apply (i_focus _ I)]. }
    destruct r as [idx|].
    + (* shown but no longer matching: take it out of the view *)
      assert (Hnth : nth_error (raw_ids s) idx = Some id) by (apply Hs; reflexivity).
      assert (Hin : In id (raw_ids s)) by (eapply nth_error_In; eauto).
      destruct (view_remove_spec id s1 C1) as (s2 & E2 & U2 & F2 & L2 & k & l1 & l2 & V1 & V2); [rewrite R1; exact Hin|].
      rewrite (bind_ok _ _ _ _ _ E2).
      destruct (CoreV_remove s1 s2 k id l1 l2 C1 U2 V1 V2) as (C2 & Hn2 & P2). rewrite R1 in P2.
      assert (Hf2 : match focus s2 with Some g => g = id \/ In g (raw_ids s2) | None => False end).
      { rewrite F2, (e_focus _ _ X1). change (focus s0) with (focus s).
        pose proof (i_focus _ I) as F. unfold FocusOk in F. destruct (focus s) as [g|].
        - destruct (N.eq_dec g id) as [->|Hne]; [left; reflexivity | right; apply (in_perm_cons _ _ _ _ P2 Hne); exact F].
        - unfold raw_ids in Hin. rewrite F in Hin. destruct Hin. }
      destruct (send_view_remove_spec id idx s2 C2 Hf2) as (s3 & E3 & X3 & F3).
      exists s3. split; [exact E3|].
      assert (U : upd s0 s3).
      { eapply upd_trans; [apply (um_upd _ _ (e_updm _ _ X1))|].
        eapply upd_trans; [apply (um_upd _ _ U2) | apply (um_upd _ _ (sn_updm _ _ _ X3))]. }
      assert (R3 : raw_ids s3 = raw_ids s2) by apply (sent_raw_ids _ _ _ X3).
      apply Fin.
      * eexists. split; [reflexivity|]. rewrite (sn_log _ _ _ X3), L2, (e_log _ _ X1). change (log s0) with (log s). rewrite L. simpl.
        apply (n_remove id idx _ (raw_ids s2)); [exact Hnth | exact P2 | exact Hn2 | apply n_done; rewrite R3; reflexivity].
      * apply (update_post f s s3 I Em U (sent_CoreV _ _ _ X3 C2) F3).
        { intros x Hne. rewrite R3. apply (in_perm_cons _ _ _ _ P2 Hne). }
        { split; [intros H; rewrite R3 in H; contradiction | intros H; congruence]. }
        { intros k' x H. rewrite (sn_view _ _ _ X3), V2 in H. right.
          split; [intros ->; apply Hn2; unfold raw_ids; rewrite V2; eapply in_ids; eauto|].
          change (view s) with (view s0). rewrite <- (e_view _ _ X1), V1. apply in_app_iff in H. apply in_or_app. simpl. tauto. }
    + (* hidden and still not matching *)
      assert (Hn : ~ In id (raw_ids s)) by (apply Hnone; reflexivity).
      exists s1. split; [reflexivity|].
      apply Fin.
      * eexists. split; [reflexivity|]. rewrite (e_log _ _ X1). change (log s0) with (log s). rewrite L.
        apply n_done. rewrite R1. reflexivity.
      * apply (update_post f s s1 I Em (um_upd _ _ (e_updm _ _ X1)) C1 F1).
        { intros x _. rewrite R1. tauto. }
        { split; [intros H; rewrite R1 in H; contradiction | intros H; congruence]. }
        { intros k x H. rewrite (e_view _ _ X1) in H. right. split; [intros ->; apply Hn; eapply in_ids; eauto | exact H]. }
Qed.

(* ---------- every operation ---------- *)
Lemma do_op_ok o s : Inv s -> log s = [] -> exists s', do_op o s = Ok (tt, s') /\ post o s s'.
Proof.
  destruct o.
  - apply do_add.
  - apply do_update.
  - apply do_remove.
  - apply do_set_filter.
  - apply do_set_order.
  - apply do_set_reversed.
  - apply do_toggle_marked.
  - apply do_clear.
  - apply do_clear_not_marked.
  - apply do_focus_follow.
Qed.
