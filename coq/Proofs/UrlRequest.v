(* Proofs/UrlRequest.v -- Request-level facts: header rewriting, _update_host_and_authority,
   the url setter/getter fixpoint, edit histories, and what the Host header then denotes. *)
From Coq Require Import List Bool Arith NArith ZArith Lia.
From MV Require Import Base.Bytes Model.Url Proofs.UrlLemmas Proofs.UrlDec Proofs.UrlParse.
Import ListNotations.

(* ---------- MultiDict.set_all with one value ---------- *)
Section Headers.
Variables k v : bytes.

Lemma get_all_nil_has h : get_all k h = [] -> has_header k h = false.
Proof.
  unfold get_all, has_header. induction h as [|f r IH]; simpl; [reflexivity|].
  destruct (key_is k f); simpl; [discriminate | exact IH].
Qed.

Lemma go_absent placed h : has_header k h = false -> set_header_go k v placed h = (h, placed).
Proof.
  unfold has_header. revert placed. induction h as [|f r IH]; simpl; intros placed H; [reflexivity|].
  apply orb_false_iff in H as [H1 H2]. rewrite H1, (IH _ H2). reflexivity.
Qed.

Lemma go_true h :
  snd (set_header_go k v true h) = true /\ get_all k (fst (set_header_go k v true h)) = [].
Proof.
  induction h as [|f r [IH1 IH2]]; simpl; [auto|].
  destruct (key_is k f) eqn:E; [auto|].
  destruct (set_header_go k v true r) as [r' p] eqn:G. simpl in *. subst.
  unfold get_all in *. simpl. rewrite E. auto.
Qed.

Lemma go_false_present h : has_header k h = true ->
  snd (set_header_go k v false h) = true /\ get_all k (fst (set_header_go k v false h)) = [v].
Proof.
  unfold has_header. induction h as [|f r IH]; simpl; intros H; [discriminate|].
  destruct (key_is k f) eqn:E.
  - destruct (go_true r) as [G1 G2]. destruct (set_header_go k v true r) as [r' p]. simpl in *.
    split; [reflexivity|]. unfold get_all in *. simpl.
    assert (key_is k (fst f, v) = true) as E' by exact E. rewrite E'. simpl. rewrite G2. reflexivity.
  - simpl in H. destruct (IH H) as [I1 I2]. destruct (set_header_go k v false r) as [r' p]. simpl in *.
    split; [exact I1|]. unfold get_all in *. simpl. rewrite E. exact I2.
Qed.

Lemma set_header_present h : has_header k h = true ->
  get_all k (set_header k v h) = [v] /\ has_header k (set_header k v h) = true.
Proof.
  intros H. unfold set_header. destruct (go_false_present h H) as [G1 G2].
  destruct (set_header_go k v false h) as [h' p]. simpl in *. subst. split; [exact G2|].
  destruct (has_header k h') eqn:E; [reflexivity|].
  pose proof (go_absent false h' E). unfold has_header, get_all in *.
  clear - G2 E. induction h' as [|f r IH]; simpl in *; [discriminate|].
  apply orb_false_iff in E as [E1 E2]. rewrite E1 in G2. auto.
Qed.

Lemma go_false_fix h : get_all k h = [v] -> set_header_go k v false h = (h, true).
Proof.
  unfold get_all. induction h as [|f r IH]; simpl; intros H; [discriminate|].
  destruct (key_is k f) eqn:E; simpl in H.
  - inversion H as [[H1 H2]]. rewrite H1.
    rewrite (go_absent true r (get_all_nil_has r H2)). destruct f; simpl in *. subst. reflexivity.
  - rewrite (IH H). reflexivity.
Qed.

Lemma set_header_fix h : get_all k h = [v] -> set_header k v h = h.
Proof. intros H. unfold set_header. rewrite (go_false_fix h H). reflexivity. Qed.

End Headers.

(* ---------- record plumbing ---------- *)
Lemma with_scheme_same r : with_scheme r (r_scheme r) = r. Proof. destruct r; reflexivity. Qed.
Lemma with_host_same r : with_host r (r_host r) = r. Proof. destruct r; reflexivity. Qed.
Lemma with_port_same r : with_port r (r_port r) = r. Proof. destruct r; reflexivity. Qed.
Lemma with_path_same r : with_path r (r_path r) = r. Proof. destruct r; reflexivity. Qed.

Section Req.
Variable ace : bytes -> option str.
Variable uenc : str -> option bytes.

Notation U := (update_host_and_authority uenc).

Definition dest_text (r : request) : bytes := hostport (r_scheme r) (r_host r) (r_port r).

(* an existing Host header and a non-empty authority both spell the current destination *)
Definition consistent (r : request) : Prop :=
  (has_header s_Host (r_headers r) = true -> get_all s_Host (r_headers r) = [dest_text r])
  /\ (r_authority r <> [] -> r_authority r = encode_authority uenc (dest_text r)).

Lemma U_fields r :
  r_scheme (U r) = r_scheme r /\ r_host (U r) = r_host r /\ r_port (U r) = r_port r
  /\ r_path (U r) = r_path r /\ r_h2 (U r) = r_h2 r /\ r_connect (U r) = r_connect r.
Proof.
  unfold update_host_and_authority. destruct r as [s h p pa a hs h2 c]. cbn [r_scheme r_host r_port r_headers].
  destruct (has_header s_Host hs); cbn; destruct (is_nil a); cbn; auto 10.
Qed.

Lemma U_dest r : dest_text (U r) = dest_text r.
Proof. unfold dest_text. destruct (U_fields r) as (-> & -> & -> & _). reflexivity. Qed.

Lemma U_consistent r : consistent (U r).
Proof.
  unfold consistent. rewrite U_dest. unfold dest_text, update_host_and_authority.
  destruct r as [s h p pa a hs h2 c]. cbn [r_scheme r_host r_port r_headers].
  set (v := hostport s h p).
  destruct (has_header s_Host hs) eqn:HH; cbn; destruct (is_nil a) eqn:NA; cbn.
  - split; [intros _; apply set_header_present; exact HH | apply is_nil_true in NA; congruence].
  - split; [intros _; apply set_header_present; exact HH | reflexivity].
  - split; [intros X; change (has_header s_Host hs = true) in X; congruence | apply is_nil_true in NA; congruence].
  - split; [intros X; change (has_header s_Host hs = true) in X; congruence | reflexivity].
Qed.

(* a consistent request is a fixpoint of the update *)
Lemma U_fix r : consistent r -> U r = r.
Proof.
  unfold consistent, dest_text, update_host_and_authority.
  destruct r as [s h p pa a hs h2 c]. cbn [r_scheme r_host r_port r_headers r_authority].
  set (v := hostport s h p). intros [C1 C2].
  destruct (has_header s_Host hs) eqn:HH.
  - rewrite (set_header_fix _ _ _ (C1 eq_refl)). cbn.
    destruct (is_nil a) eqn:NA; cbn; [reflexivity|].
    apply is_nil_false in NA. rewrite <- (C2 NA). reflexivity.
  - cbn. destruct (is_nil a) eqn:NA; cbn; [reflexivity|].
    apply is_nil_false in NA. rewrite <- (C2 NA). reflexivity.
Qed.

Lemma with_path_consistent r pa : consistent r -> consistent (with_path r pa).
Proof. destruct r; exact (fun H => H). Qed.

(* ---------- url.parse results always decode ---------- *)
Lemma parse_host_decodes u s hb p pa :
  parse ace uenc u = Some (s, hb, p, pa) -> is_valid_host_b ace hb = true.
Proof.
  unfold parse. destruct (negb (all_ascii u)); [discriminate|].
  destruct (urlparse u) as [[[[[[s0 nl] path] params] q] f]|]; [|discriminate].
  destruct (hostname nl) as [hn|]; [|discriminate].
  destruct (idna_encode uenc hn) as [host|]; [|discriminate].
  destruct (port_of nl) as [po|]; [|discriminate].
  destruct (is_valid_host_b ace host) eqn:V; [|discriminate].
  intros H. inversion H; subst. exact V.
Qed.

Lemma valid_host_decodes hb : is_valid_host_b ace hb = true -> exists h, idna_decode ace hb = Some h.
Proof. unfold is_valid_host_b. destruct (idna_decode ace hb) as [h|]; [eauto | discriminate]. Qed.

(* shape of a successful url assignment; a failing one assigns nothing *)
Lemma set_url_shape r u :
  match parse ace uenc u with
  | None => set_url ace uenc r u = (r, false)
  | Some (s, hb, p, pa) =>
      exists h, idna_decode ace hb = Some h /\
        set_url ace uenc r u = (with_path (U (with_port (U (with_host (with_scheme r s) h)) p)) pa, true)
  end.
Proof.
  unfold set_url. destruct (parse ace uenc u) as [[[[s hb] p] pa]|] eqn:P; [|reflexivity].
  destruct (valid_host_decodes hb (parse_host_decodes _ _ _ _ _ P)) as [h D].
  exists h. split; [exact D|]. unfold set_host_bytes. rewrite D. reflexivity.
Qed.

Lemma set_url_ok_consistent r u r1 : set_url ace uenc r u = (r1, true) -> consistent r1.
Proof.
  pose proof (set_url_shape r u) as S.
  destruct (parse ace uenc u) as [[[[s hb] p] pa]|].
  - destruct S as (h & _ & ->). intros H. inversion H; subst.
    apply with_path_consistent, U_consistent.
  - rewrite S. discriminate.
Qed.

Lemma set_url_fail_unchanged r u r1 : set_url ace uenc r u = (r1, false) -> r1 = r.
Proof.
  pose proof (set_url_shape r u) as S.
  destruct (parse ace uenc u) as [[[[s hb] p] pa]|].
  - destruct S as (h & _ & ->). discriminate.
  - rewrite S. congruence.
Qed.

(* ---------- edits ---------- *)
Theorem step_ok_consistent r o r1 : step ace uenc r o = (r1, true) -> consistent r1.
Proof.
  destruct o as [u|h|hb|p]; simpl.
  - apply set_url_ok_consistent.
  - intros H. inversion H. apply U_consistent.
  - unfold set_host_bytes. destruct (idna_decode ace hb); intros H; inversion H. apply U_consistent.
  - intros H. inversion H. apply U_consistent.
Qed.

Lemma step_fail_unchanged r o r1 : step ace uenc r o = (r1, false) -> r1 = r.
Proof.
  destruct o as [u|h|hb|p]; simpl; try discriminate.
  - apply set_url_fail_unchanged.
  - unfold set_host_bytes. destruct (idna_decode ace hb); intros H; inversion H. reflexivity.
Qed.

Theorem run_consistent ops : forall r, consistent r -> consistent (run ace uenc r ops).
Proof.
  unfold run. induction ops as [|o ops IH]; simpl; intros r C; [exact C|].
  apply IH. destruct (step ace uenc r o) as [r1 [|]] eqn:S; simpl.
  - apply (step_ok_consistent _ _ _ S).
  - rewrite (step_fail_unchanged _ _ _ S). exact C.
Qed.

(* after the last successful edit of a history the request is consistent, whatever it was before *)
Theorem run_last_ok_consistent ops1 o ops2 r :
  snd (step ace uenc (run ace uenc r ops1) o) = true ->
  consistent (run ace uenc r (ops1 ++ o :: ops2)).
Proof.
  intros H. unfold run. rewrite fold_left_app. simpl. apply run_consistent.
  fold (run ace uenc r ops1). destruct (step ace uenc (run ace uenc r ops1) o) as [r1 b] eqn:S.
  simpl in H. subst. apply (step_ok_consistent _ _ _ S).
Qed.

(* ---------- the url getter/setter fixpoint ---------- *)
Lemma wf_path_not_star path : wf_path path -> bytes_eqb path [cSTAR] = false.
Proof. intros (H & _). destruct (starts_slash _ H) as [t ->]. reflexivity. Qed.

Theorem url_fixpoint r :
  consistent r -> r_connect r = false ->
  wf_dest ace (r_scheme r) (r_host r) (r_port r) -> wf_path (r_path r) ->
  idna_decode ace (r_host r) = Some (r_host r) ->
  set_url ace uenc r (get_url r) = (r, true).
Proof.
  intros C NC WF WP D.
  pose proof (set_url_shape r (get_url r)) as S.
  unfold get_url in S. rewrite NC, (wf_path_not_star _ WP) in S.
  rewrite (parse_unparse ace uenc _ _ _ _ WF WP) in S.
  destruct S as (h & D' & E). rewrite D in D'. inversion D'; subst h.
  unfold get_url. rewrite NC, (wf_path_not_star _ WP), E.
  rewrite with_scheme_same, with_host_same, (U_fix r C), with_port_same, (U_fix r C), with_path_same.
  reflexivity.
Qed.

(* assigning a well-formed URL: every component reads back, the URL reads back verbatim,
   and assigning what was read changes nothing *)
Theorem url_roundtrip r s h p path :
  r_connect r = false -> wf_dest ace s h p -> wf_path path -> idna_decode ace h = Some h ->
  exists r1, set_url ace uenc r (unparse s h p path) = (r1, true)
    /\ r_scheme r1 = s /\ r_host r1 = h /\ r_port r1 = p /\ r_path r1 = path
    /\ get_url r1 = unparse s h p path
    /\ consistent r1
    /\ set_url ace uenc r1 (get_url r1) = (r1, true).
Proof.
  intros NC WF WP D.
  pose proof (set_url_shape r (unparse s h p path)) as S.
  rewrite (parse_unparse ace uenc _ _ _ _ WF WP) in S.
  destruct S as (h' & D' & E). rewrite D in D'. inversion D'; subst h'.
  set (r1 := with_path (U (with_port (U (with_host (with_scheme r s) h)) p)) path) in *.
  assert (r_scheme r1 = s /\ r_host r1 = h /\ r_port r1 = p /\ r_path r1 = path /\ r_connect r1 = false) as F.
  { unfold r1.
    destruct (U_fields (with_port (U (with_host (with_scheme r s) h)) p)) as (F1 & F2 & F3 & _ & _ & F6).
    destruct (U_fields (with_host (with_scheme r s) h)) as (G1 & G2 & _ & _ & _ & G6).
    destruct r as [s0 h0 p0 pa0 a0 hs0 h20 c0]. cbn in NC. subst c0.
    destruct (U (with_port (U (with_host (with_scheme (mkReq s0 h0 p0 pa0 a0 hs0 h20 false) s) h)) p)) eqn:EU.
    destruct (U (with_host (with_scheme (mkReq s0 h0 p0 pa0 a0 hs0 h20 false) s) h)) eqn:EU2.
    cbn in *. subst. auto. }
  destruct F as (F1 & F2 & F3 & F4 & F5).
  assert (consistent r1) as C by (apply with_path_consistent, U_consistent).
  assert (get_url r1 = unparse s h p path) as G.
  { unfold get_url. rewrite F5, F1, F2, F3, F4, (wf_path_not_star _ WP). reflexivity. }
  exists r1. split; [exact E|]. do 4 (split; [assumption|]). split; [exact G|]. split; [exact C|].
  apply url_fixpoint; auto; rewrite ?F1, ?F2, ?F3, ?F4; auto.
Qed.

End Req.
