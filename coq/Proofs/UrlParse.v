(* Proofs/UrlParse.v -- url.parse inverts url.unparse on well-formed destinations:
   the urllib splitter, the hostname/port accessors and the validity checks all see
   exactly the components the URL was built from. *)
From Coq Require Import List Bool Arith NArith ZArith Lia.
From MV Require Import Base.Bytes Model.Url Proofs.UrlLemmas Proofs.UrlDec.
Import ListNotations.

(* character classes *)
Definition nl_char (b : byte) : bool :=
  negb (is_delim b) && negb (unsafe b) && is_ascii b && negb (byte_eqb b cAT).
Definition host_char (b : byte) : bool := nl_char b && negb (byte_eqb b cRBR).
Definition path_char (b : byte) : bool := is_ascii b && negb (unsafe b).
Definition pt_char (b : byte) : bool := is_digit b || byte_eqb b cCOLON.

Definition port_tail (s : bytes) (p : Z) : bytes :=
  match default_port s with
  | Some d => if (d =? p)%Z then [] else cCOLON :: dec_of_Z p
  | None => cCOLON :: dec_of_Z p
  end.

Lemma hostport_eq s h p : hostport s h p = bracket h ++ port_tail s p.
Proof.
  unfold hostport, port_tail.
  destruct (default_port s) as [d|]; [destruct (d =? p)%Z|]; rewrite ?app_nil_r; reflexivity.
Qed.

(* what url.parse makes of the text after the authority *)
Definition reparse_path (p : bytes) : bytes :=
  let '(p1, q, f) := split_fq p in
  let '(pp, params) := split_params_of s_http p1 in
  let full := unparse_path pp params q f in
  if starts_with [cSLASH] full then full else cSLASH :: full.

Definition http_scheme (s : bytes) : Prop := s = s_http \/ s = s_https.

Definition wf_path (path : bytes) : Prop :=
  starts_with [cSLASH] path = true /\ forallb path_char path = true /\ reparse_path path = path.

Lemma pt_char_tail s p : (0 <= p)%Z -> forallb pt_char (port_tail s p) = true.
Proof.
  intros Hp. destruct (dec_of_Z_spec p Hp) as (F & _ & _).
  assert (forallb pt_char (cCOLON :: dec_of_Z p) = true) as H.
  { simpl. apply (forallb_imp is_digit pt_char); [vm_compute; reflexivity | exact F]. }
  unfold port_tail. destruct (default_port s) as [d|]; [destruct (d =? p)%Z|]; auto.
Qed.

Lemma mem_false_of (P : byte -> bool) c l :
  P c = false -> forallb P l = true -> mem c l = false.
Proof.
  intros Hc H. induction l as [|x l IH]; simpl in *; [reflexivity|].
  apply andb_true_iff in H as [H1 H2]. rewrite (IH H2), orb_false_r.
  destruct (byte_eqb c x) eqn:E; [|reflexivity]. apply byte_eqb_eq in E. subst. congruence.
Qed.

Section WithCodec.
Variable ace : bytes -> option str.
Variable uenc : str -> option bytes.

(* a destination whose URL spelling url.parse reads back unchanged *)
Record wf_dest (s h : bytes) (p : Z) : Prop := {
  wf_scheme : http_scheme s;
  wf_nonempty : h <> [];
  wf_chars : forallb host_char h = true;
  wf_br : if mem cCOLON h
          then starts_with [cLBR] h = false /\ check_bracketed_host h = true
          else mem cLBR h = false;
  wf_lower : lower (fst (fst (partition cPCT h))) = fst (fst (partition cPCT h));
  wf_enc : label_len_ok (split cDOT h) = true;
  wf_valid : is_valid_host_b ace h = true;
  wf_port : (1 <= p <= 65535)%Z
}.

Section Dest.
Variables (s h : bytes) (p : Z).
Hypothesis WF : wf_dest s h p.

Let pt := port_tail s p.

Lemma pt_chars : forallb pt_char pt = true.
Proof. apply pt_char_tail. destruct WF. lia. Qed.

Lemma pt_nl : forallb nl_char pt = true.
Proof. apply (forallb_imp pt_char nl_char); [vm_compute; reflexivity | apply pt_chars]. Qed.

Lemma h_nl : forallb nl_char h = true.
Proof. apply (forallb_imp host_char nl_char); [vm_compute; reflexivity | apply WF]. Qed.

Lemma h_no c : host_char c = false -> mem c h = false.
Proof. intros Hc. apply (mem_false_of host_char); [exact Hc | apply WF]. Qed.

Lemma pt_no c : pt_char c = false -> mem c pt = false.
Proof. intros Hc. apply (mem_false_of pt_char); [exact Hc | apply pt_chars]. Qed.

Lemma bracket_cases :
  (mem cCOLON h = true /\ bracket h = cLBR :: h ++ [cRBR] /\ check_bracketed_host h = true)
  \/ (mem cCOLON h = false /\ bracket h = h /\ mem cLBR h = false).
Proof.
  pose proof (wf_br _ _ _ WF) as B. unfold bracket.
  destruct (mem cCOLON h) eqn:E.
  - destruct B as [B1 B2]. rewrite B1. left. auto.
  - right. auto.
Qed.

Lemma hp_nl : forallb nl_char (hostport s h p) = true.
Proof.
  rewrite hostport_eq. fold pt. rewrite forallb_app, pt_nl, andb_true_r.
  destruct bracket_cases as [(_ & -> & _) | (_ & -> & _)].
  - simpl. rewrite forallb_app, h_nl. reflexivity.
  - apply h_nl.
Qed.

Lemma hp_netloc_ok : netloc_ok (hostport s h p) = true.
Proof.
  rewrite hostport_eq. fold pt. unfold netloc_ok, bracketed_host.
  destruct bracket_cases as [(_ & -> & C) | (_ & -> & NB)].
  - change ((cLBR :: h ++ [cRBR]) ++ pt) with (cLBR :: (h ++ [cRBR]) ++ pt).
    rewrite <- app_assoc. change ([cRBR] ++ pt) with (cRBR :: pt).
    assert (mem cLBR (cLBR :: h ++ cRBR :: pt) = true) as M1 by reflexivity.
    assert (mem cRBR (cLBR :: h ++ cRBR :: pt) = true) as M2.
    { rewrite mem_cons, mem_app, mem_cons, byte_eqb_refl, !orb_true_r. reflexivity. }
    rewrite M1, M2. cbv beta iota delta [xorb].
    change (partition cLBR (cLBR :: h ++ cRBR :: pt)) with (@nil byte, true, h ++ cRBR :: pt).
    cbv beta iota delta [snd].
    rewrite partition_app by (apply h_no; reflexivity).
    cbv beta iota delta [fst]. exact C.
  - rewrite !mem_app, NB, (h_no cRBR) by reflexivity.
    rewrite (pt_no cLBR), (pt_no cRBR) by reflexivity. reflexivity.
Qed.

Definition port_text : option bytes := if is_nil pt then None else Some (dec_of_Z p).

Lemma pt_cases : (pt = [] /\ port_text = None) \/ (pt = cCOLON :: dec_of_Z p /\ port_text = Some (dec_of_Z p)).
Proof.
  unfold port_text, pt, port_tail.
  destruct (default_port s) as [d|]; [destruct (d =? p)%Z|]; simpl; auto.
Qed.

Lemma hp_hostinfo : hostinfo (hostport s h p) = (h, port_text).
Proof.
  assert (dec_of_Z p <> []) as DNE by (apply dec_of_Z_spec; destruct WF; lia).
  rewrite hostport_eq. fold pt. unfold hostinfo.
  assert (mem cAT (bracket h ++ pt) = false) as NA.
  { apply (mem_false_of nl_char); [reflexivity|]. pose proof hp_nl as H. rewrite hostport_eq in H. exact H. }
  rewrite (rpartition_notin _ _ NA).
  destruct bracket_cases as [(_ & -> & _) | (NC & -> & NB)].
  - change ((cLBR :: h ++ [cRBR]) ++ pt) with (cLBR :: (h ++ [cRBR]) ++ pt).
    rewrite <- app_assoc. change ([cRBR] ++ pt) with (cRBR :: pt).
    change (partition cLBR (cLBR :: h ++ cRBR :: pt)) with (@nil byte, true, h ++ cRBR :: pt).
    cbv iota beta. rewrite partition_app by (apply h_no; reflexivity).
    destruct pt_cases as [[-> ->] | [-> ->]].
    + reflexivity.
    + change (partition cCOLON (cCOLON :: dec_of_Z p)) with (@nil byte, true, dec_of_Z p).
      cbv iota beta. destruct (dec_of_Z p); [congruence | reflexivity].
  - assert (mem cLBR (h ++ pt) = false) as NB2.
    { rewrite mem_app, NB, (pt_no cLBR) by reflexivity. reflexivity. }
    rewrite (partition_notin _ _ NB2). cbv iota beta.
    destruct pt_cases as [[-> ->] | [-> ->]].
    + rewrite app_nil_r, (partition_notin _ _ NC). reflexivity.
    + rewrite (partition_app _ _ _ NC). destruct (dec_of_Z p); [congruence | reflexivity].
Qed.

Lemma hp_hostname : hostname (hostport s h p) = Some h.
Proof.
  unfold hostname. rewrite hp_hostinfo. cbn [fst].
  destruct (is_nil h) eqn:N; [apply is_nil_true in N; destruct WF; congruence|].
  pose proof (wf_lower _ _ _ WF) as L.
  destruct (partition cPCT h) as [[a pc] zone] eqn:P. cbn [fst] in L. rewrite L.
  destruct (partition_spec _ _ _ _ _ P) as [_ S]. destruct pc.
  - rewrite S. reflexivity.
  - destruct S as [-> ->]. rewrite app_nil_r. reflexivity.
Qed.

Lemma hp_port_of :
  port_of (hostport s h p) = Some (if is_nil pt then None else Some (Z.to_N p)).
Proof.
  unfold port_of. rewrite hp_hostinfo. cbn [snd]. unfold port_text.
  destruct (is_nil pt); [reflexivity|].
  assert (0 <= p)%Z as Hp by (destruct WF; lia).
  destruct (dec_of_Z_spec p Hp) as (F & _ & V). rewrite F.
  assert (dec_value (dec_of_Z p) = Z.to_N p) as V' by (rewrite <- V at 2; rewrite N2Z.id; reflexivity).
  rewrite V'. assert (Z.to_N p <= 65535)%N as B by (destruct WF; lia).
  apply N.leb_le in B. rewrite B. reflexivity.
Qed.

End Dest.
End WithCodec.

(* ---------- the splitter on a URL built from components ---------- *)
Lemma split_scheme_http s rest : http_scheme s -> split_scheme (s ++ cCOLON :: rest) = (s, rest).
Proof.
  intros [-> | ->]; unfold split_scheme; rewrite partition_app by reflexivity; reflexivity.
Qed.

Lemma split_params_https p1 : split_params_of s_https p1 = split_params_of s_http p1.
Proof. reflexivity. Qed.

Lemma starts_slash path : starts_with [cSLASH] path = true -> exists t, path = cSLASH :: t.
Proof.
  destruct path as [|c t]; simpl; [discriminate|]. rewrite andb_true_r. intros H.
  apply byte_eqb_eq in H. subst. eauto.
Qed.

Lemma urlsplit_build s nl path :
  http_scheme s -> forallb nl_char nl = true -> netloc_ok nl = true ->
  starts_with [cSLASH] path = true -> forallb path_char path = true ->
  urlsplit (s ++ s_sep ++ nl ++ path) =
  let '(p1, q, f) := split_fq path in Some (s, nl, p1, q, f).
Proof.
  intros Hs Hnl Hok Hsl Hpc. unfold urlsplit.
  assert (lstrip_c0 (s ++ s_sep ++ nl ++ path) = s ++ s_sep ++ nl ++ path) as E1
    by (destruct Hs as [-> | ->]; reflexivity).
  rewrite E1.
  assert (remove_unsafe (s ++ s_sep ++ nl ++ path) = s ++ s_sep ++ nl ++ path) as E2.
  { apply filter_id. rewrite !forallb_app.
    apply andb_true_iff; split; [|apply andb_true_iff; split; [|apply andb_true_iff; split]].
    - destruct Hs as [-> | ->]; reflexivity.
    - reflexivity.
    - apply (forallb_imp nl_char _); [vm_compute; reflexivity | exact Hnl].
    - apply (forallb_imp path_char _); [vm_compute; reflexivity | exact Hpc]. }
  rewrite E2.
  change (s ++ s_sep ++ nl ++ path) with (s ++ cCOLON :: (cSLASH :: cSLASH :: nl ++ path)).
  rewrite (split_scheme_http _ _ Hs).
  change (urlsplit_rest s (cSLASH :: cSLASH :: nl ++ path)) with
    (let '(netloc, rest') := span (fun b => negb (is_delim b)) (nl ++ path) in
     if netloc_ok netloc then let '(p, q, f) := split_fq rest' in Some (s, netloc, p, q, f) else None).
  rewrite span_app.
  - rewrite Hok. reflexivity.
  - apply (forallb_imp nl_char _); [vm_compute; reflexivity | exact Hnl].
  - destruct (starts_slash _ Hsl) as [t ->]. reflexivity.
Qed.

Lemma port_tail_http p : port_tail s_http p = if (80 =? p)%Z then [] else cCOLON :: dec_of_Z p.
Proof. reflexivity. Qed.
Lemma port_tail_https p : port_tail s_https p = if (443 =? p)%Z then [] else cCOLON :: dec_of_Z p.
Proof. reflexivity. Qed.

Section Roundtrip.
Variable ace : bytes -> option str.
Variable uenc : str -> option bytes.

Theorem parse_unparse s h p path :
  wf_dest ace s h p -> wf_path path ->
  parse ace uenc (unparse s h p path) = Some (s, h, p, path).
Proof.
  intros WF (Hsl & Hpc & Hre).
  pose proof (wf_scheme _ _ _ _ WF) as Hs.
  assert (all_ascii h = true) as Ah.
  { apply (forallb_imp host_char is_ascii); [vm_compute; reflexivity | apply WF]. }
  unfold parse, unparse.
  assert (all_ascii (s ++ s_sep ++ hostport s h p ++ path) = true) as AA.
  { rewrite !all_ascii_app.
    apply andb_true_iff; split; [|apply andb_true_iff; split; [|apply andb_true_iff; split]].
    - destruct Hs as [-> | ->]; reflexivity.
    - reflexivity.
    - apply (forallb_imp nl_char is_ascii); [vm_compute; reflexivity | apply (hp_nl ace _ _ _ WF)].
    - apply (forallb_imp path_char is_ascii); [vm_compute; reflexivity | exact Hpc]. }
  rewrite AA. cbn [negb]. unfold urlparse.
  rewrite (urlsplit_build s (hostport s h p) path Hs (hp_nl ace _ _ _ WF) (hp_netloc_ok ace _ _ _ WF) Hsl Hpc).
  unfold reparse_path in Hre.
  destruct (split_fq path) as [[p1 q] f].
  assert (split_params_of s p1 = split_params_of s_http p1) as SP by (destruct Hs as [-> | ->]; reflexivity).
  rewrite SP. destruct (split_params_of s_http p1) as [pp params].
  rewrite (hp_hostname ace _ _ _ WF).
  assert (idna_encode uenc h = Some h) as IE.
  { unfold idna_encode. destruct (is_nil h) eqn:N; [apply is_nil_true in N; destruct WF; congruence|].
    rewrite Ah, (wf_enc _ _ _ _ WF). reflexivity. }
  rewrite IE, (hp_port_of ace _ _ _ WF), Hre, (wf_valid _ _ _ _ WF).
  pose proof (wf_port _ _ _ _ WF) as Hp.
  f_equal. f_equal. f_equal.
  destruct Hs as [-> | ->].
  - rewrite port_tail_http. change (bytes_eqb s_http s_https) with false. cbv iota.
    destruct (80 =? p)%Z eqn:E; cbn [is_nil].
    + apply Z.eqb_eq in E. subst. reflexivity.
    + destruct (Z.to_N p =? 0)%N eqn:E0; [apply N.eqb_eq in E0; lia | apply Z2N.id; lia].
  - rewrite port_tail_https. change (bytes_eqb s_https s_https) with true. cbv iota.
    destruct (443 =? p)%Z eqn:E; cbn [is_nil].
    + apply Z.eqb_eq in E. subst. reflexivity.
    + destruct (Z.to_N p =? 0)%N eqn:E0; [apply N.eqb_eq in E0; lia | apply Z2N.id; lia].
Qed.

End Roundtrip.
