(* Proofs/UrlLemmas.v -- list-level facts about the string helpers of Model/Url.v *)
From Coq Require Import List Bool Arith NArith ZArith Lia.
From MV Require Import Base.Bytes Model.Url.
Import ListNotations.

Lemma byte_eqb_sym a b : byte_eqb a b = byte_eqb b a.
Proof.
  destruct (byte_eqb a b) eqn:E.
  - apply byte_eqb_eq in E. subst. symmetry. apply byte_eqb_refl.
  - destruct (byte_eqb b a) eqn:E2; [|reflexivity].
    apply byte_eqb_eq in E2. subst. rewrite byte_eqb_refl in E. discriminate.
Qed.

Lemma is_nil_true {A} (l : list A) : is_nil l = true <-> l = [].
Proof. destruct l; simpl; split; intros; congruence. Qed.
Lemma is_nil_false {A} (l : list A) : is_nil l = false <-> l <> [].
Proof. destruct l; simpl; split; intros; congruence. Qed.

Lemma mem_app c a b : mem c (a ++ b) = mem c a || mem c b.
Proof. unfold mem. apply existsb_app. Qed.
Lemma mem_cons c x a : mem c (x :: a) = byte_eqb c x || mem c a.
Proof. reflexivity. Qed.
Lemma all_ascii_app a b : all_ascii (a ++ b) = all_ascii a && all_ascii b.
Proof. unfold all_ascii. apply forallb_app. Qed.

Lemma mem_false_forallb c a : mem c a = false <-> forallb (fun x => negb (byte_eqb x c)) a = true.
Proof.
  induction a as [|x a IH]; simpl; [tauto|].
  rewrite orb_false_iff, andb_true_iff, IH, negb_true_iff, (byte_eqb_sym c x). tauto.
Qed.

(* ---------- partition ---------- *)
Lemma partition_notin c a : mem c a = false -> partition c a = (a, false, []).
Proof.
  induction a as [|x a IH]; simpl; intros H; [reflexivity|].
  apply orb_false_iff in H as [H1 H2]. rewrite byte_eqb_sym, H1, (IH H2). reflexivity.
Qed.

Lemma partition_app c a b : mem c a = false -> partition c (a ++ c :: b) = (a, true, b).
Proof.
  induction a as [|x a IH]; simpl; intros H.
  - rewrite byte_eqb_refl. reflexivity.
  - apply orb_false_iff in H as [H1 H2]. rewrite byte_eqb_sym, H1, (IH H2). reflexivity.
Qed.

(* shape of any partition result *)
Lemma partition_spec c s a f b :
  partition c s = (a, f, b) ->
  mem c a = false /\ (if f then s = a ++ c :: b else s = a /\ b = []).
Proof.
  revert a f b. induction s as [|x s IH]; simpl; intros a f b H.
  - inversion H; subst. simpl. auto.
  - destruct (byte_eqb x c) eqn:E.
    + inversion H; subst. apply byte_eqb_eq in E. subst. simpl. auto.
    + destruct (partition c s) as [[a' f'] b'] eqn:P. inversion H; subst.
      destruct (IH _ _ _ eq_refl) as [M S]. split.
      * simpl. rewrite byte_eqb_sym, E. exact M.
      * destruct f; [rewrite S; reflexivity | destruct S as [-> ->]; auto].
Qed.

(* ---------- rpartition ---------- *)
Lemma rpartition_notin c a : mem c a = false -> rpartition c a = ([], false, a).
Proof.
  induction a as [|x a IH]; simpl; intros H; [reflexivity|].
  apply orb_false_iff in H as [H1 H2]. rewrite (IH H2), byte_eqb_sym, H1. reflexivity.
Qed.

Lemma rpartition_app c a b : mem c b = false -> rpartition c (a ++ c :: b) = (a, true, b).
Proof.
  intros H. induction a as [|x a IH]; simpl.
  - rewrite (rpartition_notin _ _ H), byte_eqb_refl. reflexivity.
  - rewrite IH. reflexivity.
Qed.

Lemma rpartition_spec c s a f b :
  rpartition c s = (a, f, b) ->
  mem c b = false /\ (if f then s = a ++ c :: b else s = b /\ a = []).
Proof.
  revert a f b. induction s as [|x s IH]; simpl; intros a f b H.
  - inversion H; subst. simpl. auto.
  - destruct (rpartition c s) as [[a' f'] b'] eqn:P.
    destruct (IH _ _ _ eq_refl) as [M S]. destruct f'.
    + inversion H; subst. split; [exact M | reflexivity].
    + destruct S as [-> ->]. destruct (byte_eqb x c) eqn:E; inversion H; subst.
      * apply byte_eqb_eq in E. subst. split; [exact M | reflexivity].
      * split; [simpl; rewrite byte_eqb_sym, E; exact M | auto].
Qed.

(* ---------- span ---------- *)
Lemma span_app p a b :
  forallb p a = true -> match b with [] => True | x :: _ => p x = false end ->
  span p (a ++ b) = (a, b).
Proof.
  intros Ha Hb. induction a as [|x a IH]; simpl in *.
  - destruct b as [|y b]; simpl; [reflexivity | rewrite Hb; reflexivity].
  - apply andb_true_iff in Ha as [H1 H2]. rewrite H1, (IH H2). reflexivity.
Qed.

Lemma span_all p a : forallb p a = true -> span p a = (a, []).
Proof. intros H. rewrite <- (app_nil_r a) at 1. apply span_app; simpl; auto. Qed.

Lemma span_spec p s a b :
  span p s = (a, b) -> s = a ++ b /\ forallb p a = true /\ match b with [] => True | x :: _ => p x = false end.
Proof.
  revert a b. induction s as [|x s IH]; simpl; intros a b H.
  - inversion H; subst. simpl. auto.
  - destruct (p x) eqn:E.
    + destruct (span p s) as [a' b'] eqn:S. inversion H; subst.
      destruct (IH _ _ eq_refl) as (-> & F & T). simpl. rewrite E, F. auto.
    + inversion H; subst. simpl. auto.
Qed.

(* ---------- filter / lstrip ---------- *)
Lemma filter_id {A} (p : A -> bool) l : forallb p l = true -> filter p l = l.
Proof.
  induction l as [|x l IH]; simpl; intros H; [reflexivity|].
  apply andb_true_iff in H as [H1 H2]. rewrite H1, (IH H2). reflexivity.
Qed.

Lemma forallb_filter {A} (p : A -> bool) l : forallb p (filter p l) = true.
Proof. induction l as [|x l IH]; simpl; [reflexivity|]. destruct (p x) eqn:E; simpl; [rewrite E|]; exact IH. Qed.

Lemma forallb_filter_other {A} (p q : A -> bool) l : forallb q l = true -> forallb q (filter p l) = true.
Proof.
  induction l as [|x l IH]; simpl; intros H; [reflexivity|].
  apply andb_true_iff in H as [H1 H2]. destruct (p x); simpl; [rewrite H1|]; auto.
Qed.

(* ---------- lower ---------- *)
Lemma lower_app a b : lower (a ++ b) = lower a ++ lower b.
Proof. unfold lower. apply map_app. Qed.

Lemma to_lower_idem b : to_lower (to_lower b) = to_lower b.
Proof.
  apply byte_eqb_eq. revert b.
  apply (forall_bytes (fun b => byte_eqb (to_lower (to_lower b)) (to_lower b))). vm_compute. reflexivity.
Qed.
