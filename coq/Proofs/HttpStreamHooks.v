(* Proofs/HttpStreamHooks.v -- the ghost summary msum of a stream is the monitor run over its hook list, and what
   the monitor bits say about the hook sequence itself (list-level facts, independent of the model). *)
From Coq Require Import List Bool NArith.
From MV Require Import Base.Bytes Model.HttpStream Proofs.HttpStreamAbs Proofs.HttpStreamSound.
Import ListNotations.

Definition HM (s : stream) : Prop := msum s = summ (hooks s).

Lemma summ_snoc hs h : summ (hs ++ [h]) = mon_step (summ hs) h.
Proof. unfold summ. rewrite fold_left_app. reflexivity. Qed.

Ltac hm := simpl; repeat (destr; simpl); try solve [reflexivity | symmetry; apply summ_snoc]; try absurd_hyp.
Ltac starth s H := destruct s as [sid cs ss pc queue req rc rs fresp ferr live rb pb srv hooks up tun cr ms ab rqe rqf rsf ve vg];
  unfold HM in *; simpl in H; subst ms.

Lemma HM_new id : HM (new_stream id).
Proof. reflexivity. Qed.
Lemma HM_act h a s : HM s -> HM (apply_act h a s).
Proof. intros H. starth s H. unfold apply_act, killable. destruct a, h; hm. Qed.
Lemma HM_queue q s : HM s -> HM (upd_queue q s).
Proof. intros H. starth s H. reflexivity. Qed.
Lemma HM_pc s : HM s -> HM (upd_pc None s).
Proof. intros H. starth s H. reflexivity. Qed.

Lemma HM_event o s e : HM s -> HM (fst (run_event o s e)).
Proof.
  intros H. starth s H. unfold run_event, note_event. unf; unf; unf.
  destruct e; hm.
Qed.
Lemma HM_resume o k inp s : HM s -> HM (fst (resume o k inp s)).
Proof.
  intros H. starth s H. unfold resume. unf; unf; unf.
  destruct k; hm.
Qed.
Lemma HM_crash s : HM s -> HM (fst (crash s)).
Proof. intros H. starth s H. reflexivity. Qed.

