(* Proofs/UpstreamAuthWorld.v -- C24, any number of client connections sharing one UpstreamAuth instance:
   the invariant over histories and the main theorems. *)
From Coq Require Import List Bool NArith Lia.
From MV Require Import Base.Bytes Model.UpstreamAuth Proofs.UpstreamAuthStep.
Import ListNotations.
Open Scope N_scope.

Definition wevent_clean (cred : bytes) (e : wevent) : Prop :=
  match e with WEv _ ev => event_clean cred ev | _ => True end.

(* the event hits the defect of the code as found, in the state it is processed in *)
Definition wleaky (ws : wstate) (e : wevent) : bool :=
  match e with
  | WEv c ev => match lookup c ws.(ws_conns) with Some st => leaky st ev | None => false end
  | _ => false
  end.

Fixpoint wsafe (cfg : config) (ws : wstate) (es : list wevent) : bool :=
  match es with
  | [] => true
  | e :: r => negb (wleaky ws e) && wsafe cfg (fst (wstep cfg ws e)) r
  end.

(* ------------------------------------------------------------------ association list facts *)
Lemma lookup_app_none c l x v : lookup c l = None -> lookup x (l ++ [(c, v)]) = if c =? x then Some v else lookup x l.
Proof.
  induction l as [|[k w] r IH]; cbn; intros H.
  - reflexivity.
  - destruct (k =? c) eqn:E; [discriminate|]. destruct (k =? x) eqn:E2.
    + apply N.eqb_eq in E2. subst x. rewrite N.eqb_sym, E. reflexivity.
    + apply IH. assumption.
Qed.

Lemma lookup_update c v l x : lookup c l <> None -> lookup x (update c v l) = if c =? x then Some v else lookup x l.
Proof.
  induction l as [|[k w] r IH]; cbn; intros H.
  - contradiction.
  - destruct (k =? c) eqn:E; cbn.
    + apply N.eqb_eq in E. subst k. destruct (c =? x); reflexivity.
    + destruct (k =? x) eqn:E2.
      * apply N.eqb_eq in E2. subst x. rewrite N.eqb_sym, E. reflexivity.
      * apply IH. assumption.
Qed.

(* ------------------------------------------------------------------ the invariant *)
Definition winv (cfg : config) (ws : wstate) : Prop :=
  forall c st, lookup c ws.(ws_conns) = Some st ->
    inv st /\ (cfg.(c_fixed) = true -> st.(cs_tunnel) = true -> mem c ws.(ws_set) = true).

Lemma winv_init cfg : winv cfg ws_init.
Proof. intros c st H. discriminate. Qed.

Lemma wstep_inv cfg ws e ws' wr : winv cfg ws -> wstep cfg ws e = (ws', wr) -> winv cfg ws'.
Proof.
  intros Hw H. destruct e as [c pm|c ev|opt|c]; cbn [wstep] in H.
  - destruct (lookup c (ws_conns ws)) eqn:El.
    + inversion H; subst. assumption.
    + inversion H; subst. intros x st Hx. cbn in Hx. rewrite (lookup_app_none _ _ _ _ El) in Hx. cbn.
      destruct (c =? x) eqn:E.
      * inversion Hx; subst. destruct (inv_init cfg pm) as (H1 & H2 & _). split; [assumption|].
        intros _ Ht. rewrite H2 in Ht. discriminate.
      * apply Hw. assumption.
  - destruct (lookup c (ws_conns ws)) as [st|] eqn:El.
    + destruct (step (with_auth cfg (ws_auth ws)) (mem c (ws_set ws)) st ev) as [[st' w1] conn] eqn:Es.
      inversion H; subst. clear H. destruct (Hw c st El) as [Hi Hm].
      destruct (step_state _ _ _ _ _ _ _ Hi Es) as (Hi' & _ & Ht1 & Ht2).
      intros x sx Hx. cbn in Hx. rewrite lookup_update in Hx by (rewrite El; discriminate). cbn.
      destruct (c =? x) eqn:E.
      * apply N.eqb_eq in E. subst x. inversion Hx; subst sx. split; [assumption|].
        intros Hf Ht. rewrite Hf, andb_true_r. destruct conn; cbn.
        -- rewrite N.eqb_refl. reflexivity.
        -- destruct (Ht1 Ht) as [Ht'|Ht']; [|discriminate]. apply Hm; assumption.
      * destruct (Hw x sx Hx) as [Hix Hmx]. split; [assumption|].
        intros Hf Ht. specialize (Hmx Hf Ht). destruct (conn && c_fixed cfg); [|assumption].
        unfold mem in *. cbn. rewrite Hmx. apply orb_true_r.
    + inversion H; subst. assumption.
  - (* configure: neither the set nor any connection changes *)
    inversion H; subst. exact Hw.
  - destruct (lookup c (ws_conns ws)) as [st|] eqn:El; inversion H; subst; [|assumption].
    intros x sx Hx. cbn in Hx. rewrite lookup_update in Hx by (rewrite El; discriminate). cbn.
    destruct (c =? x) eqn:E.
    + apply N.eqb_eq in E. subst x. inversion Hx; subst sx. destruct (Hw c st El) as [Hi Hm].
      split; [apply inv_dead; assumption | exact Hm].
    + apply Hw. assumption.
Qed.

(* ------------------------------------------------------------------ one world step is sound *)
Lemma wstep_sound cfg cred ws e ws' wr c w :
  winv cfg ws -> wevent_clean cred e ->
  (cfg.(c_fixed) = true \/ wleaky ws e = false) ->
  wstep cfg ws e = (ws', wr) -> In (c, w) wr -> carries cred w.(w_fields) -> good w.
Proof.
  intros Hw Hcl Hsafe H Hin Hcar. destruct e as [c0 pm|c0 ev|opt|c0]; cbn [wstep] in H;
    [| |inversion H; subst; destruct Hin|destruct (lookup c0 (ws_conns ws)); inversion H; subst; destruct Hin].
  - destruct (lookup c0 (ws_conns ws)); inversion H; subst; destruct Hin.
  - destruct (lookup c0 (ws_conns ws)) as [st|] eqn:El; [|inversion H; subst; destruct Hin].
    destruct (step (with_auth cfg (ws_auth ws)) (mem c0 (ws_set ws)) st ev) as [[st' w1] conn] eqn:Es.
    inversion H; subst. clear H. apply in_map_iff in Hin. destruct Hin as (w' & Hw' & Hin). inversion Hw'; subst.
    destruct (Hw c st El) as [Hi Hm].
    eapply step_sound; try eassumption.
    destruct Hsafe as [Hf|Hl].
    + destruct (cs_tunnel st) eqn:Et.
      * left. cbn. rewrite Hf, (Hm Hf eq_refl). reflexivity.
      * right. left. reflexivity.
    + right. right. cbn in Hl. rewrite El in Hl. assumption.
Qed.

(* ------------------------------------------------------------------ histories *)
Lemma wrun_sound cfg cred :
  forall es ws, winv cfg ws -> Forall (wevent_clean cred) es ->
  (cfg.(c_fixed) = true \/ wsafe cfg ws es = true) ->
  forall c w, In (c, w) (snd (wrun cfg ws es)) -> carries cred w.(w_fields) -> good w.
Proof.
  induction es as [|e r IH]; intros ws Hw Hcl Hsafe c w Hin Hcar; cbn [wrun] in Hin.
  - destruct Hin.
  - destruct (wstep cfg ws e) as [ws1 w1] eqn:E1. destruct (wrun cfg ws1 r) as [ws2 w2] eqn:E2.
    cbn [snd] in Hin. inversion Hcl; subst. apply in_app_or in Hin. destruct Hin as [Hin|Hin].
    + eapply wstep_sound; try eassumption.
      destruct Hsafe as [Hf|Hs]; [left; assumption|]. right. cbn [wsafe] in Hs.
      apply andb_true_iff in Hs. destruct Hs as [Hs _]. apply negb_true_iff in Hs. assumption.
    + apply (IH ws1) with (c := c); try assumption.
      * eapply wstep_inv; eassumption.
      * destruct Hsafe as [Hf|Hs]; [left; assumption|]. right. cbn [wsafe] in Hs. rewrite E1 in Hs. cbn [fst] in Hs.
        apply andb_true_iff in Hs. apply Hs.
      * rewrite E2. assumption.
Qed.

(* Main theorem, repaired code: for every history of events on any number of client connections in any modes,
   with the option upstream_auth set, unset or changed at any point of the history (WConfigure), and for EVERY value
   cred that no client sent: a head that carries cred is written only to the upstream proxy, outside any tunnel, for
   an upstream-mode client, or to the reverse target of a reverse-mode client.  (A header value that no client sent
   can only have been put there by the addon, so this covers every credential configured at any time.) *)
Theorem sound_fixed : forall cfg cred es,
  cfg.(c_fixed) = true -> Forall (wevent_clean cred) es ->
  forall c w, In (c, w) (snd (wrun cfg ws_init es)) -> carries cred w.(w_fields) -> good w.
Proof.
  intros cfg cred es Hf Hcl. apply (wrun_sound cfg cred es ws_init (winv_init cfg) Hcl). left. assumption.
Qed.

(* Code as found: the same, for histories that never send a plain-HTTP request through an accepted CONNECT tunnel
   of an upstream-mode client. *)
Theorem sound_partial : forall cfg cred es,
  Forall (wevent_clean cred) es -> wsafe cfg ws_init es = true ->
  forall c w, In (c, w) (snd (wrun cfg ws_init es)) -> carries cred w.(w_fields) -> good w.
Proof.
  intros cfg cred es Hcl Hs. apply (wrun_sound cfg cred es ws_init (winv_init cfg) Hcl). right. assumption.
Qed.

(* good implies: never for regular, transparent or SOCKS5 clients *)
Lemma good_modes w : good w -> is_upstream w.(w_pm) || is_reverse w.(w_pm) = true.
Proof.
  intros [(_ & _ & H & _)|(_ & t & tls & H & _)].
  - rewrite H. reflexivity.
  - rewrite H. reflexivity.
Qed.

(* good implies: never inside a tunnel *)
Lemma good_not_tunnelled w : good w -> w.(w_via) && w.(w_tunnelled) = false.
Proof.
  intros [(H1 & H2 & _)|(H1 & _)].
  - rewrite H1, H2. reflexivity.
  - rewrite H1. reflexivity.
Qed.

(* ------------------------------------------------------------------ the defect, and non-vacuity *)
Definition cred0 : bytes := basic_prefix ++ b64encode [x75;x3a;x70].          (* Basic dTpw *)
Definition proxy0 : addr := ([x75;x70], 3128).                                   (* up:3128 *)
Definition origin0 : addr := ([x65;x2e;x63;x6f;x6d], 80).                        (* e.com:80 *)
Definition cfg0 (fixed : bool) : config :=
  {| c_auth := None; c_send_host := true; c_eager := true; c_fixed := fixed |}.
Definition opt0 : option (list N) := Some [117; 58; 112].                       (* upstream_auth = u:p *)
(* upstream mode, upstream_auth set first: a plain request, CONNECT e.com:80, then a plain-HTTP request through the tunnel *)
Definition history0 : list wevent :=
  [WConfigure opt0;
   WOpen 0 (PUpstream proxy0);
   WEv 0 (EReq (Some (false, origin0)) (Some origin0) [(HOST, fst origin0)] true);
   WEv 0 (EConnect origin0 false true);
   WEv 0 (EReq None (Some origin0) [(HOST, fst origin0)] true)].
(* the CONNECT is accepted while upstream_auth is unset, the option is set afterwards, then a request in the tunnel *)
Definition history1 : list wevent :=
  [WOpen 0 (PUpstream proxy0);
   WEv 0 (EConnect origin0 false true);
   WConfigure opt0;
   WEv 0 (EReq None (Some origin0) [(HOST, fst origin0)] true)].

Definition carriesb (cred : bytes) (fs : list field) : bool := existsb (fun f => bytes_eqb (snd f) cred) fs.
Lemma carriesb_true cred fs : carriesb cred fs = true -> carries cred fs.
Proof.
  unfold carriesb. rewrite existsb_exists. intros [[k v] [Hin He]]. cbn in He. apply bytes_eqb_eq in He. subst v.
  exists k. assumption.
Qed.
Lemma carriesb_false cred fs : carriesb cred fs = false -> ~ carries cred fs.
Proof.
  intros H [k Hk]. assert (carriesb cred fs = true); [|congruence].
  unfold carriesb. rewrite existsb_exists. exists (k, cred). split; [assumption|]. cbn. apply bytes_eqb_refl.
Qed.

Lemma history0_clean : Forall (wevent_clean cred0) history0.
Proof.
  repeat constructor; cbn; intros k v [H|[]]; inversion H; subst; intros E; vm_compute in E; discriminate.
Qed.

Lemma history1_clean : Forall (wevent_clean cred0) history1.
Proof.
  repeat constructor; cbn; intros k v [H|[]]; inversion H; subst; intros E; vm_compute in E; discriminate.
Qed.

(* as found: the third head of history0 carries the configured credential and is delivered through the tunnel to the origin *)
Theorem refuted : exists cfg cred es c w,
  cfg.(c_fixed) = false /\ (fst (wrun cfg ws_init es)).(ws_auth) = Some cred /\ Forall (wevent_clean cred) es
  /\ In (c, w) (snd (wrun cfg ws_init es)) /\ carries cred w.(w_fields)
  /\ w.(w_via) = true /\ w.(w_tunnelled) = true /\ w.(w_kind) = WRequest.
Proof.
  exists (cfg0 false), cred0, history0, 0.
  destruct (nth_error (snd (wrun (cfg0 false) ws_init history0)) 2) as [[c w]|] eqn:E; [|vm_compute in E; discriminate].
  exists w. assert (Hin := nth_error_In _ _ E). vm_compute in E. inversion E; subst c w.
  split; [reflexivity|]. split; [vm_compute; reflexivity|]. split; [exact history0_clean|]. split; [exact Hin|].
  split; [apply carriesb_true; vm_compute; reflexivity|]. repeat split.
Qed.

(* repaired: history0 writes three heads; the plain request and the CONNECT carry the credential to the proxy, the
   tunnelled request does not.  history1 (tunnel accepted while the option was unset, option set afterwards): the CONNECT
   that mitmproxy then sends to the proxy carries the credential, the request inside the client's tunnel does not. *)
Theorem nonvacuous :
  let obs := fun cfg h => map (fun cw => (w_kind (snd cw), w_tunnelled (snd cw), carriesb cred0 (w_fields (snd cw))))
                              (snd (wrun cfg ws_init h)) in
  (fst (wrun (cfg0 true) ws_init history0)).(ws_auth) = Some cred0
  /\ Forall (wevent_clean cred0) history0 /\ Forall (wevent_clean cred0) history1
  /\ obs (cfg0 true) history0 = [(WRequest, false, true); (WConnect, false, true); (WRequest, true, false)]
  /\ obs (cfg0 true) history1 = [(WConnect, false, true); (WRequest, true, false)]
  /\ wsafe (cfg0 false) ws_init history0 = false.
Proof.
  cbn zeta. split; [vm_compute; reflexivity|]. split; [exact history0_clean|]. split; [exact history1_clean|].
  repeat split; vm_compute; reflexivity.
Qed.

(* whatever the option was when the CONNECT was accepted: nothing written into a CONNECT tunnel carries a credential *)
Theorem tunnel_never : forall cfg cred es,
  cfg.(c_fixed) = true -> Forall (wevent_clean cred) es ->
  forall c w, In (c, w) (snd (wrun cfg ws_init es)) -> w.(w_via) = true -> w.(w_tunnelled) = true ->
  ~ carries cred w.(w_fields).
Proof.
  intros cfg cred es Hf Hcl c w Hin Hv Ht Hcar.
  assert (Hg := good_not_tunnelled w (sound_fixed cfg cred es Hf Hcl c w Hin Hcar)).
  rewrite Hv, Ht in Hg. discriminate.
Qed.

(* ------------------------------------------------------------------ the credential itself *)
Lemma parse_shape s v : parse_upstream_auth s = POk v ->
  exists b, utf8_encode s = Some b /\ v = basic_prefix ++ b64encode b /\ truthy (Some v) = Some v.
Proof.
  unfold parse_upstream_auth. destruct (negb (has_dotplus_colon s)); [discriminate|].
  destruct (utf8_encode s) as [b|]; [|discriminate]. intros H. inversion H; subst. exists b. repeat split.
Qed.
