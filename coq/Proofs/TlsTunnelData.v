(* Proofs/TlsTunnelData.v -- byte transparency of an established TLS tunnel, under a
   contract for the record layer (OpenSSL): for every plaintext stream, every cutting of
   the wire stream into records and TCP segments, every interleaving with other events and
   with whatever the child layer does in response. *)
From Coq Require Import List Bool Arith NArith Lia.
From MV Require Import Base.Bytes Model.TlsTunnel Proofs.TlsTunnelBase.
Import ListNotations.

Definition has_open (c : conn) (tr : list titem) : bool :=
  existsb (fun t => match t with TFromChild (COpen c') => conn_eqb c' c | _ => false end) tr.
Lemma has_open_app c a b : has_open c (a ++ b) = has_open c a || has_open c b.
Proof. apply existsb_app. Qed.
Definition no_start (evs : list event) : Prop := ~ In EStart evs.

Section Data.
  Variable R : Type.
  Variable bio_write : R -> bytes -> R.
  Variable recv : R -> R * recv_res.
  Variable bio_read : R -> R * option bytes.
  Variable sendall : R -> bytes -> R * send_res.
  Variable do_handshake : R -> R * hs_res.
  Variable parse_hello : bytes -> hello_res.
  Variable CS : Type.
  Variable child : CS -> event -> CS * list cmd * bool.
  Variable cf : cfg.

  (* ---- the contract of the record layer -------------------------------------------- *)
  (* ghost views of a connection object: all wire bytes written into it, all plaintext it
     returned, all plaintext it accepted, all wire bytes read out of it *)
  Variable win pout pin wout : R -> bytes.
  (* the wire format: plaintext carried by the complete records of a wire stream (up to a
     close_notify), whether it contains a complete close_notify, whether it makes recv fail;
     what the peer decodes from a wire stream *)
  Variable plain : bytes -> bytes.
  Variable closed_in : bytes -> bool.
  Variable bad : bytes -> Prop.
  Variable peer_plain : bytes -> bytes.

  Hypothesis bio_write_spec : forall r d,
    win (bio_write r d) = win r ++ d /\ pout (bio_write r d) = pout r /\
    pin (bio_write r d) = pin r /\ wout (bio_write r d) = wout r.
  Hypothesis recv_spec : forall r,
    win (fst (recv r)) = win r /\ pin (fst (recv r)) = pin r /\ wout (fst (recv r)) = wout r /\
    match snd (recv r) with
    | RData b => b <> [] /\ pout (fst (recv r)) = pout r ++ b
    | RWantRead => pout (fst (recv r)) = pout r /\ pout r = plain (win r) /\ closed_in (win r) = false
    | RZeroReturn => pout (fst (recv r)) = pout r /\ pout r = plain (win r) /\ closed_in (win r) = true
    | RError => pout (fst (recv r)) = pout r /\ bad (win r)
    | RRaise => True
    end.
  Hypothesis bio_read_spec : forall r,
    win (fst (bio_read r)) = win r /\ pout (fst (bio_read r)) = pout r /\ pin (fst (bio_read r)) = pin r /\
    match snd (bio_read r) with
    | Some b => wout (fst (bio_read r)) = wout r ++ b
    | None => wout (fst (bio_read r)) = wout r /\ peer_plain (wout r) = pin r
    end.
  Hypothesis sendall_spec : forall r d,
    win (fst (sendall r d)) = win r /\ pout (fst (sendall r d)) = pout r /\ wout (fst (sendall r d)) = wout r /\
    match snd (sendall r d) with
    | SOk => pin (fst (sendall r d)) = pin r ++ d
    | SZeroReturn | SSysCall => pin (fst (sendall r d)) = pin r
    | SRaise => True
    end.

  Notation ST := (st R CS).
  Notation MM := (M R CS).
  Notation Bind := (bind R CS).
  Notation ME := (me cf).

  Definition W (s : ST) := win (tls s).
  Definition PO (s : ST) := pout (tls s).
  Definition PI (s : ST) := pin (tls s).
  Definition WO (s : ST) := wout (tls s).
  Definition Qin (s : ST) : Prop := bad (W s) \/ PO s = plain (W s).
  Definition Qout (s : ST) : Prop := peer_plain (WO s) = PI s.
  (* the control state of the tunnel *)
  Definition ctl (s : ST) := (tunnel_state s, reply_to s, has_tls s, errored s).
  Definition Inv (s : ST) : Prop := has_tls s = true /\ tunnel_state s <> ESTABLISHING /\ errored s = false.

  (* ---- inversion of successful runs ---- *)
  Lemma bind_some {A B} (m : MM A) (f : A -> MM B) s b s' tr :
    Bind m f s = (Some b, s', tr) ->
    exists a s1 t1 t2, m s = (Some a, s1, t1) /\ f a s1 = (Some b, s', t2) /\ tr = t1 ++ t2.
  Proof.
    unfold bind. destruct (m s) as [[[a|] s1] t1]; [|discriminate].
    destruct (f a s1) as [[b' s2] t2] eqn:E. intro H; inversion H; subst. eauto 10.
  Qed.
  Lemma tls_op_some {A} (op : R -> R * A) s a s' tr :
    tls_op R CS op s = (Some a, s', tr) ->
    has_tls s = true /\ a = snd (op (tls s)) /\ s' = set_tls R CS (fst (op (tls s))) s /\ tr = [].
  Proof.
    unfold tls_op. destruct (has_tls s); [|discriminate].
    destruct (op (tls s)) as [r x]. intro H; inversion H; subst. auto.
  Qed.
  Lemma when_some b (m : MM unit) s u s' tr :
    when R CS b m s = (Some u, s', tr) -> (b = true /\ m s = (Some u, s', tr)) \/ (b = false /\ s' = s /\ tr = []).
  Proof. destruct b; simpl; intro H; [left; auto | right; inversion H; auto]. Qed.

  Tactic Notation "binv" hyp(H) "as" ident(a) ident(s1) ident(t1) ident(t2) ident(H1) ident(H2) :=
    apply bind_some in H; destruct H as (a & s1 & t1 & t2 & H1 & H2 & ->).
  Tactic Notation "opinv" hyp(H) "as" ident(Ht) ident(Ha) :=
    apply tls_op_some in H; destruct H as (Ht & Ha & -> & ->).

  (* ---- leaves ---- *)
  Lemma tls_interact_spec n : forall s u s' tr,
    tls_interact R bio_read CS cf n s = (Some u, s', tr) ->
    ctl s' = ctl s /\ close_sent s' = close_sent s /\ cstate s' = cstate s /\
    W s' = W s /\ PO s' = PO s /\ PI s' = PI s /\ WO s' = WO s ++ sent_wire ME tr /\
    child_data ME tr = [] /\ child_sends ME tr = [] /\ drops tr = 0 /\ has_open ME tr = false /\ Qout s'.
  Proof.
    induction n as [|n IH]; intros s u s' tr H; cbn [tls_interact] in H; [discriminate|].
    binv H as a s1 t1 t2 H1 H2. opinv H1 as Ht Ha.
    generalize (bio_read_spec (tls s)). rewrite <- Ha. intros (Hw & Hpo & Hpi & Hx).
    destruct a as [d|].
    - binv H2 as a' s2 t3 t4 H3 H4. inversion H3; subst. apply IH in H4.
      destruct H4 as (C & Cs & Cc & Hw' & Hpo' & Hpi' & Hwo' & D1 & D2 & D3 & D4 & Q).
      unfold W, PO, PI, WO in *. simpl in *. rewrite conn_eqb_refl.
      repeat split; auto; try congruence. rewrite Hwo', Hx, <- app_assoc. reflexivity.
    - inversion H2; subst. destruct Hx as [Hx Hq]. unfold W, PO, PI, WO, Qout. simpl.
      repeat split; auto; try congruence. + rewrite app_nil_r; auto. + unfold WO, PI; simpl. congruence.
  Qed.

  Lemma recv_loop_spec n : forall acc s p close s' tr,
    recv_loop R recv CS n acc s = (Some (p, close), s', tr) ->
    ctl s' = ctl s /\ close_sent s' = close_sent s /\ cstate s' = cstate s /\
    W s' = W s /\ PI s' = PI s /\ WO s' = WO s /\
    (exists b, p = acc ++ b /\ PO s' = PO s ++ b) /\
    sent_wire ME tr = [] /\ child_data ME tr = [] /\ child_sends ME tr = [] /\ drops tr = 0 /\
    has_open ME tr = false /\ Qin s' /\
    (close = true -> closed_in (W s') = true /\ PO s' = plain (W s')).
  Proof.
    induction n as [|n IH]; intros acc s p close s' tr H; cbn [recv_loop] in H; [discriminate|].
    binv H as a s1 t1 t2 H1 H2. opinv H1 as Ht Ha.
    generalize (recv_spec (tls s)). rewrite <- Ha. intros (Hw & Hpi & Hwo & Hx).
    destruct a as [b| | | |].
    - apply IH in H2. destruct H2 as (C & Cs & Cc & Hw' & Hpi' & Hwo' & (b' & Hp & Hpo') & D0 & D1 & D2 & D3 & D4 & Q & Cl).
      destruct Hx as [Hne Hx]. unfold W, PO, PI, WO in *. simpl in *.
      repeat split; auto; try congruence; try (apply Cl; assumption).
      exists (b ++ b'). rewrite Hp, Hpo', Hx, <- !app_assoc. auto.
    - inversion H2; subst. destruct Hx as (Hx & Hq & Hc). unfold W, PO, PI, WO, Qin. simpl.
      repeat split; auto; try congruence.
      all: try discriminate; try (exists []; rewrite !app_nil_r; auto; fail);
           try (right; unfold W, PO; simpl; congruence); try (left; unfold W; simpl; congruence).
    - inversion H2; subst. destruct Hx as (Hx & Hq & Hc). unfold W, PO, PI, WO, Qin. simpl.
      repeat split; auto; try congruence.
      all: try discriminate; try (exists []; rewrite !app_nil_r; auto; fail);
           try (right; unfold W, PO; simpl; congruence); try (left; unfold W; simpl; congruence).
    - binv H2 as a' s2 t3 t4 H3 H4. inversion H3; inversion H4; subst. destruct Hx as (Hx & Hb).
      unfold W, PO, PI, WO, Qin. simpl.
      repeat split; auto; try congruence.
      all: try discriminate; try (exists []; rewrite !app_nil_r; auto; fail);
           try (right; unfold W, PO; simpl; congruence); try (left; unfold W; simpl; congruence).
    - discriminate.
  Qed.

  Lemma send_data_spec d s u s' tr :
    send_data R bio_read sendall CS cf d s = (Some u, s', tr) ->
    ctl s' = ctl s /\ close_sent s' = close_sent s /\ cstate s' = cstate s /\
    W s' = W s /\ PO s' = PO s /\ WO s' = WO s ++ sent_wire ME tr /\
    (drops tr = 0 -> PI s' = PI s ++ d) /\
    child_data ME tr = [] /\ child_sends ME tr = [] /\ has_open ME tr = false /\ Qout s'.
  Proof.
    unfold send_data. intro H. binv H as a s1 t1 t2 H1 H2. opinv H1 as Ht Ha.
    generalize (sendall_spec (tls s) d). rewrite <- Ha. intros (Hw & Hpo & Hwo & Hx).
    binv H2 as a' s2 t3 t4 H3 H4.
    apply tls_interact_spec in H4.
    destruct H4 as (C & Cs & Cc & Hw' & Hpo' & Hpi' & Hwo' & D1 & D2 & D3 & D4 & Q).
    assert (Hs1 : s2 = set_tls R CS (fst (sendall (tls s) d)) s
                  /\ child_data ME t3 = [] /\ child_sends ME t3 = [] /\ sent_wire ME t3 = [] /\ has_open ME t3 = false
                  /\ (drops t3 = 0 -> a = SOk)).
    { destruct a; inversion H3; subst; simpl; repeat split; auto; discriminate. }
    destruct Hs1 as (-> & E1 & E2 & E3 & E4 & E5). simpl app.
    rewrite child_data_app, child_sends_app, sent_wire_app, has_open_app, drops_app, E1, E2, E3, E4, D1, D2, D4.
    unfold W, PO, PI, WO in *. simpl in *.
    repeat split; auto; try congruence.
    intro Hd. assert (Ea : a = SOk) by (apply E5; lia). rewrite Ea in Hx. congruence.
  Qed.

  Definition payload (c : cmd) : bytes :=
    match c with CSend c' d => if conn_eqb c' ME then d else [] | _ => [] end.
  Definition is_open_me (c : cmd) : bool := match c with COpen c' => conn_eqb c' ME | _ => false end.

  Section Nested.
    Variable etc : event -> MM unit.

    Lemma handle_command_spec c s u s' tr :
      is_open_me c = false ->
      handle_command R bio_write recv bio_read sendall do_handshake CS cf etc c s = (Some u, s', tr) ->
      ctl s' = ctl s /\ close_sent s' = close_sent s /\ cstate s' = cstate s /\
      W s' = W s /\ PO s' = PO s /\ WO s' = WO s ++ sent_wire ME tr /\
      (drops tr = 0 -> PI s' = PI s ++ payload c) /\
      child_data ME tr = [] /\ child_sends ME tr = [] /\ has_open ME tr = false /\ (Qout s -> Qout s').
    Proof.
      intros Ho H. unfold handle_command in H.
      assert (Emit : forall c0, (forall d, c0 <> CSend ME d) -> emit R CS (TCmd c0) s = (Some u, s', tr) ->
                ctl s' = ctl s /\ close_sent s' = close_sent s /\ cstate s' = cstate s /\
                W s' = W s /\ PO s' = PO s /\ WO s' = WO s ++ sent_wire ME tr /\
                (drops tr = 0 -> PI s' = PI s ++ []) /\
                child_data ME tr = [] /\ child_sends ME tr = [] /\ has_open ME tr = false /\ (Qout s -> Qout s')).
      { intros c0 Hn He. inversion He; subst.
        assert (Hsw : sent_wire ME [TCmd c0] = []).
        { destruct c0 as [cc dd| | | | |]; simpl; auto. destruct (conn_eqb cc ME) eqn:Ec; auto.
          apply conn_eqb_eq in Ec. subst. exfalso. eapply Hn; reflexivity. }
        rewrite Hsw, !app_nil_r. repeat split; auto. }
      destruct c as [c' d|c' h|c'| | |]; simpl payload.
      - destruct (conn_eqb c' ME) eqn:Ec.
        + apply send_data_spec in H. destruct H as (C & Cs & Cc & Hw & Hpo & Hwo & Hpi & D1 & D2 & D4 & Q).
          repeat split; auto.
        + apply Emit in H; auto. intros d0 Hd. inversion Hd; subst. rewrite conn_eqb_refl in Ec. discriminate.
      - apply Emit in H; auto. discriminate.
      - simpl in Ho. rewrite Ho in H. apply Emit in H; auto. discriminate.
      - apply Emit in H; auto. discriminate.
      - apply Emit in H; auto. discriminate.
      - apply Emit in H; auto. discriminate.
    Qed.

    Lemma cmds_spec cmds : forall s u s' tr,
      iter R CS (fun c => Bind (emit R CS (TFromChild c))
                   (fun _ => handle_command R bio_write recv bio_read sendall do_handshake CS cf etc c)) cmds s
        = (Some u, s', tr) ->
      has_open ME tr = false ->
      ctl s' = ctl s /\ close_sent s' = close_sent s /\ cstate s' = cstate s /\
      W s' = W s /\ PO s' = PO s /\ WO s' = WO s ++ sent_wire ME tr /\
      (drops tr = 0 -> PI s' = PI s ++ child_sends ME tr) /\
      child_data ME tr = [] /\ (Qout s -> Qout s').
    Proof.
      induction cmds as [|c cmds IH]; intros s u s' tr H Hno; cbn [iter] in H.
      - inversion H; subst. simpl. rewrite !app_nil_r. repeat split; auto.
      - binv H as a s1 t1 t2 H1 H2. binv H1 as a' s2 t3 t4 H3 H4. inversion H3; subst. clear H3.
        simpl app in *.
        assert (Hoc : is_open_me c = false /\ has_open ME t4 = false /\ has_open ME t2 = false).
        { change (TFromChild c :: t4 ++ t2) with ([TFromChild c] ++ t4 ++ t2) in Hno.
          rewrite !has_open_app in Hno. apply orb_false_iff in Hno. destruct Hno as [Ha Hb].
          apply orb_false_iff in Hb. destruct Hb. repeat split; auto.
          destruct c; simpl in *; auto. rewrite orb_false_r in Ha. exact Ha. }
        destruct Hoc as (Hc & Hn4 & Hn2).
        apply handle_command_spec in H4; auto.
        destruct H4 as (C & Cs & Cc & Hw & Hpo & Hwo & Hpi & D1 & D2 & D4 & Q).
        apply IH in H2; auto.
        destruct H2 as (C' & Cs' & Cc' & Hw' & Hpo' & Hwo' & Hpi' & D1' & Q').
        change (TFromChild c :: t4 ++ t2) with ([TFromChild c] ++ t4 ++ t2).
        rewrite !sent_wire_app, !child_sends_app, !child_data_app, !drops_app, D1, D2, D1'.
        change (match c with CSend c' d => if conn_eqb c' ME then d else [] | _ => [] end) with (payload c).
        simpl. repeat split; auto; try congruence.
        + rewrite Hwo', Hwo, <- app_assoc. reflexivity.
        + intro Hd. rewrite Hpi', Hpi, <- app_assoc by lia. reflexivity.
    Qed.
  End Nested.

  Notation ETC := (event_to_child R bio_write recv bio_read sendall do_handshake CS child cf).
  Notation ETOP := (etc_top R bio_write recv bio_read sendall do_handshake CS child cf).

  Definition edata (e : event) : bytes :=
    match e with EData c d => if conn_eqb c ME then d else [] | _ => [] end.

  (* event_to_child in an established tunnel: the child gets the event, its commands are executed *)
  Lemma etc_spec n e s u s' tr :
    ETC n e s = (Some u, s', tr) -> Inv s -> has_open ME tr = false ->
    ctl s' = ctl s /\ close_sent s' = close_sent s /\
    W s' = W s /\ PO s' = PO s /\ WO s' = WO s ++ sent_wire ME tr /\
    (drops tr = 0 -> PI s' = PI s ++ child_sends ME tr) /\
    child_data ME tr = edata e /\ (Qout s -> Qout s').
  Proof.
    intros H (Ht & Hts & He) Hno.
    assert (Hq : tstate_eqb (tunnel_state s) ESTABLISHING && negb (reply_to s) = false)
      by (destruct (tunnel_state s); try congruence; reflexivity).
    destruct n as [|n]; cbn [event_to_child] in H.
    - binv H as a s1 t1 t2 H1 H2. inversion H1; subst. rewrite He, Hq in H2. discriminate.
    - binv H as a s1 t1 t2 H1 H2. inversion H1; subst. clear H1. rewrite He, Hq in H2.
      binv H2 as cr s2 t3 t4 H3 H4. binv H4 as a' s3 t5 t6 H5 H6.
      unfold call_child in H3. destruct (child (cstate s1) e) as [[cs cmds] r] eqn:Ec. inversion H3; subst. clear H3.
      simpl fst in H5. simpl snd in H6.
      assert (Hr : t6 = [] /\ s' = s3) by (destruct r; [discriminate | inversion H6; auto]).
      destruct Hr as [-> ->]. simpl app in *. rewrite app_nil_r in *.
      apply cmds_spec in H5; [|simpl in Hno; exact Hno].
      destruct H5 as (C & Cs & Cc & Hw & Hpo & Hwo & Hpi & D1 & Q).
      change (TChild e :: t5) with ([TChild e] ++ t5).
      rewrite child_data_app, drops_app, D1, app_nil_r.
      repeat split; auto.
      destruct e; simpl; auto. rewrite app_nil_r; auto.
  Qed.

  (* what one handler does to the ghost views; dw: wire bytes written into the connection object *)
  Definition Step (dw : bytes) (s s' : ST) (tr : list titem) : Prop :=
    W s' = W s ++ dw /\ PO s' = PO s ++ child_data ME tr /\ WO s' = WO s ++ sent_wire ME tr /\
    (drops tr = 0 -> PI s' = PI s ++ child_sends ME tr) /\ (Qout s -> Qout s').

  Lemma Step_refl s : Step [] s s [].
  Proof. unfold Step. simpl. rewrite !app_nil_r. repeat split; auto. Qed.
  Lemma Step_comp d1 d2 s s1 s2 t1 t2 :
    Step d1 s s1 t1 -> Step d2 s1 s2 t2 -> Step (d1 ++ d2) s s2 (t1 ++ t2).
  Proof.
    intros (A1 & B1 & C1 & D1 & E1) (A2 & B2 & C2 & D2 & E2). unfold Step.
    rewrite child_data_app, sent_wire_app, child_sends_app, drops_app, A2, A1, B2, B1, C2, C1, !app_assoc.
    repeat split; auto. intro Hd. rewrite D2, D1 by lia. reflexivity.
  Qed.

  Lemma etc_top_step e s u s' tr :
    ETOP e s = (Some u, s', tr) -> Inv s -> has_open ME tr = false ->
    ctl s' = ctl s /\ close_sent s' = close_sent s /\
    W s' = W s /\ PO s' = PO s /\ WO s' = WO s ++ sent_wire ME tr /\
    (drops tr = 0 -> PI s' = PI s ++ child_sends ME tr) /\ child_data ME tr = edata e /\ (Qout s -> Qout s').
  Proof. apply etc_spec. Qed.

  Lemma Inv_ctl s s' : ctl s' = ctl s -> Inv s -> Inv s'.
  Proof. unfold ctl, Inv. intros H (A & B & C). inversion H. repeat split; congruence. Qed.

  (* the close_sent guard of receive_data / receive_close *)
  Lemma guarded_close_spec s u s' tr :
    Bind (get R CS) (fun s => if close_sent s then ret R CS tt
            else Bind (modify R CS (set_close_sent R CS true)) (fun _ => ETOP (EClose ME))) s = (Some u, s', tr) ->
    Inv s -> has_open ME tr = false ->
    ctl s' = ctl s /\ W s' = W s /\ PO s' = PO s /\ WO s' = WO s ++ sent_wire ME tr /\
    (drops tr = 0 -> PI s' = PI s ++ child_sends ME tr) /\ child_data ME tr = [] /\ (Qout s -> Qout s') /\
    (close_sent s' = close_sent s \/ close_sent s' = true).
  Proof.
    intros H HI Hno. binv H as a s1 t1 t2 H1 H2. inversion H1; subst. clear H1. simpl app in *.
    destruct (close_sent s1) eqn:Hc.
    - inversion H2; subst. simpl. rewrite !app_nil_r. repeat split; auto.
    - binv H2 as a' s2 t3 t4 H3 H4. inversion H3; subst. clear H3. simpl app in *.
      assert (I2 : Inv (set_close_sent R CS true s1)) by (destruct HI as (A & B & C); repeat split; auto).
      apply etc_top_step in H4; auto.
      destruct H4 as (C & Cs & Hw & Hpo & Hwo & Hpi & D1 & Q). simpl in D1. repeat split; auto.
  Qed.

  Notation RD := (receive_data R bio_write recv bio_read CS cf ETOP).

  Lemma receive_data_spec d s u s' tr :
    RD d s = (Some u, s', tr) -> Inv s -> has_open ME tr = false ->
    ctl s' = ctl s /\ Step d s s' tr /\ Qin s' /\ Qout s' /\
    (close_sent s = false -> close_sent s' = true -> closed_in (W s') = true /\ PO s' = plain (W s')).
  Proof.
    intros H HI Hno. unfold receive_data in H.
    binv H as a0 s0 t0 tA H0 HA.
    binv HA as pc s2 t1 tB H1 HB. destruct pc as [p close].
    binv HB as a2 s3 t2 tC H2 HC.
    binv HC as a3 s4 t3 t4 H3 H4.
    cbn [fst snd] in *.
    rewrite !has_open_app in Hno. repeat (apply orb_false_iff in Hno; destruct Hno as [? Hno]).
    (* bio_write *)
    assert (S0 : ctl s0 = ctl s /\ close_sent s0 = close_sent s /\ W s0 = W s ++ d /\ PO s0 = PO s /\ PI s0 = PI s /\ WO s0 = WO s /\ t0 = []).
    { apply when_some in H0. destruct H0 as [[Hn H0]|[Hn [-> ->]]].
      - unfold tls_bio_write in H0. opinv H0 as Ht Ha. destruct (bio_write_spec (tls s) d) as (A & B & C & D).
        unfold W, PO, PI, WO; simpl. repeat split; auto.
      - destruct d; [|discriminate]. rewrite app_nil_r. repeat split; auto. }
    destruct S0 as (C0 & Cs0 & W0 & PO0 & PI0 & WO0 & ->).
    apply recv_loop_spec in H1.
    destruct H1 as (C1 & Cs1 & Cc1 & W1 & PI1 & WO1 & (b & Hp & PO1) & E0 & E1 & E2 & E3 & E4 & Q1 & Cl1).
    simpl in Hp. subst b.
    apply tls_interact_spec in H2.
    destruct H2 as (C2 & Cs2 & Cc2 & W2 & PO2 & PI2 & WO2 & F1 & F2 & F3 & F4 & Q2).
    assert (I3 : Inv s3) by (apply (Inv_ctl s); [congruence | exact HI]).
    (* the data *)
    assert (S4 : ctl s4 = ctl s3 /\ close_sent s4 = close_sent s3 /\ W s4 = W s3 /\ PO s4 = PO s3 /\
                 WO s4 = WO s3 ++ sent_wire ME t3 /\ (drops t3 = 0 -> PI s4 = PI s3 ++ child_sends ME t3) /\
                 child_data ME t3 = p /\ (Qout s3 -> Qout s4)).
    { apply when_some in H3. destruct H3 as [[Hn H3]|[Hn [-> ->]]].
      - apply etc_top_step in H3; auto. simpl in H3. rewrite conn_eqb_refl in H3. exact H3.
      - destruct p; [|discriminate]. simpl. rewrite !app_nil_r. repeat split; auto. }
    destruct S4 as (C4 & Cs4 & W4 & PO4 & WO4 & PI4 & D4 & Q4).
    assert (I4 : Inv s4) by (apply (Inv_ctl s3); auto).
    (* the close *)
    assert (S5 : ctl s' = ctl s4 /\ W s' = W s4 /\ PO s' = PO s4 /\ WO s' = WO s4 ++ sent_wire ME t4 /\
                 (drops t4 = 0 -> PI s' = PI s4 ++ child_sends ME t4) /\ child_data ME t4 = [] /\ (Qout s4 -> Qout s') /\
                 (close_sent s' = close_sent s4 \/ (close_sent s' = true /\ close = true))).
    { apply when_some in H4. destruct H4 as [[Hn H4]|[Hn [-> ->]]].
      - apply guarded_close_spec in H4; auto.
        destruct H4 as (A & B & C & D & E & F & G & [Hk|Hk]); repeat split; auto.
      - simpl. rewrite !app_nil_r. repeat split; auto. }
    destruct S5 as (C5 & W5 & PO5 & WO5 & PI5 & D5 & Q5 & K5).
    simpl app. unfold Step.
    rewrite !child_data_app, !sent_wire_app, !child_sends_app, !drops_app, E0, E1, E2, F1, F2, D4, D5.
    simpl app. rewrite app_nil_r.
    repeat split; try congruence.
    - rewrite WO5, WO4, WO2, WO1, WO0, <- !app_assoc. reflexivity.
    - intro Hd. rewrite PI5, PI4 by lia. rewrite PI2, PI1, PI0, <- !app_assoc. reflexivity.
    - intro. auto.
    - unfold Qin in *. unfold W, PO in *. rewrite W5, W4, W2, PO5, PO4, PO2. exact Q1.
    - auto.
    - destruct K5 as [K5|[K5 Kc]]; [congruence|]. destruct (Cl1 Kc) as [Ca Cb]. unfold W in *. congruence.
    - destruct K5 as [K5|[K5 Kc]]; [congruence|]. destruct (Cl1 Kc) as [Ca Cb]. unfold W, PO in *. congruence.
  Qed.

  Notation HE := (handle_event R bio_write recv bio_read sendall do_handshake parse_hello CS child cf).

  Lemma handle_event_spec e s u s' tr :
    HE e s = (Some u, s', tr) -> e <> EStart -> Inv s -> has_open ME tr = false ->
    Inv s' /\ Step (tunnel_data ME [e]) s s' tr /\ (Qin s -> Qin s').
  Proof.
    intros H Hne HI Hno.
    assert (Pass : forall e0, edata e0 = [] -> tunnel_data ME [e0] = [] -> ETOP e0 s = (Some u, s', tr) ->
               Inv s' /\ Step (tunnel_data ME [e0]) s s' tr /\ (Qin s -> Qin s')).
    { intros e0 He0 Ht0 H0. apply etc_top_step in H0; auto.
      destruct H0 as (C & Cs & Hw & Hpo & Hwo & Hpi & D1 & Q). rewrite Ht0. unfold Step. rewrite D1, He0, !app_nil_r.
      repeat split; auto; try (eapply Inv_ctl; eauto).
      unfold Qin. unfold W, PO in *. rewrite Hw, Hpo. auto. }
    unfold handle_event in H. destruct e as [|c d|c|c err|t]; [congruence| | | |].
    - destruct (conn_eqb c ME) eqn:Ec.
      + assert (Ht0 : tunnel_data ME [EData c d] = d) by (simpl; rewrite Ec, app_nil_r; reflexivity).
        rewrite Ht0.
        binv H as a s1 t1 t2 H1 H2. inversion H1; subst. clear H1. simpl app in *.
        destruct HI as (A & B & C).
        assert (Hq : tstate_eqb (tunnel_state s1) ESTABLISHING = false) by (destruct (tunnel_state s1); try congruence; reflexivity).
        rewrite Hq in H2. apply receive_data_spec in H2; [|repeat split; auto|auto].
        destruct H2 as (C1 & St & Q1 & Q2 & _).
        split; [eapply Inv_ctl; [exact C1 | repeat split; auto] | split; [exact St | auto]].
      + apply Pass in H; auto; simpl; rewrite Ec; auto.
    - destruct (conn_eqb c ME) eqn:Ec.
      + change (tunnel_data ME [EClose c]) with (@nil byte).
        binv H as a s1 t1 t2 H1 H2. inversion H1; subst. clear H1. simpl app in *.
        binv H2 as a' s2 t3 t4 H3 H4. inversion H4; subst. clear H4. rewrite app_nil_r in *.
        assert (X : ctl s2 = ctl s1 /\ Step [] s1 s2 t3 /\ child_data ME t3 = []).
        { destruct (tstate_eqb (tunnel_state s1) OPEN).
          - unfold receive_close in H3. apply guarded_close_spec in H3; auto.
            destruct H3 as (A & B & C & D & E & F & G & _). unfold Step. rewrite F, !app_nil_r. repeat split; auto.
          - destruct HI as (A & B & C).
            assert (Hq : tstate_eqb (tunnel_state s1) ESTABLISHING = false) by (destruct (tunnel_state s1); try congruence; reflexivity).
            rewrite Hq in H3. inversion H3; subst. split; [reflexivity | split; [apply Step_refl | reflexivity]]. }
        destruct X as (C1 & St & Hcd). destruct HI as (A & B & C). unfold ctl in C1. inversion C1.
        split; [|split].
        * repeat split; simpl; congruence.
        * exact St.
        * destruct St as (S1 & S2 & _). unfold Qin, W, PO in *. simpl.
          rewrite app_nil_r in S1. rewrite Hcd, app_nil_r in S2. rewrite S1, S2. auto.
      + apply Pass in H; auto.
    - apply Pass in H; auto.
    - apply Pass in H; auto.
  Qed.

  Notation STEP := (step R bio_write recv bio_read sendall do_handshake parse_hello CS child cf).
  Notation RUN := (run R bio_write recv bio_read sendall do_handshake parse_hello CS child cf).

  Lemma handle_event_ok e s :
    crashed (stt R CS (HE e s)) = None -> okv R CS (HE e s) = true.
  Proof.
    intro Hc. generalize (handle_event_T R bio_write recv bio_read sendall do_handshake parse_hello CS child cf e s).
    intros (_ & _ & C). destruct (okv R CS (HE e s)); auto. exfalso. apply C; auto.
  Qed.

  Lemma step_spec e s :
    crashed s = None -> e <> EStart -> Inv s ->
    crashed (fst (STEP s e)) = None -> has_open ME (snd (STEP s e)) = false ->
    Inv (fst (STEP s e)) /\ Step (tunnel_data ME [e]) s (fst (STEP s e)) (snd (STEP s e)) /\
    (Qin s -> Qin (fst (STEP s e))).
  Proof.
    intros Hc Hne HI. unfold step. rewrite Hc. generalize (handle_event_ok e s).
    destruct (HE e s) as [[v s'] tr] eqn:E. cbn [fst snd stt okv val]. intros Hok Hc' Hno.
    specialize (Hok Hc'). destruct v as [[]|]; [|discriminate].
    eapply handle_event_spec; eauto.
  Qed.

  Lemma run_crashed evs : forall s, crashed s <> None -> RUN s evs = (s, []).
  Proof.
    induction evs as [|e evs IH]; intros s Hc; cbn [run]; auto.
    unfold step. destruct (crashed s) eqn:E; [|congruence]. rewrite IH by congruence. reflexivity.
  Qed.

  (* Main invariant: an established tunnel, any sequence of events *)
  Theorem run_spec evs : forall s,
    crashed s = None -> Inv s -> no_start evs ->
    crashed (fst (RUN s evs)) = None -> has_open ME (snd (RUN s evs)) = false ->
    Inv (fst (RUN s evs)) /\ Step (tunnel_data ME evs) s (fst (RUN s evs)) (snd (RUN s evs)) /\
    (Qin s -> Qin (fst (RUN s evs))).
  Proof.
    induction evs as [|e evs IH]; intros s Hc HI Hns; cbn [run].
    - intros _ _. simpl. split; [auto | split; [apply Step_refl | auto]].
    - destruct (STEP s e) as [s1 t1] eqn:E1. destruct (RUN s1 evs) as [s2 t2] eqn:E2. cbn [fst snd].
      intros Hc2 Hno. rewrite has_open_app in Hno. apply orb_false_iff in Hno. destruct Hno as [Hn1 Hn2].
      assert (Hc1 : crashed s1 = None).
      { destruct (crashed s1) eqn:Ec; auto. rewrite run_crashed in E2 by congruence. inversion E2; subst. congruence. }
      assert (Hne : e <> EStart) by (intro; subst; apply Hns; left; reflexivity).
      assert (Hns' : no_start evs) by (intro Hin; apply Hns; right; exact Hin).
      generalize (step_spec e s Hc Hne HI). rewrite E1. cbn [fst snd]. intros X. destruct (X Hc1 Hn1) as (I1 & S1 & Q1).
      generalize (IH s1 Hc1 I1 Hns'). rewrite E2. cbn [fst snd]. intros Y. destruct (Y Hc2 Hn2) as (I2 & S2 & Q2).
      change (e :: evs) with ([e] ++ evs). rewrite tunnel_data_app.
      split; [exact I2 | split; [eapply Step_comp; eauto | auto]].
  Qed.

  (* Inbound transparency: whatever the cutting of the wire stream into records and segments and
     whatever happens in between, the child has been given exactly the plaintext of the wire stream *)
  Theorem inbound_transparent evs s :
    crashed s = None -> Inv s -> no_start evs -> Qin s ->
    let s' := fst (RUN s evs) in let tr := snd (RUN s evs) in
    crashed s' = None -> has_open ME tr = false ->
    W s' = W s ++ tunnel_data ME evs /\ PO s' = PO s ++ child_data ME tr /\
    (~ bad (W s') -> PO s ++ child_data ME tr = plain (W s ++ tunnel_data ME evs)).
  Proof.
    intros Hc HI Hns Hq s' tr Hc' Hno. destruct (run_spec evs s Hc HI Hns Hc' Hno) as (I & (A & B & _) & Q).
    fold s' tr in A, B, Q. repeat split; auto. intro Hb. destruct (Q Hq) as [Hbad|He]; [tauto|]. congruence.
  Qed.

  (* Outbound transparency: the peer decodes exactly what the child asked to send *)
  Theorem outbound_transparent evs s :
    crashed s = None -> Inv s -> no_start evs -> Qout s ->
    let s' := fst (RUN s evs) in let tr := snd (RUN s evs) in
    crashed s' = None -> has_open ME tr = false -> drops tr = 0 ->
    peer_plain (WO s ++ sent_wire ME tr) = PI s ++ child_sends ME tr.
  Proof.
    intros Hc HI Hns Hq s' tr Hc' Hno Hd. destruct (run_spec evs s Hc HI Hns Hc' Hno) as (I & (_ & _ & C & D & E) & _).
    fold s' tr in C, D, E. specialize (E Hq). unfold Qout in E. rewrite C, (D Hd) in E. exact E.
  Qed.

  (* close_notify: when the tunnel dispatches ConnectionClosed because of a close_notify, every
     plaintext byte of the wire stream has been given to the child before *)
  Theorem close_after_all_data d s :
    crashed s = None -> Inv s -> close_sent s = false ->
    let s' := fst (STEP s (EData ME d)) in let tr := snd (STEP s (EData ME d)) in
    crashed s' = None -> has_open ME tr = false -> close_sent s' = true ->
    closed_in (W s') = true /\ PO s ++ child_data ME tr = plain (W s') /\ W s' = W s ++ d.
  Proof.
    intros Hc HI Hcs. unfold step. rewrite Hc. generalize (handle_event_ok (EData ME d) s).
    destruct (HE (EData ME d) s) as [[v s'] tr] eqn:E. cbn [fst snd stt okv val]. intros Hok Hc' Hno Hcs'.
    specialize (Hok Hc'). destruct v as [[]|]; [|discriminate].
    unfold handle_event in E. rewrite conn_eqb_refl in E.
    binv E as a s1 t1 t2 H1 H2. inversion H1; subst. clear H1. simpl app in *.
    destruct HI as (A & B & C).
    assert (Hq : tstate_eqb (tunnel_state s1) ESTABLISHING = false) by (destruct (tunnel_state s1); try congruence; reflexivity).
    rewrite Hq in H2. apply receive_data_spec in H2; [|repeat split; auto|auto].
    destruct H2 as (C1 & (S1 & S2 & _) & Q1 & Q2 & Cl). destruct (Cl Hcs Hcs') as [Ca Cb].
    repeat split; auto. congruence.
  Qed.

  (* ... and nothing is delivered afterwards, whatever arrives *)
  Hypothesis closed_final : forall w x, closed_in w = true -> plain (w ++ x) = plain w.

  Theorem no_data_after_close_notify evs s :
    crashed s = None -> Inv s -> no_start evs -> closed_in (W s) = true -> PO s = plain (W s) ->
    let s' := fst (RUN s evs) in let tr := snd (RUN s evs) in
    crashed s' = None -> has_open ME tr = false -> ~ bad (W s') ->
    child_data ME tr = [].
  Proof.
    intros Hc HI Hns Hcl Hpo s' tr Hc' Hno Hb.
    destruct (inbound_transparent evs s Hc HI Hns (or_intror Hpo) Hc' Hno) as (A & B & C).
    fold s' tr in A, B, C. specialize (C Hb). rewrite closed_final in C by exact Hcl.
    rewrite <- Hpo in C. rewrite <- (app_nil_r (PO s)) in C at 2. apply app_inv_head in C. exact C.
  Qed.
End Data.
