(* Proofs/WsUtf8.v -- facts about the UTF-8 model: encoding the replace-decoding of a byte string
   gives the byte string back exactly when it is valid UTF-8; validity splits at code-point boundaries. *)
From Coq Require Import List Bool Arith NArith ZArith Lia ZifyBool.
From MV Require Import Base.Bytes Model.WsUtf8.
Import ListNotations.
Local Open Scope N_scope.

Lemma is_cont_range b : is_cont b = true -> 128 <= bN b <= 191.
Proof. unfold is_cont. intros H. apply andb_true_iff in H as [H1 H2]. lia. Qed.

Lemma second_ok_cont b0 b1 : second_ok b0 b1 = true -> is_cont b1 = true.
Proof. unfold second_ok. intros H. apply andb_true_iff in H as [H _]. exact H. Qed.

Lemma Nb_eq (n : N) (b : byte) : n = bN b -> Nb n = b.
Proof. intros ->. apply Nb_bN. Qed.

Lemma dm_div a r k : r < k -> (a * k + r) / k = a.
Proof. intros H. symmetry. apply (N.div_unique _ _ a r); [exact H|]. rewrite N.mul_comm. reflexivity. Qed.
Lemma dm_mod a r k : r < k -> (a * k + r) mod k = r.
Proof. intros H. symmetry. apply (N.mod_unique _ _ a r); [exact H|]. rewrite N.mul_comm. reflexivity. Qed.

Lemma enc1 b : bN b < 128 -> encode_cp (bN b) = [b].
Proof.
  intros H. unfold encode_cp. destruct (bN b <? 128) eqn:E; [|lia]. now rewrite Nb_bN.
Qed.

Lemma enc2 b0 b1 : 194 <= bN b0 -> bN b0 < 224 -> is_cont b1 = true ->
  encode_cp (cp2 b0 b1) = [b0; b1].
Proof.
  intros H0 H0' H1. apply is_cont_range in H1. unfold cp2.
  remember (bN b0 - 192) as x eqn:Ex. remember (bN b1 - 128) as y eqn:Ey.
  assert (Hy : y < 64) by lia. assert (Hx : 2 <= x < 32) by lia.
  unfold encode_cp.
  destruct (_ <? 128) eqn:E1; [lia|]. destruct (_ <? 2048) eqn:E2; [|lia].
  rewrite dm_div, dm_mod by exact Hy.
  f_equal; [|f_equal]; apply Nb_eq; lia.
Qed.

Lemma second_ok3 b0 b1 : 224 <= bN b0 -> bN b0 < 240 -> second_ok b0 b1 = true ->
  128 <= bN b1 <= 191 /\ 32 <= (bN b0 - 224) * 64 + (bN b1 - 128).
Proof.
  intros H0 H0' H. pose proof (is_cont_range _ (second_ok_cont _ _ H)) as Hc.
  unfold second_ok in H. apply andb_true_iff in H as [_ H].
  destruct (bN b0 =? 224) eqn:E; lia.
Qed.

Lemma enc3 b0 b1 b2 : 224 <= bN b0 -> bN b0 < 240 -> second_ok b0 b1 = true -> is_cont b2 = true ->
  encode_cp (cp3 b0 b1 b2) = [b0; b1; b2].
Proof.
  intros H0 H0' H1 H2. apply is_cont_range in H2.
  destruct (second_ok3 _ _ H0 H0' H1) as (Hc & Hlo).
  unfold cp3.
  remember (bN b0 - 224) as x eqn:Ex. remember (bN b1 - 128) as y eqn:Ey. remember (bN b2 - 128) as z eqn:Ez.
  assert (Hx : x < 16) by lia. assert (Hy : y < 64) by lia. assert (Hz : z < 64) by lia.
  unfold encode_cp.
  destruct (_ <? 128) eqn:E1; [lia|]. destruct (_ <? 2048) eqn:E2; [lia|].
  destruct (_ <? 65536) eqn:E3; [|lia].
  replace (x * 4096 + y * 64 + z) with ((x * 64 + y) * 64 + z) by lia.
  rewrite (dm_div _ z 64), (dm_mod _ z 64), (dm_mod x y 64) by assumption.
  replace ((x * 64 + y) * 64 + z) with (x * 4096 + (y * 64 + z)) by lia.
  rewrite dm_div by lia.
  f_equal; [|f_equal; [|f_equal]]; apply Nb_eq; lia.
Qed.

Lemma second_ok4 b0 b1 : 240 <= bN b0 -> bN b0 < 245 -> second_ok b0 b1 = true ->
  128 <= bN b1 <= 191 /\ 16 <= (bN b0 - 240) * 64 + (bN b1 - 128).
Proof.
  intros H0 H0' H. pose proof (is_cont_range _ (second_ok_cont _ _ H)) as Hc.
  unfold second_ok in H. apply andb_true_iff in H as [_ H].
  destruct (bN b0 =? 224) eqn:E; [lia|]. destruct (bN b0 =? 237) eqn:E'; [lia|].
  destruct (bN b0 =? 240) eqn:E''; lia.
Qed.

Lemma enc4 b0 b1 b2 b3 : 240 <= bN b0 -> bN b0 < 245 -> second_ok b0 b1 = true ->
  is_cont b2 = true -> is_cont b3 = true ->
  encode_cp (cp4 b0 b1 b2 b3) = [b0; b1; b2; b3].
Proof.
  intros H0 H0' H1 H2 H3. apply is_cont_range in H2. apply is_cont_range in H3.
  destruct (second_ok4 _ _ H0 H0' H1) as (Hc & Hlo).
  unfold cp4.
  remember (bN b0 - 240) as x eqn:Ex. remember (bN b1 - 128) as y eqn:Ey.
  remember (bN b2 - 128) as z eqn:Ez. remember (bN b3 - 128) as w eqn:Ew.
  assert (Hx : x < 5) by lia. assert (Hy : y < 64) by lia. assert (Hz : z < 64) by lia. assert (Hw : w < 64) by lia.
  unfold encode_cp.
  destruct (_ <? 128) eqn:E1; [lia|]. destruct (_ <? 2048) eqn:E2; [lia|].
  destruct (_ <? 65536) eqn:E3; [lia|].
  replace (x * 262144 + y * 4096 + z * 64 + w) with (((x * 64 + y) * 64 + z) * 64 + w) by lia.
  rewrite (dm_div _ w 64), (dm_mod _ w 64), (dm_mod _ z 64) by assumption.
  replace (((x * 64 + y) * 64 + z) * 64 + w) with ((x * 64 + y) * 4096 + (z * 64 + w)) by lia.
  rewrite (dm_div _ (z * 64 + w) 4096), (dm_mod x y 64) by lia.
  replace ((x * 64 + y) * 4096 + (z * 64 + w)) with (x * 262144 + (y * 4096 + z * 64 + w)) by lia.
  rewrite dm_div by lia.
  f_equal; [|f_equal; [|f_equal; [|f_equal]]]; apply Nb_eq; lia.
Qed.

(* induction on the length, for the scanners that consume 1 to 4 bytes per step *)
Lemma len_ind (P : bytes -> Prop) :
  (forall s, (forall t, (length t < length s)%nat -> P t) -> P s) -> forall s, P s.
Proof.
  intros H s. remember (length s) as n eqn:En.
  revert s En. induction n as [n IH] using lt_wf_ind. intros s ->.
  apply H. intros t Ht. eapply IH; [exact Ht|reflexivity].
Qed.

Lemma encode_cons c s : encode (c :: s) = encode_cp c ++ encode s.
Proof. reflexivity. Qed.

(* valid UTF-8 is sent unchanged *)
Lemma enc_dec_valid : forall s, utf8_valid s = true -> encode (decode_replace s) = s.
Proof.
  induction s as [s IH] using len_ind. destruct s as [|b0 r0]; [reflexivity|].
  cbn [utf8_valid decode_replace].
  destruct (bN b0 <? 128) eqn:E1.
  { intros V. rewrite encode_cons, enc1 by lia. cbn [app]. f_equal. apply IH; [cbn; lia|exact V]. }
  destruct (bN b0 <? 194) eqn:E2; [discriminate|].
  destruct (bN b0 <? 224) eqn:E3.
  { destruct r0 as [|b1 r1]; [discriminate|]. intros V. apply andb_true_iff in V as [V1 V].
    rewrite V1, encode_cons, enc2 by (try lia; exact V1). cbn [app]. do 2 f_equal. apply IH; [cbn; lia|exact V]. }
  destruct (bN b0 <? 240) eqn:E4.
  { destruct r0 as [|b1 [|b2 r2]]; try discriminate. intros V.
    apply andb_true_iff in V as [V V3]. apply andb_true_iff in V as [V1 V2].
    rewrite V1, V2, encode_cons, enc3 by (try lia; assumption). cbn [app]. do 3 f_equal.
    apply IH; [cbn; lia|exact V3]. }
  destruct (bN b0 <? 245) eqn:E5; [|discriminate].
  destruct r0 as [|b1 [|b2 [|b3 r3]]]; try discriminate. intros V.
  apply andb_true_iff in V as [V V4]. apply andb_true_iff in V as [V V3]. apply andb_true_iff in V as [V1 V2].
  rewrite V1, V2, V3, encode_cons, enc4 by (try lia; assumption). cbn [app]. do 4 f_equal.
  apply IH; [cbn; lia|exact V4].
Qed.

(* ---- validity and cuts ---- *)

Definition starts_ok (s : bytes) : bool :=
  match s with [] => true | b :: _ => negb (is_cont b) end.

(* a valid string cut where the next byte does not continue a character gives two valid strings *)
Lemma valid_split : forall a b : bytes, utf8_valid (a ++ b) = true -> starts_ok b = true ->
  utf8_valid a = true /\ utf8_valid b = true.
Proof.
  induction a as [a IH] using len_ind. intros b V S.
  destruct a as [|b0 a0]; [split; [reflexivity|exact V]|].
  cbn [app utf8_valid] in V |- *.
  destruct (bN b0 <? 128) eqn:E1; [apply IH; [cbn; lia|exact V|exact S]|].
  destruct (bN b0 <? 194) eqn:E2; [discriminate|].
  assert (Hb : forall x r, b = x :: r -> is_cont x = true -> False).
  { intros x r -> Hx. cbn in S. rewrite Hx in S. discriminate. }
  destruct (bN b0 <? 224) eqn:E3.
  { destruct a0 as [|b1 a1]; cbn [app] in V.
    - destruct b as [|x r]; [discriminate|]. apply andb_true_iff in V as [V1 _]. exfalso; eauto.
    - apply andb_true_iff in V as [V1 V]. rewrite V1. cbn [andb]. apply IH; [cbn; lia|exact V|exact S]. }
  destruct (bN b0 <? 240) eqn:E4.
  { destruct a0 as [|b1 [|b2 a2]]; cbn [app] in V.
    - destruct b as [|x [|y r]]; try discriminate.
      apply andb_true_iff in V as [V _]. apply andb_true_iff in V as [V1 _].
      exfalso; eauto using second_ok_cont.
    - destruct b as [|y r]; try discriminate.
      apply andb_true_iff in V as [V _]. apply andb_true_iff in V as [_ V2]. exfalso; eauto.
    - apply andb_true_iff in V as [V V3]. rewrite V. cbn [andb]. apply IH; [cbn; lia|exact V3|exact S]. }
  destruct (bN b0 <? 245) eqn:E5; [|discriminate].
  destruct a0 as [|b1 [|b2 [|b3 a3]]]; cbn [app] in V.
  - destruct b as [|x [|y [|z r]]]; try discriminate.
    apply andb_true_iff in V as [V _]. apply andb_true_iff in V as [V _]. apply andb_true_iff in V as [V1 _].
    exfalso; eauto using second_ok_cont.
  - destruct b as [|y [|z r]]; try discriminate.
    apply andb_true_iff in V as [V _]. apply andb_true_iff in V as [V _]. apply andb_true_iff in V as [_ V2].
    exfalso; eauto.
  - destruct b as [|z r]; try discriminate.
    apply andb_true_iff in V as [V _]. apply andb_true_iff in V as [_ V3]. exfalso; eauto.
  - apply andb_true_iff in V as [V V4]. rewrite V. cbn [andb]. apply IH; [cbn; lia|exact V4|exact S].
Qed.

Lemma valid_app : forall a b : bytes, utf8_valid a = true -> utf8_valid b = true -> utf8_valid (a ++ b) = true.
Proof.
  induction a as [a IH] using len_ind. intros b Va Vb.
  destruct a as [|b0 a0]; [exact Vb|].
  cbn [app utf8_valid] in Va |- *.
  destruct (bN b0 <? 128); [apply IH; [cbn; lia|exact Va|exact Vb]|].
  destruct (bN b0 <? 194); [discriminate|].
  destruct (bN b0 <? 224).
  { destruct a0 as [|b1 a1]; [discriminate|]. cbn [app]. apply andb_true_iff in Va as [V1 V].
    rewrite V1. cbn [andb]. apply IH; [cbn; lia|exact V|exact Vb]. }
  destruct (bN b0 <? 240).
  { destruct a0 as [|b1 [|b2 a2]]; try discriminate. cbn [app]. apply andb_true_iff in Va as [V V3].
    rewrite V. cbn [andb]. apply IH; [cbn; lia|exact V3|exact Vb]. }
  destruct (bN b0 <? 245); [|discriminate].
  destruct a0 as [|b1 [|b2 [|b3 a3]]]; try discriminate. cbn [app]. apply andb_true_iff in Va as [V V4].
  rewrite V. cbn [andb]. apply IH; [cbn; lia|exact V4|exact Vb].
Qed.

(* pieces of a valid string, each starting at a code-point boundary, are all valid *)
Lemma starts_ok_concat : forall ps, Forall (fun p => starts_ok p = true) ps -> starts_ok (concat ps) = true.
Proof.
  induction 1 as [|p ps Hp _ IH]; [reflexivity|]. cbn [concat].
  destruct p; [exact IH|exact Hp].
Qed.

Lemma pieces_valid : forall ps, utf8_valid (concat ps) = true ->
  Forall (fun p => starts_ok p = true) ps -> Forall (fun p => utf8_valid p = true) ps.
Proof.
  induction ps as [|p ps IH]; intros V S; [constructor|].
  inversion S as [|? ? Sp Sps]; subst. cbn [concat] in V.
  destruct (valid_split _ _ V (starts_ok_concat _ Sps)) as [Vp Vr].
  constructor; [exact Vp|apply IH; assumption].
Qed.

Lemma concat_valid : forall ps, Forall (fun p => utf8_valid p = true) ps -> utf8_valid (concat ps) = true.
Proof.
  induction 1 as [|p ps Hp _ IH]; [reflexivity|]. cbn [concat]. apply valid_app; assumption.
Qed.

(* ---- converse: only valid UTF-8 is sent unchanged ---- *)

Lemma repl_bytes : encode_cp REPL = [xef; xbf; xbd].
Proof. vm_compute. reflexivity. Qed.

Ltac kill E := try (vm_compute in E; discriminate E).

Lemma enc_dec_only_valid : forall s : bytes, encode (decode_replace s) = s -> utf8_valid s = true.
Proof.
  induction s as [s IH] using len_ind. destruct s as [|b0 r0]; [reflexivity|].
  cbn [utf8_valid decode_replace].
  destruct (bN b0 <? 128) eqn:E1.
  { rewrite encode_cons, enc1 by lia. cbn [app]. intros H. injection H as H. apply IH; [cbn; lia|exact H]. }
  destruct (bN b0 <? 194) eqn:E2.
  { rewrite encode_cons, repl_bytes. cbn [app]. intros H. injection H as Hb _. subst b0. kill E2. }
  destruct (bN b0 <? 224) eqn:E3.
  { destruct r0 as [|b1 r1].
    - rewrite encode_cons, repl_bytes. discriminate.
    - destruct (is_cont b1) eqn:C1.
      + rewrite encode_cons, enc2 by (try lia; exact C1). cbn [app andb]. intros H. injection H as H.
        apply IH; [cbn; lia|exact H].
      + rewrite encode_cons, repl_bytes. cbn [app]. intros H. injection H as Hb _. subst b0. kill E3. }
  destruct (bN b0 <? 240) eqn:E4.
  { destruct r0 as [|b1 r1].
    - rewrite encode_cons, repl_bytes. discriminate.
    - destruct (second_ok b0 b1) eqn:S1.
      + destruct r1 as [|b2 r2].
        * rewrite encode_cons, repl_bytes. discriminate.
        * destruct (is_cont b2) eqn:C2.
          -- rewrite encode_cons, enc3 by (try lia; assumption). cbn [app andb]. intros H. injection H as H.
             apply IH; [cbn; lia|exact H].
          -- rewrite encode_cons, repl_bytes. cbn [app]. intros H. injection H as _ _ Hb _. subst b2. kill C2.
      + rewrite encode_cons, repl_bytes. cbn [app]. intros H. injection H as Hb0 Hb1 _. subst b0 b1. kill S1. }
  destruct (bN b0 <? 245) eqn:E5.
  { destruct r0 as [|b1 r1].
    - rewrite encode_cons, repl_bytes. discriminate.
    - destruct (second_ok b0 b1) eqn:S1.
      + destruct r1 as [|b2 r2].
        * rewrite encode_cons, repl_bytes. discriminate.
        * destruct (is_cont b2) eqn:C2.
          -- destruct r2 as [|b3 r3].
             ++ rewrite encode_cons, repl_bytes. cbn [app encode flat_map]. intros H. injection H as Hb _. subst b0. kill E4.
             ++ destruct (is_cont b3) eqn:C3.
                ** rewrite encode_cons, enc4 by (try lia; assumption). cbn [app andb]. intros H. injection H as H.
                   apply IH; [cbn; lia|exact H].
                ** rewrite encode_cons, repl_bytes. cbn [app]. intros H. injection H as Hb _. subst b0. kill E4.
          -- rewrite encode_cons, repl_bytes. cbn [app]. intros H. injection H as Hb _. subst b0. kill E4.
      + rewrite encode_cons, repl_bytes. cbn [app]. intros H. injection H as Hb _. subst b0. kill E4. }
  rewrite encode_cons, repl_bytes. cbn [app]. intros H. injection H as Hb _. subst b0. kill E5.
Qed.

Theorem sent_unchanged_iff_valid : forall s : bytes, encode (decode_replace s) = s <-> utf8_valid s = true.
Proof. intros s. split; [apply enc_dec_only_valid|apply enc_dec_valid]. Qed.
