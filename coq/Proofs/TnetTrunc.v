(* Proofs/TnetTrunc.v -- crash consistency (C37): reading any prefix of a concatenation of
   encoded records yields exactly the completely contained records, in order, and then ends
   cleanly (cut at a record boundary) or with a read error (cut inside a record). *)
From Coq Require Import List Bool Arith NArith ZArith Lia.
From MV Require Import Base.Bytes Model.Tnet Proofs.TnetBase Proofs.TnetRoundtrip.
Import ListNotations.

Definition file_of (vs : list tv) : bytes := concat (map dumps vs).

(* the records completely contained in the first k bytes, and whether k is a record boundary *)
Fixpoint complete (vs : list tv) (k : nat) : list tv * bool :=
  match vs with
  | [] => ([], true)
  | v :: r =>
      let n := length (dumps v) in
      if (n <=? k)%nat then let c := complete r (k - n) in (v :: fst c, snd c)
      else ([], (k =? 0)%nat)
  end.

Lemma read_len_all_digits ds : forall cnt,
  Forall (fun c => is_digit c = true) ds -> read_len ds cnt = None.
Proof.
  induction ds as [|c r IH]; intros cnt H; cbn [read_len]; [reflexivity|].
  inversion H as [|? ? Hc Hr]; subst. rewrite Hc.
  destruct (12 <? S cnt)%nat; [reflexivity|]. now rewrite IH.
Qed.

Lemma Forall_firstn {A} (P : A -> Prop) k (l : list A) : Forall P l -> Forall P (firstn k l).
Proof. revert l. induction k; intros [|x l] H; cbn [firstn]; auto. inversion H; subst. constructor; auto. Qed.

Lemma In_firstn_incl {A} (l : list A) : forall j x, In x (firstn j l) -> In x l.
Proof. induction l as [|a l IH]; intros [|j] x; cbn [firstn In]; try tauto. intros [->|H]; eauto. Qed.

Section Trunc.
  Variable pyfloat : bytes -> option (bytes * option Z).

  (* a strict prefix of one frame never loads as a value *)
  Lemma load_truncated_frame depth p ty k :
    (length (dec_N (blen p)) <= 12)%nat -> (k < length (frame p ty))%nat ->
    load pyfloat depth (firstn k (frame p ty)) =
      if (k =? 0)%nat then LEof
      else if (k <=? length (dec_N (blen p)))%nat then LExc ValueError else LExc IndexError.
  Proof.
    intros H12 Hk. unfold frame in *.
    pose proof (dec_N_digits (blen p)) as HF. pose proof (digits_val_dec_N (blen p)) as HV.
    set (ds := dec_N (blen p)) in *.
    destruct (k =? 0)%nat eqn:E0; [apply Nat.eqb_eq in E0; subst k; reflexivity|].
    apply Nat.eqb_neq in E0.
    destruct (k <=? length ds)%nat eqn:E1.
    - apply Nat.leb_le in E1. rewrite firstn_app.
      replace (k - length ds)%nat with 0%nat by lia. cbn [firstn]. rewrite app_nil_r.
      assert (Hd : Forall (fun c => is_digit c = true) (firstn k ds)) by now apply Forall_firstn.
      destruct (firstn k ds) as [|c r] eqn:Ef.
      + exfalso. assert (length (firstn k ds) = 0%nat) by now rewrite Ef. rewrite firstn_length in H. lia.
      + unfold load. now rewrite read_len_all_digits.
    - apply Nat.leb_gt in E1. rewrite firstn_app, firstn_all2 by lia.
      destruct (k - length ds)%nat as [|j] eqn:Ej; [lia|]. cbn [firstn].
      rewrite app_length in Hk. cbn [length] in Hk. rewrite app_length in Hk. cbn [length] in Hk.
      rewrite firstn_app. replace (j - length p)%nat with 0%nat by lia. cbn [firstn]. rewrite app_nil_r.
      destruct ds as [|c r] eqn:Eds; [now apply dec_N_nonempty in Eds|].
      change ((c :: r) ++ x3a :: firstn j p) with (c :: (r ++ x3a :: firstn j p)).
      unfold load.
      change (c :: r ++ x3a :: firstn j p) with ((c :: r) ++ x3a :: firstn j p).
      rewrite read_len_digits by (auto; cbn [length] in *; lia).
      rewrite HV.
      assert (Ed : dropN (blen p) (firstn j p) = []).
      { unfold dropN, blen. rewrite firstn_length. rewrite N.min_r by lia. rewrite Nat2N.id.
        apply skipn_all2. rewrite firstn_length. lia. }
      now rewrite Ed.
  Qed.

  Variables outer inner : pyexc -> bool.
  Variable from_state : tv -> option pyexc.
  Variable depth : nat.
  Hypothesis outer_value : outer ValueError = true.
  Hypothesis outer_index : outer IndexError = true.

  (* a record that the untruncated file delivers as a flow *)
  Definition loadable (v : tv) : Prop :=
    wf pyfloat v /\ top_ok v /\ (height v <= depth)%nat /\ is_dict v = true /\ from_state (mirror v) = None.

  Lemma is_dict_mirror v : is_dict (mirror v) = is_dict v.
  Proof. destruct v; reflexivity. Qed.

  Lemma stream_loop_truncated vs : forall n k,
    Forall loadable vs -> (length (firstn k (file_of vs)) < n)%nat ->
    stream_loop pyfloat outer inner from_state depth n (firstn k (file_of vs)) =
      (map mirror (fst (complete vs k)), if snd (complete vs k) then Clean else ReadError).
  Proof.
    induction vs as [|v r IH]; intros n k HF Hn.
    - unfold file_of. cbn [map concat]. rewrite firstn_nil. destruct n; [cbn in Hn; lia|]. reflexivity.
    - inversion HF as [|? ? (Hwf & Htop & Hh & Hd & Hfs) Hr]; subst.
      unfold file_of in *. cbn [map concat complete] in *.
      rewrite firstn_app in *.
      destruct (length (dumps v) <=? k)%nat eqn:E.
      + apply Nat.leb_le in E. rewrite firstn_all2 in * by lia.
        destruct n as [|n]; [lia|]. cbn [stream_loop].
        rewrite load_dumps by auto. rewrite is_dict_mirror, Hd, Hfs.
        rewrite app_length in Hn.
        assert (L1 : (1 <= length (dumps v))%nat).
        { rewrite dumps_is_spec. destruct (dumps_spec_nonempty v) as (c & t & ->). cbn [length]. lia. }
        rewrite IH by (auto; lia). cbn [fst snd map]. reflexivity.
      + apply Nat.leb_gt in E.
        replace (k - length (dumps v))%nat with 0%nat in * by lia. cbn [firstn] in *. rewrite app_nil_r in *.
        destruct n as [|n]; [lia|]. cbn [stream_loop fst snd map].
        rewrite dumps_is_spec, dumps_spec_frame in *.
        rewrite load_truncated_frame by auto.
        destruct (k =? 0)%nat; [reflexivity|].
        destruct (k <=? length (dec_N (blen (payload v))))%nat; [now rewrite outer_value | now rewrite outer_index].
  Qed.

  Lemma digit_not_brace c : is_digit c = true -> byte_eqb x7b c = false /\ byte_eqb xef c = false.
  Proof.
    revert c. assert (H : forall c, (negb (is_digit c) || (negb (byte_eqb x7b c) && negb (byte_eqb xef c))) = true)
      by (apply forall_bytes; vm_compute; reflexivity).
    intros c Hc. specialize (H c). rewrite Hc in H. cbn [negb orb] in H.
    apply andb_true_iff in H. destruct H as [H1 H2]. now rewrite negb_true_iff in H1, H2.
  Qed.

  Lemma file_starts_with_digit vs k :
    match firstn k (file_of vs) with [] => True | c :: _ => is_digit c = true end.
  Proof.
    destruct vs as [|v r]; [unfold file_of; cbn [map concat]; now rewrite firstn_nil|].
    unfold file_of. cbn [map concat]. rewrite dumps_is_spec, dumps_spec_frame. unfold frame.
    pose proof (dec_N_digits (blen (payload v))) as HF.
    destruct (dec_N (blen (payload v))) as [|c t] eqn:Ed; [now apply dec_N_nonempty in Ed|].
    inversion HF; subst. destruct k; cbn [firstn app]; auto.
  Qed.

  (* C37, model level *)
  Theorem stream_truncated vs k :
    Forall loadable vs ->
    stream pyfloat outer inner from_state depth (firstn k (file_of vs)) =
      (map mirror (fst (complete vs k)), if snd (complete vs k) then Clean else ReadError).
  Proof.
    intros HF. unfold stream.
    pose proof (file_starts_with_digit vs k) as Hs.
    destruct (firstn k (file_of vs)) as [|c t] eqn:Ef.
    - cbn [starts_with bom_brace orb]. rewrite <- Ef. apply stream_loop_truncated; [auto | lia].
    - destruct (digit_not_brace _ Hs) as [B1 B2].
      unfold bom_brace. cbn [starts_with]. rewrite B1, B2. cbn [andb orb].
      rewrite <- Ef. apply stream_loop_truncated; auto.
  Qed.

  (* the records delivered from a truncated file are a prefix of the records written,
     and a cut inside a record is always reported *)
  Lemma complete_prefix vs : forall k, exists rest, vs = fst (complete vs k) ++ rest.
  Proof.
    induction vs as [|v r IH]; intros k; cbn [complete]; [exists []; reflexivity|].
    destruct (length (dumps v) <=? k)%nat.
    - destruct (IH (k - length (dumps v))%nat) as [rest E]. exists rest. cbn [fst app]. now rewrite <- E.
    - exists (v :: r). reflexivity.
  Qed.

  Lemma complete_all vs k : (length (file_of vs) <= k)%nat -> complete vs k = (vs, true).
  Proof.
    revert k. induction vs as [|v r IH]; intros k Hk; [reflexivity|].
    unfold file_of in *. cbn [map concat complete] in *. rewrite app_length in Hk.
    destruct (length (dumps v) <=? k)%nat eqn:E; [|apply Nat.leb_gt in E; lia].
    rewrite IH by lia. reflexivity.
  Qed.

  Lemma complete_boundary vs j : (j <= length vs)%nat ->
    complete vs (length (file_of (firstn j vs))) = (firstn j vs, true).
  Proof.
    revert j. induction vs as [|v r IH]; intros j Hj.
    - destruct j; reflexivity.
    - destruct j as [|j]; cbn [firstn].
      + unfold file_of. cbn [map concat length complete].
        assert (L1 : (1 <= length (dumps v))%nat).
        { rewrite dumps_is_spec. destruct (dumps_spec_nonempty v) as (c & t & ->). cbn [length]. lia. }
        destruct (length (dumps v) <=? 0)%nat eqn:E; [apply Nat.leb_le in E; lia|]. reflexivity.
      + unfold file_of in *. cbn [map concat complete]. rewrite app_length.
        destruct (length (dumps v) <=? length (dumps v) + length (concat (map dumps (firstn j r))))%nat eqn:E;
          [|apply Nat.leb_gt in E; lia].
        replace (length (dumps v) + length (concat (map dumps (firstn j r))) - length (dumps v))%nat
          with (length (concat (map dumps (firstn j r)))) by lia.
        cbn [length] in Hj. rewrite IH by lia. reflexivity.
  Qed.

  (* the flag is true only at a record boundary (or beyond the end of the file) *)
  Lemma complete_true_boundary vs : forall k, snd (complete vs k) = true ->
    (length (file_of vs) <= k)%nat \/ exists j, (j <= length vs)%nat /\ k = length (file_of (firstn j vs)).
  Proof.
    induction vs as [|v r IH]; intros k H; [left; cbn; lia|].
    cbn [complete] in H. unfold file_of in *. cbn [map concat]. rewrite app_length.
    destruct (length (dumps v) <=? k)%nat eqn:E.
    - apply Nat.leb_le in E. cbn [snd] in H. destruct (IH _ H) as [Hl | (j & Hj & Ek)].
      + left. lia.
      + right. exists (S j). cbn [length firstn map concat]. rewrite app_length. split; lia.
    - cbn [snd] in H. apply Nat.eqb_eq in H. subst k. right. exists 0%nat. cbn. split; [lia|reflexivity].
  Qed.

  Theorem stream_whole vs :
    Forall loadable vs ->
    stream pyfloat outer inner from_state depth (file_of vs) = (map mirror vs, Clean).
  Proof.
    intros HF. rewrite <- (firstn_all (file_of vs)). rewrite stream_truncated by auto.
    now rewrite complete_all by lia.
  Qed.

  (* FilteredFlowWriter.add = write one complete record, then flush: after j adds the file is
     the concatenation of the first j records, which reads back completely and cleanly *)
  Theorem stream_after_each_add vs j :
    Forall loadable vs ->
    stream pyfloat outer inner from_state depth (file_of (firstn j vs)) = (map mirror (firstn j vs), Clean).
  Proof.
    intros HF. apply stream_whole. rewrite Forall_forall in HF |- *. intros x Hx. apply HF.
    eapply In_firstn_incl; eauto.
  Qed.
End Trunc.
