(* Proofs/ServerPlaybackKey.v -- key_eqb decides equality; equality of _hash keys is exactly
   field-wise equality of the matching key of the property statement (same_key). *)
From Coq Require Import ZArith List Bool Lia ZifyBool.
From MV Require Import Base.Bytes Model.ServerPlayback.
Import ListNotations.

(* ---------- boolean equalities ---------- *)

Lemma list_eqb_eq {A} (eqb : A -> A -> bool) :
  (forall x y, eqb x y = true <-> x = y) ->
  forall a b, list_eqb eqb a b = true <-> a = b.
Proof.
  intros H a. induction a as [|x a IH]; intros [|y b]; simpl; split; intro E;
    try reflexivity; try discriminate.
  - apply andb_true_iff in E. destruct E as [E1 E2].
    apply H in E1. apply IH in E2. congruence.
  - injection E as -> ->. apply andb_true_iff. split; [apply H | apply IH]; reflexivity.
Qed.

Lemma option_eqb_eq {A} (eqb : A -> A -> bool) :
  (forall x y, eqb x y = true <-> x = y) ->
  forall a b, option_eqb eqb a b = true <-> a = b.
Proof.
  intros H [x|] [y|]; simpl; split; intro E; try reflexivity; try discriminate.
  - apply H in E. congruence.
  - injection E as ->. apply H. reflexivity.
Qed.

Lemma pair_eqb_eq {A B} (ea : A -> A -> bool) (eb : B -> B -> bool) :
  (forall x y, ea x y = true <-> x = y) -> (forall x y, eb x y = true <-> x = y) ->
  forall a b, pair_eqb ea eb a b = true <-> a = b.
Proof.
  intros HA HB [a1 a2] [b1 b2]. unfold pair_eqb. simpl. rewrite andb_true_iff, HA, HB.
  split; [intros [-> ->]; reflexivity | intro E; injection E as -> ->; auto].
Qed.

Lemma kc_eqb_eq a b : kc_eqb a b = true <-> a = b.
Proof.
  destruct a, b; simpl; try (split; intro E; discriminate).
  - rewrite bytes_eqb_eq. split; congruence.
  - rewrite andb_true_iff, !bytes_eqb_eq. split; [intros [-> ->]; reflexivity | intro E; injection E; auto].
  - rewrite andb_true_iff, !bytes_eqb_eq. split; [intros [-> ->]; reflexivity | intro E; injection E; auto].
  - rewrite N.eqb_eq. split; congruence.
  - rewrite (list_eqb_eq _ (pair_eqb_eq _ _ bytes_eqb_eq (option_eqb_eq _ bytes_eqb_eq))).
    split; congruence.
Qed.

Lemma key_eqb_eq a b : key_eqb a b = true <-> a = b.
Proof. apply list_eqb_eq. exact kc_eqb_eq. Qed.

Lemma key_eqb_refl a : key_eqb a a = true.
Proof. apply key_eqb_eq. reflexivity. Qed.

Lemma key_eqb_neq a b : key_eqb a b = false <-> a <> b.
Proof.
  split.
  - intros E ->. rewrite key_eqb_refl in E. discriminate.
  - intro N. destruct (key_eqb a b) eqn:E; [apply key_eqb_eq in E; contradiction | reflexivity].
Qed.

(* ---------- the matching key of the property statement, field by field ---------- *)

(* the body as it is matched: non-ignored form fields (multipart or urlencoded) or the raw body *)
Inductive body_view :=
| BFields (mp ue : list (bytes * bytes))
| BRaw (c : bytes).

Definition body_of (o : options) (r : request) : body_view :=
  if nonempty (o_ignore_payload_params o) && nonempty (rq_multipart r) then
    BFields (map (fun f => (snd (fst f), snd f))
                 (filter (fun f => negb (mem (fst (fst f)) (o_ignore_payload_params o))) (rq_multipart r))) []
  else if nonempty (o_ignore_payload_params o) && nonempty (rq_urlencoded r) then
    BFields [] (filter (fun f => negb (mem (fst f) (o_ignore_payload_params o))) (rq_urlencoded r))
  else BRaw (rq_content r).

Definition same_key (o : options) (a b : request) : Prop :=
  rq_scheme a = rq_scheme b /\ rq_method a = rq_method b /\ rq_path a = rq_path b
  /\ filtered_query o a = filtered_query o b
  /\ (o_ignore_host o = false -> rq_host a = rq_host b)
  /\ (o_ignore_port o = false -> rq_port a = rq_port b)
  /\ (o_ignore_content o = false -> body_of o a = body_of o b)
  /\ map (fun i => headers_get i (rq_headers a)) (o_use_headers o)
     = map (fun i => headers_get i (rq_headers b)) (o_use_headers o).

(* ---------- encoding of the body view into key components is injective ---------- *)

Definition encode_body (v : body_view) : key :=
  match v with
  | BFields mp ue => map (fun p => KBPair (fst p) (snd p)) mp ++ map (fun p => KSPair (fst p) (snd p)) ue
  | BRaw c => [KStr c]
  end.

Lemma content_part_encode o r :
  content_part o r = if o_ignore_content o then [] else encode_body (body_of o r).
Proof.
  unfold content_part, body_of, multipart_part, urlencoded_part.
  destruct (o_ignore_content o); [reflexivity|].
  destruct (nonempty (o_ignore_payload_params o) && nonempty (rq_multipart r)).
  - simpl. rewrite app_nil_r, map_map. reflexivity.
  - destruct (nonempty (o_ignore_payload_params o) && nonempty (rq_urlencoded r)); reflexivity.
Qed.

Definition is_pair (x : kc) : bool :=
  match x with KBPair _ _ | KSPair _ _ => true | _ => false end.

Definition no_pair_head (t : key) : Prop :=
  match t with x :: _ => is_pair x = false | [] => True end.

Lemma pairs_split : forall l1 l2 t1 t2,
  forallb is_pair l1 = true -> forallb is_pair l2 = true ->
  no_pair_head t1 -> no_pair_head t2 ->
  l1 ++ t1 = l2 ++ t2 -> l1 = l2 /\ t1 = t2.
Proof.
  induction l1 as [|x l1 IH]; intros [|y l2] t1 t2 H1 H2 N1 N2 E; simpl in *.
  - auto.
  - subst t1. simpl in N1. apply andb_true_iff in H2. destruct H2 as [H2 _]. congruence.
  - subst t2. simpl in N2. apply andb_true_iff in H1. destruct H1 as [H1 _]. congruence.
  - injection E as -> E. apply andb_true_iff in H1. apply andb_true_iff in H2.
    destruct (IH l2 t1 t2) as [-> ->]; tauto.
Qed.

Lemma encode_fields_pairs mp ue : forallb is_pair (encode_body (BFields mp ue)) = true.
Proof.
  simpl. rewrite forallb_app. apply andb_true_iff.
  split; apply forallb_forall; intros x Hx; apply in_map_iff in Hx; destruct Hx as [p [<- _]]; reflexivity.
Qed.

Lemma encode_fields_inj : forall mp ue mp2 ue2,
  encode_body (BFields mp ue) = encode_body (BFields mp2 ue2) -> mp = mp2 /\ ue = ue2.
Proof.
  induction mp as [|[k v] mp IH]; intros ue [|[k2 v2] mp2] ue2 E; simpl in E.
  - split; [reflexivity|]. revert ue2 E. induction ue as [|[a b] ue IHu]; intros [|[a2 b2] ue2] E;
      simpl in E; try discriminate; [reflexivity|].
    injection E as -> -> E. f_equal. auto.
  - destruct ue as [|[a b] ue]; discriminate.
  - destruct ue2 as [|[a b] ue2]; discriminate.
  - injection E as -> -> E. destruct (IH ue mp2 ue2 E) as [-> ->]. auto.
Qed.

(* ---------- the part of the key after the body ---------- *)

Definition tail_part (o : options) (r : request) : key :=
  host_part o r ++ port_part o r ++ flat_query (filtered_query o r) ++ headers_part o r.

Lemma hash_shape o r :
  _hash o r = [KStr (rq_scheme r); KStr (rq_method r); KStr (rq_path r)]
              ++ content_part o r ++ tail_part o r.
Proof. reflexivity. Qed.

Fixpoint nstr (k : key) : nat :=
  match k with
  | [] => 0
  | KStr _ :: t => S (nstr t)
  | _ :: t => nstr t
  end.

Lemma nstr_app a b : nstr (a ++ b) = nstr a + nstr b.
Proof. induction a as [|x a IH]; simpl; [reflexivity|]. destruct x; simpl; rewrite IH; reflexivity. Qed.

Lemma nstr_flat q : nstr (flat_query q) = 2 * length q.
Proof. induction q as [|[k v] q IH]; simpl; [reflexivity|]. rewrite IH. lia. Qed.

Lemma nstr_tail o r :
  nstr (tail_part o r) = (if o_ignore_host o then 0 else 1) + 2 * length (filtered_query o r).
Proof.
  unfold tail_part, host_part, port_part, headers_part.
  rewrite !nstr_app, nstr_flat.
  destruct (o_ignore_host o), (o_ignore_port o), (nonempty (o_use_headers o)); simpl; lia.
Qed.

Lemma tail_no_pair_head o r : no_pair_head (tail_part o r).
Proof.
  unfold tail_part, host_part, port_part, headers_part.
  destruct (o_ignore_host o), (o_ignore_port o); simpl; try reflexivity;
    destruct (filtered_query o r) as [|[k v] q]; simpl; try reflexivity;
    destruct (nonempty (o_use_headers o)); simpl; reflexivity.
Qed.

Lemma flat_query_split o : forall q1 q2 r1 r2,
  flat_query q1 ++ headers_part o r1 = flat_query q2 ++ headers_part o r2 ->
  q1 = q2 /\ headers_part o r1 = headers_part o r2.
Proof.
  unfold headers_part.
  induction q1 as [|[k v] q1 IH]; intros [|[k2 v2] q2] r1 r2 E; simpl in E.
  - auto.
  - destruct (nonempty (o_use_headers o)); discriminate.
  - destruct (nonempty (o_use_headers o)); discriminate.
  - injection E as -> -> E. destruct (IH q2 r1 r2 E) as [-> H]. auto.
Qed.

Lemma map_pair_inj {A B} (f g : A -> B) : forall l,
  map (fun i => (i, f i)) l = map (fun i => (i, g i)) l -> map f l = map g l.
Proof.
  induction l as [|x l IH]; simpl; intro E; [reflexivity|].
  injection E as E1 E2. rewrite E1, (IH E2). reflexivity.
Qed.

Lemma tail_eq_iff o a b :
  tail_part o a = tail_part o b <->
  filtered_query o a = filtered_query o b
  /\ (o_ignore_host o = false -> rq_host a = rq_host b)
  /\ (o_ignore_port o = false -> rq_port a = rq_port b)
  /\ map (fun i => headers_get i (rq_headers a)) (o_use_headers o)
     = map (fun i => headers_get i (rq_headers b)) (o_use_headers o).
Proof.
  unfold tail_part, host_part, port_part. split.
  - intro E.
    assert (E2 : flat_query (filtered_query o a) ++ headers_part o a
                 = flat_query (filtered_query o b) ++ headers_part o b
                 /\ (o_ignore_host o = false -> rq_host a = rq_host b)
                 /\ (o_ignore_port o = false -> rq_port a = rq_port b)).
    { destruct (o_ignore_host o), (o_ignore_port o); simpl in E.
      - repeat split; try discriminate; exact E.
      - injection E as E1 E. repeat split; try discriminate; auto.
      - injection E as E1 E. repeat split; try discriminate; auto.
      - injection E as E1 E2 E. repeat split; auto. }
    destruct E2 as [E2 [Hh Hp]]. apply flat_query_split in E2. destruct E2 as [Eq Eh].
    repeat split; auto.
    unfold headers_part in Eh. destruct (o_use_headers o) as [|i l] eqn:U; [reflexivity|].
    simpl nonempty in Eh. cbv iota in Eh. injection Eh as Eh1 Eh2.
    simpl. rewrite Eh1. f_equal. apply map_pair_inj. exact Eh2.
  - intros [Eq [Hh [Hp Ehd]]].
    assert (Eh : headers_part o a = headers_part o b).
    { unfold headers_part. destruct (nonempty (o_use_headers o)); [|reflexivity].
      f_equal. f_equal. revert Ehd. generalize (o_use_headers o).
      induction l as [|i l IH]; simpl; intro E; [reflexivity|].
      injection E as E1 E2. rewrite E1, (IH E2). reflexivity. }
    rewrite Eq, Eh.
    destruct (o_ignore_host o); [|rewrite (Hh eq_refl)];
      (destruct (o_ignore_port o); [|rewrite (Hp eq_refl)]); reflexivity.
Qed.

(* body followed by tail: the split point is determined *)
Lemma body_tail_split o a b :
  encode_body (body_of o a) ++ tail_part o a = encode_body (body_of o b) ++ tail_part o b ->
  body_of o a = body_of o b /\ tail_part o a = tail_part o b.
Proof.
  intro E.
  assert (raw_fields : forall x y mp ue c, body_of o x = BFields mp ue -> body_of o y = BRaw c ->
            encode_body (body_of o x) ++ tail_part o x = encode_body (body_of o y) ++ tail_part o y -> False).
  { intros x y mp ue c Hx Hy E2. rewrite Hx, Hy in E2.
    destruct mp as [|p mp]; [destruct ue as [|p ue]|]; simpl in E2; try discriminate.
    apply (f_equal nstr) in E2. simpl in E2. rewrite !nstr_tail in E2.
    assert (L : length (filtered_query o x) = length (filtered_query o x)) by reflexivity.
    destruct (o_ignore_host o); lia. }
  destruct (body_of o a) as [mp ue|c] eqn:Ba, (body_of o b) as [mp2 ue2|c2] eqn:Bb.
  - destruct (pairs_split _ _ _ _ (encode_fields_pairs mp ue) (encode_fields_pairs mp2 ue2)
                (tail_no_pair_head o a) (tail_no_pair_head o b) E) as [E1 E2].
    apply encode_fields_inj in E1. destruct E1 as [-> ->]. auto.
  - exfalso. apply (raw_fields a b mp ue c2 Ba Bb). rewrite Ba, Bb. exact E.
  - exfalso. apply (raw_fields b a mp2 ue2 c Bb Ba). rewrite Ba, Bb. symmetry. exact E.
  - simpl in E. injection E as -> E. auto.
Qed.

Theorem hash_eq_iff o a b : _hash o a = _hash o b <-> same_key o a b.
Proof.
  rewrite !hash_shape, !content_part_encode. unfold same_key. split.
  - intro E. simpl in E. injection E as Es Em Ep E.
    destruct (o_ignore_content o).
    + simpl in E. apply tail_eq_iff in E. destruct E as [Eq [Hh [Hp Ehd]]].
      repeat split; auto. discriminate.
    + apply body_tail_split in E. destruct E as [Eb E].
      apply tail_eq_iff in E. destruct E as [Eq [Hh [Hp Ehd]]]. repeat split; auto.
  - intros [Es [Em [Ep [Eq [Hh [Hp [Hb Ehd]]]]]]].
    assert (Et : tail_part o a = tail_part o b) by (apply tail_eq_iff; auto).
    rewrite Es, Em, Ep, Et. destruct (o_ignore_content o); [reflexivity|].
    rewrite (Hb eq_refl). reflexivity.
Qed.

(* options outside HASH_OPTIONS do not influence the key *)
Lemma hash_apply_set_other o u r : in_hash_options u = false -> _hash (apply_set o u) r = _hash o r.
Proof. destruct u; simpl; intro E; try discriminate; reflexivity. Qed.

Lemma hash_fold_other : forall upd o r,
  existsb in_hash_options upd = false -> _hash (fold_left apply_set upd o) r = _hash o r.
Proof.
  induction upd as [|u upd IH]; intros o r E; simpl in *; [reflexivity|].
  apply orb_false_iff in E. destruct E as [E1 E2].
  rewrite IH by exact E2. apply hash_apply_set_other. exact E1.
Qed.
