(* Proofs/FilterGrammarAtoms.v -- p_atom parses back every rendered atom (MatchFirst over the code table,
   WordEnd, unquoted / quoted arguments with escapes, integer arguments). *)
From Coq Require Import List Bool NArith Arith Lia.
From MV Require Import Base.Bytes Gen.FlowFilterAtoms Model.FilterGrammar Proofs.FilterGrammarTokens.
Import ListNotations.

(* ---- the code tables: every code is a non-empty run of WordEnd characters, no code occurs twice ---- *)
Definition codelikeb (c : bytes) : bool := match c with [] => false | _ => forallb is_we c end.
Definition all_codes : list bytes := unary_codes ++ rex_codes ++ int_codes.
Fixpoint nodupb (l : list bytes) : bool :=
  match l with [] => true | c :: r => negb (mem_bytes c r) && nodupb r end.
Lemma codes_codelike : forallb codelikeb all_codes = true.
Proof. vm_compute. reflexivity. Qed.
Lemma codes_nodup : nodupb all_codes = true.
Proof. vm_compute. reflexivity. Qed.

Lemma mem_bytes_In c l : mem_bytes c l = true <-> In c l.
Proof.
  induction l as [| d l IH]; simpl; [split; [discriminate | tauto] |].
  rewrite orb_true_iff, IH, bytes_eqb_eq. split; intros [H | H]; auto.
Qed.
Lemma nodupb_NoDup l : nodupb l = true -> NoDup l.
Proof.
  induction l as [| c l IH]; simpl; intros H; [constructor |].
  apply andb_true_iff in H. destruct H as [H1 H2]. constructor; [| auto].
  intros Hin. apply mem_bytes_In in Hin. rewrite Hin in H1. discriminate.
Qed.
Lemma in_codes_codelike c : In c all_codes -> codelikeb c = true.
Proof. intros H. pose proof codes_codelike as F. rewrite forallb_forall in F. auto. Qed.
Lemma codelike_parts c : codelikeb c = true -> c <> [] /\ forallb is_we c = true.
Proof. destruct c; simpl; [discriminate |]. intros H. split; [discriminate | exact H]. Qed.

(* ---- p_code ---- *)
Lemma last_we c d : c <> [] -> forallb is_we c = true -> is_we (last c d) = true.
Proof.
  induction c as [| a c IH]; intros Hne H; [congruence |].
  simpl in H. apply andb_true_iff in H. destruct H as [Ha Hc].
  destruct c as [| b c]; [exact Ha |]. change (is_we (last (b :: c) d) = true). apply IH; [discriminate | exact Hc].
Qed.
Lemma last_cons_ne (a : byte) c d : c <> [] -> last (a :: c) d = last c d.
Proof. destruct c; [congruence | reflexivity]. Qed.

Lemma p_code_same c w X : codelikeb c = true -> allws w -> safe is_we X ->
  p_code c (w ++ code_lit c ++ X) = Some X.
Proof.
  intros Hc Hw HX. apply codelike_parts in Hc. destruct Hc as [Hne Hall].
  unfold p_code, lit_str. rewrite skip_ws_app by exact Hw.
  rewrite code_lit_cons. change ((x7e :: c) ++ X) with (x7e :: c ++ X).
  rewrite skip_ws_cons by reflexivity.
  change (x7e :: c ++ X) with ((x7e :: c) ++ X). rewrite strip_prefix_app.
  rewrite last_cons_ne by exact Hne.
  unfold word_end. destruct X as [| d X]; [reflexivity |]. simpl in HX. rewrite HX.
  rewrite last_we by assumption. reflexivity.
Qed.

Lemma strip_code_unique c' : forall c X r, forallb is_we c' = true -> forallb is_we c = true -> safe is_we X ->
  strip_prefix c' (c ++ X) = Some r -> safe is_we r -> c' = c.
Proof.
  induction c' as [| a c' IH]; intros c X r H' H HX Hs Hr.
  - simpl in Hs. injection Hs as <-. destruct c as [| d c]; [reflexivity |].
    simpl in H. apply andb_true_iff in H. simpl in Hr. destruct H. congruence.
  - simpl in H'. apply andb_true_iff in H'. destruct H' as [Ha H'].
    destruct c as [| d c].
    + simpl in Hs. destruct X as [| x X]; [discriminate |]. simpl in HX.
      destruct (byte_eqb a x) eqn:E; [| discriminate]. apply byte_eqb_eq in E. subst. congruence.
    + simpl in H. apply andb_true_iff in H. destruct H as [Hd H].
      simpl in Hs. destruct (byte_eqb a d) eqn:E; [| discriminate]. apply byte_eqb_eq in E. subst.
      f_equal. apply (IH c X r); assumption.
Qed.
Lemma word_end_safe p r : word_end p r = true -> safe is_we r.
Proof. unfold word_end. destruct r as [| c r]; [intros _; exact I |]. simpl. intros H. apply andb_true_iff in H. destruct H as [H _]. destruct (is_we c); [discriminate | reflexivity]. Qed.

Lemma p_code_other c c' w X : codelikeb c = true -> codelikeb c' = true -> c' <> c -> allws w -> safe is_we X ->
  p_code c' (w ++ code_lit c ++ X) = None.
Proof.
  intros Hc Hc' Hne Hw HX. apply codelike_parts in Hc, Hc'. destruct Hc as [_ Hall]. destruct Hc' as [_ Hall'].
  unfold p_code, lit_str. rewrite skip_ws_app by exact Hw.
  rewrite (code_lit_cons c), (code_lit_cons c'). change ((x7e :: c) ++ X) with (x7e :: c ++ X).
  rewrite skip_ws_cons by reflexivity. simpl strip_prefix.
  destruct (strip_prefix c' (c ++ X)) as [r |] eqn:E; [| reflexivity].
  destruct (word_end _ r) eqn:W; [| reflexivity].
  exfalso. apply Hne. eapply strip_code_unique; eauto. eapply word_end_safe; eauto.
Qed.
Lemma p_code_nontilde c w d r : allws w -> is_ws d = false -> d <> x7e -> p_code c (w ++ d :: r) = None.
Proof.
  intros Hw Hd Hne. unfold p_code, lit_str. rewrite skip_ws_app by exact Hw. rewrite skip_ws_cons by exact Hd.
  rewrite code_lit_cons. simpl. destruct (byte_eqb x7e d) eqn:E; [| reflexivity].
  apply byte_eqb_eq in E. congruence.
Qed.

(* ---- arguments ---- *)
Lemma p_word_ok a w rest : a <> [] -> forallb is_wordch a = true -> allws w -> safe is_wordch rest ->
  p_word (w ++ a ++ rest) = Some (a, rest).
Proof.
  intros Hne Ha Hw Hr. unfold p_word. rewrite skip_ws_app by exact Hw.
  destruct a as [| c a]; [congruence |].
  assert (Hc : is_ws c = false). { simpl in Ha. apply andb_true_iff in Ha. apply wordch_not_ws. tauto. }
  change ((c :: a) ++ rest) with (c :: a ++ rest). rewrite skip_ws_cons by exact Hc.
  change (c :: a ++ rest) with ((c :: a) ++ rest). rewrite span_app by assumption. reflexivity.
Qed.
Lemma p_word_stop w c r : allws w -> is_ws c = false -> is_wordch c = false -> p_word (w ++ c :: r) = None.
Proof.
  intros Hw Hs Hc. unfold p_word. rewrite skip_ws_app by exact Hw. rewrite skip_ws_cons by exact Hs.
  simpl. rewrite Hc. reflexivity.
Qed.

Definition qgood (q : byte) : Prop := q = x22 \/ q = x27.
Lemma q_scan_escape q a rest : qgood q -> q_scan q (escape q a ++ q :: rest) = Some (escape q a, rest).
Proof.
  intros Hq. induction a as [| c a IH].
  - simpl. rewrite byte_eqb_refl. reflexivity.
  - simpl escape.
    destruct (byte_eqb c q || byte_eqb c esc) eqn:E1.
    + assert (Hc : c = q \/ c = esc) by (apply orb_true_iff in E1; rewrite !byte_eqb_eq in E1; exact E1).
      change (([esc; c] ++ escape q a) ++ q :: rest) with (esc :: c :: escape q a ++ q :: rest).
      cbn [q_scan]. rewrite IH.
      destruct Hq as [-> | ->]; destruct Hc as [-> | ->]; reflexivity.
    + apply orb_false_iff in E1. destruct E1 as [E1 E2].
      destruct (byte_eqb c LF) eqn:E3; [| destruct (byte_eqb c CR) eqn:E4].
      * change (([esc; x6e] ++ escape q a) ++ q :: rest) with (esc :: x6e :: escape q a ++ q :: rest).
        cbn [q_scan]. rewrite IH. destruct Hq as [-> | ->]; reflexivity.
      * change (([esc; x72] ++ escape q a) ++ q :: rest) with (esc :: x72 :: escape q a ++ q :: rest).
        cbn [q_scan]. rewrite IH. destruct Hq as [-> | ->]; reflexivity.
      * change (([c] ++ escape q a) ++ q :: rest) with (c :: escape q a ++ q :: rest).
        cbn [q_scan]. rewrite E1, E2, E3, E4, IH. reflexivity.
Qed.
Lemma decode_quote d r : d = x22 \/ d = x27 \/ d = esc -> decode_esc d r = ([d], 0).
Proof. intros [-> | [-> | ->]]; reflexivity. Qed.
Lemma unq_escape q a : qgood q -> unq 0 (escape q a) = a.
Proof.
  intros Hq. induction a as [| c a IH]; [reflexivity |].
  simpl escape.
  destruct (byte_eqb c q || byte_eqb c esc) eqn:E1.
  - assert (Hc : c = x22 \/ c = x27 \/ c = esc).
    { apply orb_true_iff in E1; rewrite !byte_eqb_eq in E1. destruct Hq; destruct E1; subst; auto. }
    change ([esc; c] ++ escape q a) with (esc :: c :: escape q a).
    cbn [unq]. change (byte_eqb esc esc) with true. cbv iota.
    rewrite (decode_quote c (escape q a) Hc). cbn [unq app]. rewrite IH. reflexivity.
  - apply orb_false_iff in E1. destruct E1 as [E1 E2].
    destruct (byte_eqb c LF) eqn:E3; [| destruct (byte_eqb c CR) eqn:E4].
    + apply byte_eqb_eq in E3. subst c. change ([esc; x6e] ++ escape q a) with (esc :: x6e :: escape q a).
      cbn [unq]. change (byte_eqb esc esc) with true. cbv iota.
      change (decode_esc x6e (escape q a)) with ([x0a], 0%nat). cbn [unq app]. rewrite IH. reflexivity.
    + apply byte_eqb_eq in E4. subst c. change ([esc; x72] ++ escape q a) with (esc :: x72 :: escape q a).
      cbn [unq]. change (byte_eqb esc esc) with true. cbv iota.
      change (decode_esc x72 (escape q a)) with ([x0d], 0%nat). cbn [unq app]. rewrite IH. reflexivity.
    + change ([c] ++ escape q a) with (c :: escape q a). cbn [unq]. rewrite E2, IH. reflexivity.
Qed.
Definition rawok (q : byte) (c : byte) : bool :=
  negb (byte_eqb c q || byte_eqb c esc || byte_eqb c LF || byte_eqb c CR).
Lemma q_scan_raw q a rest : forallb (rawok q) a = true -> q_scan q (a ++ q :: rest) = Some (a, rest).
Proof.
  induction a as [| c a IH]; intros H.
  - simpl. rewrite byte_eqb_refl. reflexivity.
  - simpl in H. apply andb_true_iff in H. destruct H as [Hc Ha]. unfold rawok in Hc.
    apply negb_true_iff in Hc. rewrite !orb_false_iff in Hc. destruct Hc as [[[E1 E2] E3] E4].
    change ((c :: a) ++ q :: rest) with (c :: a ++ q :: rest). cbn [q_scan]. rewrite E1, E2, E3, E4, IH by exact Ha. reflexivity.
Qed.
Lemma unq_raw q a : forallb (rawok q) a = true -> unq 0 a = a.
Proof.
  induction a as [| c a IH]; intros H; [reflexivity |].
  simpl in H. apply andb_true_iff in H. destruct H as [Hc Ha]. unfold rawok in Hc.
  apply negb_true_iff in Hc. rewrite !orb_false_iff in Hc. destruct Hc as [[[E1 E2] E3] E4].
  cbn [unq]. rewrite E2, IH by exact Ha. reflexivity.
Qed.

Lemma p_regex_quoted q body w rest : qgood q -> allws w ->
  q_scan q (body ++ q :: rest) = Some (body, rest) ->
  p_regex (w ++ q :: body ++ q :: rest) = Some (unq 0 body, rest).
Proof.
  intros Hq Hw Hs. unfold p_regex.
  assert (Hqs : is_ws q = false) by (destruct Hq as [-> | ->]; reflexivity).
  assert (Hqw : is_wordch q = false) by (destruct Hq as [-> | ->]; reflexivity).
  rewrite p_word_stop by assumption.
  change quote_chars with [x22; x27]. unfold first_quoted, p_quoted.
  rewrite skip_ws_app by exact Hw. rewrite skip_ws_cons by exact Hqs.
  destruct Hq as [-> | ->].
  - change (byte_eqb x22 x22) with true. cbv iota. rewrite Hs. reflexivity.
  - change (byte_eqb x27 x22) with false. cbv iota. change (byte_eqb x27 x27) with true. cbv iota. rewrite Hs. reflexivity.
Qed.

Lemma p_regex_arg k nk a w rest : arg_ok k nk a = true -> allws w -> follow_ok (render_arg k a) rest ->
  p_regex (w ++ render_arg k a ++ rest) = Some (a, rest).
Proof.
  intros Hok Hw Hf. destruct k as [| q | q]; simpl in Hok; unfold render_arg in *.
  - destruct a as [| c a]; [discriminate |]. apply andb_true_iff in Hok. destruct Hok as [Hall _].
    unfold p_regex. rewrite p_word_ok; try assumption; try discriminate; [reflexivity |].
    eapply follow_safe; [| exact Hf]. apply ends_word_all; [discriminate | exact Hall].
  - change ((quote_of q :: a ++ [quote_of q]) ++ rest) with (quote_of q :: (a ++ [quote_of q]) ++ rest).
    rewrite <- app_assoc. change ([quote_of q] ++ rest) with (quote_of q :: rest).
    assert (Hq : qgood (quote_of q)) by apply quote_of_cases.
    assert (Hr : forallb (rawok (quote_of q)) a = true) by exact Hok.
    rewrite p_regex_quoted; [| assumption | assumption | apply q_scan_raw; exact Hr].
    rewrite (unq_raw (quote_of q)) by exact Hr. reflexivity.
  - change ((quote_of q :: escape (quote_of q) a ++ [quote_of q]) ++ rest)
      with (quote_of q :: (escape (quote_of q) a ++ [quote_of q]) ++ rest).
    rewrite <- app_assoc. change ([quote_of q] ++ rest) with (quote_of q :: rest).
    assert (Hq : qgood (quote_of q)) by apply quote_of_cases.
    rewrite p_regex_quoted; [| assumption | assumption | apply q_scan_escape; exact Hq].
    rewrite unq_escape by exact Hq. reflexivity.
Qed.

Lemma p_int_ok ds w rest : ds <> [] -> forallb is_dig ds = true -> allws w -> safe is_wordch rest ->
  p_int (w ++ ds ++ rest) = Some (N_of_digits ds, rest).
Proof.
  intros Hne Hd Hw Hr. unfold p_int. rewrite skip_ws_app by exact Hw.
  destruct ds as [| c ds]; [congruence |].
  assert (Hc : is_ws c = false).
  { simpl in Hd. apply andb_true_iff in Hd. apply wordch_not_ws, dig_wordch. tauto. }
  change ((c :: ds) ++ rest) with (c :: ds ++ rest). rewrite skip_ws_cons by exact Hc.
  change (c :: ds ++ rest) with ((c :: ds) ++ rest). rewrite span_app; [reflexivity | exact Hd |].
  destruct rest as [| x rest]; [exact I |]. simpl in *. apply not_wordch_not_dig. exact Hr.
Qed.

(* ---- MatchFirst over the parts ---- *)
Definition part_code (p : part) : option bytes :=
  match p with PUnary c => Some c | PRex c => Some c | PInt c => Some c | PNaked => None end.
Definition coded : list part := map PUnary unary_codes ++ map PRex rex_codes ++ map PInt int_codes.
Lemma parts_coded : parts = coded ++ [PNaked].
Proof. unfold parts, coded. rewrite <- !app_assoc. reflexivity. Qed.
Lemma coded_codes : map part_code coded = map Some all_codes.
Proof. unfold coded, all_codes. rewrite !map_app, !map_map. reflexivity. Qed.
Lemma coded_has_code p : In p coded -> exists c, part_code p = Some c /\ In c all_codes.
Proof.
  intros H. apply (in_map part_code) in H. rewrite coded_codes in H. apply in_map_iff in H.
  destruct H as [c [E Hin]]. exists c. split; [symmetry; exact E | exact Hin].
Qed.
Lemma NoDup_map_inj {A B} (f : A -> B) l x y : NoDup (map f l) -> In x l -> In y l -> f x = f y -> x = y.
Proof.
  induction l as [| a l IH]; intros Hnd Hx Hy E; [contradiction |].
  simpl in Hnd. inversion Hnd as [| ? ? Hnot Hnd']; subst.
  destruct Hx as [-> | Hx]; destruct Hy as [-> | Hy]; auto.
  - exfalso. apply Hnot. rewrite E. apply in_map. exact Hy.
  - exfalso. apply Hnot. rewrite <- E. apply in_map. exact Hx.
Qed.
Lemma coded_nodup : NoDup (map part_code coded).
Proof.
  rewrite coded_codes. pose proof (nodupb_NoDup _ codes_nodup) as H.
  induction H; simpl; constructor; auto.
  intros Hin. apply in_map_iff in Hin. destruct Hin as [y [E Hy]]. injection E as ->. contradiction.
Qed.
Lemma p_part_other p c c' w X : part_code p = Some c' -> codelikeb c = true -> codelikeb c' = true -> c' <> c ->
  allws w -> safe is_we X -> p_part p (w ++ code_lit c ++ X) = None.
Proof.
  intros Hp Hc Hc' Hne Hw HX. destruct p; simpl in Hp; try discriminate; injection Hp as ->;
    unfold p_part; rewrite p_code_other by assumption; reflexivity.
Qed.
Lemma first_part_found_aux P c w X v tail : In P coded -> part_code P = Some c -> codelikeb c = true ->
  allws w -> safe is_we X -> p_part P (w ++ code_lit c ++ X) = Some v ->
  forall ps, incl ps coded -> In P ps -> first_part (ps ++ tail) (w ++ code_lit c ++ X) = Some v.
Proof.
  intros HPc Hc Hcl Hw HX Hv ps. induction ps as [| p ps IH]; intros Hsub HP; [contradiction |].
  assert (Hp : In p coded) by (apply Hsub; left; reflexivity).
  destruct (coded_has_code p Hp) as [c0 [E0 Hin0]].
  cbn [first_part app]. destruct (list_eq_dec byte_dec c0 c) as [-> | Hne].
  - assert (p = P).
    { apply (NoDup_map_inj part_code coded); [apply coded_nodup | exact Hp | exact HPc | congruence]. }
    subst p. rewrite Hv. reflexivity.
  - rewrite p_part_other with (c' := c0); try assumption.
    + apply IH.
      * intros q Hq. apply Hsub. right. exact Hq.
      * destruct HP as [-> | HP]; [| exact HP]. rewrite Hc in E0. injection E0 as <-. congruence.
    + apply in_codes_codelike. exact Hin0.
Qed.
Lemma first_part_found P c w X v tail : In P coded -> part_code P = Some c -> allws w -> safe is_we X ->
  p_part P (w ++ code_lit c ++ X) = Some v ->
  first_part (coded ++ tail) (w ++ code_lit c ++ X) = Some v.
Proof.
  intros HP Hc Hw HX Hv.
  assert (Hcl : codelikeb c = true).
  { destruct (coded_has_code P HP) as [c0 [E Hin]]. rewrite Hc in E. injection E as <-. apply in_codes_codelike. exact Hin. }
  eapply first_part_found_aux; eauto. apply incl_refl.
Qed.
Lemma first_part_nontilde_aux w d r tail : allws w -> is_ws d = false -> d <> x7e ->
  forall ps, incl ps coded -> first_part (ps ++ tail) (w ++ d :: r) = first_part tail (w ++ d :: r).
Proof.
  intros Hw Hd Hne ps. induction ps as [| p ps IH]; intros Hsub; [reflexivity |].
  assert (Hp : In p coded) by (apply Hsub; left; reflexivity).
  destruct (coded_has_code p Hp) as [c0 [E0 _]].
  cbn [first_part app]. assert (p_part p (w ++ d :: r) = None) as ->.
  { destruct p; simpl in E0; try discriminate; unfold p_part; rewrite p_code_nontilde by assumption; reflexivity. }
  apply IH. intros q Hq. apply Hsub. right. exact Hq.
Qed.
Lemma first_part_nontilde w d r tail : allws w -> is_ws d = false -> d <> x7e ->
  first_part (coded ++ tail) (w ++ d :: r) = first_part tail (w ++ d :: r).
Proof. intros. apply first_part_nontilde_aux; auto. apply incl_refl. Qed.

Lemma In_coded_unary c : mem_bytes c unary_codes = true -> In (PUnary c) coded.
Proof. intros H. apply mem_bytes_In in H. unfold coded. apply in_or_app. left. apply in_map. exact H. Qed.
Lemma In_coded_rex c : mem_bytes c rex_codes = true -> In (PRex c) coded.
Proof. intros H. apply mem_bytes_In in H. unfold coded. apply in_or_app. right. apply in_or_app. left. apply in_map. exact H. Qed.
Lemma In_coded_int c : mem_bytes c int_codes = true -> In (PInt c) coded.
Proof. intros H. apply mem_bytes_In in H. unfold coded. apply in_or_app. right. apply in_or_app. right. apply in_map. exact H. Qed.

Lemma safe_we_of_wordch r : safe is_wordch r -> safe is_we r.
Proof. destruct r as [| c r]; [intros _; exact I |]. simpl. apply not_wordch_not_we. Qed.
Lemma safe_we_allws_app w c r : allws w -> is_we c = false -> safe is_we (w ++ c :: r).
Proof.
  intros Hw Hc. destruct w as [| d w]; [exact Hc |]. simpl. unfold allws in Hw. simpl in Hw.
  apply andb_true_iff in Hw. apply not_wordch_not_we, ws_not_wordch. tauto.
Qed.
Ltac neq := let H := fresh in intro H; vm_compute in H; discriminate H.
Lemma render_arg_head k nk a : arg_ok k nk a = true ->
  exists d r, render_arg k a = d :: r /\ is_ws d = false /\ d <> x7e /\ (is_we d = false \/ k = QBare)
              /\ (nk = true -> d <> op_not /\ d <> op_and /\ d <> op_or).
Proof.
  intros H. destruct k as [| q | q]; unfold render_arg.
  - simpl in H. destruct a as [| c a]; [discriminate |]. apply andb_true_iff in H. destruct H as [Hall Hn].
    simpl in Hall. apply andb_true_iff in Hall. destruct Hall as [Hc _].
    exists c, a. split; [reflexivity |]. split; [apply wordch_not_ws; exact Hc |].
    split; [intros ->; vm_compute in Hc; discriminate Hc |]. split; [right; reflexivity |].
    intros ->. simpl in Hn. apply negb_true_iff in Hn. rewrite !orb_false_iff in Hn. destruct Hn as [[H1 H2] H3].
    split; [| split]; intros ->.
    + vm_compute in H1. discriminate H1.
    + vm_compute in H2. discriminate H2.
    + vm_compute in H3. discriminate H3.
  - exists (quote_of q), (a ++ [quote_of q]). split; [reflexivity |].
    destruct (quote_of_cases q) as [E | E]; rewrite E;
      (split; [reflexivity |]; split; [neq |]; split; [left; reflexivity |]; intros _; split; [| split]; neq).
  - exists (quote_of q), (escape (quote_of q) a ++ [quote_of q]). split; [reflexivity |].
    destruct (quote_of_cases q) as [E | E]; rewrite E;
      (split; [reflexivity |]; split; [neq |]; split; [left; reflexivity |]; intros _; split; [| split]; neq).
Qed.

(* ---- the atom lemma ---- *)
Lemma forallb_we_wordch c : forallb is_we c = true -> forallb is_wordch c = true.
Proof.
  induction c as [| a c IH]; [reflexivity |]. simpl. intros H. apply andb_true_iff in H. destruct H as [Ha Hc].
  rewrite (we_wordch a Ha). auto.
Qed.
Lemma forallb_dig_wordch c : forallb is_dig c = true -> forallb is_wordch c = true.
Proof.
  induction c as [| a c IH]; [reflexivity |]. simpl. intros H. apply andb_true_iff in H. destruct H as [Ha Hc].
  rewrite (dig_wordch a Ha). auto.
Qed.
Lemma ends_word_code c : codelikeb c = true -> ends_word (code_lit c) = true.
Proof.
  intros H. apply codelike_parts in H. destruct H as [Hne Hall]. rewrite code_lit_cons.
  change (x7e :: c) with ([x7e] ++ c). rewrite ends_word_app by exact Hne.
  apply ends_word_all; [exact Hne | apply forallb_we_wordch; exact Hall].
Qed.
Lemma ws1_head w : exists d r, ws1 w = d :: r /\ is_ws d = true.
Proof. destruct w as [| c w]; [exists x20, []; split; reflexivity |]. exists (wsch_byte c), (ws_bytes w). split; [reflexivity | apply wsch_is_ws]. Qed.
Lemma safe_we_ws1 w X : safe is_we (ws1 w ++ X).
Proof. destruct (ws1_head w) as [d [r [E Hd]]]. rewrite E. simpl. apply not_wordch_not_we, ws_not_wordch. exact Hd. Qed.
Lemma mem_unary_codelike c : mem_bytes c unary_codes = true -> codelikeb c = true.
Proof. intros H. apply in_codes_codelike. unfold all_codes. apply in_or_app. left. apply mem_bytes_In. exact H. Qed.
Lemma mem_rex_codelike c : mem_bytes c rex_codes = true -> codelikeb c = true.
Proof. intros H. apply in_codes_codelike. unfold all_codes. apply in_or_app. right. apply in_or_app. left. apply mem_bytes_In. exact H. Qed.
Lemma mem_int_codelike c : mem_bytes c int_codes = true -> codelikeb c = true.
Proof. intros H. apply in_codes_codelike. unfold all_codes. apply in_or_app. right. apply in_or_app. right. apply mem_bytes_In. exact H. Qed.

Lemma p_atom_ok a st w rest : atom_in_table a = true -> atom_style_ok a st = true -> allws w ->
  follow_ok (render_atom a st) rest ->
  p_atom (w ++ render_atom a st ++ rest) = Some (atom_of a, rest).
Proof.
  intros Ht Hs Hw Hf. unfold p_atom. rewrite parts_coded. destruct a as [c | c a | c ds]; simpl in Ht; simpl atom_of.
  - (* unary *)
    pose proof (mem_unary_codelike c Ht) as Hcl. unfold render_atom in *.
    assert (HX : safe is_we rest).
    { apply safe_we_of_wordch. eapply follow_safe; [| exact Hf]. apply ends_word_code. exact Hcl. }
    apply first_part_found with (P := PUnary c); [apply In_coded_unary; exact Ht | reflexivity | exact Hw | exact HX |].
    unfold p_part. rewrite p_code_same by assumption. reflexivity.
  - (* regex *)
    pose proof (mem_rex_codelike c Ht) as Hcl. simpl in Hs. unfold render_atom in *.
    destruct (render_arg_head _ _ _ Hs) as [d [r [Ed [Hdws [Hdt [Hdwe _]]]]]].
    destruct (naked st && bytes_eqb c naked_code) eqn:N.
    + apply andb_true_iff in N. destruct N as [_ N]. apply bytes_eqb_eq in N. subst c.
      assert (E : first_part (coded ++ [PNaked]) (w ++ render_arg (qs st) a ++ rest)
                  = first_part [PNaked] (w ++ render_arg (qs st) a ++ rest)).
      { rewrite Ed. change ((d :: r) ++ rest) with (d :: r ++ rest). apply first_part_nontilde; assumption. }
      rewrite E. cbn [first_part p_part]. rewrite (p_regex_arg _ _ _ _ _ Hs Hw Hf). reflexivity.
    + set (gap := if is_bare (qs st) then ws1 (w1 st) else ws_bytes (w1 st)) in *.
      assert (Hgap : allws gap) by (unfold gap; destruct (is_bare (qs st)); [apply ws1_allws | apply ws_bytes_allws]).
      assert (HX : safe is_we (gap ++ render_arg (qs st) a ++ rest)).
      { rewrite Ed. change ((d :: r) ++ rest) with (d :: r ++ rest).
        destruct Hdwe as [Hdwe | Hb]; [apply safe_we_allws_app; assumption |].
        unfold gap. rewrite Hb. simpl is_bare. cbv iota. apply safe_we_ws1. }
      assert (Hne : render_arg (qs st) a <> []) by (rewrite Ed; discriminate).
      assert (Hf' : follow_ok (render_arg (qs st) a) rest).
      { unfold follow_ok in *. rewrite app_assoc in Hf. rewrite ends_word_app in Hf by exact Hne. exact Hf. }
      rewrite <- !app_assoc.
      apply first_part_found with (P := PRex c); [apply In_coded_rex; exact Ht | reflexivity | exact Hw | exact HX |].
      unfold p_part. rewrite p_code_same by assumption.
      erewrite p_regex_arg; [reflexivity | exact Hs | exact Hgap | exact Hf'].
  - (* int *)
    apply andb_true_iff in Ht. destruct Ht as [Ht Hds].
    assert (Hne : ds <> []) by (destruct ds; [discriminate | discriminate]).
    assert (Hd : forallb is_dig ds = true) by (destruct ds; [discriminate | exact Hds]).
    pose proof (mem_int_codelike c Ht) as Hcl. unfold render_atom in *.
    assert (Hr : safe is_wordch rest).
    { eapply follow_safe; [| exact Hf]. rewrite app_assoc. rewrite ends_word_app by exact Hne.
      apply ends_word_all; [exact Hne | apply forallb_dig_wordch; exact Hd]. }
    rewrite <- !app_assoc.
    apply first_part_found with (P := PInt c); [apply In_coded_int; exact Ht | reflexivity | exact Hw | apply safe_we_ws1 |].
    unfold p_part. rewrite p_code_same; [| assumption | assumption | apply safe_we_ws1].
    rewrite p_int_ok; [reflexivity | exact Hne | exact Hd | apply ws1_allws | exact Hr].
Qed.

(* first character of a rendered atom: not whitespace, and (for the proofs about operators) which operator
   characters it can be *)
Lemma render_atom_head a st : atom_in_table a = true -> atom_style_ok a st = true ->
  exists d r, render_atom a st = d :: r /\ is_ws d = false /\ d <> op_not /\ d <> op_and /\ d <> op_or /\ d <> lpar.
Proof.
  intros Ht Hs. destruct a as [c | c a | c ds]; unfold render_atom.
  - exists x7e, c. split; [reflexivity |]. split; [reflexivity |]. repeat split; neq.
  - simpl in Hs. destruct (render_arg_head _ _ _ Hs) as [d [r [Ed [Hdws [Hdt [_ Hops]]]]]].
    destruct (naked st && bytes_eqb c naked_code) eqn:N.
    + exists d, r. split; [exact Ed |]. split; [exact Hdws |]. destruct (Hops eq_refl) as [H1 [H2 H3]].
      repeat split; try assumption.
      intros ->. destruct (qs st) as [| q | q]; unfold render_arg in Ed.
      * simpl in Hs. destruct a as [| x a]; [discriminate |]. injection Ed as -> _.
        apply andb_true_iff in Hs. destruct Hs as [Hs _]. simpl in Hs. vm_compute in Hs. discriminate Hs.
      * injection Ed as Ed _. destruct (quote_of_cases q) as [E | E]; rewrite E in Ed; vm_compute in Ed; discriminate Ed.
      * injection Ed as Ed _. destruct (quote_of_cases q) as [E | E]; rewrite E in Ed; vm_compute in Ed; discriminate Ed.
    + exists x7e, (c ++ (if is_bare (qs st) then ws1 (w1 st) else ws_bytes (w1 st)) ++ render_arg (qs st) a).
      split; [reflexivity |]. split; [reflexivity |]. repeat split; neq.
  - exists x7e, (c ++ ws1 (w1 st) ++ ds). split; [reflexivity |]. split; [reflexivity |]. repeat split; neq.
Qed.
