(* Proofs/RawRelay.v -- invariant framework for Model.RawRelay and the two universal theorems:
   exact relaying (sent chunks = recorded contents) and end-once. *)
From Coq Require Import List Bool Arith Lia.
From MV Require Import Base.Bytes Model.RawRelay.
Import ListNotations.

(* ---------- frame lemmas *)
Lemma waiting_env_arrive st e : waiting (env_arrive st e) = waiting st.
Proof. destruct e as [|f d|f|fc d|a err]; simpl; try reflexivity. destruct (pr (cf st)), f; reflexivity. Qed.
Lemma queue_env_arrive st e : queue (env_arrive st e) = queue st.
Proof. destruct e as [|f d|f|fc d|a err]; simpl; try reflexivity. destruct (pr (cf st)), f; reflexivity. Qed.
Lemma crashed_env_arrive st e : crashed (env_arrive st e) = crashed st.
Proof. destruct e as [|f d|f|fc d|a err]; simpl; try reflexivity. destruct (pr (cf st)), f; reflexivity. Qed.

Ltac split_run H :=
  repeat match type of H with
  | context [if ?b then _ else _] => destruct b eqn:?
  | context [match ?x with _ => _ end] => destruct x eqn:?
  end.

Ltac unfold_layer :=
  unfold handle, resume, start, start_open, start_open_done, start_fail_close, relay_data, relay_data_hooked,
    relay_closed, close_if_open, end_flow, end_hooked, yield, on_fl, mark_unreadable, set_eof, eof_of in *.

Lemma handle_frame st e st' o : handle st e = (st', o) -> queue st' = queue st /\ cf st' = cf st.
Proof.
  intros H. unfold_layer. split_run H; inversion H; subst; clear H; simpl; auto;
    unfold env_cmd, set_conn; simpl;
    repeat match goal with |- context [if ?b then _ else _] => destruct b end;
    repeat match goal with |- context [match ?x with Client => _ | Server => _ end] => destruct x end; simpl; auto.
Qed.

Lemma resume_frame st a err st' o :
  resume st a err = (st', o) -> queue st' = queue st /\ crashed st' = crashed st /\ cf st' = cf st.
Proof.
  intros H. unfold_layer. split_run H; inversion H; subst; clear H; simpl; auto.
Qed.

Lemma sends_app to a b : sends to (a ++ b) = sends to a ++ sends to b.
Proof.
  induction a as [|c a IH]; simpl; [reflexivity|].
  destruct c; simpl; auto. destruct (side_eqb to0 to); simpl; rewrite IH; reflexivity.
Qed.

(* ---------- generic invariant principle.  I st q out: q is the logical event queue;
   G st e: what the environment may deliver in state st (True for the universal theorems). *)
Definition not_reply (e : event) : Prop := match e with EReply _ _ => False | _ => True end.

Section Inv.
  Variable pol : policy.
  Variable G : state -> event -> Prop.
  Variable I : state -> list event -> list cmd -> Prop.
  Hypothesis I_handle : forall st e q out st' o,
    I st (e :: q) out -> waiting st = false -> crashed st = false -> handle st e = (st', o) -> I st' q (out ++ o).
  Hypothesis I_direct : forall st e out st' o,
    G st e -> not_reply e -> I st [] out -> waiting st = false -> crashed st = false ->
    handle (env_arrive st e) e = (st', o) -> I st' [] (out ++ o).
  Hypothesis I_enqueue : forall st q out e,
    G st e -> not_reply e -> waiting st = true -> crashed st = false ->
    I st q out -> I (env_arrive st e) (q ++ [e]) out.
  Hypothesis I_resume : forall st q out a a0 err st' o,
    G st (EReply a0 err) -> I st q out -> waiting st = true -> crashed st = false ->
    resume st a err = (st', o) -> I st' q (out ++ o).
  Hypothesis I_queue : forall st q out q', I st q out -> I (set_queue st q') q out.

  Definition Inv st out := I st (queue st) out /\ (waiting st = false -> crashed st = false -> queue st = []).

  Lemma I_drain : forall q st out st' o,
    I st q out -> waiting st = false -> crashed st = false -> drain st q = (st', o) -> Inv st' (out ++ o).
  Proof.
    induction q as [|e q IH]; intros st out st' o HI Hw Hc H; simpl in H.
    - inversion H; subst. rewrite app_nil_r. split; [apply I_queue; exact HI | reflexivity].
    - destruct (handle st e) as [st1 o1] eqn:Hh.
      pose proof (I_handle _ _ _ _ _ _ HI Hw Hc Hh) as HI1.
      destruct (waiting st1 || crashed st1) eqn:Hwc.
      + inversion H; subst. split; [apply I_queue; exact HI1|].
        simpl. intros A B. change (waiting st1 = false) in A. change (crashed st1 = false) in B.
        rewrite A, B in Hwc. discriminate.
      + apply orb_false_iff in Hwc as [A B].
        destruct (drain st1 q) as [st2 o2] eqn:Hd. inversion H; subst.
        rewrite app_assoc. eapply IH; eauto.
  Qed.

  Lemma I_step st out e st' o : G st e -> Inv st out -> arrive pol st e = (st', o) -> Inv st' (out ++ o).
  Proof.
    intros HG [HI HS] H. unfold arrive in H.
    destruct (crashed st) eqn:Hc; [inversion H; subst; rewrite app_nil_r; split; [exact HI|]; intros _ B; congruence|].
    assert (Hgen : forall e0, G st e0 -> not_reply e0 ->
       (let st0 := env_arrive st e0 in if waiting st0 then (set_queue st0 (queue st0 ++ [e0]), []) else handle st0 e0) = (st', o) ->
       Inv st' (out ++ o)).
    { intros e0 HG0 He0 H0. cbv zeta in H0.
      rewrite waiting_env_arrive in H0. destruct (waiting st) eqn:Hw.
      - pose proof (I_enqueue _ _ _ e0 HG0 He0 Hw Hc HI) as HA.
        inversion H0; subst. rewrite app_nil_r, queue_env_arrive. split; [apply I_queue; exact HA|].
        simpl. intros A. change (waiting (env_arrive st e0) = false) in A. rewrite waiting_env_arrive in A. congruence.
      - rewrite (HS eq_refl eq_refl) in HI.
        assert (Hq : queue st' = []).
        { apply handle_frame in H0 as [Hq _]. rewrite Hq, queue_env_arrive. apply HS; reflexivity. }
        split; [rewrite Hq; eapply I_direct; eauto | intros _ _; exact Hq]. }
    destruct e as [|f d|f|fc d|a err];
      [exact (Hgen EStart HG Logic.I H) | exact (Hgen (EData f d) HG Logic.I H) | exact (Hgen (EClosed f) HG Logic.I H)
      | exact (Hgen (EInject fc d) HG Logic.I H) |].
    destruct (waiting st) eqn:Hw.
    - destruct (resume st (pol (messages (fl st)) a) err) as [st1 o1] eqn:Hr.
      pose proof (I_resume _ _ _ _ _ _ _ _ HG HI Hw Hc Hr) as HI1.
      apply resume_frame in Hr as (Hq & Hcr & _).
      destruct (waiting st1) eqn:Hw1.
      + inversion H; subst. split; [rewrite Hq; exact HI1 | congruence].
      + destruct (drain st1 (queue st1)) as [st2 o2] eqn:Hd. inversion H; subst.
        rewrite app_assoc.
        refine (I_drain (queue st1) st1 (out ++ o1) _ _ _ Hw1 _ Hd); [rewrite Hq; exact HI1 | congruence].
    - inversion H; subst. rewrite app_nil_r. split; [assumption | intros _ _; apply HS; reflexivity].
  Qed.

  Fixpoint guarded (st : state) (evs : list event) : Prop :=
    match evs with
    | [] => True
    | e :: r => G st e /\ guarded (fst (arrive pol st e)) r
    end.

  Lemma I_run : forall evs st out st' o,
    guarded st evs -> Inv st out -> run pol st evs = (st', o) -> Inv st' (out ++ o).
  Proof.
    induction evs as [|e evs IH]; intros st out st' o HG HI H; simpl in H.
    - inversion H; subst. rewrite app_nil_r. exact HI.
    - destruct HG as [HG1 HG2].
      destruct (arrive pol st e) as [st1 o1] eqn:Ha. destruct (run pol st1 evs) as [st2 o2] eqn:Hr.
      inversion H; subst. rewrite app_assoc. eapply IH; [exact HG2 | eapply I_step; eauto | exact Hr].
  Qed.
End Inv.

Definition Gtrue : state -> event -> Prop := fun _ _ => True.
Lemma guarded_true pol evs : forall st, guarded pol Gtrue st evs.
Proof. induction evs as [|e evs IH]; intros st; simpl; auto. split; [exact Logic.I | apply IH]. Qed.

(* unguarded instance: I_direct and I_enqueue follow from an arrival lemma plus I_handle *)
Section InvU.
  Variable pol : policy.
  Variable I : state -> list event -> list cmd -> Prop.
  Hypothesis I_handle : forall st e q out st' o,
    I st (e :: q) out -> waiting st = false -> crashed st = false -> handle st e = (st', o) -> I st' q (out ++ o).
  Hypothesis I_resume : forall st q out a err st' o,
    I st q out -> waiting st = true -> crashed st = false -> resume st a err = (st', o) -> I st' q (out ++ o).
  Hypothesis I_arrive : forall st q out e,
    not_reply e -> crashed st = false -> I st q out -> I (env_arrive st e) (q ++ [e]) out.
  Hypothesis I_queue : forall st q out q', I st q out -> I (set_queue st q') q out.

  Lemma I_run_u : forall evs st out st' o,
    Inv I st out -> run pol st evs = (st', o) -> Inv I st' (out ++ o).
  Proof.
    intros evs st out st' o HI H.
    refine (I_run pol Gtrue I I_handle _ _ _ I_queue evs st out st' o (guarded_true pol evs st) HI H).
    - intros s e ou s' o' _ He HI0 Hw Hc Hh.
      eapply I_handle; [apply (I_arrive s [] ou e He Hc HI0) | rewrite waiting_env_arrive; exact Hw
                       | rewrite crashed_env_arrive; exact Hc | exact Hh].
    - intros s q ou e _ He _ Hc HI0. apply I_arrive; assumption.
    - intros s q ou a _ err s' o' _ HI0 Hw Hc Hr. eapply I_resume; eauto.
  Qed.
End InvU.

(* ---------- T1: exact relaying *)
Definition rec_of (fc : bool) (ms : list (bool * bytes)) : list bytes :=
  map snd (filter (fun m => Bool.eqb (fst m) fc) (rev ms)).
(* messages whose hook has completed (the newest one is still with the addon while wait = WMsgHook) *)
Definition sent_msgs st : list (bool * bytes) :=
  match wait st with WMsgHook _ => tl (messages (fl st)) | _ => messages (fl st) end.
Definition pend_ok st : Prop :=
  match wait st with
  | WMsgHook to => match messages (fl st) with (fc, _) :: _ => to = side_of (negb fc) | [] => False end
  | _ => True
  end.
Definition I1 st (q : list event) (out : list cmd) : Prop :=
  ignore (cf st) = false /\ pend_ok st /\ forall fc, sends (side_of (negb fc)) out = rec_of fc (sent_msgs st).

Lemma rec_of_cons fc m ms :
  rec_of fc (m :: ms) = rec_of fc ms ++ (if Bool.eqb (fst m) fc then [snd m] else []).
Proof.
  unfold rec_of. simpl. rewrite filter_app, map_app. simpl. destruct (Bool.eqb (fst m) fc); reflexivity.
Qed.

Lemma messages_apply_kill f a : messages (apply_kill f a) = messages f.
Proof. unfold apply_kill. destruct (kill a && killable f); reflexivity. Qed.

Ltac flow_on Hi := unfold has_flow in *; try rewrite Hi in *; simpl negb in *; cbv iota in *.

Lemma I1_handle st e q out st' o :
  I1 st (e :: q) out -> waiting st = false -> crashed st = false -> handle st e = (st', o) -> I1 st' q (out ++ o).
Proof.
  intros (Hi & Hp & Hs) Hw _ H. unfold waiting in Hw. destruct (wait st) eqn:Ew; try discriminate.
  unfold I1, sent_msgs, pend_ok in *. rewrite Ew in *.
  unfold_layer. unfold env_cmd, set_conn in *. flow_on Hi.
  split_run H; inversion H; subst; clear H; simpl; rewrite ?Ew.
  all: split; [exact Hi|].
  all: split; [try exact Logic.I; try (destruct from; reflexivity); try (destruct from_client; reflexivity)|].
  all: intros fc'; rewrite ?sends_app; simpl; rewrite ?app_nil_r; try apply Hs.
Qed.

Lemma I1_resume st q out a err st' o :
  I1 st q out -> waiting st = true -> crashed st = false -> resume st a err = (st', o) -> I1 st' q (out ++ o).
Proof.
  intros (Hi & Hp & Hs) _ _ H.
  unfold I1, sent_msgs, pend_ok in *.
  unfold resume in H. destruct (wait st) eqn:Ew.
  6: { (* end hook *)
    unfold_layer. inversion H; subst; clear H. simpl.
    split; [assumption|split; [exact Logic.I|]]. intros fc'.
    rewrite sends_app, messages_apply_kill. simpl. rewrite app_nil_r. apply Hs. }
  5: { (* message hook: the edited content is what is sent and what stays recorded *)
    unfold_layer. inversion H; subst; clear H. simpl.
    split; [assumption|split; [exact Logic.I|]]. intros fc'.
    rewrite sends_app, messages_apply_kill. specialize (Hs fc').
    destruct (messages (fl st)) as [|[fc c0] ms] eqn:Em; [contradiction|]. simpl in Hs. subst to.
    unfold last_content, apply_edit. rewrite messages_apply_kill, Em. simpl.
    destruct (edit a) as [c|]; simpl; rewrite ?Em; rewrite rec_of_cons, Hs; simpl;
      destruct fc, fc'; reflexivity. }
  all: unfold_layer; unfold env_cmd, set_conn in *; flow_on Hi.
  all: split_run H; inversion H; subst; clear H; simpl; rewrite ?Ew.
  all: split; [exact Hi|split; [exact Logic.I|]].
  all: intros fc'; rewrite ?sends_app, ?messages_apply_kill; simpl; rewrite ?app_nil_r; apply Hs.
Qed.

Lemma I1_arrive st q out e :
  not_reply e -> crashed st = false -> I1 st q out -> I1 (env_arrive st e) (q ++ [e]) out.
Proof.
  intros _ _ H. destruct e as [|f d|f|fc d|a err]; simpl; try exact H.
  destruct (pr (cf st)), f; exact H.
Qed.

Lemma I1_queue st q out q' : I1 st q out -> I1 (set_queue st q') q out.
Proof. intros H; exact H. Qed.

Lemma I1_init c : ignore c = false -> Inv I1 (init c) [].
Proof.
  intros Hi. split; [|reflexivity]. split; [exact Hi|]. split; [exact Logic.I|]. intros fc. reflexivity.
Qed.

Lemma exact_relay pol c evs :
  ignore c = false ->
  let '(st, out) := run pol (init c) evs in
  forall fc, sends (side_of (negb fc)) out = rec_of fc (sent_msgs st).
Proof.
  intros Hi. destruct (run pol (init c) evs) as [st out] eqn:H.
  pose proof (I_run_u pol I1 I1_handle I1_resume I1_arrive I1_queue evs _ _ _ _ (I1_init c Hi) H) as [(_ & _ & Hs) _].
  exact Hs.
Qed.

(* ---------- T2: exactly one end/error hook, nothing relayed after it *)
Definition is_end (c : cmd) : bool := match c with EndHook | ErrorHook => true | _ => false end.
Definition is_relay (c : cmd) : bool :=
  match c with SendData _ _ | MessageHook | StartHook => true | _ => false end.
(* Some b: the trace is fine and b tells whether the end/error hook has fired; None: a second end/error
   hook, or a SendData / message hook / start hook after it *)
Fixpoint end_once (ended : bool) (out : list cmd) : option bool :=
  match out with
  | [] => Some ended
  | c :: r => if is_end c then (if ended then None else end_once true r)
              else if is_relay c && ended then None else end_once ended r
  end.
Definition wait_ph_ok st : Prop :=
  match wait st with
  | NoWait => True
  | WStartHook | WOpen | WErrorHook => ph st = PStart
  | WMsgHook _ => ph st = PRelay
  | WEndHook => ph st = PDone
  end.
Definition ended st : bool :=
  has_flow st && match ph st, wait st with PDone, _ => true | _, WErrorHook => true | _, _ => false end.
Definition I2 st (q : list event) (out : list cmd) : Prop :=
  wait_ph_ok st /\ end_once false out = Some (ended st).

Lemma end_once_app b o1 o2 :
  end_once b (o1 ++ o2) = match end_once b o1 with Some b' => end_once b' o2 | None => None end.
Proof.
  revert b; induction o1 as [|c o1 IH]; intros b; simpl; [reflexivity|].
  destruct (is_end c); [destruct b; [reflexivity|apply IH]|].
  destruct (is_relay c && b); [reflexivity|apply IH].
Qed.

Ltac fin2 :=
  repeat match goal with
  | H : negb (ignore _) = _ |- _ => rewrite H
  | H : ignore _ = _ |- _ => rewrite H
  end; simpl; auto.

Lemma I2_handle st e q out st' o :
  I2 st (e :: q) out -> waiting st = false -> crashed st = false -> handle st e = (st', o) -> I2 st' q (out ++ o).
Proof.
  intros (Hp & He) Hw _ H. unfold waiting in Hw. destruct (wait st) eqn:Ew; try discriminate. clear Hw Hp.
  unfold I2. rewrite end_once_app, He. clear He.
  unfold handle in H.
  destruct (ph st) eqn:Eph; destruct e as [|f d|f|fc d|a err]; simpl in H.
  all: unfold_layer; unfold env_cmd, set_conn, has_flow in *.
  all: split_run H; inversion H; subst; clear H.
  all: unfold wait_ph_ok, ended, has_flow; simpl in *; rewrite ?Ew, ?Eph; simpl.
  all: fin2.
Qed.

Lemma I2_resume st q out a err st' o :
  I2 st q out -> waiting st = true -> crashed st = false -> resume st a err = (st', o) -> I2 st' q (out ++ o).
Proof.
  intros (Hp & He) _ _ H.
  unfold I2. rewrite end_once_app, He. clear He.
  unfold resume in H. unfold wait_ph_ok in Hp.
  destruct (wait st) eqn:Ew.
  all: unfold_layer; unfold env_cmd, set_conn, has_flow in *.
  all: split_run H; inversion H; subst; clear H.
  all: unfold wait_ph_ok, ended, has_flow; simpl in *; rewrite ?Ew, ?Hp; simpl.
  all: fin2.
  rewrite andb_false_r. auto.
Qed.

Lemma I2_arrive st q out e :
  not_reply e -> crashed st = false -> I2 st q out -> I2 (env_arrive st e) (q ++ [e]) out.
Proof.
  intros _ _ H. destruct e as [|f d|f|fc d|a err]; simpl; try exact H.
  destruct (pr (cf st)), f; exact H.
Qed.

Lemma end_once_run pol c evs :
  let '(st, out) := run pol (init c) evs in
  end_once false out = Some (ended st) /\ wait_ph_ok st.
Proof.
  destruct (run pol (init c) evs) as [st out] eqn:H.
  assert (H0 : Inv I2 (init c) []).
  { split; [|reflexivity]. split; [exact Logic.I|]. unfold ended, has_flow. simpl. rewrite andb_false_r. reflexivity. }
  pose proof (I_run_u pol I2 I2_handle I2_resume I2_arrive (fun _ _ _ _ h => h) evs _ _ _ _ H0 H) as [(Hp & He) _].
  split; assumption.
Qed.

