(* Proofs/HarRoundtrip.v -- C41: import (export f) preserves the exchange, for every abstract codec library that
   satisfies four contracts, and every flow inside the guard [flow_ok] (the complement of the recorded findings). *)
From Coq Require Import List Bool NArith Lia.
From MV Require Import Base.Bytes Model.Headers Proofs.HeadersLaws Gen.HarTables Model.Har Proofs.HarBase.
Import ListNotations.

Definition opt_body (o : option bytes) : bytes := match o with Some b => b | None => [] end.
Definition ct_of (hs : list field) : bytes := get_default hs K_CT [].
Definition postlike (rq : request) : bool := existsb (bytes_eqb (method_of rq)) post_methods.

Section Roundtrip.
  Variable L : lib.
  Variable se : bool.
  (* contracts of the codec library *)
  Hypothesis enc_identity : forall v, l_encode L v IDENTITY = Ok v.
  Hypothesis b64_rt : forall b, exists s, l_b64enc L b = Ok (VS s) /\ l_b64dec L s = Ok (VB b).
  Hypothesis se_rt : forall b, l_enc_se L (l_dec_se L b) = Ok (VB b).

  (* ---------------------------------------------------------------- guards *)
  Definition hdr_ok (b : bytes) : Prop := se = true \/ l_utf8_ok L b = Ok true.
  Definition headers_ok (hs : list field) : Prop := Forall (fun f => hdr_ok (fst f) /\ hdr_ok (snd f)) hs.

  (* the charset is determined by the header alone and the body is the canonical encoding of a text in it *)
  Definition text_canonical (hs : list field) (c : bytes) : Prop :=
    let e := l_infer L (ct_of hs) [] in
    l_infer L (ct_of hs) c = e /\ exists t, l_decode L (VB c) e = Ok (VS t) /\ l_encode L (VS t) e = Ok (VB c).
  (* or: the body is undecodable in that charset and its surrogate-escaped text is unencodable in it *)
  Definition text_fallback (hs : list field) (c : bytes) : Prop :=
    let e := l_infer L (ct_of hs) [] in
    l_infer L (ct_of hs) c = e /\ l_decode L (VB c) e = EValue /\ l_encode L (VS (l_dec_se L c)) e = EValue.

  (* Content-Length agrees with the body, or is not maintained (Transfer-Encoding), or there is no body *)
  Definition cl_ok (hs : list field) (c : bytes) : Prop := c = [] \/ upd_cl hs c = hs.

  Definition resp_body_ok (r : response) : Prop :=
    match rs_raw r with
    | None => l_encode L (VS []) (l_infer L (ct_of (rs_headers r)) []) = Ok (VB [])
    | Some c =>
        (c <> [] /\ is_mostly_bin L c = Ok true)
        \/ ((c = [] \/ is_mostly_bin L c = Ok false)
            /\ (text_canonical (rs_headers r) c \/ text_fallback (rs_headers r) c))
    end.

  Definition flow_ok (rq : request) (r : response) : Prop :=
    (* versions: complement of http2-imports-as-http11 *)
    version_kept (rq_version rq) /\ version_kept (rs_version r)
    (* complement of non-utf8-header-import-fails *)
    /\ headers_ok (rq_headers rq) /\ headers_ok (rs_headers r)
    (* complement of connect-url-changed, url-rejected-import-fails, url-normalised-by-importer, host-header-rewritten *)
    /\ bytes_eqb (method_of rq) connect_method = false
    /\ (exists hp, l_url_set L (pretty_url L rq) = Ok (hp, pretty_url L rq)
                   /\ (contains (rq_headers rq) K_HOST = false \/ setitem (rq_headers rq) K_HOST hp = rq_headers rq))
    (* complement of request-content-encoding-dropped, missing-request-body-import-fails, request-body-*,
       request-content-type-rewritten *)
    /\ getitem (rq_headers rq) K_CE = None
    /\ (if postlike rq then exists c, rq_raw rq = Some c /\ text_canonical (rq_headers rq) c
        else exists b0, l_encode L (VS []) (l_infer L (ct_of (rq_headers rq)) []) = Ok (VB b0))
    (* complement of response-content-encoding-dropped, unknown-content-encoding-import-fails,
       response-content-length-rewritten, text-body-* *)
    /\ getitem (rs_headers r) K_CE = None
    /\ cl_ok (rs_headers r) (opt_body (rs_raw r))
    /\ resp_body_ok r.

  (* the conclusion: the fields the property lists *)
  Definition same_exchange (rq : request) (r : response) (i : iflow) : Prop :=
    i_method i = method_of rq /\ i_url i = pretty_url L rq /\ i_version i = rq_version rq
    /\ others K_CL (i_rh i) = others K_CL (rq_headers rq)
    /\ (postlike rq = true -> i_rraw i = rq_raw rq)
    /\ i_status i = rs_status r /\ i_sversion i = rs_version r /\ i_sh i = rs_headers r
    /\ opt_body (i_sraw i) = opt_body (rs_raw r).

  (* ---------------------------------------------------------------- fix_headers *)
  Lemma encode_header_ok b : hdr_ok b -> encode_header se L b = Ok b.
  Proof.
    unfold hdr_ok, encode_header. intros [H|H].
    - rewrite H. reflexivity.
    - destruct se; [reflexivity|]. rewrite H. reflexivity.
  Qed.

  Lemma fix_headers_id hs : headers_ok hs -> fix_headers se L hs = Ok hs.
  Proof.
    induction 1 as [|[k v] hs [Hk Hv] _ IH]; [reflexivity|].
    cbn [fix_headers fst snd] in *. rewrite (encode_header_ok k Hk), (encode_header_ok v Hv). cbn [bind].
    rewrite IH. reflexivity.
  Qed.

  (* ---------------------------------------------------------------- text bodies *)
  Lemma get_text_noce hs c : getitem hs K_CE = None ->
    get_text L hs (Some c) =
    match l_decode L (VB c) (l_infer L (ct_of hs) c) with
    | Ok v => Ok (Some v)
    | EValue => Ok (Some (VS (l_dec_se L c)))
    | EOther => EOther
    | Missing => Missing
    end.
  Proof. intros H. unfold get_text. rewrite (get_content_noce L false hs (Some c) H). reflexivity. Qed.

  Lemma get_text_none hs : get_text L hs None = Ok None.
  Proof. reflexivity. Qed.

  (* the text the exporter writes, and what the response branch of the importer makes of it *)
  Definition import_text (hs : list field) (t : str) : res val :=
    match l_encode L (VS t) (l_infer L (ct_of hs) []) with
    | Ok v => Ok v
    | EValue => l_enc_se L t
    | EOther => EOther
    | Missing => Missing
    end.

  Lemma text_roundtrip hs c : getitem hs K_CE = None ->
    text_canonical hs c \/ text_fallback hs c ->
    exists t, get_text L hs (Some c) = Ok (Some (VS t)) /\ import_text hs t = Ok (VB c).
  Proof.
    intros Hce [[Hi [t [Hd He]]]|[Hi [Hd He]]]; rewrite (get_text_noce hs c Hce), Hi, Hd.
    - exists t. split; [reflexivity|]. unfold import_text. rewrite He. reflexivity.
    - exists (l_dec_se L c). split; [reflexivity|]. unfold import_text. rewrite He. apply se_rt.
  Qed.

  (* ---------------------------------------------------------------- the request through Request.make and decode *)
  Lemma request_import hs purl hp text c :
    getitem hs K_CE = None ->
    l_url_set L purl = Ok (hp, purl) ->
    (contains hs K_HOST = false \/ setitem hs K_HOST hp = hs) ->
    l_encode L (VS text) (l_infer L (ct_of hs) []) = Ok (VB c) ->
    exists hF, request_make L purl (Some text) hs = Ok (purl, upd_cl hs c, c)
               /\ decode L (upd_cl hs c) (Some c) = Ok (hF, Some c)
               /\ others K_CL hF = others K_CL hs.
  Proof.
    intros Hce Hu Hh He.
    assert (Hm : request_make L purl (Some text) hs = Ok (purl, upd_cl hs c, c)).
    { unfold request_make. rewrite Hu. cbn [bind].
      assert (Hs : (if contains hs K_HOST then setitem hs K_HOST hp else hs) = hs).
      { destruct Hh as [Hh|Hh]; [rewrite Hh; reflexivity|]. destruct (contains hs K_HOST); [exact Hh|reflexivity]. }
      rewrite Hs. unfold set_text. fold (ct_of hs). rewrite He.
      rewrite (set_content_noce L enc_identity hs c Hce). reflexivity. }
    assert (Hce' : getitem (upd_cl hs c) K_CE = None) by (rewrite upd_cl_ce; exact Hce).
    rewrite (decode_noce L enc_identity (upd_cl hs c) c Hce').
    eexists. split; [exact Hm|]. split; [reflexivity|].
    destruct c; [|rewrite upd_cl_others]; apply upd_cl_others.
  Qed.

  (* ---------------------------------------------------------------- one flow *)
  Lemma is_postlike_dec rq : postlike rq = existsb (bytes_eqb (method_of rq)) post_methods.
  Proof. reflexivity. Qed.

  Theorem roundtrip_flow rq r : flow_ok rq r ->
    exists e i, flow_entry L rq (Some r) = Ok e /\ request_to_flow se L e = Ok i /\ same_exchange rq r i.
  Proof.
    intros (Hv1 & Hv2 & Hh1 & Hh2 & Hconn & (hp & Hu & Hhost) & Hce1 & Hreq & Hce2 & Hcl & Hbody).
    (* --- request side of the export: postData, and the text the importer hands to Request.make *)
    assert (Hpost : exists post text c,
               (if postlike rq then get_text L (rq_headers rq) (rq_raw rq) = Ok (Some (VS text)) /\ post = Some (Some text)
                                      /\ rq_raw rq = Some c
                else post = None /\ text = [])
               /\ l_encode L (VS text) (l_infer L (ct_of (rq_headers rq)) []) = Ok (VB c)).
    { destruct (postlike rq).
      - destruct Hreq as (c & Hraw & Hi & t & Hd & He). exists (Some (Some t)), t, c.
        split; [|exact He]. split; [|split; [reflexivity|exact Hraw]].
        rewrite Hraw, (get_text_noce _ c Hce1), Hi, Hd. reflexivity.
      - destruct Hreq as (b0 & He). exists None, [], b0. split; [split; reflexivity|exact He]. }
    destruct Hpost as (post & text & c & Hpost & Henc).
    destruct (request_import (rq_headers rq) (pretty_url L rq) hp text c Hce1 Hu Hhost Henc) as (hF & Hmake & Hdec & Hoth).
    (* --- response side of the export *)
    assert (Hresp : exists ctext enc sraw,
               (flow_entry L rq (Some r) =
                Ok (mkEntry (method_of rq) (pretty_url L rq) (rq_version rq) (rq_headers rq) post
                            (rs_status r) (rs_version r) (rs_headers r) (Some ctext) enc))
               /\ (if option_eqb bytes_eqb enc (Some import_b64_tag) then l_b64dec L ctext
                   else match enc with
                        | Some c0 => if nonempty c0 then EOther else import_text (rs_headers r) ctext
                        | None => import_text (rs_headers r) ctext
                        end) = Ok (VB sraw)
               /\ sraw = opt_body (rs_raw r)).
    { assert (Hreqpart : (if existsb (bytes_eqb (method_of rq)) post_methods
                          then t <- get_text L (rq_headers rq) (rq_raw rq);;
                               match t with
                               | None => Ok (Some None)
                               | Some (VS s) => Ok (Some (Some s))
                               | Some (VB _) => EOther
                               end
                          else Ok None) = Ok post).
      { rewrite <- is_postlike_dec. destruct (postlike rq).
        - destruct Hpost as (Hg & Hp & _). rewrite Hg, Hp. reflexivity.
        - destruct Hpost as (Hp & _). rewrite Hp. reflexivity. }
      unfold flow_entry. rewrite Hconn.
      rewrite (get_content_noce L true (rs_headers r) (rs_raw r) Hce2). cbn [bind].
      unfold resp_body_ok in Hbody. destruct (rs_raw r) as [c0|] eqn:Hraw.
      - destruct Hbody as [[Hne Hbin]|[Hnb Htext]].
        + (* base64 *)
          destruct c0 as [|x c0]; [congruence|]. rewrite Hbin. cbn [bind].
          destruct (b64_rt (x :: c0)) as (s & Hs1 & Hs2). rewrite Hs1. cbn [bind].
          rewrite Hreqpart. cbn [bind].
          exists s, (Some export_b64_tag), (x :: c0). split; [reflexivity|]. split; [|reflexivity].
          replace (option_eqb bytes_eqb (Some export_b64_tag) (Some import_b64_tag)) with true by (vm_compute; reflexivity).
          exact Hs2.
        + (* text *)
          destruct (text_roundtrip (rs_headers r) c0 Hce2 Htext) as (t & Ht1 & Ht2).
          assert (Hb : match c0 with b :: c1 => is_mostly_bin L (b :: c1) | [] => Ok false end = Ok false).
          { destruct c0; [reflexivity|]. destruct Hnb as [Hnb|Hnb]; [discriminate|exact Hnb]. }
          replace (match Some c0 with Some (b :: c1) => is_mostly_bin L (b :: c1) | _ => Ok false end)
            with (Ok (A:=bool) false) by (destruct c0; [reflexivity|symmetry; exact Hb]).
          cbn [bind]. rewrite Ht1. cbn [bind text_of]. rewrite Hreqpart. cbn [bind].
          exists t, None, c0. split; [reflexivity|]. split; [exact Ht2|reflexivity].
      - (* no body captured *)
        cbn [bind]. rewrite get_text_none. cbn [bind text_of].
        rewrite Hreqpart. cbn [bind].
        exists [], None, []. split; [reflexivity|]. split; [|reflexivity].
        cbn [option_eqb]. unfold import_text. rewrite Hbody. reflexivity. }
    destruct Hresp as (ctext & enc & sraw & Hentry & Hrc & Hsraw).
    eexists. eexists. split; [exact Hentry|].
    (* --- the importer *)
    unfold request_to_flow. cbn [e_rh e_post e_url e_ctext e_sh e_enc e_method e_rver e_sver e_status].
    rewrite (fix_headers_id _ Hh1). cbn [bind].
    assert (Hcontent : match post with None => Some [] | Some t => t end = Some text).
    { destruct (postlike rq).
      - destruct Hpost as (_ & Hp & _). rewrite Hp. reflexivity.
      - destruct Hpost as (Hp & Ht). rewrite Hp, Ht. reflexivity. }
    rewrite Hcontent, Hmake. cbn [bind]. rewrite (fix_headers_id _ Hh2). cbn [bind].
    assert (Hrc' : (if option_eqb bytes_eqb enc (Some import_b64_tag) then l_b64dec L ctext
                    else match l_encode L (VS ctext)
                                 match enc with
                                 | Some c0 => if nonempty c0 then c0 else l_infer L (get_default (rs_headers r) K_CT []) []
                                 | None => l_infer L (get_default (rs_headers r) K_CT []) []
                                 end with
                         | Ok v => Ok v
                         | EValue => l_enc_se L ctext
                         | EOther => EOther
                         | Missing => Missing
                         end) = Ok (VB sraw)).
    { destruct (option_eqb bytes_eqb enc (Some import_b64_tag)); [exact Hrc|].
      destruct enc as [c0|]; [|exact Hrc]. destruct (nonempty c0); [discriminate Hrc|exact Hrc]. }
    rewrite Hrc'. cbn [bind]. rewrite Hce2. cbn [or_identity]. rewrite enc_identity. cbn [bind].
    rewrite Hdec. cbn [bind]. rewrite (decode_noce L enc_identity (rs_headers r) sraw Hce2). cbn [bind fst snd].
    split; [reflexivity|].
    (* --- the fields *)
    unfold same_exchange. cbn [i_method i_url i_version i_rh i_rraw i_status i_sversion i_sh i_sraw].
    split; [reflexivity|]. split; [reflexivity|].
    split; [apply req_version_exact; exact Hv1|].
    split; [exact Hoth|].
    split.
    { intros Hp. rewrite Hp in Hpost. destruct Hpost as (_ & _ & Hraw). rewrite Hraw. reflexivity. }
    split; [reflexivity|].
    split; [apply resp_version_exact; exact Hv2|].
    split.
    { destruct sraw as [|x s]; [reflexivity|]. destruct Hcl as [Hcl|Hcl]; [rewrite <- Hsraw in Hcl; discriminate|].
      rewrite Hsraw. exact Hcl. }
    cbn [opt_body]. exact Hsraw.
  Qed.
End Roundtrip.
