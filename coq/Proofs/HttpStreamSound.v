(* Proofs/HttpStreamSound.v -- soundness of the abstract interpreter: for every option set, stream and input,
   the abstraction of the stream after a model function is one of the states the abstract function returns. *)
From Coq Require Import List Bool NArith.
From MV Require Import Base.Bytes Model.HttpStream Proofs.HttpStreamAbs.
Import ListNotations.

Ltac destr :=
  match goal with
  | |- context [match ?x with _ => _ end] =>
      lazymatch x with
      | context [match _ with _ => _ end] => fail
      | _ => (is_var x; destruct x) || (let E := fresh "E" in destruct x eqn:E)
      end
  end.
Ltac absurd_hyp :=
  match goal with
  | H : _ && false = true |- _ => rewrite andb_false_r in H; discriminate H
  | H : false && _ = true |- _ => discriminate H
  | H : _ || true = false |- _ => rewrite orb_true_r in H; discriminate H
  | H : true = false |- _ => discriminate H
  | H : false = true |- _ => discriminate H
  end.
Lemma nonempty_app (a b : bytes) : negb (isnil (a ++ b)) = negb (isnil a) || negb (isnil b).
Proof. destruct a, b; reflexivity. Qed.
Ltac crunch := simpl; rewrite ?nonempty_app; repeat (destr; simpl; rewrite ?nonempty_app); try solve [auto 14]; try absurd_hyp;
  try solve [repeat match goal with x : bytes |- _ => destruct x end; simpl in *; try discriminate; auto 14].
Ltac start s := destruct s as [sid cs ss pc queue req rc rs fresp ferr live rb pb srv hooks up tun cr ms ab rqe rqf rsf ve vg].

Lemma perr_tail_s isreq code af s : In (abs (fst (perr_tail isreq code af s))) (a_perr_tail isreq af (abs s)).
Proof. Time start s. Time unfold perr_tail, check_killed, killed_by_remote, killed_by_us, finish_killed, apply_after, a_perr_tail. Time (destruct af, isreq; crunch). Time Qed.

Lemma handle_perr_s isreq code af s : In (abs (fst (handle_perr isreq code af s))) (a_handle_perr isreq af (abs s)).
Proof.
  start s. unfold handle_perr, a_handle_perr, seq_res, emit_hook, perr_tail, a_perr_tail, check_killed, killed_by_remote, killed_by_us, finish_killed, apply_after.
  Time (destruct isreq, af; crunch).
Time Qed.

Ltac unf := unfold
  handle_perr, a_handle_perr, seq_res, emit_hook, a_emit_hook, perr_tail, a_perr_tail, check_killed, a_check_killed,
  killed_by_remote, killed_by_us, finish_killed, a_finish_killed, apply_after, a_apply_after, crash, a_crash,
  flow_done, a_flow_done, send_response, a_send_response, send_response_cont, a_send_response_cont,
  start_request_stream, a_start_request_stream, resume_conn_stream, a_resume_conn_stream,
  resume_conn_consume, a_resume_conn_consume, stream_req_data, stream_resp_data,
  cbs_req, a_cbs_req, cbs_resp, a_cbs_resp, state_wait_req_headers, a_state_wait_req_headers,
  cont_req_headers, a_cont_req_headers, state_consume_req, a_state_consume_req, cont_req, a_cont_req,
  state_stream_req, a_state_stream_req, cont_req_stream, a_cont_req_stream,
  start_response_stream, a_start_response_stream, state_wait_resp_headers, a_state_wait_resp_headers,
  cont_resp_headers, a_cont_resp_headers, state_consume_resp, a_state_consume_resp,
  state_stream_resp, a_state_stream_resp, cont_connect, a_cont_connect, set_content, set_rstream, resp_stream_on,
  req_head_or_default, req_host, limits_on in *.

Lemma send_response_cont_s already s : In (abs (fst (send_response_cont already s))) (a_send_response_cont (abs s)).
Proof. start s. unf; unf; unf. crunch. Qed.
Lemma send_response_s already s : In (abs (fst (send_response already s))) (a_send_response already (abs s)).
Proof. start s. unf; unf; unf. crunch. Qed.
Lemma resume_conn_stream_s o late c s :
  In (abs (fst (resume_conn_stream o late c s))) (a_resume_conn_stream (is_some late) (is_some c) (abs s)).
Proof. start s. unf; unf; unf. destruct late, c; crunch. Qed.
Lemma resume_conn_consume_s c s : In (abs (fst (resume_conn_consume c s))) (a_resume_conn_consume (is_some c) (abs s)).
Proof. start s. unf; unf; unf. destruct c; crunch. Qed.
Lemma state_wait_req_headers_s o h es s :
  In (abs (fst (state_wait_req_headers o h es s)))
     (a_state_wait_req_headers (o_val o && negb (h_valid h)) (meth_eqb (h_meth h) MConnect) (h_hashost h) es (abs s)).
Proof. start s. unf; unf; unf. destruct es; crunch. Qed.
Lemma cont_req_headers_s es s : In (abs (fst (cont_req_headers es s))) (a_cont_req_headers es (abs s)).
Proof. start s. unf; unf; unf. destruct es; crunch. Qed.
Lemma state_consume_req_s o e s : In (abs (fst (state_consume_req o e s))) (a_state_consume_req (aev_of o e) (abs s)).
Proof. start s. unf; unf; unf. destruct e; crunch. Qed.
Lemma cont_req_s s : In (abs (fst (cont_req s))) (a_cont_req (abs s)).
Proof. start s. unf; unf; unf. crunch. Qed.
Lemma state_stream_req_s o e s : In (abs (fst (state_stream_req o e s))) (a_state_stream_req (aev_of o e) (abs s)).
Proof. start s. unf; unf; unf. destruct e; crunch. Qed.
Lemma cont_req_stream_s s : In (abs (fst (cont_req_stream s))) (a_cont_req_stream (abs s)).
Proof. start s. unf; unf; unf. crunch. Qed.
Lemma state_wait_resp_headers_s o h es s :
  In (abs (fst (state_wait_resp_headers o h es s))) (a_state_wait_resp_headers (o_val o && negb (h_valid h)) es (abs s)).
Proof. start s. unf; unf; unf. destruct es; crunch. Qed.
Lemma cont_resp_headers_s es s : In (abs (fst (cont_resp_headers es s))) (a_cont_resp_headers es (abs s)).
Proof. start s. unf; unf; unf. destruct es; crunch. Qed.
Lemma state_consume_resp_s o e s : In (abs (fst (state_consume_resp o e s))) (a_state_consume_resp (aev_of o e) (abs s)).
Proof. start s. unf; unf; unf. destruct e; crunch. Qed.
Lemma state_stream_resp_s o e s : In (abs (fst (state_stream_resp o e s))) (a_state_stream_resp (aev_of o e) (abs s)).
Proof. start s. unf; unf; unf. destruct e; crunch. Qed.
Lemma cont_connect_s s : In (abs (fst (cont_connect s))) (a_cont_connect (abs s)).
Proof. start s. unf; unf; unf. crunch. Qed.
Lemma note_event_s o e s : abs (note_event e s) = a_note_event (aev_of o e) (abs s).
Proof. start s. unfold note_event, a_note_event. destruct e; crunch. Qed.

Lemma crash_s s : In (abs (fst (crash s))) (a_crash (abs s)).
Proof. start s. unfold crash, a_crash. simpl. auto. Qed.
Lemma id_s s : In (abs (fst (s, @nil scmd))) [abs s].
Proof. simpl. auto. Qed.

Ltac by_lemma o :=
  first [ apply crash_s | apply id_s
        | apply state_wait_req_headers_s | apply (state_consume_req_s o) | apply (state_stream_req_s o)
        | apply state_wait_resp_headers_s | apply (state_consume_resp_s o) | apply (state_stream_resp_s o)
        | apply handle_perr_s ].

Lemma run_event_s o s e : In (abs (fst (run_event o s e))) (a_run_event (aev_of o e) (abs s)).
Proof.
  unfold run_event, a_run_event. rewrite <- (note_event_s o e s). set (s1 := note_event e s).
  change (x_cs (abs s1)) with (cs s1). change (x_ss (abs s1)) with (ss s1).
  destruct e; simpl aev_of; cbv iota beta; try by_lemma o.
  all: first [ destruct (cs s1); by_lemma o | destruct (ss s1); by_lemma o ].
Qed.

Definition ok_of (inp : sinput) : bool := match inp with IConnDone (Some _) => true | _ => false end.
Lemma resume_s o k inp s : In (abs (fst (resume o k inp s))) (a_resume (tag_of (Some k)) (ok_of inp) (abs s)).
Proof.
  destruct k; simpl tag_of; unfold resume, a_resume.
  all: try (start s; unf; unf; simpl; auto 10; fail).
  - apply cont_req_headers_s.
  - pose proof (resume_conn_stream_s o None (match inp with IConnDone c => c | _ => None end) s) as H; destruct inp as [e | | [c|]]; exact H.
  - pose proof (resume_conn_stream_s o (Some body) (match inp with IConnDone c => c | _ => None end) s) as H; destruct inp as [e | | [c|]]; exact H.
  - pose proof (resume_conn_consume_s (match inp with IConnDone c => c | _ => None end) s) as H; destruct inp as [e | | [c|]]; exact H.
  - apply cont_req_stream_s.
  - apply cont_req_s.
  - start s; unf; unf; unf; crunch.
  - apply cont_resp_headers_s.
  - apply send_response_cont_s.
  - apply perr_tail_s.
  - apply cont_connect_s.
Qed.

Lemma apply_act_s h a s : In (abs (apply_act h a s)) (a_apply_act (abs s)).
Proof. start s. unfold apply_act, a_apply_act, killable. destruct a, h; crunch. Qed.
