(* Proofs/FilterHeader.v -- the content-type filters search each Content-Type field value on its own (none when
   the header is absent); the header filters search the serialised header block of each present message. *)
From Coq Require Import List Bool.
From MV Require Import Base.Bytes Model.FilterHeader.
Import ListNotations.

Lemma check_ct_spec s fields : check_content_type s fields = existsb s (ct_values fields).
Proof.
  unfold check_content_type, ct_values. induction fields as [| f fs IH]; [reflexivity |].
  simpl. destruct (is_ct f); simpl; rewrite IH; reflexivity.
Qed.
Lemma check_ct_absent s fields : ct_values fields = [] -> check_content_type s fields = false.
Proof. intros H. rewrite check_ct_spec, H. reflexivity. Qed.
Lemma check_ct_some_value s fields v : In v (ct_values fields) -> s v = true -> check_content_type s fields = true.
Proof. intros Hin Hs. rewrite check_ct_spec. apply existsb_exists. exists v. split; assumption. Qed.

Lemma fct_spec s f : fcontent_type s f = existsb s (ct_values (req_fields f) ++ ct_values (resp_fields f)).
Proof.
  destruct f as [rq rs |]; [| reflexivity]. simpl. rewrite existsb_app, <- !check_ct_spec.
  destruct (check_content_type s rq); [reflexivity |]. destruct rs; reflexivity.
Qed.
Lemma fctq_spec s f : fcontent_type_request s f = existsb s (ct_values (req_fields f)).
Proof. destruct f as [rq rs |]; [| reflexivity]. simpl. apply check_ct_spec. Qed.
Lemma fcts_spec s f : fcontent_type_response s f = existsb s (ct_values (resp_fields f)).
Proof. destruct f as [rq [r |] |]; try reflexivity. simpl. apply check_ct_spec. Qed.
Lemma fasset_spec types f :
  fasset types f = existsb (fun v => existsb (fun i => i v) types) (ct_values (resp_fields f)).
Proof.
  destruct f as [rq [r |] |]; try reflexivity. simpl.
  induction types as [| i types IH].
  - simpl. induction (ct_values r); [reflexivity | assumption].
  - simpl. rewrite IH, check_ct_spec. clear IH. induction (ct_values r) as [| v vs IHv]; [reflexivity |].
    simpl. rewrite <- IHv. destruct (i v), (existsb (fun i0 => i0 v) types), (existsb i vs); reflexivity.
Qed.

Definition present_blocks (f : flowh) : list bytes :=
  match f with
  | HttpH rq rs => headers_bytes rq :: match rs with Some r => [headers_bytes r] | None => [] end
  | OtherH => []
  end.
Lemma fhead_spec s f : fhead s f = existsb s (present_blocks f).
Proof. destruct f as [rq [r |] |]; simpl; try reflexivity; destruct (s (headers_bytes rq)); simpl; rewrite ?orb_false_r; reflexivity. Qed.
Lemma fhead_request_spec s f : fhead_request s f = existsb s (match f with HttpH rq _ => [headers_bytes rq] | OtherH => [] end).
Proof. destruct f; simpl; rewrite ?orb_false_r; reflexivity. Qed.
Lemma fhead_response_spec s f :
  fhead_response s f = existsb s (match f with HttpH _ (Some r) => [headers_bytes r] | _ => [] end).
Proof. destruct f as [rq [r |] |]; simpl; rewrite ?orb_false_r; reflexivity. Qed.
