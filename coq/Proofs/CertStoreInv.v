(* Proofs/CertStoreInv.v -- reachable-state invariant of the CertStore model, the capacity
   bound and name consistency of served entries. *)
From Coq Require Import List Bool Arith Lia.
From MV Require Import Base.Bytes Model.CertStore.
Import ListNotations.

(* ---------- boolean equalities are equalities ---------- *)
Lemma list_eqb_eq {A} (eqb : A -> A -> bool) :
  (forall a b, eqb a b = true <-> a = b) -> forall l1 l2, list_eqb eqb l1 l2 = true <-> l1 = l2.
Proof.
  intros H l1. induction l1 as [|x l1 IH]; intros [|y l2]; simpl; split; intros E;
    try reflexivity; try discriminate.
  - apply andb_true_iff in E as [E1 E2]. apply H in E1. apply IH in E2. congruence.
  - inversion E; subst. apply andb_true_iff. split; [apply H; reflexivity | apply IH; reflexivity].
Qed.

Lemma option_eqb_eq {A} (eqb : A -> A -> bool) :
  (forall a b, eqb a b = true <-> a = b) -> forall o1 o2, option_eqb eqb o1 o2 = true <-> o1 = o2.
Proof.
  intros H [x|] [y|]; simpl; split; intros E; try reflexivity; try discriminate.
  - apply H in E. congruence.
  - inversion E; subst. apply H. reflexivity.
Qed.

Lemma san_eqb_eq a b : san_eqb a b = true <-> a = b.
Proof.
  destruct a as [x|x], b as [y|y]; simpl; split; intros E; try discriminate.
  - apply bytes_eqb_eq in E. congruence.
  - inversion E. apply bytes_eqb_refl.
  - apply bytes_eqb_eq in E. congruence.
  - inversion E. apply bytes_eqb_refl.
Qed.

Lemma key_eqb_eq a b : key_eqb a b = true <-> a = b.
Proof.
  destruct a as [x|c1 s1], b as [y|c2 s2]; simpl; split; intros E; try discriminate.
  - apply bytes_eqb_eq in E. congruence.
  - inversion E. apply bytes_eqb_refl.
  - apply andb_true_iff in E as [E1 E2].
    apply (option_eqb_eq _ bytes_eqb_eq) in E1. apply (list_eqb_eq _ san_eqb_eq) in E2. congruence.
  - inversion E; subst. apply andb_true_iff. split.
    + apply (option_eqb_eq _ bytes_eqb_eq). reflexivity.
    + apply (list_eqb_eq _ san_eqb_eq). reflexivity.
Qed.

Lemma entry_eqb_eq a b : entry_eqb a b = true <-> a = b.
Proof.
  destruct a as [i|i c1 s1], b as [j|j c2 s2]; simpl; split; intros E; try discriminate.
  - apply Nat.eqb_eq in E. congruence.
  - inversion E. apply Nat.eqb_refl.
  - apply andb_true_iff in E as [E0 E2]. apply andb_true_iff in E0 as [E0 E1].
    apply Nat.eqb_eq in E0.
    apply (option_eqb_eq _ bytes_eqb_eq) in E1. apply (list_eqb_eq _ san_eqb_eq) in E2. congruence.
  - inversion E; subst. rewrite Nat.eqb_refl. simpl. apply andb_true_iff. split.
    + apply (option_eqb_eq _ bytes_eqb_eq). reflexivity.
    + apply (list_eqb_eq _ san_eqb_eq). reflexivity.
Qed.

Lemma key_eqb_refl k : key_eqb k k = true.
Proof. apply key_eqb_eq. reflexivity. Qed.

Lemma key_eqb_neq a b : a <> b -> key_eqb a b = false.
Proof. intros H. destruct (key_eqb a b) eqn:E; [apply key_eqb_eq in E; contradiction | reflexivity]. Qed.

Lemma entry_eqb_neq a b : a <> b -> entry_eqb a b = false.
Proof. intros H. destruct (entry_eqb a b) eqn:E; [apply entry_eqb_eq in E; contradiction | reflexivity]. Qed.

(* ---------- dict lemmas ---------- *)
Lemma dict_get_in k c e : dict_get k c = Some e -> In (k, e) c.
Proof.
  induction c as [|[k0 v0] r IH]; simpl; intros H; [discriminate|].
  destruct (key_eqb k0 k) eqn:E.
  - apply key_eqb_eq in E. inversion H; subst. left. reflexivity.
  - right. apply IH, H.
Qed.

Lemma dict_set_in k v c k' e' :
  In (k', e') (dict_set k v c) -> (k' = k /\ e' = v) \/ In (k', e') c.
Proof.
  induction c as [|[k0 v0] r IH]; simpl; intros H.
  - destruct H as [H|[]]. inversion H. left. split; reflexivity.
  - destruct (key_eqb k0 k) eqn:E.
    + apply key_eqb_eq in E. subst k0. destruct H as [H|H].
      * inversion H. left. split; reflexivity.
      * right. right. exact H.
    + destruct H as [H|H].
      * right. left. exact H.
      * apply IH in H. destruct H as [H|H]; [left; exact H | right; right; exact H].
Qed.

Lemma dict_set_nodup k v c : NoDup (map fst c) -> NoDup (map fst (dict_set k v c)).
Proof.
  induction c as [|[k0 v0] r IH]; simpl; intros H.
  - constructor; [intros [] | constructor].
  - destruct (key_eqb k0 k) eqn:E; simpl.
    + exact H.
    + inversion H as [|? ? Hn Hr]; subst. constructor.
      * intros Hin. apply in_map_iff in Hin as [[k1 e1] [Hk Hin]]. simpl in Hk. subst k1.
        apply dict_set_in in Hin as [[Hk _]|Hin].
        -- subst k0. rewrite key_eqb_refl in E. discriminate.
        -- apply Hn. apply in_map_iff. exists (k0, e1). split; [reflexivity | exact Hin].
      * apply IH, Hr.
Qed.

Lemma dict_get_set_same k v c : dict_get k (dict_set k v c) = Some v.
Proof.
  induction c as [|[k0 v0] r IH]; simpl.
  - rewrite key_eqb_refl. reflexivity.
  - destruct (key_eqb k0 k) eqn:E; simpl; rewrite E; [reflexivity | exact IH].
Qed.

Lemma dict_get_set_other k k' v c : k' <> k -> dict_get k' (dict_set k v c) = dict_get k' c.
Proof.
  intros Hne. induction c as [|[k0 v0] r IH]; simpl.
  - rewrite key_eqb_neq by congruence. reflexivity.
  - destruct (key_eqb k0 k) eqn:E; simpl.
    + apply key_eqb_eq in E. subst k0. rewrite (key_eqb_neq k k') by congruence. reflexivity.
    + rewrite IH. reflexivity.
Qed.

Lemma filter_ne_in d c k e : In (k, e) (dict_filter_ne d c) -> In (k, e) c /\ e <> d.
Proof.
  unfold dict_filter_ne. intros H. apply filter_In in H as [H1 H2]. split; [exact H1|].
  simpl in H2. intros ->. rewrite (proj2 (entry_eqb_eq d d) eq_refl) in H2. discriminate.
Qed.

Lemma filter_nodup_keys (f : key * entry -> bool) c : NoDup (map fst c) -> NoDup (map fst (filter f c)).
Proof.
  induction c as [|[k0 v0] r IH]; simpl; intros H; [constructor|].
  inversion H as [|? ? Hn Hr]; subst.
  destruct (f (k0, v0)); simpl; [constructor|]; try (apply IH, Hr).
  intros Hin. apply Hn. apply in_map_iff in Hin as [x [Hx Hin]]. apply filter_In in Hin as [Hin _].
  apply in_map_iff. exists x. split; assumption.
Qed.

(* the first binding of k survives the filter when its value is not the evicted entry *)
Lemma dict_get_filter k e d c : dict_get k c = Some e -> e <> d -> dict_get k (dict_filter_ne d c) = Some e.
Proof.
  intros H Hne. induction c as [|[k0 v0] r IH]; simpl in *; [discriminate|].
  destruct (key_eqb k0 k) eqn:E.
  - inversion H; subst v0. rewrite (entry_eqb_neq _ _ Hne). simpl. rewrite E. reflexivity.
  - destruct (negb (entry_eqb v0 d)); simpl; [rewrite E|]; apply IH, H.
Qed.

(* a key none of whose bindings is the evicted entry is not affected by the filter *)
Lemma dict_get_filter_same k d c :
  (forall e, In (k, e) c -> e <> d) -> dict_get k (dict_filter_ne d c) = dict_get k c.
Proof.
  induction c as [|[k0 v0] r IH]; simpl; intros H; [reflexivity|].
  destruct (entry_eqb v0 d) eqn:Ed; simpl.
  - apply entry_eqb_eq in Ed. subst v0.
    destruct (key_eqb k0 k) eqn:E.
    + apply key_eqb_eq in E. subst k0. exfalso. apply (H d); [left; reflexivity | reflexivity].
    + apply IH. intros e He. apply H. right. exact He.
  - destruct (key_eqb k0 k); [reflexivity|]. apply IH. intros e He. apply H. right. exact He.
Qed.

(* ---------- the invariant ---------- *)
Definition gid (e : entry) : nat := match e with EGen i _ _ => i | ECustom _ => 0 end.

Section WithCap.
Variable cap : nat.

Record Inv (st : store) : Prop := {
  inv_keys : NoDup (map fst (certs st));
  inv_custom : forall n e, In (KCustom n, e) (certs st) -> exists i, e = ECustom i;
  inv_gen : forall cn sans e, In (KGen cn sans, e) (certs st) ->
            (exists i, e = EGen i cn sans) /\ In e (expire_queue st);
  inv_q_gen : forall e, In e (expire_queue st) -> exists i cn sans, e = EGen i cn sans;
  inv_q_ids : map gid (expire_queue st)
              = seq (next_gen st - length (expire_queue st)) (length (expire_queue st));
  inv_q_next : length (expire_queue st) <= next_gen st;
  inv_q_cap : length (expire_queue st) <= cap }.

Lemma Inv_empty : Inv empty_store.
Proof.
  constructor; simpl; try (intros; contradiction); try lia; try reflexivity. constructor.
Qed.

(* add_cert only writes custom keys with the custom entry *)
Lemma fold_set_custom {A} (f : A -> name) (e : entry) (l : list A) c :
  NoDup (map fst c) ->
  NoDup (map fst (fold_left (fun c x => dict_set (KCustom (f x)) e c) l c))
  /\ (forall k e', In (k, e') (fold_left (fun c x => dict_set (KCustom (f x)) e c) l c) ->
        (exists x, In x l /\ k = KCustom (f x) /\ e' = e) \/ In (k, e') c)
  /\ (forall k, (forall x, In x l -> k <> KCustom (f x)) ->
        dict_get k (fold_left (fun c x => dict_set (KCustom (f x)) e c) l c) = dict_get k c).
Proof.
  revert c. induction l as [|x l IH]; intros c Hnd; simpl.
  - split; [exact Hnd|]. split; [intros k e' H; right; exact H | reflexivity].
  - destruct (IH (dict_set (KCustom (f x)) e c) (dict_set_nodup _ _ _ Hnd)) as [I1 [I2 I3]].
    split; [exact I1|]. split.
    + intros k e' H. apply I2 in H. destruct H as [[y [Hy [Hk He]]]|H].
      * left. exists y. split; [right; exact Hy | split; assumption].
      * apply dict_set_in in H as [[Hk He]|H].
        -- left. exists x. split; [left; reflexivity | split; assumption].
        -- right. exact H.
    + intros k Hk. rewrite I3 by (intros y Hy; apply Hk; right; exact Hy).
      apply dict_get_set_other. apply Hk. left. reflexivity.
Qed.

(* names registered by one add_cert call *)
Definition registered_names (cn : option name) (alt : list san) (names : list name) : list name :=
  (match cn with Some n => if truthy_name n then [n] else [] | None => [] end)
  ++ map san_str alt ++ names.

Lemma add_cert_spec st i cn alt names :
  NoDup (map fst (certs st)) ->
  let st' := add_cert st (ECustom i) cn alt names in
  NoDup (map fst (certs st'))
  /\ (forall k e, In (k, e) (certs st') -> (exists n, k = KCustom n /\ e = ECustom i) \/ In (k, e) (certs st))
  /\ (forall k, (forall n, In n (registered_names cn alt names) -> k <> KCustom n) ->
        dict_get k (certs st') = dict_get k (certs st))
  /\ expire_queue st' = expire_queue st /\ next_gen st' = next_gen st.
Proof.
  intros Hnd. unfold add_cert. cbn [certs expire_queue next_gen].
  set (c1 := match cn with
             | Some n => if truthy_name n then dict_set (KCustom n) (ECustom i) (certs st) else certs st
             | None => certs st end).
  assert (H1 : NoDup (map fst c1)
               /\ (forall k e, In (k, e) c1 -> (exists n, k = KCustom n /\ e = ECustom i) \/ In (k, e) (certs st))
               /\ (forall k, (forall n, In n (match cn with Some n => if truthy_name n then [n] else [] | None => [] end)
                                        -> k <> KCustom n) -> dict_get k c1 = dict_get k (certs st))).
  { unfold c1. destruct cn as [n|]; [destruct (truthy_name n)|].
    - split; [apply dict_set_nodup, Hnd|]. split.
      + intros k e H. apply dict_set_in in H as [[Hk He]|H]; [left; exists n; split; assumption | right; exact H].
      + intros k Hk. apply dict_get_set_other. apply Hk. left. reflexivity.
    - split; [exact Hnd|]. split; [intros k e H; right; exact H | reflexivity].
    - split; [exact Hnd|]. split; [intros k e H; right; exact H | reflexivity]. }
  destruct H1 as [N1 [S1 G1]].
  destruct (fold_set_custom san_str (ECustom i) alt c1 N1) as [N2 [S2 G2]].
  set (c2 := fold_left (fun c s => dict_set (KCustom (san_str s)) (ECustom i) c) alt c1) in *.
  destruct (fold_set_custom (fun n : name => n) (ECustom i) names c2 N2) as [N3 [S3 G3]].
  split; [exact N3|]. split; [|split; [|split; reflexivity]].
  - intros k e H. apply S3 in H. destruct H as [[x [_ [Hk He]]]|H]; [left; exists x; split; assumption|].
    apply S2 in H. destruct H as [[x [_ [Hk He]]]|H]; [left; exists (san_str x); split; assumption|].
    apply S1, H.
  - intros k Hk. unfold registered_names in Hk.
    rewrite G3 by (intros x Hx; apply Hk; apply in_or_app; right; apply in_or_app; right; exact Hx).
    rewrite G2 by (intros x Hx; apply Hk; apply in_or_app; right; apply in_or_app; left; apply in_map; exact Hx).
    apply G1. intros n Hn. apply Hk. apply in_or_app. left. exact Hn.
Qed.

Lemma Inv_add_cert st i cn alt names : Inv st -> Inv (add_cert st (ECustom i) cn alt names).
Proof.
  intros I. destruct (add_cert_spec st i cn alt names (inv_keys _ I)) as [N [S [_ [Q X]]]].
  constructor; try (rewrite ?Q, ?X; apply I).
  - exact N.
  - intros n e H. apply S in H as [[n' [_ He]]|H]; [exists i; exact He | eapply inv_custom; eauto].
  - intros c s e H. apply S in H as [[n' [Hk _]]|H]; [discriminate|]. rewrite Q. eapply inv_gen; eauto.
Qed.

(* the generating branch *)
Lemma generate_spec st cn sans st' e :
  Inv st -> generate cap st cn sans = Some (st', e) ->
  Inv st' /\ e = EGen (next_gen st) cn sans /\ next_gen st' = S (next_gen st).
Proof.
  intros I H. unfold generate in H. destruct (dummy_cert_ok cn); [|discriminate].
  inversion H; subst e; clear H. set (e := EGen (next_gen st) cn sans) in *.
  split; [|split; [reflexivity|]].
  2:{ subst st'. unfold expire. cbn [certs expire_queue next_gen].
      destruct (cap <? _); [destruct (expire_queue st ++ [e])|]; reflexivity. }
  set (c' := dict_set (KGen cn sans) e (certs st)) in *.
  set (q := expire_queue st) in *. set (n := next_gen st) in *.
  assert (Hq : map gid q = seq (n - length q) (length q)) by apply I.
  assert (Hqn : length q <= n) by apply I.
  assert (Hqc : length q <= cap) by apply I.
  assert (N' : NoDup (map fst c')) by (apply dict_set_nodup, I).
  assert (C' : forall n0 e0, In (KCustom n0, e0) c' -> exists i, e0 = ECustom i).
  { intros n0 e0 Hin. apply dict_set_in in Hin as [[Hk _]|Hin]; [discriminate|]. eapply inv_custom; eauto. }
  assert (G' : forall c s e0, In (KGen c s, e0) c' -> (exists i, e0 = EGen i c s) /\ In e0 (q ++ [e])).
  { intros c s e0 Hin. apply dict_set_in in Hin as [[Hk He]|Hin].
    - inversion Hk; subst. split; [exists n; reflexivity | apply in_or_app; right; left; reflexivity].
    - destruct (inv_gen _ I _ _ _ Hin) as [A B]. split; [exact A | apply in_or_app; left; exact B]. }
  assert (QG : forall x, In x (q ++ [e]) -> exists i c s, x = EGen i c s).
  { intros x Hx. apply in_app_or in Hx as [Hx|[Hx|[]]]; [eapply inv_q_gen; eauto | subst x; exists n, cn, sans; reflexivity]. }
  assert (QI : map gid (q ++ [e]) = seq (n - length q) (S (length q))).
  { rewrite seq_S, map_app, Hq. f_equal. cbn [map gid e]. f_equal. lia. }
  subst st'. unfold expire. cbn [certs expire_queue next_gen].
  rewrite app_length. simpl length. destruct (cap <? length q + 1) eqn:E.
  - apply Nat.ltb_lt in E. destruct (q ++ [e]) as [|d q'] eqn:Q.
    + exfalso. destruct q; discriminate.
    + assert (L : length q' = length q).
      { apply (f_equal (@length _)) in Q. rewrite app_length in Q. simpl in Q. lia. }
      simpl in QI. inversion QI as [[Hd Hq']].
      constructor; cbn [certs expire_queue next_gen].
      * apply filter_nodup_keys, N'.
      * intros n0 e0 Hin. apply filter_ne_in in Hin as [Hin _]. eapply C'; eauto.
      * intros c s e0 Hin. apply filter_ne_in in Hin as [Hin Hne].
        destruct (G' _ _ _ Hin) as [A B]. split; [exact A|].
        destruct B as [B|B]; [congruence | exact B].
      * intros x Hx. apply QG. right. exact Hx.
      * rewrite Hq', L. f_equal; lia.
      * lia.
      * lia.
  - apply Nat.ltb_ge in E.
    constructor; cbn [certs expire_queue next_gen]; rewrite ?app_length; simpl length.
    + exact N'.
    + exact C'.
    + exact G'.
    + exact QG.
    + rewrite QI. replace (length q + 1) with (S (length q)) by lia. f_equal; lia.
    + lia.
    + lia.
Qed.

Section WithTruthy.
Variable truthy : bool.

Lemma get_cert_spec st cn sans st' e :
  Inv st -> get_cert truthy cap st cn sans = Some (st', e) ->
  Inv st' /\ next_gen st <= next_gen st'.
Proof.
  intros I H. unfold get_cert in H.
  destruct (lookup_first _ _) as [[k e0]|].
  - destruct (negb truthy || truthy_key k).
    + inversion H; subst. split; [exact I | lia].
    + apply generate_spec in H as [A [_ B]]; [|exact I]. split; [exact A | lia].
  - apply generate_spec in H as [A [_ B]]; [|exact I]. split; [exact A | lia].
Qed.

Lemma Inv_step st o : Inv st -> Inv (fst (step truthy cap st o)).
Proof.
  intros I. destruct o as [i cn alt names|cn sans]; simpl.
  - apply Inv_add_cert, I.
  - destruct (get_cert truthy cap st cn sans) as [[st' e]|] eqn:G; simpl; [|exact I].
    eapply get_cert_spec; eauto.
Qed.

Lemma Inv_run ops st : Inv st -> Inv (run truthy cap ops st).
Proof.
  revert st. induction ops as [|o r IH]; intros st I; simpl; [exact I|]. apply IH, Inv_step, I.
Qed.

Lemma Inv_reachable ops : Inv (run truthy cap ops empty_store).
Proof. apply Inv_run, Inv_empty. Qed.

(* ---------- T1: the bound ---------- *)
Lemma gen_entries_nodup c :
  NoDup (map fst c) ->
  (forall cn sans e, In (KGen cn sans, e) c -> exists i, e = EGen i cn sans) ->
  NoDup (map snd (filter (fun kv => is_gen_key (fst kv)) c)).
Proof.
  induction c as [|[k0 v0] r IH]; simpl; intros Hnd Hg; [constructor|].
  inversion Hnd as [|? ? Hn Hr]; subst.
  assert (IH' : NoDup (map snd (filter (fun kv => is_gen_key (fst kv)) r))).
  { apply IH; [exact Hr|]. intros c s e He. apply (Hg c s e). right. exact He. }
  destruct k0 as [n0|c0 s0]; simpl; [exact IH'|].
  constructor; [|exact IH'].
  intros Hin. apply in_map_iff in Hin as [[k1 e1] [He Hin]]. simpl in He. subst e1.
  apply filter_In in Hin as [Hin Hk]. simpl in Hk. destruct k1 as [|c1 s1]; [discriminate|].
  destruct (Hg c0 s0 v0 (or_introl eq_refl)) as [i Hi].
  destruct (Hg c1 s1 v0 (or_intror Hin)) as [j Hj].
  rewrite Hi in Hj. inversion Hj; subst.
  apply Hn. apply in_map_iff. exists (KGen c1 s1, EGen j c1 s1). split; [reflexivity | exact Hin].
Qed.

Lemma bound_inv st : Inv st -> gen_count (certs st) <= cap /\ length (expire_queue st) <= cap.
Proof.
  intros I. split; [|apply I]. unfold gen_count.
  rewrite <- (map_length snd). etransitivity; [|apply (inv_q_cap _ I)].
  apply NoDup_incl_length.
  - apply gen_entries_nodup; [apply I|]. intros c s e H. apply (inv_gen _ I _ _ _ H).
  - intros e He. apply in_map_iff in He as [[k e1] [E Hin]]. simpl in E. subst e1.
    apply filter_In in Hin as [Hin Hk]. simpl in Hk. destruct k as [|c s]; [discriminate|].
    apply (inv_gen _ I _ _ _ Hin).
Qed.

Lemma bound ops :
  gen_count (certs (run truthy cap ops empty_store)) <= cap
  /\ length (expire_queue (run truthy cap ops empty_store)) <= cap.
Proof. apply bound_inv, Inv_reachable. Qed.

(* ---------- T2: served entries belong to the requested names ---------- *)
Definition served_ok (st : store) (cn : option name) (sans : list san) (e : entry) : Prop :=
  (exists n i, In n (potential_names cn sans) /\ e = ECustom i
               /\ dict_get (KCustom n) (certs st) = Some e)
  \/ (exists i, e = EGen i cn sans
                /\ (dict_get (KGen cn sans) (certs st) = Some e \/ i = next_gen st)).

Lemma lookup_first_some keys c k e :
  lookup_first keys c = Some (k, e) -> In k keys /\ dict_get k c = Some e.
Proof.
  induction keys as [|k0 r IH]; simpl; intros H; [discriminate|].
  destruct (dict_get k0 c) eqn:G.
  - inversion H; subst. split; [left; reflexivity | exact G].
  - apply IH in H as [A B]. split; [right; exact A | exact B].
Qed.

Lemma served_inv st cn sans st' e :
  Inv st -> get_cert truthy cap st cn sans = Some (st', e) -> served_ok st cn sans e.
Proof.
  intros I H. unfold get_cert in H.
  assert (Gen : forall st1 e1, generate cap st cn sans = Some (st1, e1) -> served_ok st cn sans e1).
  { intros st1 e1 G. apply generate_spec in G as [_ [G _]]; [|exact I].
    right. exists (next_gen st). split; [exact G | right; reflexivity]. }
  destruct (lookup_first _ _) as [[k e0]|] eqn:L; [|eapply Gen; eauto].
  destruct (negb truthy || truthy_key k); [|eapply Gen; eauto].
  inversion H; subst. apply lookup_first_some in L as [Hin Hget].
  unfold potential_keys in Hin. apply in_app_or in Hin as [Hin|[Hin|[]]].
  - apply in_map_iff in Hin as [n [Hk Hn]]. subst k.
    destruct (inv_custom _ I _ _ (dict_get_in _ _ _ Hget)) as [i Hi].
    left. exists n, i. split; [exact Hn | split; [exact Hi | exact Hget]].
  - subst k. destruct (inv_gen _ I _ _ _ (dict_get_in _ _ _ Hget)) as [[i Hi] _].
    right. exists i. split; [exact Hi | left; exact Hget].
Qed.

Lemma served ops cn sans st' e :
  get_cert truthy cap (run truthy cap ops empty_store) cn sans = Some (st', e) ->
  served_ok (run truthy cap ops empty_store) cn sans e.
Proof. apply served_inv, Inv_reachable. Qed.

End WithTruthy.
End WithCap.
