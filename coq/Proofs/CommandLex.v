(* Proofs/CommandLex.v -- facts about the scanner model of command_lexer.expr:
   greedy spans, the three alternatives, fuel sufficiency, totality and losslessness. *)
From Coq Require Import List Bool Arith NArith Lia.
From MV Require Import Base.Bytes Model.Command.
Import ListNotations.
Open Scope N_scope.

(* ---------- small boolean predicates used in the statements ---------- *)
Definition no_special (w : str) : bool := forallb (fun c => negb (in_chars c SPECIAL)) w.
Definition all_ws (w : str) : bool := forallb (fun c => in_chars c WS) w.
Definition nonempty (w : str) : bool := match w with [] => false | _ => true end.
Definition is_quote (q : char) : bool := in_chars q QUOTES.
(* the next character (if any) does not satisfy p: a greedy class stops here *)
Definition stops (p : char -> bool) (rest : str) : bool :=
  match rest with [] => true | c :: _ => negb (p c) end.
Definition p_ws (c : char) : bool := in_chars c WS.
Definition p_plain (c : char) : bool := negb (in_chars c SPECIAL).
Definition p_not (q : char) (x : char) : bool := negb (x =? q).

Lemma in_chars_In c l : in_chars c l = true <-> In c l.
Proof.
  unfold in_chars. rewrite existsb_exists. split.
  - intros [x [Hx E]]. apply N.eqb_eq in E. subst. exact Hx.
  - intros H. exists c. split; [exact H | apply N.eqb_refl].
Qed.

Lemma in_chars_false c l : in_chars c l = false <-> ~ In c l.
Proof.
  rewrite <- in_chars_In. destruct (in_chars c l); split; intros H;
    try reflexivity; try discriminate; try (intros X; discriminate).
  exfalso. apply H. reflexivity.
Qed.

Lemma in_chars_app c a b : in_chars c (a ++ b) = in_chars c a || in_chars c b.
Proof. unfold in_chars. apply existsb_app. Qed.

Lemma ws_special c : in_chars c WS = true -> in_chars c SPECIAL = true.
Proof.
  rewrite !in_chars_In. unfold WS, SPECIAL. simpl. intuition.
Qed.

Lemma quote_special c : in_chars c QUOTES = true -> in_chars c SPECIAL = true.
Proof.
  rewrite !in_chars_In. unfold QUOTES, SPECIAL. simpl. intuition.
Qed.

Lemma quote_not_ws c : in_chars c QUOTES = true -> in_chars c WS = false.
Proof.
  rewrite in_chars_In. unfold QUOTES. simpl. intros [H | [H | []]]; subst; reflexivity.
Qed.

Lemma is_quote_cases q : is_quote q = true -> q = 39 \/ q = 34.
Proof. unfold is_quote. rewrite in_chars_In. simpl. intuition. Qed.

(* ---------- span ---------- *)
Lemma span_app p a rest :
  forallb p a = true -> stops p rest = true -> span p (a ++ rest) = (a, rest).
Proof.
  induction a as [|c a IH]; simpl; intros Ha Hr.
  - destruct rest as [|c r]; simpl in *; [reflexivity|].
    destruct (p c); [discriminate | reflexivity].
  - apply andb_true_iff in Ha as [Hc Ha]. rewrite Hc, (IH Ha Hr). reflexivity.
Qed.

Lemma span_spec p s :
  s = fst (span p s) ++ snd (span p s)
  /\ forallb p (fst (span p s)) = true /\ stops p (snd (span p s)) = true.
Proof.
  induction s as [|c r IH]; simpl; [auto|].
  destruct (p c) eqn:E.
  - destruct (span p r) as [a b]. simpl in *. destruct IH as [H1 [H2 H3]].
    rewrite E. repeat split; [congruence | exact H2 | exact H3].
  - simpl. rewrite E. auto.
Qed.

(* ---------- the three alternatives ---------- *)
Lemma mqw_other q s c r : s = c :: r -> (c =? q) = false -> match_quoted_with q s = None.
Proof. intros -> E. simpl. rewrite E. reflexivity. Qed.

Lemma pqs_quote q r :
  is_quote q = true -> PartialQuotedString (q :: r) = match_quoted_with q (q :: r).
Proof.
  intros Hq. unfold PartialQuotedString. destruct (is_quote_cases q Hq); subst q; cbn.
  - reflexivity.
  - destruct (span _ r) as [b [|x r']]; reflexivity.
Qed.

Lemma not_in_span q body : in_chars q body = false -> forallb (p_not q) body = true.
Proof.
  intros Hb. apply forallb_forall. intros x Hx. unfold p_not. apply negb_true_iff, N.eqb_neq.
  intros ->. apply in_chars_false in Hb. contradiction.
Qed.

Lemma mf_quoted_closed q body rest :
  is_quote q = true -> in_chars q body = false ->
  match_first (q :: body ++ q :: rest) = Some (q :: body ++ [q], rest).
Proof.
  intros Hq Hb.
  assert (Hs : span (p_not q) (body ++ q :: rest) = (body, q :: rest)).
  { apply span_app; [apply not_in_span; exact Hb|].
    simpl. unfold p_not. rewrite N.eqb_refl. reflexivity. }
  unfold match_first. rewrite (pqs_quote q _ Hq).
  simpl. rewrite N.eqb_refl. fold (p_not q). rewrite Hs. reflexivity.
Qed.

Lemma mf_quoted_open q body :
  is_quote q = true -> in_chars q body = false ->
  match_first (q :: body) = Some (q :: body, []).
Proof.
  intros Hq Hb.
  assert (Hs : span (p_not q) body = (body, [])).
  { rewrite <- (app_nil_r body) at 1. apply span_app; [apply not_in_span; exact Hb | reflexivity]. }
  unfold match_first. rewrite (pqs_quote q _ Hq).
  simpl. rewrite N.eqb_refl. fold (p_not q). rewrite Hs. reflexivity.
Qed.

Lemma pqs_none c r : is_quote c = false -> PartialQuotedString (c :: r) = None.
Proof.
  intros H. unfold PartialQuotedString.
  assert (c <> 34 /\ c <> 39) as [H1 H2].
  { unfold is_quote in H. apply in_chars_false in H. simpl in H. split; intros ->; apply H; auto. }
  apply N.eqb_neq in H1, H2. unfold match_quoted_with. fold c_dq in H1. fold c_sq in H2.
  rewrite H1, H2. reflexivity.
Qed.

Lemma mf_ws w rest :
  nonempty w = true -> all_ws w = true -> stops p_ws rest = true ->
  match_first (w ++ rest) = Some (w, rest).
Proof.
  intros Hn Hw Hr. destruct w as [|c w]; [discriminate|].
  assert (Hc : in_chars c WS = true) by (simpl in Hw; apply andb_true_iff in Hw; tauto).
  unfold match_first. simpl app. rewrite pqs_none.
  2:{ unfold is_quote. destruct (in_chars c QUOTES) eqn:E; [|reflexivity].
      apply quote_not_ws in E. congruence. }
  unfold Word. fold p_ws. change (c :: w ++ rest) with ((c :: w) ++ rest).
  rewrite (span_app p_ws (c :: w) rest Hw Hr). reflexivity.
Qed.

Lemma mf_plain w rest :
  nonempty w = true -> no_special w = true -> stops p_plain rest = true ->
  match_first (w ++ rest) = Some (w, rest).
Proof.
  intros Hn Hw Hr. destruct w as [|c w]; [discriminate|].
  assert (Hc : in_chars c SPECIAL = false).
  { simpl in Hw. apply andb_true_iff in Hw. destruct Hw as [Hw _]. apply negb_true_iff in Hw. exact Hw. }
  unfold match_first. simpl app. rewrite pqs_none.
  2:{ unfold is_quote. destruct (in_chars c QUOTES) eqn:E; [|reflexivity].
      apply quote_special in E. congruence. }
  assert (HW : Word WS (c :: w ++ rest) = None).
  { unfold Word. cbn [span]. destruct (in_chars c WS) eqn:E; [|reflexivity].
    apply ws_special in E. congruence. }
  rewrite HW. unfold CharsNotIn. fold p_plain. change (c :: w ++ rest) with ((c :: w) ++ rest).
  rewrite (span_app p_plain (c :: w) rest Hw Hr). reflexivity.
Qed.

(* every match consumes a non-empty prefix *)
Lemma match_first_split s t r : match_first s = Some (t, r) -> s = t ++ r /\ t <> [].
Proof.
  unfold match_first, PartialQuotedString, Word, CharsNotIn.
  assert (Q : forall q, match_quoted_with q s = Some (t, r) -> s = t ++ r /\ t <> []).
  { intros q. unfold match_quoted_with. destruct s as [|c s']; [discriminate|].
    destruct (c =? q) eqn:E; [|discriminate]. apply N.eqb_eq in E. subst c.
    pose proof (span_spec (fun x => negb (x =? q)) s') as [H1 [_ H3]].
    destruct (span (fun x => negb (x =? q)) s') as [body r']. simpl in *.
    destruct r' as [|c' r'']; intros H; inversion H; subst; clear H.
    - split; [reflexivity | discriminate].
    - split; [|discriminate]. apply negb_true_iff, negb_false_iff, N.eqb_eq in H3. subst c'.
      simpl. rewrite <- app_assoc. reflexivity. }
  destruct (match_quoted_with c_dq s) as [[t1 r1]|] eqn:E1.
  { intros H. inversion H; subst. apply (Q c_dq E1). }
  destruct (match_quoted_with c_sq s) as [[t2 r2]|] eqn:E2.
  { intros H. inversion H; subst. apply (Q c_sq E2). }
  pose proof (span_spec (fun c => in_chars c WS) s) as [H1 _].
  destruct (span (fun c => in_chars c WS) s) as [a b]. simpl in H1.
  destruct a as [|x a].
  - pose proof (span_spec (fun c => negb (in_chars c SPECIAL)) s) as [H2 _].
    destruct (span (fun c => negb (in_chars c SPECIAL)) s) as [a' b']. simpl in H2.
    destruct a'; [discriminate|]. intros H; inversion H; subst t r. split; [exact H2 | discriminate].
  - intros H; inversion H; subst t r. split; [exact H1 | discriminate].
Qed.

Lemma match_first_total s : s <> [] -> exists t r, match_first s = Some (t, r).
Proof.
  destruct s as [|c s]; [contradiction|]. intros _.
  unfold match_first, PartialQuotedString.
  destruct (match_quoted_with c_dq (c :: s)) as [[t r]|] eqn:E1; [eauto|].
  destruct (match_quoted_with c_sq (c :: s)) as [[t r]|] eqn:E2; [eauto|].
  unfold Word, CharsNotIn. cbn [span].
  destruct (in_chars c WS) eqn:Ew.
  - destruct (span (fun c0 => in_chars c0 WS) s). eauto.
  - destruct (in_chars c SPECIAL) eqn:Es; cbn [negb].
    + exfalso. apply in_chars_In in Es. unfold SPECIAL in Es. simpl in Es.
      apply in_chars_false in Ew. unfold WS in Ew. simpl in Ew.
      destruct Es as [H | [H | Es]]; [subst c | subst c | apply Ew; tauto].
      * cbn in E2. destruct (span _ s) as [? [|? ?]]; discriminate.
      * cbn in E1. destruct (span _ s) as [? [|? ?]]; discriminate.
    + destruct (span (fun c0 => negb (in_chars c0 SPECIAL)) s). eauto.
Qed.

(* ---------- fuel ---------- *)
Lemma lex_fuel_irrel n : forall m s,
  (length s <= n)%nat -> (length s <= m)%nat -> lex_fuel n s = lex_fuel m s.
Proof.
  induction n as [|n IH]; intros m s Hn Hm.
  - destruct s; [destruct m; reflexivity | simpl in Hn; lia].
  - destruct s as [|c s]; [destruct m; reflexivity|].
    destruct m as [|m]; [simpl in Hm; lia|].
    cbn [lex_fuel]. destruct (match_first (c :: s)) as [[t r]|] eqn:E; [|reflexivity].
    apply match_first_split in E as [E Ht].
    assert (length r < length (c :: s))%nat.
    { rewrite E, app_length. destruct t; [contradiction | simpl; lia]. }
    simpl in H. rewrite (IH m r) by (simpl in *; lia). reflexivity.
Qed.

Lemma lex_nil : lex [] = LexOk [].
Proof. reflexivity. Qed.

Lemma lex_cons s t r :
  match_first s = Some (t, r) ->
  lex s = match lex r with LexOk ts => LexOk (t :: ts) | e => e end.
Proof.
  intros E. pose proof (match_first_split _ _ _ E) as [Hs Ht].
  unfold lex. destruct s as [|c s].
  - destruct t; [contradiction | discriminate].
  - cbn [length lex_fuel]. rewrite E.
    assert (length r <= length s)%nat.
    { assert (length (c :: s) = length (t ++ r)) by congruence.
      rewrite app_length in H. destruct t; [contradiction | simpl in H; lia]. }
    rewrite (lex_fuel_irrel (length s) (length r) r) by lia. reflexivity.
Qed.

(* ---------- totality and losslessness (any input is valid) ---------- *)
Lemma lex_total_len n : forall s, (length s <= n)%nat ->
  exists ts, lex s = LexOk ts /\ concat ts = s /\ Forall (fun t => t <> []) ts.
Proof.
  induction n as [|n IH]; intros s Hn.
  - destruct s; [|simpl in Hn; lia]. exists []. auto.
  - destruct s as [|c s]; [exists []; auto|].
    destruct (match_first_total (c :: s)) as [t [r E]]; [discriminate|].
    pose proof (match_first_split _ _ _ E) as [Hs Ht].
    assert (length r <= n)%nat.
    { assert (length (c :: s) = length (t ++ r)) by congruence.
      rewrite app_length in H. destruct t; [contradiction | simpl in *; lia]. }
    destruct (IH r H) as [ts [H1 [H2 H3]]].
    exists (t :: ts). rewrite (lex_cons _ _ _ E), H1. simpl. rewrite H2.
    repeat split; [congruence | constructor; assumption].
Qed.

Lemma lex_total s :
  exists ts, lex s = LexOk ts /\ concat ts = s /\ Forall (fun t => t <> []) ts.
Proof. apply (lex_total_len (length s)). lia. Qed.

Lemma parse_string_total kt s :
  exists ts, parse_string kt s = LexOk ts
             /\ concat ts = (if kt then s else expandtabs s)
             /\ Forall (fun t => t <> []) ts.
Proof. unfold parse_string. apply lex_total. Qed.
