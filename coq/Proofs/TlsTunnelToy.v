(* Proofs/TlsTunnelToy.v -- the record-layer contract of Proofs/TlsTunnelData.v is satisfiable:
   a null-cipher record layer (every byte is a record, the peer reads what was written)
   satisfies it, and the theorems apply to a concrete run of the model over it. *)
From Coq Require Import List Bool Arith NArith Lia.
From MV Require Import Base.Bytes Model.TlsTunnel Proofs.TlsTunnelBase Proofs.TlsTunnelData.
Import ListNotations.

(* A record whose byte is 0xff is a corrupted record: recv fails on it for ever, and the
   connection object then refuses to send (what OpenSSL does after a fatal record error). *)
Definition is_ff (b : byte) : bool := byte_eqb b xff.
Record toy := mkToy { t_pout : bytes; t_unread : bytes; t_wout : bytes; t_pend : bytes; t_broken : bool }.
Definition toy_bio_write (r : toy) (d : bytes) : toy :=
  mkToy (t_pout r) (t_unread r ++ d) (t_wout r) (t_pend r) (t_broken r).
Definition toy_recv (r : toy) : toy * recv_res :=
  if existsb is_ff (t_unread r) then (mkToy (t_pout r) (t_unread r) (t_wout r) (t_pend r) true, RError)
  else match t_unread r with
       | [] => (r, RWantRead)
       | b => (mkToy (t_pout r ++ b) [] (t_wout r) (t_pend r) (t_broken r), RData b)
       end.
Definition toy_bio_read (r : toy) : toy * option bytes :=
  match t_pend r with
  | [] => (r, None)
  | b => (mkToy (t_pout r) (t_unread r) (t_wout r ++ b) [] (t_broken r), Some b)
  end.
Definition toy_sendall (r : toy) (d : bytes) : toy * send_res :=
  if t_broken r then (r, SRaise)
  else (mkToy (t_pout r) (t_unread r) (t_wout r) (t_pend r ++ d) (t_broken r), SOk).
Definition toy_do_handshake (r : toy) : toy * hs_res := (r, HsDone).
Definition toy_parse_hello (b : bytes) : hello_res := match b with [] => HelloIncomplete | _ => HelloOk end.

Definition toy_win (r : toy) := t_pout r ++ t_unread r.
Definition toy_pin (r : toy) := t_wout r ++ t_pend r.
Definition idb (b : bytes) := b.
Definition toy_bad (w : bytes) : Prop := existsb is_ff w = true.

Lemma toy_bio_write_spec r d :
  toy_win (toy_bio_write r d) = toy_win r ++ d /\ t_pout (toy_bio_write r d) = t_pout r /\
  toy_pin (toy_bio_write r d) = toy_pin r /\ t_wout (toy_bio_write r d) = t_wout r.
Proof. unfold toy_win, toy_pin; simpl. rewrite app_assoc. auto. Qed.
Lemma toy_recv_spec r :
  toy_win (fst (toy_recv r)) = toy_win r /\ toy_pin (fst (toy_recv r)) = toy_pin r /\
  t_wout (fst (toy_recv r)) = t_wout r /\
  match snd (toy_recv r) with
  | RData b => b <> [] /\ t_pout (fst (toy_recv r)) = t_pout r ++ b
  | RWantRead => t_pout (fst (toy_recv r)) = t_pout r /\ t_pout r = idb (toy_win r) /\ false = false
  | RZeroReturn => t_pout (fst (toy_recv r)) = t_pout r /\ t_pout r = idb (toy_win r) /\ false = true
  | RError => t_pout (fst (toy_recv r)) = t_pout r /\ toy_bad (toy_win r)
  | RRaise => True
  end.
Proof.
  unfold toy_recv, toy_win, toy_pin, idb, toy_bad. destruct (existsb is_ff (t_unread r)) eqn:Eb; simpl.
  - repeat split; auto. rewrite existsb_app, Eb. apply orb_true_r.
  - destruct (t_unread r) eqn:E; simpl; rewrite ?E, ?app_nil_r.
    + repeat split; auto.
    + repeat split; auto. discriminate.
Qed.
Lemma toy_bio_read_spec r :
  toy_win (fst (toy_bio_read r)) = toy_win r /\ t_pout (fst (toy_bio_read r)) = t_pout r /\
  toy_pin (fst (toy_bio_read r)) = toy_pin r /\
  match snd (toy_bio_read r) with
  | Some b => t_wout (fst (toy_bio_read r)) = t_wout r ++ b
  | None => t_wout (fst (toy_bio_read r)) = t_wout r /\ idb (t_wout r) = toy_pin r
  end.
Proof.
  unfold toy_bio_read, toy_win, toy_pin, idb. destruct (t_pend r) eqn:E; simpl; rewrite ?E, ?app_nil_r.
  - repeat split; auto.
  - repeat split; auto.
Qed.
Lemma toy_sendall_spec r d :
  toy_win (fst (toy_sendall r d)) = toy_win r /\ t_pout (fst (toy_sendall r d)) = t_pout r /\
  t_wout (fst (toy_sendall r d)) = t_wout r /\
  match snd (toy_sendall r d) with
  | SOk => toy_pin (fst (toy_sendall r d)) = toy_pin r ++ d
  | SZeroReturn | SSysCall => toy_pin (fst (toy_sendall r d)) = toy_pin r
  | SRaise => True
  end.
Proof. unfold toy_sendall, toy_win, toy_pin. destruct (t_broken r); simpl; rewrite ?app_assoc; auto. Qed.

(* a child that echoes application data and logs what it got *)
Definition echo_child (log : list event) (e : event) : list event * list cmd * bool :=
  (log ++ [e], match e with EData c d => [CSend c d] | _ => [] end, false).

Definition toy_cfg : cfg := mkCfg Client true false true 50.
Definition toy_run :=
  run toy toy_bio_write toy_recv toy_bio_read toy_sendall toy_do_handshake toy_parse_hello (list event) echo_child toy_cfg.
Definition toy_init : st toy (list event) := init (mkToy [] [] [] [] false) [] [].
Definition hello_evs : list event := [EStart; EOther 7; EData Client [x16; x03; x01]].
Definition app_evs : list event :=
  [EData Client [x61]; EOther 1; EData Client [x62; x63]; EData Server [x7a]; EData Client []; EData Client [x64]].

(* the theorems of TlsTunnelData instantiated with the toy record layer *)
Definition toy_inbound :=
  inbound_transparent toy toy_bio_write toy_recv toy_bio_read toy_sendall toy_do_handshake toy_parse_hello
    (list event) echo_child toy_cfg toy_win t_pout toy_pin t_wout idb (fun _ => false) toy_bad idb
    toy_bio_write_spec toy_recv_spec toy_bio_read_spec toy_sendall_spec.
Definition toy_outbound :=
  outbound_transparent toy toy_bio_write toy_recv toy_bio_read toy_sendall toy_do_handshake toy_parse_hello
    (list event) echo_child toy_cfg toy_win t_pout toy_pin t_wout idb (fun _ => false) toy_bad idb
    toy_bio_write_spec toy_recv_spec toy_bio_read_spec toy_sendall_spec.

(* Non-vacuity: after a handshake (during which Start and another event were queued and then
   replayed in order, followed by the bytes that arrived with the end of the handshake) the hypotheses of the transparency theorems hold, and their conclusion
   is the expected concrete equality. *)
Theorem toy_nonvacuous :
  let s := fst (toy_run toy_init hello_evs) in
  let s' := fst (toy_run s app_evs) in
  let tr := snd (toy_run s app_evs) in
  crashed s = None /\ tunnel_state s = OPEN /\ has_tls s = true /\ errored s = false /\
  cstate s = [EStart; EOther 7; EData Client [x16; x03; x01]] /\
  crashed s' = None /\ has_open Client tr = false /\ drops tr = 0 /\
  child_data Client tr = [x61; x62; x63; x64] /\ child_sends Client tr = [x61; x62; x63; x64] /\
  sent_wire Client tr = [x61; x62; x63; x64] /\
  child_closes Client tr = 0.
Proof. vm_compute. repeat split; reflexivity. Qed.

(* The known finding as a fact about the model: after a corrupted record (recv raised
   SSL.Error, which receive_data logs and ignores) the next SendData of the child makes
   sendall raise, send_data does not catch it, the layer dies and the bytes never leave. *)
Definition talk_child (log : list event) (e : event) : list event * list cmd * bool :=
  (log ++ [e], match e with EOther _ => [CSend Client [x68; x69]] | _ => [] end, false).
Definition talk_run :=
  run toy toy_bio_write toy_recv toy_bio_read toy_sendall toy_do_handshake toy_parse_hello (list event) talk_child toy_cfg.
Definition broken_evs : list event := [EData Client [xff]; EOther 1].
Theorem toy_send_after_error :
  let s := fst (talk_run toy_init [EStart; EData Client [x16]]) in
  let s' := fst (talk_run s broken_evs) in
  let tr := snd (talk_run s broken_evs) in
  crashed s = None /\ tunnel_state s = OPEN /\ has_tls s = true /\ errored s = false /\
  child_sends Client tr = [x68; x69] /\ has_open Client tr = false /\ drops tr = 0 /\
  crashed s' = Some SendRaise /\ sent_wire Client tr = [] /\ toy_bad (toy_win (tls s')).
Proof. vm_compute. repeat split; reflexivity. Qed.
