(* Proofs/ExportSh.v -- the commands built by curl_command / httpie_command (repaired variant of Model/Export.v),
   read by the bash model of Model/Sh.v: exactly one command, argv = the assembled arguments, body as documented. *)
From Coq Require Import List Bool NArith Lia.
From MV Require Import Base.Bytes Model.Http1Msg Model.Sh Model.Export Proofs.ShQuote.
Import ListNotations.

(* ---------- printf on the escaped body ---------- *)
Lemma ocons_oapp c t o : ocons c (oapp t o) = oapp (c :: t) o.
Proof. destruct o; reflexivity. Qed.

Lemma printf_body_ctrl c X : is_ctrl c = true -> printf_body (ctrl_escape c ++ X) = ocons c (printf_body X).
Proof. destruct c; try discriminate; reflexivity. Qed.

Lemma printf_body_plain c X : byte_eqb c x5c = false -> byte_eqb c x25 = false ->
  printf_body (c :: X) = ocons c (printf_body X).
Proof. intros A B. cbn [printf_body]. unfold BSLASH, PERCENT. rewrite A, B. reflexivity. Qed.

Lemma printf_body_escape t X :
  printf_body (flat_map (escape_char repaired) t ++ X) = oapp t (printf_body X).
Proof.
  induction t as [|c t IH].
  - simpl. destruct (printf_body X); reflexivity.
  - cbn [flat_map]. rewrite <- app_assoc. unfold escape_char at 1. cbn [fix_printf repaired andb].
    destruct (is_ctrl c) eqn:C.
    + rewrite printf_body_ctrl by exact C. rewrite IH. apply ocons_oapp.
    + destruct (byte_eqb c x5c) eqn:B.
      * apply byte_eqb_eq in B. subst c.
        change (printf_body ([x5c; x5c] ++ flat_map (escape_char repaired) t ++ X))
          with (ocons x5c (printf_body (flat_map (escape_char repaired) t ++ X))).
        rewrite IH. apply ocons_oapp.
      * destruct (byte_eqb c x25) eqn:P.
        -- apply byte_eqb_eq in P. subst c.
           change (printf_body ([x25; x25] ++ flat_map (escape_char repaired) t ++ X))
             with (ocons x25 (printf_body (flat_map (escape_char repaired) t ++ X))).
           rewrite IH. apply ocons_oapp.
        -- change ([c] ++ flat_map (escape_char repaired) t ++ X) with (c :: flat_map (escape_char repaired) t ++ X).
           rewrite printf_body_plain by assumption. rewrite IH. apply ocons_oapp.
Qed.

(* the repaired escaping is an exact inverse of the printf builtin *)
Theorem printf_escape_roundtrip t : printf_fmt (printf_escape repaired t) = Some t.
Proof.
  pose proof (printf_body_escape t []) as Hb. rewrite app_nil_r in Hb. cbn [printf_body oapp] in Hb.
  rewrite app_nil_r in Hb.
  unfold printf_escape. cbn [fix_printf repaired].
  destruct (flat_map (escape_char repaired) t) as [|c r] eqn:E.
  - cbn in Hb. cbn. exact Hb.
  - destruct (byte_eqb c x2d) eqn:D.
    + apply byte_eqb_eq in D. subst c.
      rewrite printf_body_plain in Hb by reflexivity.
      change (printf_fmt (DASH_ESC ++ r)) with (ocons x2d (printf_body r)). exact Hb.
    + unfold printf_fmt. unfold DASH. rewrite D. exact Hb.
Qed.

(* the original escaping is not: percent and backslash are read by printf *)
Definition body_100 : bytes := [x31; x30; x30; x25; x73; x0a; x01].
Lemma printf_escape_original_refuted :
  printf_fmt (printf_escape original body_100) = Some [x31; x30; x30; x0a; x01].
Proof. vm_compute. reflexivity. Qed.

(* ---------- escaped text never contains NUL ---------- *)
Lemma escape_char_nonul v c : nonul (escape_char v c).
Proof.
  unfold nonul. destruct v as [fp fg]. destruct fp.
  - revert c. apply (forall_bytes (fun c => forallb (fun x => negb (byte_eqb x NUL)) (escape_char (mkVar true fg) c))).
    destruct fg; vm_compute; reflexivity.
  - revert c. apply (forall_bytes (fun c => forallb (fun x => negb (byte_eqb x NUL)) (escape_char (mkVar false fg) c))).
    destruct fg; vm_compute; reflexivity.
Qed.

Lemma nonul_app a b : nonul a -> nonul b -> nonul (a ++ b).
Proof. unfold nonul. intros A B. rewrite forallb_app, A, B. reflexivity. Qed.

Lemma flat_escape_nonul v t : nonul (flat_map (escape_char v) t).
Proof.
  induction t as [|c t IH]; [reflexivity|]. cbn [flat_map]. apply nonul_app; [apply escape_char_nonul | exact IH].
Qed.

Lemma printf_escape_nonul v t : nonul (printf_escape v t).
Proof.
  unfold printf_escape. pose proof (flat_escape_nonul v t) as F.
  destruct (fix_printf v); [|exact F].
  destruct (flat_map (escape_char v) t) as [|c r]; [exact F|].
  destruct (byte_eqb c x2d); [|exact F].
  unfold nonul in *. simpl in F. apply andb_true_iff in F as [_ F]. simpl. exact F.
Qed.

Lemma noctrl_nonul t : existsb is_ctrl t = false -> nonul t.
Proof.
  unfold nonul. induction t as [|c t IH]; intros H; [reflexivity|].
  simpl in H. apply orb_false_iff in H as [Hc Ht]. simpl. rewrite IH by exact Ht.
  destruct (byte_eqb c NUL) eqn:E; [|reflexivity].
  apply byte_eqb_eq in E. subst c. discriminate.
Qed.

(* ---------- the command-substitution word ---------- *)
Lemma join_two a b : join_sp [a; b] = a ++ [x20] ++ b.
Proof. simpl. rewrite app_nil_r. reflexivity. Qed.

Lemma quote_printf : quote PRINTF = PRINTF.
Proof. reflexivity. Qed.

Lemma run_subst_word W H P e out : nonul e -> printf_fmt e = Some out ->
  run (mkSt (mkLv U W None H P) None) (SUBST_OPEN ++ quote e ++ SUBST_CLOSE)
  = Some (mkSt (mkLv U W (Some (subst_trim out)) H P) None).
Proof.
  intros N F.
  change (SUBST_OPEN ++ quote e ++ SUBST_CLOSE)
    with ([x22; x24; x28] ++ (PRINTF ++ [x20] ++ quote e) ++ [x29; x22]).
  rewrite run_app.
  assert (E1 : run (mkSt (mkLv U W None H P) None) [x22; x24; x28]
               = Some (mkSt (mkLv DQ W (Some []) H P) (Some lv0))) by reflexivity.
  rewrite E1, run_app.
  assert (E2 : run (mkSt (mkLv DQ W (Some []) H P) (Some lv0)) (PRINTF ++ [x20] ++ quote e)
               = Some (mkSt (mkLv DQ W (Some []) H P) (Some (mkLv U [PRINTF] (Some e) None false)))).
  { apply run_inner_lrun. rewrite <- quote_printf at 1. rewrite <- join_two.
    change [quote PRINTF; quote e] with (map quote [PRINTF; e]). unfold lv0.
    rewrite lrun_join by (constructor; [reflexivity | constructor; [exact N | constructor]]). reflexivity. }
  rewrite E2.
  cbn [run]. unfold step at 1. cbn [inner outer].
  assert (E3 : level_step true (mkLv U [PRINTF] (Some e) None false) x29
               = CloseSub (mkLv U [PRINTF; e] None None false)) by reflexivity.
  rewrite E3. cbn [ws]. unfold builtin. rewrite bytes_eqb_refl, F.
  unfold step. cbn [inner outer]. unfold addbytes, cur_or_nil. cbn [lx ws cur here hpend app].
  reflexivity.
Qed.

(* ---------- tails of the command after the argument list ---------- *)
Lemma join_sp_snoc args a : args <> [] ->
  join_sp (map quote (args ++ [a])) = join_sp (map quote args) ++ [x20] ++ quote a.
Proof.
  induction args as [|b args IH]; intros NE; [contradiction|].
  destruct args as [|c args].
  - simpl. rewrite !app_nil_r. reflexivity.
  - change (map quote ((b :: c :: args) ++ [a])) with (quote b :: map quote ((c :: args) ++ [a])).
    change (map quote (b :: c :: args)) with (quote b :: map quote (c :: args)).
    assert (X : forall x l, l <> [] -> join_sp (x :: l) = x ++ [x20] ++ join_sp l).
    { intros x l Hl. destruct l; [contradiction|reflexivity]. }
    rewrite X by (simpl; discriminate). rewrite X by (simpl; discriminate).
    rewrite IH by discriminate. rewrite <- !app_assoc. reflexivity.
Qed.

Lemma run_args args : args <> [] -> Forall nonul args ->
  run st0 (join_sp (map quote args)) = Some (mkSt (after_args [] None args) None).
Proof.
  intros NE F. destruct args as [|a args]; [contradiction|].
  unfold st0, lv0. apply run_outer_lrun. rewrite lrun_join by exact F. reflexivity.
Qed.

Lemma finish_word args (H : option bytes) w name rest :
  args = name :: rest -> cmd_name_ok name = true ->
  finish (mkSt (mkLv U args (Some w) H false) None)
  = ShRun (args ++ [w]) (match H with Some h => Some (h ++ [NL]) | None => None end).
Proof. intros -> OK. unfold finish. cbn. rewrite OK. reflexivity. Qed.

Lemma finish_here args w name rest :
  args = name :: rest -> cmd_name_ok name = true ->
  finish (mkSt (mkLv U args (Some w) None true) None) = ShRun args (Some (w ++ [NL])).
Proof. intros -> OK. unfold finish. cbn. rewrite OK. reflexivity. Qed.

(* space after the argument list closes the last word *)
Lemma run_space_after_args args : args <> [] ->
  run (mkSt (after_args [] None args) None) [x20] = Some (mkSt (mkLv U args None None false) None).
Proof.
  intros NE. unfold after_args. cbn [run]. unfold step. cbn [inner outer].
  rewrite blank_step by reflexivity. cbn [app]. rewrite removelast_last by exact NE. reflexivity.
Qed.

Lemma run_dash_d_after_args args : args <> [] ->
  run (mkSt (after_args [] None args) None) ([x20] ++ OPT_D ++ [x20])
  = Some (mkSt (mkLv U (args ++ [OPT_D]) None None false) None).
Proof.
  intros NE. rewrite run_app, run_space_after_args by exact NE. reflexivity.
Qed.

Lemma run_here_after_args args : args <> [] ->
  run (mkSt (after_args [] None args) None) HERE = Some (mkSt (mkLv U args None None true) None).
Proof.
  intros NE. change HERE with ([x20] ++ [x3c; x3c; x3c; x20]).
  rewrite run_app, run_space_after_args by exact NE. reflexivity.
Qed.

(* ---------- what the shell passes as the body ---------- *)
Definition body_seen (t : bytes) : bytes := if existsb is_ctrl t then subst_trim t else t.

Lemma run_body v W H P t c : v = repaired ->
  request_content_for_console v (TextOk t) = XOk c ->
  run (mkSt (mkLv U W None H P) None) c = Some (mkSt (mkLv U W (Some (body_seen t)) H P) None).
Proof.
  intros -> E. unfold request_content_for_console in E. unfold body_seen.
  destruct (existsb is_ctrl t) eqn:C; injection E as <-.
  - apply run_subst_word; [apply printf_escape_nonul | apply printf_escape_roundtrip].
  - apply run_outer_lrun. apply lrun_quote. apply noctrl_nonul, C.
Qed.

Definition curl_body_args (r : xreq) : list bytes :=
  if x_has_content r then match x_text r with TextOk t => [OPT_D; body_seen t] | _ => [] end else [].

Definition httpie_stdin (r : xreq) : option bytes :=
  if x_has_content r then match x_text r with TextOk t => Some (body_seen t ++ [NL]) | _ => None end else None.

(* ---------- curl ---------- *)
Theorem curl_command_runs preserve addr r cmd :
  curl_command repaired preserve addr r = XOk cmd ->
  exists h, pop_headers (x_host r) (x_headers r) = XOk h /\
    (Forall nonul (curl_args repaired preserve addr r h) ->
     sh_eval cmd = ShRun (curl_args repaired preserve addr r h ++ curl_body_args r) None).
Proof.
  unfold curl_command. intros E.
  destruct (pop_headers (x_host r) (x_headers r)) as [h| | | |] eqn:Ph; try discriminate.
  exists h. split; [reflexivity|]. intros F. cbn [xbind] in E.
  remember (curl_args repaired preserve addr r h) as args eqn:HA in *.
  assert (NE : args <> []) by (rewrite HA; unfold curl_args; discriminate).
  assert (HD : exists rest, args = CURL :: rest) by (rewrite HA; unfold curl_args; eexists; reflexivity).
  clear HA.
  destruct HD as [rest HD].
  unfold curl_body_args. destruct (x_has_content r).
  - destruct (x_text r) as [t| |] eqn:T; [| cbn in E; discriminate | cbn in E; discriminate].
    destruct (request_content_for_console repaired (TextOk t)) as [c| | | |] eqn:RC; cbn [xbind] in E; try discriminate.
    injection E as <-.
    unfold sh_eval. rewrite run_app, run_args by assumption.
    change (x20 :: x2d :: x64 :: x20 :: c) with (([x20] ++ OPT_D ++ [x20]) ++ c).
    rewrite run_app, run_dash_d_after_args by exact NE.
    rewrite (run_body repaired _ _ _ t c eq_refl RC).
    rewrite (finish_word (args ++ [OPT_D]) None (body_seen t) CURL (rest ++ [OPT_D])) by (try rewrite HD; reflexivity).
    rewrite <- app_assoc. reflexivity.
  - injection E as <-. rewrite app_nil_r.
    apply quote_join_roundtrip; [exact NE | exact F | rewrite HD; reflexivity].
Qed.

(* ---------- httpie ---------- *)
Theorem httpie_command_runs r cmd :
  httpie_command repaired r = XOk cmd ->
  exists h, pop_headers (x_host r) (x_headers r) = XOk h /\
    (Forall nonul (httpie_args r h) -> sh_eval cmd = ShRun (httpie_args r h) (httpie_stdin r)).
Proof.
  unfold httpie_command. intros E.
  destruct (pop_headers (x_host r) (x_headers r)) as [h| | | |] eqn:Ph; try discriminate.
  exists h. split; [reflexivity|]. intros F. cbn [xbind] in E.
  remember (httpie_args r h) as args eqn:HA in *.
  assert (NE : args <> []) by (rewrite HA; unfold httpie_args; discriminate).
  assert (HD : exists rest, args = HTTP :: rest) by (rewrite HA; unfold httpie_args; eexists; reflexivity).
  clear HA.
  destruct HD as [rest HD].
  unfold httpie_stdin. destruct (x_has_content r).
  - destruct (x_text r) as [t| |] eqn:T; [| cbn in E; discriminate | cbn in E; discriminate].
    destruct (request_content_for_console repaired (TextOk t)) as [c| | | |] eqn:RC; cbn [xbind] in E; try discriminate.
    injection E as <-.
    unfold sh_eval. rewrite run_app, run_args by assumption.
    change (x20 :: x3c :: x3c :: x3c :: x20 :: c) with (HERE ++ c).
    rewrite run_app, run_here_after_args by exact NE.
    rewrite (run_body repaired _ _ _ t c eq_refl RC).
    rewrite (finish_here args (body_seen t) HTTP rest) by (auto; reflexivity). reflexivity.
  - injection E as <-.
    apply quote_join_roundtrip; [exact NE | exact F | rewrite HD; reflexivity].
Qed.

(* ---------- when the body arrives unchanged ---------- *)
Lemma strip_trailing_nl_id t : last t x00 <> NL -> strip_trailing_nl t = t.
Proof.
  induction t as [|c t IH]; intros L; [reflexivity|].
  cbn [strip_trailing_nl]. destruct t as [|d t].
  - cbn. cbn in L. destruct (byte_eqb c NL) eqn:E; [|reflexivity].
    apply byte_eqb_eq in E. contradiction.
  - rewrite IH by exact L. reflexivity.
Qed.

Lemma filter_nonul_id t : nonul t -> filter (fun c => negb (byte_eqb c NUL)) t = t.
Proof.
  unfold nonul. induction t as [|c t IH]; intros N; [reflexivity|].
  simpl in N. apply andb_true_iff in N as [Nc Nt]. simpl. rewrite Nc, IH by exact Nt. reflexivity.
Qed.

Theorem body_seen_exact t : nonul t -> last t x00 <> NL -> body_seen t = t.
Proof.
  intros N L. unfold body_seen, subst_trim. destruct (existsb is_ctrl t); [|reflexivity].
  rewrite filter_nonul_id by exact N. apply strip_trailing_nl_id, L.
Qed.

Theorem body_seen_noctrl t : existsb is_ctrl t = false -> body_seen t = t.
Proof. intros C. unfold body_seen. rewrite C. reflexivity. Qed.

(* the two families in which it does not (kind: known findings) *)
Lemma body_trailing_newline_refuted : exists t, nonul t /\ body_seen t <> t.
Proof. exists [x61; x0a]. split; [reflexivity|]. vm_compute. discriminate. Qed.

Lemma body_nul_refuted : exists t, last t x00 <> NL /\ body_seen t <> t.
Proof. exists [x61; x00; x62]. split; vm_compute; discriminate. Qed.

Theorem body_exact_partial t :
  (existsb is_ctrl t = false \/ (nonul t /\ last t x00 <> NL)) -> body_seen t = t.
Proof. intros [H|[N L]]; [exact (body_seen_noctrl t H) | exact (body_seen_exact t N L)]. Qed.
