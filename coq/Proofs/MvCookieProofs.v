(* Proofs/MvCookieProofs.v -- Request.cookies: parse_cookie_header (format_cookie_header l) = l for
   representable pairs, through the header list (C34). *)
From Coq Require Import List Bool NArith Lia.
From MV Require Import Base.Bytes Model.MvCommon Model.MvCookie Proofs.MvCommonLemmas.
Import ListNotations.

(* names a Cookie header can carry: no semicolon, no equals sign, no leading white space *)
Definition ck_key_ok (k : bytes) : bool :=
  negb (memb SEMI k) && negb (memb EQS k) && bytes_eqb (lstrip k) k.
(* the pair of two empty strings is skipped by the parser *)
Definition ck_pair_ok (kv : bytes * bytes) : bool :=
  ck_key_ok (fst kv) && (nonempty (fst kv) || nonempty (snd kv)).
Definition ck_repr (l : pairs) : bool := forallb ck_pair_ok l.

Definition valtext (v : bytes) : bytes := if has_special v then DQ :: escape v ++ [DQ] else v.
Definition item (kv : bytes * bytes) : bytes := fst kv ++ EQS :: valtext (snd kv).

Lemma format_pair_item kv : format_pair [] (fst kv, Some (snd kv)) = item kv.
Proof.
  unfold format_pair, item, valtext. simpl. destruct (has_special (snd kv)); simpl; reflexivity.
Qed.

Lemma format_cookie_header_items l : format_cookie_header l = join [SEMI; SP] (map item l).
Proof.
  unfold format_cookie_header, format_pairs. rewrite map_map. f_equal. apply map_ext.
  intros kv. apply format_pair_item.
Qed.

(* the quoted-string reader undoes the escaping *)
Lemma read_quoted_escape v R : read_quoted false (escape v ++ DQ :: R) = (v, R).
Proof.
  induction v as [|c v IH]; simpl.
  - reflexivity.
  - destruct (byte_eqb c DQ || byte_eqb c BSL) eqn:E.
    + simpl. rewrite IH. reflexivity.
    + apply orb_false_iff in E as [E1 E2]. simpl. rewrite E1, E2, IH. reflexivity.
Qed.

Lemma not_special_chars v :
  has_special v = false -> forallb (fun b => negb (memb b [SEMI])) v = true /\ (forall c t, v = c :: t -> byte_eqb c DQ = false).
Proof.
  intros H. unfold has_special in H. split.
  - rewrite forallb_forall. intros x Hx. apply negb_true_iff.
    destruct (memb x [SEMI]) eqn:E; [|reflexivity]. unfold memb in E. simpl in E. rewrite orb_false_r in E.
    apply byte_eqb_eq in E. subst x.
    assert (existsb is_special v = true) by (apply existsb_exists; exists SEMI; split; [exact Hx|reflexivity]).
    congruence.
  - intros c t ->. simpl in H. apply orb_false_iff in H as [H _].
    destruct (byte_eqb c DQ) eqn:E; [|reflexivity]. apply byte_eqb_eq in E. subst c. discriminate.
Qed.

(* reading the value text followed by R, where R is empty or starts with the separator *)
Lemma read_value_valtext v R :
  (R = [] \/ exists R', R = SEMI :: R') -> read_value (valtext v ++ R) [SEMI] = (v, R).
Proof.
  intros HR. unfold valtext. destruct (has_special v) eqn:E.
  - simpl. rewrite <- app_assoc. simpl. apply read_quoted_escape.
  - destruct (not_special_chars v E) as [Hs Hq].
    assert (Hu : read_until (v ++ R) [SEMI] = (v, R)).
    { unfold read_until. destruct HR as [->|[R' ->]].
      - rewrite app_nil_r. apply span_all, Hs.
      - apply span_app; [exact Hs|reflexivity]. }
    unfold read_value. destruct (v ++ R) as [|c X] eqn:EX; [|].
    + destruct v; [|discriminate]. destruct R; [reflexivity|discriminate].
    + assert (Hc : byte_eqb c DQ = false).
      { destruct v as [|c0 t].
        - simpl in EX. destruct HR as [->|[R' ->]]; [discriminate|]. inversion EX; subst. reflexivity.
        - simpl in EX. inversion EX; subst. apply (Hq c t eq_refl). }
      rewrite Hc. exact Hu.
Qed.

Lemma lstrip_sp k : lstrip (SP :: k) = lstrip k.
Proof. reflexivity. Qed.

Lemma tl_char_semi R : tl_char (SEMI :: R) = R.
Proof. reflexivity. Qed.

(* one iteration of _read_cookie_pairs on W ++ item ++ R, W = optional single space *)
Lemma read_item f W kv R :
  (W = [] \/ W = [SP]) -> ck_pair_ok kv = true ->
  read_cookie_pairs (S f) (W ++ item kv ++ R) =
    match R with
    | [] => Ok [kv]
    | c :: R' =>
        if byte_eqb c SEMI then
          match R' with
          | [] => Ok [kv]
          | _ => match read_cookie_pairs f R' with Ok l => Ok (kv :: l) | OutOfFuel => OutOfFuel end
          end
        else read_cookie_pairs (S f) (W ++ item kv ++ R)
    end.
Proof.
  intros HW Hok. destruct R as [|c R']; [|destruct (byte_eqb c SEMI) eqn:Ec; [|reflexivity]].
  all: destruct kv as [k v]; unfold ck_pair_ok, ck_key_ok in Hok; cbn [fst snd] in Hok;
    apply andb_true_iff in Hok as [Hk Hne]; apply andb_true_iff in Hk as [Hk Hl];
    apply andb_true_iff in Hk as [Hk1 Hk2]; apply negb_true_iff in Hk1; apply negb_true_iff in Hk2;
    apply bytes_eqb_eq in Hl;
    assert (HWk : forallb (fun b => negb (memb b [SEMI; EQS])) (W ++ k) = true)
      by (rewrite forallb_app; apply andb_true_iff; split;
          [destruct HW as [->| ->]; reflexivity|
           rewrite forallb_forall; intros x Hx; apply negb_true_iff; unfold memb; simpl;
           rewrite orb_false_r; apply orb_false_iff; split;
           rewrite byte_eqb_sym; eapply memb_false_neq; eauto]);
    assert (HL : lstrip (W ++ k) = k) by (destruct HW as [->| ->]; [exact Hl|simpl app; rewrite lstrip_sp; exact Hl]).
  - (* R = [] *)
    unfold item. cbn [fst snd]. cbn [read_cookie_pairs].
    rewrite app_nil_r. rewrite app_assoc. unfold read_until. rewrite span_app by (try exact HWk; reflexivity).
    rewrite HL. rewrite byte_eqb_refl.
    pose proof (read_value_valtext v [] (or_introl eq_refl)) as RV. rewrite app_nil_r in RV. rewrite RV.
    rewrite orb_comm, Hne. reflexivity.
  - (* R = SEMI :: R' *)
    apply byte_eqb_eq in Ec. subst c.
    unfold item. cbn [fst snd]. cbn [read_cookie_pairs].
    replace (W ++ (k ++ EQS :: valtext v) ++ SEMI :: R') with ((W ++ k) ++ EQS :: (valtext v ++ SEMI :: R'))
      by (rewrite <- !app_assoc; reflexivity).
    unfold read_until. rewrite span_app by (try exact HWk; reflexivity).
    rewrite HL. rewrite byte_eqb_refl.
    rewrite (read_value_valtext v (SEMI :: R')) by (right; eexists; reflexivity).
    rewrite orb_comm, Hne. rewrite tl_char_semi. destruct R'; reflexivity.
Qed.

Lemma read_items f l W :
  (W = [] \/ W = [SP]) -> l <> [] -> ck_repr l = true -> length l <= f ->
  read_cookie_pairs f (W ++ join [SEMI; SP] (map item l)) = Ok l.
Proof.
  revert f W. induction l as [|kv l IH]; intros f W HW Hne Hr Hf; [congruence|].
  unfold ck_repr in Hr. simpl in Hr. apply andb_true_iff in Hr as [Hok Hr].
  destruct f as [|f]; [simpl in Hf; lia|]. simpl in Hf.
  destruct l as [|kv2 l].
  - simpl map. simpl join. pose proof (read_item f W kv [] HW Hok) as S. rewrite app_nil_r in S. exact S.
  - change (map item (kv :: kv2 :: l)) with (item kv :: item kv2 :: map item l).
    rewrite join_cons2. change ([SEMI; SP] ++ ?x) with (SEMI :: SP :: x).
    rewrite (read_item f W kv _ HW Hok). rewrite byte_eqb_refl.
    change (SP :: join [SEMI; SP] (item kv2 :: map item l)) with ([SP] ++ join [SEMI; SP] (map item (kv2 :: l))).
    rewrite (IH f [SP]); [reflexivity|right; reflexivity|discriminate|exact Hr|simpl in *; lia].
Qed.

Lemma join_length (sep : bytes) items :
  (forall i, In i items -> i <> []) -> length items <= length (join sep items).
Proof.
  induction items as [|x t IH]; intros H; [simpl; lia|].
  assert (Hx : 1 <= length x).
  { destruct x; [exfalso; apply (H []); [left; reflexivity|reflexivity]|simpl; lia]. }
  destruct t as [|y t]; [simpl; lia|].
  rewrite join_cons2, !app_length.
  assert (length (y :: t) <= length (join sep (y :: t))) by (apply IH; intros i Hi; apply H; right; exact Hi).
  simpl in *. lia.
Qed.

(* parse(format(l)) = l *)
Lemma parse_format l : ck_repr l = true -> parse_cookie_header (format_cookie_header l) = Ok l.
Proof.
  intros Hr. rewrite format_cookie_header_items. unfold parse_cookie_header.
  destruct l as [|kv l]; [reflexivity|].
  apply (read_items _ (kv :: l) []); [left; reflexivity|discriminate|exact Hr|].
  pose proof (join_length [SEMI; SP] (map item (kv :: l))) as J. rewrite map_length in J.
  simpl app. assert (length (kv :: l) <= length (join [SEMI; SP] (map item (kv :: l)))).
  { apply J. intros i Hi. apply in_map_iff in Hi as [x [<- _]]. unfold item. destruct (fst x); discriminate. }
  lia.
Qed.

(* Request.cookies: for EVERY header list and every representable list of pairs *)
Theorem cookies_roundtrip h l : ck_repr l = true -> get_cookies (set_cookies h l) = Ok l.
Proof.
  intros Hr. unfold get_cookies, set_cookies. rewrite get_all_set_all. simpl.
  rewrite (parse_format l Hr). rewrite app_nil_r. reflexivity.
Qed.

(* outside the guard *)
Lemma refuted_leading_space : get_cookies (set_cookies [] [([SP; x61], [x62])]) = Ok [([x61], [x62])].
Proof. vm_compute. reflexivity. Qed.
Lemma refuted_semicolon_in_name : get_cookies (set_cookies [] [([x61; SEMI; x62], [x63])]) = Ok [([x61], []); ([x62], [x63])].
Proof. vm_compute. reflexivity. Qed.
Lemma refuted_empty_pair : get_cookies (set_cookies [] [([], [])]) = Ok [].
Proof. vm_compute. reflexivity. Qed.

Lemma cookies_nonvacuous :
  ck_repr [([x61], [x22; x5c; SEMI; SP; xc3]); ([], [x3d]); ([x62; SP], [])] = true
  /\ get_cookies (set_cookies [([x43; x6f; x6f; x6b; x69; x65], [x7a]); ([x63; x6f; x6f; x6b; x69; x65], [x79])]
       [([x61], [x22; x5c; SEMI; SP; xc3]); ([], [x3d]); ([x62; SP], [])])
     = Ok [([x61], [x22; x5c; SEMI; SP; xc3]); ([], [x3d]); ([x62; SP], [])].
Proof. vm_compute. split; reflexivity. Qed.
