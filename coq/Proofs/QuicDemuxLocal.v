(* Proofs/QuicDemuxLocal.v -- locality: every command produced while a stream event is handled
   is caused by the one stream layer registered for (side, id) of that event; and the only way to
   reach the Unexpected-stream-event failure is a QuicStreamStopSending event. *)
From Coq Require Import NArith Arith List Bool Lia.
From MV Require Import Base.Bytes Model.QuicIdsPrelude Gen.QuicIds Model.QuicDemux
  Proofs.QuicIds Proofs.QuicDemuxCore Proofs.QuicDemuxInv Proofs.QuicDemuxRun.
Import ListNotations.
Open Scope N_scope.

Definition ghost_is (L : nat) (o : out) : Prop :=
  match o with
  | OSend L' _ _ _ _ | OReset L' _ _ _ | OStop L' _ _ _ | OPass L' _ => L' = L
  | OCloseConn _ _ => False
  end.

Section Local.
Variable C : Type.
Variable child_step : C -> connst * connst -> cevent -> C * list ccmd.
Variable new_child : nat -> C.
Notation state := (state C).

Section Fixed.
Variable outs0 : list out.
Variable L : nat.
Variable s0 : side.
Variable id0 : N.

Definition Q (st : state) : Prop :=
  (exists new, outs st = new ++ outs0 /\ Forall (ghost_is L) new) /\ hasA (idl C st) L s0 id0.

Lemma Q_upd f st : keeps_ids C f -> Q st -> Q (upd_layer C L f st).
Proof. intros K [H1 H2]. split; [exact H1|]. rewrite idl_upd; auto. Qed.

Lemma Q_emit w o st : ghost_is L o -> Q st -> Q (emit C w L o st).
Proof.
  intros G [(new & E & F) H2].
  destruct (emit_cases C w L o st) as [Ee|[Ee|(L' & to & id & d & code & -> & Ee)]]; rewrite Ee.
  - split; eauto.
  - split; [|exact H2]. exists (o :: new). cbn. rewrite E. split; auto.
  - split; [|exact H2]. exists (OReset L' to id code :: new). cbn. rewrite E. split; auto.
Qed.

Lemma Q_etc fuel w ev st : Q st -> Q (etc C child_step fuel w L ev st).
Proof.
  apply (etc_P C child_step Q w L).
  - intros; apply Q_upd; auto; apply keeps_set_cst.
  - intros; apply Q_upd; auto; apply keeps_set_conn.
  - intros; apply Q_upd; auto; apply keeps_set_conn.
  - intros st0 e H _; exact H.
  - intros; apply Q_emit; cbn; auto.
  - intros; apply Q_emit; cbn; auto.
  - intros; apply Q_emit; cbn; auto. apply Q_upd; auto; apply keeps_set_conn.
  - intros; apply Q_emit; cbn; auto.
  - intros st0 l id nx [H1 H2] Hl Hs _. split; [exact H1|].
    destruct H2 as (p & Hp & Hk). cbn. unfold idl, open_server_stream, upd_layer; cbn.
    unfold hasA. rewrite nth_map_upd, Nat.eqb_refl, Hl. cbn.
    eexists; split; [reflexivity|]. apply nth_idl in Hl. rewrite Hl in Hp. inversion Hp; subst p.
    destruct s0; cbn in *; auto. congruence.
Qed.

Lemma Q_close w s st : Q st -> Q (close_stream_layer C child_step w L s st).
Proof.
  intros H. unfold close_stream_layer, close_stream_layer_with.
  destruct (nth_error (layers st) L) as [l|]; [|exact H].
  destruct (negb _); [apply (Q_upd _ st (keeps_set_conn C s _) H)|].
  destruct (ts_end _); [apply Q_upd; auto; apply keeps_set_conn|].
  apply Q_etc. apply Q_upd; [apply keeps_set_conn|]. apply Q_upd; auto; apply keeps_set_conn.
Qed.

Lemma Q_post from k st : Q st -> Q (post C child_step from k L st).
Proof.
  intros H. unfold post. destruct (err st); auto.
  destruct k as [d fin|code|code].
  - set (st1 := if is_empty d then st else _).
    assert (H1 : Q st1) by (unfold st1; destruct (is_empty d); auto; apply Q_etc; auto).
    destruct (err st1); auto. destruct fin; auto. apply Q_close; auto.
  - apply Q_close; auto.
  - exact H.
Qed.
End Fixed.

(* one stream event: all new commands carry the ghost tag of the layer that owns (from, id) afterwards *)
Lemma stream_event_local st from id k : Inv C st ->
  let st' := handle_stream C child_step new_child from id k st in
  exists new, outs st' = new ++ outs st /\
    forall o, In o new -> exists L, ghost_is L o /\ hasA (idl C st') L from id.
Proof.
  intros HI. cbn. unfold handle_stream.
  assert (Hnil : exists new, outs st = new ++ outs st /\ forall o, In o new -> exists L, ghost_is L o /\ hasA (idl C st) L from id).
  { exists []. split; auto. intros o []. }
  destruct (dict_get id _) as [L|] eqn:Eg.
  - assert (Hq : Q (outs st) L from id (post C child_step from k L st)).
    { apply Q_post. split; [exists []; split; auto|].
      destruct HI as [HA _]. destruct from; [apply (inv_cmap _ _ _ _ _ HA) | apply (inv_smap _ _ _ _ _ HA)]; auto. }
    destruct Hq as [(new & E & F) Hh]. exists new. split; auto.
    intros o Hin. exists L. split; auto. rewrite Forall_forall in F; auto.
  - destruct (negb _) eqn:Ei; [exact Hnil|].
    destruct (create_layer C new_child from id st) as [[L st2]|] eqn:Ec; [|exact Hnil].
    destruct (Inv_create C new_child from id st L st2 HI Eg Ei Ec) as (HI2 & HL & Ho & _ & l' & Hl).
    assert (Hq : Q (outs st) L from id (post C child_step from k L (etc C child_step FUEL WNone L EvStart st2))).
    { apply Q_post, Q_etc. split; [exists []; split; auto|].
      destruct HI2 as [HA2 _].
      assert (Hd : dict_get id (match from with Cl => client_ids st2 | Sv => server_ids st2 end) = Some L).
      { unfold create_layer in Ec. destruct from.
        - inversion Ec; subst. cbn. apply dict_get_set_same.
        - destruct (get_next_available_stream_id _ _ _) as [[c nx]|]; [|discriminate].
          inversion Ec; subst. cbn. apply dict_get_set_same. }
      destruct from; [apply (inv_cmap _ _ _ _ _ HA2) | apply (inv_smap _ _ _ _ _ HA2)]; auto. }
    destruct Hq as [(new & E & F) Hh]. exists new. split; auto.
    intros o Hin. exists L. split; auto. rewrite Forall_forall in F; auto.
Qed.

(* ------------------------------------------------------------ the stop-sending failure *)
Definition NoUSE (st : state) : Prop := err st <> Some UnexpectedStreamEvent.

Lemma err_emit w L o (st : state) : err (emit C w L o st) = err st.
Proof. destruct (emit_cases C w L o st) as [E|[E|(? & ? & ? & ? & ? & _ & E)]]; rewrite E; reflexivity. Qed.

Lemma NoUSE_fail e st : e <> UnexpectedStreamEvent -> NoUSE st -> NoUSE (fail C e st).
Proof. intros He H. unfold NoUSE, fail in *; cbn. destruct (err st); congruence. Qed.

Lemma NoUSE_etc fuel w L ev st : NoUSE st -> NoUSE (etc C child_step fuel w L ev st).
Proof.
  apply (etc_P C child_step NoUSE w L); try (intros; unfold NoUSE in *; rewrite ?err_emit; cbn; auto; fail).
  intros st0 e H [->|[->|[->|[->|[->|[->| ->]]]]]]; apply NoUSE_fail; auto; discriminate.
Qed.

Lemma NoUSE_close w L s st : NoUSE st -> NoUSE (close_stream_layer C child_step w L s st).
Proof.
  intros H. unfold close_stream_layer, close_stream_layer_with.
  destruct (nth_error (layers st) L) as [l|]; [|apply NoUSE_fail; auto; discriminate].
  destruct (negb _); [apply NoUSE_fail; auto; discriminate|].
  destruct (ts_end _); [exact H|]. apply NoUSE_etc. exact H.
Qed.

Definition is_stop (ev : sevent) : bool := match ev with SStream _ _ (KStop _) => true | _ => false end.

Lemma NoUSE_step st ev : is_stop ev = false -> NoUSE st -> NoUSE (step C child_step new_child st ev).
Proof.
  intros Hs H. unfold step. destruct (err st) eqn:Ee; auto. destruct (done st); auto.
  destruct ev as [from id k|from code].
  - assert (Hp : forall L st0, NoUSE st0 -> NoUSE (post C child_step from k L st0)).
    { intros L st0 H0. unfold post. destruct (err st0); auto. destruct k as [d fin|c|c]; [| |discriminate].
      - set (st1 := if is_empty d then st0 else _).
        assert (H1 : NoUSE st1) by (unfold st1; destruct (is_empty d); auto; apply NoUSE_etc; auto).
        destruct (err st1); auto. destruct fin; auto. apply NoUSE_close; auto.
      - apply NoUSE_close; auto. }
    unfold handle_stream. destruct (dict_get id _); auto.
    destruct (negb _); [apply NoUSE_fail; auto; discriminate|].
    destruct (create_layer C new_child from id st) as [[L st2]|] eqn:Ec; [|apply NoUSE_fail; auto; discriminate].
    apply Hp, NoUSE_etc. unfold NoUSE.
    assert (err st2 = err st).
    { unfold create_layer in Ec. destruct from; [inversion Ec; reflexivity|].
      destruct (get_next_available_stream_id _ _ _) as [[c nx]|]; [|discriminate]. inversion Ec; reflexivity. }
    congruence.
  - unfold handle_conn_closed.
    match goal with |- NoUSE (fold_left _ ?ls ?s) => assert (H2 : NoUSE s); [|generalize ls; generalize dependent s] end.
    { destruct from; cbn; [destruct (root_s st) | destruct (root_c st)]; exact H. }
    intros s2 H2 ls. revert s2 H2. induction ls as [|L t IH]; intros s2 H2; cbn; auto.
    apply IH. destruct (err s2); auto. apply NoUSE_close. exact H2.
Qed.

Theorem stop_sending_only_cause evs :
  forallb (fun ev => negb (is_stop ev)) evs = true ->
  err (run C child_step new_child evs) <> Some UnexpectedStreamEvent.
Proof.
  unfold run. assert (H0 : NoUSE (init_state : state)) by (unfold NoUSE; cbn; discriminate).
  revert H0. generalize (init_state : state). induction evs as [|e t IH]; intros st H0 Hf; cbn in *; auto.
  apply andb_true_iff in Hf. destruct Hf as [A B]. apply IH; auto.
  apply NoUSE_step; auto. apply negb_true_iff; auto.
Qed.

End Local.
