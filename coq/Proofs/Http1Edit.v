(* Proofs/Http1Edit.v -- addon edits through Message.set_content keep the framing: afterwards the head carries
   Content-Length = len(raw body) unless a Transfer-Encoding header is present, for every header list, every
   new body and whatever encoding.encode did; hence the edited request is forwarded framing-consistently. *)
From Coq Require Import List Bool NArith ZArith Lia.
From MV Require Import Base.Bytes Model.Http1Msg Model.BodySizePrelude Gen.BodySize Model.Http1Conn Model.Rfc9112 Model.Http1Edit
  Proofs.Http1Regex Proofs.Http1Validate Proofs.Http1TeNorm Proofs.Http1Lower Proofs.Http1Framing
  Proofs.Http1Lines Proofs.Http1Chunks Proofs.Http1Roundtrip Proofs.Http1EndToEnd.
Import ListNotations.

(* ---------- decimal rendering read back *)
Definition dec_digit_ok (d : N) : bool := is_digit (Nb (48 + d)) && N.eqb (bN (Nb (48 + d)) - 48) d.
Lemma dec_digit_lt d : (d < 10)%N -> dec_digit_ok d = true.
Proof.
  intros H. assert (A : forallb dec_digit_ok (map N.of_nat (seq 0 10)) = true) by (vm_compute; reflexivity).
  rewrite forallb_forall in A. apply A. rewrite <- (N2Nat.id d). apply in_map, in_seq. lia.
Qed.

Lemma dec_digits_spec f : forall n acc, (n < 10 ^ N.of_nat f)%N -> f <> O ->
  dec_value (dec_digits f n acc) 0%N = dec_value acc n
  /\ (forallb is_digit acc = true -> forallb is_digit (dec_digits f n acc) = true)
  /\ dec_digits f n acc <> [].
Proof.
  induction f as [|f IH]; intros n acc Hn Hf; [congruence|].
  cbn [dec_digits].
  assert (Hm : (n mod 10 < 10)%N) by (apply N.mod_lt; lia).
  pose proof (dec_digit_lt _ Hm) as D. unfold dec_digit_ok in D. apply andb_true_iff in D as [D1 D2]. apply N.eqb_eq in D2.
  destruct (n <? 10)%N eqn:E.
  - apply N.ltb_lt in E. rewrite N.mod_small in * by lia. split; [|split].
    + cbn [dec_value]. rewrite D1, D2. reflexivity.
    + intros Ha. cbn [forallb]. rewrite D1. exact Ha.
    + discriminate.
  - apply N.ltb_ge in E.
    assert (Hf' : f <> O) by (intros ->; simpl in Hn; lia).
    assert (Hd : (n / 10 < 10 ^ N.of_nat f)%N).
    { apply N.div_lt_upper_bound; [lia|]. rewrite Nat2N.inj_succ, N.pow_succ_r' in Hn. exact Hn. }
    destruct (IH (n / 10)%N (Nb (48 + n mod 10) :: acc) Hd Hf') as (V & C & NE).
    split; [|split]; auto.
    + rewrite V. cbn [dec_value]. rewrite D1, D2. f_equal. rewrite N.mul_comm. symmetry. apply N.div_mod. lia.
    + intros Ha. apply C. cbn [forallb]. rewrite D1. exact Ha.
Qed.

Lemma dec_of_N_spec n :
  dec_value (dec_of_N n) 0%N = Some n /\ forallb is_digit (dec_of_N n) = true /\ dec_of_N n <> [].
Proof.
  unfold dec_of_N.
  assert (Hn : (n < 10 ^ N.of_nat (S (N.to_nat (N.log2 n))))%N).
  { rewrite Nat2N.inj_succ, N2Nat.id. destruct n as [|p]; [simpl; lia|].
    pose proof (N.log2_spec (Npos p) ltac:(lia)) as [_ L].
    eapply N.lt_le_trans; [exact L|]. apply N.pow_le_mono_l. lia. }
  destruct (dec_digits_spec _ n [] Hn ltac:(discriminate)) as (V & C & NE).
  split; [exact V|]. split; auto.
Qed.

(* ---------- Headers.__setitem__ / __delitem__ against get_all *)
Lemma get_all_hset_go_same key v hs : forall used,
  get_all key (hset_go key v hs used) = if used then [] else [v].
Proof.
  induction hs as [|[n x] hs IH]; intros used; simpl.
  - destruct used; [reflexivity|]. rewrite get_all_cons, bytes_eqb_refl. reflexivity.
  - destruct (bytes_eqb (lower n) (lower key)) eqn:E.
    + destruct used; [apply IH|]. rewrite get_all_cons, E, IH. reflexivity.
    + rewrite get_all_cons, E. apply IH.
Qed.

Lemma get_all_hset_same key v hs : get_all key (hset key v hs) = [v].
Proof. apply (get_all_hset_go_same key v hs false). Qed.

Lemma get_all_hset_go_other key k v hs : bytes_eqb (lower key) (lower k) = false -> forall used,
  get_all k (hset_go key v hs used) = get_all k hs.
Proof.
  intros Hk. induction hs as [|[n x] hs IH]; intros used; simpl.
  - destruct used; [reflexivity|]. rewrite get_all_cons, Hk. reflexivity.
  - rewrite get_all_cons. destruct (bytes_eqb (lower n) (lower key)) eqn:E.
    + apply bytes_eqb_eq in E. rewrite E, Hk. destruct used; [apply IH|]. rewrite get_all_cons, E, Hk. apply IH.
    + rewrite get_all_cons, IH. reflexivity.
Qed.

Lemma get_all_hdel_other key k hs : bytes_eqb (lower key) (lower k) = false ->
  get_all k (hdel key hs) = get_all k hs.
Proof.
  intros Hk. induction hs as [|[n x] hs IH]; simpl; auto.
  rewrite get_all_cons. destruct (bytes_eqb (lower n) (lower key)) eqn:E; simpl.
  - apply bytes_eqb_eq in E. rewrite E, Hk. exact IH.
  - rewrite get_all_cons, IH. reflexivity.
Qed.

Lemma hcontains_false key hs : hcontains key hs = false -> get_all key hs = [].
Proof. unfold hcontains. destruct (get_all key hs); [reflexivity|discriminate]. Qed.

(* ---------- the re-framing step of an edit *)
Theorem set_content_refreshes_length enc hs value :
  let '(hs', raw) := set_content enc hs value in
  if hcontains TRANSFER_ENCODING hs'
  then get_all TRANSFER_ENCODING hs' = get_all TRANSFER_ENCODING hs /\ get_all CONTENT_LENGTH hs' = get_all CONTENT_LENGTH hs
  else get_all CONTENT_LENGTH hs' = [dec_of_N (N.of_nat (length raw))]
       /\ forall version is_request, fields_body_length is_request version hs' = Some (BLLen (N.of_nat (length raw))).
Proof.
  unfold set_content.
  set (p := match enc with Some r => (r, hs) | None => (value, hdel CONTENT_ENCODING hs) end).
  assert (Hte : get_all TRANSFER_ENCODING (snd p) = get_all TRANSFER_ENCODING hs
                /\ get_all CONTENT_LENGTH (snd p) = get_all CONTENT_LENGTH hs).
  { destruct enc; simpl; auto. split; apply get_all_hdel_other; reflexivity. }
  destruct p as [raw hs1]. simpl in Hte. destruct Hte as [T C].
  destruct (hcontains TRANSFER_ENCODING hs1) eqn:H.
  - rewrite H. auto.
  - assert (Hn : hcontains TRANSFER_ENCODING (hset CONTENT_LENGTH (dec_of_N (N.of_nat (length raw))) hs1) = false).
    { unfold hcontains. unfold hset. rewrite (get_all_hset_go_other CONTENT_LENGTH TRANSFER_ENCODING) by reflexivity.
      exact H. }
    rewrite Hn. split; [apply get_all_hset_same|].
    intros version is_request. unfold fields_body_length.
    rewrite field_values_te, field_values_cl, (hcontains_false _ _ Hn), get_all_hset_same.
    destruct (dec_of_N_spec (N.of_nat (length raw))) as (V & D & NE).
    apply (ref_cl_single _ _ NE D V).
Qed.

(* ---------- an edited request is forwarded as recorded *)
Lemma digits_clean s : forallb is_digit s = true -> clean s = true.
Proof.
  apply forallb_clean. intros c Hc.
  assert (X : implb (is_digit c) (negb (is_cr_or_nul c) && negb (byte_eqb rLF c)) = true)
    by (revert c Hc; intros c _; revert c; apply (forall_bytes (fun d => implb (is_digit d) (negb (is_cr_or_nul d) && negb (byte_eqb rLF d)))); vm_compute; reflexivity).
  rewrite Hc in X. simpl in X. apply andb_true_iff in X as [X Y]. split; apply negb_true_iff; auto.
Qed.

Lemma hset_go_inv key v hs : field_inv (key, v) -> Forall field_inv hs -> forall used,
  Forall field_inv (hset_go key v hs used).
Proof.
  intros Hk. induction 1 as [|[n x] hs Hf _ IH]; intros used; simpl.
  - destruct used; constructor; auto.
  - destruct (bytes_eqb (lower n) (lower key)).
    + destruct used; [apply IH|]. constructor; [|apply IH].
      destruct Hf as (A & _ & _). destruct Hk as (_ & B & C). repeat split; assumption.
    + constructor; [exact Hf | apply IH].
Qed.

Lemma hdel_inv key hs : Forall field_inv hs -> Forall field_inv (hdel key hs).
Proof.
  intros H. rewrite Forall_forall in *. intros f Hin. apply filter_In in Hin as [Hin _]. auto.
Qed.

Theorem edited_request_reads_as_recorded o r enc value :
  Inv_req r ->
  let '(hs', raw) := set_content enc (rq_headers r) value in
  hcontains TRANSFER_ENCODING hs' = false ->
  forwarded_reads_as_recorded o (with_headers r hs') [raw].
Proof.
  intros I. pose proof (set_content_refreshes_length enc (rq_headers r) value) as S.
  destruct (set_content enc (rq_headers r) value) as [hs' raw] eqn:E. intros H. rewrite H in S. destruct S as [Scl Sfb].
  apply forwarded_reads_as_recorded_partial.
  - destruct I as [M T V F]. constructor; try assumption.
    simpl. unfold set_content in E.
    destruct (dec_of_N_spec (N.of_nat (length raw))) as (_ & D & _).
    assert (Hcl : forall n, field_inv (CONTENT_LENGTH, dec_of_N n)).
    { intros n. destruct (dec_of_N_spec n) as (_ & Dn & _). repeat split; simpl; [apply digits_clean, Dn | apply trim_digits, Dn]. }
    destruct enc as [e|]; injection E as <- <-.
    + destruct (hcontains TRANSFER_ENCODING (rq_headers r)); [exact F | apply hset_go_inv; auto].
    + destruct (hcontains TRANSFER_ENCODING (hdel CONTENT_ENCODING (rq_headers r)));
        [apply hdel_inv, F | apply hset_go_inv; auto using hdel_inv].
  - unfold framing_matches, request_body_length. simpl rq_headers. simpl rq_version. rewrite Sfb.
    split.
    + unfold send_chunked, hget_default, hget. rewrite (hcontains_false _ _ H). reflexivity.
    + simpl. rewrite app_nil_r. reflexivity.
Qed.
