(* Proofs/MvUrlQuote.v -- percent-encoding round trips: unquote/quote, quote_plus, urlencode/parse_qsl (C34). *)
From Coq Require Import List Bool NArith Lia.
From MV Require Import Base.Bytes Model.MvCommon Model.MvUrl Proofs.MvCommonLemmas.
Import ListNotations.

(* per-byte facts by complete 256-case sweeps *)
Definition hex_ok (b : byte) : bool :=
  match hexval (hexdig (bN b / 16)), hexval (hexdig (bN b mod 16)) with
  | Some a, Some c => byte_eqb (Nb (16 * a + c)) b
  | _, _ => false
  end.
Lemma hex_ok_all b : hex_ok b = true.
Proof. revert b. apply forall_bytes. vm_compute. reflexivity. Qed.

Lemma hexdig_unreserved b :
  unreserved (hexdig (bN b / 16)) && unreserved (hexdig (bN b mod 16)) = true.
Proof. revert b. apply forall_bytes. vm_compute. reflexivity. Qed.

Lemma unquote_quote_byte safe b r :
  memb PCT safe = false -> unquote (quote_byte safe b ++ r) = b :: unquote r.
Proof.
  intros Hs. unfold quote_byte. destruct (unreserved b || memb b safe) eqn:E.
  - simpl. destruct (byte_eqb b PCT) eqn:Eb; [|reflexivity].
    apply byte_eqb_eq in Eb. subst b. rewrite Hs in E. vm_compute in E. discriminate.
  - pose proof (hex_ok_all b) as H. unfold hex_ok in H. cbn -[N.mul N.add hexval hexdig N.div N.modulo].
    destruct (hexval (hexdig (bN b / 16))) as [a|]; [|discriminate].
    destruct (hexval (hexdig (bN b mod 16))) as [c|]; [|discriminate].
    apply byte_eqb_eq in H. rewrite H. reflexivity.
Qed.

Lemma unquote_quote safe s : memb PCT safe = false -> unquote (quote safe s) = s.
Proof.
  intros Hs. unfold quote. induction s as [|b s IH]; [reflexivity|].
  simpl flat_map. rewrite unquote_quote_byte by exact Hs. rewrite IH. reflexivity.
Qed.

Definition qchar (safe : bytes) (c : byte) : bool := unreserved c || memb c safe || byte_eqb c PCT.

Lemma quote_chars safe s : forallb (qchar safe) (quote safe s) = true.
Proof.
  unfold quote. induction s as [|b s IH]; [reflexivity|].
  simpl flat_map. rewrite forallb_app, IH, andb_true_r.
  unfold quote_byte. destruct (unreserved b || memb b safe) eqn:E.
  - simpl. unfold qchar. rewrite E. reflexivity.
  - pose proof (hexdig_unreserved b) as H. apply andb_true_iff in H as [H1 H2].
    simpl. unfold qchar. rewrite H1, H2. simpl. rewrite byte_eqb_refl, orb_true_r. reflexivity.
Qed.

Lemma quote_nonempty safe s : s <> [] -> quote safe s <> [].
Proof.
  destruct s as [|b s]; [congruence|]. intros _. unfold quote. simpl.
  unfold quote_byte. destruct (unreserved b || memb b safe); discriminate.
Qed.

Lemma replace_id a b s : memb a s = false -> replace_byte a b s = s.
Proof.
  induction s as [|x s IH]; intros H; [reflexivity|].
  unfold memb in H. simpl in H. apply orb_false_iff in H as [H1 H2].
  simpl. rewrite byte_eqb_sym, H1. f_equal. apply IH, H2.
Qed.

Lemma replace_back a b s : memb b s = false -> replace_byte b a (replace_byte a b s) = s.
Proof.
  induction s as [|x s IH]; intros H; [reflexivity|].
  unfold memb in H. simpl in H. apply orb_false_iff in H as [H1 H2].
  simpl. rewrite IH by exact H2. f_equal.
  destruct (byte_eqb x a) eqn:E.
  - rewrite byte_eqb_refl. apply byte_eqb_eq in E. congruence.
  - rewrite byte_eqb_sym, H1. reflexivity.
Qed.

Lemma quote_no_plus safe s : memb PLUS safe = false -> memb PLUS (quote safe s) = false.
Proof.
  intros Hs. apply (forallb_memb_false (qchar safe)); [apply quote_chars|].
  unfold qchar. rewrite Hs. reflexivity.
Qed.

(* the decoder of one name or value undoes quote_plus *)
Lemma unplus_quote_plus s : unplus (quote_plus s) = s.
Proof.
  unfold unplus, quote_plus. destruct (negb (memb SP s)).
  - rewrite replace_id by (apply quote_no_plus; reflexivity). apply unquote_quote. reflexivity.
  - rewrite replace_back by (apply quote_no_plus; reflexivity). apply unquote_quote. reflexivity.
Qed.

Definition qpchar (c : byte) : bool := unreserved c || byte_eqb c PCT || byte_eqb c PLUS.

Lemma quote_plus_chars s : forallb qpchar (quote_plus s) = true.
Proof.
  unfold quote_plus. destruct (negb (memb SP s)).
  - apply (forallb_impl (qchar [])); [|apply quote_chars].
    intros c H. unfold qchar, qpchar in *. simpl in H. rewrite orb_false_r in H. rewrite H. reflexivity.
  - unfold replace_byte. rewrite forallb_forall. intros c Hc. apply in_map_iff in Hc as [x [Hx Hin]].
    pose proof (quote_chars [SP] s) as Q. rewrite forallb_forall in Q. specialize (Q _ Hin).
    destruct (byte_eqb x SP) eqn:E; subst c; [reflexivity|].
    unfold qchar, qpchar in *. simpl in Q. rewrite E in Q. simpl in Q. rewrite orb_false_r in Q.
    apply orb_true_iff in Q as [Q|Q]; rewrite Q; [reflexivity|rewrite orb_true_r; reflexivity].
Qed.

Lemma quote_plus_no c s : qpchar c = false -> memb c (quote_plus s) = false.
Proof. intros H. apply (forallb_memb_false qpchar); [apply quote_plus_chars|exact H]. Qed.

Definition item (kv : bytes * bytes) : bytes := quote_plus (fst kv) ++ [EQS] ++ quote_plus (snd kv).

Lemma item_no_amp kv : memb AMP (item kv) = false.
Proof.
  unfold item. rewrite !memb_app. rewrite !quote_plus_no by reflexivity. reflexivity.
Qed.

Lemma item_decode kv :
  (if negb (nonempty (item kv)) then []
   else match break_at EQS (item kv) with
        | Some (n, v) => [(unplus n, unplus v)]
        | None => [(unplus (item kv), [])]
        end) = [kv].
Proof.
  assert (Hne : nonempty (item kv) = true).
  { unfold item. destruct (quote_plus (fst kv)); reflexivity. }
  rewrite Hne. simpl negb. cbv iota. unfold item. simpl app.
  rewrite break_at_app by (apply quote_plus_no; reflexivity).
  rewrite !unplus_quote_plus. destruct kv; reflexivity.
Qed.

Lemma urlencode_nonempty kv l : nonempty (urlencode (kv :: l)) = true.
Proof.
  assert (J : forall sep x (t : list bytes), nonempty x = true -> nonempty (join sep (x :: t)) = true).
  { intros sep x t Hx. destruct t; simpl; [exact Hx|]. destruct x; [discriminate|reflexivity]. }
  unfold urlencode. simpl map. apply J. destruct (quote_plus (fst kv)); reflexivity.
Qed.

(* urllib.parse.parse_qsl(urlencode(l)) = l for every list of pairs *)
Lemma parse_qsl_urlencode l : parse_qsl (urlencode l) = l.
Proof.
  destruct l as [|kv l]; [reflexivity|].
  unfold parse_qsl. rewrite urlencode_nonempty. simpl negb. cbv iota.
  unfold urlencode. change (fun kv0 : bytes * bytes => quote_plus (fst kv0) ++ [EQS] ++ quote_plus (snd kv0)) with item.
  rewrite split_join.
  - induction (kv :: l) as [|x t IH]; [reflexivity|].
    simpl map. simpl flat_map. rewrite item_decode. rewrite IH. reflexivity.
  - discriminate.
  - intros i Hi. apply in_map_iff in Hi as [x [<- _]]. apply item_no_amp.
Qed.

Lemma urlencode_chars l : forallb (fun c => qpchar c || byte_eqb c EQS || byte_eqb c AMP) (urlencode l) = true.
Proof.
  unfold urlencode. change (fun kv0 : bytes * bytes => quote_plus (fst kv0) ++ [EQS] ++ quote_plus (snd kv0)) with item.
  assert (Hi : forall kv, forallb (fun c => qpchar c || byte_eqb c EQS || byte_eqb c AMP) (item kv) = true).
  { assert (W : forall s, forallb (fun c => qpchar c || byte_eqb c EQS || byte_eqb c AMP) (quote_plus s) = true).
    { intros s. apply (forallb_impl qpchar); [intros c H; rewrite H; reflexivity|apply quote_plus_chars]. }
    intros kv. unfold item. rewrite !forallb_app, !W. reflexivity. }
  assert (J : forall items, (forall i, In i items -> forallb (fun c => qpchar c || byte_eqb c EQS || byte_eqb c AMP) i = true) ->
             forallb (fun c => qpchar c || byte_eqb c EQS || byte_eqb c AMP) (join [AMP] items) = true).
  { induction items as [|x t IH]; intros H; [reflexivity|].
    destruct t as [|y t].
    - simpl. apply H. left; reflexivity.
    - rewrite join_cons2, !forallb_app. rewrite (H x) by (left; reflexivity). simpl.
      apply IH. intros i Hi'. apply H. right; exact Hi'. }
  apply J. intros i Hin. apply in_map_iff in Hin as [kv [<- _]]. apply Hi.
Qed.

(* url.decode(url.encode(l)) = l *)
Lemma url_decode_encode l : url_decode (url_encode l None) = l.
Proof.
  unfold url_decode, url_encode. rewrite andb_false_r. apply parse_qsl_urlencode.
Qed.

(* with similar_to: the same when the old text is empty or every old field has an equals sign *)
Definition plain_mode (similar_to : option bytes) : bool :=
  match similar_to with
  | Some st => negb (nonempty st && existsb (fun param => negb (memb EQS param)) (split_char AMP st))
  | None => true
  end.

Lemma url_decode_encode_plain l sim : plain_mode sim = true -> url_decode (url_encode l sim) = l.
Proof.
  intros H. unfold url_decode, url_encode. destruct sim as [st|].
  - simpl in H. apply negb_true_iff in H. rewrite H, andb_false_r. apply parse_qsl_urlencode.
  - rewrite andb_false_r. apply parse_qsl_urlencode.
Qed.
