(* Proofs/Http1TeNorm.v -- re.sub(r"[\t ]*,[\t ]*", ",", s) (the model re_sub_trim) against the RFC 9110 5.6.1
   list reading of the reference parser: for every string, splitting the substituted string at commas and trimming
   OWS gives the same elements as splitting and trimming the original. *)
From Coq Require Import List Bool NArith ZArith Lia.
From MV Require Import Base.Bytes Model.Http1Msg Model.BodySizePrelude Gen.BodySize Model.Rfc9112.
Import ListNotations.

Definition WS : cls := [(9%N, 9%N); (32%N, 32%N)].
Definition COMMA : byte := x2c.
Definition norm (s : bytes) : bytes := re_sub_trim WS COMMA WS [COMMA] s.

Lemma ws_ows b : in_cls WS b = is_ows b.
Proof.
  apply eqb_prop. revert b. apply (forall_bytes (fun b => Bool.eqb (in_cls WS b) (is_ows b))). vm_compute. reflexivity.
Qed.

Definition all_ows (s : bytes) : bool := forallb is_ows s.

Lemma ltrim_all_ows s : all_ows s = true -> ltrim_ows s = [].
Proof. induction s as [|x s IH]; simpl; auto. intros H. apply andb_true_iff in H as [A B]. rewrite A. auto. Qed.

Lemma ltrim_app_ows l s : all_ows l = true -> ltrim_ows (l ++ s) = ltrim_ows s.
Proof. induction l as [|x l IH]; simpl; auto. intros H. apply andb_true_iff in H as [A B]. rewrite A. auto. Qed.

Lemma rtrim_all_ows s : all_ows s = true -> rtrim_ows s = [].
Proof.
  induction s as [|x s IH]; simpl; auto. intros H. apply andb_true_iff in H as [A B].
  rewrite (IH B), A. reflexivity.
Qed.

Lemma rtrim_app_ows s p : all_ows p = true -> rtrim_ows (s ++ p) = rtrim_ows s.
Proof.
  intros H. induction s as [|x s IH]; simpl.
  - apply rtrim_all_ows, H.
  - rewrite IH. reflexivity.
Qed.

Lemma ltrim_app_nonows a p : ltrim_ows a <> [] -> ltrim_ows (a ++ p) = ltrim_ows a ++ p.
Proof.
  induction a as [|x a IH]; simpl; [congruence|].
  destruct (is_ows x); auto.
Qed.

Lemma trim_app_ows a p : all_ows p = true -> trim_ows (a ++ p) = trim_ows a.
Proof.
  intros H. unfold trim_ows.
  destruct (ltrim_ows a) eqn:E.
  - assert (all_ows a = true).
    { clear -E. induction a as [|x a IH]; simpl in *; auto. destruct (is_ows x) eqn:Ex; [simpl; auto | discriminate]. }
    rewrite ltrim_app_ows by assumption. simpl. rewrite (ltrim_all_ows _ H). reflexivity.
  - rewrite ltrim_app_nonows by congruence. rewrite E. apply rtrim_app_ows, H.
Qed.

Lemma trim_lead l a : all_ows l = true -> trim_ows (l ++ a) = trim_ows a.
Proof. intros H. unfold trim_ows. rewrite ltrim_app_ows; auto. Qed.

Lemma all_ows_app a b : all_ows (a ++ b) = all_ows a && all_ows b.
Proof. apply forallb_app. Qed.

Lemma split_comma_app_nocomma p s cur :
  existsb (byte_eqb COMMA) p = false -> split_comma (p ++ s) cur = split_comma s (rev p ++ cur).
Proof.
  revert cur. induction p as [|x p IH]; intros cur H; simpl in *; auto.
  apply orb_false_iff in H as [A B].
  assert (byte_eqb x x2c = false).
  { destruct (byte_eqb x x2c) eqn:E; auto. apply byte_eqb_eq in E; subst. discriminate. }
  rewrite H. rewrite IH by assumption. rewrite <- app_assoc. reflexivity.
Qed.

Lemma split_comma_nocomma p cur :
  existsb (byte_eqb COMMA) p = false -> split_comma p cur = [rev cur ++ p].
Proof.
  intros H. rewrite <- (app_nil_r p) at 1. rewrite split_comma_app_nocomma by assumption.
  simpl. rewrite rev_app_distr, rev_involutive. reflexivity.
Qed.

Lemma ows_not_comma p : all_ows p = true -> existsb (byte_eqb COMMA) p = false.
Proof.
  induction p as [|x p IH]; simpl; auto. intros H. apply andb_true_iff in H as [A B].
  rewrite (IH B), orb_false_r.
  destruct (byte_eqb COMMA x) eqn:E; auto. apply byte_eqb_eq in E; subst. discriminate.
Qed.

(* the joint invariant: [cur] is the current element of the original string (reversed), [cur'] the current
   element of the substituted string (reversed) and [pend] its buffered whitespace *)
Lemma norm_split_inv s : forall cur cur' pend lead skipping,
  all_ows lead = true -> all_ows pend = true ->
  rev cur = lead ++ rev cur' ++ pend ->
  (skipping = true -> cur' = [] /\ pend = []) ->
  map trim_ows (split_comma s cur) =
  map trim_ows (split_comma (re_sub_trim_go WS COMMA WS [COMMA] s pend skipping) cur').
Proof.
  induction s as [|x s IH]; intros cur cur' pend lead sk Hl Hp Hinv Hsk.
  - simpl. rewrite (split_comma_nocomma pend cur' (ows_not_comma _ Hp)). simpl. f_equal.
    rewrite Hinv. apply trim_lead, Hl.
  - cbn [re_sub_trim_go]. rewrite !ws_ows.
    destruct (sk && is_ows x) eqn:E1.
    + apply andb_true_iff in E1 as [Es Ex]. subst sk. destruct (Hsk eq_refl) as [-> ->].
      assert (Hc : byte_eqb x x2c = false).
      { destruct (byte_eqb x x2c) eqn:E; auto. apply byte_eqb_eq in E; subst. discriminate. }
      simpl split_comma at 1. rewrite Hc.
      apply (IH (x :: cur) [] [] (lead ++ [x]) true); auto.
      * rewrite all_ows_app, Hl. simpl. rewrite Ex. reflexivity.
      * simpl. rewrite Hinv. simpl. rewrite !app_nil_r. reflexivity.
    + destruct (byte_eqb x COMMA) eqn:E2.
      * simpl split_comma at 1. unfold COMMA in E2. rewrite E2.
        simpl app. simpl split_comma at 2. cbn [map]. f_equal.
        -- rewrite Hinv. rewrite trim_lead by assumption. apply trim_app_ows, Hp.
        -- apply (IH [] [] [] [] true); auto. 
      * simpl split_comma at 1. unfold COMMA in E2. rewrite E2.
        destruct (is_ows x) eqn:Ex.
        -- assert (sk = false) by (destruct sk; simpl in E1; congruence). subst sk.
           apply (IH (x :: cur) cur' (pend ++ [x]) lead false); auto.
           ++ rewrite all_ows_app, Hp. simpl. rewrite Ex. reflexivity.
           ++ simpl. rewrite Hinv. rewrite <- !app_assoc. reflexivity.
           ++ discriminate.
        -- assert (Hpc : existsb (byte_eqb COMMA) pend = false) by (apply ows_not_comma, Hp).
           rewrite split_comma_app_nocomma by assumption.
           simpl split_comma at 2. rewrite E2.
           apply (IH (x :: cur) (x :: rev pend ++ cur') [] lead false); auto.
           ++ simpl. rewrite Hinv. rewrite rev_app_distr, rev_involutive, app_nil_r, <- !app_assoc. reflexivity.
           ++ discriminate.
Qed.

Theorem norm_same_elements s :
  map trim_ows (split_comma s []) = map trim_ows (split_comma (norm s) []).
Proof. apply (norm_split_inv s [] [] [] [] false); auto; discriminate. Qed.
