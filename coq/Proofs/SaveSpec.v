(* Proofs/SaveSpec.v -- C39: the vocabulary the theorems are stated in (defined on the event
   history alone, independent of the generated hook table) and the two symbolic-execution
   lemmas: what one hook / one option change does to a state of the regular shape mk_state. *)
From Coq Require Import List Bool NArith Lia.
From MV Require Import Model.SavePrelude Gen.SaveHooks Model.Save.
Import ListNotations.
Open Scope N_scope.

(* ---------- the vocabulary of the property ---------- *)
(* hooks at which a flow starts / completes (ws: flow.websocket is set) *)
Definition is_start (h : hook) : bool :=
  match h with HRequest | HTcpStart | HUdpStart | HDnsRequest => true | _ => false end.
Definition is_completion (h : hook) (ws : bool) : bool :=
  match h with
  | HResponse | HError => negb ws
  | HWebsocketEnd | HTcpEnd | HTcpError | HUdpEnd | HUdpError | HDnsResponse | HDnsError => true
  | _ => false
  end.

(* an option change is rejected (OptionsError, options rolled back) iff the filter does not parse
   or the file cannot be opened *)
Definition file_bad (uf : option (option (bool * N))) : bool :=
  match uf with Some (Some (_, p)) => p =? bad_path | _ => false end.
Definition filter_bad (ufl : option (option fspec)) : bool :=
  match ufl with Some (Some FSInvalid) => true | _ => false end.
Definition accepted uf ufl : bool := negb (file_bad uf) && negb (filter_bad ufl).
Definition flt_of (v : option fspec) : option flt :=
  match v with Some (FSOk f) => Some f | _ => None end.

(* value of save_stream_file / the filter in force after a history *)
Definition upd_file (cur : option (bool * N)) (e : event) : option (bool * N) :=
  match e with
  | Configure (Some v) ufl => if accepted (Some v) ufl then v else cur
  | _ => cur
  end.
Definition file_after (pre : list event) := fold_left upd_file pre None.
Definition saving_after (pre : list event) : option N := option_map snd (file_after pre).
Definition upd_filter (cur : option flt) (e : event) : option flt :=
  match e with
  | Configure uf (Some v) => if accepted uf (Some v) then flt_of v else cur
  | _ => cur
  end.
Definition filter_after (pre : list event) := fold_left upd_filter pre None.

(* the flow as a filter sees it after a history: response / error set by an earlier hook *)
Definition has_resp (pre : list event) (i : N) : bool :=
  existsb (fun e => match e with Hook h j => sets_resp h && (j =? i) | _ => false end) pre.
Definition has_err (pre : list event) (i : N) : bool :=
  existsb (fun e => match e with Hook h j => sets_err h && (j =? i) | _ => false end) pre.
Definition snap_after (infos : list finfo) (pre : list event) (i : N) : snap :=
  {| s_kind := f_kind (info infos i); s_ws := f_ws (info infos i); s_marked := f_marked (info infos i);
     s_resp := has_resp pre i; s_err := has_err pre i |}.
Definition passes (fl : option flt) (x : snap) : bool :=
  match fl with Some f => matches f x | None => true end.

(* saving stops: shutdown, or save_stream_file unset by an accepted option change *)
Definition stops (e : event) : bool :=
  match e with
  | Done => true
  | Configure (Some None) ufl => negb (filter_bad ufl)
  | _ => false
  end.
Definition closes (infos : list finfo) (i : N) (e : event) : bool :=
  stops e || match e with
             | Hook h j => (j =? i) && is_completion h (f_ws (info infos i))
             | _ => false
             end.
(* flow i started while saving was active and has neither completed nor been flushed since *)
Definition open_after (infos : list finfo) (pre : list event) (i : N) : Prop :=
  exists a h b, pre = a ++ Hook h i :: b /\ is_start h = true /\ saving_after a <> None
                /\ Forall (fun e => closes infos i e = false) b.

Definition no_done (pre : list event) : Prop := Forall (fun e => e <> Done) pre.
(* the complement of the finding: no attempt to switch to a file that cannot be opened
   (or the repaired maybe_rotate_to_new_file, which opens the new file first) *)
Definition no_bad_switch (e : event) : Prop :=
  match e with Configure uf _ => file_bad uf = false | _ => True end.
Definition switch_safe (evs : list event) : Prop :=
  rotate_open_first = true \/ Forall no_bad_switch evs.

(* ---------- regular states ---------- *)
Definition mk_state (of : option (bool * N)) (fl : option flt) (act rs er : list N) : st :=
  {| stream := option_map (fun ap : bool * N => {| wr_path := snd ap; wr_flt := fl |}) of;
     filt := fl; active := act; current_path := option_map snd of;
     opt_file := of; opt_filter := option_map FSOk fl; resp := rs; err := er |}.

Definition snap_env (infos : list finfo) (rs er : list N) (i : N) : snap :=
  {| s_kind := f_kind (info infos i); s_ws := f_ws (info infos i); s_marked := f_marked (info infos i);
     s_resp := memN i rs; s_err := memN i er |}.
(* FilteredFlowWriter.add with the environment spelled out *)
Definition wadd (infos : list finfo) (rs er : list N) (fl : option flt) (p i : N) : list fop :=
  match fl with
  | Some f => if matches f (snap_env infos rs er i) then [WWrite p i] else []
  | None => [WWrite p i]
  end.
Definition flush (infos : list finfo) (of : option (bool * N)) (fl : option flt) (act rs er : list N) : list fop :=
  match of with
  | Some (_, p0) => flat_map (wadd infos rs er fl p0) (sortN act)
  | None => []
  end.
Definition cfg_ops (infos : list finfo) (of : option (bool * N)) (fl : option flt) (act rs er : list N)
           (of' : option (bool * N)) : list fop :=
  match of' with
  | None => flush infos of fl act rs er
  | Some (a, p) => if optN_eqb (option_map snd of) (Some p) then [] else [WOpen p a]
  end.

Lemma wadd_passes : forall infos rs er fl p i,
  wadd infos rs er fl p i = if passes fl (snap_env infos rs er i) then [WWrite p i] else [].
Proof. intros. destruct fl; reflexivity. Qed.

Local Arguments N.eqb : simpl never.
Local Opaque bad_path rotate_open_first.

(* ---------- one hook on a regular state ---------- *)
Lemma step_hook_mk : forall infos of fl act rs er h i,
  step infos (mk_state of fl act rs er) (Hook h i) =
  let rs' := if sets_resp h then addN i rs else rs in
  let er' := if sets_err h then addN i er else er in
  (mk_state of fl
     (match of with
      | Some _ => if is_start h then addN i act
                  else if is_completion h (f_ws (info infos i)) then removeN i act else act
      | None => act
      end) rs' er',
   match of with
   | Some (_, p) => if is_completion h (f_ws (info infos i)) then wadd infos rs' er' fl p i else []
   | None => []
   end,
   (false, false)).
Proof.
  intros infos of fl act rs er h i.
  destruct of as [[a p]|]; destruct h; destruct (f_ws (info infos i)) eqn:Ews;
    unfold step, env_pre, mk_state; cbn; rewrite ?Ews; cbn;
    unfold save_flow, maybe_rotate; cbn; rewrite ?N.eqb_refl; cbn; rewrite ?app_nil_r; reflexivity.
Qed.

(* ---------- shutdown on a regular state ---------- *)
Lemma step_done_mk : forall infos of fl act rs er,
  snd (fst (step infos (mk_state of fl act rs er) Done)) = flush infos of fl act rs er.
Proof.
  intros. destruct of as [[a p]|]; unfold step, done, mk_state; cbn; rewrite ?app_nil_r; reflexivity.
Qed.

(* ---------- one option change on a regular state ---------- *)
Lemma do_configure_mk : forall infos of fl act rs er uf ufl,
  (of = None -> act = []) ->
  (forall a p, of = Some (a, p) -> p =? bad_path = false) ->
  (rotate_open_first = true \/ file_bad uf = false) ->
  do_configure infos (mk_state of fl act rs er) uf ufl =
  if accepted uf ufl then
    let of' := match uf with Some v => v | None => of end in
    let fl' := match ufl with Some v => flt_of v | None => fl end in
    (mk_state of' fl' (match of' with None => [] | Some _ => act end) rs er,
     cfg_ops infos of fl act rs er of', (false, false))
  else (mk_state of fl act rs er, [], (true, false)).
Proof.
  intros infos of fl act rs er uf ufl Hact Hok Hg.
  assert (Hact' : of = None -> act = []) by exact Hact.
  destruct of as [[a0 p0]|];
    [ pose proof (Hok _ _ eq_refl) as Hp0; clear Hact' | rewrite (Hact' eq_refl) ];
    destruct uf as [[[a p]|]|]; destruct ufl as [[[|f]|]|]; destruct fl as [f0|];
    unfold do_configure, configure_raw, accepted, file_bad, filter_bad, mk_state, cfg_ops, flush; cbn;
    unfold maybe_rotate, done; cbn;
    rewrite ?N.eqb_refl; cbn;
    try (destruct (p =? bad_path) eqn:Eb; cbn);
    try (destruct (p0 =? p) eqn:Ep; cbn; [ apply N.eqb_eq in Ep; subst p0 | ]);
    try (destruct rotate_open_first eqn:Er; cbn);
    rewrite ?N.eqb_refl; cbn; rewrite ?app_nil_r;
    try reflexivity;
    try congruence;
    try (destruct Hg as [Hg|Hg]; cbn in Hg; congruence).
Qed.
