(* Proofs/WebFlowEditApply.v -- an accepted edit applies completely (C47): the value of a field after an
   accepted PUT is a function of the submitted document alone (last submitted value wins) and of the old value
   when the document does not mention the field. *)
From Coq Require Import Strings.String.
From Coq Require Import List Bool NArith ZArith Lia.
From MV Require Import Base.Bytes Model.WebFlowEdit Proofs.WebFlowEdit.
From MV Require Model.Headers.
Import ListNotations.

Lemma ustr_eqb_true : forall a b, ustr_eqb a b = true -> a = b.
Proof.
  unfold ustr_eqb. induction a as [|x a IH]; destruct b as [|y b]; cbn; intros H; try discriminate; [reflexivity|].
  apply andb_true_iff in H. destruct H as [H1 H2]. apply N.eqb_eq in H1. f_equal; auto.
Qed.

Lemma str_key_not : forall k, is_request_str_key k = true ->
  ustr_eqb k k_port = false /\ ustr_eqb k k_headers = false /\ ustr_eqb k k_trailers = false.
Proof.
  intros k H. unfold is_request_str_key in H. repeat rewrite orb_true_iff in H.
  destruct H as [[[[H|H]|H]|H]|H]; apply ustr_eqb_true in H; subst k; vm_compute; auto.
Qed.

(* a projection of the state that every successful step updates by a known function is, after the whole
   fold, the left fold of that function over the items *)
Lemma fold_fields_proj : forall (S V : Type) (step : ustr -> jv -> S -> res S) (pi : S -> V)
                                (upd : ustr -> jv -> V -> V),
  (forall k v s s', step k v s = Ok s' -> pi s' = upd k v (pi s)) ->
  forall items s s', fold_fields step items s = Ok s' ->
  pi s' = fold_left (fun acc kv => upd (fst kv) (snd kv) acc) items (pi s).
Proof.
  intros S V step pi upd Hstep. induction items as [|[k v] rest IH]; intros s s' H.
  - cbn in H. inversion H. reflexivity.
  - cbn [fold_fields] in H. destruct (step k v s) as [s1|e s1|] eqn:E; try discriminate.
    cbn [fold_left fst snd]. rewrite <- (Hstep _ _ _ _ E). apply IH. exact H.
Qed.

Lemma res_map_ok_inv : forall A B (f : A -> B) r b, res_map f r = Ok b -> exists a, r = Ok a /\ b = f a.
Proof. intros A B f r b H. destruct r; try discriminate. inversion H. eauto. Qed.

(* ------------------------------------------------------------------ what each setter leaves alone *)
Definition same_scalars (r r' : request) : Prop :=
  q_port r' = q_port r /\ q_method r' = q_method r /\ q_scheme r' = q_scheme r /\ q_path r' = q_path r
  /\ q_host r' = q_host r.

Lemma update_host_scalars : forall r r', _update_host_and_authority r = Ok r' -> same_scalars r r'.
Proof.
  intros r r' H. unfold _update_host_and_authority in H.
  destruct (Headers.contains (m_headers (q_msg r)) (blit "Host")).
  - destruct (always_bytes_se (hostport (q_scheme r) (q_host r) (q_port r))) as [b|e|]; try discriminate.
    cbn [q_authority q_with_msg] in H. destruct (q_authority r).
    + inversion H. repeat split.
    + destruct (is_ascii _); try discriminate. inversion H. repeat split.
  - destruct (q_authority r).
    + inversion H. repeat split.
    + destruct (is_ascii _); try discriminate. inversion H. repeat split.
Qed.

(* ------------------------------------------------------------------ request.port and request.method *)
Definition int_or (v : jv) (old : Z) : Z := match py_int v with COk z => z | _ => old end.
Definition upd_port (k : ustr) (v : jv) (old : Z) : Z := if ustr_eqb k k_port then int_or v old else old.

Definition str_bytes_or (v : jv) (old : bytes) : bytes :=
  match py_str v with
  | Some s => match encode_utf8_se s with Some b => b | None => old end
  | None => old
  end.
Definition upd_method (k : ustr) (v : jv) (old : bytes) : bytes :=
  if ustr_eqb k k_method then str_bytes_or v old else old.

Lemma request_field_port_method : forall k v r r', put_request_field k v r = Ok r' ->
  q_port r' = upd_port k v (q_port r) /\ q_method r' = upd_method k v (q_method r).
Proof.
  intros k v r r' H. unfold put_request_field in H. unfold upd_port, upd_method.
  destruct (is_request_str_key k) eqn:Ek.
  - (* one of the five str() fields *)
    assert (Hp : ustr_eqb k k_port = false) by (apply str_key_not in Ek; tauto).
    rewrite Hp. destruct (py_str v) as [s|] eqn:Es; try discriminate.
    unfold setattr_request in H. destruct (ustr_eqb k k_host) eqn:Eh.
    + apply ustr_eqb_true in Eh. subst k. change (ustr_eqb k_host k_method) with false.
      unfold set_host in H. apply update_host_scalars in H. destruct H as [H1 [H2 _]]. cbn in H1, H2. auto.
    + unfold str_bytes_or. rewrite Es. unfold always_bytes_se in H.
      destruct (encode_utf8_se s) as [b|]; try discriminate.
      destruct (ustr_eqb k k_method); [inversion H; auto|].
      destruct (ustr_eqb k k_scheme); [inversion H; auto|].
      destruct (ustr_eqb k k_path); inversion H; auto.
  - destruct (ustr_eqb k k_port) eqn:Ep.
    + apply ustr_eqb_true in Ep. subst k. change (ustr_eqb k_port k_method) with false.
      unfold int_or. destruct (py_int v) as [z|e|]; try discriminate.
      unfold set_port in H. apply update_host_scalars in H. destruct H as [H1 [H2 _]]. cbn in H1, H2. auto.
    + assert (Em : ustr_eqb k k_method = false).
      { unfold is_request_str_key in Ek. repeat rewrite orb_false_iff in Ek. tauto. }
      rewrite Em.
      destruct (ustr_eqb k k_headers); [apply res_map_ok_inv in H; destruct H as [m [_ ->]]; auto|].
      destruct (ustr_eqb k k_trailers); [apply res_map_ok_inv in H; destruct H as [m [_ ->]]; auto|].
      destruct (ustr_eqb k k_content); [apply res_map_ok_inv in H; destruct H as [m [_ ->]]; auto|].
      discriminate.
Qed.

(* ------------------------------------------------------------------ response.code *)
Definition upd_code (k : ustr) (v : jv) (old : Z) : Z := if ustr_eqb k k_code then int_or v old else old.

Lemma response_field_code : forall k v p p', put_response_field k v p = Ok p' ->
  p_code p' = upd_code k v (p_code p).
Proof.
  intros k v p p' H. unfold put_response_field in H. unfold upd_code.
  destruct (ustr_eqb k k_reason) eqn:E1.
  { apply ustr_eqb_true in E1. subst k. change (ustr_eqb k_reason k_code) with false.
    destruct (py_str v); try discriminate. destruct (encode_latin1 u); inversion H. reflexivity. }
  destruct (ustr_eqb k k_http_version) eqn:E2.
  { apply ustr_eqb_true in E2. subst k. change (ustr_eqb k_http_version k_code) with false.
    destruct (py_str v); try discriminate. destruct (always_bytes_se u); inversion H. reflexivity. }
  destruct (ustr_eqb k k_code).
  { unfold int_or. destruct (py_int v); inversion H. reflexivity. }
  destruct (ustr_eqb k k_headers); [apply res_map_ok_inv in H; destruct H as [m [_ ->]]; reflexivity|].
  destruct (ustr_eqb k k_trailers); [apply res_map_ok_inv in H; destruct H as [m [_ ->]]; reflexivity|].
  destruct (ustr_eqb k k_content); [apply res_map_ok_inv in H; destruct H as [m [_ ->]]; reflexivity|].
  discriminate.
Qed.

(* ------------------------------------------------------------------ the whole document *)
(* the expected value of a request scalar: walk the document, inside every request object take the last
   submitted value *)
Definition in_request {V : Type} (upd : ustr -> jv -> V -> V) (a : ustr) (b : jv) (old : V) : V :=
  if ustr_eqb a k_request then
    match b with
    | JDict items => fold_left (fun acc kv => upd (fst kv) (snd kv) acc) items old
    | _ => old
    end
  else old.
Definition in_response {V : Type} (upd : ustr -> jv -> V -> V) (a : ustr) (b : jv) (old : V) : V :=
  if ustr_eqb a k_response then
    match b with
    | JDict items => fold_left (fun acc kv => upd (fst kv) (snd kv) acc) items old
    | _ => old
    end
  else old.
Definition expected {V : Type} (f : ustr -> jv -> V -> V) (items : list (ustr * jv)) (old : V) : V :=
  fold_left (fun acc ab => f (fst ab) (snd ab) acc) items old.

Definition upd_comment (a : ustr) (b : jv) (old : jv) : jv := if ustr_eqb a k_comment then b else old.
Definition upd_marked (a : ustr) (b : jv) (old : jv) : jv := if ustr_eqb a k_marked then b else old.

Lemma top_step : forall a b c c', put_top a b c = Ok c' ->
  q_port (c_request c') = in_request upd_port a b (q_port (c_request c))
  /\ q_method (c_request c') = in_request upd_method a b (q_method (c_request c))
  /\ c_comment c' = upd_comment a b (c_comment c)
  /\ c_marked c' = upd_marked a b (c_marked c)
  /\ (forall p, c_response c = Some p -> exists p', c_response c' = Some p'
                                                   /\ p_code p' = in_response upd_code a b (p_code p)).
Proof.
  intros a b c c' H. unfold put_top in H. unfold in_request, in_response, upd_comment, upd_marked.
  destruct (ustr_eqb a k_request) eqn:E1.
  { apply ustr_eqb_true in E1. subst a.
    change (ustr_eqb k_request k_comment) with false. change (ustr_eqb k_request k_marked) with false.
    change (ustr_eqb k_request k_response) with false.
    destruct b; try discriminate. apply res_map_ok_inv in H. destruct H as [r [Hf ->]].
    cbn [c_with_request c_request c_comment c_marked c_response].
    split; [|split; [|split; [|split]]]; try reflexivity.
    - exact (fold_fields_proj _ _ put_request_field q_port upd_port
               (fun k v s s' Hs => proj1 (request_field_port_method k v s s' Hs)) _ _ _ Hf).
    - exact (fold_fields_proj _ _ put_request_field q_method upd_method
               (fun k v s s' Hs => proj2 (request_field_port_method k v s s' Hs)) _ _ _ Hf).
    - intros p Hp. exists p. split; [exact Hp|reflexivity]. }
  destruct (ustr_eqb a k_response) eqn:E2.
  { apply ustr_eqb_true in E2. subst a.
    change (ustr_eqb k_response k_comment) with false. change (ustr_eqb k_response k_marked) with false.
    destruct b; try discriminate. destruct (c_response c) as [p|] eqn:Ep.
    - apply res_map_ok_inv in H. destruct H as [p' [Hf ->]].
      cbn [c_with_response c_request c_comment c_marked c_response].
      split; [|split; [|split; [|split]]]; try reflexivity.
      intros p0 Hp0. inversion Hp0; subst p0. exists p'. split; [reflexivity|].
      exact (fold_fields_proj _ _ put_response_field p_code upd_code response_field_code _ _ _ Hf).
    - apply res_map_ok_inv in H. destruct H as [u [Hf ->]].
      split; [|split; [|split; [|split]]]; try reflexivity.
      intros p0 Hp0. discriminate. }
  destruct (ustr_eqb a k_marked) eqn:E3.
  { apply ustr_eqb_true in E3. subst a. change (ustr_eqb k_marked k_comment) with false.
    inversion H. cbn. split; [|split; [|split; [|split]]]; try reflexivity.
    intros p Hp. exists p. split; [exact Hp|reflexivity]. }
  destruct (ustr_eqb a k_comment); [|discriminate].
  inversion H. cbn. split; [|split; [|split; [|split]]]; try reflexivity.
  intros p Hp. exists p. split; [exact Hp|reflexivity].
Qed.

Lemma put_done_inv : forall vx vb body f f', put vx vb body f = (f', Done) ->
  exists items, body = Some (JDict items) /\ fold_fields put_top items (f_cur f) = Ok (f_cur f').
Proof.
  intros vx vb body f f' H. unfold put in H.
  assert (Hc : f_cur (backup f) = f_cur f) by (unfold backup; destruct (f_backup f); reflexivity).
  rewrite Hc in H.
  destruct (put_body body (f_cur f)) as [c'|e c'|] eqn:E.
  - inversion H; subst. cbn [f_cur]. unfold put_body in E.
    destruct body as [[| | | | |items]|]; try discriminate. exists items. split; [reflexivity|exact E].
  - destruct (vx || is_api e); discriminate.
  - discriminate.
Qed.

(* After an accepted edit: port, method, comment and marked are exactly what the document says. *)
Lemma accepted_applies : forall vx vb body f f', put vx vb body f = (f', Done) ->
  exists items, body = Some (JDict items)
  /\ q_port (c_request (f_cur f')) = expected (in_request upd_port) items (q_port (c_request (f_cur f)))
  /\ q_method (c_request (f_cur f')) = expected (in_request upd_method) items (q_method (c_request (f_cur f)))
  /\ c_comment (f_cur f') = expected upd_comment items (c_comment (f_cur f))
  /\ c_marked (f_cur f') = expected upd_marked items (c_marked (f_cur f)).
Proof.
  intros vx vb body f f' H. apply put_done_inv in H. destruct H as [items [-> Hf]].
  exists items. split; [reflexivity|]. unfold expected.
  split; [|split; [|split]].
  - exact (fold_fields_proj _ _ put_top (fun c => q_port (c_request c)) (in_request upd_port)
             (fun a b s s' Hs => proj1 (top_step a b s s' Hs)) _ _ _ Hf).
  - exact (fold_fields_proj _ _ put_top (fun c => q_method (c_request c)) (in_request upd_method)
             (fun a b s s' Hs => proj1 (proj2 (top_step a b s s' Hs))) _ _ _ Hf).
  - exact (fold_fields_proj _ _ put_top c_comment upd_comment
             (fun a b s s' Hs => proj1 (proj2 (proj2 (top_step a b s s' Hs)))) _ _ _ Hf).
  - exact (fold_fields_proj _ _ put_top c_marked upd_marked
             (fun a b s s' Hs => proj1 (proj2 (proj2 (proj2 (top_step a b s s' Hs))))) _ _ _ Hf).
Qed.

(* Same for the status code of a flow that has a response. *)
Definition code_of (c : core) : option Z := option_map p_code (c_response c).

Lemma accepted_applies_code : forall vx vb body f f' p, put vx vb body f = (f', Done) ->
  c_response (f_cur f) = Some p ->
  exists items, body = Some (JDict items)
  /\ code_of (f_cur f') = Some (expected (in_response upd_code) items (p_code p)).
Proof.
  intros vx vb body f f' p H Hp. apply put_done_inv in H. destruct H as [items [-> Hf]].
  exists items. split; [reflexivity|]. unfold expected.
  revert Hf Hp. generalize (f_cur f) as c. generalize (f_cur f') as c'. revert p.
  induction items as [|[a b] rest IH]; intros p c' c Hf Hp.
  - cbn in Hf. inversion Hf; subst. unfold code_of. rewrite Hp. reflexivity.
  - cbn [fold_fields] in Hf. destruct (put_top a b c) as [c1|e c1|] eqn:E; try discriminate.
    destruct (top_step _ _ _ _ E) as [_ [_ [_ [_ Hr]]]]. destruct (Hr p Hp) as [p1 [Hp1 Hc1]].
    cbn [fold_left fst snd]. rewrite <- Hc1. exact (IH p1 c' c1 Hf Hp1).
Qed.

(* the specification functions really read the document: a concrete evaluation *)
Lemma expected_example :
  expected (in_request upd_port)
    [(k_comment, JNull); (k_request, JDict [(k_port, JStr (lit " 8_0 ")); (k_method, JStr (lit "PATCH"))])] 22%Z = 80%Z
  /\ expected upd_comment [(k_comment, JInt 1); (k_marked, JNull); (k_comment, JStr (lit "last"))] JNull = JStr (lit "last").
Proof. split; vm_compute; reflexivity. Qed.
