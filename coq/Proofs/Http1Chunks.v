(* Proofs/Http1Chunks.v -- (c) body_reframe: the reference de-chunker applied to the chunk stream written by
   Http1Client.send / Http1Server.send / assemble_body gives back the concatenation of the chunks, for every
   list of non-empty chunks; and the Content-Length case. *)
From Coq Require Import List Bool NArith ZArith Lia.
From MV Require Import Base.Bytes Model.Http1Msg Model.Rfc9112 Proofs.Http1Lines.
Import ListNotations.

Definition digit_ok (d : N) : bool :=
  is_hexdig (hex_digit d) && N.eqb (hexval (hex_digit d)) d
  && negb (is_cr_or_nul (hex_digit d)) && negb (byte_eqb rLF (hex_digit d)).

Lemma digit_ok_lt d : (d < 16)%N -> digit_ok d = true.
Proof.
  intros H.
  assert (A : forallb digit_ok (map N.of_nat (seq 0 16)) = true) by (vm_compute; reflexivity).
  rewrite forallb_forall in A. apply A.
  rewrite <- (N2Nat.id d). apply in_map, in_seq. lia.
Qed.

Definition hex_clean (s : bytes) : bool :=
  forallb (fun b => is_hexdig b && negb (is_cr_or_nul b) && negb (byte_eqb rLF b)) s.

Lemma hex_digits_spec f : forall n acc, (n < 16 ^ N.of_nat f)%N -> f <> O ->
  hex_value (hex_digits f n acc) 0%N = hex_value acc n
  /\ (hex_clean acc = true -> hex_clean (hex_digits f n acc) = true)
  /\ hex_digits f n acc <> [].
Proof.
  induction f as [|f IH]; intros n acc Hn Hf; [congruence|].
  cbn [hex_digits].
  assert (Hm : (n mod 16 < 16)%N) by (apply N.mod_lt; lia).
  pose proof (digit_ok_lt _ Hm) as D. unfold digit_ok in D.
  apply andb_true_iff in D as [D D4]. apply andb_true_iff in D as [D D3]. apply andb_true_iff in D as [D1 D2].
  apply N.eqb_eq in D2.
  destruct (n <? 16)%N eqn:E.
  - apply N.ltb_lt in E. rewrite N.mod_small in * by lia.
    split; [|split].
    + cbn [hex_value]. rewrite D2. reflexivity.
    + intros Ha. cbn [hex_clean forallb]. rewrite D1, D3, D4. exact Ha.
    + discriminate.
  - apply N.ltb_ge in E.
    assert (Hf' : f <> O).
    { intros ->. simpl in Hn. lia. }
    assert (Hd : (n / 16 < 16 ^ N.of_nat f)%N).
    { apply N.div_lt_upper_bound; [lia|]. rewrite Nat2N.inj_succ, N.pow_succ_r' in Hn. exact Hn. }
    destruct (IH (n / 16)%N (hex_digit (n mod 16) :: acc) Hd Hf') as (V & C & NE).
    split; [|split]; auto.
    + rewrite V. cbn [hex_value]. rewrite D2. f_equal.
      rewrite N.mul_comm. symmetry. apply N.div_mod. lia.
    + intros Ha. apply C. cbn [hex_clean forallb]. rewrite D1, D3, D4. exact Ha.
Qed.

Lemma hex_of_N_spec n :
  hex_value (hex_of_N n) 0%N = n /\ hex_clean (hex_of_N n) = true /\ hex_of_N n <> [].
Proof.
  unfold hex_of_N.
  assert (Hn : (n < 16 ^ N.of_nat (S (N.to_nat (N.log2 n))))%N).
  { rewrite Nat2N.inj_succ, N2Nat.id.
    destruct n as [|p]; [simpl; lia|].
    pose proof (N.log2_spec (Npos p) ltac:(lia)) as [_ L].
    eapply N.lt_le_trans; [exact L|].
    apply N.pow_le_mono_l. lia. }
  destruct (hex_digits_spec _ n [] Hn ltac:(discriminate)) as (V & C & NE).
  split; [exact V|]. split; auto.
Qed.

Lemma hex_clean_hexdig s : hex_clean s = true -> forallb is_hexdig s = true.
Proof.
  induction s as [|x s IH]; simpl; auto. intros H. apply andb_true_iff in H as [A B].
  apply andb_true_iff in A as [A _]. apply andb_true_iff in A as [A _]. rewrite A, IH; auto.
Qed.

Lemma hex_clean_clean s : hex_clean s = true -> clean s = true.
Proof.
  unfold clean, no_lf. induction s as [|x s IH]; simpl; auto. intros H. apply andb_true_iff in H as [A B].
  apply andb_true_iff in A as [A A3]. apply andb_true_iff in A as [_ A2].
  specialize (IH B). apply andb_true_iff in IH as [I1 I2].
  apply negb_true_iff in A2, A3, I1, I2. rewrite A2, I1.
  assert (byte_eqb rLF x = false) by exact A3. rewrite H, I2. reflexivity.
Qed.

Lemma parse_chunk_header_hex n : parse_chunk_header (hex_of_N n) = Some n.
Proof.
  destruct (hex_of_N_spec n) as (V & C & NE).
  unfold parse_chunk_header.
  rewrite <- (app_nil_r (hex_of_N n)) at 1.
  rewrite (span_all is_hexdig (hex_of_N n) [] (hex_clean_hexdig _ C) eq_refl).
  destruct (hex_of_N n); [congruence|]. simpl ltrim_ows. rewrite V. reflexivity.
Qed.

(* one chunk in front of a stream *)
Lemma dechunk_chunk o fuel c s : c <> [] ->
  dechunk o (S fuel) (emit_chunk c ++ s) =
  match dechunk o fuel s with
  | POk (body, tr, rest) => POk (c ++ body, tr, rest)
  | PErr e => PErr e
  end.
Proof.
  intros Hc. unfold emit_chunk. cbn [dechunk].
  destruct (hex_of_N_spec (N.of_nat (length c))) as (_ & C & _).
  change CRLF with [rCR; rLF]. rewrite <- !app_assoc.
  rewrite (read_line_crlf o _ _ (hex_clean_clean _ C)), parse_chunk_header_hex.
  destruct (N.of_nat (length c)) eqn:E; [destruct c; [congruence|discriminate]|].
  rewrite <- E.
  assert (L : (N.of_nat (length (c ++ [rCR; rLF] ++ s)) <? N.of_nat (length c) + 2)%N = false).
  { apply N.ltb_ge. rewrite !app_length. simpl. lia. }
  rewrite L. cbv zeta. rewrite Nat2N.id. rewrite firstn_app, PeanoNat.Nat.sub_diag, firstn_all, firstn_O, app_nil_r.
  rewrite skipn_app, PeanoNat.Nat.sub_diag, skipn_all. cbn [app skipn].
  change (byte_eqb rCR rCR && byte_eqb rLF rLF) with true. cbv iota. reflexivity.
Qed.

Lemma dechunk_last o fuel rest : dechunk o (S fuel) (LAST_CHUNK ++ rest) = POk ([], [], rest).
Proof.
  unfold LAST_CHUNK. cbn [dechunk].
  change ([x30; x0d; x0a; x0d; x0a] ++ rest) with ([x30] ++ [rCR; rLF] ++ ([rCR; rLF] ++ rest)).
  rewrite (read_line_crlf o [x30] _ eq_refl).
  change (parse_chunk_header [x30]) with (Some 0%N). cbv iota.
  change ([rCR; rLF] ++ rest) with (wire [] ++ [rCR; rLF] ++ rest).
  rewrite (head_lines_wire [] rest eq_refl). cbn [map clean_lines parse_fields rev].
  unfold clean_line. simpl. reflexivity.
Qed.

(* (c) the chunk stream of a list of non-empty chunks, followed by the last-chunk, is read back as their
   concatenation, with no trailers, and nothing of what follows is consumed *)
Theorem body_reframe_chunked o cs : forall fuel rest,
  Forall (fun c => c <> []) cs -> (length cs < fuel)%nat ->
  dechunk o fuel (concat (map emit_chunk cs) ++ LAST_CHUNK ++ rest) = POk (concat cs, [], rest).
Proof.
  induction cs as [|c cs IH]; intros fuel rest Hne Hf.
  - destruct fuel; [simpl in Hf; lia|]. apply dechunk_last.
  - inversion Hne; subst. destruct fuel; [simpl in Hf; lia|].
    cbn [map concat]. rewrite <- app_assoc. rewrite dechunk_chunk by assumption.
    rewrite IH; auto. simpl in Hf. lia.
Qed.

Lemma emit_chunk_length c : (1 <= length (emit_chunk c))%nat.
Proof. unfold emit_chunk. rewrite !app_length. simpl. lia. Qed.

Lemma chunks_length cs : (length cs <= length (concat (map emit_chunk cs)))%nat.
Proof.
  induction cs as [|c cs IH]; simpl; auto. rewrite app_length. pose proof (emit_chunk_length c). lia.
Qed.

(* as used by the reference message parser: read_body with its own fuel *)
Theorem body_reframe_read_body o cs rest :
  Forall (fun c => c <> []) cs ->
  read_body o BLChunked (concat (map emit_chunk cs) ++ LAST_CHUNK ++ rest) = POk (concat cs, [], rest).
Proof.
  intros H. unfold read_body. apply body_reframe_chunked; auto.
  rewrite !app_length. pose proof (chunks_length cs) as K.
  unfold Bytes.bytes, Bytes.byte in *. lia.
Qed.

(* the Content-Length case: a body sent raw is read back by its length *)
Theorem body_reframe_length o body rest :
  read_body o (BLLen (N.of_nat (length body))) (body ++ rest) = POk (body, [], rest).
Proof.
  unfold read_body.
  assert (L : (N.of_nat (length (body ++ rest)) <? N.of_nat (length body))%N = false)
    by (apply N.ltb_ge; rewrite app_length; lia).
  rewrite L. cbv zeta. rewrite Nat2N.id, firstn_app, PeanoNat.Nat.sub_diag, firstn_all, firstn_O, app_nil_r.
  rewrite skipn_app, PeanoNat.Nat.sub_diag, skipn_all. reflexivity.
Qed.
