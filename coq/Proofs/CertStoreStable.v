(* Proofs/CertStoreStable.v -- repeated requests for the same names get the same entry while
   it is cached (T3), with the exact guard for the empty-name truthiness finding. *)
From Coq Require Import List Bool Arith Lia.
From MV Require Import Base.Bytes Model.CertStore Proofs.CertStoreInv.
Import ListNotations.

Lemma lookup_first_app a b c :
  lookup_first (a ++ b) c = match lookup_first a c with Some x => Some x | None => lookup_first b c end.
Proof.
  induction a as [|k r IH]; simpl; [reflexivity|]. destruct (dict_get k c); [reflexivity | exact IH].
Qed.

Lemma lookup_first_ext keys c c' :
  (forall k, In k keys -> dict_get k c' = dict_get k c) -> lookup_first keys c' = lookup_first keys c.
Proof.
  induction keys as [|k r IH]; simpl; intros H; [reflexivity|].
  rewrite (H k (or_introl eq_refl)). destruct (dict_get k c); [reflexivity|].
  apply IH. intros k' Hk'. apply H. right. exact Hk'.
Qed.

Section Stable.
Variable cap : nat.
Variable truthy : bool.

(* what a generation does to the dict: set the key, then possibly drop one old generated entry *)
Lemma generate_certs st cn sans st' e :
  Inv cap st -> generate cap st cn sans = Some (st', e) ->
  let c' := dict_set (KGen cn sans) e (certs st) in
  certs st' = c'
  \/ (exists c s, certs st' = dict_filter_ne (EGen (next_gen st - cap) c s) c') /\ cap <= next_gen st.
Proof.
  intros I H. unfold generate in H. destruct (dummy_cert_ok cn); [|discriminate].
  inversion H; subst e; clear H. set (e := EGen (next_gen st) cn sans) in *.
  intros c'. subst st'. unfold expire. cbn [certs expire_queue next_gen].
  set (q := expire_queue st) in *. set (n := next_gen st) in *.
  assert (Hq : map gid q = seq (n - length q) (length q)) by apply I.
  assert (Hqn : length q <= n) by apply I.
  assert (Hqc : length q <= cap) by apply I.
  rewrite app_length. simpl length. destruct (cap <? length q + 1) eqn:E; [|left; reflexivity].
  apply Nat.ltb_lt in E. assert (L : length q = cap) by lia.
  destruct q as [|d q'] eqn:Q; cbn [app certs].
  - right. split; [|simpl in L; lia]. exists cn, sans. unfold e. replace (n - cap) with n by (simpl in L; lia). reflexivity.
  - right. split; [|lia].
    destruct (inv_q_gen _ _ I d) as [i [c [s Hd]]]; [fold q; rewrite Q; left; reflexivity|].
    exists c, s. subst d. simpl in Hq. injection Hq as Hi _. simpl in L.
    replace (n - cap) with i by lia. reflexivity.
Qed.

Lemma generate_custom_get st cn sans st' e n :
  Inv cap st -> generate cap st cn sans = Some (st', e) ->
  dict_get (KCustom n) (certs st') = dict_get (KCustom n) (certs st).
Proof.
  intros I H. destruct (generate_certs _ _ _ _ _ I H) as [C|[[c [s C]] _]]; rewrite C.
  - apply dict_get_set_other. discriminate.
  - rewrite dict_get_filter_same; [apply dict_get_set_other; discriminate|].
    intros e0 Hin. apply dict_set_in in Hin as [[Hk _]|Hin]; [discriminate|].
    destruct (inv_custom _ _ I _ _ Hin) as [i ->]. discriminate.
Qed.

Lemma generate_keeps st cn sans st' e K e0 :
  Inv cap st -> generate cap st cn sans = Some (st', e) ->
  dict_get K (dict_set (KGen cn sans) e (certs st)) = Some e0 ->
  S (next_gen st) - gid e0 <= cap ->
  dict_get K (certs st') = Some e0.
Proof.
  intros I H G Hc. destruct (generate_certs _ _ _ _ _ I H) as [C|[[c [s C]] Hn]]; rewrite C; [exact G|].
  apply dict_get_filter; [exact G|]. intros ->. cbn [gid] in Hc. lia.
Qed.

Lemma get_cert_cases st cn sans st' e :
  get_cert truthy cap st cn sans = Some (st', e) -> st' = st \/ generate cap st cn sans = Some (st', e).
Proof.
  unfold get_cert. destruct (lookup_first _ _) as [[k e0]|]; [|intros H; right; exact H].
  destruct (negb truthy || truthy_key k); intros H; [left; congruence | right; exact H].
Qed.

Lemma get_cert_custom_get st cn sans st' e n :
  Inv cap st -> get_cert truthy cap st cn sans = Some (st', e) ->
  dict_get (KCustom n) (certs st') = dict_get (KCustom n) (certs st).
Proof.
  intros I H. apply get_cert_cases in H as [->|H]; [reflexivity|]. eapply generate_custom_get; eauto.
Qed.

Lemma next_mono_step st o : Inv cap st -> next_gen st <= next_gen (fst (step truthy cap st o)).
Proof.
  intros I. destruct o as [i cn alt names|cn sans]; simpl; [lia|].
  destruct (get_cert truthy cap st cn sans) as [[st' e]|] eqn:G; simpl; [|lia].
  eapply get_cert_spec; eauto.
Qed.

Lemma next_mono_run ops st : Inv cap st -> next_gen st <= next_gen (run truthy cap ops st).
Proof.
  revert st. induction ops as [|o r IH]; intros st I; simpl; [lia|].
  etransitivity; [apply (next_mono_step st o I)|]. apply IH, Inv_step, I.
Qed.

(* ---- the request under study ---- *)
Variable cn : option name.
Variable sans : list san.

Definition custom_lookup (st : store) : option (key * entry) :=
  lookup_first (map KCustom (potential_names cn sans)) (certs st).

(* the finding: the first registered wildcard form of the request is the empty string *)
Definition empty_hit (st : store) : Prop := exists e, custom_lookup st = Some (KCustom [], e).

(* a custom registration that (re)binds one of the names the request looks up *)
Definition op_touches (o : op) : Prop :=
  match o with
  | AddCert _ c alt names => exists n, In n (registered_names c alt names) /\ In n (potential_names cn sans)
  | GetCert _ _ => False
  end.

Definition no_touch (ops : list op) : Prop := Forall (fun o => ~ op_touches o) ops.

Lemma get_cert_decomp st :
  get_cert truthy cap st cn sans =
  match custom_lookup st with
  | Some (k, e) => if negb truthy || truthy_key k then Some (st, e) else generate cap st cn sans
  | None => match dict_get (KGen cn sans) (certs st) with
            | Some e => Some (st, e)
            | None => generate cap st cn sans
            end
  end.
Proof.
  unfold get_cert, potential_keys, custom_lookup. rewrite lookup_first_app.
  destruct (lookup_first (map KCustom _) _) as [[k e]|]; [reflexivity|].
  simpl. destruct (dict_get (KGen cn sans) (certs st)); [|reflexivity].
  simpl. rewrite orb_true_r. reflexivity.
Qed.

Lemma custom_lookup_step st o :
  Inv cap st -> ~ op_touches o -> custom_lookup (fst (step truthy cap st o)) = custom_lookup st.
Proof.
  intros I Hn. unfold custom_lookup. apply lookup_first_ext. intros k Hk.
  apply in_map_iff in Hk as [n [<- Hin]].
  destruct o as [i c alt names|c s]; simpl.
  - destruct (add_cert_spec st i c alt names (inv_keys _ _ I)) as [_ [_ [G _]]]. apply G.
    intros n' Hn' E. inversion E; subst n'. apply Hn. simpl. exists n. split; assumption.
  - destruct (get_cert truthy cap st c s) as [[st' e]|] eqn:G; simpl; [|reflexivity].
    eapply get_cert_custom_get; eauto.
Qed.

Lemma custom_lookup_run ops st :
  Inv cap st -> no_touch ops -> custom_lookup (run truthy cap ops st) = custom_lookup st.
Proof.
  revert st. induction ops as [|o r IH]; intros st I H; simpl; [reflexivity|].
  inversion H as [|? ? Ho Hr]; subst.
  rewrite IH; [apply custom_lookup_step; assumption | apply Inv_step, I | exact Hr].
Qed.

(* one step keeps the cached generated entry of the request, as long as it is among the
   cap most recently generated ones afterwards *)
Lemma keep_step st o e :
  Inv cap st -> custom_lookup st = None -> dict_get (KGen cn sans) (certs st) = Some e ->
  next_gen (fst (step truthy cap st o)) - gid e <= cap -> ~ op_touches o ->
  dict_get (KGen cn sans) (certs (fst (step truthy cap st o))) = Some e.
Proof.
  intros I CL G Hc Hn. destruct o as [i c alt names|c s]; simpl in *.
  - destruct (add_cert_spec st i c alt names (inv_keys _ _ I)) as [_ [_ [A _]]].
    rewrite A; [exact G | intros n _; discriminate].
  - destruct (key_eqb (KGen c s) (KGen cn sans)) eqn:E.
    + apply key_eqb_eq in E. inversion E; subst c s.
      rewrite get_cert_decomp, CL, G. simpl. exact G.
    + assert (NE : KGen cn sans <> KGen c s).
      { intros E'. rewrite E', key_eqb_refl in E. discriminate. }
      destruct (get_cert truthy cap st c s) as [[st' e']|] eqn:GC; simpl in *; [|exact G].
      destruct (get_cert_cases _ _ _ _ _ GC) as [->|Hg]; [exact G|].
      destruct (generate_spec _ _ _ _ _ _ I Hg) as [_ [_ Hnx]].
      eapply generate_keeps; eauto.
      * rewrite dict_get_set_other; [exact G | exact NE].
      * rewrite Hnx in Hc. exact Hc.
Qed.

Lemma keep_run ops st e :
  Inv cap st -> custom_lookup st = None -> dict_get (KGen cn sans) (certs st) = Some e ->
  next_gen (run truthy cap ops st) - gid e <= cap -> no_touch ops ->
  dict_get (KGen cn sans) (certs (run truthy cap ops st)) = Some e.
Proof.
  revert st. induction ops as [|o r IH]; intros st I CL G Hc H; simpl in *; [exact G|].
  inversion H as [|? ? Ho Hr]; subst.
  assert (I1 := Inv_step cap truthy st o I).
  apply IH; try assumption.
  - rewrite custom_lookup_step; assumption.
  - apply keep_step; try assumption.
    pose proof (next_mono_run r _ I1). lia.
Qed.

Theorem stable pre mid st1 e :
  let st0 := run truthy cap pre empty_store in
  get_cert truthy cap st0 cn sans = Some (st1, e) ->
  let st2 := run truthy cap mid st1 in
  no_touch mid ->
  (truthy = true -> ~ empty_hit st0) ->
  (forall i c s, e = EGen i c s -> next_gen st2 - i <= cap) ->
  get_cert truthy cap st2 cn sans = Some (st2, e).
Proof.
  intros st0 H1 st2 NT Guard Fresh.
  assert (I0 : Inv cap st0) by apply Inv_reachable.
  assert (I1 : Inv cap st1) by (eapply get_cert_spec; eauto).
  assert (CL1 : custom_lookup st1 = custom_lookup st0).
  { unfold custom_lookup. apply lookup_first_ext. intros k Hk. apply in_map_iff in Hk as [n [<- _]].
    eapply get_cert_custom_get; eauto. }
  assert (CL2 : custom_lookup st2 = custom_lookup st0).
  { unfold st2. rewrite custom_lookup_run; assumption. }
  rewrite get_cert_decomp in H1. rewrite get_cert_decomp, CL2.
  destruct (custom_lookup st0) as [[k ec]|] eqn:CL.
  - destruct (negb truthy || truthy_key k) eqn:T.
    + inversion H1; subst. reflexivity.
    + exfalso. apply orb_false_iff in T as [T1 T2]. apply negb_false_iff in T1.
      apply (Guard T1). unfold custom_lookup in CL.
      destruct (lookup_first_some _ _ _ _ CL) as [Hin _].
      apply in_map_iff in Hin as [n [Hk _]]. subst k. simpl in T2. destruct n; [|discriminate].
      exists ec. exact CL.
  - assert (Keep : forall sA, Inv cap sA -> custom_lookup sA = None ->
                   dict_get (KGen cn sans) (certs sA) = Some e ->
                   run truthy cap mid sA = st2 -> dict_get (KGen cn sans) (certs st2) = Some e).
    { intros sA IA CA GA <-. apply keep_run; try assumption.
      destruct (inv_gen _ _ IA _ _ _ (dict_get_in _ _ _ GA)) as [[i Hi] _].
      rewrite Hi. simpl. apply (Fresh i cn sans Hi). }
    destruct (dict_get (KGen cn sans) (certs st0)) as [e1|] eqn:G.
    + inversion H1; subst st1 e1. rewrite (Keep st0 I0 CL G eq_refl). reflexivity.
    + destruct (generate_spec _ _ _ _ _ _ I0 H1) as [_ [He Hnx]].
      assert (G1 : dict_get (KGen cn sans) (certs st1) = Some e).
      { apply (generate_keeps st0 cn sans st1 e (KGen cn sans) e I0 H1 (dict_get_set_same _ _ _)).
        rewrite He. cbn [gid]. pose proof (next_mono_run mid _ I1) as M. fold st2 in M.
        pose proof (Fresh _ _ _ He). lia. }
      rewrite (Keep st1 I1 CL1 G1 eq_refl). reflexivity.
Qed.

End Stable.
