(* Proofs/SaveStream.v -- the stream file is complete after every option change (successful,
   failed + rolled back) and every finished flow. *)
From Coq Require Import List Bool Arith Lia.
From MV Require Import Model.SaveStream.
Import ListNotations.

Section P.
  Variable openable : nat -> bool.

  (* writer, current_path and option agree *)
  Definition inv (s : sstate) : Prop :=
    crashed s = false /\
    match opt s with
    | Some sp => strm s = Some (sp_path sp) /\ cur s = Some (sp_path sp)
    | None => strm s = None /\ cur s = None
    end.

  Lemma with_opt_same s : with_opt s (opt s) = s.
  Proof. destruct s; reflexivity. Qed.

  Lemma configure_inv_noop s : inv s -> configure openable s = Some s.
  Proof.
    intros [Hc H]. unfold configure, maybe_rotate, done. destruct (opt s) as [sp|] eqn:E.
    - destruct H as [H1 H2]. rewrite H2, Nat.eqb_refl. reflexivity.
    - destruct H as [H1 H2]. rewrite H1. reflexivity.
  Qed.

  (* an option change whose target cannot be opened is rejected and changes NOTHING:
     not the files, not the writer, not current_path, not the option *)
  Theorem failed_change_is_noop s o :
    inv s -> configure openable (with_opt s o) = None ->
    set_option openable o s = (s, true).
  Proof.
    intros Hi Hf. unfold set_option. rewrite Hf, with_opt_same, configure_inv_noop by exact Hi. reflexivity.
  Qed.

  (* one update with a new file AND an unparsable filter is rejected before the file is touched *)
  Theorem bad_filter_is_noop s o : inv s -> set_option_bad_filter openable o s = (s, true).
  Proof.
    intros Hi. unfold set_option_bad_filter.
    assert (E : with_opt (with_opt s o) (opt s) = s) by (destruct s; reflexivity).
    rewrite E, configure_inv_noop by exact Hi. reflexivity.
  Qed.

  Lemma set_option_inv s o : inv s -> inv (fst (set_option openable o s)).
  Proof.
    intros Hi. destruct (configure openable (with_opt s o)) as [s2|] eqn:E.
    - unfold set_option. rewrite E. cbn [fst].
      destruct Hi as [Hc H]. unfold configure in E. cbn [opt with_opt] in E.
      destruct o as [sp|].
      + unfold maybe_rotate in E. cbn [opt cur with_opt] in E.
        destruct (match cur s with Some c => Nat.eqb c (sp_path sp) | None => false end) eqn:Ec.
        * injection E as <-. split; [exact Hc|]. cbn [opt with_opt strm cur].
          destruct (cur s) as [c|] eqn:Ecur; [|discriminate]. apply Nat.eqb_eq in Ec. subst c.
          destruct (opt s) as [sp0|]; destruct H as [H1 H2]; [|discriminate].
          injection H2 as H2. rewrite H1, H2. split; reflexivity.
        * destruct (openable (sp_path sp)); [|discriminate]. injection E as <-.
          split; [exact Hc|]. cbn. split; reflexivity.
      + injection E as <-. split; [unfold done; cbn; destruct (strm s); exact Hc|].
        unfold done. cbn [with_opt strm]. destruct (strm s) eqn:Es; cbn.
        * split; reflexivity.
        * destruct (opt s); destruct H as [H1 H2]; [congruence|]. split; [exact Es|exact H2].
    - rewrite (failed_change_is_noop s o Hi E). exact Hi.
  Qed.

  (* the end hook appends exactly this flow to the current stream file, touches no other file,
     never exits *)
  Theorem save_flow_appends s r : inv s ->
    save_flow openable r s =
      match strm s with
      | Some p => {| opt := opt s; cur := cur s; strm := strm s; fs := upd (fs s) p (fs s p ++ [r]); crashed := false |}
      | None => s
      end.
  Proof.
    intros [Hc H]. destruct s as [o c st f cr]. cbn in *. subst cr. unfold save_flow, maybe_rotate. cbn.
    destruct o as [sp|]; destruct H as [H1 H2]; subst; cbn; [|reflexivity].
    rewrite Nat.eqb_refl. reflexivity.
  Qed.

  Lemma save_flow_inv s r : inv s -> inv (save_flow openable r s).
  Proof.
    intros Hi. rewrite save_flow_appends by exact Hi. destruct Hi as [Hc H].
    destruct s as [o c st f cr]. cbn in *. destruct st; split; cbn; auto.
  Qed.

  Lemma step_inv s e : inv s -> inv (fst (step openable s e)).
  Proof.
    destruct e; cbn [step fst]; auto using set_option_inv, save_flow_inv.
    intros Hi. now rewrite bad_filter_is_noop.
  Qed.

  Lemma run_inv evs : forall s, inv s -> inv (run openable s evs).
  Proof. induction evs as [|e r IH]; intros s Hi; cbn [run]; auto using step_inv. Qed.

  Lemma upd_ext f g p v : (forall q, f q = g q) -> forall q, upd f p v q = upd g p v q.
  Proof. intros H q. unfold upd. destruct (Nat.eqb q p); auto. Qed.

  (* all event sequences: the disk holds exactly what the reference says *)
  Lemma run_reference evs : forall s f,
    inv s -> (forall q, fs s q = f q) ->
    forall q, fs (run openable s evs) q = reference openable evs (opt s) f q.
  Proof.
    induction evs as [|e r IH]; intros s f Hi Hf q; cbn [run reference]; [apply Hf|].
    destruct e as [o|o|x]; cbn [step fst].
    2:{ rewrite (bad_filter_is_noop s o Hi). cbn [fst]. now apply IH. }
    - pose proof (set_option_inv s o Hi) as Hi2.
      destruct (configure openable (with_opt s o)) as [s2|] eqn:E.
      + assert (Es : fst (set_option openable o s) = s2) by (unfold set_option; rewrite E; reflexivity).
        rewrite Es in *. destruct Hi as [Hc H].
        unfold configure in E. cbn [opt with_opt] in E. destruct o as [sp|].
        * unfold maybe_rotate in E. cbn [opt cur with_opt] in E.
          assert (Ecur : match cur s with Some c => Nat.eqb c (sp_path sp) | None => false end
                         = match opt s with Some c0 => Nat.eqb (sp_path c0) (sp_path sp) | None => false end).
          { destruct (opt s); destruct H as [H1 H2]; rewrite H2; reflexivity. }
          rewrite Ecur in E.
          destruct (match opt s with Some c0 => Nat.eqb (sp_path c0) (sp_path sp) | None => false end).
          -- injection E as <-. rewrite (IH _ f Hi2 Hf). reflexivity.
          -- destruct (openable (sp_path sp)); [|discriminate]. injection E as <-.
             rewrite (IH _ (upd f (sp_path sp) (if sp_append sp then f (sp_path sp) else [])) Hi2).
             ++ reflexivity.
             ++ cbn [fs]. rewrite (Hf (sp_path sp)). apply upd_ext, Hf.
        * injection E as <-. rewrite (IH _ f Hi2).
          -- unfold done. cbn [with_opt strm]. destruct (strm s); reflexivity.
          -- unfold done. cbn [with_opt strm]. destruct (strm s); exact Hf.
      + rewrite (failed_change_is_noop s o Hi E) in *. cbn [fst] in *.
        rewrite (IH s f Hi2 Hf).
        unfold configure in E. cbn [opt with_opt] in E. destruct o as [sp|]; [|discriminate].
        unfold maybe_rotate in E. cbn [opt cur with_opt] in E. destruct Hi as [Hc H].
        assert (Ecur : match cur s with Some c => Nat.eqb c (sp_path sp) | None => false end
                       = match opt s with Some c0 => Nat.eqb (sp_path c0) (sp_path sp) | None => false end).
        { destruct (opt s); destruct H as [H1 H2]; rewrite H2; reflexivity. }
        rewrite Ecur in E.
        destruct (match opt s with Some c0 => Nat.eqb (sp_path c0) (sp_path sp) | None => false end); [discriminate|].
        destruct (openable (sp_path sp)); [discriminate|]. reflexivity.
    - pose proof (save_flow_inv s x Hi) as Hi2.
      rewrite save_flow_appends in * by exact Hi. destruct Hi as [Hc H].
      destruct (opt s) as [sp|] eqn:Eo; destruct H as [H1 H2]; rewrite H1 in *.
      + rewrite (IH _ (upd f (sp_path sp) (f (sp_path sp) ++ [x])) Hi2).
        * reflexivity.
        * cbn [fs]. rewrite (Hf (sp_path sp)). apply upd_ext, Hf.
      + rewrite (IH _ f Hi2 Hf). rewrite ?Eo. reflexivity.
  Qed.

  Theorem stream_files_complete f evs :
    crashed (run openable (init_state f) evs) = false
    /\ forall q, fs (run openable (init_state f) evs) q = reference openable evs None f q.
  Proof.
    assert (Hi : inv (init_state f)) by (split; [reflexivity|cbn; split; reflexivity]).
    split; [apply (run_inv evs _ Hi) | apply (run_reference evs _ f Hi); reflexivity].
  Qed.

  Theorem reachable_failed_change_is_noop f evs o :
    let s := run openable (init_state f) evs in
    configure openable (with_opt s o) = None -> set_option openable o s = (s, true).
  Proof.
    intros s. apply failed_change_is_noop. apply run_inv. split; [reflexivity|cbn; split; reflexivity].
  Qed.

  Theorem reachable_bad_filter_is_noop f evs o :
    let s := run openable (init_state f) evs in set_option_bad_filter openable o s = (s, true).
  Proof. intros s. apply bad_filter_is_noop. apply run_inv. split; [reflexivity|cbn; split; reflexivity]. Qed.

  Theorem reachable_save_flow_appends f evs r :
    let s := run openable (init_state f) evs in
    save_flow openable r s =
      match strm s with
      | Some p => {| opt := opt s; cur := cur s; strm := strm s; fs := upd (fs s) p (fs s p ++ [r]); crashed := false |}
      | None => s
      end.
  Proof.
    intros s. apply save_flow_appends. apply run_inv. split; [reflexivity|cbn; split; reflexivity].
  Qed.
End P.

(* non-vacuity: path 3 cannot be opened; two flows, rejected change, a third flow *)
Definition ex_open (p : nat) : bool := negb (Nat.eqb p 3).
Definition ex_events : list sev :=
  [SetOpt (Some {| sp_append := false; sp_path := 0 |}); Finish 1; Finish 2;
   SetOpt (Some {| sp_append := false; sp_path := 3 |}); Finish 4].
Lemma ex_run :
  let s := run ex_open (init_state (fun _ => [])) ex_events in
  fs s 0 = [1; 2; 4] /\ fs s 3 = [] /\ strm s = Some 0
  /\ snd (step ex_open (run ex_open (init_state (fun _ => [])) (firstn 3 ex_events)) (SetOpt (Some {| sp_append := false; sp_path := 3 |}))) = true.
Proof. vm_compute. repeat split; reflexivity. Qed.
