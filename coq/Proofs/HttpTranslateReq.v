(* Proofs/HttpTranslateReq.v -- C06, request direction HTTP/2 -> HTTP/1: every header block that the h2 contract
   and mitmproxy accept is written upstream as exactly one HTTP/1 request with the same method, path, fields
   (Host from :authority, cookies joined) and body, under every recipient option of the reference reader. *)
From Coq Require Import List Bool NArith ZArith Lia.
From MV Require Import Base.Bytes Model.Http1Msg Model.Rfc9112 Model.HttpTranslate
  Proofs.Http1Lines Proofs.Http1Roundtrip Proofs.Http1Chunks Proofs.HttpTranslateBase.
Import ListNotations.

(* ---------- what the two validations give for each regular field *)
Definition fieldok (f : header) : Prop :=
  is_token (fst f) = true /\ h2_value_ok (snd f) = true /\ lower (fst f) = fst f
  /\ mem (fst f) CONNECTION_HEADERS = false.

Lemma h2_validate_all r t h : h2_validate r t h = true ->
  Forall (fun f => h2_name_ok (fst f) = true /\ h2_value_ok (snd f) = true /\ h2_field_ok f = true) h.
Proof.
  unfold h2_validate. intros H. repeat (apply andb_true_iff in H as [H ?]).
  unfold h2_chars_ok in H. rewrite forallb_forall in H.
  match goal with X : forallb h2_field_ok h = true |- _ => rewrite forallb_forall in X; rename X into G end.
  apply Forall_forall. intros f Hf. specialize (H f Hf). apply andb_true_iff in H as [Xa Xb]. auto.
Qed.

Lemma name_ok_not_lf n c r : h2_name_ok n = true -> rev n = c :: r -> byte_eqb c x0a = false.
Proof.
  unfold h2_name_ok. intros H E. apply andb_true_iff in H as [H _]. rewrite forallb_forall in H.
  assert (I : In c n) by (apply in_rev; rewrite E; left; reflexivity).
  specialize (H c I). destruct (byte_eqb c x0a) eqn:X; [|reflexivity].
  apply byte_eqb_eq in X. subst c. discriminate H.
Qed.

Lemma valid_name_token n : valid_header_name n = true -> h2_name_ok n = true -> is_token n = true.
Proof.
  unfold valid_header_name. intros V H. destruct (rev n) as [|c r] eqn:E; [discriminate|].
  rewrite (name_ok_not_lf n c r H E) in V.
  unfold is_token. destruct n as [|c0 n]; [discriminate|].
  rewrite forallb_forall in *. intros x Hx. rewrite <- method_char_is_tchar. auto.
Qed.

Lemma validate_ok h : validate_headers h = VOk ->
  Forall (fun f => valid_header_name (fst f) = true) h /\ get_all TRANSFER_ENCODING h = []
  /\ (get_all CONTENT_LENGTH h = [] \/ exists cl, get_all CONTENT_LENGTH h = [cl]).
Proof.
  unfold validate_headers. intros H.
  destruct (forallb (fun f => valid_header_name (fst f) && negb (existsb is_bad_value_char (snd f))) h) eqn:A; [|discriminate].
  cbn [negb] in H. split.
  - rewrite forallb_forall in A. apply Forall_forall. intros f Hf. specialize (A f Hf). apply andb_true_iff in A as [A _]. exact A.
  - destruct (get_all TRANSFER_ENCODING h); [|discriminate]. split; [reflexivity|].
    destruct (get_all CONTENT_LENGTH h) as [|cl [|]]; [left; reflexivity | right; eexists; reflexivity | discriminate].
Qed.

Lemma fieldok_of h : Forall (fun f => h2_name_ok (fst f) = true /\ h2_value_ok (snd f) = true /\ h2_field_ok f = true) h ->
  Forall (fun f => valid_header_name (fst f) = true) h -> Forall fieldok h.
Proof.
  intros A B. rewrite Forall_forall in *. intros f Hf. destruct (A f Hf) as (N & V & K). specialize (B f Hf).
  unfold fieldok. split; [apply valid_name_token; assumption|]. split; [exact V|]. split.
  - apply h2_name_lower. unfold h2_name_ok in N. apply andb_true_iff in N as [N _]. exact N.
  - unfold h2_field_ok in K. apply andb_true_iff in K as [_ K]. apply negb_true_iff in K. exact K.
Qed.

Lemma fieldok_inv f : fieldok f -> field_inv f.
Proof.
  intros (T & V & _ & _). destruct (h2_value_vok _ V) as [C W]. unfold field_inv. auto.
Qed.

(* ---------- parse_h2_request_headers *)
Lemma parse_req_spec pa h r : parse_h2_request_headers pa h = Some r ->
  exists q, h = q ++ hq_fields r /\ Forall (fun x => is_pseudo (fst x) = true) q
    /\ In (P_METHOD, hq_method r) q /\ In (P_SCHEME, hq_scheme r) q /\ In (P_PATH, hq_path r) q
    /\ (hq_authority r = [] \/ In (P_AUTHORITY, hq_authority r) q)
    /\ valid_method (hq_method r) = true /\ valid_path (hq_path r) = true.
Proof.
  unfold parse_h2_request_headers. intros H.
  destruct (split_pseudo_headers h []) as [[pseudo fields]|] eqn:S; [|discriminate].
  destruct (split_pseudo_spec _ _ _ _ S) as (q & E1 & E2 & F & _). cbn [app] in E1. subst pseudo.
  destruct (dict_pop P_METHOD q) as [[m|] p1] eqn:D1; [|discriminate].
  destruct (dict_pop P_SCHEME p1) as [[s|] p2] eqn:D2; [|discriminate].
  destruct (dict_pop P_PATH p2) as [[p|] p3] eqn:D3; [|discriminate].
  destruct (dict_pop P_AUTHORITY p3) as [oa p4] eqn:D4.
  destruct p4; [|discriminate].
  destruct (valid_method m) eqn:VM; [|discriminate]. destruct (valid_path p) eqn:VP; [|discriminate].
  cbn [negb] in H.
  destruct (dict_pop_in _ _ _ _ D1) as [I1 S1]. destruct (dict_pop_in _ _ _ _ D2) as [I2 S2].
  destruct (dict_pop_in _ _ _ _ D3) as [I3 S3].
  match type of H with (if ?c then _ else _) = _ => destruct c; [discriminate|] end.
  injection H as <-. cbn [hq_fields hq_method hq_scheme hq_path hq_authority].
  exists q. repeat split; auto.
  destruct oa as [a|]; [|left; reflexivity]. destruct a as [|a0 a]; [left; reflexivity|].
  right. destruct (dict_pop_in _ _ _ _ D4) as [I4 _]. auto.
Qed.

(* ---------- the field list that is written *)
Definition h1_fields (r : h2_request) : headers := rq_headers (h1_of_h2_request r).

Definition cookie_guard (h : headers) : Prop :=
  match get_all N_COOKIE h with (_ :: _ :: _) as l => last l [] <> [] | _ => True end.

Lemma clean_join vs : Forall (fun v => clean v = true) vs -> clean (join_semi vs) = true.
Proof.
  induction 1 as [|v vs Hv _ IH]; [reflexivity|]. destruct vs as [|v2 vs]; [exact Hv|].
  change (join_semi (v :: v2 :: vs)) with (v ++ SEMI_SP ++ join_semi (v2 :: vs)).
  rewrite !clean_app, Hv, IH. reflexivity.
Qed.

Lemma join_head vs : vs <> [] -> Forall (fun v => h2_value_ok v = true) vs ->
  match join_semi vs with [] => True | c :: _ => is_ows c = false end.
Proof.
  intros NE F. destruct vs as [|v vs]; [congruence|]. inversion F as [|? ? Hv _]; subst.
  assert (K : match v with [] => True | c :: _ => is_ows c = false end).
  { unfold h2_value_ok in Hv. destruct v as [|c v]; [exact I|]. apply andb_true_iff in Hv as [Hv _].
    apply andb_true_iff in Hv as [_ Hv]. apply negb_true_iff in Hv. exact Hv. }
  destruct vs as [|v2 vs]; [exact K|].
  change (join_semi (v :: v2 :: vs)) with (v ++ SEMI_SP ++ join_semi (v2 :: vs)).
  destruct v as [|c v]; [reflexivity | exact K].
Qed.

Lemma last_app_ne {A} (a b : list A) d : b <> [] -> last (a ++ b) d = last b d.
Proof.
  intros NE. induction a as [|x a IH]; [reflexivity|]. cbn [app]. destruct (a ++ b) as [|y l] eqn:E.
  - exfalso. destruct a; [cbn in E; congruence | discriminate].
  - change (last (x :: y :: l) d) with (last (y :: l) d). exact IH.
Qed.

Lemma join_last vs d : Forall (fun v => h2_value_ok v = true) vs -> last vs [] <> [] ->
  join_semi vs <> [] /\ is_ows (last (join_semi vs) d) = false.
Proof.
  induction vs as [|v vs IH]; intros F L; [cbn in L; congruence|].
  inversion F as [|? ? Hv Fv]; subst. destruct vs as [|v2 vs].
  - cbn [last] in L. cbn [join_semi]. split; [exact L|].
    unfold h2_value_ok in Hv. destruct v as [|c v]; [congruence|]. apply andb_true_iff in Hv as [_ Hv].
    apply negb_true_iff in Hv. rewrite (last_cons_indep v c d c). exact Hv.
  - change (last (v :: v2 :: vs) []) with (last (v2 :: vs) []) in L. destruct (IH Fv L) as [NE Hl].
    change (join_semi (v :: v2 :: vs)) with (v ++ SEMI_SP ++ join_semi (v2 :: vs)). split.
    + destruct v; discriminate.
    + rewrite app_assoc. rewrite last_app_ne by exact NE. exact Hl.
Qed.

Lemma join_vok vs : Forall (fun v => h2_value_ok v = true) vs -> last vs [] <> [] -> vok (join_semi vs).
Proof.
  intros F L. assert (NE : vs <> []) by (destruct vs; [cbn in L; congruence | discriminate]).
  split.
  - apply clean_join. rewrite Forall_forall in *. intros v Hv. apply h2_value_vok. auto.
  - unfold trim_ows. rewrite ltrim_id by (apply join_head; assumption).
    destruct (join_last vs x00 F L) as [N1 N2]. apply (rtrim_id _ x00); assumption.
Qed.

Lemma forall_get_all (P : bytes -> Prop) key h : Forall (fun f => P (snd f)) h -> Forall P (get_all key h).
Proof.
  intros F. rewrite get_all_filter. apply Forall_forall. intros v Hv. apply in_map_iff in Hv as (f & <- & Hf).
  apply filter_In in Hf as [Hf _]. rewrite Forall_forall in F. auto.
Qed.

Section Fields.
  Variable r : h2_request.
  Hypothesis F0 : Forall fieldok (hq_fields r).
  Hypothesis NoTE : get_all TRANSFER_ENCODING (hq_fields r) = [].
  Hypothesis AuthOk : hq_authority r = [] \/ h2_value_ok (hq_authority r) = true.

  Let h0 := hq_fields r.
  Let h1 := if negb (hcontains N_HOST_CAP h0) && match hq_authority r with [] => false | _ => true end
            then (N_HOST_CAP, hq_authority r) :: h0 else h0.
  Let h3 := match get_all N_COOKIE h1 with _ :: _ :: _ => hset N_COOKIE (join_semi (get_all N_COOKIE h1)) h1 | _ => h1 end.

  Definition fok2 (f : header) : Prop := is_token (fst f) = true /\ h2_value_ok (snd f) = true.

  Lemma h1_ok : Forall fok2 h1.
  Proof.
    assert (A : Forall fok2 h0).
    { eapply Forall_impl; [|exact F0]. intros f (T & V & _). split; assumption. }
    subst h1. destruct (negb (hcontains N_HOST_CAP h0) && match hq_authority r with [] => false | _ => true end) eqn:E; [|exact A].
    constructor; [|exact A]. split; [reflexivity|]. cbn [snd].
    destruct AuthOk as [X|X]; [|exact X]. rewrite X in E. rewrite andb_false_r in E. discriminate.
  Qed.

  Lemma filter_h1 k : k <> N_HOST -> filter (name_ci k) h1 = filter (name_ci k) h0.
  Proof.
    intros N. subst h1. destruct (negb (hcontains N_HOST_CAP h0) && match hq_authority r with [] => false | _ => true end); [|reflexivity].
    cbn [filter]. unfold name_ci at 1. cbn [fst].
    destruct (bytes_eqb (lower N_HOST_CAP) k) eqn:E; [|reflexivity].
    apply bytes_eqb_eq in E. exfalso. apply N. rewrite <- E. reflexivity.
  Qed.

  Lemma cookies_h1 : get_all N_COOKIE h1 = get_all N_COOKIE h0.
  Proof. rewrite !get_all_filter. change (lower N_COOKIE) with N_COOKIE. rewrite filter_h1 by discriminate. reflexivity. Qed.

  Lemma filter_h3_gen k : k <> N_COOKIE -> filter (name_ci k) h3 = filter (name_ci k) h1.
  Proof.
    intros N2. subst h3. destruct (get_all N_COOKIE h1) as [|c1 [|c2 cs]] eqn:E; try reflexivity.
    unfold hset. change (lower N_COOKIE) with N_COOKIE.
    assert (NE : filter (name_ci N_COOKIE) h1 <> []).
    { rewrite get_all_filter in E. change (lower N_COOKIE) with N_COOKIE in E. intros X. rewrite X in E. discriminate. }
    destruct (hset_go_some N_COOKIE (join_semi (c1 :: c2 :: cs)) h1 NE) as [res H]. rewrite H.
    apply (hset_go_other _ _ k N2 _ _ H).
  Qed.

  Lemma filter_h3 k : k <> N_HOST -> k <> N_COOKIE -> filter (name_ci k) h3 = filter (name_ci k) h0.
  Proof. intros N1 N2. rewrite filter_h3_gen by exact N2. apply filter_h1. exact N1. Qed.

  Lemma te_h3 : field_values r_te h3 = [].
  Proof.
    rewrite field_values_filter. change r_te with TRANSFER_ENCODING. rewrite filter_h3 by discriminate.
    fold h0 in NoTE. rewrite get_all_filter in NoTE. change (lower TRANSFER_ENCODING) with TRANSFER_ENCODING in NoTE. exact NoTE.
  Qed.

  Lemma cl_h3 : field_values r_cl h3 = get_all CONTENT_LENGTH h0.
  Proof.
    rewrite field_values_filter, get_all_filter. change r_cl with CONTENT_LENGTH. change (lower CONTENT_LENGTH) with CONTENT_LENGTH.
    rewrite filter_h3 by discriminate. reflexivity.
  Qed.

  Lemma host_h3 : field_values N_HOST h3
    = if negb (hcontains N_HOST_CAP h0) && match hq_authority r with [] => false | _ => true end
      then [hq_authority r] else field_values N_HOST h0.
  Proof.
    rewrite !field_values_filter, filter_h3_gen by discriminate. subst h1.
    destruct (negb (hcontains N_HOST_CAP h0)) eqn:E; cbn [andb]; [|reflexivity].
    destruct (hq_authority r) as [|a0 a]; [reflexivity|].
    apply negb_true_iff in E. apply hcontains_false in E. change (lower N_HOST_CAP) with N_HOST in E.
    cbn [filter]. rewrite E. reflexivity.
  Qed.

  Lemma filter_neg_self lk (h : headers) : filter (name_ci lk) (filter (fun g => negb (name_ci lk g)) h) = [].
  Proof.
    induction h as [|f h IH]; [reflexivity|]. cbn [filter]. destruct (name_ci lk f) eqn:E; cbn [negb]; [exact IH|].
    cbn [filter]. rewrite E. exact IH.
  Qed.

  Lemma hset_go_self lk v : forall h res, hset_go lk v h = Some res -> map snd (filter (name_ci lk) res) = [v].
  Proof.
    induction h as [|f h IH]; intros res H; [discriminate|]. cbn [hset_go] in H. destruct (name_ci lk f) eqn:E.
    - injection H as <-. cbn [filter]. unfold name_ci at 1. cbn [fst]. unfold name_ci in E. rewrite E.
      rewrite filter_neg_self. reflexivity.
    - destruct (hset_go lk v h) as [r'|] eqn:E2; [|discriminate]. injection H as <-. cbn [filter]. rewrite E. apply IH. reflexivity.
  Qed.

  Lemma cookie_h3 : field_values N_COOKIE h3
    = match get_all N_COOKIE h0 with (_ :: _ :: _) as l => [join_semi l] | l => l end.
  Proof.
    rewrite <- cookies_h1. rewrite field_values_filter. subst h3.
    destruct (get_all N_COOKIE h1) as [|c1 [|c2 cs]] eqn:E; try (rewrite get_all_filter in E; exact E).
    unfold hset. change (lower N_COOKIE) with N_COOKIE.
    assert (NE : filter (name_ci N_COOKIE) h1 <> []).
    { rewrite get_all_filter in E. change (lower N_COOKIE) with N_COOKIE in E. intros X. rewrite X in E. discriminate. }
    destruct (hset_go_some N_COOKIE (join_semi (c1 :: c2 :: cs)) h1 NE) as [res H]. rewrite H.
    apply (hset_go_self _ _ _ _ H).
  Qed.

  Hypothesis CG : cookie_guard h0.

  Lemma h3_inv : Forall field_inv h3.
  Proof.
    assert (B : Forall field_inv h1).
    { eapply Forall_impl; [|exact h1_ok]. intros f [T V]. destruct (h2_value_vok _ V). unfold field_inv. auto. }
    subst h3. unfold cookie_guard in CG. rewrite <- cookies_h1 in CG.
    destruct (get_all N_COOKIE h1) as [|c1 [|c2 cs]] eqn:E; try exact B.
    assert (J : vok (join_semi (c1 :: c2 :: cs))).
    { apply join_vok; [|exact CG]. rewrite <- E. apply forall_get_all.
      eapply Forall_impl; [|exact h1_ok]. intros f [_ V]. exact V. }
    unfold hset. change (lower N_COOKIE) with N_COOKIE.
    destruct (hset_go N_COOKIE (join_semi (c1 :: c2 :: cs)) h1) as [res|] eqn:H.
    - apply (hset_go_forall field_inv N_COOKIE (join_semi (c1 :: c2 :: cs)) h1 res B); [|exact H].
      intros f Hf. rewrite Forall_forall in B. destruct (B f Hf) as (T & _ & _). destruct J. unfold field_inv. auto.
    - apply Forall_app. split; [exact B|]. constructor; [|constructor]. destruct J. unfold field_inv. auto.
  Qed.

  Lemma F_host : field_values N_HOST (h1_fields r)
    = if negb (hcontains N_HOST_CAP (hq_fields r)) && match hq_authority r with [] => false | _ => true end
      then [hq_authority r] else field_values N_HOST (hq_fields r).
  Proof. exact host_h3. Qed.
  Lemma F_cookie : field_values N_COOKIE (h1_fields r)
    = match get_all N_COOKIE (hq_fields r) with (_ :: _ :: _) as l => [join_semi l] | l => l end.
  Proof. exact cookie_h3. Qed.
  Lemma F_other k : k <> N_HOST -> k <> N_COOKIE ->
    filter (name_ci k) (h1_fields r) = filter (name_ci k) (hq_fields r).
  Proof. exact (filter_h3 k). Qed.
  Lemma F_inv : Forall field_inv (h1_fields r).
  Proof. exact h3_inv. Qed.
  Lemma F_te : field_values r_te (h1_fields r) = [].
  Proof. exact te_h3. Qed.
  Lemma F_cl : field_values r_cl (h1_fields r) = get_all CONTENT_LENGTH (hq_fields r).
  Proof. exact cl_h3. Qed.
End Fields.

(* ---------- pseudo-header names are never one of the regular names we filter by *)
Lemma pseudo_not k n v : is_pseudo n = true -> match k with c :: _ => byte_eqb c COLON = false | [] => True end ->
  name_ci k (n, v) = false.
Proof.
  unfold is_pseudo, name_ci. destruct n as [|c n]; [discriminate|]. intros P K. apply byte_eqb_eq in P. subst c.
  cbn [fst lower map]. destruct k as [|c k]; [reflexivity|]. cbn [bytes_eqb].
  change (to_lower COLON) with COLON. rewrite byte_eqb_neq in K. destruct (byte_eqb COLON c) eqn:X; [|reflexivity].
  apply byte_eqb_eq in X. congruence.
Qed.

Lemma filter_pseudo_prefix k q (f : headers) : Forall (fun x => is_pseudo (fst x) = true) q ->
  match k with c :: _ => byte_eqb c COLON = false | [] => True end ->
  filter (name_ci k) (q ++ f) = filter (name_ci k) f.
Proof.
  intros F K. induction F as [|[n v] q P _ IH]; [reflexivity|]. cbn [app filter].
  rewrite (pseudo_not k n v P K). exact IH.
Qed.

Lemma exact_filter_lower k (fs : headers) : Forall (fun f => lower (fst f) = fst f) fs ->
  filter (fun f => bytes_eqb (fst f) k) fs = filter (name_ci k) fs.
Proof.
  intros F. apply filter_ext_in. intros f Hf. rewrite Forall_forall in F. unfold name_ci. rewrite (F f Hf). reflexivity.
Qed.

Lemma exact_pseudo_prefix k q (f : headers) : Forall (fun x => is_pseudo (fst x) = true) q ->
  match k with c :: _ => byte_eqb c COLON = false | [] => True end ->
  filter (fun x => bytes_eqb (fst x) k) (q ++ f) = filter (fun x => bytes_eqb (fst x) k) f.
Proof.
  intros F K. induction F as [|[n v] q P _ IH]; [reflexivity|]. cbn [app filter fst].
  unfold is_pseudo in P. destruct n as [|c n]; [discriminate|]. apply byte_eqb_eq in P. subst c.
  destruct k as [|c k]; [exact IH|]. cbn [bytes_eqb]. rewrite byte_eqb_neq in K.
  destruct (byte_eqb COLON c) eqn:X; [apply byte_eqb_eq in X; congruence|]. exact IH.
Qed.

(* ---------- strip_expect keeps what matters *)
Lemma strip_expect_forall (P : header -> Prop) h : Forall P h -> Forall P (strip_expect h).
Proof.
  intros F. unfold strip_expect. destruct (bytes_eqb _ _); [|exact F]. unfold hdel.
  apply Forall_forall. intros f Hf. apply filter_In in Hf as [Hf _]. rewrite Forall_forall in F. auto.
Qed.

Lemma strip_expect_filter k h : k <> N_EXPECT -> filter (name_ci k) (strip_expect h) = filter (name_ci k) h.
Proof.
  intros N. unfold strip_expect. destruct (bytes_eqb _ _); [|reflexivity]. unfold hdel.
  change (lower N_EXPECT) with N_EXPECT. apply filter_filter_other. exact N.
Qed.

(* ---------- body framing as the reference reader sees it *)
Lemma list_elements_digits cl : all_digits cl = true -> list_elements [cl] = [cl].
Proof.
  intros D. destruct (digits_vok cl D) as [[_ W] NE]. unfold list_elements. cbn [map concat].
  unfold all_digits in D. destruct cl as [|c0 cl]; [discriminate|].
  rewrite (split_comma_nocomma (c0 :: cl) [] D). cbn [rev app map]. rewrite W. reflexivity.
Qed.

Lemma skip_empty_first c s : byte_eqb c rCR = false -> skip_empty_lines (c :: s) = c :: s.
Proof. intros H. destruct s as [|c2 s]; [reflexivity|]. cbn [skip_empty_lines]. rewrite H. reflexivity. Qed.

Definition content_of (body : option bytes) : bytes := match body with Some b => b | None => [] end.
Definition is_nil (b : bytes) : bool := match b with [] => true | _ => false end.
Definition strip_r (r : h2_request) : h2_request :=
  mkH2Req (hq_method r) (hq_scheme r) (hq_authority r) (hq_path r) (strip_expect (hq_fields r)).

(* complement of the finding request-content-length-without-body: END_STREAM on HEADERS means no announced body *)
Definition length_guard (sent : option bytes) (h : headers) (body : option bytes) : Prop :=
  body = None -> h2_expected_length sent h = Some None \/ h2_expected_length sent h = Some (Some 0%N).
(* complement of the finding request-body-without-content-length: a non-empty body is announced by a content-length *)
Definition framing_guard (h : headers) (body : option bytes) : Prop :=
  content_of body <> [] -> h2_expected_length None h <> Some None.

Theorem down_request_one_message pa h body out c :
  down_request pa h body None = OForward out c ->
  length_guard None h body -> framing_guard h body -> cookie_guard h ->
  exists r, parse_h2_request_headers pa h = Some r /\
    forall o, parse_requests o 2 out
      = POk [mkRefReq (hq_method r) (hq_path r) V_HTTP11 (h1_fields (strip_r r)) (content_of body) []].
Proof.
  unfold down_request. intros H LG FG CG.
  destruct (h2_validate false false h) eqn:V; [|discriminate]. cbn [negb] in H.
  destruct (h2_expected_length None h) as [expected|] eqn:EL; [|discriminate].
  destruct (h2_length_ok expected body false) eqn:LO; [|discriminate]. cbn [negb] in H.
  destruct (parse_h2_request_headers pa h) as [r|] eqn:P; [|discriminate].
  destruct (validate_request_transparent r) eqn:VR; try discriminate.
  injection H as <- <-. exists r. split; [reflexivity|]. intros o.
  destruct (parse_req_spec pa h r P) as (q & Eh & Fq & IM & IS & IP & IA & VM & VP).
  pose proof (h2_validate_all _ _ _ V) as VA.
  unfold validate_request_transparent in VR.
  destruct (negb (mem (hq_scheme r) [V_HTTP; V_HTTPS; []])); [discriminate|].
  destruct (bytes_eqb (upper (hq_method r)) CONNECT) eqn:NC; [discriminate|].
  destruct (validate_ok _ VR) as (VN & NoTE & CLs).
  assert (VAf : Forall (fun f => h2_name_ok (fst f) = true /\ h2_value_ok (snd f) = true /\ h2_field_ok f = true) (hq_fields r)).
  { rewrite Eh in VA. apply Forall_app in VA. tauto. }
  pose proof (fieldok_of _ VAf VN) as F0.
  assert (AuthOk : hq_authority r = [] \/ h2_value_ok (hq_authority r) = true).
  { destruct IA as [X|X]; [left; exact X|right]. rewrite Forall_forall in VA.
    assert (I : In (P_AUTHORITY, hq_authority r) h) by (rewrite Eh; apply in_or_app; left; exact X).
    destruct (VA _ I) as (_ & Y & _). exact Y. }
  set (r' := strip_r r).
  assert (F0' : Forall fieldok (hq_fields r')) by (apply strip_expect_forall; exact F0).
  assert (NoTE' : get_all TRANSFER_ENCODING (hq_fields r') = []).
  { rewrite get_all_filter in *. change (lower TRANSFER_ENCODING) with TRANSFER_ENCODING in *.
    cbn [r' strip_r hq_fields]. rewrite strip_expect_filter by discriminate. exact NoTE. }
  assert (CLeq : get_all CONTENT_LENGTH (hq_fields r') = get_all CONTENT_LENGTH (hq_fields r)).
  { rewrite !get_all_filter. change (lower CONTENT_LENGTH) with CONTENT_LENGTH.
    cbn [r' strip_r hq_fields]. rewrite strip_expect_filter by discriminate. reflexivity. }
  assert (CG' : cookie_guard (hq_fields r')).
  { unfold cookie_guard in *. rewrite get_all_filter in *. change (lower N_COOKIE) with N_COOKIE in *.
    cbn [r' strip_r hq_fields]. rewrite strip_expect_filter by discriminate.
    rewrite Eh, (filter_pseudo_prefix N_COOKIE q _ Fq eq_refl) in CG. exact CG. }
  assert (AuthOk' : hq_authority r' = [] \/ h2_value_ok (hq_authority r') = true) by exact AuthOk.
  assert (XL : values_exact CONTENT_LENGTH h = get_all CONTENT_LENGTH (hq_fields r)).
  { unfold values_exact. rewrite get_all_filter. change (lower CONTENT_LENGTH) with CONTENT_LENGTH. f_equal.
    rewrite Eh, (exact_pseudo_prefix CONTENT_LENGTH q _ Fq eq_refl). apply exact_filter_lower.
    eapply Forall_impl; [|exact F0]. intros f (_ & _ & X & _). exact X. }
  unfold length_guard in LG. unfold framing_guard in FG. rewrite EL in FG.
  unfold h2_expected_length in EL, LG. rewrite XL in EL, LG.
  pose proof (F_inv r' F0' AuthOk' CG') as FI.
  pose proof (F_te r' NoTE') as TE3.
  pose proof (F_cl r') as CL3.
  change (mkH2Req (hq_method r) (hq_scheme r) (hq_authority r) (hq_path r) (strip_expect (hq_fields r))) with r'.
  change (match body with Some b => b | None => [] end) with (content_of body).
  unfold h1_request_bytes.
  assert (SC : send_chunked (hq_fields r') = false).
  { unfold send_chunked, hget_default, hget. rewrite NoTE'. reflexivity. }
  rewrite SC. rewrite app_nil_r.
  set (head := h1_of_h2_request r').
  assert (Hhead : head = mkReq [] 0%N (hq_method r) (hq_scheme r) [] (hq_path r) V_HTTP11 (h1_fields r')) by reflexivity.
  assert (TOK : forallb is_tchar (hq_method r) = true /\ hq_method r <> []).
  { unfold valid_method in VM. destruct (hq_method r) as [|m0 ms]; [discriminate|]. split; [|discriminate].
    rewrite forallb_forall in *. intros x Hx. rewrite <- method_char_is_tchar. auto. }
  assert (INV : Inv_req head).
  { rewrite Hhead. constructor; cbn [rq_method rq_version rq_headers].
    - unfold is_token. destruct TOK as [T NE]. destruct (hq_method r); [congruence|exact T].
    - unfold req_target. cbn [rq_method rq_authority rq_path]. rewrite NC.
      unfold valid_path in VP. destruct (hq_path r) as [|p0 ps] eqn:EP; [discriminate|]. split; [discriminate|].
      apply negb_true_iff in VP. rewrite forallb_forall. intros x Hx.
      pose proof (path_char_vchar x) as K. apply eqb_prop in K. rewrite <- K. apply negb_true_iff.
      destruct (bad_path_char x) eqn:B; [|reflexivity].
      assert (existsb bad_path_char (p0 :: ps) = true) by (apply existsb_exists; exists x; auto). congruence.
    - reflexivity.
    - exact FI. }
  assert (TGT : req_target head = hq_path r).
  { rewrite Hhead. unfold req_target. cbn [rq_method rq_authority rq_path]. rewrite NC. reflexivity. }
  assert (START : forall tail, exists c s, assemble_request_head head ++ tail = c :: s /\ byte_eqb c rCR = false).
  { intros tail. unfold assemble_request_head. rewrite assemble_request_line_eq, Hhead. cbn [rq_method].
    destruct TOK as [T NE]. destruct (hq_method r) as [|m0 ms]; [congruence|].
    exists m0. eexists. split; [cbn [app]; reflexivity|].
    simpl in T. apply andb_true_iff in T as [T _]. pose proof (tchar_not_cr m0) as K. rewrite T in K. simpl in K.
    apply negb_true_iff in K. exact K. }
  set (fields := h1_fields r') in *.
  assert (HF : rq_headers head = fields /\ rq_method head = hq_method r /\ rq_version head = V_HTTP11) by (rewrite Hhead; auto).
  destruct HF as (HF1 & HF2 & HF3).
  assert (STEP : forall tail bl, request_body_length V_HTTP11 fields = Some bl ->
            read_body o bl tail = POk (content_of body, [], []) ->
            parse_requests o 2 (assemble_request_head head ++ tail)
            = POk [mkRefReq (hq_method r) (hq_path r) V_HTTP11 fields (content_of body) []]).
  { intros tail bl BL RB. destruct (START tail) as (c0 & s0 & E0 & C0).
    cbn [parse_requests]. rewrite E0. unfold parse_request. rewrite (skip_empty_first c0 s0 C0), <- E0.
    rewrite (head_roundtrip_request o head tail INV), TGT, HF1, HF2, HF3, BL, RB. reflexivity. }
  replace (match content_of body with [] => [] | _ :: _ => content_of body end) with (content_of body)
    by (destruct (content_of body); reflexivity).
  destruct CLs as [NoCL | [cl OneCL]].
  - (* no content-length: the guard says there is no body *)
    rewrite NoCL in EL. cbn [cl_scan] in EL. injection EL as <-.
    destruct (content_of body) as [|b0 bs] eqn:EC; [|exfalso; apply FG; [discriminate|reflexivity]].
    apply (STEP [] BLZero); [|reflexivity].
    unfold request_body_length, fields_body_length. rewrite TE3, CL3, CLeq, NoCL. reflexivity.
  - rewrite OneCL in EL, LG. cbn [cl_scan] in EL, LG.
    destruct (all_digits cl) eqn:AD; [|discriminate]. injection EL as <-.
    assert (BL : request_body_length V_HTTP11 fields = Some (BLLen (digits_value cl))).
    { unfold request_body_length, fields_body_length. rewrite TE3, CL3, CLeq, OneCL, (list_elements_digits cl AD).
      cbn [all_same_dec]. rewrite (parse_dec_digits cl AD). reflexivity. }
    assert (LEN : digits_value cl = N.of_nat (length (content_of body))).
    { destruct body as [b|]; cbn [content_of].
      - cbn [h2_length_ok] in LO. apply N.eqb_eq in LO. exact LO.
      - destruct (LG eq_refl) as [X|X]; [discriminate|]. injection X as X. rewrite X. reflexivity. }
    rewrite LEN in BL.
    apply (STEP (content_of body) _ BL).
    pose proof (body_reframe_length o (content_of body) []) as K. rewrite app_nil_r in K. exact K.
Qed.
