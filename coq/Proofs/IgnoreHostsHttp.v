(* Proofs/IgnoreHostsHttp.v -- C19.  The Host header as HTTP defines it (RFC 9112: request-line CRLF
   *( field-name : OWS field-value OWS CRLF ) CRLF) is the one _get_host_header returns, for every
   amount of optional white space (including none) and every spelling of the field name. *)
From Coq Require Import List Bool NArith Lia.
From MV Require Import Base.Bytes Model.ClientHello Model.IgnoreHosts Proofs.IgnoreHostsScan.
Import ListNotations.

(* ---------- reference grammar ---------- *)
Definition SP : byte := x20.
Definition COLON : byte := x3a.
Definition HTTPS : bytes := [x48; x54; x54; x50; x2f].       (* HTTP/ *)
Definition no_lf (s : bytes) : bool := negb (existsb is_lf s).
Definition is_ows (b : byte) : bool := (bN b =? 32)%N || (bN b =? 9)%N.

Record field := { f_name : bytes; f_ows1 : bytes; f_value : bytes; f_ows2 : bytes }.
Definition field_line (f : field) : bytes :=
  f_name f ++ COLON :: f_ows1 f ++ f_value f ++ f_ows2 f ++ CRLF.
Definition request_line (method target version : bytes) : bytes :=
  method ++ SP :: target ++ SP :: HTTPS ++ version.

Definition name_is_host (n : bytes) : bool := bytes_eqb (map to_lower n) [x68; x6f; x73; x74].
Definition name_ok (b : byte) : bool := negb (byte_eqb b COLON) && negb (is_cr b) && negb (is_lf b).
(* a field line that is not a Host line: non-empty name without colon, CR, LF; value without LF *)
Definition wf_other (f : field) : Prop :=
  f_name f <> [] /\ forallb name_ok (f_name f) = true
  /\ name_is_host (f_name f) = false
  /\ no_lf (f_ows1 f ++ f_value f ++ f_ows2 f) = true.
(* the Host line: any spelling of the name, any OWS, value non-empty, trimmed, without LF *)
Definition wf_host (f : field) : Prop :=
  name_is_host (f_name f) = true
  /\ forallb is_ows (f_ows1 f) = true /\ forallb is_ows (f_ows2 f) = true
  /\ no_lf (f_value f) = true
  /\ (exists a v, f_value f = a :: v /\ is_ws a = false)
  /\ is_ws (last (f_value f) x00) = false.
Definition wf_request_line (method target version : bytes) : Prop :=
  alpha3 method = true /\ no_lf method = true /\ no_lf target = true /\ no_lf version = true.

Ltac list_norm := repeat (rewrite <- app_assoc || (progress (cbn [app]))); reflexivity.

(* ---------- scanning lemmas ---------- *)
Lemma no_lf_app a b : no_lf (a ++ b) = no_lf a && no_lf b.
Proof. unfold no_lf. rewrite existsb_app, negb_orb. reflexivity. Qed.
Lemma no_lf_cons c r : no_lf (c :: r) = negb (is_lf c) && no_lf r.
Proof. unfold no_lf. simpl. rewrite negb_orb. reflexivity. Qed.

Lemma until_lf_nolf x y : no_lf x = true -> until_lf (x ++ y) = x ++ until_lf y.
Proof.
  induction x as [|c x IH]; intros H; [reflexivity|].
  rewrite no_lf_cons in H. apply andb_true_iff in H as [H1 H2]. apply negb_true_iff in H1.
  simpl. rewrite H1, (IH H2). reflexivity.
Qed.

Lemma find_http_mid u post : find_http (u ++ HTTPS ++ post) = true.
Proof.
  induction u as [|c u IH]; [reflexivity|].
  change ((c :: u) ++ HTTPS ++ post) with (c :: u ++ HTTPS ++ post). cbn [find_http]. rewrite IH. apply orb_true_r.
Qed.

Lemma until_lf_line x rest : no_lf x = true -> until_lf (x ++ CR :: LF :: rest) = x ++ [CR].
Proof.
  induction x as [|c x IH]; intros H; [reflexivity|].
  rewrite no_lf_cons in H. apply andb_true_iff in H as [H1 H2]. apply negb_true_iff in H1.
  simpl. rewrite H1, (IH H2). reflexivity.
Qed.

Lemma expected_request_line m tg v rest :
  wf_request_line m tg v -> host_header_expected (request_line m tg v ++ CRLF ++ rest) = true.
Proof.
  intros [A [Nm [Nt Nv]]]. unfold request_line, CRLF.
  destruct m as [|a [|b [|c m']]]; try discriminate A. simpl in A.
  cbn [app host_header_expected]. rewrite A. cbn [andb].
  rewrite !no_lf_cons in Nm. apply andb_true_iff in Nm as [_ Nm]. apply andb_true_iff in Nm as [_ Nm].
  apply andb_true_iff in Nm as [_ Nm].
  rewrite until_lf_line.
  2:{ rewrite no_lf_app, Nm, no_lf_cons, no_lf_app, Nt, no_lf_cons, no_lf_app, Nv. reflexivity. }
  destruct m' as [|y m'']; cbn [app].
  - replace ((tg ++ SP :: HTTPS ++ v) ++ [CR]) with ((tg ++ [SP]) ++ HTTPS ++ (v ++ [CR])) by (unfold HTTPS; list_norm).
    apply find_http_mid.
  - replace ((m'' ++ SP :: tg ++ SP :: HTTPS ++ v) ++ [CR]) with ((m'' ++ SP :: tg ++ [SP]) ++ HTTPS ++ (v ++ [CR]))
      by (unfold HTTPS; list_norm).
    apply find_http_mid.
Qed.

(* a line without LF is skipped by the search *)
Lemma search_skip_line l x : no_lf l = true -> search_host (l ++ CRLF ++ x) = search_host (CRLF ++ x).
Proof.
  induction l as [|c l IH]; intros H; [reflexivity|].
  rewrite no_lf_cons in H. apply andb_true_iff in H as [H1 H2].
  change ((c :: l) ++ CRLF ++ x) with (c :: l ++ CRLF ++ x). rewrite search_unfold.
  assert (S : starts_with CRLF (c :: l ++ CRLF ++ x) = false).
  { destruct l as [|d l'].
    - simpl. rewrite andb_false_r. reflexivity.
    - rewrite no_lf_cons in H2. apply andb_true_iff in H2 as [H2 _]. apply negb_true_iff in H2.
      simpl. unfold is_lf in H2. rewrite (proj2 (byte_eqb_neq x0a d)).
      + rewrite andb_false_r. reflexivity.
      + intros E. subst d. discriminate H2. }
  rewrite S. apply IH. exact H2.
Qed.

Lemma lower_colon b : byte_eqb x3a (to_lower b) = true -> byte_eqb b COLON = true.
Proof.
  intros H.
  pose proof (forall_bytes (fun b => implb (byte_eqb x3a (to_lower b)) (byte_eqb b COLON)) ltac:(vm_compute; reflexivity) b) as P.
  cbv beta in P. rewrite H in P. exact P.
Qed.
Lemma ows_ws b : is_ows b = true -> is_ws b = true /\ is_lf b = false.
Proof.
  intros H.
  pose proof (forall_bytes (fun b => implb (is_ows b) (is_ws b && negb (is_lf b))) ltac:(vm_compute; reflexivity) b) as P.
  cbv beta in P. rewrite H in P. simpl in P. apply andb_true_iff in P as [P1 P2]. apply negb_true_iff in P2. auto.
Qed.
Lemma cr_is_ws b : is_cr b = true -> is_ws b = true.
Proof. unfold is_cr. intros H. apply byte_eqb_eq in H. subst. reflexivity. Qed.

Lemma lc_h : byte_eqb x68 (to_lower COLON) = false. Proof. reflexivity. Qed.
Lemma lc_o : byte_eqb x6f (to_lower COLON) = false. Proof. reflexivity. Qed.
Lemma lc_s : byte_eqb x73 (to_lower COLON) = false. Proof. reflexivity. Qed.
Lemma lc_t : byte_eqb x74 (to_lower COLON) = false. Proof. reflexivity. Qed.

Lemma other_not_host n z :
  forallb name_ok n = true -> name_is_host n = false -> starts_with_ci HOST_COLON (n ++ COLON :: z) = false.
Proof.
  intros F N. destruct (starts_with_ci HOST_COLON (n ++ COLON :: z)) eqn:E; [|reflexivity]. exfalso.
  unfold HOST_COLON in E.
  destruct n as [|a [|b [|c [|d [|e n']]]]]; cbn [starts_with_ci app] in E;
    rewrite ?lc_h, ?lc_o, ?lc_s, ?lc_t, ?andb_false_r, ?andb_false_l in E; try discriminate E.
  - (* four characters: they spell host *)
    repeat (apply andb_true_iff in E as [?H E]).
    apply byte_eqb_eq in H, H0, H1, H2. unfold name_is_host in N. cbn [map] in N.
    rewrite <- H, <- H0, <- H1, <- H2 in N. discriminate N.
  - (* five or more: the fifth is a colon *)
    repeat (apply andb_true_iff in E as [?H E]).
    apply lower_colon in H3. cbn [forallb] in F.
    repeat (apply andb_true_iff in F as [?G F]). unfold name_ok in G3. rewrite H3 in G3. discriminate G3.
Qed.

Lemma name_no_lf n : forallb name_ok n = true -> no_lf n = true.
Proof.
  induction n as [|c n IH]; intros H; [reflexivity|]. simpl in H. apply andb_true_iff in H as [H1 H2].
  rewrite no_lf_cons, (IH H2). unfold name_ok in H1. apply andb_true_iff in H1 as [_ H1]. rewrite H1. reflexivity.
Qed.

(* one field line that is not a Host line is stepped over *)
Lemma search_skip_field f z :
  wf_other f -> search_host (CRLF ++ field_line f ++ z) = search_host (CRLF ++ z).
Proof.
  intros [NE [F [NH NL]]]. unfold field_line.
  change (CRLF ++ (f_name f ++ COLON :: f_ows1 f ++ f_value f ++ f_ows2 f ++ CRLF) ++ z)
    with (CR :: LF :: (f_name f ++ COLON :: f_ows1 f ++ f_value f ++ f_ows2 f ++ CRLF) ++ z).
  rewrite search_unfold. change (starts_with CRLF (CR :: LF :: ?x)) with true. cbv iota.
  cbn [skipn]. unfold host_group.
  replace ((f_name f ++ COLON :: f_ows1 f ++ f_value f ++ f_ows2 f ++ CRLF) ++ z)
    with (f_name f ++ COLON :: (f_ows1 f ++ f_value f ++ f_ows2 f) ++ CRLF ++ z)
    by (unfold CRLF; list_norm).
  rewrite (other_not_host _ _ F NH).
  assert (S : starts_with CRLF (f_name f ++ COLON :: (f_ows1 f ++ f_value f ++ f_ows2 f) ++ CRLF ++ z) = false).
  { destruct (f_name f) as [|a n]; [contradiction|]. simpl in F. apply andb_true_iff in F as [F1 _].
    unfold name_ok in F1. apply andb_true_iff in F1 as [F1 _]. apply andb_true_iff in F1 as [_ F1].
    apply negb_true_iff in F1. unfold is_cr in F1. simpl.
    rewrite (proj2 (byte_eqb_neq x0d a)); [reflexivity|]. intros E. subst a. discriminate F1. }
  rewrite S. rewrite search_unfold. change (starts_with CRLF (LF :: ?x)) with false. cbv iota.
  replace (f_name f ++ COLON :: (f_ows1 f ++ f_value f ++ f_ows2 f) ++ CRLF ++ z)
    with ((f_name f ++ COLON :: f_ows1 f ++ f_value f ++ f_ows2 f) ++ CRLF ++ z)
    by (unfold CRLF; list_norm).
  apply search_skip_line. rewrite no_lf_app, (name_no_lf _ F), no_lf_cons. exact NL.
Qed.

Lemma search_skip_fields fs z :
  Forall wf_other fs -> search_host (CRLF ++ concat (map field_line fs) ++ z) = search_host (CRLF ++ z).
Proof.
  induction fs as [|f fs IH]; intros H; [reflexivity|].
  inversion H as [|? ? Hf Hfs]; subst. cbn [map concat]. rewrite <- app_assoc.
  rewrite (search_skip_field f _ Hf). apply IH. exact Hfs.
Qed.

(* ---------- the Host line ---------- *)
Lemma tail_ok_blocked x y :
  no_lf x = true -> x <> [] -> is_ws (last x x00) = false -> tail_ok (x ++ y) = false.
Proof.
  induction x as [|c x IH]; intros N NE L; [contradiction|].
  rewrite no_lf_cons in N. apply andb_true_iff in N as [N1 N2].
  change ((c :: x) ++ y) with (c :: x ++ y). rewrite tail_ok_cons.
  destruct x as [|d x'].
  - simpl in L. rewrite L. simpl. rewrite orb_false_r.
    destruct (byte_eqb x0d c) eqn:E; [|reflexivity].
    apply byte_eqb_eq in E. subst c. discriminate L.
  - assert (S : starts_with CRLF (c :: (d :: x') ++ y) = false).
    { rewrite no_lf_cons in N2. apply andb_true_iff in N2 as [N2 _]. apply negb_true_iff in N2.
      simpl. unfold is_lf in N2. rewrite (proj2 (byte_eqb_neq x0a d)).
      - rewrite andb_false_r. reflexivity.
      - intros E. subst d. discriminate N2. }
    rewrite S. rewrite IH; [apply andb_false_r | exact N2 | discriminate | exact L].
Qed.

Lemma lazy_exact v z :
  no_lf v = true -> v <> [] -> is_ws (last v x00) = false -> tail_ok z = true -> lazy_host (v ++ z) = Some v.
Proof.
  induction v as [|c v IH]; intros N NE L T; [contradiction|].
  rewrite no_lf_cons in N. apply andb_true_iff in N as [N1 N2]. apply negb_true_iff in N1.
  change ((c :: v) ++ z) with (c :: v ++ z). rewrite lazy_cons, N1.
  destruct v as [|d v'].
  - simpl. rewrite T. reflexivity.
  - rewrite (tail_ok_blocked (d :: v') z N2 ltac:(discriminate) L).
    rewrite IH; [reflexivity | exact N2 | discriminate | exact L | exact T].
Qed.

Lemma tail_ok_ows o rest : forallb is_ows o = true -> tail_ok (o ++ CRLF ++ rest) = true.
Proof.
  induction o as [|c o IH]; intros H; [reflexivity|].
  simpl in H. apply andb_true_iff in H as [H1 H2]. destruct (ows_ws _ H1) as [W _].
  change ((c :: o) ++ CRLF ++ rest) with (c :: o ++ CRLF ++ rest). rewrite tail_ok_cons, W, (IH H2).
  apply orb_true_r.
Qed.

Lemma drop_ws_ows o a r : forallb is_ows o = true -> is_ws a = false -> drop_ws (o ++ a :: r) = a :: r.
Proof.
  induction o as [|c o IH]; intros H A; [simpl; rewrite A; reflexivity|].
  simpl in H. apply andb_true_iff in H as [H1 H2]. destruct (ows_ws _ H1) as [W _].
  simpl. rewrite W. apply IH; assumption.
Qed.

Lemma ows_no_lf o : forallb is_ows o = true -> no_lf o = true.
Proof.
  induction o as [|c o IH]; intros H; [reflexivity|]. simpl in H. apply andb_true_iff in H as [H1 H2].
  destruct (ows_ws _ H1) as [_ L]. rewrite no_lf_cons, L, (IH H2). reflexivity.
Qed.

Lemma last_app_ne (x y : bytes) d : y <> [] -> last (x ++ y) d = last y d.
Proof.
  induction x as [|c x IH]; intros N; [reflexivity|].
  specialize (IH N). simpl. destruct (x ++ y) eqn:E; [|exact IH].
  apply app_eq_nil in E as [_ E]. contradiction.
Qed.

Lemma ws_star_value o1 v o2 rest :
  forallb is_ows o1 = true -> forallb is_ows o2 = true -> no_lf v = true ->
  (exists a v', v = a :: v' /\ is_ws a = false) -> is_ws (last v x00) = false ->
  ws_star_host (o1 ++ v ++ o2 ++ CRLF ++ rest) = Some v.
Proof.
  intros O1 O2 N [a [v' [E A]]] L.
  assert (NE : v <> []) by (rewrite E; discriminate).
  assert (T : tail_ok (o1 ++ v ++ o2 ++ CRLF ++ rest) = false).
  { rewrite app_assoc. apply tail_ok_blocked.
    - rewrite no_lf_app, (ows_no_lf _ O1), N. reflexivity.
    - intros X. apply app_eq_nil in X as [_ X]. contradiction.
    - rewrite last_app_ne by exact NE. exact L. }
  rewrite (ws_star_guard _ T).
  rewrite E at 1. change ((a :: v') ++ o2 ++ CRLF ++ rest) with (a :: v' ++ o2 ++ CRLF ++ rest).
  rewrite (drop_ws_ows _ _ _ O1 A).
  change (a :: v' ++ o2 ++ CRLF ++ rest) with ((a :: v') ++ o2 ++ CRLF ++ rest). rewrite <- E.
  apply lazy_exact; [exact N | exact NE | exact L | apply tail_ok_ows; exact O2].
Qed.

Lemma host_name_prefix n z : name_is_host n = true ->
  starts_with_ci HOST_COLON (n ++ COLON :: z) = true /\ skipn 5 (n ++ COLON :: z) = z.
Proof.
  unfold name_is_host. intros H. apply bytes_eqb_eq in H.
  destruct n as [|a [|b [|c [|d [|e n']]]]]; try discriminate H.
  injection H as H1 H2 H3 H4. split; [|reflexivity].
  cbn. rewrite H1, H2, H3, H4. reflexivity.
Qed.

(* ---------- the theorem ---------- *)
Theorem host_recognised m tg ver others hf rest :
  wf_request_line m tg ver -> Forall wf_other others -> wf_host hf ->
  get_host_header (request_line m tg ver ++ CRLF ++ concat (map field_line others) ++ field_line hf ++ rest) []
  = HSome (f_value hf).
Proof.
  intros WR WO [HN [O1 [O2 [NV [FV LV]]]]].
  unfold get_host_header. cbn [is_nil negb].
  rewrite (expected_request_line m tg ver _ WR).
  destruct WR as [_ [Nm [Nt Nv]]].
  rewrite search_skip_line.
  2:{ unfold request_line. rewrite no_lf_app, Nm, no_lf_cons, no_lf_app, Nt, no_lf_cons, no_lf_app, Nv. reflexivity. }
  rewrite (search_skip_fields others _ WO).
  unfold field_line.
  change (CRLF ++ (f_name hf ++ COLON :: f_ows1 hf ++ f_value hf ++ f_ows2 hf ++ CRLF) ++ rest)
    with (CR :: LF :: (f_name hf ++ COLON :: f_ows1 hf ++ f_value hf ++ f_ows2 hf ++ CRLF) ++ rest).
  rewrite search_unfold. change (starts_with CRLF (CR :: LF :: ?x)) with true. cbv iota. cbn [skipn].
  unfold host_group.
  replace ((f_name hf ++ COLON :: f_ows1 hf ++ f_value hf ++ f_ows2 hf ++ CRLF) ++ rest)
    with (f_name hf ++ COLON :: (f_ows1 hf ++ f_value hf ++ f_ows2 hf ++ CRLF ++ rest))
    by (unfold CRLF; list_norm).
  destruct (host_name_prefix (f_name hf) (f_ows1 hf ++ f_value hf ++ f_ows2 hf ++ CRLF ++ rest) HN) as [P1 P2].
  rewrite P1, P2, (ws_star_value _ _ _ _ O1 O2 NV FV LV). reflexivity.
Qed.

(* ---------- from the Host header to the decision ---------- *)
Lemma alpha_not_tls d : alpha3 d = true -> starts_like_tls_record d = false.
Proof.
  destruct d as [|a [|b [|c r]]]; try discriminate. simpl. intros H.
  apply andb_true_iff in H as [H _]. apply andb_true_iff in H as [H _].
  unfold starts_like_tls_record, at_. cbn [nth].
  pose proof (forall_bytes (fun a => implb (is_alpha a) (negb (bN a =? 22)%N)) ltac:(vm_compute; reflexivity) a) as P.
  cbv beta in P. rewrite H in P. simpl in P. apply negb_true_iff in P. rewrite P.
  rewrite andb_false_r. reflexivity.
Qed.

Lemma alpha3_app_l m x : alpha3 m = true -> alpha3 (m ++ x) = true.
Proof. destruct m as [|a [|b [|c r]]]; try discriminate. simpl. auto. Qed.

Section HostDecision.
  Variable pat : Type.
  Variable re_search : pat -> bytes -> bool.
  Variable ace_ok : bytes -> bool.

  (* A request whose Host value, in the form NextLayer gives it, matches an ignore pattern is ignored;
     this holds for the head alone and with any bytes after the Host line. *)
  Theorem host_header_ignored (c : cfg pat) m tg ver others hf rest h p r :
    wf_request_line m tg ver -> Forall wf_other others -> wf_host hf ->
    address c = Some (h, p) -> wg_exempt c = false -> allow_hosts c = [] ->
    In r (ignore_hosts c) ->
    re_search r (if has_port (f_value hf) then f_value hf else fmt_hp (f_value hf) p) = true ->
    exists hs,
      ignore_connection re_search ace_ok c
        (request_line m tg ver ++ CRLF ++ concat (map field_line others) ++ field_line hf ++ rest) []
      = Decided true hs
      /\ In (if has_port (f_value hf) then f_value hf else fmt_hp (f_value hf) p) hs.
  Proof.
    intros WR WO WH A W AL IR M.
    set (d := request_line m tg ver ++ CRLF ++ concat (map field_line others) ++ field_line hf ++ rest).
    pose proof (host_recognised m tg ver others hf rest WR WO WH) as HH. fold d in HH.
    assert (CH : get_client_hello d = CNone).
    { unfold get_client_hello. rewrite alpha_not_tls; [reflexivity|].
      unfold d, request_line. rewrite <- app_assoc. apply alpha3_app_l. destruct WR as [X _]. exact X. }
    set (v := if has_port (f_value hf) then f_value hf else fmt_hp (f_value hf) p) in *.
    unfold ignore_connection. rewrite W, AL.
    assert (I0 : is_nil (ignore_hosts c) = false) by (destruct (ignore_hosts c); [contradiction | reflexivity]).
    rewrite I0. cbn [andb is_nil negb].
    unfold hostnames_of. rewrite A, HH, CH.
    set (hs := match client_sni c with
               | Some n => if is_nil n then _ else _
               | None => _ end).
    assert (IN : In v hs).
    { unfold hs. destruct (client_sni c) as [n|]; [destruct (is_nil n)|]; rewrite ?in_app_iff; simpl; tauto. }
    assert (NE : is_nil hs = false) by (destruct hs; [contradiction | reflexivity]).
    rewrite NE.
    assert (AM : any_match re_search (ignore_hosts c) hs = true).
    { unfold any_match. apply existsb_exists. exists v. split; [exact IN|]. apply existsb_exists. exists r. auto. }
    rewrite AM. exists hs. auto.
  Qed.
End HostDecision.

(* methods whose first three characters are not all letters are not recognised (known finding):
   M-SEARCH * HTTP/1.1 CRLF Host: a CRLF CRLF *)
Definition msearch : bytes :=
  [x4d; x2d; x53; x45; x41; x52; x43; x48; x20; x2a; x20; x48; x54; x54; x50; x2f; x31; x2e; x31; x0d; x0a;
   x48; x6f; x73; x74; x3a; x20; x61; x0d; x0a; x0d; x0a].
Lemma short_method_refuted :
  msearch = request_line [x4d; x2d; x53; x45; x41; x52; x43; x48] [x2a] [x31; x2e; x31] ++ CRLF
            ++ field_line {| f_name := [x48; x6f; x73; x74]; f_ows1 := [x20]; f_value := [x61]; f_ows2 := [] |} ++ CRLF
  /\ get_host_header msearch [] = HNone.
Proof. split; vm_compute; reflexivity. Qed.

(* the hypotheses of host_recognised are satisfiable: GET / HTTP/1.1, Accept: x, hOsT:example.com (no OWS) *)
Definition ex_other : field := {| f_name := [x41; x63; x63; x65; x70; x74]; f_ows1 := [x20]; f_value := [x78]; f_ows2 := [] |}.
Definition ex_hostf : field :=
  {| f_name := [x68; x4f; x73; x54]; f_ows1 := [];
     f_value := [x65; x78; x61; x6d; x70; x6c; x65; x2e; x63; x6f; x6d]; f_ows2 := [x20; x09] |}.
Lemma http_nonvacuous :
  wf_request_line [x47; x45; x54] [x2f] [x31; x2e; x31] /\ Forall wf_other [ex_other] /\ wf_host ex_hostf
  /\ f_ows1 ex_hostf = [].
Proof.
  split; [repeat split; reflexivity|]. split.
  - constructor; [|constructor]. repeat split; try reflexivity. discriminate.
  - split; [|reflexivity]. repeat split; try reflexivity. eexists _, _. split; reflexivity.
Qed.
