(* Proofs/DnsLayerFrame.v -- the TCP length framing of DNSLayer.unpack_message: fuel is
   sufficient, and extraction from buf ++ data factors through extraction from buf. *)
From Coq Require Import List Bool Arith NArith Lia.
From MV Require Import Base.Bytes Model.DnsLayer.
Import ListNotations.

Section Frame.
Variable unpack : bytes -> ures.

Notation loop := (unpack_loop unpack).
Notation utcp := (unpack_tcp unpack).

(* what extraction from (buf ++ d) is, given extraction from buf *)
Definition continue_with (r0 : fres) (d : bytes) : fres :=
  match r0 with
  | ROk ms r => match utcp (r ++ d) with ROk ms' r' => ROk (ms ++ ms') r' | e => e end
  | e => e
  end.

Lemma skipn_le {A} n (l : list A) : length (skipn n l) <= length l.
Proof. rewrite skipn_length. lia. Qed.

Lemma loop_fuel : forall k buf k', length buf < k -> length buf < k' -> loop k buf = loop k' buf.
Proof.
  induction k as [|k IH]; intros buf k' H1 H2; [lia|].
  destruct k' as [|k']; [lia|].
  cbn [unpack_loop].
  destruct buf as [|h [|l rest]]; try reflexivity.
  destruct (Nat.eqb _ 0); [reflexivity|].
  destruct (Nat.ltb _ _); [reflexivity|].
  destruct (unpack _); try reflexivity.
  rewrite (IH (skipn _ rest) k'); [reflexivity| |];
    pose proof (skipn_le (N.to_nat (u16be h l)) rest); cbn [length] in *; lia.
Qed.

Lemma loop_no_fuel : forall k buf, length buf < k -> loop k buf <> RFuel.
Proof.
  induction k as [|k IH]; intros buf H; [lia|].
  cbn [unpack_loop].
  destruct buf as [|h [|l rest]]; try discriminate.
  destruct (Nat.eqb _ 0); [discriminate|].
  destruct (Nat.ltb _ _); [discriminate|].
  destruct (unpack _); try discriminate.
  assert (Hs : length (skipn (N.to_nat (u16be h l)) rest) < k)
    by (pose proof (skipn_le (N.to_nat (u16be h l)) rest); cbn [length] in *; lia).
  specialize (IH _ Hs). destruct (loop k _); try discriminate. congruence.
Qed.

Lemma utcp_no_fuel buf : utcp buf <> RFuel.
Proof. apply loop_no_fuel. lia. Qed.

Lemma utcp_loop k buf : length buf < k -> loop k buf = utcp buf.
Proof. intros H. apply loop_fuel; [exact H | lia]. Qed.

Lemma continue_nil_short buf d :
  continue_with (ROk [] buf) d = utcp (buf ++ d).
Proof. unfold continue_with. destruct (utcp (buf ++ d)); reflexivity. Qed.

Lemma loop_app : forall k buf d k2,
  length buf < k -> length (buf ++ d) < k2 ->
  loop k2 (buf ++ d) = continue_with (loop k buf) d.
Proof.
  induction k as [|k IH]; intros buf d k2 H1 H2; [lia|].
  cbn [unpack_loop].
  destruct buf as [|h [|l rest]].
  - rewrite continue_nil_short. apply utcp_loop. exact H2.
  - rewrite continue_nil_short. apply utcp_loop. exact H2.
  - destruct k2 as [|k2]; [lia|].
    change ((h :: l :: rest) ++ d) with (h :: l :: (rest ++ d)).
    cbn [unpack_loop].
    set (n := N.to_nat (u16be h l)).
    destruct (Nat.eqb n 0) eqn:En; [reflexivity|].
    destruct (Nat.ltb (length rest) n) eqn:El.
    + (* incomplete frame in buf: the merged buffer is scanned from the same place *)
      rewrite continue_nil_short.
      change (h :: l :: rest ++ d) with ((h :: l :: rest) ++ d) in *.
      rewrite <- (utcp_loop (S k2) ((h :: l :: rest) ++ d)) by exact H2.
      change ((h :: l :: rest) ++ d) with (h :: l :: (rest ++ d)).
      cbn [unpack_loop]. fold n. rewrite En. reflexivity.
    + apply Nat.ltb_ge in El.
      assert (El2 : Nat.ltb (length (rest ++ d)) n = false)
        by (apply Nat.ltb_ge; rewrite app_length; lia).
      rewrite El2.
      rewrite firstn_app. replace (n - length rest) with 0 by lia.
      rewrite firstn_O, app_nil_r.
      destruct (unpack (firstn n rest)); try reflexivity.
      rewrite skipn_app. replace (n - length rest) with 0 by lia.
      rewrite skipn_O.
      assert (Hs : length (skipn n rest) < k)
        by (pose proof (skipn_le n rest); cbn [length] in *; lia).
      assert (Hs2 : length (skipn n rest ++ d) < k2).
      { rewrite app_length. pose proof (skipn_le n rest).
        rewrite app_length in H2. cbn [length] in H2. lia. }
      rewrite (IH _ d k2 Hs Hs2).
      destruct (loop k (skipn n rest)) as [ms0 b| | |]; cbn [continue_with]; try reflexivity.
      destruct (utcp (b ++ d)); reflexivity.
Qed.

(* extraction from buf ++ d continues extraction from buf with the kept remainder *)
Lemma utcp_app buf d : utcp (buf ++ d) = continue_with (utcp buf) d.
Proof. unfold unpack_tcp at 1 2. apply loop_app; lia. Qed.

Lemma loop_idem : forall k buf ms r, length buf < k -> loop k buf = ROk ms r -> utcp r = ROk [] r.
Proof.
  induction k as [|k IH]; intros buf ms r H1 H; [lia|].
  cbn [unpack_loop] in H.
  destruct buf as [|h [|l rest]].
  - inversion H; subst. reflexivity.
  - inversion H; subst. reflexivity.
  - set (n := N.to_nat (u16be h l)) in *.
    destruct (Nat.eqb n 0) eqn:En; [discriminate|].
    destruct (Nat.ltb (length rest) n) eqn:El.
    + inversion H; subst. unfold unpack_tcp. cbn [unpack_loop]. fold n. rewrite En, El. reflexivity.
    + destruct (unpack (firstn n rest)); try discriminate.
      assert (Hs : length (skipn n rest) < k)
        by (pose proof (skipn_le n rest); cbn [length] in *; lia).
      destruct (loop k (skipn n rest)) as [ms0 b| | |] eqn:E; try discriminate.
      inversion H; subst. eapply IH; [exact Hs | exact E].
Qed.

Lemma utcp_idem buf ms r : utcp buf = ROk ms r -> utcp r = ROk [] r.
Proof. apply loop_idem. lia. Qed.

(* an error-free stream has error-free prefixes *)
Lemma utcp_prefix_ok buf d ms r :
  utcp (buf ++ d) = ROk ms r ->
  exists ms1 r1 ms2, utcp buf = ROk ms1 r1 /\ utcp (r1 ++ d) = ROk ms2 r /\ ms = ms1 ++ ms2.
Proof.
  rewrite utcp_app. destruct (utcp buf) as [ms1 r1| | |]; cbn [continue_with]; try discriminate.
  destruct (utcp (r1 ++ d)) as [ms2 r2| | |] eqn:E; try discriminate.
  intros H. inversion H; subst. exists ms1, r1, ms2. auto.
Qed.

(* a zero length prefix at a frame boundary is an error *)
Lemma utcp_zero tail : utcp (x00 :: x00 :: tail) = RErr.
Proof. reflexivity. Qed.

Lemma utcp_zero_after_frames buf ms tail :
  utcp buf = ROk ms [] -> utcp (buf ++ x00 :: x00 :: tail) = RErr.
Proof. intros H. rewrite utcp_app, H. cbn [continue_with app]. rewrite utcp_zero. reflexivity. Qed.

(* a complete frame the message parser rejects is an error *)
Lemma utcp_bad_frame h l body tail :
  N.to_nat (u16be h l) = length body -> body <> [] -> unpack body = UStruct ->
  utcp (h :: l :: body ++ tail) = RErr.
Proof.
  intros Hn Hb Hu. unfold unpack_tcp. cbn [unpack_loop]. rewrite Hn.
  destruct body as [|b0 body]; [congruence|].
  cbn [length Nat.eqb].
  assert (E : Nat.ltb (length ((b0 :: body) ++ tail)) (S (length body)) = false)
    by (apply Nat.ltb_ge; rewrite app_length; cbn [length]; lia).
  rewrite E.
  rewrite firstn_app. replace (S (length body) - length (b0 :: body)) with 0 by (cbn [length]; lia).
  rewrite firstn_O, app_nil_r.
  replace (S (length body)) with (length (b0 :: body)) by reflexivity.
  rewrite firstn_all, Hu. reflexivity.
Qed.

End Frame.
