(* Proofs/Http2StreamsH2.v -- the concrete connection model satisfies the contract that the mapping theorems of
   Http2StreamsMap.v assume of the wrapped connection: get_next_available_stream_id exceeds every stream id in use,
   the highest id only grows, and sending RequestHeaders on a fresh id raises it to that id. *)
From Coq Require Import List Bool NArith ZArith Lia.
From MV Require Import Base.Bytes Model.Http2Streams Proofs.Http2StreamsMap.
Import ListNotations.
Open Scope N_scope.

Ltac dres H :=
  match type of H with
  | bind ?r _ = Ok _ => let E := fresh "E" in destruct r eqn:E; cbn [bind] in H; [|discriminate|discriminate]
  end.

(* h' extends h: same side, highest id grew, every new stream id is at most the highest id *)
Definition ext (h h' : h2) : Prop :=
  client_side h' = client_side h /\ highest_out h <= highest_out h' /\
  (forall k, In k (dkeys (hstreams h')) -> In k (dkeys (hstreams h)) \/ k <= highest_out h').

Lemma ext_refl h : ext h h.
Proof. repeat split; [lia|tauto]. Qed.

Lemma ext_trans a b c : ext a b -> ext b c -> ext a c.
Proof. intros (A1 & A2 & A3) (B1 & B2 & B3). repeat split; [congruence|lia|].
  intros k Hk. destruct (B3 k Hk) as [H|H]; [|tauto]. destruct (A3 k H); [tauto|right; lia]. Qed.

Lemma ext_same_keys h h' : client_side h' = client_side h -> highest_out h' = highest_out h ->
  dkeys (hstreams h') = dkeys (hstreams h) -> ext h h'.
Proof. intros A B D. repeat split; [exact A|lia|]. rewrite D. tauto. Qed.

Lemma dkeys_dset_some {V} k (v v0 : V) d : dget k d = Some v0 -> dkeys (dset k v d) = dkeys d.
Proof. apply dkeys_dset_old. Qed.

Lemma ext_emit h f : ext h (emit h f).
Proof. now apply ext_same_keys. Qed.

Lemma ext_upd h sid f : ext h (upd_stream h sid f).
Proof. unfold upd_stream. destruct (dget sid (hstreams h)) eqn:E; [|apply ext_refl].
  apply ext_same_keys; cbn; auto. eapply dkeys_dset_some; eauto. Qed.

Lemma send_headers_ext h sid k tok es h' : h2_send_headers h sid k tok es = Ok h' -> ext h h'.
Proof. unfold h2_send_headers. destruct (conn_closed h); [discriminate|].
  destruct (dget sid (hstreams h)) eqn:E.
  - destruct (negb (can_send_st (st h0))); [discriminate|]. destruct (hsent h0 && negb es); [discriminate|].
    intros [= <-]. apply ext_same_keys; cbn; auto. eapply dkeys_dset_some; eauto.
  - destruct (r_maxconc h <? open_outbound h + 1); [discriminate|]. destruct (negb (is_outbound h sid)); [discriminate|].
    destruct (sid <=? highest_out h) eqn:El; [discriminate|]. apply N.leb_gt in El.
    intros [= <-]. split; [reflexivity|]. split; [cbn; lia|]. cbn. intros k0 Hk0. unfold dkeys in Hk0.
    rewrite map_app, in_app_iff in Hk0. cbn in Hk0. destruct Hk0 as [H|[<-|[]]]; [tauto|right; lia]. Qed.

Lemma send_headers_new h sid k tok es h' :
  h2_send_headers h sid k tok es = Ok h' -> ~ In sid (dkeys (hstreams h)) -> highest_out h' = sid.
Proof. unfold h2_send_headers. destruct (conn_closed h); [discriminate|]. intros H Hn.
  apply dget_none_keys in Hn. rewrite Hn in H.
  destruct (r_maxconc h <? open_outbound h + 1); [discriminate|]. destruct (negb (is_outbound h sid)); [discriminate|].
  destruct (sid <=? highest_out h); [discriminate|]. now injection H as <-. Qed.

Lemma send_data_ext h sid d es h' : h2_send_data h sid d es = Ok h' -> ext h h'.
Proof. unfold h2_send_data. destruct (conn_closed h); [discriminate|]. destruct (dget sid (hstreams h)) eqn:E; [|discriminate].
  destruct ((0 <? blen d)%Z && (Z.min (conn_win h) (win h0) <? blen d)%Z); [discriminate|].
  destruct (max_frame h <? N.of_nat (length d)); [discriminate|]. destruct (negb (can_send_st (st h0))); [discriminate|].
  intros [= <-]. apply ext_same_keys; cbn; auto. eapply dkeys_dset_some; eauto. Qed.

Lemma reset_ext h sid c h' : h2_reset_stream h sid c = Ok h' -> ext h h'.
Proof. unfold h2_reset_stream. destruct (conn_closed h); [discriminate|]. destruct (dget sid (hstreams h)) eqn:E; [|discriminate].
  destruct (is_closed_st (st h0)); [discriminate|]. intros [= <-]. apply ext_same_keys; cbn; auto. eapply dkeys_dset_some; eauto. Qed.

Lemma apply_settings_ext l : forall h, ext h (apply_settings h l).
Proof. induction l as [|[c v] t IH]; intros h; [apply ext_refl|]. cbn [apply_settings].
  eapply ext_trans; [|apply IH].
  destruct (c =? 4).
  - apply ext_same_keys; cbn; auto. unfold dkeys. rewrite map_map. reflexivity.
  - destruct (c =? 3); [apply ext_same_keys; reflexivity|]. destruct (c =? 5); [apply ext_same_keys; reflexivity|apply ext_refl]. Qed.

Lemma recv_frame_ext h f : client_side h = true -> ext h (fst (recv_frame h f)).
Proof. intros Hc. destruct f; cbn [recv_frame].
  - destruct k; rewrite ?Hc; cbn [fst]; unfold recv_end; try apply ext_refl; try apply ext_upd;
      destruct end_stream; cbn [fst]; try apply ext_refl; apply ext_upd.
  - unfold recv_end. destruct end_stream; cbn [fst]; [apply ext_upd|apply ext_refl].
  - destruct (dget sid (hstreams h)) eqn:E; [|apply ext_refl]. destruct (is_closed_st (st h0)); [apply ext_refl|].
    cbn [fst]. apply ext_same_keys; cbn; auto. eapply dkeys_dset_some; eauto.
  - destruct (sid =? 0); [apply ext_same_keys; reflexivity|].
    destruct (dget sid (hstreams h)) eqn:E; [|apply ext_refl]. destruct (is_closed_st (st h0)); [apply ext_refl|].
    cbn [fst]. apply ext_same_keys; cbn; auto. eapply dkeys_dset_some; eauto.
  - apply apply_settings_ext.
  - apply ext_refl.
  - apply ext_refl.
  - apply ext_same_keys; reflexivity.
Qed.

Lemma recv_frames_ext l : forall h, client_side h = true -> ext h (fst (recv_frames h l)).
Proof. induction l as [|f t IH]; intros h Hc; [apply ext_refl|]. cbn [recv_frames].
  pose proof (recv_frame_ext h f Hc) as H1. destruct (recv_frame h f) as [h1 e1]. cbn [fst] in H1.
  assert (Hc1 : client_side h1 = true) by (destruct H1; congruence).
  pose proof (IH h1 Hc1) as H2. destruct (recv_frames h1 t) as [h2' e2]. cbn [fst] in *. eapply ext_trans; eauto. Qed.

(* ---- BufferedH2Connection: every operation extends the h2 state *)
Definition bext (b b' : bconn) : Prop := ext (bh b) (bh b').

Lemma bext_trans a b c : bext a b -> bext b c -> bext a c.
Proof. apply ext_trans. Qed.

Lemma b_send_data1_ext b sid d es b' : b_send_data1 b sid d es = Ok b' -> bext b b'.
Proof. unfold b_send_data1, bext. destruct (buf_nonempty b sid); [intros [= <-]; apply ext_refl|].
  intros H. dres H. destruct (blen d <=? a)%Z.
  - dres H. injection H as <-. cbn. eapply send_data_ext; eauto.
  - dres H. injection H as <-. cbn.
    destruct (if fx b then (0 <? a)%Z else negb (a =? 0)%Z).
    + dres E0. injection E0 as <-. cbn. eapply send_data_ext; eauto.
    + injection E0 as <-. apply ext_refl. Qed.

Lemma b_send_chunks_ext l : forall b sid b', b_send_chunks b sid l = Ok b' -> bext b b'.
Proof. induction l as [|c t IH]; intros b sid b' H; cbn in H; [injection H as <-; apply ext_refl|].
  dres H. eapply bext_trans; [eapply b_send_data1_ext; eauto|eapply IH; eauto]. Qed.

Lemma b_send_data_ext b sid d es b' : b_send_data b sid d es = Ok b' -> bext b b'.
Proof. unfold b_send_data. destruct (max_frame (bh b) <? N.of_nat (length d)).
  - destruct (max_frame (bh b) =? 0); [discriminate|]. apply b_send_chunks_ext.
  - apply b_send_data1_ext. Qed.

Lemma b_send_trailers_ext b sid tok b' : b_send_trailers b sid tok = Ok b' -> bext b b'.
Proof. unfold b_send_trailers, bext. destruct (buf_nonempty b sid); [intros [= <-]; apply ext_refl|].
  intros H. dres H. injection H as <-. cbn. eapply send_headers_ext; eauto. Qed.

Lemma b_end_stream_ext b sid b' : b_end_stream b sid = Ok b' -> bext b b'.
Proof. unfold b_end_stream. destruct (dmem sid (trls b)); [intros [= <-]; apply ext_refl|apply b_send_data_ext]. Qed.

Lemma b_reset_ext b sid c b' : b_reset_stream b sid c = Ok b' -> bext b b'.
Proof. unfold b_reset_stream, bext. intros H. dres H. injection H as <-. cbn in *. eapply reset_ext; eauto. Qed.

Lemma flush_loop_ext f : forall b sid aw sent b' s', flush_loop f b sid aw sent = Ok (b', s') -> bext b b'.
Proof. induction f as [|f IH]; intros b sid aw sent b' s' H; [discriminate|]. cbn [flush_loop] in H.
  destruct (negb (0 <? aw)%Z); [injection H as <- _; apply ext_refl|].
  destruct (dget sid (bufs b)) as [[|[d es] rest]|]; [discriminate| |injection H as <- _; apply ext_refl].
  destruct (if (aw <? blen d)%Z then (slice_to aw d, false, (slice_from aw d, es) :: rest) else (d, es, rest)) as [[d1 es1] rest1].
  dres H. pose proof (send_data_ext _ _ _ _ _ E) as X.
  destruct rest1.
  - destruct (dget sid (trls (set_bufs (set_bh b a) (ddel sid (bufs (set_bh b a)))))).
    + dres H. pose proof (send_headers_ext _ _ _ _ _ _ E0) as Y. apply IH in H. unfold bext in *. cbn in *.
      eapply ext_trans; [exact X|]. eapply ext_trans; [exact Y|exact H].
    + apply IH in H. unfold bext in *. cbn in *. eapply ext_trans; eauto.
  - apply IH in H. unfold bext in *. cbn in *. eapply ext_trans; eauto. Qed.

Lemma swu_ext b sid b' s' : stream_window_updated b sid = Ok (b', s') -> bext b b'.
Proof. unfold stream_window_updated.
  destruct (match dget sid (hstreams (bh b)) with Some s => negb (can_send_st (st s)) | None => true end);
    [intros [= <- _]; apply ext_refl|].
  intros H. dres H. eapply flush_loop_ext; eauto. Qed.

Lemma cwu_pass_ext keys : forall b sent b' s' e', cwu_pass b keys sent = Ok (b', s', e') -> bext b b'.
Proof. induction keys as [|k t IH]; intros b sent b' s' e' H; cbn [cwu_pass] in H; [injection H as <- _ _; apply ext_refl|].
  destruct (dget k (bufs b)); [|discriminate]. dres H. destruct a as [b2 s]. apply swu_ext in E. unfold bext in *. cbn in E.
  destruct s; [destruct (conn_win (bh b2) =? 0)%Z; [injection H as <- _ _; exact E|]|];
    apply IH in H; eapply ext_trans; eauto. Qed.

Lemma cwu_loop_ext f : forall b b', cwu_loop f b = Ok b' -> bext b b'.
Proof. induction f as [|f IH]; intros b b' H; [discriminate|]. cbn [cwu_loop] in H. dres H. destruct a as [[b1 sent] early].
  apply cwu_pass_ext in E. destruct early; [injection H as <-; exact E|]. destruct sent; [|injection H as <-; exact E].
  eapply bext_trans; [exact E|apply IH; exact H]. Qed.

Lemma cwu_ext b b' : connection_window_updated b = Ok b' -> bext b b'.
Proof. apply cwu_loop_ext. Qed.

Lemma b_filter_ext evs : forall b b' e', b_filter_events b evs = Ok (b', e') -> bext b b'.
Proof. induction evs as [|e t IH]; intros b b' e' H; cbn [b_filter_events] in H; [injection H as <- _; apply ext_refl|].
  destruct e; try (dres H; destruct a as [bb ee]; injection H as <- _; cbn; apply IH in E; exact E).
  - dres H. assert (bext b a).
    { destruct (sid =? 0); [eapply cwu_ext; eauto|]. dres E. injection E as <-. destruct a0. eapply swu_ext; eauto. }
    eapply bext_trans; [eassumption|eapply IH; eauto].
  - destruct has_initwin.
    + dres H. dres H. destruct a0. injection H as <- _. cbn. eapply bext_trans; [eapply cwu_ext; eauto|eapply IH; eauto].
    + dres H. destruct a. injection H as <- _. cbn. eapply IH; eauto.
Qed.

Lemma b_receive_ext b l b' e' : client_side (bh b) = true -> b_receive b l = Ok (b', e') -> bext b b'.
Proof. unfold b_receive. intros Hc. pose proof (recv_frames_ext l (bh b) Hc) as X.
  destruct (recv_frames (bh b) l) as [h1 evs]. intros H. apply b_filter_ext in H. unfold bext in *. cbn in *.
  eapply ext_trans; eauto. Qed.

(* ---- Http2Connection *)
Definition cext (c c' : conn) : Prop := ext (ch c) (ch c').

Lemma take_pending_ext c : cext c (fst (take_pending c)).
Proof. unfold cext, take_pending, ch. cbn. now apply ext_same_keys. Qed.

Lemma close_connection_ext c : cext c (fst (close_connection c)).
Proof. apply ext_refl. Qed.

Lemma protocol_error_ext c : cext c (fst (protocol_error c)).
Proof. unfold protocol_error, cext, ch. cbn. now apply ext_same_keys. Qed.

Lemma conn_http_ext c e c' o : conn_http c e = Ok (c', o) -> cext c c'.
Proof. unfold conn_http, cext. destruct e.
  - destruct (is_client c).
    + intros H. dres H. injection H as <- _. apply send_headers_ext in E. unfold ch in *. cbn. eapply ext_trans; [exact E|now apply ext_same_keys].
    + destruct (is_open_for_us c sid); [|intros [= <- _]; apply ext_refl].
      intros H. dres H. injection H as <- _. apply send_headers_ext in E. unfold ch in *. cbn. eapply ext_trans; [exact E|now apply ext_same_keys].
  - intros H. dres H. injection H as <- _. unfold ch. cbn.
    assert (bext (cb c) a) by (destruct (is_open_for_us c sid); [eapply b_send_data_ext; eauto|injection E as <-; apply ext_refl]).
    eapply ext_trans; [exact H|now apply ext_same_keys].
  - intros H. dres H. injection H as <- _. unfold ch. cbn.
    assert (bext (cb c) a) by (destruct (is_open_for_us c sid); [eapply b_send_trailers_ext; eauto|injection E as <-; apply ext_refl]).
    eapply ext_trans; [exact H|now apply ext_same_keys].
  - intros H. dres H. injection H as <- _. unfold ch. cbn.
    assert (bext (cb c) a) by (destruct (is_open_for_us c sid); [eapply b_end_stream_ext; eauto|injection E as <-; apply ext_refl]).
    eapply ext_trans; [exact H|now apply ext_same_keys].
  - intros H. dres H. injection H as <- _. unfold ch. cbn.
    assert (bext (cb c) a).
    { destruct (negb (is_closed c sid)); [|injection E as <-; apply ext_refl].
      destruct (dget sid (hstreams (ch c))); [|discriminate].
      destruct (http_status code).
      - destruct (is_resp && is_open_for_us c sid && negb (hsent h)).
        + dres E. apply send_headers_ext in E0. apply b_send_data_ext in E. unfold bext in *. cbn in *. eapply ext_trans; eauto.
        + eapply b_reset_ext; eauto.
      - eapply b_reset_ext; eauto. }
    eapply ext_trans; [exact H|now apply ext_same_keys]. Qed.

Lemma handle_h2_event_ext c e c' o s : handle_h2_event c e = Ok (c', o, s) -> cext c c'.
Proof. unfold handle_h2_event. destruct e.
  - destruct (is_client c); [pose proof (protocol_error_ext c); destruct (protocol_error c); intros [= <- _ _]; assumption|intros [= <- _ _]; apply ext_refl].
  - destruct (is_client c); [|discriminate]. destruct (dget sid (streams c)) as [[|]|];
      try (pose proof (protocol_error_ext c); destruct (protocol_error c); intros [= <- _ _]; assumption). intros [= <- _ _]; apply ext_refl.
  - destruct (is_client c); [intros [= <- _ _]; apply ext_refl|discriminate].
  - intros [= <- _ _]; apply ext_refl.
  - destruct (dget sid (streams c)) as [[|]|]; try (intros [= <- _ _]; apply ext_refl).
    pose proof (protocol_error_ext c); destruct (protocol_error c); intros [= <- _ _]; assumption.
  - destruct (dget sid (streams c)) as [[|]|]; [discriminate| |]; intros [= <- _ _]; destruct (is_closed c sid); apply ext_refl.
  - destruct (dmem sid (streams c)); intros [= <- _ _]; apply ext_refl.
  - intros [= <- _ _]; apply ext_refl.
  - intros [= <- _ _]. destruct (is_client c); apply ext_refl.
  - pose proof (close_connection_ext c). destruct (close_connection c). intros [= <- _ _]. assumption.
  - intros [= <- _ _]; apply ext_refl.
Qed.

Lemma handle_h2_events_ext evs : forall c c' o s, handle_h2_events c evs = Ok (c', o, s) -> cext c c'.
Proof. induction evs as [|e t IH]; intros c c' o s H; cbn [handle_h2_events] in H; [injection H as <- _ _; apply ext_refl|].
  dres H. destruct a as [[c1 o1] stop]. apply handle_h2_event_ext in E. destruct stop; [injection H as <- _ _; exact E|].
  dres H. destruct a as [[c2 o2] stop2]. injection H as <- _ _. apply IH in E0. eapply ext_trans; eauto. Qed.

Lemma conn_event_ext c i c' o : is_client c = true -> conn_event c i = Ok (c', o) -> cext c c'.
Proof. intros Hc. destruct i; cbn [conn_event].
  - intros [= <- _]. apply take_pending_ext.
  - apply conn_http_ext.
  - intros H. dres H. destruct a as [b1 evs]. apply b_receive_ext in E; [|exact Hc]. dres H. destruct a as [[c2 o2] stop].
    apply handle_h2_events_ext in E0. unfold cext, ch in *. cbn in E0.
    destruct stop; [injection H as <- _; eapply ext_trans; eauto|].
    pose proof (take_pending_ext c2) as T. destruct (take_pending c2). injection H as <- _. unfold cext, ch in *. cbn in T.
    eapply ext_trans; [exact E|]. eapply ext_trans; eauto.
  - intros [= <- _]. apply close_connection_ext.
Qed.

(* ---- the contract *)
Definition hi (c : conn) : N := highest_out (ch c).
Definition Cinv (c : conn) : Prop :=
  is_client c = true /\ forall k, In k (dkeys (hstreams (ch c))) -> k <= highest_out (ch c).

Lemma contract_fresh c : hi c < next_stream_id (ch c).
Proof. unfold hi, next_stream_id. destruct (highest_out (ch c) =? 0) eqn:E; [apply N.eqb_eq in E; rewrite E; destruct (client_side (ch c)); lia|lia]. Qed.

Lemma contract_mono c i c' o : Cinv c -> conn_event c i = Ok (c', o) -> Cinv c' /\ hi c <= hi c'.
Proof. intros [Hc Hk] H. destruct (conn_event_ext _ _ _ _ Hc H) as (A & B & D). unfold hi.
  split; [|exact B]. split; [unfold is_client in *; congruence|]. intros k Hin. destruct (D k Hin) as [X|X]; [specialize (Hk k X); lia|exact X]. Qed.

Lemma contract_headers c j t es c' o :
  Cinv c -> hi c < j -> conn_event c (IHttp (EHeaders j t es)) = Ok (c', o) -> j <= hi c'.
Proof. intros [Hc Hk] Hj H. cbn in H. rewrite Hc in H. dres H. injection H as <- _.
  assert (Hn : ~ In j (dkeys (hstreams (ch c)))) by (intros X; specialize (Hk j X); unfold hi in Hj; lia).
  pose proof (send_headers_new _ _ _ _ _ _ E Hn) as X. unfold hi, ch. cbn. fold (ch c). rewrite X. lia. Qed.

Lemma contract_init fixd : Cinv (conn_init true fixd).
Proof. split; [reflexivity|]. cbn. tauto. Qed.
