(* Proofs/RawRelayTcpLoss.v -- no-loss theorem for the (repaired) TCPLayer under the plain transport
   contract [respects false]: ConnectionClosed may be delivered while the layer is paused. *)
From Coq Require Import List Bool Arith Lia.
From MV Require Import Base.Bytes Model.RawRelay Proofs.RawRelay Proofs.RawRelayLoss.
Import ListNotations.

Definition closed_from (Y : side) (e : event) : bool := match e with EClosed f => side_eqb f Y | _ => false end.
Definition cc (Y : side) (q : list event) : nat := length (filter (closed_from Y) q).
Definition qev (e : event) : bool := match e with EData _ _ | EInject _ _ | EClosed _ => true | _ => false end.
(* no chunk from Y is queued behind the close of Y *)
Fixpoint okq (Y : side) (q : list event) : Prop :=
  match q with
  | [] => True
  | e :: r => if closed_from Y e then count_data Y r = 0 else okq Y r
  end.

Lemma cc_app Y a b : cc Y (a ++ b) = cc Y a + cc Y b.
Proof. unfold cc. rewrite filter_app, app_length. reflexivity. Qed.

Lemma okq_nodata Y : forall q, count_data Y q = 0 -> okq Y q.
Proof.
  induction q as [|e q IH]; intros H; simpl; [exact Logic.I|].
  unfold count_data in *. simpl in H. destruct (closed_from Y e).
  - destruct (is_data Y e); simpl in H; [discriminate|exact H].
  - apply IH. destruct (is_data Y e); simpl in H; [discriminate|exact H].
Qed.

Lemma okq_tail Y e q : okq Y (e :: q) -> okq Y q.
Proof. simpl. destruct (closed_from Y e); [apply okq_nodata|auto]. Qed.

Lemma okq_app Y e : forall q, okq Y q -> (is_data Y e = false \/ cc Y q = 0) -> okq Y (q ++ [e]).
Proof.
  induction q as [|x r IH]; intros H D; simpl.
  - destruct (closed_from Y e); reflexivity || exact Logic.I.
  - simpl in H. destruct (closed_from Y x) eqn:Ex.
    + rewrite count_data_app, H. unfold count_data. simpl.
      destruct D as [D|D]; [rewrite D; reflexivity|]. unfold cc in D. simpl in D. rewrite Ex in D. discriminate.
    + apply IH; [exact H|]. destruct D as [D|D]; [left; exact D|right].
      unfold cc in *. simpl in D. rewrite Ex in D. exact D.
Qed.

Definition S7 st (q : list event) : Prop :=
  forall Y, cc Y q <= 1 /\ (can_read (conn_of st Y) = true -> cc Y q = 0) /\
            (eof_of st Y = true -> can_read (conn_of st Y) = false /\ cc Y q = 0 /\ count_data Y q = 0) /\
            okq Y q.
Definition P7 st (q : list event) : Prop :=
  (ph st = PStart -> waiting st = true \/ q = []) /\
  (ph st = PStart -> eof_c st = false) /\
  (ph st = PStart -> wait st = NoWait -> can_read (client st) = true) /\
  (ph st = PStart -> server_open (cf st) = false ->
     eof_s st = false /\ can_read (server st) = false /\ cc Server q = 0 /\ count_data Server q = 0) /\
  (wait st = WOpen -> server_open (cf st) = false) /\
  (ph st = PDone -> eof_c st = true /\ eof_s st = true).
Definition I7 (X : side) (k : nat) st (q : list event) (out : list cmd) : Prop :=
  pr (cf st) = TCP /\ ignore (cf st) = false /\ wait_ph_ok st /\ crashed st = false /\ wait st <> WErrorHook /\
  forallb qev q = true /\ P7 st q /\ S7 st q /\ k <= mu X st q.
Definition G7 st e : Prop := allowed false st e = true.

Ltac inv7 H := destruct H as (Ht & Hi & Hp & Hc & Hne & Hq & HP & HS & Hk).
Ltac invP HP := destruct HP as (P1 & P2 & P3 & P4 & P5 & P6).

Lemma I7_intro X k st q (out : list cmd) :
  pr (cf st) = TCP -> ignore (cf st) = false -> wait_ph_ok st -> crashed st = false -> wait st <> WErrorHook ->
  forallb qev q = true -> P7 st q -> S7 st q -> k <= mu X st q -> I7 X k st q out.
Proof. unfold I7. intuition. Qed.

(* S7 survives popping the head of the queue when the read bits and eof flags are unchanged *)
Lemma S7_pop st st' e q :
  (forall Y, can_read (conn_of st' Y) = can_read (conn_of st Y)) ->
  (forall Y, eof_of st' Y = eof_of st Y) ->
  S7 st (e :: q) -> S7 st' q.
Proof.
  intros Hr He HS Y. destruct (HS Y) as (A & B & C & D). rewrite Hr, He.
  assert (Ecc : cc Y (e :: q) = cc Y q + (if closed_from Y e then 1 else 0)).
  { unfold cc. simpl. destruct (closed_from Y e); simpl; lia. }
  repeat split; intros.
  - lia.
  - specialize (B H). lia.
  - apply C; assumption.
  - destruct (C H) as (_ & C2 & _). lia.
  - destruct (C H) as (_ & _ & C3). unfold count_data in *. simpl in C3.
    destruct (is_data Y e); simpl in C3; [discriminate|exact C3].
  - eapply okq_tail; eauto.
Qed.

(* S7 survives closing connections *)
Lemma S7_mono st st' q :
  (forall Y, can_read (conn_of st' Y) = false \/ can_read (conn_of st' Y) = can_read (conn_of st Y)) ->
  (forall Y, eof_of st' Y = eof_of st Y) ->
  S7 st q -> S7 st' q.
Proof.
  intros Hr He HS Y. destruct (HS Y) as (A & B & C & D). rewrite He.
  repeat split; intros; auto.
  - destruct (Hr Y) as [E|E]; [congruence|]. apply B. congruence.
  - destruct (Hr Y) as [E|E]; [exact E|]. rewrite E. apply C; assumption.
  - apply C; assumption.
  - apply C; assumption.
Qed.

Lemma I7_handle X k st e q out st' o :
  I7 X k st (e :: q) out -> waiting st = false -> crashed st = false -> handle st e = (st', o) -> I7 X k st' q (out ++ o).
Proof.
  intros H Hw _ Hh. inv7 H. invP HP.
  unfold waiting in Hw. destruct (wait st) eqn:Ew; try discriminate. clear Hw.
  simpl in Hq. apply andb_true_iff in Hq as [He Hq].
  unfold handle in Hh. destruct (ph st) eqn:Eph.
  - destruct (P1 eq_refl) as [A|A]; [unfold waiting in A; rewrite Ew in A|]; discriminate.
  - destruct e as [|f d|f|fc d|a err]; try discriminate; simpl in Hh.
    + (* EData *)
      unfold relay_data, has_flow in Hh. rewrite Hi in Hh. simpl in Hh. inversion Hh; subst; clear Hh.
      apply I7_intro; simpl; auto; try discriminate.
      all: try (unfold wait_ph_ok; simpl; exact Eph).
      all: try (match goal with |- P7 _ _ => unfold P7; simpl; rewrite Eph; repeat split; intros; discriminate end).
      all: try (match goal with |- S7 _ _ => eapply S7_pop; eauto; reflexivity end).
      unfold mu, count_data in *. simpl in *. rewrite len_rec_cons. simpl.
      destruct (side_eqb f X) eqn:Ef; simpl in Hk; [|lia].
      assert (f = X) by (destruct f, X; simpl in Ef; try discriminate; reflexivity). subst f.
      rewrite eqb_is_client. lia.
    + (* EClosed *)
      unfold relay_closed in Hh. rewrite Ht in Hh.
      destruct (HS f) as (F1 & F2 & F3 & F4).
      assert (Fcc : cc f q = 0 /\ can_read (conn_of st f) = false /\ count_data f q = 0).
      { assert (cc f (EClosed f :: q) = S (cc f q)) by (unfold cc; simpl; destruct f; reflexivity).
        repeat split; [lia| |].
        - destruct (can_read (conn_of st f)) eqn:E; [|reflexivity]. specialize (F2 eq_refl). lia.
        - simpl in F4. destruct f; simpl in F4; exact F4. }
      destruct Fcc as (Fc & Fr & Fd).
      assert (HS' : S7 (set_eof st f) q).
      { intros Y. destruct (HS Y) as (A & B & C & D).
        assert (Ecc : cc Y (EClosed f :: q) = cc Y q + (if side_eqb f Y then 1 else 0)).
        { unfold cc. simpl. destruct (side_eqb f Y); simpl; lia. }
        destruct f, Y; simpl in *; repeat split; intros; try lia; try tauto;
          try (apply C; assumption); try (apply okq_nodata; assumption);
          try (destruct (B ltac:(assumption)); lia); try (specialize (B ltac:(assumption)); lia);
          try (destruct (C ltac:(assumption)) as (C1 & C2 & C3); unfold count_data in *; simpl in *; auto; lia);
          try (eapply okq_tail; eauto; fail); auto. }
      assert (Hmu : k <= mu X (set_eof st f) q).
      { unfold mu, count_data in *. simpl in Hk. destruct f; simpl; exact Hk. }
      unfold close_if_open, end_flow, yield, has_flow, env_cmd, set_conn in Hh.
      destruct f; simpl in Hh; rewrite ?Hi in Hh; simpl in Hh;
        split_run Hh; inversion Hh; subst; clear Hh;
        (apply I7_intro; simpl; auto; try discriminate);
        try (unfold wait_ph_ok; simpl; rewrite ?Ew; auto; fail);
        try (match goal with |- P7 _ _ => unfold P7, waiting; simpl; rewrite ?Eph, ?Ew; repeat split; intros; try discriminate; auto end);
        try (match goal with |- S7 _ _ => eapply S7_mono; [| |exact HS']; intros Y; destruct Y; simpl; auto end).
    + (* EInject *)
      unfold relay_data, has_flow in Hh. rewrite Hi in Hh. simpl in Hh. inversion Hh; subst; clear Hh.
      apply I7_intro; simpl; auto; try discriminate.
      all: try (unfold wait_ph_ok; simpl; exact Eph).
      all: try (match goal with |- P7 _ _ => unfold P7; simpl; rewrite Eph; repeat split; intros; discriminate end).
      all: try (match goal with |- S7 _ _ => eapply S7_pop; eauto; reflexivity end).
      unfold mu, count_data in *. simpl in *. rewrite len_rec_cons. simpl. lia.
  - (* PDone: the event is dropped; it is not a chunk from X *)
    destruct (P6 eq_refl) as (D1 & D2).
    assert (Hx : is_data X e = false).
    { destruct (HS X) as (_ & _ & C & _).
      assert (EX : eof_of st X = true) by (destruct X; assumption).
      destruct (C EX) as (_ & _ & C3). unfold count_data in C3. simpl in C3.
      destruct (is_data X e); [discriminate|reflexivity]. }
    destruct e as [|f d|f|fc d|a err]; try discriminate; simpl in Hh; inversion Hh; subst; clear Hh.
    all: apply I7_intro; auto.
    all: try (match goal with |- P7 _ _ => unfold P7, waiting; rewrite ?Eph, ?Ew; repeat split; intros; try discriminate; auto end).
    all: try (match goal with |- S7 _ _ => eapply S7_pop; eauto end).
    all: try (rewrite Ew; discriminate).
    all: unfold mu, count_data in *; simpl in *; rewrite ?Hx in Hk; simpl in Hk; try lia.
Qed.

Lemma I7_queue X k st q out q' : I7 X k st q out -> I7 X k (set_queue st q') q out.
Proof. intros H; exact H. Qed.

Lemma S7_push st st' e q :
  S7 st q ->
  (forall Y, eof_of st' Y = eof_of st Y) ->
  (forall Y, closed_from Y e = false -> can_read (conn_of st' Y) = can_read (conn_of st Y)) ->
  (forall Y, closed_from Y e = true -> can_read (conn_of st Y) = true /\ can_read (conn_of st' Y) = false) ->
  (forall Y, is_data Y e = true -> can_read (conn_of st Y) = true) ->
  S7 st' (q ++ [e]).
Proof.
  intros HS He Hn Hcl Hd Y. destruct (HS Y) as (A & B & C & D). rewrite He.
  assert (Ecc : cc Y (q ++ [e]) = cc Y q + (if closed_from Y e then 1 else 0)).
  { rewrite cc_app. unfold cc at 2. simpl. destruct (closed_from Y e); reflexivity. }
  assert (Ecd : count_data Y (q ++ [e]) = count_data Y q + (if is_data Y e then 1 else 0)).
  { rewrite count_data_app. unfold count_data at 2. simpl. destruct (is_data Y e); reflexivity. }
  rewrite Ecc, Ecd.
  destruct (closed_from Y e) eqn:Ec.
  - destruct (Hcl Y Ec) as (R0 & R1). specialize (B R0).
    assert (Ed : is_data Y e = false) by (destruct e; simpl in *; try discriminate; reflexivity).
    rewrite Ed. repeat split; intros; try lia; try congruence.
    + destruct (C H) as (C1 & _). congruence.
    + destruct (C H) as (C1 & _). congruence.
    + apply okq_app; auto.
  - rewrite (Hn Y Ec). repeat split; intros; try lia.
    + specialize (B H). lia.
    + apply C; assumption.
    + destruct (C H) as (_ & C2 & _). lia.
    + destruct (C H) as (C1 & _ & C3). destruct (is_data Y e) eqn:Ed; [|lia].
      specialize (Hd Y Ed). congruence.
    + apply okq_app; auto. destruct (is_data Y e) eqn:Ed; [right|left; reflexivity].
      apply B. apply Hd. exact Ed.
Qed.

Lemma I7_enqueue X k st q out e :
  G7 st e -> not_reply e -> waiting st = true -> crashed st = false ->
  I7 X k st q out -> I7 X k (env_arrive st e) (q ++ [e]) out.
Proof.
  intros HG He Hw _ H. inv7 H. invP HP. unfold G7, allowed in HG.
  assert (Hnw : wait st <> NoWait) by (unfold waiting in Hw; destruct (wait st); congruence).
  destruct e as [|f d|f|fc d|a err]; try contradiction; simpl env_arrive; rewrite ?Ht.
  - unfold started, waiting in *. destruct (ph st), (wait st); simpl in *; discriminate.
  - (* EData *)
    apply andb_true_iff in HG as [_ Hr].
    apply I7_intro; auto.
    + rewrite forallb_app, Hq. reflexivity.
    + unfold P7. repeat split; intros; auto; try (apply P4; assumption); try (apply P6; assumption).
      * destruct (P4 H H0) as (_ & _ & A & _). rewrite cc_app, A. reflexivity.
      * destruct (P4 H H0) as (_ & B & _ & A). rewrite count_data_app, A. unfold count_data. simpl.
        destruct f; simpl; [reflexivity|]. simpl in Hr. congruence.
    + eapply S7_push; eauto; intros Y E; simpl in E; try discriminate.
      destruct f, Y; simpl in E; try discriminate; exact Hr.
    + unfold mu in *. rewrite count_data_app. lia.
  - (* EClosed *)
    apply andb_true_iff in HG as [HG _]. apply andb_true_iff in HG as [_ Hr].
    assert (HS' : S7 (set_conn st f {| can_read := false; can_write := can_write (conn_of st f) |}) (q ++ [EClosed f])).
    { eapply S7_push; eauto.
      - intros Y. destruct f, Y; reflexivity.
      - intros Y E. destruct f, Y; simpl in *; try discriminate; reflexivity.
      - intros Y E. destruct f, Y; simpl in *; try discriminate; auto.
      - intros Y E. discriminate. }
    apply I7_intro; auto; try (destruct f; assumption).
    + rewrite forallb_app, Hq. reflexivity.
    + unfold P7. destruct f; simpl; (repeat split; intros; auto; try contradiction;
        try (apply P4; assumption); try (apply P6; assumption);
        try (destruct (P4 ltac:(assumption) ltac:(assumption)) as (Q1 & Q2 & Q3 & Q4); simpl in Hr;
             try congruence; rewrite ?cc_app, ?count_data_app, ?Q3, ?Q4; reflexivity)).
    + unfold mu in *. rewrite count_data_app. destruct f; simpl; unfold count_data at 2; simpl; lia.
  - (* EInject *)
    apply I7_intro; auto.
    + rewrite forallb_app, Hq. reflexivity.
    + unfold P7. repeat split; intros; auto; try (apply P4; assumption); try (apply P6; assumption).
      * destruct (P4 H H0) as (_ & _ & A & _). rewrite cc_app, A. reflexivity.
      * destruct (P4 H H0) as (_ & _ & _ & A). rewrite count_data_app, A. reflexivity.
    + eapply S7_push; eauto; intros Y E; simpl in E; discriminate.
    + unfold mu in *. rewrite count_data_app. lia.
Qed.

Ltac same7 HS := eapply S7_mono; [| |exact HS]; intros Y; try right; destruct Y; reflexivity.

Lemma I7_resume X k st q out a a0 err st' o :
  G7 st (EReply a0 err) -> I7 X k st q out -> waiting st = true -> crashed st = false ->
  resume st a err = (st', o) -> I7 X k st' q (out ++ o).
Proof.
  intros HG H _ _ Hr. pose proof H as H0. inv7 H. invP HP. unfold G7, allowed in HG.
  unfold wait_ph_ok in Hp. unfold resume in Hr. unfold mu in Hk.
  destruct (wait st) eqn:Ew.
  - inversion Hr; subst. exact H0.
  - (* start hook *)
    unfold start_open, on_fl in Hr. simpl in Hr.
    destruct (negb (server_open (cf st))) eqn:Eso; inversion Hr; subst; clear Hr;
      (apply I7_intro; simpl; auto; try discriminate).
    all: try (unfold wait_ph_ok; simpl; auto; fail).
    all: try (match goal with |- S7 _ _ => same7 HS end).
    all: try (unfold mu; simpl; rewrite messages_apply_kill; exact Hk).
    + unfold P7, waiting; simpl. rewrite Hp. repeat split; intros; auto; try discriminate;
        try (apply P4; assumption). apply negb_true_iff in Eso. exact Eso.
    + unfold P7, waiting; simpl. repeat split; intros; discriminate.
  - (* OpenConnection succeeded (err = false by the contract) *)
    destruct err; [discriminate|]. specialize (P5 eq_refl).
    destruct (P4 Hp P5) as (Q1 & Q2 & Q3 & Q4).
    unfold start_open_done, mark_unreadable in Hr. simpl in Hr. rewrite Ht in Hr.
    destruct (can_read (connected_state (cf st))) eqn:Er; inversion Hr; subst; clear Hr;
      (apply I7_intro; simpl; auto; try discriminate).
    all: try (unfold wait_ph_ok; simpl; auto; fail).
    all: try (match goal with |- P7 _ _ => unfold P7, waiting; simpl; repeat split; intros; discriminate end).
    all: try (unfold mu; simpl; exact Hk).
    + intros Y. destruct (HS Y) as (A & B & C & D). destruct Y; simpl in *; repeat split; intros; auto;
        try (apply C; assumption); try congruence.
    + intros Y. destruct (HS Y) as (A & B & C & D). destruct Y; simpl in *; repeat split; intros; auto;
        try (apply C; assumption); try congruence.
  - congruence.
  - (* message hook *)
    unfold relay_data_hooked, on_fl in Hr. inversion Hr; subst; clear Hr.
    apply I7_intro; simpl; auto; try discriminate.
    all: try (unfold wait_ph_ok; simpl; auto; fail).
    all: try (match goal with |- S7 _ _ => same7 HS end).
    all: try (unfold mu; simpl; rewrite len_rec_edit; exact Hk).
    unfold P7, waiting; simpl. rewrite Hp. repeat split; intros; discriminate.
  - (* end hook *)
    unfold end_hooked, on_fl in Hr. inversion Hr; subst; clear Hr.
    apply I7_intro; simpl; auto; try discriminate.
    all: try (unfold wait_ph_ok; simpl; auto; fail).
    all: try (match goal with |- S7 _ _ => same7 HS end).
    all: try (unfold mu; simpl; rewrite messages_apply_kill; exact Hk).
    unfold P7, waiting; simpl. rewrite Hp. repeat split; intros; try discriminate; apply P6; assumption.
Qed.

Lemma S7_nil st st' :
  (forall Y, eof_of st' Y = true -> can_read (conn_of st' Y) = false) -> S7 st [] -> S7 st' [].
Proof.
  intros H _ Y. unfold cc, count_data. simpl. repeat split; auto.
Qed.

Lemma I7_direct X k st e out st' o :
  G7 st e -> not_reply e -> I7 X k st [] out -> waiting st = false -> crashed st = false ->
  handle (env_arrive st e) e = (st', o) -> I7 X k st' [] (out ++ o).
Proof.
  intros HG He H Hw _ Hh. pose proof H as H0. inv7 H. invP HP. unfold G7, allowed in HG.
  unfold waiting in Hw. destruct (wait st) eqn:Ew; try discriminate. clear Hw.
  unfold mu in Hk. unfold count_data in Hk. simpl in Hk.
  assert (HC : forall Y, eof_of st Y = true -> can_read (conn_of st Y) = false).
  { intros Y A. destruct (HS Y) as (_ & _ & C & _). apply C. exact A. }
  destruct e as [|f d|f|fc d|a err]; try contradiction; simpl env_arrive in Hh.
  - (* EStart *)
    unfold started in HG. rewrite Ew in HG. destruct (ph st) eqn:Eph; try discriminate.
    specialize (P3 eq_refl eq_refl). specialize (P2 eq_refl).
    unfold handle in Hh. rewrite Eph in Hh.
    unfold start, mark_unreadable, has_flow in Hh. simpl in Hh. rewrite Ht, P3 in Hh. simpl in Hh.
    destruct (server_open (cf st)) eqn:Eso; simpl in Hh; rewrite ?Ht, ?Hi in Hh; simpl in Hh;
      [destruct (can_read (server st)) eqn:Ers; simpl in Hh; rewrite ?Hi in Hh; simpl in Hh|];
      inversion Hh; subst; clear Hh; (apply I7_intro; simpl; auto; try discriminate).
    all: try (unfold wait_ph_ok; simpl; auto; fail).
    all: try (match goal with |- P7 _ _ => unfold P7, waiting; simpl; rewrite ?Eph; repeat split; intros; auto; try discriminate; try congruence;
                                           try (apply P4; assumption);
                                           try (destruct (P4 eq_refl eq_refl) as (? & ? & ? & ?); assumption) end).
    all: try (match goal with |- S7 _ _ => eapply S7_nil; [|exact HS]; intros Y A; destruct Y; simpl in *; auto;
                                           try (apply (HC Client); assumption); try (apply (HC Server); assumption) end).
  - (* EData *)
    apply andb_true_iff in HG as [Hs Hr]. unfold started in Hs. rewrite Ew in Hs.
    unfold handle in Hh. destruct (ph st) eqn:Eph; try discriminate.
    + unfold relay_data, has_flow in Hh. rewrite Hi in Hh. simpl in Hh. inversion Hh; subst; clear Hh.
      apply I7_intro; simpl; auto; try discriminate.
      all: try (unfold wait_ph_ok; simpl; exact Eph).
      all: try (match goal with |- P7 _ _ => unfold P7; simpl; rewrite Eph; repeat split; intros; discriminate end).
      all: try (match goal with |- S7 _ _ => same7 HS end).
      unfold mu, count_data. simpl. rewrite len_rec_cons. lia.
    + destruct (P6 eq_refl) as (D1 & D2).
      assert (can_read (conn_of st f) = false) by (apply HC; destruct f; assumption). congruence.
  - (* EClosed *)
    apply andb_true_iff in HG as [HG _]. apply andb_true_iff in HG as [Hs Hr].
    unfold started in Hs. rewrite Ew in Hs. rewrite Ht in Hh.
    assert (Eph : ph st = PRelay).
    { destruct (ph st) eqn:Eph; try discriminate; [reflexivity|].
      destruct (P6 eq_refl) as (D1 & D2).
      assert (can_read (conn_of st f) = false) by (apply HC; destruct f; assumption). congruence. }
    unfold handle in Hh.
    unfold relay_closed, close_if_open, end_flow, yield, has_flow, env_cmd, set_conn, set_eof, eof_of in Hh.
    destruct f; simpl in Hh; rewrite ?Eph, ?Ht, ?Hi in Hh; simpl in Hh;
      split_run Hh; inversion Hh; subst; clear Hh;
      (apply I7_intro; simpl; auto; try discriminate);
      try (unfold wait_ph_ok; simpl; rewrite ?Ew; auto; fail);
      try (match goal with |- P7 _ _ => unfold P7, waiting; simpl; rewrite ?Eph, ?Ew; repeat split; intros; try discriminate; auto end);
      try (match goal with |- S7 _ _ => eapply S7_nil; [|exact HS]; intros Y A; destruct Y; simpl in *; auto; try discriminate;
                                        try (apply (HC Client); assumption); try (apply (HC Server); assumption) end).
  - (* EInject *)
    unfold started in HG. rewrite Ew in HG.
    unfold handle in Hh. destruct (ph st) eqn:Eph; try discriminate.
    + unfold relay_data, has_flow in Hh. rewrite Hi in Hh. simpl in Hh. inversion Hh; subst; clear Hh.
      apply I7_intro; simpl; auto; try discriminate.
      all: try (unfold wait_ph_ok; simpl; exact Eph).
      all: try (match goal with |- P7 _ _ => unfold P7; simpl; rewrite Eph; repeat split; intros; discriminate end).
      all: try (match goal with |- S7 _ _ => same7 HS end).
      unfold mu, count_data. simpl. rewrite len_rec_cons. lia.
    + inversion Hh; subst; clear Hh. exact H0.
Qed.

Lemma I7_step pol X k st out e st' o :
  G7 st e -> Inv (I7 X k) st out -> arrive pol st e = (st', o) -> Inv (I7 X k) st' (out ++ o).
Proof.
  apply (I_step pol G7 (I7 X k)).
  - apply I7_handle.
  - apply I7_direct.
  - apply I7_enqueue.
  - apply I7_resume.
  - apply I7_queue.
Qed.

Lemma I7_rebound X k st out : Inv (I7 X k) st out -> Inv (I7 X (mu X st (queue st))) st out.
Proof. intros [H S]. split; [|exact S]. inv7 H. apply I7_intro; auto. Qed.

Lemma data_step7 pol X k st out d st' o :
  Inv (I7 X k) st out -> allowed false st (EData X d) = true -> arrive pol st (EData X d) = (st', o) ->
  mu X st' (queue st') = mu X st (queue st) + 1.
Proof.
  intros [H S] HG Ha. inv7 H. invP HP. unfold arrive in Ha. rewrite Hc in Ha. simpl env_arrive in Ha.
  unfold allowed in HG. apply andb_true_iff in HG as [Hs Hr].
  destruct (waiting st) eqn:Hw.
  - inversion Ha; subst; clear Ha. unfold mu. simpl. rewrite count_data_app.
    unfold count_data at 2. simpl. destruct X; simpl; lia.
  - rewrite (S eq_refl Hc) in *. unfold waiting in Hw. destruct (wait st) eqn:Ew; try discriminate.
    unfold started in Hs. rewrite Ew in Hs. unfold handle in Ha.
    destruct (ph st) eqn:Eph; try discriminate.
    + unfold relay_data, has_flow in Ha. rewrite Hi in Ha. simpl in Ha. inversion Ha; subst; clear Ha.
      unfold mu. simpl. rewrite len_rec_cons. simpl. rewrite eqb_is_client.
      rewrite (S eq_refl Hc). lia.
    + destruct (P6 eq_refl) as (D1 & D2). destruct (HS X) as (_ & _ & C & _).
      assert (can_read (conn_of st X) = false) by (apply C; destruct X; assumption). congruence.
Qed.

Lemma mu_step_other7 pol X k st out e st' o :
  Inv (I7 X k) st out -> allowed false st e = true -> arrive pol st e = (st', o) ->
  mu X st (queue st) <= mu X st' (queue st').
Proof.
  intros HI HG Ha.
  pose proof (I7_step pol X _ st out e st' o HG (I7_rebound X k st out HI) Ha) as [H _].
  inv7 H. exact Hk.
Qed.

Lemma no_loss_gen7 pol X : forall evs k st out st' o,
  Inv (I7 X k) st out -> respects false pol st evs = true -> run pol st evs = (st', o) ->
  count_data X evs + mu X st (queue st) <= mu X st' (queue st').
Proof.
  induction evs as [|e evs IH]; intros k st out st' o HI HR H; simpl in H.
  - inversion H; subst. unfold count_data. simpl. lia.
  - simpl in HR. apply andb_true_iff in HR as [HG HR].
    destruct (arrive pol st e) as [st1 o1] eqn:Ha. destruct (run pol st1 evs) as [st2 o2] eqn:Hr.
    inversion H; subst; clear H. simpl in HR.
    pose proof (I7_step pol X k st out e st1 o1 HG HI Ha) as HI1.
    specialize (IH k st1 (out ++ o1) st' o2 HI1 HR Hr).
    assert (Hstep : (if is_data X e then 1 else 0) + mu X st (queue st) <= mu X st1 (queue st1)).
    { destruct (is_data X e) eqn:Ed.
      - destruct e as [|f d|f|fc d|a err]; try discriminate. simpl in Ed.
        assert (f = X) by (destruct f, X; try discriminate; reflexivity). subst f.
        rewrite (data_step7 pol X k st out d st1 o1 HI HG Ha). lia.
      - simpl. eapply mu_step_other7; eauto. }
    unfold count_data in *. simpl. destruct (is_data X e); simpl in *; lia.
Qed.

Lemma I7_init X c : pr c = TCP -> ignore c = false -> Inv (I7 X 0) (init c) [].
Proof.
  intros Ht Hi. split; [|reflexivity]. apply I7_intro; simpl; auto; try discriminate; try lia.
  - exact Logic.I.
  - unfold P7, waiting, cc, count_data. simpl. repeat split; intros; auto; try discriminate;
      try (rewrite H0; reflexivity).
  - intros Y. unfold cc, count_data. simpl. repeat split; auto; destruct Y; discriminate.
Qed.

(* T4 for the repaired TCPLayer: under the plain transport contract every chunk received from X is
   recorded in the flow or still waits in the event queue *)
Lemma no_loss_tcp pol c evs X :
  pr c = TCP -> ignore c = false -> respects false pol (init c) evs = true ->
  let '(st, out) := run pol (init c) evs in
  count_data X evs <= length (recorded (is_client X) (fl st)) + count_data X (queue st).
Proof.
  intros Ht Hi HR. destruct (run pol (init c) evs) as [st out] eqn:H.
  pose proof (no_loss_gen7 pol X evs 0 (init c) [] st out (I7_init X c Ht Hi) HR H) as L.
  unfold mu in L. simpl in L. unfold count_data in L at 2. simpl in L.
  unfold recorded. fold (rec_of (is_client X) (messages (fl st))). lia.
Qed.

(* the schedule of the former finding close-while-paused-drops-data: both closes and a chunk queued
   behind the start hook; the repaired layer propagates the half-close and relays the chunk *)
Definition queued_closes : list event :=
  [EStart; EClosed Client; EData Server [x6c; x61; x74; x65]; EClosed Server;
   EReply keep false; EReply keep false; EReply keep false].
Lemma queued_closes_run :
  let c := mkCfg TCP false true false in
  respects false pol_id (init c) queued_closes = true /\
  let '(st, out) := run pol_id (init c) queued_closes in
  out = [StartHook; HalfClose Server; MessageHook; SendData Client [x6c; x61; x74; x65];
         CloseConnection Client; EndHook] /\
  ph st = PDone /\ wait st = NoWait /\ recorded false (fl st) = [[x6c; x61; x74; x65]].
Proof. vm_compute. repeat split; reflexivity. Qed.
