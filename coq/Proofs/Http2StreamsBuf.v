(* Proofs/Http2StreamsBuf.v -- BufferedH2Connection (C05): what is handed to h2 plus what stays buffered is exactly
   what was given, per stream and in order (send_data and the window-update flush loop); trailers leave only when the
   stream buffer is empty and are the last frame of the flush; the repaired send_data never exceeds the window. *)
From Coq Require Import List Bool NArith ZArith Lia.
From MV Require Import Base.Bytes Model.Http2Streams Proofs.Http2StreamsMap Proofs.Http2StreamsH2.
Import ListNotations.
Open Scope N_scope.

Definition bufbytes (b : bconn) (j : N) : bytes :=
  match dget j (bufs b) with Some l => concat (map fst l) | None => [] end.

Fixpoint dsent (j : N) (l : list frame) : bytes :=
  match l with
  | [] => []
  | FData s d _ :: t => if s =? j then d ++ dsent j t else dsent j t
  | _ :: t => dsent j t
  end.

Lemma dsent_app j a b : dsent j (a ++ b) = dsent j a ++ dsent j b.
Proof. induction a as [|f t IH]; [reflexivity|]. destruct f; cbn; try exact IH.
  destruct (sid =? j); [rewrite IH; now rewrite app_assoc|exact IH]. Qed.

Lemma send_data_emits h sid d es h' : h2_send_data h sid d es = Ok h' -> pending h' = pending h ++ [FData sid d es].
Proof. unfold h2_send_data. destruct (conn_closed h); [discriminate|]. destruct (dget sid (hstreams h)); [|discriminate].
  destruct ((0 <? blen d)%Z && (Z.min (conn_win h) (win h0) <? blen d)%Z); [discriminate|].
  destruct (max_frame h <? N.of_nat (length d)); [discriminate|]. destruct (negb (can_send_st (st h0))); [discriminate|].
  now intros [= <-]. Qed.

Lemma send_headers_emits h sid k tok es h' : h2_send_headers h sid k tok es = Ok h' -> pending h' = pending h ++ [FHeaders sid k tok es].
Proof. unfold h2_send_headers. destruct (conn_closed h); [discriminate|]. destruct (dget sid (hstreams h)).
  - destruct (negb (can_send_st (st h0))); [discriminate|]. destruct (hsent h0 && negb es); [discriminate|]. now intros [= <-].
  - destruct (r_maxconc h <? open_outbound h + 1); [discriminate|]. destruct (negb (is_outbound h sid)); [discriminate|].
    destruct (sid <=? highest_out h); [discriminate|]. now intros [= <-]. Qed.

Lemma slice_split k d : slice_to k d ++ slice_from k d = d.
Proof. apply firstn_skipn. Qed.

Lemma bufbytes_append b sid c j :
  bufbytes (buf_append b sid c) j = bufbytes b j ++ (if j =? sid then fst c else []).
Proof. unfold bufbytes, buf_append. cbn [bufs set_bufs]. destruct (j =? sid) eqn:E.
  - apply N.eqb_eq in E; subst j. rewrite dget_dset_same. destruct (dget sid (bufs b)).
    + now rewrite map_app, concat_app; cbn; rewrite app_nil_r.
    + cbn. now rewrite app_nil_r.
  - apply N.eqb_neq in E. rewrite dget_dset_other by congruence. now rewrite app_nil_r. Qed.

(* send_data (one frame): bytes handed to h2 on this stream ++ bytes buffered afterwards = bytes buffered before ++ data;
   no other stream is touched *)
Theorem b_send_data1_conserve b sid d es b' : b_send_data1 b sid d es = Ok b' ->
  exists new, pending (bh b') = pending (bh b) ++ new /\
    forall j, dsent j new ++ bufbytes b' j = bufbytes b j ++ (if j =? sid then d else []).
Proof.
  unfold b_send_data1. destruct (buf_nonempty b sid) eqn:En.
  - intros [= <-]. exists []. split; [now rewrite app_nil_r|]. intros j. apply bufbytes_append.
  - intros H. dres H.
    assert (Hb0 : bufbytes b sid = []).
    { unfold bufbytes, buf_nonempty in *. destruct (dget sid (bufs b)) as [[|]|]; [reflexivity|discriminate|reflexivity]. }
    destruct (blen d <=? a)%Z.
    + dres H. injection H as <-. exists [FData sid d es]. split; [cbn; eapply send_data_emits; eauto|].
      intros j. cbn [dsent]. unfold bufbytes. cbn [bufs set_bh]. fold (bufbytes b j). rewrite N.eqb_sym.
      destruct (j =? sid) eqn:Ej; [apply N.eqb_eq in Ej; subst j; rewrite Hb0|]; cbn; now rewrite ?app_nil_r.
    + dres H. injection H as <-. destruct (if fx b then (0 <? a)%Z else negb (a =? 0)%Z).
      * dres E0. injection E0 as <-. exists [FData sid (slice_to a d) false].
        split; [cbn; eapply send_data_emits; eauto|]. intros j. cbn [fst snd]. rewrite bufbytes_append. cbn [fst dsent].
        unfold bufbytes at 1. cbn [bufs set_bh]. fold (bufbytes b j). rewrite N.eqb_sym.
        destruct (j =? sid) eqn:Ej.
        -- apply N.eqb_eq in Ej; subst j. rewrite Hb0. cbn. rewrite ?app_nil_r. apply slice_split.
        -- cbn. now rewrite ?app_nil_r.
      * injection E0 as <-. exists []. split; [now rewrite app_nil_r|]. intros j. cbn [fst snd dsent app]. apply bufbytes_append.
Qed.

(* dict deletion under unique keys *)
Section Del.
  Context {V : Type}.
  Implicit Types (d : list (N * V)).
  Lemma dget_ddel_other k k' d : k <> k' -> dget k' (ddel k d) = dget k' d.
  Proof. intros Hn. induction d as [|[k2 v2] t IH]; [reflexivity|]. cbn. destruct (k =? k2) eqn:E.
    - apply N.eqb_eq in E; subst k2. destruct (k' =? k) eqn:E2; [apply N.eqb_eq in E2; congruence|reflexivity].
    - cbn. destruct (k' =? k2); [reflexivity|exact IH]. Qed.
  Lemma dkeys_ddel_incl k d x : In x (dkeys (ddel k d)) -> In x (dkeys d).
  Proof. induction d as [|[k2 v2] t IH]; [tauto|]. cbn. destruct (k =? k2); cbn; tauto. Qed.
  Lemma nodup_ddel k d : NoDup (dkeys d) -> NoDup (dkeys (ddel k d)).
  Proof. induction d as [|[k2 v2] t IH]; [auto|]. cbn. intros H. inversion H; subst. destruct (k =? k2); [assumption|].
    cbn. constructor; [intros X; apply dkeys_ddel_incl in X; contradiction|auto]. Qed.
  Lemma dget_ddel_same k d : NoDup (dkeys d) -> dget k (ddel k d) = None.
  Proof. induction d as [|[k2 v2] t IH]; [reflexivity|]. cbn. intros H. inversion H; subst. destruct (k =? k2) eqn:E.
    - apply N.eqb_eq in E; subst k2. now apply dget_none_keys.
    - cbn. rewrite E. auto. Qed.
End Del.

(* the flush loop of stream_window_updated: what is handed to h2 on the stream ++ what stays buffered = what was
   buffered; other streams are untouched; queued trailers leave only once the buffer is empty, as the last frame *)
Theorem flush_loop_conserve f : forall b sid aw sent b' s',
  flush_loop f b sid aw sent = Ok (b', s') -> NoDup (dkeys (bufs b)) ->
  NoDup (dkeys (bufs b')) /\
  exists new, pending (bh b') = pending (bh b) ++ new
    /\ dsent sid new ++ bufbytes b' sid = bufbytes b sid
    /\ (forall j, j <> sid -> dsent j new = [] /\ dget j (bufs b') = dget j (bufs b))
    /\ (forall tok e, In (FHeaders sid HTrail tok e) new ->
          dget sid (bufs b') = None /\ exists pre, new = pre ++ [FHeaders sid HTrail tok e]).
Proof.
  induction f as [|f IH]; intros b sid aw sent b' s' H Hnd; [discriminate|]. cbn [flush_loop] in H.
  assert (Done : b' = b ->
    NoDup (dkeys (bufs b')) /\
    exists new, pending (bh b') = pending (bh b) ++ new /\ dsent sid new ++ bufbytes b' sid = bufbytes b sid
      /\ (forall j, j <> sid -> dsent j new = [] /\ dget j (bufs b') = dget j (bufs b))
      /\ (forall tok e, In (FHeaders sid HTrail tok e) new -> dget sid (bufs b') = None /\ exists pre, new = pre ++ [FHeaders sid HTrail tok e])).
  { intros ->. split; [exact Hnd|]. exists []. split; [now rewrite app_nil_r|]. split; [reflexivity|]. split; [auto|]. intros ? ? []. }
  destruct (negb (0 <? aw)%Z); [injection H as <- _; now apply Done|].
  destruct (dget sid (bufs b)) as [[|[d es] rest]|] eqn:Eg; [discriminate| |injection H as <- _; now apply Done].
  clear Done.
  set (tr := if (aw <? blen d)%Z then (slice_to aw d, false, (slice_from aw d, es) :: rest) else (d, es, rest)) in *.
  assert (Htr : fst (fst tr) ++ concat (map fst (snd tr)) = d ++ concat (map fst rest)).
  { unfold tr. destruct (aw <? blen d)%Z; cbn; [now rewrite app_assoc, slice_split|reflexivity]. }
  destruct tr as [[d1 es1] rest1]. cbn [fst snd] in Htr.
  dres H. pose proof (send_data_emits _ _ _ _ _ E) as Hp.
  assert (Hbb : bufbytes b sid = d ++ concat (map fst rest)) by (unfold bufbytes; now rewrite Eg).
  destruct rest1 as [|c1 r1].
  - (* buffer drained: delete the entry, maybe send the queued trailers *)
    cbn [concat map] in Htr. rewrite app_nil_r in Htr.
    set (b2 := set_bufs (set_bh b a) (ddel sid (bufs (set_bh b a)))) in *.
    assert (Hd2 : dget sid (bufs b2) = None) by (unfold b2; cbn; now apply dget_ddel_same).
    assert (Hn2 : NoDup (dkeys (bufs b2))) by (unfold b2; cbn; now apply nodup_ddel).
    assert (Ho2 : forall j, j <> sid -> dget j (bufs b2) = dget j (bufs b)) by (intros j Hj; unfold b2; cbn; apply dget_ddel_other; congruence).
    destruct (dget sid (trls b2)) as [tok|].
    + dres H. pose proof (send_headers_emits _ _ _ _ _ _ E0) as Hp2.
      set (b3 := set_trls (set_bh b2 a0) (ddel sid (trls b2))) in *.
      (* the next round finds no buffer and stops *)
      assert (b' = b3).
      { destruct f; [discriminate|]. cbn [flush_loop] in H. destruct (negb (0 <? aw - blen d1)%Z); [now injection H as <- _|].
        replace (dget sid (bufs b3)) with (@None (list chunk)) in H by (symmetry; exact Hd2). now injection H as <- _. }
      subst b'. split; [exact Hn2|]. exists [FData sid d1 es1; FHeaders sid HTrail tok true].
      split; [unfold b3, b2 in *; cbn in *; rewrite Hp2, Hp, <- app_assoc; reflexivity|].
      split; [cbn; rewrite N.eqb_refl; unfold bufbytes at 1; replace (dget sid (bufs b3)) with (@None (list chunk)) by (symmetry; exact Hd2);
              rewrite Hbb, <- Htr; now rewrite !app_nil_r|].
      split; [intros j Hj; split; [cbn; destruct (sid =? j) eqn:X; [apply N.eqb_eq in X; congruence|reflexivity]|exact (Ho2 j Hj)]|].
      intros tok' e' [X|[X|[]]]; [discriminate|]. injection X as <- <-. split; [exact Hd2|]. now exists [FData sid d1 es1].
    + destruct (IH _ _ _ _ _ _ H Hn2) as (Hn' & new & P1 & P2 & P3 & P4). split; [exact Hn'|].
      exists (FData sid d1 es1 :: new). split; [rewrite P1; unfold b2; cbn; rewrite Hp, <- app_assoc; reflexivity|].
      split; [cbn [dsent]; rewrite N.eqb_refl, <- app_assoc, P2, Hbb, <- Htr; unfold bufbytes; rewrite Hd2; now rewrite app_nil_r|].
      split.
      * intros j Hj. destruct (P3 j Hj) as [Q1 Q2]. split; [cbn; destruct (sid =? j) eqn:X; [apply N.eqb_eq in X; congruence|exact Q1]|].
        rewrite Q2. exact (Ho2 j Hj).
      * intros tok' e' [X|X]; [discriminate|]. destruct (P4 _ _ X) as [Q1 [pre Q2]]. split; [exact Q1|]. exists (FData sid d1 es1 :: pre). now rewrite Q2.
  - set (b2 := set_bufs (set_bh b a) (dset sid (c1 :: r1) (bufs (set_bh b a)))) in *.
    assert (Hk2 : dkeys (bufs b2) = dkeys (bufs b)) by (unfold b2; cbn; eapply dkeys_dset_old; eauto).
    assert (Hn2 : NoDup (dkeys (bufs b2))) by now rewrite Hk2.
    destruct (IH _ _ _ _ _ _ H Hn2) as (Hn' & new & P1 & P2 & P3 & P4). split; [exact Hn'|].
    exists (FData sid d1 es1 :: new). split; [rewrite P1; unfold b2; cbn; rewrite Hp, <- app_assoc; reflexivity|].
    split; [cbn [dsent]; rewrite N.eqb_refl, <- app_assoc, P2, Hbb, <- Htr; unfold bufbytes, b2; cbn [bufs set_bufs set_bh]; rewrite dget_dset_same; reflexivity|].
    split.
    * intros j Hj. destruct (P3 j Hj) as [Q1 Q2]. split; [cbn; destruct (sid =? j) eqn:X; [apply N.eqb_eq in X; congruence|exact Q1]|].
      rewrite Q2. unfold b2. cbn. apply dget_dset_other. congruence.
    * intros tok' e' [X|X]; [discriminate|]. destruct (P4 _ _ X) as [Q1 [pre Q2]]. split; [exact Q1|]. exists (FData sid d1 es1 :: pre). now rewrite Q2.
Qed.

(* the repaired send_data never asks h2 for more than the window: no FlowControlError *)
Theorem b_send_data1_fixed_ok b sid d es s :
  fx b = true -> dget sid (hstreams (bh b)) = Some s -> can_send_st (st s) = true -> conn_closed (bh b) = false ->
  N.of_nat (length d) <= max_frame (bh b) -> exists b', b_send_data1 b sid d es = Ok b'.
Proof.
  intros Hfx Hs Hc Ho Hm. unfold b_send_data1. destruct (buf_nonempty b sid); [eauto|].
  unfold local_window. rewrite Hs. cbn [bind]. set (aw := Z.min (conn_win (bh b)) (win s)).
  assert (Send : forall d0 e0, (blen d0 <= aw)%Z -> (length d0 <= length d)%nat -> exists h, h2_send_data (bh b) sid d0 e0 = Ok h).
  { intros d0 e0 Hl Hle. unfold h2_send_data. rewrite Ho, Hs. fold aw.
    destruct ((0 <? blen d0)%Z && (aw <? blen d0)%Z) eqn:X; [apply andb_true_iff in X as [_ X]; apply Z.ltb_lt in X; lia|].
    destruct (max_frame (bh b) <? N.of_nat (length d0)) eqn:Y; [apply N.ltb_lt in Y; lia|]. rewrite Hc. cbn. eauto. }
  destruct (blen d <=? aw)%Z eqn:El.
  - apply Z.leb_le in El. destruct (Send d es El (le_n _)) as [h Hh]. rewrite Hh. cbn. eauto.
  - apply Z.leb_gt in El. rewrite Hfx. destruct (0 <? aw)%Z eqn:Ea; cbn [bind]; [|eauto].
    apply Z.ltb_lt in Ea.
    assert (Hlen : length (slice_to aw d) = Z.to_nat aw).
    { unfold slice_to. destruct (aw <? 0)%Z eqn:X; [apply Z.ltb_lt in X; lia|]. apply firstn_length_le. unfold blen in El. lia. }
    destruct (Send (slice_to aw d) false) as [h Hh]; [unfold blen; rewrite Hlen; lia|rewrite Hlen; unfold blen in El; lia|].
    rewrite Hh. cbn. eauto.
Qed.

(* ... the shipped one does: a stream window driven below zero by SETTINGS_INITIAL_WINDOW_SIZE makes data[:window]
   slice from the end, and h2 raises FlowControlError *)
Definition negwin_conn (fixd : bool) : bconn :=
  mkB (mkH2 true [(1, mkS SOpen (-1)%Z true)] false 65535 16384 100 0 1 []) [] [] fixd.

Theorem b_send_data1_shipped_crashes :
  b_send_data1 (negwin_conn false) 1 [x00; x00] false = Crash /\
  (exists b', b_send_data1 (negwin_conn true) 1 [x00; x00] false = Ok b').
Proof. split; [vm_compute; reflexivity|]. eexists. vm_compute. reflexivity. Qed.
