(* Proofs/QuicDemuxWrite.v -- write discipline: once a FIN or reset has been sent on a stream,
   nothing more is written to it (CAN_WRITE of the virtual connection is the witness). *)
From Coq Require Import NArith Arith List Bool Lia.
From MV Require Import Base.Bytes Model.QuicIdsPrelude Gen.QuicIds Model.QuicDemux
  Proofs.QuicIds Proofs.QuicDemuxCore Proofs.QuicDemuxInv Proofs.QuicDemuxRun.
Import ListNotations.
Open Scope N_scope.

Definition side_eqb (a b : side) : bool := match a, b with Cl, Cl | Sv, Sv => true | _, _ => false end.
Lemma side_eqb_eq a b : side_eqb a b = true <-> a = b.
Proof. destruct a, b; cbn; split; congruence. Qed.

(* o writes to (is a STREAM or RESET_STREAM frame on) side s of layer L *)
Definition writes (o : out) (L : nat) (s : side) : bool :=
  match o with
  | OSend L' s' _ _ _ | OReset L' s' _ _ => Nat.eqb L L' && side_eqb s s'
  | _ => false
  end.
(* o ends the sending direction of side s of layer L *)
Definition closes (o : out) (L : nat) (s : side) : bool :=
  match o with
  | OSend L' s' _ _ true | OReset L' s' _ _ => Nat.eqb L L' && side_eqb s s'
  | _ => false
  end.
Definition closed_in (os : list out) (L : nat) (s : side) : bool := existsb (fun o => closes o L s) os.

(* os is newest first *)
Fixpoint wf_outs (os : list out) : Prop :=
  match os with
  | [] => True
  | o :: rest => wf_outs rest /\ forall L s, writes o L s = true -> closed_in rest L s = false
  end.

Lemma closes_writes o L s : closes o L s = true -> writes o L s = true.
Proof. destruct o; cbn; auto. destruct fin; auto. discriminate. Qed.

Lemma wf_outs_app a o b L s : wf_outs (a ++ o :: b) -> closes o L s = true ->
  forall o', In o' a -> writes o' L s = false.
Proof.
  induction a as [|x t IH]; intros Hwf Hc o' Hin; [destruct Hin|].
  cbn in Hwf. destruct Hwf as [Hw Hx]. destruct Hin as [->|Hin]; [|eapply IH; eauto].
  destruct (writes o' L s) eqn:E; auto.
  specialize (Hx L s E). unfold closed_in in Hx. rewrite existsb_app in Hx. cbn in Hx.
  rewrite Hc in Hx. rewrite orb_true_r in Hx. discriminate.
Qed.

Section Write.
Variable C : Type.
Variable child_step : C -> connst * connst -> cevent -> C * list ccmd.
Variable new_child : nat -> C.
Notation state := (state C).
Notation Inv := (Inv C).

Definition WD (st : state) : Prop :=
  wf_outs (outs st) /\
  forall L l s, nth_error (layers st) L = Some l -> closed_in (outs st) L s = true -> can_write (conn_of s l) = false.
Definition P (st : state) : Prop := Inv st /\ WD st.

(* layers changed without making any connection writable again *)
Lemma WD_mono st st' : outs st' = outs st ->
  (forall L l' s, nth_error (layers st') L = Some l' ->
     exists l, nth_error (layers st) L = Some l /\ (can_write (conn_of s l) = false -> can_write (conn_of s l') = false)) ->
  WD st -> WD st'.
Proof.
  intros Ho Hl [Hw Hc]. split; rewrite Ho; auto.
  intros L l' s Hn Hcl. destruct (Hl L l' s Hn) as (l & Hn0 & Hi). apply Hi. eapply Hc; eauto.
Qed.

Lemma WD_upd L f st : (forall l s, can_write (conn_of s l) = false -> can_write (conn_of s (f l)) = false) ->
  WD st -> WD (upd_layer C L f st).
Proof.
  intros Hf. apply WD_mono; [reflexivity|].
  intros L' l' s Hn. unfold upd_layer in Hn; cbn in Hn. rewrite nth_upd in Hn.
  destruct (Nat.eqb L L'); [|eauto].
  destruct (nth_error (layers st) L') as [l|]; cbn in Hn; [|discriminate].
  inversion Hn; subst l'. exists l; split; auto.
Qed.

Lemma WD_fail e st : WD st -> WD (fail C e st).
Proof. intros H; exact H. Qed.

Lemma WD_push_quiet o st : (forall L s, writes o L s = false) -> WD st -> WD (push C o st).
Proof.
  intros Hq [Hw Hc]. split; cbn.
  - split; auto. intros L s E. rewrite Hq in E; discriminate.
  - intros L l s Hn Hcl. unfold closed_in in Hcl; cbn in Hcl.
    destruct (closes o L s) eqn:E; [apply closes_writes in E; rewrite Hq in E; discriminate|].
    eapply Hc; eauto.
Qed.

Lemma conn_set_conn_same s g (l : slayer C) : conn_of s (set_conn C s g l) = g (conn_of s l).
Proof. destruct s; reflexivity. Qed.
Lemma conn_set_conn_other s s' g (l : slayer C) : s <> s' -> conn_of s' (set_conn C s g l) = conn_of s' l.
Proof. destruct s, s'; try reflexivity; intros H; exfalso; apply H; reflexivity. Qed.

Lemma WD_set_conn L s g st : (forall c, can_write c = false -> can_write (g c) = false) -> WD st ->
  WD (upd_layer C L (set_conn C s g) st).
Proof.
  intros Hg. apply WD_upd. intros l s' H. destruct s, s'; cbn in *; auto.
Qed.

(* pushing a write to (L, s) whose connection is writable in st (before the optional CAN_WRITE clearing) *)
Lemma WD_push_write st st' o L l s :
  WD st -> nth_error (layers st) L = Some l -> can_write (conn_of s l) = true ->
  (forall L' s', writes o L' s' = true -> L' = L /\ s' = s) ->
  outs st' = outs st ->
  (forall L' l' s', nth_error (layers st') L' = Some l' ->
     exists l0, nth_error (layers st) L' = Some l0 /\ (can_write (conn_of s' l0) = false -> can_write (conn_of s' l') = false)) ->
  ((exists L' s', closes o L' s' = true) -> forall l', nth_error (layers st') L = Some l' -> can_write (conn_of s l') = false) ->
  WD (push C o st').
Proof.
  intros [Hw Hc] Hn Hcw Hwr Ho Hl Hcl. split; cbn; rewrite Ho.
  - split; auto. intros L' s' E. destruct (Hwr L' s' E) as [-> ->].
    destruct (closed_in (outs st) L s) eqn:E2; auto. rewrite (Hc L l s Hn E2) in Hcw. discriminate.
  - intros L' l' s' Hn' Hx. unfold closed_in in Hx; cbn in Hx.
    destruct (closes o L' s') eqn:E.
    + pose proof (closes_writes _ _ _ E) as Ew. destruct (Hwr L' s' Ew) as [-> ->].
      eapply Hcl; eauto.
    + cbn in Hx. destruct (Hl L' l' s' Hn') as (l0 & Hn0 & Hi). apply Hi. eapply Hc; eauto.
Qed.

Lemma P_etc fuel w L ev st : P st -> P (etc C child_step fuel w L ev st).
Proof.
  apply (etc_P C child_step P w L).
  - intros s c [H1 H2]. split; [apply Inv_upd; auto; apply keeps_set_cst|]. apply WD_upd; auto.
  - intros s sd [H1 H2]. split; [apply Inv_upd; auto; apply keeps_set_conn|]. apply WD_set_conn; auto.
  - intros s sd [H1 H2]. split; [apply Inv_upd; auto; apply keeps_set_conn|]. apply WD_set_conn; auto.
  - intros s e [H1 H2] _. split; auto.
  - intros s l n [H1 H2] Hl. split.
    + apply Inv_emit; auto. cbn. apply nth_idl in Hl. apply nth_error_Some. congruence.
    + destruct (emit_cases C w L (OPass L n) s) as [E|[E|(? & ? & ? & ? & ? & E & _)]]; try discriminate; rewrite E; auto.
      apply WD_push_quiet; auto.
  - intros s l sd id d [H1 H2] Hl Hi Hw. split.
    + apply Inv_emit; auto. cbn. eapply hasA_of; eauto.
    + destruct (emit_cases C w L (OSend L sd id d false) s) as [E|[E|(? & ? & ? & ? & ? & E & _)]]; try discriminate; rewrite E; auto.
      eapply (WD_push_write s s); eauto.
      * intros L' s' Ew. cbn in Ew. apply andb_true_iff in Ew. destruct Ew as [A B].
        apply Nat.eqb_eq in A. apply side_eqb_eq in B. auto.
      * intros (L' & s' & Ec). discriminate.
  - intros s l sd id [H1 H2] Hl Hi Hw.
    set (s' := upd_layer C L (set_conn C sd (set_write false)) s).
    assert (H1' : Inv s') by (apply Inv_upd; auto; apply keeps_set_conn).
    assert (H2' : WD s') by (apply WD_set_conn; auto).
    split.
    + apply Inv_emit; auto. cbn [targetA]. unfold s'. rewrite idl_upd by apply keeps_set_conn. eapply hasA_of; eauto.
    + assert (Hwr : forall o, (o = OSend L sd id [] true \/ exists code, o = OReset L sd id code) -> WD (push C o s')).
      { intros o Ho. eapply (WD_push_write s s' o L l sd); eauto.
        - intros L' sx Ew. destruct Ho as [->|[code ->]]; cbn in Ew; apply andb_true_iff in Ew; destruct Ew as [A B];
            apply Nat.eqb_eq in A; apply side_eqb_eq in B; auto.
        - intros L' l' sx Hn. unfold s', upd_layer in Hn; cbn in Hn. rewrite nth_upd in Hn.
          destruct (Nat.eqb L L'); [|eauto].
          destruct (nth_error (layers s) L') as [l0|]; cbn in Hn; [|discriminate].
          inversion Hn; subst l'. exists l0; split; auto. destruct sd, sx; cbn; auto.
        - intros _ l' Hn. unfold s', upd_layer in Hn; cbn in Hn. rewrite nth_upd, Nat.eqb_refl, Hl in Hn. cbn in Hn.
          inversion Hn; subst l'. rewrite conn_set_conn_same. reflexivity. }
      destruct (emit_cases C w L (OSend L sd id [] true) s') as [E|[E|(L' & to & id' & d' & code & Eo & E)]]; rewrite E; auto.
      inversion Eo; subst. apply Hwr. right; eauto.
  - intros s l sd id [H1 H2] Hl Hi. split.
    + apply Inv_emit; auto. cbn. eapply hasA_of; eauto.
    + destruct (emit_cases C w L (OStop L sd id 0) s) as [E|[E|(? & ? & ? & ? & ? & E & _)]]; try discriminate; rewrite E; auto.
      apply WD_push_quiet; auto.
  - intros s l id nx [H1 H2] Hl Hs Hg. split; [eapply Inv_open; eauto|].
    destruct H2 as [Hw Hc]. split; [exact Hw|].
    intros L' l' sx Hn Hx. cbn in Hn, Hx. unfold open_server_stream, upd_layer in Hn; cbn in Hn. rewrite nth_upd in Hn.
    destruct (Nat.eqb L L') eqn:EL.
    + apply Nat.eqb_eq in EL; subst L'. rewrite Hl in Hn; cbn in Hn. inversion Hn; subst l'.
      destruct sx; [cbn; eapply (Hc L l Cl); eauto|].
      exfalso. (* a closing command for (L, Sv) would need a server id *)
      destruct H1 as [HA _]. pose proof (inv_outs _ _ _ _ _ HA) as Ht. rewrite Forall_forall in Ht.
      unfold closed_in in Hx. apply existsb_exists in Hx. destruct Hx as (o & Hin & Hcl).
      specialize (Ht o Hin). apply nth_idl in Hl.
      destruct o as [L2 s2 i2 d2 f2|L2 s2 i2 c2| | |]; cbn in Hcl; try discriminate.
      * destruct f2; try discriminate. apply andb_true_iff in Hcl. destruct Hcl as [A B].
        apply Nat.eqb_eq in A. destruct s2; try discriminate. subst L2. cbn in Ht.
        destruct Ht as (p & Hp & Hk). rewrite Hl in Hp. inversion Hp; subst p. cbn in Hk. congruence.
      * apply andb_true_iff in Hcl. destruct Hcl as [A B].
        apply Nat.eqb_eq in A. destruct s2; try discriminate. subst L2. cbn in Ht.
        destruct Ht as (p & Hp & Hk). rewrite Hl in Hp. inversion Hp; subst p. cbn in Hk. congruence.
    + eapply Hc; eauto.
Qed.
End Write.
