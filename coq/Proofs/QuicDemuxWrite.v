(* Proofs/QuicDemuxWrite.v -- write discipline: once a FIN or reset has been sent on a stream,
   nothing more is written to it (CAN_WRITE of the virtual connection is the witness). *)
From Coq Require Import NArith Arith List Bool Lia.
From MV Require Import Base.Bytes Model.QuicIdsPrelude Gen.QuicIds Model.QuicDemux
  Proofs.QuicIds Proofs.QuicDemuxCore Proofs.QuicDemuxInv Proofs.QuicDemuxRun.
Import ListNotations.
Open Scope N_scope.

Definition side_eqb (a b : side) : bool := match a, b with Cl, Cl | Sv, Sv => true | _, _ => false end.
Lemma side_eqb_eq a b : side_eqb a b = true <-> a = b.
Proof. destruct a, b; cbn; split; congruence. Qed.

(* o writes to (is a STREAM or RESET_STREAM frame on) side s of layer L *)
Definition writes (o : out) (L : nat) (s : side) : bool :=
  match o with
  | OSend L' s' _ _ _ | OReset L' s' _ _ => Nat.eqb L L' && side_eqb s s'
  | _ => false
  end.
(* o ends the sending direction of side s of layer L *)
Definition closes (o : out) (L : nat) (s : side) : bool :=
  match o with
  | OSend L' s' _ _ true | OReset L' s' _ _ => Nat.eqb L L' && side_eqb s s'
  | _ => false
  end.
Definition closed_in (os : list out) (L : nat) (s : side) : bool := existsb (fun o => closes o L s) os.

(* os is newest first *)
Fixpoint wf_outs (os : list out) : Prop :=
  match os with
  | [] => True
  | o :: rest => wf_outs rest /\ forall L s, writes o L s = true -> closed_in rest L s = false
  end.

Lemma closes_writes o L s : closes o L s = true -> writes o L s = true.
Proof. destruct o; cbn; auto. destruct fin; auto. discriminate. Qed.

Lemma wf_outs_app a o b L s : wf_outs (a ++ o :: b) -> closes o L s = true ->
  forall o', In o' a -> writes o' L s = false.
Proof.
  induction a as [|x t IH]; intros Hwf Hc o' Hin; [destruct Hin|].
  cbn in Hwf. destruct Hwf as [Hw Hx]. destruct Hin as [->|Hin]; [|eapply IH; eauto].
  destruct (writes o' L s) eqn:E; auto.
  specialize (Hx L s E). unfold closed_in in Hx. rewrite existsb_app in Hx. cbn in Hx.
  rewrite Hc in Hx. rewrite orb_true_r in Hx. discriminate.
Qed.

Section Write.
Variable C : Type.
Variable child_step : C -> connst * connst -> cevent -> C * list ccmd.
Variable new_child : nat -> C.
Notation state := (state C).
Notation Inv := (Inv C).

Definition WD (st : state) : Prop :=
  wf_outs (outs st) /\
  forall L l s, nth_error (layers st) L = Some l -> closed_in (outs st) L s = true -> can_write (conn_of s l) = false.
Definition P (st : state) : Prop := Inv st /\ WD st.

(* layers changed without making any connection writable again *)
Lemma WD_mono st st' : outs st' = outs st ->
  (forall L l' s, nth_error (layers st') L = Some l' ->
     exists l, nth_error (layers st) L = Some l /\ (can_write (conn_of s l) = false -> can_write (conn_of s l') = false)) ->
  WD st -> WD st'.
Proof.
  intros Ho Hl [Hw Hc]. split; rewrite Ho; auto.
  intros L l' s Hn Hcl. destruct (Hl L l' s Hn) as (l & Hn0 & Hi). apply Hi. eapply Hc; eauto.
Qed.

Lemma WD_upd L f st : (forall l s, can_write (conn_of s l) = false -> can_write (conn_of s (f l)) = false) ->
  WD st -> WD (upd_layer C L f st).
Proof.
  intros Hf. apply WD_mono; [reflexivity|].
  intros L' l' s Hn. unfold upd_layer in Hn; cbn in Hn. rewrite nth_upd in Hn.
  destruct (Nat.eqb L L'); [|eauto].
  destruct (nth_error (layers st) L') as [l|]; cbn in Hn; [|discriminate].
  inversion Hn; subst l'. exists l; split; auto.
Qed.

Lemma WD_fail e st : WD st -> WD (fail C e st).
Proof. intros H; exact H. Qed.

Lemma WD_push_quiet o st : (forall L s, writes o L s = false) -> WD st -> WD (push C o st).
Proof.
  intros Hq [Hw Hc]. split; cbn.
  - split; auto. intros L s E. rewrite Hq in E; discriminate.
  - intros L l s Hn Hcl. unfold closed_in in Hcl; cbn in Hcl.
    destruct (closes o L s) eqn:E; [apply closes_writes in E; rewrite Hq in E; discriminate|].
    eapply Hc; eauto.
Qed.

Lemma conn_set_conn_same s g (l : slayer C) : conn_of s (set_conn C s g l) = g (conn_of s l).
Proof. destruct s; reflexivity. Qed.
Lemma conn_set_conn_other s s' g (l : slayer C) : s <> s' -> conn_of s' (set_conn C s g l) = conn_of s' l.
Proof. destruct s, s'; try reflexivity; intros H; exfalso; apply H; reflexivity. Qed.

Lemma WD_set_conn L s g st : (forall c, can_write c = false -> can_write (g c) = false) -> WD st ->
  WD (upd_layer C L (set_conn C s g) st).
Proof.
  intros Hg. apply WD_upd. intros l s' H. destruct s, s'; cbn in *; auto.
Qed.

(* pushing a write to (L, s) whose connection is writable in st (before the optional CAN_WRITE clearing) *)
Lemma WD_push_write st st' o L l s :
  WD st -> nth_error (layers st) L = Some l -> can_write (conn_of s l) = true ->
  (forall L' s', writes o L' s' = true -> L' = L /\ s' = s) ->
  outs st' = outs st ->
  (forall L' l' s', nth_error (layers st') L' = Some l' ->
     exists l0, nth_error (layers st) L' = Some l0 /\ (can_write (conn_of s' l0) = false -> can_write (conn_of s' l') = false)) ->
  ((exists L' s', closes o L' s' = true) -> forall l', nth_error (layers st') L = Some l' -> can_write (conn_of s l') = false) ->
  WD (push C o st').
Proof.
  intros [Hw Hc] Hn Hcw Hwr Ho Hl Hcl. split; cbn; rewrite Ho.
  - split; auto. intros L' s' E. destruct (Hwr L' s' E) as [-> ->].
    destruct (closed_in (outs st) L s) eqn:E2; auto. rewrite (Hc L l s Hn E2) in Hcw. discriminate.
  - intros L' l' s' Hn' Hx. unfold closed_in in Hx; cbn in Hx.
    destruct (closes o L' s') eqn:E.
    + pose proof (closes_writes _ _ _ E) as Ew. destruct (Hwr L' s' Ew) as [-> ->].
      eapply Hcl; eauto.
    + cbn in Hx. destruct (Hl L' l' s' Hn') as (l0 & Hn0 & Hi). apply Hi. eapply Hc; eauto.
Qed.

Lemma P_etc fuel w L ev st : P st -> P (etc C child_step fuel w L ev st).
Proof.
  apply (etc_P C child_step P w L).
  - intros s c [H1 H2]. split; [apply Inv_upd; auto; apply keeps_set_cst|]. apply WD_upd; auto.
  - intros s sd [H1 H2]. split; [apply Inv_upd; auto; apply keeps_set_conn|]. apply WD_set_conn; auto.
  - intros s sd [H1 H2]. split; [apply Inv_upd; auto; apply keeps_set_conn|]. apply WD_set_conn; auto.
  - intros s e [H1 H2] _. split; auto.
  - intros s l n [H1 H2] Hl. split.
    + apply Inv_emit; auto. cbn. apply nth_idl in Hl. apply nth_error_Some. congruence.
    + destruct (emit_cases C w L (OPass L n) s) as [E|[E|(? & ? & ? & ? & ? & E & _)]]; try discriminate; rewrite E; auto.
      apply WD_push_quiet; auto.
  - intros s l sd id d [H1 H2] Hl Hi Hw. split.
    + apply Inv_emit; auto. cbn. eapply hasA_of; eauto.
    + destruct (emit_cases C w L (OSend L sd id d false) s) as [E|[E|(? & ? & ? & ? & ? & E & _)]]; try discriminate; rewrite E; auto.
      eapply (WD_push_write s s); eauto.
      * intros L' s' Ew. cbn in Ew. apply andb_true_iff in Ew. destruct Ew as [A B].
        apply Nat.eqb_eq in A. apply side_eqb_eq in B. auto.
      * intros (L' & s' & Ec). discriminate.
  - intros s l sd id [H1 H2] Hl Hi Hw.
    set (s' := upd_layer C L (set_conn C sd (set_write false)) s).
    assert (H1' : Inv s') by (apply Inv_upd; auto; apply keeps_set_conn).
    assert (H2' : WD s') by (apply WD_set_conn; auto).
    split.
    + apply Inv_emit; auto. cbn [targetA]. unfold s'. rewrite idl_upd by apply keeps_set_conn. eapply hasA_of; eauto.
    + assert (Hwr : forall o, (o = OSend L sd id [] true \/ exists code, o = OReset L sd id code) -> WD (push C o s')).
      { intros o Ho. eapply (WD_push_write s s' o L l sd); eauto.
        - intros L' sx Ew. destruct Ho as [->|[code ->]]; cbn in Ew; apply andb_true_iff in Ew; destruct Ew as [A B];
            apply Nat.eqb_eq in A; apply side_eqb_eq in B; auto.
        - intros L' l' sx Hn. unfold s', upd_layer in Hn; cbn in Hn. rewrite nth_upd in Hn.
          destruct (Nat.eqb L L'); [|eauto].
          destruct (nth_error (layers s) L') as [l0|]; cbn in Hn; [|discriminate].
          inversion Hn; subst l'. exists l0; split; auto. destruct sd, sx; cbn; auto.
        - intros _ l' Hn. unfold s', upd_layer in Hn; cbn in Hn. rewrite nth_upd, Nat.eqb_refl, Hl in Hn. cbn in Hn.
          inversion Hn; subst l'. rewrite conn_set_conn_same. reflexivity. }
      destruct (emit_cases C w L (OSend L sd id [] true) s') as [E|[E|(L' & to & id' & d' & code & Eo & E)]]; rewrite E; auto.
      inversion Eo; subst. apply Hwr. right; eauto.
  - intros s l sd id [H1 H2] Hl Hi. split.
    + apply Inv_emit; auto. cbn. eapply hasA_of; eauto.
    + destruct (emit_cases C w L (OStop L sd id 0) s) as [E|[E|(? & ? & ? & ? & ? & E & _)]]; try discriminate; rewrite E; auto.
      apply WD_push_quiet; auto.
  - intros s l id nx [H1 H2] Hl Hs Hg. split; [eapply Inv_open; eauto|].
    destruct H2 as [Hw Hc]. split; [exact Hw|].
    intros L' l' sx Hn Hx. cbn in Hn, Hx. unfold open_server_stream, upd_layer in Hn; cbn in Hn. rewrite nth_upd in Hn.
    destruct (Nat.eqb L L') eqn:EL.
    + apply Nat.eqb_eq in EL; subst L'. rewrite Hl in Hn; cbn in Hn. inversion Hn; subst l'.
      destruct sx; [cbn; eapply (Hc L l Cl); eauto|].
      exfalso. (* a closing command for (L, Sv) would need a server id *)
      destruct H1 as [HA _]. pose proof (inv_outs _ _ _ _ _ HA) as Ht. rewrite Forall_forall in Ht.
      unfold closed_in in Hx. apply existsb_exists in Hx. destruct Hx as (o & Hin & Hcl).
      specialize (Ht o Hin). apply nth_idl in Hl.
      destruct o as [L2 s2 i2 d2 f2|L2 s2 i2 c2| | |]; cbn in Hcl; try discriminate.
      * destruct f2; try discriminate. apply andb_true_iff in Hcl. destruct Hcl as [A B].
        apply Nat.eqb_eq in A. destruct s2; try discriminate. subst L2. cbn in Ht.
        destruct Ht as (p & Hp & Hk). rewrite Hl in Hp. inversion Hp; subst p. cbn in Hk. congruence.
      * apply andb_true_iff in Hcl. destruct Hcl as [A B].
        apply Nat.eqb_eq in A. destruct s2; try discriminate. subst L2. cbn in Ht.
        destruct Ht as (p & Hp & Hk). rewrite Hl in Hp. inversion Hp; subst p. cbn in Hk. congruence.
    + eapply Hc; eauto.
Qed.
Lemma not_closed_beyond st L s : Inv st -> (length (layers st) <= L)%nat -> closed_in (outs st) L s = false.
Proof.
  intros [HA _] Hle. destruct (closed_in (outs st) L s) eqn:E; auto. exfalso.
  unfold closed_in in E. apply existsb_exists in E. destruct E as (o & Hin & Hc).
  pose proof (inv_outs _ _ _ _ _ HA) as Ht. rewrite Forall_forall in Ht. specialize (Ht o Hin).
  assert (Hlen : length (idl C st) = length (layers st)) by (unfold idl; apply map_length).
  destruct o as [L2 s2 i2 d2 f2|L2 s2 i2 c2| | |]; cbn in Hc; try discriminate.
  - destruct f2; try discriminate. apply andb_true_iff in Hc. destruct Hc as [A _]. apply Nat.eqb_eq in A. subst L2.
    cbn in Ht. apply hasA_lt in Ht. lia.
  - apply andb_true_iff in Hc. destruct Hc as [A _]. apply Nat.eqb_eq in A. subst L2.
    cbn in Ht. apply hasA_lt in Ht. lia.
Qed.

Lemma P_close w L s st : P st -> P (close_stream_layer C child_step w L s st).
Proof.
  intros H. unfold close_stream_layer, close_stream_layer_with.
  assert (Hr : forall st, P st -> P (upd_layer C L (set_conn C s (set_read false)) st)).
  { intros st0 [H1 H2]. split; [apply Inv_upd; auto; apply keeps_set_conn | apply WD_set_conn; auto]. }
  destruct (nth_error (layers st) L) as [l|]; [|destruct H; split; auto].
  destruct (negb _); [destruct (Hr st H); split; auto|].
  destruct (ts_end _); [apply Hr; auto|].
  apply P_etc. destruct (Hr st H) as [H1 H2].
  split; [apply Inv_upd; auto; apply keeps_set_conn | apply WD_set_conn; auto].
Qed.

Lemma P_post from k L st : P st -> P (post C child_step from k L st).
Proof.
  intros H. unfold post. destruct (err st); auto.
  destruct k as [d fin|code|code].
  - set (st1 := if is_empty d then st else _).
    assert (H1 : P st1) by (unfold st1; destruct (is_empty d); auto; apply P_etc; auto).
    destruct (err st1); auto. destruct fin; auto. apply P_close; auto.
  - apply P_close; auto.
  - destruct H; split; auto.
Qed.

Lemma P_handle_stream from id k st : P st -> P (handle_stream C child_step new_child from id k st).
Proof.
  intros H. unfold handle_stream.
  destruct (dict_get id _) as [L|] eqn:Eg; [apply P_post; auto|].
  destruct (negb (Bool.eqb (stream_is_client_initiated id) (is_cl from))) eqn:Ei; [destruct H; split; auto|].
  destruct (create_layer C new_child from id st) as [[L st2]|] eqn:Ec; [|destruct H; split; auto].
  apply P_post, P_etc. destruct H as [H1 [Hw Hc]].
  destruct (Inv_create C new_child from id st L st2 H1 Eg Ei Ec) as (HI & HL & Ho & _ & l' & Hl).
  split; auto. split; rewrite Ho; auto.
  intros L' l'' s Hn Hx. rewrite Hl in Hn.
  destruct (Nat.lt_ge_cases L' (length (layers st))) as [Hlt|Hge].
  - rewrite nth_error_app1 in Hn by auto. eapply Hc; eauto.
  - rewrite (not_closed_beyond st L' s H1 Hge) in Hx. discriminate.
Qed.

Lemma P_sweep from ls st : P st ->
  P (fold_left (fun st L => match err st with Some _ => st | None =>
         close_stream_layer C child_step WConnClose L from (upd_layer C L (set_conn C from (set_write false)) st) end) ls st).
Proof.
  revert st. induction ls as [|L t IH]; intros st2 H2; cbn; auto.
  apply IH. destruct (err st2); auto. apply P_close. destruct H2 as [H1 H2].
  split; [apply Inv_upd; auto; apply keeps_set_conn | apply WD_set_conn; auto].
Qed.

Lemma P_conn_closed from code st : P st -> P (handle_conn_closed C child_step from code st).
Proof.
  intros [H1 H2]. unfold handle_conn_closed. apply P_sweep.
  assert (Hq : forall st0, P st0 -> P (push C (OCloseConn (other from) code) st0)).
  { intros st0 [A B]. split; [apply Inv_push; cbn; auto | apply WD_push_quiet; auto]. }
  destruct from; cbn [root_s root_c with_roots].
  - destruct (root_s st); [apply Hq|]; split; auto.
  - destruct (root_c st); [apply Hq|]; split; auto.
Qed.

Lemma P_step st ev : P st -> P (step C child_step new_child st ev).
Proof.
  intros H. unfold step. destruct (err st); auto. destruct (done st); auto.
  destruct ev; [apply P_handle_stream | apply P_conn_closed]; auto.
Qed.

Lemma P_fold evs st : P st -> P (fold_left (step C child_step new_child) evs st).
Proof. revert st; induction evs as [|e t IH]; intros st H; cbn; auto. apply IH, P_step; auto. Qed.

Theorem P_run evs : P (run C child_step new_child evs).
Proof.
  apply P_fold. split; [apply Inv_init|]. split; cbn; auto. intros [|?] l s Hn; discriminate.
Qed.

(* the ghost layer of a command on (side, id) is determined by (side, id) *)
Definition on_stream (o : out) (to : side) (id : N) : bool :=
  match o with
  | OSend _ s i _ _ | OReset _ s i _ => side_eqb s to && (i =? id)
  | _ => false
  end.
Definition ends_stream (o : out) (to : side) (id : N) : bool :=
  match o with
  | OSend _ s i _ true | OReset _ s i _ => side_eqb s to && (i =? id)
  | _ => false
  end.

Lemma owner_unique st L1 L2 s id : Inv st -> hasA (idl C st) L1 s id -> hasA (idl C st) L2 s id -> L1 = L2.
Proof.
  intros [HA _] H1 H2. destruct s.
  - apply (inv_cmap _ _ _ _ _ HA) in H1, H2. congruence.
  - apply (inv_smap _ _ _ _ _ HA) in H1, H2. congruence.
Qed.

(* in the chronological command list: after a FIN / reset on (to, id) nothing is written to (to, id) *)
Theorem no_write_after_fin evs pre o post to id :
  rev (outs (run C child_step new_child evs)) = pre ++ o :: post ->
  ends_stream o to id = true ->
  forall o', In o' post -> on_stream o' to id = false.
Proof.
  intros Hrev He o' Hin.
  destruct (P_run evs) as [HI [Hw _]].
  set (st := run C child_step new_child evs) in *.
  assert (Hos : outs st = rev post ++ o :: rev pre).
  { rewrite <- (rev_involutive (outs st)), Hrev, rev_app_distr. cbn. rewrite <- app_assoc. reflexivity. }
  pose proof (inv_outs _ _ _ _ _ (proj1 HI)) as Ht. rewrite Forall_forall in Ht.
  assert (Io : In o (outs st)) by (rewrite Hos; apply in_or_app; right; left; reflexivity).
  assert (Io' : In o' (outs st)) by (rewrite Hos; apply in_or_app; left; apply in_rev in Hin; exact Hin).
  destruct (on_stream o' to id) eqn:Eo; auto. exfalso.
  assert (Ho : exists L, hasA (idl C st) L to id /\ closes o L to = true).
  { specialize (Ht o Io). destruct o as [L s i d f|L s i c| | |]; cbn in He; try discriminate.
    - destruct f; try discriminate. apply andb_true_iff in He. destruct He as [A B].
      apply side_eqb_eq in A. apply N.eqb_eq in B. subst. exists L. split; auto. cbn.
      rewrite Nat.eqb_refl. destruct to; reflexivity.
    - apply andb_true_iff in He. destruct He as [A B].
      apply side_eqb_eq in A. apply N.eqb_eq in B. subst. exists L. split; auto. cbn.
      rewrite Nat.eqb_refl. destruct to; reflexivity. }
  assert (Ho' : exists L, hasA (idl C st) L to id /\ writes o' L to = true).
  { specialize (Ht o' Io'). destruct o' as [L s i d f|L s i c| | |]; cbn in Eo; try discriminate.
    - apply andb_true_iff in Eo. destruct Eo as [A B].
      apply side_eqb_eq in A. apply N.eqb_eq in B. subst. exists L. split; auto. cbn.
      rewrite Nat.eqb_refl. destruct to; reflexivity.
    - apply andb_true_iff in Eo. destruct Eo as [A B].
      apply side_eqb_eq in A. apply N.eqb_eq in B. subst. exists L. split; auto. cbn.
      rewrite Nat.eqb_refl. destruct to; reflexivity. }
  destruct Ho as (L1 & Hh1 & Hc1). destruct Ho' as (L2 & Hh2 & Hw2).
  assert (L1 = L2) by (eapply owner_unique; eauto). subst L2.
  rewrite Hos in Hw. pose proof (wf_outs_app _ _ _ _ _ Hw Hc1 o') as Hx.
  rewrite Hx in Hw2; [discriminate|]. apply in_rev in Hin. exact Hin.
Qed.

End Write.
