(* Proofs/QuicDemuxRun.v -- the structural invariant holds in every reachable state of the
   RawQuicLayer model, for every child behaviour and every schedule of events. *)
From Coq Require Import NArith Arith List Bool Lia.
From MV Require Import Base.Bytes Model.QuicIdsPrelude Gen.QuicIds Model.QuicDemux
  Proofs.QuicIds Proofs.QuicDemuxCore Proofs.QuicDemuxInv.
Import ListNotations.
Open Scope N_scope.

Section Run.
Variable C : Type.
Variable child_step : C -> connst * connst -> cevent -> C * list ccmd.
Variable new_child : nat -> C.
Notation state := (state C).
Notation slayer := (slayer C).

Definition ids (l : slayer) : idp := (cid l, sid l).
Definition idl (st : state) : list idp := map ids (layers st).
Definition Inv (st : state) : Prop :=
  InvA (idl st) (client_ids st) (server_ids st) (next_ids st) (outs st) /\ NEA (idl st).

Lemma map_ids_upd L f (ls : list slayer) : keeps_ids C f -> map ids (upd_nth C L f ls) = map ids ls.
Proof.
  intros K. revert L; induction ls as [|x t IH]; intros [|n]; cbn; auto.
  - f_equal. unfold ids. destruct (K x) as [A B]. congruence.
  - f_equal. auto.
Qed.
Lemma idl_upd L f st : keeps_ids C f -> idl (upd_layer C L f st) = idl st.
Proof. intros K. unfold idl, upd_layer. cbn. apply map_ids_upd; auto. Qed.

Lemma nth_idl st L l : nth_error (layers st) L = Some l -> nth_error (idl st) L = Some (ids l).
Proof. intros H. unfold idl. apply map_nth_error; auto. Qed.
Lemma pid_ids l s : pid (ids l) s = stream_id l s.
Proof. destruct s; reflexivity. Qed.
Lemma hasA_of st L l s id : nth_error (layers st) L = Some l -> stream_id l s = Some id -> hasA (idl st) L s id.
Proof. intros H1 H2. exists (ids l). split; [apply nth_idl; auto | rewrite pid_ids; auto]. Qed.

Lemma emit_cases w L o (st : state) :
  emit C w L o st = st \/ emit C w L o st = push C o st \/
  exists L' to id d code, o = OSend L' to id d true /\ emit C w L o st = push C (OReset L' to id code) st.
Proof.
  unfold emit. destruct w; destruct o; auto.
  - destruct fin; auto. destruct (nth_error (layers st) L); auto.
    destruct (_ && _); auto. right; right. do 5 eexists; eauto.
  - destruct (is_empty d); auto.
Qed.

Lemma Inv_push st o : Inv st -> targetA (idl st) o -> Inv (push C o st).
Proof. intros [H N] T. split; auto. apply InvA_push; auto. Qed.

Lemma Inv_emit w L o st : Inv st -> targetA (idl st) o -> Inv (emit C w L o st).
Proof.
  intros H T. destruct (emit_cases w L o st) as [E|[E|(L' & to & id & d & code & -> & E)]]; rewrite E; auto.
  - apply Inv_push; auto.
  - apply Inv_push; auto.
Qed.

Lemma Inv_upd L f st : keeps_ids C f -> Inv st -> Inv (upd_layer C L f st).
Proof. intros K H. unfold Inv. rewrite idl_upd by auto. exact H. Qed.

Lemma Inv_fail e st : Inv st -> Inv (fail C e st).
Proof. intros H; exact H. Qed.

Lemma even_of_mod4 n : n mod 2 = 0 <-> (n mod 4 = 0 \/ n mod 4 = 2).
Proof. rewrite mod2_of_mod4. destruct (mod4_cases n) as [H|[H|[H|H]]]; rewrite H; cbn; split; intros; try lia; auto. Qed.
Lemma odd_of_mod4 n : n mod 2 = 1 <-> (n mod 4 = 1 \/ n mod 4 = 3).
Proof. rewrite mod2_of_mod4. destruct (mod4_cases n) as [H|[H|[H|H]]]; rewrite H; cbn; split; intros; try lia; auto. Qed.

Lemma nth_map_upd L g (ls : list slayer) L' :
  nth_error (map ids (upd_nth C L g ls)) L' =
  if Nat.eqb L' L then option_map (fun l => ids (g l)) (nth_error ls L') else nth_error (map ids ls) L'.
Proof.
  rewrite !nth_error_map, nth_upd. rewrite (Nat.eqb_sym L' L).
  destruct (Nat.eqb L L'); [|reflexivity]. destruct (nth_error ls L'); reflexivity.
Qed.

(* setting the server id of layer L (open_server_stream + registration) *)
Lemma Inv_set_sid st L l s :
  InvA (idl st) (client_ids st) (server_ids st) (next_ids st) (outs st) ->
  (forall L' c, L' <> L -> nth_error (idl st) L' = Some (c, None) -> c mod 2 = 0) ->
  nth_error (layers st) L = Some l -> sid l = None ->
  (forall L', ~ hasA (idl st) L' Sv s) ->
  s mod 4 = cid l mod 4 ->
  (s mod 2 = 0 -> s < counter (next_ids st) (s mod 4)) ->
  Inv (let st1 := open_server_stream C L s st in with_server_ids C (dict_set s L (server_ids st1)) st1).
Proof.
  intros HA HN Hl Hs Hf Hc Hb. cbn.
  assert (Hn : forall L', nth_error (idl (open_server_stream C L s st)) L' =
               if Nat.eqb L' L then Some (cid l, Some s) else nth_error (idl st) L').
  { intros L'. unfold idl, open_server_stream, upd_layer. cbn. rewrite nth_map_upd.
    destruct (Nat.eqb L' L) eqn:E; auto. apply Nat.eqb_eq in E; subst L'. rewrite Hl. reflexivity. }
  split.
  - eapply (InvA_set_sid (idl st)); eauto. apply nth_idl in Hl. unfold ids in Hl. rewrite Hs in Hl. exact Hl.
  - intros L' c Hp. change (idl (with_server_ids C _ _)) with (idl (open_server_stream C L s st)) in Hp.
    rewrite Hn in Hp. destruct (Nat.eqb L' L) eqn:E; [discriminate|].
    apply Nat.eqb_neq in E. eauto.
Qed.

Lemma class_even_open c : c mod 2 = 0 -> class_of true (stream_is_unidirectional c) = c mod 4.
Proof.
  intros H. rewrite unidirectional_spec. apply even_of_mod4 in H. destruct H as [H|H]; rewrite H; reflexivity.
Qed.
Lemma class_odd_open s : s mod 2 = 1 -> class_of false (stream_is_unidirectional s) = s mod 4.
Proof.
  intros H. rewrite unidirectional_spec. apply odd_of_mod4 in H. destruct H as [H|H]; rewrite H; reflexivity.
Qed.

(* the OpenConnection step of event_to_child *)
Lemma Inv_open st L l id nx : Inv st -> nth_error (layers st) L = Some l -> sid l = None ->
  get_next_available_stream_id (next_ids st) true (stream_is_unidirectional (cid l)) = Some (id, nx) ->
  Inv (let st1 := open_server_stream C L id (with_next C nx st) in
       with_server_ids C (dict_set id L (server_ids st1)) st1).
Proof.
  intros [HA HN] Hl Hs Hg.
  pose proof (alloc_spec _ true (stream_is_unidirectional (cid l)) (inv_cnt _ _ _ _ _ HA))
    as (id' & nx' & Hg' & Hok & Hid & Hm & Hb & Ho).
  assert (Eq : id' = id /\ nx' = nx) by (rewrite Hg in Hg'; inversion Hg'; auto); destruct Eq as [-> ->].
  assert (Hev : cid l mod 2 = 0).
  { apply (HN L). apply nth_idl in Hl. unfold ids in Hl. rewrite Hs in Hl. exact Hl. }
  rewrite (class_even_open _ Hev) in *.
  assert (Hide : id mod 2 = 0) by (apply even_of_mod4; rewrite Hm; apply even_of_mod4; auto).
  apply (Inv_set_sid (with_next C nx st) L l id); auto.
  - eapply InvA_bump; eauto.
  - intros L' c _ Hp. eapply HN; eauto.
  - intros L' ((c0 & so) & Hp & Hk). cbn in Hk. subst so.
    pose proof (inv_sfresh _ _ _ _ _ HA L' c0 id Hp Hide) as Hlt. rewrite Hm, <- Hid in Hlt. lia.
  - intros _. unfold with_next; cbn [next_ids]. rewrite Hm, Hb. lia.
Qed.

Lemma Inv_etc fuel w L ev st : Inv st -> Inv (etc C child_step fuel w L ev st).
Proof.
  apply (etc_P C child_step Inv w L).
  - intros; apply Inv_upd; auto; apply keeps_set_cst.
  - intros; apply Inv_upd; auto; apply keeps_set_conn.
  - intros; apply Inv_upd; auto; apply keeps_set_conn.
  - intros; apply Inv_fail; auto.
  - intros s l n H Hl. apply Inv_emit; auto. cbn. apply nth_idl in Hl. apply nth_error_Some. congruence.
  - intros s l sd id d H Hl Hi _. apply Inv_emit; auto. cbn. eapply hasA_of; eauto.
  - intros s l sd id H Hl Hi _. apply Inv_emit.
    + apply Inv_upd; auto; apply keeps_set_conn.
    + cbn [targetA]. rewrite idl_upd by apply keeps_set_conn. eapply hasA_of; eauto.
  - intros s l sd id H Hl Hi. apply Inv_emit; auto. cbn. eapply hasA_of; eauto.
  - intros; eapply Inv_open; eauto.
Qed.

Lemma Inv_close w L s st : Inv st -> Inv (close_stream_layer C child_step w L s st).
Proof.
  intros H. unfold close_stream_layer, close_stream_layer_with.
  destruct (nth_error (layers st) L) as [l|]; [|apply Inv_fail; auto].
  destruct (negb _); [apply Inv_fail, Inv_upd; auto; apply keeps_set_conn|].
  destruct (ts_end _); [apply Inv_upd; auto; apply keeps_set_conn|].
  apply Inv_etc. apply Inv_upd; [apply keeps_set_conn|]. apply Inv_upd; auto; apply keeps_set_conn.
Qed.

Lemma Inv_post from k L st : Inv st -> Inv (post C child_step from k L st).
Proof.
  intros H. unfold post. destruct (err st); auto.
  destruct k as [d fin|code|code].
  - set (st1 := if is_empty d then st else _).
    assert (H1 : Inv st1) by (unfold st1; destruct (is_empty d); auto; apply Inv_etc; auto).
    destruct (err st1); auto. destruct fin; auto. apply Inv_close; auto.
  - apply Inv_close; auto.
  - apply Inv_fail; auto.
Qed.

Lemma upd_nth_last_ (ls : list slayer) f x : upd_nth C (length ls) f (ls ++ [x]) = ls ++ [f x].
Proof. induction ls as [|y t IH]; cbn; [reflexivity | f_equal; auto]. Qed.

Lemma Inv_create from id st L st2 : Inv st ->
  dict_get id (match from with Cl => client_ids st | Sv => server_ids st end) = None ->
  negb (Bool.eqb (stream_is_client_initiated id) (is_cl from)) = false ->
  create_layer C new_child from id st = Some (L, st2) ->
  Inv st2 /\ L = length (layers st) /\ outs st2 = outs st /\ err st2 = err st /\
  exists l', layers st2 = layers st ++ [l'].
Proof.
  intros H Eg Ei Ec. unfold create_layer in Ec.
  apply negb_false_iff, eqb_prop in Ei. rewrite client_initiated_spec in Ei.
  destruct H as [HA HN].
  destruct from; cbn [is_cl] in Ei.
  - (* client opens a stream *)
    apply N.eqb_eq in Ei. inversion Ec; subst L st2; clear Ec.
    split; [|split; [reflexivity|split; [reflexivity|split; [reflexivity|eexists; reflexivity]]]].
    set (L := length (layers st)).
    assert (EL : L = length (idl st)) by (unfold idl; rewrite map_length; reflexivity).
    split; cbn.
    + unfold idl; cbn. rewrite map_app. cbn. unfold ids at 2; cbn. rewrite EL.
      apply InvA_new_layer; auto.
      * intros L' (p & Hp & Hk). cbn in Hk.
        assert (Hh : hasA (idl st) L' Cl id) by (exists p; auto).
        apply (inv_cmap _ _ _ _ _ HA) in Hh. cbn in Eg. congruence.
      * intros Ho. lia.
    + unfold idl; cbn. rewrite map_app. intros L' c Hp.
      destruct (Nat.lt_ge_cases L' (length (map ids (layers st)))) as [Hlt|Hge].
      * rewrite nth_error_app1 in Hp by auto. eapply HN; eauto.
      * rewrite nth_error_app2 in Hp by auto. destruct (L' - _)%nat as [|[|?]]; cbn in Hp; try discriminate.
        inversion Hp; subst c. auto.
  - (* server opens a stream *)
    assert (Hodd : id mod 2 = 1).
    { destruct (id mod 2 =? 0) eqn:E; [discriminate|]. apply N.eqb_neq in E.
      assert (Hlt2 : id mod 2 < 2) by (apply N.mod_lt; lia). remember (id mod 2) as r. clear Heqr. lia. }
    destruct (get_next_available_stream_id _ _ _) as [[c nx]|] eqn:Ea; [|discriminate].
    pose proof (alloc_spec _ false (stream_is_unidirectional id) (inv_cnt _ _ _ _ _ HA))
      as (c' & nx' & Hg' & Hok & Hid & Hm & Hb & Ho).
    assert (Eq : c' = c /\ nx' = nx) by (rewrite Ea in Hg'; inversion Hg'; auto); destruct Eq as [-> ->].
    rewrite (class_odd_open _ Hodd) in *.
    assert (Hco : c mod 2 = 1) by (apply odd_of_mod4; rewrite Hm; apply odd_of_mod4; auto).
    inversion Ec; subst L st2; clear Ec.
    split; [|split; [reflexivity|split; [reflexivity|split; [reflexivity|]]]].
    2:{ cbn. unfold upd_layer; cbn. eexists.
        rewrite upd_nth_last_. reflexivity. }
    set (L := length (layers st)) in *.
    set (st1 := with_client_ids C _ _).
    assert (EL : L = length (idl st)) by (unfold idl, L; cbn; rewrite map_length; reflexivity).
    assert (E1 : idl st1 = idl st ++ [(c, None)]) by (unfold idl, st1; cbn; rewrite map_app; reflexivity).
    assert (HA1 : InvA (idl st1) (client_ids st1) (server_ids st1) (next_ids st1) (outs st1)).
    { rewrite E1. unfold st1. cbn [client_ids server_ids next_ids outs with_client_ids with_layers with_next]. rewrite EL. apply InvA_new_layer.
      - eapply InvA_bump; eauto.
      - intros L' ((c0 & so) & Hp & Hk). cbn in Hk. inversion Hk; subst c0.
        pose proof (inv_cfresh _ _ _ _ _ HA L' c so Hp Hco) as Hlt. rewrite Hm, <- Hid in Hlt. lia.
      - intros _. rewrite Hm, Hb. lia. }
    assert (Hl1 : nth_error (layers st1) L = Some (mkLayer c None (init_cconn c) closed_conn (new_child L))).
    { unfold st1; cbn. rewrite nth_error_app2 by (unfold L; cbn; lia). unfold L; cbn. rewrite Nat.sub_diag. reflexivity. }
    eapply (Inv_set_sid st1 L _ id HA1); [| exact Hl1 | reflexivity | | |].
    + intros L' c0 Hne Hp. rewrite E1 in Hp.
      destruct (Nat.lt_ge_cases L' (length (idl st))) as [Hlt|Hge].
      * rewrite nth_error_app1 in Hp by auto. eapply HN; eauto.
      * rewrite nth_error_app2 in Hp by auto. destruct (L' - _)%nat as [|[|?]] eqn:Ed; cbn in Hp; try discriminate. lia.
    + intros L' (p & Hp & Hk). rewrite E1 in Hp.
      destruct (Nat.lt_ge_cases L' (length (idl st))) as [Hlt|Hge].
      * rewrite nth_error_app1 in Hp by auto.
        assert (Hh : hasA (idl st) L' Sv id) by (exists p; auto).
        apply (inv_smap _ _ _ _ _ HA) in Hh. cbn in Eg. congruence.
      * rewrite nth_error_app2 in Hp by auto. destruct (L' - _)%nat as [|[|?]]; cbn in Hp; try discriminate.
        inversion Hp; subst p. discriminate.
    + cbn. rewrite Hm. reflexivity.
    + intros He. lia.
Qed.

Lemma Inv_handle_stream from id k st : Inv st -> Inv (handle_stream C child_step new_child from id k st).
Proof.
  intros H. unfold handle_stream.
  destruct (dict_get id _) as [L|] eqn:Eg; [apply Inv_post; auto|].
  destruct (negb (Bool.eqb (stream_is_client_initiated id) (is_cl from))) eqn:Ei; [apply Inv_fail; auto|].
  destruct (create_layer C new_child from id st) as [[L st2]|] eqn:Ec; [|apply Inv_fail; auto].
  apply Inv_post, Inv_etc. eapply Inv_create; eauto.
Qed.

Lemma Inv_roots c s d st : Inv st -> Inv (with_roots C c s d st).
Proof. intros H; exact H. Qed.

Lemma Inv_sweep from ls st : Inv st ->
  Inv (fold_left (fun st L => match err st with Some _ => st | None =>
         close_stream_layer C child_step WConnClose L from (upd_layer C L (set_conn C from (set_write false)) st) end) ls st).
Proof.
  revert st. induction ls as [|L t IH]; intros st2 H2; cbn; auto.
  apply IH. destruct (err st2); auto. apply Inv_close. apply Inv_upd; auto. apply keeps_set_conn.
Qed.

Lemma Inv_conn_closed from code st : Inv st -> Inv (handle_conn_closed C child_step from code st).
Proof.
  intros H. unfold handle_conn_closed. apply Inv_sweep.
  destruct from; cbn [root_s root_c with_roots].
  - destruct (root_s st); [apply Inv_push; cbn; auto; apply Inv_roots; auto | apply Inv_roots, Inv_roots; auto].
  - destruct (root_c st); [apply Inv_push; cbn; auto; apply Inv_roots; auto | apply Inv_roots, Inv_roots; auto].
Qed.

Lemma Inv_step st ev : Inv st -> Inv (step C child_step new_child st ev).
Proof.
  intros H. unfold step. destruct (err st); auto. destruct (done st); auto.
  destruct ev; [apply Inv_handle_stream | apply Inv_conn_closed]; auto.
Qed.

Lemma Inv_init : Inv (init_state).
Proof.
  split.
  - constructor; cbn.
    + apply counters_ok_init.
    + intros k L; split; [discriminate | intros (p & Hp & _); destruct L; discriminate].
    + intros k L; split; [discriminate | intros (p & Hp & _); destruct L; discriminate].
    + intros [|?]; discriminate.
    + intros [|?]; discriminate.
    + intros [|?]; discriminate.
    + constructor.
  - intros [|?]; discriminate.
Qed.

Lemma Inv_fold evs st : Inv st -> Inv (fold_left (step C child_step new_child) evs st).
Proof. revert st; induction evs as [|e t IH]; intros st H; cbn; auto. apply IH, Inv_step; auto. Qed.

Theorem Inv_run evs : Inv (run C child_step new_child evs).
Proof. apply Inv_fold, Inv_init. Qed.

End Run.
