(* Proofs/ConnHandlerSem.v -- per-address concurrency bound: for every address a,
   semaphore value + tasks inside the async-with body + woken waiters = 5, in every reachable state. *)
From Coq Require Import List Bool Arith Lia.
From MV Require Import Model.ConnHandler Proofs.ConnHandlerBase Proofs.ConnHandlerPair.
Import ListNotations.

Definition in_region (p : cpc) : bool :=
  match p with
  | PConnecting | PHookErr _ | PHookConnected | PRead | PDrainLock _ | PDrain _ _ | PEvent | PHookDisc _ => true
  | _ => false
  end.
Definition is_woken (p : cpc) : bool := match p with PSem WWoken => true | _ => false end.
Definition wtv (b : nat) (ao : option nat) (p : cpc) : nat :=
  if match ao with Some a => Nat.eqb a b | None => false end && (in_region p || is_woken p) then 1 else 0.
Definition wt (b : nat) (x : conn) : nat := wtv b (c_addr x) (c_pc x).
Fixpoint total (b : nat) (l : list conn) : nat := match l with [] => 0 | x :: l' => wt b x + total b l' end.
Fixpoint totex (b : nat) (l : list conn) (c : nat) : nat :=
  match l with
  | [] => 0
  | x :: l' => match c with O => total b l' | S c' => wt b x + totex b l' c' end
  end.
Definition SS (b : nat) (s : st) : nat := semval s b + total b (conns s).
Definition rest (b c : nat) (s : st) : nat := semval s b + totex b (conns s) c.
Definition QQ (s : st) : Prop := forall a d, In d (semq s a) -> c_addr (getc s d) = Some a.
Definition JJ (s : st) : Prop := (forall b, SS b s = 5) /\ QQ s /\ c_addr (getc s 0) = None.

Lemma total_split : forall b l c, c < length l -> total b l = totex b l c + wt b (nth c l dconn).
Proof. induction l; simpl; intros; try lia. destruct c; try lia. rewrite (IHl c) by lia. lia. Qed.
Lemma totex_oob : forall b l c, length l <= c -> totex b l c = total b l.
Proof. induction l; simpl; intros; auto. destruct c; try lia. rewrite IHl by lia. auto. Qed.
Lemma totex_upd_same : forall b l c x, totex b (upd l c x) c = totex b l c.
Proof. induction l; simpl; intros; auto. destruct c; simpl; auto. Qed.
Lemma total_upd : forall b l d x, d < length l -> total b (upd l d x) + wt b (nth d l dconn) = total b l + wt b x.
Proof. induction l; simpl; intros; try lia. destruct d; simpl; try lia. specialize (IHl d x). lia. Qed.
Lemma totex_upd_other : forall b l c d x, d <> c -> d < length l ->
  totex b (upd l d x) c + wt b (nth d l dconn) = totex b l c + wt b x.
Proof.
  induction l; simpl; intros; try lia. destruct d, c; simpl; try lia.
  - pose proof (total_upd b l d x). lia.
  - specialize (IHl c d x). lia.
Qed.

Lemma wt_psoft : forall b x y, psoft x y -> wt b y = wt b x.
Proof.
  unfold psoft, wt. intros b x y (A & P & _). rewrite A. destruct P as [P | [[P P'] | [P P']]]; rewrite P; auto; rewrite P'.
  - unfold wtv. simpl. rewrite !andb_false_r. auto.
  - reflexivity.
Qed.
Lemma wt_isnew : forall b y, isnew y -> wt b y = 0.
Proof. intros b y [a H]. rewrite (wt_psoft _ _ _ H). unfold wt, wtv. simpl. rewrite andb_false_r. auto. Qed.
Lemma total_news : forall b l, Forall isnew l -> total b l = 0.
Proof. induction 1; simpl; auto. rewrite wt_isnew; auto. Qed.
Lemma total_lrel : forall b l l', lrel l l' -> total b l' = total b l.
Proof. induction 1; simpl. apply total_news; auto. rewrite (wt_psoft _ _ _ H). lia. Qed.
Lemma totex_lrel : forall b l l', lrel l l' -> forall c, c < length l -> totex b l' c = totex b l c.
Proof.
  induction 1; simpl; intros; try lia. destruct c.
  - apply total_lrel; auto.
  - rewrite (wt_psoft _ _ _ H), IHlrel by lia. auto.
Qed.

Lemma SS_frame : forall b s s', frame s s' -> SS b s' = SS b s.
Proof. intros b s s' []. unfold SS. rewrite f_semval, (total_lrel _ _ _ f_conns). auto. Qed.
Lemma rest_frame : forall b c s s', frame s s' -> c < length (conns s) -> rest b c s' = rest b c s.
Proof. intros b c s s' [] L. unfold rest. rewrite f_semval, (totex_lrel _ _ _ f_conns); auto. Qed.

Lemma psoft_addr : forall x y, psoft x y -> c_addr y = c_addr x. Proof. unfold psoft; tauto. Qed.

Lemma QQ_inrange : forall s a d, QQ s -> In d (semq s a) -> d < length (conns s).
Proof.
  intros s a d Q I. specialize (Q a d I). destruct (Nat.lt_ge_cases d (length (conns s))); auto.
  rewrite getc_oob in Q; auto. discriminate.
Qed.

Lemma QQ_frame : forall s s', frame s s' -> QQ s -> QQ s'.
Proof.
  intros s s' F Q a d I. destruct F as [F1 _ _ _ _ F2 _ _]. rewrite F2 in I.
  pose proof (QQ_inrange _ _ _ Q I) as L. rewrite <- (Q a d I). apply psoft_addr. unfold getc. apply lrel_nth; auto.
Qed.

Lemma addr0_frame : forall s s', frame s s' -> 0 < length (conns s) -> c_addr (getc s' 0) = c_addr (getc s 0).
Proof. intros s s' F L. apply psoft_addr. apply frame_getc; auto. Qed.

(* connection 0 exists in every state we care about *)
Definition HasClient (s : st) : Prop := 0 < length (conns s).

Lemma JJ_frame : forall s s', frame s s' -> HasClient s -> JJ s -> JJ s'.
Proof.
  intros s s' F L (J1 & J2 & J3). split; [|split].
  - intros. rewrite (SS_frame _ _ _ F). auto.
  - eapply QQ_frame; eauto.
  - rewrite (addr0_frame _ _ F L). auto.
Qed.

(* ---------------------------------------------------------------- a step of task c *)
Definition RV (c : nat) (S : st) (p : cpc) (ao : option nat) (u : nat -> nat) : Prop :=
  c < length (conns S) /\ c_pc (getc S c) = p /\ c_addr (getc S c) = ao /\
  (forall b, rest b c S + u b = 5) /\ QQ S /\ (c <> 0 -> c_addr (getc S 0) = None).

Lemma rest_setc_own : forall b c S x, rest b c (setc S c x) = rest b c S.
Proof. intros. unfold rest, setc. simpl. rewrite totex_upd_same. auto. Qed.

Lemma QQ_setc : forall S c x, c_addr x = c_addr (getc S c) -> QQ S -> QQ (setc S c x).
Proof.
  intros S c x A Q a d I. simpl in I. specialize (Q a d I). destruct (Nat.eq_dec c d).
  - subst. destruct (Nat.lt_ge_cases d (length (conns S))).
    + rewrite getc_setc_same; auto. congruence.
    + unfold setc. simpl. unfold getc in *. simpl. rewrite upd_oob; auto.
  - rewrite getc_setc_other; auto.
Qed.

Lemma rv_setc_gen : forall c S p ao u x, c_addr x = c_addr (getc S c) ->
  RV c S p ao u -> RV c (setc S c x) (c_pc x) ao u.
Proof.
  intros c S p ao u x A (L & P & Ad & R & Q & Z). unfold RV. rewrite len_setc, getc_setc_same; auto.
  repeat split; auto; try congruence.
  - intros. rewrite rest_setc_own. auto.
  - apply QQ_setc; auto.
  - intros. rewrite getc_setc_other; auto.
Qed.

Lemma rv_setc_pc : forall c S p ao u q, RV c S p ao u -> RV c (setc S c (with_pc (getc S c) q)) q ao u.
Proof. intros. eapply (rv_setc_gen c S p ao u (with_pc (getc S c) q)); eauto. Qed.
Lemma rv_setc_wake : forall c S p ao u k f, RV c S p ao u -> RV c (setc S c (with_wake (getc S c) k f)) p ao u.
Proof.
  intros. pose proof H as (_ & P & _). pose proof (rv_setc_gen c S p ao u (with_wake (getc S c) k f) eq_refl H) as G.
  cbn [c_pc with_wake with_state with_err with_io] in G. rewrite P in G. exact G.
Qed.
Lemma rv_setc_state : forall c S p ao u a b, RV c S p ao u -> RV c (setc S c (with_state (getc S c) a b)) p ao u.
Proof.
  intros. pose proof H as (_ & P & _). pose proof (rv_setc_gen c S p ao u (with_state (getc S c) a b) eq_refl H) as G.
  cbn [c_pc with_wake with_state with_err with_io] in G. rewrite P in G. exact G.
Qed.
Lemma rv_setc_err : forall c S p ao u, RV c S p ao u -> RV c (setc S c (with_err (getc S c))) p ao u.
Proof.
  intros. pose proof H as (_ & P & _). pose proof (rv_setc_gen c S p ao u (with_err (getc S c)) eq_refl H) as G.
  cbn [c_pc with_wake with_state with_err with_io] in G. rewrite P in G. exact G.
Qed.
Lemma rv_setc_io : forall c S p ao u e w, RV c S p ao u -> RV c (setc S c (with_io (getc S c) e w)) p ao u.
Proof.
  intros. pose proof H as (_ & P & _). pose proof (rv_setc_gen c S p ao u (with_io (getc S c) e w) eq_refl H) as G.
  cbn [c_pc with_wake with_state with_err with_io] in G. rewrite P in G. exact G.
Qed.
Lemma rv_setc_io_state : forall c S p ao u e w a b, RV c S p ao u -> RV c (setc S c (with_io (with_state (getc S c) a b) e w)) p ao u.
Proof.
  intros. pose proof H as (_ & P & _). pose proof (rv_setc_gen c S p ao u (with_io (with_state (getc S c) a b) e w) eq_refl H) as G.
  cbn [c_pc with_wake with_state with_err with_io] in G. rewrite P in G. exact G.
Qed.

Lemma rv_emit : forall c S p ao u e, RV c S p ao u -> RV c (emit S e) p ao u.
Proof. intros. exact H. Qed.

Definition npend (p : cpc) : Prop := p <> PSem WPending /\ p <> PDrainLock WPending.

Lemma rv_frame : forall c S S' p ao u, frame S S' -> RV c S p ao u -> npend p -> RV c S' p ao u.
Proof.
  intros c S S' p ao u F (L & P & Ad & R & Q & Z) NP. pose proof (frame_len _ _ F).
  pose proof (frame_getc _ _ c F L) as (A' & P' & _).
  repeat split; try lia.
  - destruct NP as [NP1 NP2]. destruct P' as [P' | [[P' _] | [P' _]]]; congruence.
  - congruence.
  - intros. rewrite (rest_frame _ _ _ _ F); auto.
  - eapply QQ_frame; eauto.
  - intros. rewrite (addr0_frame _ _ F); auto. lia.
Qed.

Lemma rv_server_event : forall c S p ao u e, RV c S p ao u -> npend p -> RV c (server_event S e) p ao u.
Proof. intros. eapply rv_frame; eauto using frame_server_event. Qed.
Lemma rv_drain_error : forall c S p ao u d, RV c S p ao u -> npend p -> RV c (drain_error S d) p ao u.
Proof. intros. eapply rv_frame; eauto using frame_drain_error. Qed.
Lemma rv_setc_cong : forall c S p ao u d b, RV c S p ao u -> npend p -> RV c (setc S d (with_cong (getc S d) b)) p ao u.
Proof. intros. eapply rv_frame; eauto. apply frame_setc. unfold psoft; simpl; intuition. Qed.
Lemma rv_set_lock : forall c S p ao u b q, RV c S p ao u -> RV c (set_lock S b q) p ao u.
Proof. intros c S p ao u b q H. exact H. Qed.

(* semaphore operations of the task on its own address *)
Definition bump (a : nat) (u : nat -> nat) : nat -> nat := fun b => if Nat.eqb b a then u b + 1 else u b.
Definition drop (a : nat) (u : nat -> nat) : nat -> nat := fun b => if Nat.eqb b a then u b - 1 else u b.

Lemma rest_set_sem : forall b c S a v q,
  rest b c (set_sem S a v q) = if Nat.eqb b a then v + totex b (conns S) c else rest b c S.
Proof. intros. unfold rest. simpl. destruct (Nat.eqb b a); auto. Qed.

Lemma rv_sem_queue : forall c S p a u q,
  RV c S p (Some a) u -> (forall d, In d q -> d = c \/ In d (semq S a)) ->
  RV c (set_sem S a (semval S a) q) p (Some a) u.
Proof.
  intros c S p a u q (L & P & Ad & R & Q & Z) Hq. repeat split; auto.
  - intros. rewrite rest_set_sem. destruct (Nat.eqb b a) eqn:E; auto. apply Nat.eqb_eq in E. subst. apply R.
  - intros a' d I. simpl in I. change (getc (set_sem S a (semval S a) q) d) with (getc S d).
    destruct (Nat.eqb a' a) eqn:E.
    + apply Nat.eqb_eq in E. subst. destruct (Hq d I); subst; auto.
    + apply Q; auto.
Qed.

Lemma rv_sem_dec : forall c S p a u,
  RV c S p (Some a) u -> semval S a <> 0 -> RV c (set_sem S a (semval S a - 1) (semq S a)) p (Some a) (bump a u).
Proof.
  intros c S p a u (L & P & Ad & R & Q & Z) NZ. repeat split; auto.
  - intros. rewrite rest_set_sem. unfold bump. destruct (Nat.eqb b a) eqn:E; auto.
    apply Nat.eqb_eq in E. subst. specialize (R a). unfold rest in R. lia.
  - intros a' d I. simpl in I. change (getc (set_sem S a (semval S a - 1) (semq S a)) d) with (getc S d).
    destruct (Nat.eqb a' a) eqn:E; [apply Nat.eqb_eq in E; subst|]; apply Q; auto.
Qed.

Lemma rv_sem_inc : forall c S p a u,
  RV c S p (Some a) u -> 1 <= u a -> RV c (set_sem S a (semval S a + 1) (semq S a)) p (Some a) (drop a u).
Proof.
  intros c S p a u (L & P & Ad & R & Q & Z) NZ. repeat split; auto.
  - intros. rewrite rest_set_sem. unfold drop. destruct (Nat.eqb b a) eqn:E; auto.
    apply Nat.eqb_eq in E. subst. specialize (R a). unfold rest in R. lia.
  - intros a' d I. simpl in I. change (getc (set_sem S a (semval S a + 1) (semq S a)) d) with (getc S d).
    destruct (Nat.eqb a' a) eqn:E; [apply Nat.eqb_eq in E; subst|]; apply Q; auto.
Qed.

Lemma first_pending_in : forall s q d, first_pending s q = Some d -> In d q /\ c_pc (getc s d) = PSem WPending.
Proof.
  induction q; simpl; intros; try discriminate.
  destruct (c_pc (getc s a)) eqn:E; try (destruct (IHq _ H); auto).
  destruct w; try (destruct (IHq _ H); auto). inversion H; subst; auto.
Qed.

Lemma rv_wake_next : forall c S p ao u a,
  RV c S p ao u -> npend p -> 1 <= semval S a -> RV c (wake_next S a) p ao u.
Proof.
  intros c S p ao u a H [NP _] V. unfold wake_next. destruct (first_pending S (semq S a)) eqn:E; auto.
  destruct (first_pending_in _ _ _ E) as [I Pd]. destruct H as (L & P & Ad & R & Q & Z).
  assert (Dc : n <> c) by (intro; subst; congruence).
  pose proof (QQ_inrange _ _ _ Q I) as Ln. pose proof (Q a n I) as An.
  set (y := with_wake (with_pc (getc S n) (PSem WWoken)) (Some PNone) (c_cf (getc S n))).
  assert (Ay : c_addr y = c_addr (getc S n)) by reflexivity.
  repeat split; simpl; rewrite ?upd_length; auto.
  - rewrite <- P. unfold getc. simpl. rewrite nth_upd_other; auto.
  - rewrite <- Ad. unfold getc. simpl. rewrite nth_upd_other; auto.
  - intros b. specialize (R b). unfold rest in *. simpl.
    pose proof (totex_upd_other b (conns S) c n y Dc Ln) as T. fold (getc S n) in T.
    unfold wt in T. rewrite Ay, An, Pd in T. simpl in T. unfold wtv in T. simpl in T.
    destruct (Nat.eqb b a) eqn:Eb.
    + apply Nat.eqb_eq in Eb. subst. rewrite Nat.eqb_refl in T. simpl in T. lia.
    + rewrite Nat.eqb_sym, Eb in T. simpl in T. lia.
  - intros a' d I'. simpl in I'.
    assert (I2 : In d (semq S a')) by (destruct (Nat.eqb a' a) eqn:E'; [apply Nat.eqb_eq in E'; subst|]; auto).
    specialize (Q a' d I2). unfold getc in *. simpl. destruct (Nat.eq_dec n d).
    + subst. rewrite nth_upd_same; auto.
    + rewrite nth_upd_other; auto.
  - intros. unfold getc. simpl. destruct (Nat.eq_dec n 0).
    + subst. rewrite nth_upd_same; auto; try (rewrite Ay; apply Z; auto); try (apply Z; auto).
    + rewrite nth_upd_other; auto; try (apply Z; auto).
Qed.

Lemma rv_release_some : forall c S p a u,
  RV c S p (Some a) u -> npend p -> 1 <= u a -> RV c (release_of S c) p (Some a) (drop a u).
Proof.
  intros c S p a u H NP U. unfold release_of. assert (Ad : c_addr (getc S c) = Some a) by (destruct H as (_ & _ & Ad & _); exact Ad).
  rewrite Ad. unfold sem_release.
  apply rv_wake_next; auto.
  - apply rv_sem_inc; auto.
  - simpl. rewrite Nat.eqb_refl. lia.
Qed.
Lemma rv_release_none : forall c S p u, RV c S p None u -> RV c (release_of S c) p None u.
Proof. intros c S p u H. unfold release_of. assert (Ad : c_addr (getc S c) = None) by (destruct H as (_ & _ & Ad & _); exact Ad). rewrite Ad. auto. Qed.

Lemma rv_finish : forall c S p ao u x k, RV c S p ao u -> RV c (finish S c x k) (PDone x) ao u.
Proof.
  intros. unfold finish. apply rv_emit.
  apply (rv_setc_gen c S p ao u (with_wake (with_pc (getc S c) (PDone x)) None false) eq_refl H).
Qed.
Lemma rv_goto : forall c S p ao u q, RV c S p ao u -> RV c (goto S c q) q ao u.
Proof. intros. unfold goto. eapply rv_setc_pc; eauto. Qed.
Lemma rv_hook_at : forall c S p ao u k q, RV c S p ao u -> RV c (hook_at S c k q) q ao u.
Proof. intros. unfold hook_at. eapply rv_goto. apply rv_emit. eauto. Qed.
Lemma rv_hc_read : forall c S p ao u, RV c S p ao u -> RV c (hc_read S c) PRead ao u.
Proof. intros. unfold hc_read. eapply rv_goto. apply rv_emit. eauto. Qed.
Lemma rv_enter : forall c S p ao u, RV c S p ao u -> RV c (enter_sem_body S c) PConnecting ao u.
Proof. intros. unfold enter_sem_body. eapply rv_goto. apply rv_emit. eauto. Qed.

Lemma rv_wake_first : forall c S p ao u, RV c S p ao u -> npend p -> RV c (wake_first S) p ao u.
Proof.
  intros c S p ao u H [_ NP]. unfold wake_first. destruct (dlockq S) as [|n q]; auto.
  destruct (c_pc (getc S n)) eqn:Pd; auto. destruct w; auto.
  destruct H as (L & P & Ad & R & Q & Z).
  assert (Dc : n <> c) by (intro; subst; congruence).
  set (y := with_wake (with_pc (getc S n) (PDrainLock WWoken)) (Some PNone) (c_cf (getc S n))).
  assert (Ay : c_addr y = c_addr (getc S n)) by reflexivity.
  destruct (Nat.lt_ge_cases n (length (conns S))) as [Ln | Ln].
  2:{ unfold setc. rewrite upd_oob; auto. repeat split; auto. }
  repeat split; simpl; rewrite ?upd_length; auto.
  - rewrite <- P. unfold getc. simpl. rewrite nth_upd_other; auto.
  - rewrite <- Ad. unfold getc. simpl. rewrite nth_upd_other; auto.
  - intros b. specialize (R b). unfold rest in *. simpl.
    pose proof (totex_upd_other b (conns S) c n y Dc Ln) as T. fold (getc S n) in T.
    assert (W : wt b y = wt b (getc S n)) by (unfold wt; rewrite Ay; unfold y; simpl; rewrite Pd; reflexivity).
    lia.
  - intros a' d I'. simpl in I'. specialize (Q a' d I'). unfold getc in *. simpl. destruct (Nat.eq_dec n d).
    + subst. rewrite nth_upd_same; auto.
    + rewrite nth_upd_other; auto.
  - intros. unfold getc. simpl. destruct (Nat.eq_dec n 0).
    + subst. rewrite nth_upd_same; auto; try (rewrite Ay; apply Z; auto); try (apply Z; auto).
    + rewrite nth_upd_other; auto; try (apply Z; auto).
Qed.
Lemma rv_lock_release : forall c S p ao u, RV c S p ao u -> npend p -> RV c (lock_release S) p ao u.
Proof. intros. unfold lock_release. destruct (dlocked S); auto. apply rv_wake_first; auto. Qed.

Definition Fin (c : nat) (S : st) : Prop :=
  exists p ao u, RV c S p ao u /\ (c = 0 -> ao = None) /\ forall b, u b = wtv b ao p.

Lemma fin_JJ : forall c S, Fin c S -> JJ S.
Proof.
  intros c S (p & ao & u & H & C0 & U). destruct H as (L & P & Ad & R & Q & Z). split; [|split]; auto.
  - intros b. unfold SS. rewrite (total_split b _ c L). fold (getc S c). unfold wt. rewrite P, Ad, <- U.
    specialize (R b). unfold rest in R. lia.
  - destruct (Nat.eq_dec c 0) as [e|n]; auto. rewrite e in Ad. rewrite Ad. auto.
Qed.

Lemma fin_rv : forall c S p ao u, RV c S p ao u -> (c = 0 -> ao = None) -> (forall b, u b = wtv b ao p) -> Fin c S.
Proof. intros. exists p, ao, u. auto. Qed.

Lemma fin_hc_cleanup : forall c S p ao u b, RV c S p ao u -> (c = 0 -> ao = None) ->
  (forall b, u b = wtv b ao PRead) -> Fin c (hc_cleanup S c b).
Proof.
  intros c S p ao u b H C0 U. unfold hc_cleanup. destruct (Nat.eqb c 0) eqn:E.
  - apply Nat.eqb_eq in E. subst. rewrite (C0 eq_refl) in *.
    eapply fin_rv; [eapply rv_finish; eapply rv_setc_io; eapply rv_emit; eauto|auto|intros; rewrite U; auto].
  - eapply fin_rv; [eapply rv_hook_at; eapply rv_setc_io; eapply rv_emit; eauto|auto|intros; rewrite U; auto].
Qed.

Lemma fin_hc_after_loop : forall c S p ao u b, RV c S p ao u -> npend p -> (c = 0 -> ao = None) ->
  (forall b, u b = wtv b ao PRead) -> Fin c (hc_after_loop S c b).
Proof.
  intros c S p ao u b H NP C0 U. unfold hc_after_loop.
  match goal with |- context [server_event ?S1 _] =>
    assert (H1 : RV c S1 p ao u) by (destruct b; apply rv_setc_state; auto) end.
  destruct (_ && _).
  - eapply fin_rv; [eapply rv_goto; eapply rv_server_event; eauto|auto|intros; rewrite U; auto].
  - eapply fin_hc_cleanup; eauto. eapply rv_server_event; eauto.
Qed.

Lemma fin_drain_go : forall c l S p ao u, RV c S p ao u -> npend p -> (c = 0 -> ao = None) ->
  (forall b, u b = wtv b ao PRead) -> Fin c (drain_go S c l).
Proof.
  induction l; simpl; intros S p ao u H NP C0 U.
  - eapply fin_rv; [eapply rv_hc_read, rv_lock_release; eauto|auto|auto].
  - destruct (c_writer (getc S a)); eauto. destruct (c_broken (getc S a)).
    + eapply IHl; eauto. eapply rv_drain_error; eauto.
    + destruct (c_cong (getc S a)); eauto.
      eapply fin_rv; [eapply rv_goto, rv_emit; eauto|auto|intros; rewrite U; reflexivity].
Qed.
Lemma fin_drain_start : forall c S p ao u, RV c S p ao u -> npend p -> (c = 0 -> ao = None) ->
  (forall b, u b = wtv b ao PRead) -> Fin c (drain_start S c).
Proof.
  intros. unfold drain_start. destruct (lock_free S).
  - eapply fin_drain_go; [eapply rv_set_lock; eauto| | |]; eauto.
  - destruct (c_cf (getc S c)); (eapply fin_rv; [eapply rv_goto, rv_set_lock; eauto|auto|intros; rewrite H2; reflexivity]).
Qed.

Lemma sem_locked_false : forall S a, sem_locked S a = false -> semval S a <> 0.
Proof. unfold sem_locked. intros S a H. apply orb_false_iff in H as [H _]. apply Nat.eqb_neq in H. auto. Qed.

Lemma in_remove1 : forall c q d, In d (remove1 c q) -> In d q.
Proof. induction q; simpl; intros; auto. destruct (Nat.eqb a c); simpl in *; intuition. Qed.

Ltac svr :=
  repeat match goal with
  | |- RV _ _ _ _ _ => eassumption
  | |- RV _ (finish _ _ _ _) _ _ _ => eapply rv_finish
  | |- RV _ (hook_at _ _ _ _) _ _ _ => eapply rv_hook_at
  | |- RV _ (hc_read _ _) _ _ _ => eapply rv_hc_read
  | |- RV _ (enter_sem_body _ _) _ _ _ => eapply rv_enter
  | |- RV _ (goto _ _ _) _ _ _ => eapply rv_goto
  | |- RV _ (release_of _ _) _ (Some _) _ => eapply rv_release_some
  | |- RV _ (release_of _ _) _ None _ => eapply rv_release_none
  | |- RV _ (server_event _ _) _ _ _ => eapply rv_server_event
  | |- RV _ (set_lock _ _ _) _ _ _ => eapply rv_set_lock
  | |- RV _ (lock_release _) _ _ _ => eapply rv_lock_release
  | |- RV _ (wake_first _) _ _ _ => eapply rv_wake_first
  | |- RV _ (drain_error _ _) _ _ _ => eapply rv_drain_error
  | |- RV _ (setc _ _ (with_cong _ _)) _ _ _ => eapply rv_setc_cong
  | |- RV _ (wake_next _ _) _ _ _ => eapply rv_wake_next
  | |- RV _ (set_sem ?S ?a (semval ?S ?a - 1) _) _ _ _ => eapply rv_sem_dec
  | |- RV _ (set_sem ?S ?a (semval ?S ?a + 1) _) _ _ _ => eapply rv_sem_inc
  | |- RV _ (set_sem ?S ?a (semval ?S ?a) _) _ _ _ => eapply rv_sem_queue
  | |- RV _ (setc _ _ (with_io (with_state _ _ _) _ _)) _ _ _ => eapply rv_setc_io_state
  | |- RV _ (setc _ _ (with_io _ _ _)) _ _ _ => eapply rv_setc_io
  | |- RV _ (setc _ _ (with_err _)) _ _ _ => eapply rv_setc_err
  | |- RV _ (setc _ _ (with_state _ _ _)) _ _ _ => eapply rv_setc_state
  | |- RV _ (setc _ _ (with_wake _ _ _)) _ _ _ => eapply rv_setc_wake
  | |- RV _ (setc _ _ (with_pc _ _)) _ _ _ => eapply rv_setc_pc
  | |- semval _ _ <> 0 => apply sem_locked_false; assumption
  | |- forall d, In d (_ ++ [_]) -> _ => let d := fresh "d" in let I := fresh "I" in intros d I; apply in_app_or in I; destruct I as [I|[I|[]]]; auto
  | |- forall d, In d (remove1 _ _) -> _ => let d := fresh "d" in let I := fresh "I" in intros d I; right; eapply in_remove1; eauto
  | |- npend _ => split; discriminate
  | |- _ <> _ => discriminate
  | EV : (0 <? ?v) = true |- 1 <= ?v => apply Nat.ltb_lt in EV; exact EV
  | |- 1 <= _ => solve [unfold wtv, drop, bump; simpl; rewrite ?Nat.eqb_refl; simpl; lia]
  end.

Ltac ucheck :=
  intros; unfold bump, drop, wtv; simpl;
  repeat match goal with |- context [Nat.eqb ?x ?y] => destruct (Nat.eqb_spec x y); subst; simpl end;
  try congruence; try lia; auto.

Ltac fin :=
  match goal with Ea : c_addr _ = ?ao |- _ => eapply (fin_rv _ _ _ ao) end; [svr | first [assumption | intros; congruence] | try solve [ucheck]].

Lemma jj_rv0 : forall s c, JJ s -> c < length (conns s) ->
  RV c s (c_pc (getc s c)) (c_addr (getc s c)) (fun b => wtv b (c_addr (getc s c)) (c_pc (getc s c))).
Proof.
  intros s c (J1 & J2 & J3) L. repeat split; auto.
  intros b. specialize (J1 b). unfold SS in J1. rewrite (total_split b _ c L) in J1. unfold rest.
  fold (getc s c) in J1. unfold wt in J1. lia.
Qed.

Ltac finL := match goal with Ea : c_addr _ = ?ao |- _ => eapply (fin_hc_after_loop _ _ _ ao) end; [svr | split; discriminate | first [assumption | intros; congruence] | try solve [ucheck]].
Ltac finC := match goal with Ea : c_addr _ = ?ao |- _ => eapply (fin_hc_cleanup _ _ _ ao) end; [svr | first [assumption | intros; congruence] | try solve [ucheck]].
Ltac finD := match goal with Ea : c_addr _ = ?ao |- _ => eapply (fin_drain_go _ _ _ _ ao) end; [svr | split; discriminate | first [assumption | intros; congruence] | try solve [ucheck]].
Ltac finS := match goal with Ea : c_addr _ = ?ao |- _ => eapply (fin_drain_start _ _ _ ao) end; [svr | split; discriminate | first [assumption | intros; congruence] | try solve [ucheck]].
Ltac drain_cases :=
  first
  [ (* PRead, normal *)
    destruct (c_wk (getc _ _)) as [[| |[| |]| |]|]; try solve [fin]; first [finS | finL]
  ].
Lemma jj_run_conn : forall s c, JJ s -> c < length (conns s) -> JJ (run_conn s c).
Proof.
  intros s c J L. apply (fin_JJ c). pose proof (jj_rv0 s c J L) as H0.
  assert (C0 : c = 0 -> c_addr (getc s c) = None) by (intros; subst; apply J).
  unfold run_conn.
  destruct (c_addr (getc s c)) as [a|] eqn:Ea; destruct (c_pc (getc s c)) eqn:Epc; destruct (c_cf (getc s c)) eqn:Ecf.
  all: try solve [fin].
  - destruct (Nat.eqb_spec c 0) as [e|ne]; [discriminate (C0 e)|fin].
  - match goal with |- context [if ?k then setc _ _ (with_err _) else _] => destruct k end;
    (match goal with |- context [c_err (getc ?S c)] => destruct (c_err (getc S c)) end; [fin|]);
    (match goal with |- context [c_addr (getc ?S c)] =>
       assert (EA : c_addr (getc S c) = Some a) by
         (repeat (rewrite getc_setc_same; [|rewrite ?len_setc; auto]); simpl; auto); rewrite EA end);
    (match goal with |- context [sem_locked ?S ?a] => destruct (sem_locked S a) eqn:EL end).
    all: try solve [fin].
  - destruct w; try solve [fin].
  - destruct w; try solve [fin].
    match goal with |- context [Nat.ltb 0 ?v] => destruct (Nat.ltb 0 v) eqn:EV end; try solve [fin].
  - destruct (c_wk (getc s c)) as [[| | |[|]|]|]; fin.
  - finL.
  - destruct (c_wk (getc s c)) as [[| |[| |]| |]|]; try solve [fin]; first [finS | finL].
  - destruct w; try solve [fin];
      (match goal with |- context [if dlocked ?S then _ else _] => destruct (dlocked S) end; finL).
  - destruct w; try solve [fin]; finD.
  - finL.
  - destruct (c_wk (getc s c)) as [[| | | |[|]]|]; try solve [fin]; finD.
  - finC.
  - destruct (Nat.eqb c 0); fin.
  - match goal with |- context [if ?k then setc _ _ (with_err _) else _] => destruct k end;
    (match goal with |- context [c_err (getc ?S c)] => destruct (c_err (getc S c)) end; [fin|]);
    (match goal with |- context [c_addr (getc ?S c)] =>
       assert (EA : c_addr (getc S c) = None) by
         (repeat (rewrite getc_setc_same; [|rewrite ?len_setc; auto]); simpl; auto); rewrite EA end); fin.
  - destruct (c_wk (getc s c)) as [[| | |[|]|]|]; fin.
  - finL.
  - destruct (c_wk (getc s c)) as [[| |[| |]| |]|]; try solve [fin]; first [finS | finL].
  - destruct w; try solve [fin];
      (match goal with |- context [if dlocked ?S then _ else _] => destruct (dlocked S) end; finL).
  - destruct w; try solve [fin]; finD.
  - finL.
  - destruct (c_wk (getc s c)) as [[| | | |[|]]|]; try solve [fin]; finD.
  - finC.
Qed.


(* ---------------------------------------------------------------- the other steps *)
Lemma JJ_same : forall s s', conns s' = conns s -> semval s' = semval s -> semq s' = semq s -> JJ s -> JJ s'.
Proof.
  intros s s' C V Q (J1 & J2 & J3). unfold JJ, SS, QQ, getc in *. rewrite C, V, Q. auto.
Qed.

Lemma wt_noaddr : forall b x, c_addr x = None -> wt b x = 0.
Proof. intros. unfold wt, wtv. rewrite H. auto. Qed.

Lemma JJ_setc0 : forall s x, HasClient s -> c_addr x = None -> JJ s -> JJ (setc s 0 x).
Proof.
  intros s x L A (J1 & J2 & J3). split; [|split].
  - intros b. specialize (J1 b). unfold SS in *. simpl.
    pose proof (total_upd b (conns s) 0 x L) as T. fold (getc s 0) in T.
    rewrite (wt_noaddr b x A), (wt_noaddr b _ J3) in T. lia.
  - apply QQ_setc; auto. congruence.
  - rewrite getc_setc_same; auto.
Qed.

Definition J2 (s : st) : Prop := JJ s /\ HasClient s.

Lemma hc_frame : forall s s', frame s s' -> HasClient s -> HasClient s'.
Proof. unfold HasClient. intros. pose proof (frame_len _ _ H). lia. Qed.

Lemma j2_frame : forall s s', frame s s' -> J2 s -> J2 s'.
Proof. intros s s' F [J H]. split; eauto using JJ_frame, hc_frame. Qed.

Lemma j2_same : forall s s', conns s' = conns s -> semval s' = semval s -> semq s' = semq s -> J2 s -> J2 s'.
Proof. intros s s' C V Q [J H]. split. eapply JJ_same; eauto. unfold HasClient in *. rewrite C. auto. Qed.

Lemma j2_setc0 : forall s x, c_addr x = None -> J2 s -> J2 (setc s 0 x).
Proof. intros s x A [J H]. split. apply JJ_setc0; auto. unfold HasClient in *. rewrite len_setc. auto. Qed.

Lemma j2_run_main : forall s, J2 s -> J2 (run_main s).
Proof.
  intros s J. assert (A0 : c_addr (getc s 0) = None) by apply J. unfold run_main. destruct (mainpc s).
  - eapply j2_same; [| | |exact J]; reflexivity.
  - match goal with |- context [client_err ?S1] => set (s1 := S1) end.
    assert (J1 : J2 s1) by (eapply j2_same; [| | |exact J]; reflexivity).
    destruct (client_err s1).
    + eapply j2_same; [| | |apply (j2_setc0 s1 (with_io (getc s1 0) false WClosed)); auto]; reflexivity.
    + assert (J3 : J2 (server_event s1 LStart)) by (eapply j2_frame; eauto using frame_server_event).
      eapply j2_same; [| | |eapply j2_setc0; [|exact J3]]; try reflexivity.
      simpl. apply J3.
  - eapply j2_same; [| | |exact J]; reflexivity.
  - match goal with |- context [existsb c_entry (conns ?S0)] => set (s0 := S0) end.
    assert (J0 : J2 s0) by (eapply j2_same; [| | |exact J]; reflexivity).
    assert (J1 : J2 (cancel_all s0 (length (conns s)) 0)) by (eapply j2_frame; eauto using frame_cancel_all).
    destruct (existsb c_entry (conns s0)).
    + destruct (waited (conns s0) 0); (eapply j2_same; [| | |exact J1]; reflexivity).
    + eapply j2_same; [| | |exact J0]; reflexivity.
  - eapply j2_same; [| | |exact J]; reflexivity.
  - auto.
Qed.

Lemma j2_run_hook : forall s k, J2 s -> J2 (run_hook s k).
Proof.
  intros s k J. unfold run_hook. destruct (geth s k); auto.
  - apply (j2_same (server_event s (LHookDone k))); try reflexivity.
    eapply j2_frame; [apply frame_server_event|exact J].
Qed.

Lemma psoft_flags : forall x k f b g, psoft x (mkConn (c_addr x) (c_pc x) k f (c_task x) (c_entry x) (c_writer x) b (c_rd x) (c_wr x) (c_err x) g).
Proof. intros. unfold psoft; simpl; intuition. Qed.

Lemma j2_step : forall s i s', step s i = Some s' -> J2 s -> J2 s'.
Proof.
  intros s i s' H J. destruct i; simpl in H.
  - destruct t.
    + destruct (mainpc s) eqn:E; try discriminate; destruct (mwk s); try discriminate; inversion H; subst;
        (eapply j2_same; [| | |exact J]; reflexivity).
    + destruct (_ && _ && _); inversion H; subst. eapply j2_frame; eauto. apply frame_setc. apply psoft_flags.
    + destruct (geth s k) as [|[|]|]; try discriminate. destruct (k <? length (hooks s)); inversion H; subst.
      eapply j2_same; [| | |exact J]; reflexivity.
  - destruct (c_pc (getc s c)); try discriminate. destruct (_ && _); inversion H; subst.
    eapply j2_frame; eauto. apply frame_setc. apply psoft_flags.
  - destruct (c_pc (getc s c)); try discriminate. destruct (_ && _); inversion H; subst.
    eapply j2_frame; eauto. apply frame_setc. apply psoft_flags.
  - inversion H; subst. destruct (_ && _); auto. eapply j2_frame; eauto using frame_cancel.
  - destruct (_ && _); inversion H; subst. eapply j2_frame; eauto. apply frame_setc. apply psoft_flags.
  - destruct (_ && _); inversion H; subst. eapply j2_frame; eauto. apply frame_setc. apply psoft_flags.
  - destruct (c_pc (getc s c)); try discriminate. destruct (_ && _); inversion H; subst.
    eapply j2_frame; eauto. apply frame_setc. apply psoft_flags.
  - destruct t.
    + destruct (_ && _); inversion H; subst. apply j2_run_main; auto.
    + destruct (conn_ready s c) eqn:R; simpl in H; [|discriminate].
      destruct (Bool.eqb _ _); inversion H; subst. destruct J as [J HC].
      assert (L : c < length (conns s)).
      { unfold conn_ready in R. repeat (apply andb_true_iff in R as [R ?]). apply Nat.ltb_lt in R. auto. }
      split. apply jj_run_conn; auto.
      destruct (oframe_run_conn s c) as [OL _ _ _ _ _]. unfold HasClient in *. lia.
    + destruct (_ && _); inversion H; subst. apply j2_run_hook; auto.
Qed.

Lemma j2_init : forall sc, J2 (init sc).
Proof.
  intros. split; [|unfold HasClient; simpl; lia]. split; [|split]; auto.
  intros a d I. simpl in I. destruct I.
Qed.

Lemma j2_run : forall l s, J2 s -> J2 (run s l).
Proof.
  induction l; simpl; intros; auto. apply IHl. unfold step'. destruct (step s a) eqn:E; auto.
  eapply j2_step; eauto.
Qed.

Theorem sem_invariant : forall sc l b, SS b (run (init sc) l) = 5.
Proof. intros. destruct (j2_run l (init sc) (j2_init sc)) as [[J _] _]. apply J. Qed.

(* number of tasks inside the async-with body for address b *)
Definition in_body (b : nat) (x : conn) : bool :=
  match c_addr x with Some a => Nat.eqb a b | None => false end && in_region (c_pc x).
Definition open_count (b : nat) (s : st) : nat := length (filter (in_body b) (conns s)).

Lemma open_le_total : forall b l, length (filter (in_body b) l) <= total b l.
Proof.
  induction l; simpl; auto. unfold in_body at 1. unfold wt at 1, wtv.
  destruct (match c_addr a with Some a0 => Nat.eqb a0 b | None => false end); simpl; try lia.
  destruct (in_region (c_pc a)); simpl; lia.
Qed.

Theorem at_most_five : forall sc l b, open_count b (run (init sc) l) <= 5.
Proof.
  intros. pose proof (sem_invariant sc l b) as H. unfold SS in H. unfold open_count.
  pose proof (open_le_total b (conns (run (init sc) l))). lia.
Qed.

(* ---------------------------------------------------------------- open writers per address *)
Definition addr_is (b : nat) (x : conn) : bool := match c_addr x with Some a => Nat.eqb a b | None => false end.
Definition openw (b : nat) (x : conn) : bool := addr_is b x && match c_writer x with WOpen => true | _ => false end.
Definition lostw (b : nat) (x : conn) : bool :=
  addr_is b x && match c_pc x with PDone XLostConnectedHook => true | _ => false end.
Definition open_writers (b : nat) (s : st) : nat := length (filter (openw b) (conns s)).
Definition leaked (b : nat) (s : st) : nat := length (filter (lostw b) (conns s)).

Lemma count_split : forall (f g h : conn -> bool) l,
  Forall (fun x => f x = true -> g x = true \/ h x = true) l ->
  length (filter f l) <= length (filter g l) + length (filter h l).
Proof.
  induction 1; simpl; auto. destruct (f x) eqn:F; simpl; [|destruct (g x), (h x); simpl; lia].
  destruct (H eq_refl) as [G | G]; rewrite G; simpl; destruct (g x), (h x); simpl; lia.
Qed.

Lemma wok_open : forall b x, wok x -> openw b x = true -> in_body b x = true \/ lostw b x = true.
Proof.
  unfold wok, openw, in_body, lostw, addr_is. intros b x W H. apply andb_true_iff in H as [A O]. rewrite A. simpl.
  destruct (c_writer x); try discriminate. destruct (c_pc x); simpl in *; auto; try (destruct W; discriminate).
  destruct x0; simpl in *; auto; try discriminate; destruct W; discriminate.
Qed.

Theorem open_writers_bound : forall sc l b,
  let s := run (init sc) l in open_writers b s <= 5 + leaked b s.
Proof.
  intros. pose proof (at_most_five sc l b) as H5. fold s in H5.
  destruct (j2_run l (init sc) (j2_init sc)) as [(_ & _ & A0) HC]. fold s in A0, HC.
  destruct (pairing_invariant sc l) as [I _]. fold s in I.
  unfold open_writers, leaked, open_count in *.
  assert (F : Forall (fun x => openw b x = true -> in_body b x = true \/ lostw b x = true) (conns s)).
  { apply Forall_forall. intros x Hx. destruct (In_nth _ _ dconn Hx) as (i & Li & Ni). destruct i.
    - intros O. unfold openw, addr_is in O. unfold getc in A0. rewrite <- Ni, A0 in O. discriminate.
    - apply wok_open. rewrite <- Ni. apply (I (S i)). auto. }
  pose proof (count_split _ _ _ _ F). lia.
Qed.
