(* Proofs/FlowHold.v — the connection-level half of C11: the hooks of all flows of one connection are
   concurrent handle_hook tasks inside TimeoutWatchdog.disarm(); an intercepted flow keeps its hook pending,
   so the idle watchdog (Gen.WatchdogCond, regenerated from proxy/server.py) must not close the connection,
   whatever the other flows' hooks do meanwhile. *)
From Coq Require Import ZArith List Bool Lia.
From MV Require Import Gen.WatchdogCond Model.Watchdog Proofs.Watchdog.
Import ListNotations.
Local Open Scope Z_scope.

Theorem held_connection_not_timed_out (T t0 : Z) (evs : list wevent) (e : wevent) :
  let s := run (init T t0) evs in
  let p := spec_run (spec_init t0) evs in
  is_fired s = false -> 0 < s_pending p -> is_fired (step s e) = false.
Proof.
  intros s p Hnf Hpend.
  destruct (is_fired (step s e)) eqn:Hf; [|reflexivity].
  exfalso.
  destruct (fire_is_justified T t0 evs e Hnf Hf) as [Hz _].
  fold p in Hz. lia.
Qed.

(* flow A intercepted (hook pending), flow B's hook starts and ends, then more than the timeout passes *)
Definition held_beside_other : list wevent :=
  [Activity; HookStart; Activity; HookStart; HookEnd; Advance 25; WatcherStep; Advance 25; WatcherStep].
Lemma held_beside_other_ok :
  is_fired (run (init 10 0) held_beside_other) = false /\
  s_pending (spec_run (spec_init 0) held_beside_other) = 1.
Proof. vm_compute. split; reflexivity. Qed.
