(* Proofs/HttpStreamAbs.v -- finite abstraction of a stream (which blocking yield it is paused at, the two
   state-machine states, the summary of the hooks fired, the ghost flags) and a set-valued abstract interpreter
   a_* mirroring Model/HttpStream.v function by function: wherever the model tests data (buffers, heads, queue,
   options) the abstract function returns both outcomes.  Soundness is proved in Proofs/HttpStreamSound.v. *)
From Coq Require Import List Bool NArith.
From MV Require Import Base.Bytes Model.HttpStream.
Import ListNotations.

Inductive pctag :=
| PNone | PInvReq1 | PInvReq2 | PInvResp | PBsReq1 | PBsReq2 | PBsResp1 | PBsResp2
| PReqHeaders (es : bool) | PConnStreamHdr | PConnStreamLate | PConnConsume
| PReqStream | PReq | PRespHSet | PRespH (es : bool) | PResponse (already : bool)
| PKilled | PPErr (isreq : bool) (af : after) | PConnect.

Definition tag_of (p : option await) : pctag :=
  match p with
  | None => PNone
  | Some k =>
      match k with
      | AwInvReq1 => PInvReq1 | AwInvReq2 => PInvReq2 | AwInvResp => PInvResp
      | AwBsReq1 => PBsReq1 | AwBsReq2 => PBsReq2 | AwBsResp1 => PBsResp1 | AwBsResp2 => PBsResp2
      | AwReqHeaders es => PReqHeaders es
      | AwConnStreamHdr => PConnStreamHdr | AwConnStreamLate _ => PConnStreamLate | AwConnConsume => PConnConsume
      | AwReqStream => PReqStream | AwReq => PReq | AwRespHSet => PRespHSet | AwRespH es => PRespH es
      | AwResponse a => PResponse a | AwKilled => PKilled | AwPErr i _ af => PPErr i af | AwConnect => PConnect
      end
  end.

Record ast := mkAst { x_pc : pctag; x_cs : sst; x_ss : sst; x_m : mstate;
                      x_up : bool; x_ab : bool; x_rqe : bool; x_rqf : bool; x_rsf : bool;
                      x_live : bool; x_rs : bool; x_rq : bool;
                      x_qb : bool (* request_body_buf not empty *); x_pb : bool (* response_body_buf not empty *);
                      x_tun : bool; x_cr : bool; x_ve : bool; x_ws : bool }.
Definition abs (s : stream) : ast :=
  mkAst (tag_of (pc s)) (cs s) (ss s) (msum s) (upstream s) (aborted s) (reqerr_h s) (req_fin s) (resp_fin s)
        (live s) (req_stream s) (is_some (req s)) (negb (isnil (reqbuf s))) (negb (isnil (respbuf s))) (tunnel s) (crashed s) (venv s) (fws s).
Definition sx_pc (v : pctag) (s : ast) : ast := {| x_pc := v; x_cs := x_cs s; x_ss := x_ss s; x_m := x_m s; x_up := x_up s; x_ab := x_ab s; x_rqe := x_rqe s; x_rqf := x_rqf s; x_rsf := x_rsf s; x_live := x_live s; x_rs := x_rs s; x_rq := x_rq s; x_qb := x_qb s; x_pb := x_pb s; x_tun := x_tun s; x_cr := x_cr s; x_ve := x_ve s; x_ws := x_ws s |}.
Definition sx_cs (v : sst) (s : ast) : ast := {| x_pc := x_pc s; x_cs := v; x_ss := x_ss s; x_m := x_m s; x_up := x_up s; x_ab := x_ab s; x_rqe := x_rqe s; x_rqf := x_rqf s; x_rsf := x_rsf s; x_live := x_live s; x_rs := x_rs s; x_rq := x_rq s; x_qb := x_qb s; x_pb := x_pb s; x_tun := x_tun s; x_cr := x_cr s; x_ve := x_ve s; x_ws := x_ws s |}.
Definition sx_ss (v : sst) (s : ast) : ast := {| x_pc := x_pc s; x_cs := x_cs s; x_ss := v; x_m := x_m s; x_up := x_up s; x_ab := x_ab s; x_rqe := x_rqe s; x_rqf := x_rqf s; x_rsf := x_rsf s; x_live := x_live s; x_rs := x_rs s; x_rq := x_rq s; x_qb := x_qb s; x_pb := x_pb s; x_tun := x_tun s; x_cr := x_cr s; x_ve := x_ve s; x_ws := x_ws s |}.
Definition sx_m (v : mstate) (s : ast) : ast := {| x_pc := x_pc s; x_cs := x_cs s; x_ss := x_ss s; x_m := v; x_up := x_up s; x_ab := x_ab s; x_rqe := x_rqe s; x_rqf := x_rqf s; x_rsf := x_rsf s; x_live := x_live s; x_rs := x_rs s; x_rq := x_rq s; x_qb := x_qb s; x_pb := x_pb s; x_tun := x_tun s; x_cr := x_cr s; x_ve := x_ve s; x_ws := x_ws s |}.
Definition sx_up (v : bool) (s : ast) : ast := {| x_pc := x_pc s; x_cs := x_cs s; x_ss := x_ss s; x_m := x_m s; x_up := v; x_ab := x_ab s; x_rqe := x_rqe s; x_rqf := x_rqf s; x_rsf := x_rsf s; x_live := x_live s; x_rs := x_rs s; x_rq := x_rq s; x_qb := x_qb s; x_pb := x_pb s; x_tun := x_tun s; x_cr := x_cr s; x_ve := x_ve s; x_ws := x_ws s |}.
Definition sx_ab (v : bool) (s : ast) : ast := {| x_pc := x_pc s; x_cs := x_cs s; x_ss := x_ss s; x_m := x_m s; x_up := x_up s; x_ab := v; x_rqe := x_rqe s; x_rqf := x_rqf s; x_rsf := x_rsf s; x_live := x_live s; x_rs := x_rs s; x_rq := x_rq s; x_qb := x_qb s; x_pb := x_pb s; x_tun := x_tun s; x_cr := x_cr s; x_ve := x_ve s; x_ws := x_ws s |}.
Definition sx_rqe (v : bool) (s : ast) : ast := {| x_pc := x_pc s; x_cs := x_cs s; x_ss := x_ss s; x_m := x_m s; x_up := x_up s; x_ab := x_ab s; x_rqe := v; x_rqf := x_rqf s; x_rsf := x_rsf s; x_live := x_live s; x_rs := x_rs s; x_rq := x_rq s; x_qb := x_qb s; x_pb := x_pb s; x_tun := x_tun s; x_cr := x_cr s; x_ve := x_ve s; x_ws := x_ws s |}.
Definition sx_rqf (v : bool) (s : ast) : ast := {| x_pc := x_pc s; x_cs := x_cs s; x_ss := x_ss s; x_m := x_m s; x_up := x_up s; x_ab := x_ab s; x_rqe := x_rqe s; x_rqf := v; x_rsf := x_rsf s; x_live := x_live s; x_rs := x_rs s; x_rq := x_rq s; x_qb := x_qb s; x_pb := x_pb s; x_tun := x_tun s; x_cr := x_cr s; x_ve := x_ve s; x_ws := x_ws s |}.
Definition sx_rsf (v : bool) (s : ast) : ast := {| x_pc := x_pc s; x_cs := x_cs s; x_ss := x_ss s; x_m := x_m s; x_up := x_up s; x_ab := x_ab s; x_rqe := x_rqe s; x_rqf := x_rqf s; x_rsf := v; x_live := x_live s; x_rs := x_rs s; x_rq := x_rq s; x_qb := x_qb s; x_pb := x_pb s; x_tun := x_tun s; x_cr := x_cr s; x_ve := x_ve s; x_ws := x_ws s |}.
Definition sx_live (v : bool) (s : ast) : ast := {| x_pc := x_pc s; x_cs := x_cs s; x_ss := x_ss s; x_m := x_m s; x_up := x_up s; x_ab := x_ab s; x_rqe := x_rqe s; x_rqf := x_rqf s; x_rsf := x_rsf s; x_live := v; x_rs := x_rs s; x_rq := x_rq s; x_qb := x_qb s; x_pb := x_pb s; x_tun := x_tun s; x_cr := x_cr s; x_ve := x_ve s; x_ws := x_ws s |}.
Definition sx_rs (v : bool) (s : ast) : ast := {| x_pc := x_pc s; x_cs := x_cs s; x_ss := x_ss s; x_m := x_m s; x_up := x_up s; x_ab := x_ab s; x_rqe := x_rqe s; x_rqf := x_rqf s; x_rsf := x_rsf s; x_live := x_live s; x_rs := v; x_rq := x_rq s; x_qb := x_qb s; x_pb := x_pb s; x_tun := x_tun s; x_cr := x_cr s; x_ve := x_ve s; x_ws := x_ws s |}.
Definition sx_rq (v : bool) (s : ast) : ast := {| x_pc := x_pc s; x_cs := x_cs s; x_ss := x_ss s; x_m := x_m s; x_up := x_up s; x_ab := x_ab s; x_rqe := x_rqe s; x_rqf := x_rqf s; x_rsf := x_rsf s; x_live := x_live s; x_rs := x_rs s; x_rq := v; x_qb := x_qb s; x_pb := x_pb s; x_tun := x_tun s; x_cr := x_cr s; x_ve := x_ve s; x_ws := x_ws s |}.
Definition sx_qb (v : bool) (s : ast) : ast := {| x_pc := x_pc s; x_cs := x_cs s; x_ss := x_ss s; x_m := x_m s; x_up := x_up s; x_ab := x_ab s; x_rqe := x_rqe s; x_rqf := x_rqf s; x_rsf := x_rsf s; x_live := x_live s; x_rs := x_rs s; x_rq := x_rq s; x_qb := v; x_pb := x_pb s; x_tun := x_tun s; x_cr := x_cr s; x_ve := x_ve s; x_ws := x_ws s |}.
Definition sx_pb (v : bool) (s : ast) : ast := {| x_pc := x_pc s; x_cs := x_cs s; x_ss := x_ss s; x_m := x_m s; x_up := x_up s; x_ab := x_ab s; x_rqe := x_rqe s; x_rqf := x_rqf s; x_rsf := x_rsf s; x_live := x_live s; x_rs := x_rs s; x_rq := x_rq s; x_qb := x_qb s; x_pb := v; x_tun := x_tun s; x_cr := x_cr s; x_ve := x_ve s; x_ws := x_ws s |}.
Definition sx_tun (v : bool) (s : ast) : ast := {| x_pc := x_pc s; x_cs := x_cs s; x_ss := x_ss s; x_m := x_m s; x_up := x_up s; x_ab := x_ab s; x_rqe := x_rqe s; x_rqf := x_rqf s; x_rsf := x_rsf s; x_live := x_live s; x_rs := x_rs s; x_rq := x_rq s; x_qb := x_qb s; x_pb := x_pb s; x_tun := v; x_cr := x_cr s; x_ve := x_ve s; x_ws := x_ws s |}.
Definition sx_cr (v : bool) (s : ast) : ast := {| x_pc := x_pc s; x_cs := x_cs s; x_ss := x_ss s; x_m := x_m s; x_up := x_up s; x_ab := x_ab s; x_rqe := x_rqe s; x_rqf := x_rqf s; x_rsf := x_rsf s; x_live := x_live s; x_rs := x_rs s; x_rq := x_rq s; x_qb := x_qb s; x_pb := x_pb s; x_tun := x_tun s; x_cr := v; x_ve := x_ve s; x_ws := x_ws s |}.
Definition sx_ve (v : bool) (s : ast) : ast := {| x_pc := x_pc s; x_cs := x_cs s; x_ss := x_ss s; x_m := x_m s; x_up := x_up s; x_ab := x_ab s; x_rqe := x_rqe s; x_rqf := x_rqf s; x_rsf := x_rsf s; x_live := x_live s; x_rs := x_rs s; x_rq := x_rq s; x_qb := x_qb s; x_pb := x_pb s; x_tun := x_tun s; x_cr := x_cr s; x_ve := v; x_ws := x_ws s |}.
Definition sx_ws (v : bool) (s : ast) : ast := {| x_pc := x_pc s; x_cs := x_cs s; x_ss := x_ss s; x_m := x_m s; x_up := x_up s; x_ab := x_ab s; x_rqe := x_rqe s; x_rqf := x_rqf s; x_rsf := x_rsf s; x_live := x_live s; x_rs := x_rs s; x_rq := x_rq s; x_qb := x_qb s; x_pb := x_pb s; x_tun := x_tun s; x_cr := x_cr s; x_ve := x_ve s; x_ws := v |}.
(* ---------- abstract interpreter (set-valued) *)
Definition a_crash (a : ast) : list ast := [sx_cr true a].
Definition a_emit_hook (h : hook) (t : pctag) (a : ast) : ast := sx_pc t (sx_m (mon_step (x_m a) h) a).
Definition a_finish_killed (a : ast) : ast := sx_cs SErrored (sx_ss SErrored (sx_live false a)).
Definition a_check_killed (emit : bool) (a : ast) : list (option ast) :=
  [None; Some (if emit then a_emit_hook HkError PKilled a else a_finish_killed a)].
Definition a_flow_done (a : ast) : list ast :=
  let a1 := if x_ws a then a else sx_live false a in [sx_cr true a1; sx_tun true a1; a1].
Definition a_send_response (already : bool) (a : ast) : list ast :=
  [sx_cr true a; a_emit_hook HkResponse (PResponse already) a; a_emit_hook HkResponse (PResponse already) (sx_ws true a)].
Definition a_send_response_cont (a : ast) : list ast :=
  let a1 := sx_ss SDone a in
  a_finish_killed a1 :: sx_cr true a1 :: (if sst_eqb (x_cs a1) SDone then a_flow_done a1 else [a1]).
Definition a_apply_after (af : after) (a : ast) : ast :=
  match af with
  | AfNone | AfConsume => a
  | AfStreamHdr => sx_ss SWaitRespH (sx_cs SErrored a)
  | AfStreamLate => sx_cs SErrored a
  end.
Definition a_perr_tail (isreq : bool) (af : after) (a : ast) : list ast :=
  [a_apply_after af (a_finish_killed a);
   a_apply_after af (sx_live false (if isreq then a else sx_ss SErrored a))].
Definition a_handle_perr (isreq : bool) (af : after) (a : ast) : list ast :=
  let ss_fin := sst_eqb (x_ss a) SDone || sst_eqb (x_ss a) SErrored in
  let talk := isreq && (sst_eqb (x_cs a) SStreamReq || sst_eqb (x_cs a) SDone) && negb ss_fin in
  let need := negb (sst_eqb (x_cs a) SErrored || ss_fin) in
  let a1 := if talk then sx_ab true (sx_ss SErrored (sx_cs SErrored a)) else a in
  if need then [a_emit_hook HkError (PPErr isreq af) a1] else a_perr_tail isreq af a1.
Definition a_start_request_stream (late : bool) (a : ast) : list ast :=
  [sx_cr true a; sx_pc (if late then PConnStreamLate else PConnStreamHdr) a].
Definition a_resume_conn_stream (late ok : bool) (a : ast) : list ast :=
  if ok then
    let a1 := sx_cs SStreamReq (sx_up true a) in
    if late then [a1; sx_qb true a1] else [sx_ss SWaitRespH a1]
  else a_handle_perr false (if late then AfStreamLate else AfStreamHdr) a.
Definition a_resume_conn_consume (ok : bool) (a : ast) : list ast :=
  if ok then [sx_up true a] else a_handle_perr false AfConsume a.
(* (stop, state) *)
Definition a_cbs_req (a : ast) : list (bool * ast) :=
  (false, a) ::
  (if x_qb a
   then (true, a_emit_hook HkError PBsReq2 a)
        :: map (fun x => (true, x)) (a_start_request_stream true (sx_qb false (sx_rs true a)))
   else [(true, a_emit_hook HkReqHeaders PBsReq1 a); (false, sx_rs true a)]).
Definition a_state_wait_req_headers (inval connect hashost es : bool) (a0 : ast) : list ast :=
  let a := sx_live true (sx_rq true a0) in
  if inval then [a_emit_hook HkReqHeaders PInvReq1 a]
  else if connect then [a_emit_hook HkConnect PConnect (sx_cs SDone a)]
  else if negb hashost then [sx_cs SErrored a]
  else flat_map (fun p : bool * ast => if fst p then [snd p] else [a_emit_hook HkReqHeaders (PReqHeaders es) (snd p)])
                (if es then [(false, a)] else a_cbs_req a).
Definition a_cont_req_headers (es : bool) (a : ast) : list ast :=
  a_emit_hook HkError PKilled a ::
  (if x_rs a && negb es then a_start_request_stream false a else [sx_ss SWaitRespH (sx_cs SConsumeReq a)]).
Inductive aev := AReqHeaders (inval connect hashost es : bool) | AReqData (ne : bool) | AReqEOM | AReqErr
               | ARespHeaders (inval es : bool) | ARespData (ne : bool) | ARespEOM | ARespErr.
Definition a_state_consume_req (e : aev) (a : ast) : list ast :=
  match e with
  | AReqData ne => map snd (a_cbs_req (sx_qb (x_qb a || ne) a))
  | AReqEOM => [a_emit_hook HkRequest PReq (sx_cs SDone (sx_qb false a))]
  | _ => a_crash a
  end.
Definition a_cont_req (a : ast) : list ast :=
  [a_emit_hook HkError PKilled a; a_emit_hook HkRespHeaders PRespHSet a; sx_pc PConnConsume a].
Definition a_state_stream_req (e : aev) (a : ast) : list ast :=
  match e with
  | AReqData ne => [a; sx_qb (x_qb a || ne) a]
  | AReqEOM => [a_emit_hook HkRequest PReqStream a; a_emit_hook HkRequest PReqStream (sx_qb false a)]
  | _ => a_crash a
  end.
Definition a_cont_req_stream (a : ast) : list ast :=
  (if sst_eqb (x_ss a) SDone || sst_eqb (x_ss a) SErrored then a_finish_killed a else a_emit_hook HkError PKilled a) ::
  (let a1 := sx_cs SDone a in if sst_eqb (x_ss a1) SDone then a_flow_done a1 else [a1]).
Definition a_start_response_stream (a : ast) : list ast := [sx_cr true a; sx_ss SStreamResp a].
Definition a_cbs_resp (a : ast) : list (bool * ast) :=
  (false, a) ::
  (if x_pb a
   then (true, a_emit_hook HkError PBsResp2 a)
        :: flat_map (fun x => [(true, x); (true, sx_pb true x)]) (a_start_response_stream (sx_pb false a))
   else [(true, a_emit_hook HkRespHeaders PBsResp1 a)]).
Definition a_state_wait_resp_headers (inval es : bool) (a : ast) : list ast :=
  flat_map (fun p : bool * ast =>
              if fst p then [snd p]
              else if inval then [a_emit_hook HkError PInvResp (snd p)]
              else [a_emit_hook HkRespHeaders (PRespH es) (snd p)])
           (if es then [(false, a)] else a_cbs_resp a).
Definition a_cont_resp_headers (es : bool) (a : ast) : list ast :=
  a_emit_hook HkError PKilled a :: sx_ss SConsumeResp a :: (if es then [] else a_start_response_stream a).
Definition a_state_consume_resp (e : aev) (a : ast) : list ast :=
  match e with
  | ARespData ne => map snd (a_cbs_resp (sx_pb (x_pb a || ne) a))
  | ARespEOM => sx_cr true a :: a_send_response false (sx_pb false a)
  | _ => a_crash a
  end.
Definition a_state_stream_resp (e : aev) (a : ast) : list ast :=
  sx_cr true a ::
  match e with
  | ARespData ne => [a; sx_pb (x_pb a || ne) a]
  | ARespEOM => a_send_response true a ++ a_send_response true (sx_pb false a)
  | _ => a_crash a
  end.
Definition a_cont_connect (a : ast) : list ast := [a_finish_killed a; sx_tun true a].

Definition aev_req_side (e : aev) : bool :=
  match e with AReqHeaders _ _ _ _ | AReqData _ | AReqEOM | AReqErr => true | _ => false end.
Definition aev_first (e : aev) : bool := match e with AReqHeaders _ _ _ _ => true | _ => false end.
Definition a_note_event (e : aev) (a : ast) : ast :=
  let fresh := sst_eqb (x_cs a) SWaitReqH && negb (x_rq a) in
  let bad_env := (fresh && negb (aev_first e)) || (negb fresh && aev_first e)
                 || (negb (aev_req_side e) && negb (x_up a))
                 || (aev_req_side e && x_rqe a)
                 || match e with AReqData false | ARespData false => true | _ => false end in
  let a1 := if bad_env then sx_ve true a else a in
  let a2 := a1 in
  match e with
  | AReqErr => sx_rqf true (sx_rqe true a2)
  | AReqEOM => sx_rqf true a2
  | ARespEOM | ARespErr => sx_rsf true a2
  | _ => a2
  end.
Definition a_run_event (e : aev) (a0 : ast) : list ast :=
  let a := a_note_event e a0 in
  match e with
  | AReqErr => a_handle_perr true AfNone a
  | ARespErr => a_handle_perr false AfNone a
  | AReqHeaders _ _ _ _ | AReqData _ | AReqEOM =>
      match x_cs a with
      | SErrored => [a]
      | SWaitReqH => match e with AReqHeaders i c h es => a_state_wait_req_headers i c h es a | _ => a_crash a end
      | SConsumeReq => a_state_consume_req e a
      | SStreamReq => a_state_stream_req e a
      | _ => a_crash a
      end
  | ARespHeaders _ _ | ARespData _ | ARespEOM =>
      match x_ss a with
      | SErrored => [a]
      | SWaitRespH => match e with ARespHeaders i es => a_state_wait_resp_headers i es a | _ => a_crash a end
      | SConsumeResp => a_state_consume_resp e a
      | SStreamResp => a_state_stream_resp e a
      | _ => a_crash a
      end
  end.
(* continuation after a completed blocking command; ok = the connection attempt succeeded *)
Definition a_resume (t : pctag) (ok : bool) (a : ast) : list ast :=
  match t with
  | PNone => a_crash a
  | PInvReq1 => [a_emit_hook HkError PInvReq2 a]
  | PInvReq2 | PInvResp => [sx_cs SErrored (sx_ss SErrored (sx_live false a))]
  | PBsReq1 => [a_emit_hook HkError PBsReq2 a]
  | PBsReq2 => [sx_live false (sx_cs SErrored a)]
  | PBsResp1 => [a_emit_hook HkError PBsResp2 a]
  | PBsResp2 => [sx_live false (sx_ss SErrored (sx_cs SErrored a))]
  | PReqHeaders es => a_cont_req_headers es a
  | PConnStreamHdr => a_resume_conn_stream false ok a
  | PConnStreamLate => a_resume_conn_stream true ok a
  | PConnConsume => a_resume_conn_consume ok a
  | PReqStream => a_cont_req_stream a
  | PReq => a_cont_req a
  | PRespHSet => a_emit_hook HkError PKilled a :: a_send_response false a
  | PRespH es => a_cont_resp_headers es a
  | PResponse _ => a_send_response_cont a
  | PKilled => [a_finish_killed a]
  | PPErr isreq af => a_perr_tail isreq af a
  | PConnect => a_cont_connect a
  end.
Definition a_apply_act (a : ast) : list ast := [a; sx_live false a; sx_rs true a; sx_rs true (sx_live false a)].

Definition aev_of (o : opts) (e : hev) : aev :=
  match e with
  | EReqHeaders h es => AReqHeaders (o_val o && negb (h_valid h)) (meth_eqb (h_meth h) MConnect) (h_hashost h) es
  | EReqData d => AReqData (negb (isnil d)) | EReqEOM => AReqEOM | EReqErr _ => AReqErr
  | ERespHeaders h es => ARespHeaders (o_val o && negb (h_valid h)) es
  | ERespData d => ARespData (negb (isnil d)) | ERespEOM => ARespEOM | ERespErr _ => ARespErr
  end.
