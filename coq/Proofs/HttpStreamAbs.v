(* Proofs/HttpStreamAbs.v -- finite abstraction of a stream: which blocking yield it is paused at (data erased),
   the two state-machine states, the summary of hooks fired and the ghost flags.  The lifecycle invariant is
   membership of this abstraction in a computed table (Proofs/HttpStreamTable.v). *)
From Coq Require Import List Bool NArith.
From MV Require Import Base.Bytes Model.HttpStream.
Import ListNotations.
Local Open Scope N_scope.

Inductive pctag :=
| PNone | PInvReq1 | PInvReq2 | PInvResp | PBsReq1 | PBsReq2 | PBsResp1 | PBsResp2
| PReqHeaders (es : bool) | PConnStreamHdr | PConnStreamLate | PConnConsume
| PReqStream | PReq | PRespHSet | PRespH (es : bool) | PResponse (already : bool)
| PKilled | PPErr (isreq : bool) (af : after) | PConnect.

Definition tag_of (p : option await) : pctag :=
  match p with
  | None => PNone
  | Some k =>
      match k with
      | AwInvReq1 => PInvReq1 | AwInvReq2 => PInvReq2 | AwInvResp => PInvResp
      | AwBsReq1 => PBsReq1 | AwBsReq2 => PBsReq2 | AwBsResp1 => PBsResp1 | AwBsResp2 => PBsResp2
      | AwReqHeaders es => PReqHeaders es
      | AwConnStreamHdr => PConnStreamHdr | AwConnStreamLate _ => PConnStreamLate | AwConnConsume => PConnConsume
      | AwReqStream => PReqStream | AwReq => PReq | AwRespHSet => PRespHSet | AwRespH es => PRespH es
      | AwResponse a => PResponse a | AwKilled => PKilled | AwPErr i _ af => PPErr i af | AwConnect => PConnect
      end
  end.

(* flags: upstream aborted reqerr_h req_fin resp_fin live req_stream *)
Record ctl := mkC { k_cs : sst; k_ss : sst; k_m : mstate;
                    k_up : bool; k_ab : bool; k_rqe : bool; k_rqf : bool; k_rsf : bool; k_live : bool; k_rs : bool }.
Definition ctl_of (s : stream) : ctl :=
  mkC (cs s) (ss s) (msum s) (upstream s) (aborted s) (reqerr_h s) (req_fin s) (resp_fin s) (live s) (req_stream s).

(* states about which nothing is claimed: the run stopped (tunnel / crash) or left the modelled environment *)
Definition top (s : stream) : bool := tunnel s || crashed s || venv s || vgap s.

Definition m_eqb (a b : mstate) : bool :=
  Bool.eqb (m_qh a) (m_qh b) && Bool.eqb (m_q a) (m_q b) && Bool.eqb (m_rh a) (m_rh b) && Bool.eqb (m_r a) (m_r b)
  && Bool.eqb (m_er a) (m_er b) && Bool.eqb (m_cn a) (m_cn b) && Bool.eqb (m_ok a) (m_ok b)
  && Bool.eqb (m_er2 a) (m_er2 b) && Bool.eqb (m_early a) (m_early b).
Definition ctl_eqb (a b : ctl) : bool :=
  sst_eqb (k_cs a) (k_cs b) && sst_eqb (k_ss a) (k_ss b) && m_eqb (k_m a) (k_m b)
  && Bool.eqb (k_up a) (k_up b) && Bool.eqb (k_ab a) (k_ab b) && Bool.eqb (k_rqe a) (k_rqe b)
  && Bool.eqb (k_rqf a) (k_rqf b) && Bool.eqb (k_rsf a) (k_rsf b) && Bool.eqb (k_live a) (k_live b)
  && Bool.eqb (k_rs a) (k_rs b).

Lemma sst_eqb_eq a b : sst_eqb a b = true -> a = b.
Proof. destruct a, b; simpl; intros H; try discriminate; reflexivity. Qed.
Lemma m_eqb_eq a b : m_eqb a b = true -> a = b.
Proof.
  destruct a, b; unfold m_eqb; simpl; intros H.
  repeat (apply andb_prop in H; destruct H as [H ?]).
  repeat match goal with E : Bool.eqb _ _ = true |- _ => apply eqb_prop in E end. subst. reflexivity.
Qed.
Lemma ctl_eqb_eq a b : ctl_eqb a b = true -> a = b.
Proof.
  destruct a, b; unfold ctl_eqb; simpl; intros H.
  repeat (apply andb_prop in H; destruct H as [H ?]).
  repeat match goal with E : Bool.eqb _ _ = true |- _ => apply eqb_prop in E end.
  repeat match goal with E : sst_eqb _ _ = true |- _ => apply sst_eqb_eq in E end.
  match goal with E : m_eqb _ _ = true |- _ => apply m_eqb_eq in E end.
  subst. reflexivity.
Qed.
Definition inb (x : ctl) (l : list ctl) : bool := existsb (ctl_eqb x) l.
Lemma inb_In x l : inb x l = true -> In x l.
Proof.
  unfold inb. intros H. apply existsb_exists in H. destruct H as [y [Hy E]].
  apply ctl_eqb_eq in E. subst. exact Hy.
Qed.

(* numeric codes, used only to print / read the table *)
Definition b2n (b : bool) : N := if b then 1 else 0.
Definition sst_n (x : sst) : N :=
  match x with SUninit => 0 | SWaitReqH => 1 | SConsumeReq => 2 | SStreamReq => 3 | SWaitRespH => 4
             | SConsumeResp => 5 | SStreamResp => 6 | SDone => 7 | SErrored => 8 end.
Definition after_n (a : after) : N := match a with AfNone => 0 | AfStreamHdr => 1 | AfStreamLate => 2 | AfConsume => 3 end.
Definition pctag_n (p : pctag) : N :=
  match p with
  | PNone => 0 | PInvReq1 => 1 | PInvReq2 => 2 | PInvResp => 3 | PBsReq1 => 4 | PBsReq2 => 5 | PBsResp1 => 6 | PBsResp2 => 7
  | PReqHeaders es => 8 + b2n es | PConnStreamHdr => 10 | PConnStreamLate => 11 | PConnConsume => 12
  | PReqStream => 13 | PReq => 14 | PRespHSet => 15 | PRespH es => 16 + b2n es | PResponse a => 18 + b2n a
  | PKilled => 20 | PPErr i af => 21 + 4 * b2n i + after_n af | PConnect => 29
  end.
Fixpoint mix (l : list (N * N)) : N := match l with [] => 0 | (radix, d) :: r => d + radix * mix r end.
Definition m_n (m : mstate) : N :=
  mix [(2, b2n (m_qh m)); (2, b2n (m_q m)); (2, b2n (m_rh m)); (2, b2n (m_r m)); (2, b2n (m_er m)); (2, b2n (m_cn m));
       (2, b2n (m_ok m)); (2, b2n (m_er2 m)); (2, b2n (m_early m))].
Definition code (p : pctag) (c : ctl) : N :=
  mix [(32, pctag_n p); (16, sst_n (k_cs c)); (16, sst_n (k_ss c)); (512, m_n (k_m c));
       (2, b2n (k_up c)); (2, b2n (k_ab c)); (2, b2n (k_rqe c)); (2, b2n (k_rqf c)); (2, b2n (k_rsf c));
       (2, b2n (k_live c)); (2, b2n (k_rs c))].
