(* Proofs/ClientHelloRecords.v -- C13: the record layer (handshake_record_contents / get_client_hello):
   well-formed record streams, strict prefixes, stability under appended data (for ALL inputs), totality. *)
From Coq Require Import List Bool Arith NArith Lia ZifyBool.
From MV Require Import Base.Bytes Model.ClientHello Model.TlsRef Proofs.ClientHelloBase.
Import ListNotations.
Local Open Scope N_scope.

Lemma len_blen b : len b = blen b. Proof. reflexivity. Qed.

Lemma hdr_len_pos dtls : 0 < hdr_len dtls. Proof. destruct dtls; reflexivity. Qed.

(* ---------- facts about a well-formed record header ---------- *)
Lemma hdr_facts dtls h p :
  wf_record dtls (h, p) ->
  blen h = hdr_len dtls /\ starts_like dtls h = true /\ record_size dtls h = blen p /\ 1 <= blen p.
Proof.
  intros [Hh Hp]. cbn [fst snd] in *. rewrite len_blen in Hp.
  assert (Hn : N.of_nat (length p) < 65536) by (unfold blen in Hp; lia).
  pose proof (u16be_put _ Hn) as P.
  destruct (put_u16be_shape (N.of_nat (length p))) as (a & b & E). rewrite E in P.
  destruct dtls; cbn [record_header] in Hh.
  - destruct Hh as (minor & es & -> & Hm & Hes). rewrite E.
    do 9 (destruct es as [|? es]; try discriminate Hes). clear Hes.
    cbn [app]. repeat split; try reflexivity.
    + unfold starts_like, starts_like_dtls_record. cbn.
      destruct Hm as [-> | ->]; reflexivity.
    + unfold record_size. cbn. exact P.
    + lia.
  - destruct Hh as (minor & -> & Hm). rewrite E. cbn [app]. repeat split; try reflexivity.
    + unfold starts_like, starts_like_tls_record. cbn.
      destruct (bN minor <=? 3) eqn:E3; [reflexivity|lia].
    + unfold record_size. cbn. exact P.
    + lia.
Qed.

(* one complete record in front of anything *)
Lemma hrc_step dtls f h p rest :
  wf_record dtls (h, p) ->
  hrc dtls (S f) (h ++ p ++ rest) = (p :: fst (hrc dtls f rest), snd (hrc dtls f rest)).
Proof.
  intros W. destruct (hdr_facts _ _ _ W) as (Hl & Hs & Hz & Hp).
  cbn [hrc]. rewrite !blen_app.
  destruct (blen h + (blen p + blen rest) <? hdr_len dtls) eqn:E1; [lia|].
  rewrite (take_app_exact h _ _ Hl), Hs. cbn [negb]. rewrite Hz.
  destruct (blen p =? 0) eqn:E2; [lia|].
  rewrite (drop_app_exact h _ _ Hl). rewrite blen_app.
  destruct (blen p + blen rest <? blen p) eqn:E3; [lia|].
  rewrite (take_app_exact p rest _ eq_refl), (drop_app_exact p rest _ eq_refl). reflexivity.
Qed.

(* an incomplete record: the generator returns *)
Lemma hrc_partial dtls f h p q t :
  wf_record dtls (h, p) -> t <> [] -> q ++ t = h ++ p ->
  hrc dtls (S f) q = ([], EndReturn).
Proof.
  intros W Ht E. destruct (hdr_facts _ _ _ W) as (Hl & Hs & Hz & Hp).
  cbn [hrc]. destruct (blen q <? hdr_len dtls) eqn:E1; [reflexivity|].
  destruct (app_eq_app _ _ _ _ E) as [l [[Eq Ep] | [Eh Et]]].
  - subst q. rewrite (take_app_exact h l _ Hl), Hs. cbn [negb]. rewrite Hz.
    destruct (blen p =? 0) eqn:E2; [lia|].
    rewrite (drop_app_exact h l _ Hl).
    assert (blen l < blen p).
    { subst p. rewrite blen_app. destruct t; [congruence|]. rewrite blen_cons. lia. }
    destruct (blen l <? blen p) eqn:E3; [reflexivity|lia].
  - assert (l = []).
    { destruct l; [reflexivity|]. subst h. rewrite blen_app, blen_cons in Hl. lia. }
    subst l. rewrite app_nil_r in Eh. subst q. cbn [app] in Et. subst t.
    rewrite (take_all h _ Hl), Hs. cbn [negb]. rewrite Hz.
    destruct (blen p =? 0) eqn:E2; [lia|].
    rewrite (drop_all h _ Hl). cbn. destruct (0 <? blen p) eqn:E3; [reflexivity|lia].
Qed.

Lemma stream_cons rc recs : stream (rc :: recs) = fst rc ++ snd rc ++ stream recs.
Proof. unfold stream. cbn [map concat]. rewrite app_assoc. reflexivity. Qed.

(* the whole stream: all fragments, then the generator returns *)
Lemma hrc_stream dtls recs :
  Forall (wf_record dtls) recs ->
  forall f, (length (stream recs) < f)%nat -> hrc dtls f (stream recs) = (map snd recs, EndReturn).
Proof.
  induction 1 as [|[h p] recs W _ IH]; intros f Hf.
  - destruct f; [lia|]. cbn [hrc stream map concat]. pose proof (hdr_len_pos dtls).
    rewrite blen_nil. destruct (0 <? hdr_len dtls) eqn:E; [reflexivity|lia].
  - rewrite stream_cons in *. cbn [fst snd] in *. destruct f; [lia|].
    rewrite hrc_step by exact W. rewrite IH.
    + reflexivity.
    + rewrite !app_length in Hf. destruct (hdr_facts _ _ _ W) as (Hl & _).
      pose proof (hdr_len_pos dtls). unfold blen in Hl. lia.
Qed.

(* a strict prefix of the stream: the fragments of a proper prefix of the record list, then return *)
Lemma hrc_stream_prefix dtls recs :
  Forall (wf_record dtls) recs ->
  forall q t f, t <> [] -> q ++ t = stream recs -> (length q < f)%nat ->
  exists recs1 rc recs2, recs = recs1 ++ rc :: recs2 /\ hrc dtls f q = (map snd recs1, EndReturn).
Proof.
  induction 1 as [|[h p] recs W _ IH]; intros q t f Ht E Hf.
  - cbn in E. destruct q; destruct t; try discriminate. congruence.
  - rewrite stream_cons in E. cbn [fst snd] in E. destruct f; [lia|].
    destruct (hdr_facts _ _ _ W) as (Hl & _ & _ & Hp). pose proof (hdr_len_pos dtls) as Hpos.
    unfold blen in Hl, Hp.
    rewrite app_assoc in E.
    destruct (app_eq_app _ _ _ _ E) as [l [[Eq Ep] | [Eh Et]]].
    + (* q = (h ++ p) ++ l : first record complete *)
      subst q. destruct (IH l t f Ht (eq_sym Ep)) as (r1 & rc & r2 & -> & Hh).
      { rewrite !app_length in Hf. lia. }
      exists ((h, p) :: r1), rc, r2. split; [reflexivity|].
      rewrite <- app_assoc. rewrite hrc_step by exact W. rewrite Hh. reflexivity.
    + (* h ++ p = q ++ l *)
      destruct l as [|c l].
      * rewrite app_nil_r in Eh. cbn [app] in Et. subst t.
        (* q = h ++ p exactly, and the rest is a non-empty stream: treat as complete record with l = [] *)
        subst q. destruct (IH [] (stream recs) f Ht eq_refl) as (r1 & rc & r2 & -> & Hh).
        { rewrite !app_length in Hf. cbn. lia. }
        exists ((h, p) :: r1), rc, r2. split; [reflexivity|].
        rewrite <- (app_nil_r (h ++ p)), <- app_assoc. rewrite hrc_step by exact W. rewrite Hh. reflexivity.
      * exists [], (h, p), recs. split; [reflexivity|].
        apply (hrc_partial dtls f h p q (c :: l) W); [discriminate|symmetry; exact Eh].
Qed.

(* ---------- get_client_hello on the fragments ---------- *)
(* the handshake header of msg announces exactly blen msg, readable from any prefix that is long enough *)
Definition hs_ok (dtls : bool) (msg : bytes) : Prop :=
  hs_min dtls <= blen msg /\
  forall acc t, msg = acc ++ t -> hs_min dtls <= blen acc -> hs_size dtls acc = blen msg.

Lemma gch_complete dtls msg e :
  hs_ok dtls msg ->
  forall ps acc, acc ++ concat ps = msg -> blen acc < blen msg ->
  gch_loop dtls acc ps e = GSome msg.
Proof.
  intros [Hmin Hsz]. induction ps as [|d tl IH]; intros acc E L.
  - cbn in E. rewrite app_nil_r in E. subst. lia.
  - cbn [concat] in E. rewrite app_assoc in E. cbn [gch_loop].
    assert (Hle : blen (acc ++ d) <= blen msg) by (rewrite <- E, (blen_app (acc ++ d)); lia).
    destruct (hs_min dtls <=? blen (acc ++ d)) eqn:E1.
    + rewrite (Hsz (acc ++ d) (concat tl) (eq_sym E)) by lia.
      destruct (blen msg <=? blen (acc ++ d)) eqn:E2.
      * assert (concat tl = []).
        { destruct (concat tl); [reflexivity|]. rewrite <- E, blen_app, blen_cons in E2. lia. }
        rewrite H, app_nil_r in E. rewrite E. rewrite take_all by reflexivity. reflexivity.
      * apply IH; [exact E|lia].
    + apply IH; [exact E|lia].
Qed.

Lemma gch_prefix dtls msg :
  hs_ok dtls msg ->
  forall ps acc t, (acc ++ concat ps) ++ t = msg -> t <> [] ->
  gch_loop dtls acc ps EndReturn = GNone.
Proof.
  intros [Hmin Hsz]. induction ps as [|d tl IH]; intros acc t E Ht.
  - reflexivity.
  - cbn [concat] in E. rewrite app_assoc in E. cbn [gch_loop].
    assert (L : blen (acc ++ d) < blen msg).
    { rewrite <- E, !blen_app. destruct t; [congruence|]. rewrite blen_cons. lia. }
    destruct (hs_min dtls <=? blen (acc ++ d)) eqn:E1.
    + rewrite (Hsz (acc ++ d) (concat tl ++ t)) by (try lia; rewrite <- E, <- !app_assoc; reflexivity).
      destruct (blen msg <=? blen (acc ++ d)) eqn:E2; [lia|].
      apply (IH _ t); assumption.
    + apply (IH _ t); assumption.
Qed.

Lemma payloads_app r1 r2 : payloads (r1 ++ r2) = payloads r1 ++ payloads r2.
Proof. unfold payloads. rewrite map_app, concat_app. reflexivity. Qed.

(* the complete stream yields the message; every strict prefix yields nothing yet *)
Lemma gch_stream dtls recs msg :
  Forall (wf_record dtls) recs -> hs_ok dtls msg -> payloads recs = msg ->
  get_client_hello_gen dtls (stream recs) = GSome msg.
Proof.
  intros W Hok E. unfold get_client_hello_gen.
  rewrite (hrc_stream dtls recs W) by lia. cbn [fst snd].
  apply gch_complete; [exact Hok|exact E|]. destruct Hok as [Hmin _]. cbn.
  destruct dtls; cbn in Hmin; lia.
Qed.

Lemma gch_stream_prefix dtls recs msg q t :
  Forall (wf_record dtls) recs -> hs_ok dtls msg -> payloads recs = msg ->
  t <> [] -> q ++ t = stream recs ->
  get_client_hello_gen dtls q = GNone.
Proof.
  intros W Hok E Ht Eq. unfold get_client_hello_gen.
  destruct (hrc_stream_prefix dtls recs W q t (S (length q)) Ht Eq) as (r1 & [h p] & r2 & -> & Hh); [lia|].
  rewrite Hh. cbn [fst snd].
  apply (gch_prefix dtls msg Hok _ _ (p ++ payloads r2)).
  - rewrite <- E, payloads_app. unfold payloads at 2. cbn [map concat snd]. reflexivity.
  - apply Forall_app in W. destruct W as [_ W]. inversion W as [|? ? W1 _]; subst.
    destruct (hdr_facts _ _ _ W1) as (_ & _ & _ & Hp). destruct p; [cbn in Hp; lia|discriminate].
Qed.

(* ---------- stability: data appended after a decision does not change it (ALL inputs) ---------- *)
Lemma hrc_total dtls : forall f d, (length d < f)%nat -> snd (hrc dtls f d) <> EndFuel.
Proof.
  induction f as [|f IH]; intros d L; [lia|]. cbn [hrc].
  destruct (blen d <? hdr_len dtls) eqn:E1; [discriminate|].
  destruct (negb _); [discriminate|]. destruct (_ =? 0); [discriminate|].
  destruct (blen (drop _ d) <? _) eqn:E2; [discriminate|]. cbn [snd].
  apply IH. unfold drop. rewrite !skipn_length. pose proof (hdr_len_pos dtls). unfold blen in E1. lia.
Qed.

Lemma hrc_fuel dtls : forall f1 f2 d, (length d < f1)%nat -> (length d < f2)%nat -> hrc dtls f1 d = hrc dtls f2 d.
Proof.
  induction f1 as [|f1 IH]; intros f2 d L1 L2; [lia|]. destruct f2 as [|f2]; [lia|]. cbn [hrc].
  destruct (blen d <? hdr_len dtls) eqn:E1; [reflexivity|].
  destruct (negb _); [reflexivity|]. destruct (_ =? 0); [reflexivity|].
  destruct (blen (drop _ d) <? _) eqn:E2; [reflexivity|].
  rewrite (IH f2); [reflexivity| |];
    unfold drop; rewrite !skipn_length; pose proof (hdr_len_pos dtls); unfold blen in E1; lia.
Qed.

Lemma hrc_app dtls : forall f d t, (length (d ++ t) < f)%nat ->
  match snd (hrc dtls f d) with
  | EndRaise => hrc dtls f (d ++ t) = hrc dtls f d
  | EndReturn => exists l' e', hrc dtls f (d ++ t) = (fst (hrc dtls f d) ++ l', e')
  | EndFuel => True
  end.
Proof.
  induction f as [|f IH]; intros d t L; [lia|].
  cbn [hrc].
  destruct (blen d <? hdr_len dtls) eqn:E1.
  { cbn [snd fst app]. eexists _, _. apply surjective_pairing. }
  assert (Hh : hdr_len dtls <= blen d) by lia.
  rewrite blen_app. destruct (blen d + blen t <? hdr_len dtls) eqn:E1'; [lia|].
  rewrite (take_app_le _ d t Hh).
  destruct (negb (starts_like dtls (take (hdr_len dtls) d))); [reflexivity|].
  destruct (record_size dtls (take (hdr_len dtls) d) =? 0) eqn:E0; [reflexivity|].
  rewrite (drop_app_le _ d t Hh).
  set (d' := drop (hdr_len dtls) d). set (size := record_size dtls (take (hdr_len dtls) d)).
  destruct (blen d' <? size) eqn:E2.
  { cbn [snd fst app]. eexists _, _. apply surjective_pairing. }
  rewrite blen_app. destruct (blen d' + blen t <? size) eqn:E2'; [lia|].
  assert (Hs : size <= blen d') by lia.
  rewrite (take_app_le _ d' t Hs), (drop_app_le _ d' t Hs). cbn [snd fst].
  specialize (IH (drop size d') t).
  assert (L' : (length (drop size d' ++ t) < f)%nat).
  { rewrite app_length in *. unfold drop, d'. unfold drop. rewrite !skipn_length.
    pose proof (hdr_len_pos dtls). unfold blen in Hh. lia. }
  specialize (IH L').
  destruct (snd (hrc dtls f (drop size d'))) eqn:Es.
  - destruct IH as (l' & e' & ->). cbn [fst snd]. eexists l', e'. reflexivity.
  - rewrite IH. rewrite ?Es. reflexivity.
  - exact I.
Qed.

Lemma gch_found_app dtls : forall l acc e x l' e',
  gch_loop dtls acc l e = GSome x -> gch_loop dtls acc (l ++ l') e' = GSome x.
Proof.
  induction l as [|d tl IH]; intros acc e x l' e' H.
  - cbn in H. destruct e; discriminate.
  - cbn [app gch_loop] in *.
    destruct (hs_min dtls <=? blen (acc ++ d)); [destruct (hs_size dtls (acc ++ d) <=? blen (acc ++ d)); [exact H|]|];
      eapply IH; exact H.
Qed.

Lemma gch_end dtls : forall l acc e,
  match gch_loop dtls acc l e with
  | GRaise => e = EndRaise | GFuel => e = EndFuel | GNone => e = EndReturn | GSome _ => True
  end.
Proof.
  induction l as [|d tl IH]; intros acc e.
  - cbn. destruct e; reflexivity.
  - cbn [gch_loop].
    destruct (hs_min dtls <=? blen (acc ++ d)); [destruct (hs_size dtls (acc ++ d) <=? blen (acc ++ d)); [exact I|]|];
      apply IH.
Qed.

Lemma gch_gen_stable dtls p t :
  match get_client_hello_gen dtls p with
  | GSome x => get_client_hello_gen dtls (p ++ t) = GSome x
  | GRaise => get_client_hello_gen dtls (p ++ t) = GRaise
  | GFuel => False
  | GNone => True
  end.
Proof.
  unfold get_client_hello_gen.
  set (F := S (length (p ++ t))).
  assert (L1 : (length p < F)%nat) by (unfold F; rewrite app_length; lia).
  assert (L2 : (length (p ++ t) < F)%nat) by (unfold F; lia).
  rewrite (hrc_fuel dtls (S (length p)) F p) by lia.
  pose proof (hrc_app dtls F p t L2) as A.
  pose proof (hrc_total dtls F p L1) as T.
  pose proof (gch_end dtls (fst (hrc dtls F p)) [] (snd (hrc dtls F p))) as En.
  destruct (gch_loop dtls [] (fst (hrc dtls F p)) (snd (hrc dtls F p))) eqn:G.
  - exact I.
  - destruct (snd (hrc dtls F p)) eqn:Es.
    + destruct A as (l' & e' & ->). cbn [fst snd]. eapply gch_found_app. exact G.
    + rewrite A, Es. exact G.
    + congruence.
  - rewrite En in A. rewrite A, En. rewrite En in G. exact G.
  - congruence.
Qed.

Lemma gch_gen_no_fuel dtls p : get_client_hello_gen dtls p <> GFuel.
Proof.
  intros H. pose proof (gch_gen_stable dtls p []) as S. rewrite H in S. exact S.
Qed.
