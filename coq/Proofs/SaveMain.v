(* Proofs/SaveMain.v -- C39: what each event writes, for every history (from the invariant of
   Proofs/SaveInv.v), and the contents of the stream file after one whole saving session. *)
From Coq Require Import List Bool NArith Lia Permutation.
From MV Require Import Model.SavePrelude Gen.SaveHooks Model.Save Proofs.SaveSpec Proofs.SaveInv.
Import ListNotations.
Open Scope N_scope.

Local Arguments N.eqb : simpl never.
Local Opaque bad_path rotate_open_first.

(* the file operations event e performs after history pre *)
Definition writes (infos : list finfo) (pre : list event) (e : event) : list fop :=
  snd (fst (step infos (run infos init pre) e)).

Lemma flat_map_wadd : forall infos rs er fl p l,
  flat_map (wadd infos rs er fl p) l
  = map (WWrite p) (filter (fun i => passes fl (snap_env infos rs er i)) l).
Proof.
  induction l as [|x r IH]; cbn; [reflexivity|].
  rewrite wadd_passes, IH. destruct (passes fl (snap_env infos rs er x)); reflexivity.
Qed.

(* ---------- a flow hook ---------- *)
Lemma hook_writes : forall infos pre h i,
  no_done pre -> switch_safe pre ->
  writes infos pre (Hook h i) =
  match saving_after pre with
  | Some p =>
      if is_completion h (f_ws (info infos i))
         && passes (filter_after pre) (snap_after infos (pre ++ [Hook h i]) i)
      then [WWrite p i] else []
  | None => []
  end.
Proof.
  intros infos pre h i Hnd Hs.
  destruct (inv_run infos pre Hnd Hs) as (act & Hst & _).
  unfold writes. rewrite Hst, step_hook_mk. cbn [fst snd].
  unfold saving_after. destruct (file_after pre) as [[a p]|]; cbn [option_map snd]; [|reflexivity].
  destruct (is_completion h (f_ws (info infos i))); cbn [andb]; [|reflexivity].
  rewrite wadd_passes, <- snap_env_after, resp_l_snoc, err_l_snoc. reflexivity.
Qed.

(* ---------- saving stops ---------- *)
Lemma stop_writes : forall infos pre e,
  no_done pre -> switch_safe pre -> stops e = true ->
  exists l,
    writes infos pre e = match saving_after pre with Some p => map (WWrite p) l | None => [] end
    /\ NoDup l
    /\ forall i, In i l <-> open_after infos pre i
                            /\ passes (filter_after pre) (snap_after infos pre i) = true.
Proof.
  intros infos pre e Hnd Hs Hstop.
  destruct (inv_run infos pre Hnd Hs) as (act & Hst & Hndp & Hact & Hnone).
  exists (filter (fun i => passes (filter_after pre) (snap_env infos (resp_l pre) (err_l pre) i)) (sortN act)).
  split; [|split].
  - assert (Hw : writes infos pre e
                 = flush infos (file_after pre) (filter_after pre) act (resp_l pre) (err_l pre)).
    { unfold writes. rewrite Hst. destruct e as [h i|uf ufl|]; [discriminate| |apply step_done_mk].
      destruct uf as [[v|]|]; try discriminate. cbn in Hstop. apply negb_true_iff in Hstop.
      cbn [step].
      rewrite (do_configure_mk infos _ _ _ _ _ (Some None) ufl Hnone); [| |right; reflexivity].
      - unfold accepted. cbn. rewrite Hstop. reflexivity.
      - intros; eapply file_after_ok; eassumption. }
    rewrite Hw. unfold flush, saving_after.
    destruct (file_after pre) as [[a p]|]; cbn [option_map snd]; [|reflexivity].
    apply flat_map_wadd.
  - apply NoDup_filter. apply NoDup_sortN. assumption.
  - intro i. rewrite filter_In, In_sortN, Hact, snap_env_after. tauto.
Qed.

(* ---------- any other option change ---------- *)
Lemma config_writes : forall infos pre uf ufl,
  no_done pre -> switch_safe (pre ++ [Configure uf ufl]) -> stops (Configure uf ufl) = false ->
  writes infos pre (Configure uf ufl) =
  if accepted uf ufl then
    match uf with
    | Some (Some (a, p)) => if optN_eqb (saving_after pre) (Some p) then [] else [WOpen p a]
    | _ => []
    end
  else [].
Proof.
  intros infos pre uf ufl Hnd Hs Hstop.
  apply switch_safe_app in Hs. destruct Hs as [Hs He].
  assert (Hg : rotate_open_first = true \/ file_bad uf = false).
  { destruct He as [H|H]; [left; assumption|right; inversion H; assumption]. }
  destruct (inv_run infos pre Hnd Hs) as (act & Hst & _ & _ & Hnone).
  unfold writes. rewrite Hst. cbn [step].
  rewrite (do_configure_mk infos _ _ _ _ _ uf ufl Hnone); [|intros; eapply file_after_ok; eassumption|exact Hg].
  destruct (accepted uf ufl) eqn:Ea; cbn [fst snd]; [|reflexivity].
  destruct uf as [[[a p]|]|].
  - reflexivity.
  - cbn in Hstop. unfold accepted in Ea. cbn in Ea. rewrite Hstop in Ea. discriminate.
  - unfold cfg_ops, flush. destruct (file_after pre) as [[a0 p0]|]; cbn; [|reflexivity].
    rewrite N.eqb_refl. reflexivity.
Qed.

(* ---------- one whole session ---------- *)
Definition no_file_update (e : event) : Prop :=
  match e with Configure (Some _) _ => False | _ => True end.

(* flows recorded by the completions in mid (after history pre), in order *)
Fixpoint completions (infos : list finfo) (pre mid : list event) : list N :=
  match mid with
  | [] => []
  | e :: r =>
      (match e with
       | Hook h i =>
           if is_completion h (f_ws (info infos i))
              && passes (filter_after pre) (snap_after infos (pre ++ [e]) i)
           then [i] else []
       | _ => []
       end) ++ completions infos (pre ++ [e]) r
  end.

Lemma run_log_app : forall infos a s b,
  run_log infos s (a ++ b) = run_log infos s a ++ run_log infos (run infos s a) b.
Proof.
  induction a as [|e a IH]; intros; cbn; [reflexivity|]. rewrite IH, app_assoc. reflexivity.
Qed.

Lemma no_file_update_safe : forall e, no_file_update e -> no_bad_switch e.
Proof. intros [h i|[v|] ufl|]; cbn; tauto. Qed.
Lemma no_file_update_file : forall pre e, no_file_update e -> file_after (pre ++ [e]) = file_after pre.
Proof. intros pre [h i|[v|] ufl|] H; rewrite file_after_snoc; cbn in *; tauto. Qed.

Lemma mid_log : forall infos mid pre p,
  no_done (pre ++ mid) -> Forall no_bad_switch pre -> Forall no_file_update mid ->
  saving_after pre = Some p ->
  run_log infos (run infos init pre) mid = map (WWrite p) (completions infos pre mid)
  /\ saving_after (pre ++ mid) = Some p.
Proof.
  induction mid as [|e r IH]; intros pre p Hnd Hsafe Hnf Hsav.
  - rewrite app_nil_r. split; [reflexivity|assumption].
  - inversion Hnf as [|? ? He Hr]; subst.
    assert (Hnd' : no_done ((pre ++ [e]) ++ r)) by (rewrite <- app_assoc; exact Hnd).
    assert (Hndp : no_done pre) by (apply Forall_app in Hnd; tauto).
    assert (Hsafe' : Forall no_bad_switch (pre ++ [e])).
    { apply Forall_app. split; [assumption|]. constructor; [apply no_file_update_safe; assumption|constructor]. }
    assert (Hsav' : saving_after (pre ++ [e]) = Some p).
    { unfold saving_after. rewrite no_file_update_file; assumption. }
    destruct (IH (pre ++ [e]) p Hnd' Hsafe' Hr Hsav') as [IH1 IH2].
    split; [|rewrite <- app_assoc in IH2; exact IH2].
    cbn [run_log completions]. rewrite map_app. rewrite <- run_snoc, IH1. f_equal.
    fold (writes infos pre e).
    destruct e as [h i|uf ufl|].
    + rewrite hook_writes; [|assumption|right; assumption]. rewrite Hsav.
      destruct (is_completion h (f_ws (info infos i)) && passes (filter_after pre) (snap_after infos (pre ++ [Hook h i]) i)); reflexivity.
    + destruct uf as [v|]; [destruct He|].
      rewrite config_writes; [|assumption|right; assumption|reflexivity].
      destruct (accepted None ufl); reflexivity.
    + exfalso. apply Forall_app in Hnd. destruct Hnd as [_ Hnd]. inversion Hnd; subst. congruence.
Qed.

(* file system: an open followed by appends to the same path *)
Lemma fs_get_set : forall f p c, fs_get (fs_set f p c) p = Some c.
Proof.
  induction f as [|[q c0] r IH]; intros; cbn; [rewrite N.eqb_refl; reflexivity|].
  destruct (q =? p) eqn:E; cbn; rewrite E; [reflexivity|apply IH].
Qed.
Lemma fs_appends : forall p l f c,
  fs_get f p = Some c -> fs_get (fs_apply f (map (WWrite p) l)) p = Some (c ++ l).
Proof.
  induction l as [|i l IH]; intros f c H; cbn; [rewrite app_nil_r; assumption|].
  unfold fs_apply in IH. rewrite (IH _ (c ++ [i])).
  - rewrite <- app_assoc. reflexivity.
  - rewrite H. apply fs_get_set.
Qed.
Lemma fs_session : forall f p a l,
  fs_get (fs_apply f (WOpen p a :: map (WWrite p) l)) p
  = Some ((if a then match fs_get f p with Some c => c | None => [] end else []) ++ l).
Proof.
  intros. unfold fs_apply. cbn [fold_left]. apply fs_appends. cbn.
  destruct (fs_get f p) as [c|] eqn:E; [destruct a; [assumption|]|destruct a]; apply fs_get_set.
Qed.

Lemma session : forall infos a p mid f0,
  p =? bad_path = false -> no_done mid -> Forall no_file_update mid ->
  let first := Configure (Some (Some (a, p))) None in
  let hist := first :: mid in
  exists tail,
    fs_get (fs_apply f0 (run_log infos init (hist ++ [Done]))) p
    = Some ((if a then match fs_get f0 p with Some c => c | None => [] end else [])
            ++ completions infos [first] mid ++ tail)
    /\ NoDup tail
    /\ forall i, In i tail <-> open_after infos hist i
                               /\ passes (filter_after hist) (snap_after infos hist i) = true.
Proof.
  intros infos a p mid f0 Hp Hnd Hnf first hist.
  assert (Hacc : accepted (Some (Some (a, p))) None = true) by (unfold accepted; cbn; rewrite Hp; reflexivity).
  assert (Hsafe1 : Forall no_bad_switch [first]) by (constructor; [exact Hp|constructor]).
  assert (Hsav1 : saving_after [first] = Some p).
  { unfold saving_after, file_after. cbn. rewrite Hacc. reflexivity. }
  assert (Hnd1 : no_done ([first] ++ mid)) by (constructor; [discriminate|assumption]).
  destruct (mid_log infos mid [first] p Hnd1 Hsafe1 Hnf Hsav1) as [Hmid Hsav].
  assert (Hsafe : switch_safe hist).
  { right. constructor; [exact Hp|]. eapply Forall_impl; [|exact Hnf]. apply no_file_update_safe. }
  destruct (stop_writes infos hist Done Hnd1 Hsafe eq_refl) as (tail & Hw & Hnd_tail & Htail).
  exists tail. split; [|split; assumption].
  change (hist ++ [Done]) with ([first] ++ (mid ++ [Done])).
  rewrite run_log_app, run_log_app.
  assert (Hfirst : run_log infos init [first] = [WOpen p a]).
  { cbn [run_log]. rewrite app_nil_r.
    change (snd (fst (step infos init first))) with (writes infos [] first). unfold first.
    rewrite config_writes; [|constructor|right; exact Hsafe1|reflexivity].
    rewrite Hacc. reflexivity. }
  rewrite Hfirst, Hmid.
  assert (Hlast : run_log infos (run infos (run infos init [first]) mid) [Done] = map (WWrite p) tail).
  { cbn [run_log]. rewrite app_nil_r. rewrite <- run_app.
    change (snd (fst (step infos (run infos init ([first] ++ mid)) Done))) with (writes infos hist Done). rewrite Hw.
    change hist with ([first] ++ mid). rewrite Hsav. reflexivity. }
  rewrite Hlast, <- map_app. cbn [app]. apply fs_session.
Qed.

(* ---------- active_flows is the set of open flows ---------- *)
Lemma active_open : forall infos pre,
  no_done pre -> switch_safe pre ->
  NoDup (active (run infos init pre))
  /\ forall i, In i (active (run infos init pre)) <-> open_after infos pre i.
Proof.
  intros infos pre Hnd Hs. destruct (inv_run infos pre Hnd Hs) as (act & Hst & Hndp & Hact & _).
  rewrite Hst. cbn [active mk_state]. split; assumption.
Qed.

(* ---------- the finding ---------- *)
(* With the code as found (the old stream is closed and forgotten before the new file is opened) a
   rejected switch to a path that cannot be opened leaves save_stream_file set while nothing is
   recorded any more: the completion of a flow that started before the switch writes no record. *)
Definition cex_infos : list finfo := [{| f_kind := KTcp; f_ws := false; f_marked := false |}].
Definition cex_pre : list event :=
  [Configure (Some (Some (false, 0))) None; Hook HTcpStart 0; Configure (Some (Some (false, 2))) None].

Lemma failed_switch_refuted :
  rotate_open_first = false ->
  exists infos pre h i,
    no_done pre /\
    writes infos pre (Hook h i) <>
    match saving_after pre with
    | Some p =>
        if is_completion h (f_ws (info infos i))
           && passes (filter_after pre) (snap_after infos (pre ++ [Hook h i]) i)
        then [WWrite p i] else []
    | None => []
    end.
Proof.
  intro R. vm_compute in R.
  first
    [ discriminate R
    | exists cex_infos, cex_pre, HTcpEnd, 0; split;
      [ repeat constructor; discriminate | vm_compute; discriminate ] ].
Qed.

(* ---------- a concrete session ---------- *)
Definition ex_infos : list finfo :=
  [{| f_kind := KHttp; f_ws := false; f_marked := false |};
   {| f_kind := KTcp; f_ws := false; f_marked := true |};
   {| f_kind := KHttp; f_ws := true; f_marked := false |};
   {| f_kind := KDns; f_ws := false; f_marked := false |}].
Definition ex_mid : list event :=
  [Hook HRequest 0; Hook HTcpStart 1; Hook HRequest 2; Hook HResponse 2; Hook HDnsRequest 3;
   Hook HTcpEnd 1; Configure None (Some (Some (FSOk (FNot FDns)))); Hook HResponse 0;
   Hook HDnsResponse 3; Hook HRequest 0].

Lemma session_example :
  no_done ex_mid /\ Forall no_file_update ex_mid /\
  completions ex_infos [Configure (Some (Some (true, 1))) None] ex_mid = [1; 0] /\
  fs_get (fs_apply [(1, [7])]
            (run_log ex_infos init (Configure (Some (Some (true, 1))) None :: ex_mid ++ [Done]))) 1
  = Some [7; 1; 0; 0; 2].
Proof.
  split; [repeat constructor; discriminate|].
  split; [repeat constructor|].
  split; vm_compute; reflexivity.
Qed.
