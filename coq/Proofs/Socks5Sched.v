(* Proofs/Socks5Sched.v -- schedule independence: whenever the completions of the
   blocking commands (socks5_auth hook, OpenConnection) are delivered -- at once, or after
   any number of further client segments were queued behind the pause -- the layer ends
   in the state Model/Socks5.v computes for the same segments, hence for the unsplit stream. *)
From Coq Require Import List Bool Arith NArith Lia.
From MV Require Import Base.Bytes Model.Socks5 Model.Socks5Sched Proofs.Socks5Seg.
Import ListNotations.

(* answer a pending command at once *)
Definition settle1 (c : cfg) (k : susp) : res :=
  match k with
  | SAuth buf u p o1 => resume_auth c buf u p o1
  | SOpen o1 rest => Fin (resume_open c o1 rest)
  end.

Definition settle (c : cfg) (r : res) : st :=
  match r with
  | Fin s => s
  | Ask k =>
    match settle1 c k with
    | Fin s => s
    | Ask k2 => match settle1 c k2 with Fin s => s | Ask _ => (Crashed, obs0) end
    end
  end.

(* results that can only be waiting for OpenConnection *)
Definition open_only (r : res) : Prop :=
  match r with Ask (SAuth _ _ _ _) => False | _ => True end.

Lemma settle_open_only c r : open_only r ->
  settle c r = match r with Fin s => s | Ask k => match settle1 c k with Fin s => s | Ask _ => (Crashed, obs0) end end.
Proof. destruct r as [s|[buf u p o1|o1 rest]]; cbn; intros H; [reflexivity|contradiction|reflexivity]. Qed.

(* ---- cutting the generators at their yields loses nothing ---- *)
Lemma connect_finish_r_settle c o h p rest :
  settle c (connect_finish_r c o h p rest) = connect_finish c o h p rest.
Proof.
  unfold connect_finish_r, connect_finish, finish_start, settle, settle1, resume_open, connect_tail.
  destruct (eager c), (open_fails c); reflexivity.
Qed.

Lemma connect_r_open_only c buf o : open_only (state_connect_r c buf o).
Proof.
  unfold state_connect_r.
  destruct (length buf <? 5); [exact I|].
  destruct (negb _); [exact I|].
  destruct (message_len _ _); [|exact I].
  destruct (length buf <? n); [exact I|].
  destruct (parse_host _ _); [|exact I].
  destruct (unpack_H _); [|exact I].
  unfold connect_finish_r. destruct (eager c); exact I.
Qed.

Lemma connect_r_settle c buf o : settle c (state_connect_r c buf o) = state_connect c buf o.
Proof.
  unfold state_connect_r, state_connect.
  destruct (length buf <? 5); [reflexivity|].
  destruct (negb _); [reflexivity|].
  destruct (message_len _ _); [|reflexivity].
  destruct (length buf <? n); [reflexivity|].
  destruct (parse_host _ _); [|reflexivity].
  destruct (unpack_H _); [|reflexivity].
  apply connect_finish_r_settle.
Qed.

Lemma resume_auth_open_only c buf u p o1 : open_only (resume_auth c buf u p o1).
Proof. unfold resume_auth. destruct (negb _); [exact I | apply connect_r_open_only]. Qed.

(* settling a pending auth hook = settling its resumption *)
Lemma settle_auth c buf u p o1 :
  settle c (Ask (SAuth buf u p o1)) = settle c (resume_auth c buf u p o1).
Proof.
  rewrite (settle_open_only c (resume_auth c buf u p o1)) by apply resume_auth_open_only.
  cbn [settle settle1].
  destruct (resume_auth c buf u p o1) as [s|k] eqn:E; reflexivity.
Qed.

Lemma auth_r_settle c buf o : settle c (state_auth_r c buf o) = state_auth c buf o.
Proof.
  unfold state_auth_r, state_auth.
  destruct (length buf <? 3); [reflexivity|].
  destruct (length buf <? 3 + blen (at_ 1 buf)); [reflexivity|].
  destruct (length buf <? _); [reflexivity|].
  rewrite settle_auth. unfold resume_auth.
  destruct (negb (authok c _ _)); [reflexivity|].
  apply connect_r_settle.
Qed.

Lemma greet_r_settle c buf o : settle c (state_greet_r c buf o) = state_greet c buf o.
Proof.
  unfold state_greet_r, state_greet.
  destruct (length buf <? 2); [reflexivity|].
  destruct (negb (byte_eqb _ _)); [reflexivity|].
  destruct (length buf <? _); [reflexivity|].
  destruct (negb (existsb _ _)); [reflexivity|].
  destruct (proxyauth c); [apply auth_r_settle | apply connect_r_settle].
Qed.

Lemma handle_data_r_settle c s d : settle c (handle_data_r c s d) = handle_data c s d.
Proof.
  destruct s as [p o]. destruct p; cbn [handle_data_r handle_data fst snd];
    [apply greet_r_settle | apply auth_r_settle | apply connect_r_settle | reflexivity ..].
Qed.

(* ---- the virtual state: complete what is pending, then feed the queue ---- *)
Definition flush (c : cfg) (l : lstate) : st :=
  match l with
  | LRun s => s
  | LPaused k q => feed_all c (settle c (Ask k)) q
  | LBad => (Crashed, obs0)
  end.

Lemma flush_replay c q : forall r, flush c (replay c q r) = feed_all c (settle c r) q.
Proof.
  induction q as [|d q IH]; intros r.
  - destruct r as [s|k]; reflexivity.
  - destruct r as [s|k]; cbn [replay].
    + rewrite IH. rewrite handle_data_r_settle. reflexivity.
    + reflexivity.
Qed.

Lemma feed_all_snoc c s q d : feed_all c s (q ++ [d]) = handle_data c (feed_all c s q) d.
Proof. unfold feed_all. rewrite fold_left_app. reflexivity. Qed.

Lemma flush_step_data c l d : flush c (step c l (EData d)) = handle_data c (flush c l) d.
Proof.
  destruct l as [s|k q|]; cbn [step].
  - rewrite flush_replay. cbn [feed_all fold_left]. apply handle_data_r_settle.
  - destruct k; cbn [flush]; apply feed_all_snoc.
  - reflexivity.
Qed.

Lemma flush_step_done c l e : (forall d, e <> EData d) ->
  step c l e <> LBad -> flush c (step c l e) = flush c l.
Proof.
  intros Hne Hok. destruct e as [d| |]; [exfalso; apply (Hne d); reflexivity | |].
  - destruct l as [s|[buf u p o1|o1 rest] q|]; cbn [step] in *; try (exfalso; apply Hok; reflexivity).
    rewrite flush_replay. cbn [flush]. rewrite settle_auth. reflexivity.
  - destruct l as [s|[buf u p o1|o1 rest] q|]; cbn [step] in *; try (exfalso; apply Hok; reflexivity).
    rewrite flush_replay. reflexivity.
Qed.

Lemma exec_bad c evs : exec c LBad evs = LBad.
Proof. induction evs as [|e evs IH]; [reflexivity|]. cbn [exec fold_left step]. destruct e; exact IH. Qed.

Lemma flush_exec c evs : forall l,
  exec c l evs <> LBad -> flush c (exec c l evs) = feed_all c (flush c l) (data_of evs).
Proof.
  induction evs as [|e evs IH]; intros l Hok.
  - reflexivity.
  - cbn [exec fold_left] in *. fold (exec c (step c l e) evs) in *.
    assert (Hs : step c l e <> LBad).
    { intros E. rewrite E in Hok. apply Hok. apply exec_bad. }
    rewrite (IH _ Hok).
    destruct e as [d| |]; cbn [data_of].
    + rewrite flush_step_data. reflexivity.
    + rewrite flush_step_done; [reflexivity | intros d; discriminate | exact Hs].
    + rewrite flush_step_done; [reflexivity | intros d; discriminate | exact Hs].
Qed.

(* Whatever the schedule of completions, the virtual state is the state of the plain
   model on the delivered segments, hence on the unsplit stream. *)
Theorem schedule_independent c (evs : list ev) :
  run_sched c evs <> LBad ->
  flush c (run_sched c evs) = run c [concat (data_of evs)].
Proof.
  intros Hok. unfold run_sched. rewrite (flush_exec c evs _ Hok).
  cbn [flush]. fold (run c (data_of evs)). apply segmentation_independent.
Qed.

(* Once everything pending has been answered the real state is that state. *)
Corollary schedule_independent_settled c (evs : list ev) (s : st) :
  run_sched c evs = LRun s -> s = run c [concat (data_of evs)].
Proof.
  intros H. assert (Hok : run_sched c evs <> LBad) by (rewrite H; discriminate).
  pose proof (schedule_independent c evs Hok) as E. rewrite H in E. exact E.
Qed.

(* While paused nothing observable happens: queued segments change no observable. *)
Lemma paused_queue_silent c k q d : step c (LPaused k q) (EData d) = LPaused k (q ++ [d]).
Proof. destruct k; reflexivity. Qed.

(* concrete late schedule: auth verdict after the CONNECT request and two payload
   segments were queued; OpenConnection answered after one more *)
Definition cfg_sched : cfg := mkCfg true (fun _ _ => true) true false.
Definition sched_example : list ev :=
  [EData [x05; x01; x02]; EData [x01; x01; x75; x01; x70];
   EData [x05; x01; x00; x01; x7f; x00; x00; x01; x00; x50]; EData [x47; x45]; EData [x54];
   EAuthDone; EData [x20]; EOpenDone].

Lemma sched_nonvacuous :
  run_sched cfg_sched (firstn 5 sched_example)
    = LPaused (SAuth [x01; x01; x75; x01; x70] [x75] [x70]
                     (mkObs [x05; x02] None false false (Some ([x75], [x70])) []))
              [[x05; x01; x00; x01; x7f; x00; x00; x01; x00; x50]; [x47; x45]; [x54]]
  /\ run_sched cfg_sched sched_example
    = LRun (Relay, mkObs ([x05; x02; x01; x00] ++ REPLY_SUCCESS)
                         (Some (HText [x31; x32; x37; x2e; x30; x2e; x30; x2e; x31], 80%N)) true false
                         (Some ([x75], [x70])) [x47; x45; x54; x20]).
Proof. split; vm_compute; reflexivity. Qed.
