(* Proofs/MultimapLaws.v -- laws of the abstract ordered multimap (Model/MultimapSpec.v): it is an
   ordered multimap keyed by canonical names that leaves every untouched entry (canonical name,
   spelling, value, relative order) alone. Generic in the name/value types. *)
From Coq Require Import List Bool NArith ZArith Lia.
From MV Require Import Base.Bytes Model.Headers Model.MultimapSpec.
Import ListNotations.

Section Laws.
  Context {K C V : Type}.
  Variable canon_of : K -> C.
  Variable ceqb : C -> C -> bool.
  Hypothesis ceqb_eq : forall a b, ceqb a b = true <-> a = b.

  Notation entry := (@entry K C V).
  Notation s_match := (@s_match K C V ceqb).
  Notation s_others := (@s_others K C V ceqb).
  Notation s_get_all := (@s_get_all K C V ceqb).
  Notation s_contains := (@s_contains K C V ceqb).
  Notation s_replace := (@s_replace K C V ceqb).
  Notation s_count := (@s_count K C V ceqb).
  Notation s_set_all := (@s_set_all K C V canon_of ceqb).
  Notation s_delitem := (@s_delitem K C V ceqb).
  Notation s_firsts := (@s_firsts K C V ceqb).

  Lemma ceqb_refl a : ceqb a a = true.
  Proof. apply ceqb_eq. reflexivity. Qed.

  Lemma ceqb_neq a b : a <> b -> ceqb a b = false.
  Proof. intros H. destruct (ceqb a b) eqn:E; [apply ceqb_eq in E; contradiction | reflexivity]. Qed.

  Lemma filter_filter_imp {A} (P Q : A -> bool) l :
    (forall x, P x = true -> Q x = true) -> filter P (filter Q l) = filter P l.
  Proof.
    intros H. induction l as [|x l IH]; simpl; [reflexivity|].
    destruct (Q x) eqn:EQ; simpl.
    - rewrite IH. reflexivity.
    - destruct (P x) eqn:EP; [apply H in EP; congruence | exact IH].
  Qed.

  (* ------------------------------------------------------------ set_all *)
  Lemma others_replace c (m : list entry) : forall vs, s_others c (s_replace c vs m) = s_others c m.
  Proof.
    induction m as [|e m IH]; intros vs; simpl; [reflexivity|].
    destruct (s_match c e) eqn:E; simpl.
    - destruct vs as [|v vs]; simpl.
      + apply IH.
      + unfold MultimapSpec.s_match, e_canon in *. simpl. rewrite E. simpl. apply IH.
    - rewrite E. simpl. rewrite IH. reflexivity.
  Qed.

  Lemma others_new c k (vs : list V) : s_others c (map (fun v => (c, k, v)) vs) = [].
  Proof.
    induction vs as [|v vs IH]; simpl; [reflexivity|].
    unfold MultimapSpec.s_match at 1, e_canon. simpl. rewrite ceqb_refl. simpl. exact IH.
  Qed.

  (* fields with another name keep spelling, value and relative order *)
  Theorem others_set_all (m : list entry) k vs :
    s_others (canon_of k) (s_set_all m k vs) = s_others (canon_of k) m.
  Proof.
    unfold MultimapSpec.s_set_all, MultimapSpec.s_others. rewrite filter_app.
    fold (s_others (canon_of k) (s_replace (canon_of k) vs m)). rewrite others_replace.
    fold (s_others (canon_of k) (map (fun v => (canon_of k, k, v)) (skipn (s_count m (canon_of k)) vs))).
    rewrite others_new, app_nil_r. reflexivity.
  Qed.

  Lemma get_all_replace c (m : list entry) : forall vs,
    s_get_all (s_replace c vs m) c = firstn (s_count m c) vs.
  Proof.
    unfold MultimapSpec.s_get_all, MultimapSpec.s_count.
    induction m as [|e m IH]; intros vs; simpl; [reflexivity|].
    destruct (s_match c e) eqn:E; simpl.
    - destruct vs as [|v vs]; simpl.
      + rewrite IH, firstn_nil. reflexivity.
      + unfold MultimapSpec.s_match, e_canon in *. simpl. rewrite E. simpl. rewrite IH. reflexivity.
    - rewrite E. apply IH.
  Qed.

  Lemma get_all_new c k (vs : list V) : s_get_all (map (fun v => (c, k, v)) vs) c = vs.
  Proof.
    unfold MultimapSpec.s_get_all.
    induction vs as [|v vs IH]; simpl; [reflexivity|].
    unfold MultimapSpec.s_match at 1, e_canon. simpl. rewrite ceqb_refl. simpl. rewrite IH. reflexivity.
  Qed.

  Lemma get_all_app (a b : list entry) c : s_get_all (a ++ b) c = s_get_all a c ++ s_get_all b c.
  Proof. unfold MultimapSpec.s_get_all. rewrite filter_app, map_app. reflexivity. Qed.

  (* the values stored under the assigned name are exactly the new values, in order *)
  Theorem get_all_set_all_same (m : list entry) k vs :
    s_get_all (s_set_all m k vs) (canon_of k) = vs.
  Proof.
    unfold MultimapSpec.s_set_all. rewrite get_all_app, get_all_replace, get_all_new.
    apply firstn_skipn.
  Qed.

  Lemma get_all_others (m : list entry) c c' : c' <> c -> s_get_all (s_others c m) c' = s_get_all m c'.
  Proof.
    intros H. unfold MultimapSpec.s_get_all, MultimapSpec.s_others. f_equal.
    apply filter_filter_imp. intros e He. unfold MultimapSpec.s_match in *.
    apply ceqb_eq in He. rewrite He. rewrite (ceqb_neq _ _ H). reflexivity.
  Qed.

  (* lookups of every other name are unaffected *)
  Theorem get_all_set_all_other (m : list entry) k vs c' :
    c' <> canon_of k -> s_get_all (s_set_all m k vs) c' = s_get_all m c'.
  Proof.
    intros H. rewrite <- (get_all_others (s_set_all m k vs) (canon_of k) c' H), others_set_all.
    apply get_all_others. exact H.
  Qed.

  Lemma replace_absent c (m : list entry) vs : s_contains m c = false -> s_replace c vs m = m.
  Proof.
    unfold MultimapSpec.s_contains. induction m as [|e m IH]; simpl; [reflexivity|].
    intros H. apply orb_false_iff in H as [He Hm]. rewrite He, (IH Hm). reflexivity.
  Qed.

  Lemma count_absent c (m : list entry) : s_contains m c = false -> s_count m c = 0.
  Proof.
    unfold MultimapSpec.s_contains, MultimapSpec.s_count. induction m as [|e m IH]; simpl; [reflexivity|].
    intros H. apply orb_false_iff in H as [He Hm]. rewrite He. exact (IH Hm).
  Qed.

  (* assigning an absent name appends the new fields at the end, spelled as given *)
  Theorem set_all_absent (m : list entry) k vs :
    s_contains m (canon_of k) = false ->
    s_set_all m k vs = m ++ map (fun v => (canon_of k, k, v)) vs.
  Proof.
    intros H. unfold MultimapSpec.s_set_all. rewrite (replace_absent _ _ _ H), (count_absent _ _ H).
    reflexivity.
  Qed.

  (* with at least as many values as existing fields of that name, no field moves or is respelled:
     names (canonical and spelled) of the old positions are unchanged, extra fields follow *)
  Lemma replace_keeps_names c (m : list entry) : forall vs,
    s_count m c <= length vs -> map fst (s_replace c vs m) = map fst m.
  Proof.
    unfold MultimapSpec.s_count.
    induction m as [|e m IH]; intros vs H; simpl; [reflexivity|].
    simpl in H. destruct (s_match c e) eqn:E.
    - destruct vs as [|v vs]; simpl in H; [lia|]. simpl. f_equal; [destruct e as [[a b] d]; reflexivity|].
      apply IH. lia.
    - simpl. f_equal. apply IH. exact H.
  Qed.

  Theorem set_all_keeps_names (m : list entry) k vs :
    s_count m (canon_of k) <= length vs ->
    exists tail, map fst (s_set_all m k vs) = map fst m ++ tail.
  Proof.
    intros H. unfold MultimapSpec.s_set_all. rewrite map_app.
    eexists. f_equal. apply replace_keeps_names. exact H.
  Qed.

  (* ------------------------------------------------------------ delete *)
  Lemma contains_others (m : list entry) c : s_contains (s_others c m) c = false.
  Proof.
    unfold MultimapSpec.s_contains, MultimapSpec.s_others.
    induction m as [|e m IH]; simpl; [reflexivity|].
    destruct (s_match c e) eqn:E; simpl; [exact IH | rewrite E; exact IH].
  Qed.

  Lemma others_idem (m : list entry) c : s_others c (s_others c m) = s_others c m.
  Proof. unfold MultimapSpec.s_others. apply filter_filter_imp. trivial. Qed.

  Theorem delitem_spec (m : list entry) c :
    match s_delitem m c with
    | None => s_contains m c = false
    | Some m' => s_contains m c = true /\ s_contains m' c = false /\ s_others c m' = s_others c m
                 /\ forall c', c' <> c -> s_get_all m' c' = s_get_all m c'
    end.
  Proof.
    unfold MultimapSpec.s_delitem. destruct (s_contains m c) eqn:E; [|reflexivity].
    split; [reflexivity|]. split; [apply contains_others|]. split; [apply others_idem|].
    intros c' H. apply get_all_others. exact H.
  Qed.

  (* ------------------------------------------------------------ iteration *)
  Lemma firsts_in (m : list entry) : forall pre c,
    In c (map e_canon (s_firsts pre m)) <->
    (existsb (s_match c) pre = false /\ existsb (s_match c) m = true).
  Proof.
    induction m as [|e m IH]; intros pre c; simpl.
    - split; [contradiction | intros [_ H]; discriminate].
    - destruct (existsb (s_match (e_canon e)) pre) eqn:Epre.
      + rewrite IH. simpl. change (MultimapSpec.s_match ceqb c e) with (ceqb (e_canon e) c).
        destruct (ceqb (e_canon e) c) eqn:Ec; simpl.
        * apply ceqb_eq in Ec. subst c. rewrite Epre. split; intros [H _]; discriminate.
        * reflexivity.
      + simpl. rewrite IH. simpl. change (MultimapSpec.s_match ceqb c e) with (ceqb (e_canon e) c).
        destruct (ceqb (e_canon e) c) eqn:Ec; simpl.
        * apply ceqb_eq in Ec. subst c. rewrite Epre. split; [intros _; split; reflexivity | intros _; left; reflexivity].
        * split; [intros [H|H]; [apply ceqb_eq in H; congruence | exact H] | intros H; right; exact H].
  Qed.

  Lemma firsts_nodup (m : list entry) : forall pre, NoDup (map e_canon (s_firsts pre m)).
  Proof.
    induction m as [|e m IH]; intros pre; simpl; [constructor|].
    destruct (existsb (s_match (e_canon e)) pre) eqn:Epre; [apply IH|].
    simpl. constructor; [|apply IH].
    rewrite firsts_in. intros [H _]. simpl in H. unfold MultimapSpec.s_match at 1 in H.
    rewrite ceqb_refl in H. discriminate.
  Qed.

  (* iteration lists every canonical name present exactly once *)
  Theorem iter_spec (m : list entry) :
    NoDup (map e_canon (s_firsts [] m))
    /\ forall c, In c (map e_canon (s_firsts [] m)) <-> s_contains m c = true.
  Proof.
    split; [apply firsts_nodup|]. intros c. rewrite firsts_in. simpl.
    unfold MultimapSpec.s_contains. split; [intros [_ H]; exact H | intros H; split; [reflexivity | exact H]].
  Qed.

  (* each listed entry is the first of its canonical name: everything before it in m has another name *)
  Lemma firsts_sub (m : list entry) : forall pre e, In e (s_firsts pre m) -> In e m.
  Proof.
    induction m as [|x m IH]; intros pre e; simpl; [trivial|].
    destruct (existsb (s_match (e_canon x)) pre).
    - intros H. right. exact (IH _ _ H).
    - intros [H|H]; [left; exact H | right; exact (IH _ _ H)].
  Qed.
End Laws.
