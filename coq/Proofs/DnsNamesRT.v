(* Proofs/DnsNamesRT.v -- names: pack produces the plain label wire form, and every
   decoder reads it back (no compression involved). *)
From Coq Require Import List Bool Arith NArith Lia.
From MV Require Import Base.Bytes Model.DnsNames.
Import ListNotations.

(* ---------- list plumbing ---------- *)
Lemma skipn_exact {A} (pre x : list A) off : off = length pre -> skipn off (pre ++ x) = x.
Proof.
  intros ->. rewrite skipn_app, Nat.sub_diag, skipn_all. reflexivity.
Qed.

Lemma firstn_exact {A} (p x : list A) n : n = length p -> firstn n (p ++ x) = p.
Proof.
  intros ->. rewrite firstn_app, Nat.sub_diag, firstn_all. cbn. apply app_nil_r.
Qed.

Lemma byte_at_exact pre b x off : off = length pre -> byte_at (pre ++ b :: x) off = Some b.
Proof. intros H. unfold byte_at. rewrite skipn_exact by exact H. reflexivity. Qed.

(* ---------- split / join ---------- *)
Lemma split_dot_nonempty s : split_dot s <> [].
Proof.
  destruct s as [|c r]; cbn; [discriminate|].
  destruct (byte_eqb c DOT); [discriminate|]. destruct (split_dot r); discriminate.
Qed.

Lemma join_dot_cons_head c h t : join_dot ((c :: h) :: t) = c :: join_dot (h :: t).
Proof. destruct t; reflexivity. Qed.

Lemma join_split s : join_dot (split_dot s) = s.
Proof.
  induction s as [|c r IH]; [reflexivity|].
  cbn [split_dot]. destruct (byte_eqb c DOT) eqn:E.
  - apply byte_eqb_eq in E. subst c.
    destruct (split_dot r) eqn:S; [exfalso; eapply split_dot_nonempty; eauto|].
    try rewrite S in IH. rewrite <- IH. reflexivity.
  - destruct (split_dot r) eqn:S; [exfalso; eapply split_dot_nonempty; eauto|].
    try rewrite S in IH. rewrite join_dot_cons_head. f_equal. exact IH.
Qed.

(* the label list of a name, as pack iterates over it *)
Definition name_parts (n : name) : list name := match n with [] => [] | _ => split_dot n end.

Lemma join_name_parts n : join_dot (name_parts n) = n.
Proof. destruct n; [reflexivity|]. apply join_split. Qed.

Lemma pack_name_parts n : pack n = pack_parts (name_parts n).
Proof. destruct n; reflexivity. Qed.

(* ---------- well-formed names ---------- *)
Definition wf_label (p : name) : Prop :=
  p <> [] /\ length p < 64 /\ forallb is_ascii p = true /\ has_ace p = false.
Definition wf_name (n : name) : Prop := Forall wf_label (name_parts n).

Fixpoint wire_parts (parts : list name) : bytes :=
  match parts with
  | [] => [x00]
  | p :: r => Nb (N.of_nat (length p)) :: p ++ wire_parts r
  end.
Definition wire_name (n : name) : bytes := wire_parts (name_parts n).

Lemma pack_parts_ok parts : Forall wf_label parts -> pack_parts parts = Ok (wire_parts parts).
Proof.
  induction 1 as [|p r (Hne & Hlen & Hasc & _) _ IH]; [reflexivity|].
  cbn [pack_parts wire_parts]. unfold idna_encode.
  destruct p as [|c p']; [congruence|]. rewrite Hasc. cbn [negb].
  destruct (64 <=? length (c :: p')) eqn:E; [apply Nat.leb_le in E; lia|].
  destruct (length (c :: p') =? 0) eqn:E0; [apply Nat.eqb_eq in E0; discriminate|].
  rewrite E, IH. reflexivity.
Qed.

Lemma pack_ok n : wf_name n -> pack n = Ok (wire_name n).
Proof. intros H. rewrite pack_name_parts. apply pack_parts_ok, H. Qed.

Lemma wire_parts_length parts : length parts < length (wire_parts parts).
Proof.
  induction parts as [|p r IH]; cbn [wire_parts length]; [lia|]. rewrite app_length. lia.
Qed.

Lemma size_byte (p : bytes) : length p < 64 ->
  bN (Nb (N.of_nat (length p))) = N.of_nat (length p).
Proof. intros H. apply bN_Nb. lia. Qed.

Lemma idna_decode_wf p : wf_label p -> idna_decode p = Ok p.
Proof. intros (_ & _ & Hasc & Hace). unfold idna_decode. rewrite Hace, Hasc. reflexivity. Qed.

(* reading one plain label *)
Lemma unpack_label_wf acc pre p x :
  wf_label p ->
  unpack_label_into acc (pre ++ Nb (N.of_nat (length p)) :: p ++ x) (length pre)
  = Ok (acc ++ [p], 1 + length p).
Proof.
  intros Hwf. pose proof Hwf as (Hne & Hlen & _).
  unfold unpack_label_into. rewrite byte_at_exact by reflexivity.
  rewrite size_byte by exact Hlen. rewrite Nnat.Nat2N.id.
  destruct (64 <=? length p) eqn:E; [apply Nat.leb_le in E; lia|].
  destruct (length p =? 0) eqn:E0; [apply Nat.eqb_eq in E0; destruct p; [congruence|discriminate]|].
  destruct (length _ <? _) eqn:E1.
  { apply Nat.ltb_lt in E1. rewrite !app_length in E1. cbn [length] in E1. rewrite app_length in E1. lia. }
  replace (pre ++ Nb (N.of_nat (length p)) :: p ++ x)
    with ((pre ++ [Nb (N.of_nat (length p))]) ++ p ++ x) by (rewrite <- app_assoc; reflexivity).
  rewrite skipn_exact by (rewrite app_length; cbn; lia).
  rewrite firstn_exact by reflexivity.
  rewrite idna_decode_wf by exact Hwf. reflexivity.
Qed.

(* scanning a plain wire name *)
Lemma scan_wire parts : Forall wf_label parts ->
  forall fuel pre rest acc, length parts < fuel ->
  scan_labels fuel (pre ++ wire_parts parts ++ rest) (length pre) acc
  = SEnd (acc ++ parts) (length pre + length (wire_parts parts)).
Proof.
  induction 1 as [|p r Hp _ IH]; intros fuel pre rest acc Hf.
  - destruct fuel as [|f]; [lia|]. cbn [scan_labels wire_parts app].
    rewrite byte_at_exact by reflexivity. cbn [is_ptr].
    unfold unpack_label_into. rewrite byte_at_exact by reflexivity. cbn.
    rewrite app_nil_r. reflexivity.
  - destruct fuel as [|f]; [cbn in Hf; lia|]. cbn [scan_labels wire_parts].
    pose proof Hp as (Hne & Hlen & _).
    rewrite <- app_comm_cons, <- app_assoc.
    rewrite byte_at_exact by reflexivity.
    unfold is_ptr. rewrite size_byte by exact Hlen.
    destruct (192 <=? N.of_nat (length p))%N eqn:E; [apply N.leb_le in E; lia|].
    rewrite unpack_label_wf by exact Hp.
    destruct (N.of_nat (length p) =? 0)%N eqn:E0.
    { apply N.eqb_eq in E0. destruct p; [congruence|cbn in E0; lia]. }
    replace (pre ++ Nb (N.of_nat (length p)) :: p ++ wire_parts r ++ rest)
      with ((pre ++ Nb (N.of_nat (length p)) :: p) ++ wire_parts r ++ rest)
      by (rewrite <- app_assoc; reflexivity).
    replace (length pre + (1 + length p)) with (length (pre ++ Nb (N.of_nat (length p)) :: p))
      by (rewrite app_length; cbn; lia).
    rewrite IH by (cbn in Hf; lia).
    rewrite <- app_assoc. cbn [app]. f_equal.
    rewrite !app_length. cbn [length]. rewrite app_length. lia.
Qed.

(* ---------- the three decoders on a plain wire name ---------- *)
Lemma unpack_from_wire n pre rest : wf_name n ->
  unpack_from (pre ++ wire_name n ++ rest) (length pre) = Ok (n, length pre + length (wire_name n)).
Proof.
  intros H. unfold unpack_from, wire_name.
  rewrite scan_wire; [| exact H |].
  - cbn [app]. rewrite join_name_parts. reflexivity.
  - pose proof (wire_parts_length (name_parts n)). rewrite !app_length. lia.
Qed.

Theorem name_roundtrip n : wf_name n -> unpack (wire_name n) = Ok n /\ pack n = Ok (wire_name n).
Proof.
  intros H. split; [|apply pack_ok, H].
  unfold unpack. pose proof (unpack_from_wire n [] [] H) as U. cbn [app length] in U.
  rewrite app_nil_r in U. rewrite U. cbn [Nat.add]. rewrite Nat.eqb_refl. reflexivity.
Qed.

Lemma unpack_fwc_wire n pre rest c f : wf_name n -> lookup (length pre) c = None ->
  length (pre ++ wire_name n ++ rest) <= f ->
  unpack_from_with_compression (S f) (pre ++ wire_name n ++ rest) (length pre) c
  = (Ok (n, length (wire_name n)),
     (length pre, Some (n, length (wire_name n))) :: (length pre, None) :: c).
Proof.
  intros H L Hf. cbn [unpack_from_with_compression]. rewrite L.
  unfold wire_name. rewrite scan_wire; [| exact H |].
  - cbn [app]. rewrite join_name_parts.
    replace (length pre + length (wire_parts (name_parts n)) - length pre)
      with (length (wire_parts (name_parts n))) by lia.
    reflexivity.
  - pose proof (wire_parts_length (name_parts n)). rewrite !app_length. unfold wire_name. lia.
Qed.
