(* Proofs/ClientHelloParse.v -- C13: the kaitai reader inverts the reference encoding (RFC grammar), and the
   ClientHello properties (sni, alpn_protocols, cipher_suites, extensions) read what the reference reads. *)
From Coq Require Import List Bool Arith NArith Lia ZifyBool.
From MV Require Import Base.Bytes Model.ClientHello Model.TlsRef Proofs.ClientHelloBase.
Import ListNotations.
Local Open Scope N_scope.

Lemma len_app a b : len (a ++ b) = len a + len b.
Proof. unfold len. rewrite app_length. lia. Qed.
Lemma len_cons c s : len (c :: s) = 1 + len s.
Proof. unfold len. cbn [length]. lia. Qed.
Lemma len_vec16 b : len (vec16 b) = 2 + len b.
Proof. unfold vec16. rewrite len_app. reflexivity. Qed.
Lemma len_vec8 b : len (vec8 b) = 1 + len b.
Proof. unfold vec8. rewrite len_app. reflexivity. Qed.

(* reading back the two vector shapes *)
Lemma read_vec8 b r : len b < 256 ->
  (let* (l, s) := read_u1 (vec8 b ++ r) in read_bytes l s) = Ok (b, r).
Proof.
  intros H. unfold vec8, put_u8. cbn [app]. rewrite read_u1_Nb by exact H. cbn [bind].
  apply read_bytes_app. reflexivity.
Qed.

Lemma read_vec16 b r : len b < 65536 ->
  (let* (l, s) := read_u2be (vec16 b ++ r) in read_bytes l s) = Ok (b, r).
Proof.
  intros H. unfold vec16. rewrite <- app_assoc. rewrite read_u2be_put by exact H. cbn [bind].
  apply read_bytes_app. reflexivity.
Qed.

Lemma read_protocol_enc p r : len p < 256 -> read_protocol (vec8 p ++ r) = Ok (p, r).
Proof.
  intros H. unfold read_protocol, vec8, put_u8. cbn [app]. rewrite read_u1_Nb by exact H. cbn [bind].
  rewrite read_bytes_app by reflexivity. reflexivity.
Qed.

Definition enc_name (h : bytes) : bytes := x00 :: vec16 h.
Definition dec_name (h : bytes) : server_name := {| sn_type := 0; sn_length := len h; sn_host := h |}.

Lemma read_server_name_enc h r : len h < 65536 -> read_server_name (enc_name h ++ r) = Ok (dec_name h, r).
Proof.
  intros H. unfold read_server_name, enc_name, vec16. cbn [app read_u1 bind].
  rewrite <- app_assoc. rewrite read_u2be_put by exact H. cbn [bind].
  rewrite read_bytes_app by reflexivity. reflexivity.
Qed.

Definition parsed_body (e : rext) : ext_body :=
  match e with
  | RSni ls => BodySni (len (enc_name (join_dot ls))) [dec_name (join_dot ls)]
  | RAlpn ps => BodyAlpn (len (concat (map vec8 ps))) ps
  | ROther _ _ => BodyRaw
  end.
Definition parsed_ext (e : rext) : extension :=
  {| ext_type := ext_type_of e; ext_len_ := len (ext_data e); ext_raw := ext_data e; ext_body_ := parsed_body e |}.

Lemma read_sni_enc ls : len (join_dot ls) <= 253 ->
  read_sni (ext_data (RSni ls)) = Ok (parsed_body (RSni ls)).
Proof.
  intros H. unfold read_sni. cbn [ext_data]. fold (enc_name (join_dot ls)).
  unfold vec16 at 1. rewrite read_u2be_put.
  2:{ unfold enc_name. rewrite len_cons, len_vec16. lia. }
  cbn [bind].
  assert (E : enc_name (join_dot ls) = concat (map enc_name [join_dot ls]))
    by (cbn [map concat]; rewrite app_nil_r; reflexivity).
  rewrite E at 1 2.
  rewrite (many_concat read_server_name enc_name dec_name).
  - reflexivity.
  - intros x r [<-|[]]. apply read_server_name_enc. lia.
  - intros x _. discriminate.
  - lia.
Qed.

Lemma read_alpn_enc ps :
  Forall (fun p => 1 <= len p <= 255) ps -> len (concat (map vec8 ps)) < 65534 ->
  read_alpn (ext_data (RAlpn ps)) = Ok (parsed_body (RAlpn ps)).
Proof.
  intros Hp H. unfold read_alpn. cbn [ext_data]. unfold vec16 at 1. rewrite read_u2be_put by lia.
  cbn [bind].
  rewrite (many_concat read_protocol vec8 (fun p => p)).
  - cbn [bind parsed_body]. rewrite map_id. reflexivity.
  - intros x r Hin. apply read_protocol_enc. rewrite Forall_forall in Hp. specialize (Hp x Hin). lia.
  - intros x _. discriminate.
  - lia.
Qed.

Lemma wf_ext_bounds e : wf_ext e -> ext_type_of e < 65536 /\ len (ext_data e) < 65536.
Proof.
  destruct e as [ls|ps|ty body]; cbn [wf_ext ext_type_of ext_data].
  - intros (_ & _ & H). split; [lia|]. rewrite len_vec16, len_cons, len_vec16. lia.
  - intros (_ & _ & H). split; [lia|]. rewrite len_vec16. lia.
  - intros (H1 & _ & _ & H2). split; assumption.
Qed.

Lemma read_extension_enc e r : wf_ext e -> read_extension (enc_ext e ++ r) = Ok (parsed_ext e, r).
Proof.
  intros W. destruct (wf_ext_bounds e W) as [Ht Hl].
  unfold read_extension, enc_ext, vec16. rewrite <- !app_assoc.
  rewrite read_u2be_put by exact Ht. cbn [bind].
  rewrite read_u2be_put by exact Hl. cbn [bind].
  rewrite read_bytes_app by reflexivity. cbn [bind].
  destruct e as [ls|ps|ty body]; cbn [ext_type_of wf_ext] in *.
  - cbn [N.eqb]. destruct W as (_ & _ & H). rewrite read_sni_enc by exact H. reflexivity.
  - replace (16 =? 0) with false by reflexivity. replace (16 =? 16) with true by reflexivity.
    destruct W as (_ & H1 & H2). rewrite read_alpn_enc by assumption. reflexivity.
  - destruct W as (_ & H0 & H16 & _).
    destruct (ty =? 0) eqn:E0; [lia|]. destruct (ty =? 16) eqn:E16; [lia|]. reflexivity.
Qed.

Lemma enc_ext_nonempty e : enc_ext e <> [].
Proof. unfold enc_ext, put_u16be. discriminate. Qed.

Lemma read_n_u2be_enc cs r :
  Forall (fun c => c < 65536) cs ->
  read_n_u2be (length cs) (concat (map put_u16be cs) ++ r) = Ok (cs, r).
Proof.
  induction 1 as [|c cs Hc _ IH]; [reflexivity|].
  cbn [length map concat read_n_u2be]. rewrite <- app_assoc.
  rewrite read_u2be_put by exact Hc. cbn [bind]. rewrite IH. reflexivity.
Qed.

Lemma len_ciphers cs : len (concat (map put_u16be cs)) = 2 * N.of_nat (length cs).
Proof.
  induction cs as [|c cs IH]; [reflexivity|].
  cbn [map concat length]. rewrite len_app, IH. unfold len at 1. cbn [put_u16be length]. lia.
Qed.

Ltac hello_rest :=
  (* cipher suites *)
  unfold vec16 at 1; rewrite <- !app_assoc;
  rewrite read_u2be_put by (rewrite len_ciphers; lia); cbn [bind];
  rewrite len_ciphers;
  match goal with |- context [N.to_nat (2 * N.of_nat (length ?cs) / 2)] =>
    replace (N.to_nat (2 * N.of_nat (length cs) / 2)) with (length cs)
      by (rewrite N.mul_comm, N.div_mul by lia; rewrite Nat2N.id; reflexivity) end;
  rewrite read_n_u2be_enc by assumption; cbn [bind];
  (* compression methods *)
  unfold vec8 at 1, put_u8; cbn [app]; rewrite read_u1_Nb by lia; cbn [bind];
  rewrite read_bytes_app by reflexivity; cbn [bind];
  (* extensions *)
  match goal with
  | He : _ /\ _ |- context [vec16 (concat (map enc_ext ?es))] =>
    destruct He as [We Hel]; unfold vec16;
    let a := fresh "a" in let b := fresh "b" in let Eab := fresh "Eab" in
    destruct (put_u16be_shape (len (concat (map enc_ext es)))) as (a & b & Eab);
    assert (Hnil : is_nil (put_u16be (len (concat (map enc_ext es))) ++ concat (map enc_ext es)) = false)
      by (rewrite Eab; reflexivity);
    rewrite Hnil; rewrite read_u2be_put by exact Hel; cbn [bind];
    rewrite (many_concat read_extension enc_ext parsed_ext);
    [ cbn [bind]; eexists; split; [reflexivity|]; split; reflexivity
    | intros x r Hin; apply read_extension_enc; rewrite Forall_forall in We; apply We, Hin
    | intros x _; apply enc_ext_nonempty
    | lia ]
  | |- _ => rewrite ?app_nil_r; cbn [is_nil bind]; eexists; split; [reflexivity|]; split; reflexivity
  end.

(* ---------- the whole ClientHello body ---------- *)
Lemma read_hello_enc dtls r :
  wf_hello r ->
  exists h, read_client_hello dtls (enc_hello dtls r) = Ok h
            /\ h_ciphers h = r_ciphers r /\ exts_of h = map parsed_ext (exts_list r).
Proof.
  destruct r as [[v1 v2] random sid cookie ciphers comp exts].
  unfold wf_hello, exts_list. cbn [r_ver r_random r_sid r_cookie r_ciphers r_comp r_exts].
  intros (Hr & Hs & Hk & Hcne & Hc & Hcl & Hcm & He).
  destruct exts as [es|];
  unfold enc_hello; cbn [r_ver r_random r_sid r_cookie r_ciphers r_comp r_exts fst snd];
  (do 4 (destruct random as [|? random]; [cbn in Hr; lia|]));
  assert (Hr28 : blen random = 28) by (unfold len in Hr; unfold blen; cbn [length] in Hr; lia);
  unfold read_client_hello; cbn [app read_u1 read_u4be bind];
  rewrite (read_bytes_app random _ 28 Hr28); cbn [bind];
  (* session id *)
  unfold vec8 at 1, put_u8; cbn [app]; rewrite read_u1_Nb by lia; cbn [bind];
  rewrite read_bytes_app by reflexivity; cbn [bind];
  (* cookie *)
  destruct dtls;
  [ unfold vec8 at 1, put_u8; cbn [app]; rewrite read_u1_Nb by lia; cbn [bind];
    rewrite read_bytes_app by reflexivity; cbn [bind]; hello_rest
  | cbn [app bind]; hello_rest
  | unfold vec8 at 1, put_u8; cbn [app]; rewrite read_u1_Nb by lia; cbn [bind];
    rewrite read_bytes_app by reflexivity; cbn [bind]; hello_rest
  | cbn [app bind]; hello_rest ].
Qed.

(* ---------- observables ---------- *)
Lemma extensions_parsed es :
  map (fun e => (ext_type e, ext_raw e)) (map parsed_ext es) = map (fun e => (ext_type_of e, ext_data e)) es.
Proof. rewrite map_map. reflexivity. Qed.

Lemma alpn_parsed es : Forall wf_ext es -> alpn_loop (map parsed_ext es) = find_alpn es.
Proof.
  induction 1 as [|e es W _ IH]; [reflexivity|].
  cbn [map alpn_loop find_alpn]. destruct e as [ls|ps|ty body]; cbn [parsed_ext ext_type ext_type_of ext_body_ parsed_body].
  - replace (0 =? 16) with false by reflexivity. exact IH.
  - reflexivity.
  - destruct W as (_ & _ & H16 & _). destruct (ty =? 16) eqn:E; [lia|]. exact IH.
Qed.

Lemma sni_parsed ace_ok es :
  Forall wf_ext es ->
  (forall ls, In (RSni ls) es -> is_valid_host ace_ok (join_dot ls) = true) ->
  sni_loop ace_ok (map parsed_ext es) = find_sni es.
Proof.
  induction 1 as [|e es W _ IH]; intros Hv; [reflexivity|].
  cbn [map sni_loop find_sni]. destruct e as [ls|ps|ty body];
    unfold valid_sni_extension; cbn [parsed_ext ext_type ext_type_of ext_body_ parsed_body].
  - cbn [N.eqb dec_name sn_type sn_host andb]. rewrite Hv by (left; reflexivity). reflexivity.
  - replace (16 =? 0) with false by reflexivity. apply IH. intros; apply Hv; right; assumption.
  - destruct W as (_ & H0 & _). destruct (ty =? 0) eqn:E; [lia|]. apply IH. intros; apply Hv; right; assumption.
Qed.
