(* Proofs/HttpBodyBase.v -- basic facts about Model/HttpBody.v: record updates, the closed form of relay_chunks,
   parse_size facts, projections of command lists. *)
From Coq Require Import List Bool NArith ZArith Lia.
From MV Require Import Base.Bytes Model.HttpBody.
Import ListNotations.
Open Scope Z_scope.

Lemma blen_app a b : blen (a ++ b) = blen a + blen b.
Proof. unfold blen. rewrite app_length. lia. Qed.
Lemma blen_nonneg a : 0 <= blen a.
Proof. unfold blen. lia. Qed.
Lemma blen_nil : blen [] = 0.
Proof. reflexivity. Qed.
Lemma nonempty_false b : nonempty b = false -> b = [].
Proof. destruct b; simpl; congruence. Qed.
Lemma nonempty_true_blen b : nonempty b = true -> 0 < blen b.
Proof. destruct b; simpl; [congruence|]. intros _. unfold blen. simpl. lia. Qed.
Lemma blen_pos_nonempty b : 0 < blen b -> nonempty b = true.
Proof. destruct b; simpl; auto. unfold blen. simpl. lia. Qed.

(* a configured limit that parses is a truthy option value *)
Lemma parse_size_val_truthy o z : parse_size o = PVal z -> opt_truthy o = true.
Proof. destruct o as [[|c t]|]; simpl; auto; vm_compute; congruence. Qed.

Section Facts.
Variable S : Type.
Variable fq fs : S -> bytes -> S * sres.
Variable cfg : config.

Notation st := (st S).
Notation relay_chunks := (relay_chunks S cfg).
Notation handle_event := (handle_event S fq fs cfg).

Lemma st_eta (s : st) :
  s = mkSt (client_state s) (server_state s) (request_body_buf s) (response_body_buf s) (req_framing s)
           (resp_framing s) (req_stream s) (resp_stream s) (fq_st s) (fs_st s) (req_content s) (resp_content s)
           (flow_error s) (flow_live s).
Proof. destruct s; reflexivity. Qed.

(* closed form of the relay loop *)
Lemma relay_chunks_eq request chunks : forall s,
  relay_chunks request chunks s =
  ((if o_store cfg
    then (if request then set_reqbuf S s (request_body_buf s ++ concat chunks)
          else set_respbuf S s (response_body_buf s ++ concat chunks))
    else s),
   map (fun c => CSend (if request then Server else Client) (MData c)) chunks).
Proof.
  induction chunks as [|c r IH]; intros s.
  - simpl. destruct (o_store cfg); [|reflexivity].
    destruct request; destruct s; simpl; rewrite app_nil_r; reflexivity.
  - cbn [HttpBody.relay_chunks]. rewrite IH. destruct (o_store cfg); [|reflexivity].
    destruct request; destruct s; simpl; rewrite <- app_assoc; reflexivity.
Qed.

Notation start_request_stream := (start_request_stream S cfg).

(* start_request_stream: either the connection is made and the head is sent, or the stream is errored;
   nothing else changes on the request side *)
Lemma start_request_stream_spec (s s' : st) c :
  start_request_stream s = (s', c) ->
  request_body_buf s' = request_body_buf s /\ response_body_buf s' = response_body_buf s
  /\ req_stream s' = req_stream s /\ fq_st s' = fq_st s /\ req_content s' = req_content s
  /\ resp_stream s' = resp_stream s /\ fs_st s' = fs_st s /\ resp_content s' = resp_content s
  /\ req_framing s' = req_framing s /\ resp_framing s' = resp_framing s
  /\ ((c_ok cfg = true /\ client_state s' = Streaming /\ server_state s' = server_state s
       /\ c = [CGetConn; CSend Server (MHeaders false)])
      \/ (c_ok cfg = false /\ client_state s' = Errored /\ server_state s' = Errored
          /\ filter (fun x => match x with CSend Server _ => true | _ => false end) c = []
          /\ ~ In (CSend Client (MErr ReqTooLarge)) c /\ ~ In (CSend Client (MErr RespTooLarge)) c
          /\ filter (fun x => match x with
                              | CSend Client (MHeaders _) | CSend Client (MData _) | CSend Client MEom => true
                              | _ => false
                              end) c = [])).
Proof.
  unfold HttpBody.start_request_stream, make_server_connection, handle_protocol_error_connect.
  destruct (c_ok cfg); intros H.
  - inversion H; subst; clear H. destruct s; cbn. repeat split; auto.
  - destruct s as [cs ss qb sb qf sf qs rs q1 q2 qc sc er lv].
    destruct cs, ss; cbn in H; inversion H; subst; clear H; cbn; repeat split; auto; try (right; repeat split; auto; cbn; intuition congruence).
Qed.

Notation check_body_size := (check_body_size S fq fs cfg).
Notation abort_body := (abort_body S cfg).

Definition over (p : psz) (e : Z) : bool := match p with PVal l => l <? e | _ => false end.

(* the size check_body_size looks at: the buffered bytes (late case) or the announced size (early case) *)
Definition req_expected (s : st) : option Z :=
  if nonempty (request_body_buf s) then Some (blen (request_body_buf s)) else expected_size (req_framing s).
Definition resp_expected (s : st) : option Z :=
  if nonempty (response_body_buf s) then Some (blen (response_body_buf s))
  else match resp_framing s with Some f => expected_size f | None => None end.

(* every way check_body_size(True) can end *)
Lemma check_body_size_req_cases (s s' : st) b c :
  check_body_size true s = Some (b, s', c) ->
  (* 1: no decision *)
  (b = false /\ s' = s /\ c = []
   /\ (forall x, req_expected s = Some x -> 0 < x -> opt_truthy (o_stream cfg) || opt_truthy (o_limit cfg) = true ->
       over (parse_size (o_limit cfg)) x = false /\ over (parse_size (o_stream cfg)) x = false))
  (* 2: early case, marked for streaming *)
  \/ (b = false /\ request_body_buf s = [] /\ s' = set_req_stream S s STrue /\ c = [])
  (* 3: rejected *)
  \/ (b = true /\ s' = fst (abort_body true s) /\ c = snd (abort_body true s)
      /\ exists x, req_expected s = Some x /\ 0 < x /\ over (parse_size (o_limit cfg)) x = true)
  (* 4: late case, switch to streaming: the buffered bytes are flushed as one data event *)
  \/ (b = false /\ nonempty (request_body_buf s) = true
      /\ over (parse_size (o_limit cfg)) (blen (request_body_buf s)) = false
      /\ over (parse_size (o_stream cfg)) (blen (request_body_buf s)) = true
      /\ exists s2 c1, start_request_stream (set_reqbuf S (set_req_stream S s STrue) []) = (s2, c1)
          /\ ((client_state s2 = Streaming
               /\ s' = (if o_store cfg then set_reqbuf S s2 (request_body_buf s) else s2)
               /\ c = c1 ++ [CSend Server (MData (request_body_buf s))])
              \/ (client_state s2 = Errored /\ s' = s2 /\ c = c1))).
Proof.
  unfold HttpBody.check_body_size, req_expected.
  destruct (opt_truthy (o_stream cfg) || opt_truthy (o_limit cfg)) eqn:TR; cbn [negb].
  2:{ intros H; inversion H; subst. left. do 3 (split; [reflexivity|]). intros; discriminate. }
  cbn [andb].
  destruct (if nonempty (request_body_buf s) then Some (blen (request_body_buf s))
            else expected_size (req_framing s)) as [x|] eqn:Ee.
  2:{ intros H; inversion H; subst. left. do 3 (split; [reflexivity|]). intros; discriminate. }
  destruct (x <=? 0) eqn:E0.
  { intros H; inversion H; subst. left. do 3 (split; [reflexivity|]). apply Z.leb_le in E0.
    intros y Hy; inversion Hy; lia. }
  apply Z.leb_gt in E0.
  assert (SW : forall r,
    over (parse_size (o_limit cfg)) x = false -> over (parse_size (o_stream cfg)) x = true ->
    match switch_to_stream S fq fs cfg true s with Some (s1, c1) => Some (false, s1, c1) | None => None end = Some r ->
    let '(b, s', c) := r in
    (b = false /\ request_body_buf s = [] /\ s' = set_req_stream S s STrue /\ c = [])
    \/ (b = false /\ nonempty (request_body_buf s) = true
        /\ over (parse_size (o_limit cfg)) (blen (request_body_buf s)) = false
        /\ over (parse_size (o_stream cfg)) (blen (request_body_buf s)) = true
        /\ exists s2 c1, start_request_stream (set_reqbuf S (set_req_stream S s STrue) []) = (s2, c1)
            /\ ((client_state s2 = Streaming
                 /\ s' = (if o_store cfg then set_reqbuf S s2 (request_body_buf s) else s2)
                 /\ c = c1 ++ [CSend Server (MData (request_body_buf s))])
                \/ (client_state s2 = Errored /\ s' = s2 /\ c = c1)))).
  { intros [[b0 s0] c0] OL OT. unfold switch_to_stream.
    assert (RB : request_body_buf (set_req_stream S s STrue) = request_body_buf s) by (destruct s; reflexivity).
    rewrite RB.
    destruct (nonempty (request_body_buf s)) eqn:NE.
    - inversion Ee; subst x.
      destruct (HttpBody.start_request_stream S cfg (set_reqbuf S (set_req_stream S s STrue) [])) as [s2 c1] eqn:ES.
      pose proof (start_request_stream_spec _ _ _ ES) as (B1 & _ & B3 & _ & _ & _ & _ & _ & _ & _ & CS).
      intros H. right. split; [|split; [reflexivity|split; [assumption|split; [assumption|]]]].
      + destruct CS as [(_ & C2 & _)|(_ & C2 & _)]; rewrite C2 in H;
          [destruct (state_stream_request_body S fq cfg s2 (ReqData (request_body_buf s))) as [[? ?]|]|];
          inversion H; reflexivity.
      + exists s2, c1. split; auto.
        destruct CS as [(_ & C2 & _)|(_ & C2 & _)]; rewrite C2 in H.
        * left. split; auto. unfold state_stream_request_body in H. rewrite B3 in H.
          assert (RS : req_stream (set_reqbuf S (set_req_stream S s STrue) []) = STrue) by (destruct s; reflexivity).
          rewrite RS, relay_chunks_eq in H. inversion H; subst; clear H.
          assert (RE : request_body_buf (set_reqbuf S (set_req_stream S s STrue) []) = []) by (destruct s; reflexivity).
          rewrite B1, RE. cbn [concat app]. rewrite app_nil_r. split; reflexivity.
        * right. inversion H; subst. auto.
    - intros H; inversion H; subst. left. repeat split; auto. apply nonempty_false; auto. }
  destruct (parse_size (o_limit cfg)) as [| |l] eqn:PL; try discriminate.
  - (* no limit *)
    destruct (parse_size (o_stream cfg)) as [| |t] eqn:PT; try discriminate.
    + intros H; inversion H; subst. left. do 3 (split; [reflexivity|]).
      intros y Hy _ _. split; reflexivity.
    + destruct (t <? x) eqn:ET.
      * intros H. specialize (SW (b, s', c) eq_refl ET H). cbn in SW.
        destruct SW as [SW|SW]; [right; left; exact SW|right; right; right; exact SW].
      * intros H; inversion H; subst. left. do 3 (split; [reflexivity|]).
        intros y Hy _ _. inversion Hy; subst. cbn [over]. rewrite ET. split; reflexivity.
  - (* limit l *)
    destruct (l <? x) eqn:EL.
    + destruct (HttpBody.abort_body S cfg true s) as [s1 c1] eqn:EA. intros H; inversion H; subst.
      right; right; left. repeat split; auto. exists x. cbn [over]. auto.
    + destruct (parse_size (o_stream cfg)) as [| |t] eqn:PT; try discriminate.
      * intros H; inversion H; subst. left. do 3 (split; [reflexivity|]).
        intros y Hy _ _. inversion Hy; subst. cbn [over]. rewrite EL. split; reflexivity.
      * destruct (t <? x) eqn:ET.
        -- intros H. specialize (SW (b, s', c) EL ET H). cbn in SW.
           destruct SW as [SW|SW]; [right; left; exact SW|right; right; right; exact SW].
        -- intros H; inversion H; subst. left. do 3 (split; [reflexivity|]).
           intros y Hy _ _. inversion Hy; subst. cbn [over]. rewrite EL, ET. split; reflexivity.
Qed.

(* every way check_body_size(False) can end *)
Lemma check_body_size_resp_cases (s s' : st) b c :
  check_body_size false s = Some (b, s', c) ->
  (b = false /\ s' = s /\ c = []
   /\ (forall x, resp_expected s = Some x -> 0 < x -> opt_truthy (o_stream cfg) || opt_truthy (o_limit cfg) = true ->
       over (parse_size (o_limit cfg)) x = false /\ over (parse_size (o_stream cfg)) x = false))
  \/ (b = false /\ response_body_buf s = [] /\ s' = set_resp_stream S s STrue /\ c = [])
  \/ (b = true /\ s' = fst (abort_body false s) /\ c = snd (abort_body false s)
      /\ exists x, resp_expected s = Some x /\ 0 < x /\ over (parse_size (o_limit cfg)) x = true)
  \/ (b = false /\ nonempty (response_body_buf s) = true
      /\ over (parse_size (o_limit cfg)) (blen (response_body_buf s)) = false
      /\ over (parse_size (o_stream cfg)) (blen (response_body_buf s)) = true
      /\ s' = (let s2 := set_server S (set_respbuf S (set_resp_stream S s STrue) []) Streaming in
               if o_store cfg then set_respbuf S s2 (response_body_buf s) else s2)
      /\ c = [CSend Client (MHeaders false); CSend Client (MData (response_body_buf s))]).
Proof.
  unfold HttpBody.check_body_size, resp_expected.
  destruct (opt_truthy (o_stream cfg) || opt_truthy (o_limit cfg)) eqn:TR; cbn [negb].
  2:{ intros H; inversion H; subst. left. do 3 (split; [reflexivity|]). intros; discriminate. }
  cbn [andb negb].
  destruct (if nonempty (response_body_buf s) then Some (blen (response_body_buf s))
            else match resp_framing s with Some f => expected_size f | None => None end) as [x|] eqn:Ee.
  2:{ intros H; inversion H; subst. left. do 3 (split; [reflexivity|]). intros; discriminate. }
  destruct (x <=? 0) eqn:E0.
  { intros H; inversion H; subst. left. do 3 (split; [reflexivity|]). apply Z.leb_le in E0.
    intros y Hy; inversion Hy; lia. }
  apply Z.leb_gt in E0.
  assert (SW : forall r,
    over (parse_size (o_limit cfg)) x = false -> over (parse_size (o_stream cfg)) x = true ->
    match switch_to_stream S fq fs cfg false s with Some (s1, c1) => Some (false, s1, c1) | None => None end = Some r ->
    let '(b, s', c) := r in
    (b = false /\ response_body_buf s = [] /\ s' = set_resp_stream S s STrue /\ c = [])
    \/ (b = false /\ nonempty (response_body_buf s) = true
        /\ over (parse_size (o_limit cfg)) (blen (response_body_buf s)) = false
        /\ over (parse_size (o_stream cfg)) (blen (response_body_buf s)) = true
        /\ s' = (let s2 := set_server S (set_respbuf S (set_resp_stream S s STrue) []) Streaming in
                 if o_store cfg then set_respbuf S s2 (response_body_buf s) else s2)
        /\ c = [CSend Client (MHeaders false); CSend Client (MData (response_body_buf s))])).
  { intros [[b0 s0] c0] OL OT. unfold switch_to_stream.
    assert (RB : response_body_buf (set_resp_stream S s STrue) = response_body_buf s) by (destruct s; reflexivity).
    rewrite RB.
    destruct (nonempty (response_body_buf s)) eqn:NE.
    - inversion Ee; subst x. unfold start_response_stream, state_stream_response_body.
      assert (RS : resp_stream (set_server S (set_respbuf S (set_resp_stream S s STrue) []) Streaming) = STrue)
        by (destruct s; reflexivity).
      rewrite RS, relay_chunks_eq. intros H; inversion H; subst; clear H.
      right. do 4 (split; [auto|]). cbn zeta. cbn [concat app]. rewrite ?app_nil_r.
      destruct s; cbn; rewrite ?app_nil_r; split; reflexivity.
    - intros H; inversion H; subst. left. repeat split; auto. apply nonempty_false; auto. }
  destruct (parse_size (o_limit cfg)) as [| |l] eqn:PL; try discriminate.
  - destruct (parse_size (o_stream cfg)) as [| |t] eqn:PT; try discriminate.
    + intros H; inversion H; subst. left. do 3 (split; [reflexivity|]).
      intros y Hy _ _. split; reflexivity.
    + destruct (t <? x) eqn:ET.
      * intros H. specialize (SW (b, s', c) eq_refl ET H). cbn in SW.
        destruct SW as [SW|SW]; [right; left; exact SW|right; right; right; exact SW].
      * intros H; inversion H; subst. left. do 3 (split; [reflexivity|]).
        intros y Hy _ _. inversion Hy; subst. cbn [over]. rewrite ET. split; reflexivity.
  - destruct (l <? x) eqn:EL.
    + destruct (HttpBody.abort_body S cfg false s) as [s1 c1] eqn:EA. intros H; inversion H; subst.
      right; right; left. repeat split; auto. exists x. cbn [over]. auto.
    + destruct (parse_size (o_stream cfg)) as [| |t] eqn:PT; try discriminate.
      * intros H; inversion H; subst. left. do 3 (split; [reflexivity|]).
        intros y Hy _ _. inversion Hy; subst. cbn [over]. rewrite EL. split; reflexivity.
      * destruct (t <? x) eqn:ET.
        -- intros H. specialize (SW (b, s', c) EL ET H). cbn in SW.
           destruct SW as [SW|SW]; [right; left; exact SW|right; right; right; exact SW].
        -- intros H; inversion H; subst. left. do 3 (split; [reflexivity|]).
           intros y Hy _ _. inversion Hy; subst. cbn [over]. rewrite EL, ET. split; reflexivity.
Qed.

End Facts.

(* ---- projections of command lists *)
(* request message parts sent to the server: head, data, end of message *)
Definition is_server_content (c : cmd) : bool :=
  match c with
  | CSend Server (MHeaders _) | CSend Server (MData _) | CSend Server MEom => true
  | _ => false
  end.
Definition server_content (cs : list cmd) : list cmd := filter is_server_content cs.
(* response message parts sent to the client *)
Definition is_client_content (c : cmd) : bool :=
  match c with
  | CSend Client (MHeaders _) | CSend Client (MData _) | CSend Client MEom => true
  | _ => false
  end.
Definition client_content (cs : list cmd) : list cmd := filter is_client_content cs.

(* payloads of the data events sent to one peer, in order *)
Fixpoint data_to (p : peer) (cs : list cmd) : list bytes :=
  match cs with
  | [] => []
  | CSend q (MData d) :: r =>
      match p, q with
      | Client, Client | Server, Server => d :: data_to p r
      | _, _ => data_to p r
      end
  | _ :: r => data_to p r
  end.

Lemma data_to_app p a b : data_to p (a ++ b) = data_to p a ++ data_to p b.
Proof.
  induction a as [|c a IH]; simpl; auto.
  destruct c; auto. destruct m; auto. destruct p, p0; simpl; rewrite IH; auto.
Qed.
Lemma data_to_map_same p ds : data_to p (map (fun c => CSend p (MData c)) ds) = ds.
Proof. induction ds; simpl; auto. destruct p; rewrite IHds; auto. Qed.
Lemma data_to_map_other p q ds : p <> q -> data_to p (map (fun c => CSend q (MData c)) ds) = [].
Proof. intros H. induction ds; simpl; auto. destruct p, q; auto; congruence. Qed.
Lemma no_server_send_no_content c :
  filter (fun x => match x with CSend Server _ => true | _ => false end) c = [] -> server_content c = [].
Proof.
  induction c as [|x r IH]; cbn; auto.
  destruct x as [h| |p m|]; cbn; auto. destruct p; cbn; auto. intros; discriminate.
Qed.
Lemma server_content_app a b : server_content (a ++ b) = server_content a ++ server_content b.
Proof. apply filter_app. Qed.
Lemma client_content_app a b : client_content (a ++ b) = client_content a ++ client_content b.
Proof. apply filter_app. Qed.
