(* Proofs/MvFormProofs.v -- urlencoded_form on a whole message: for ANY prior header list the
   setter leaves exactly one plain form content-type, so the getter decodes what was written (C34). *)
From Coq Require Import List Bool NArith Lia.
From MV Require Import Base.Bytes Model.MvCommon Model.MvUrl Model.MvForm
  Proofs.MvCommonLemmas Proofs.MvUrlQuote.
Import ListNotations.

(* writing header n2 does not disturb the values of a different header n1 *)
Lemma get_all_set_all_go_other n1 kc h : bytes_eqb (lower n1) kc = false ->
  forall vs, get_all n1 (fst (set_all_go kc h vs)) = get_all n1 h.
Proof.
  intros Hne. induction h as [|f h IH]; intros vs; [reflexivity|]. simpl.
  destruct (bytes_eqb (lower (fst f)) kc) eqn:E.
  - assert (Hf : bytes_eqb (lower (fst f)) (lower n1) = false).
    { destruct (bytes_eqb (lower (fst f)) (lower n1)) eqn:E2; [|reflexivity].
      apply bytes_eqb_eq in E2. rewrite E2 in E. congruence. }
    destruct vs as [|v vs].
    + rewrite IH. unfold get_all. simpl. rewrite Hf. reflexivity.
    + specialize (IH vs). destruct (set_all_go kc h vs) as [r rest]. simpl in *.
      unfold get_all in *. simpl. rewrite Hf. exact IH.
  - specialize (IH vs). destruct (set_all_go kc h vs) as [r rest]. simpl in *.
    unfold get_all in *. simpl. destruct (bytes_eqb (lower (fst f)) (lower n1)); simpl; rewrite IH; reflexivity.
Qed.

Lemma get_all_set_all_other n1 n2 vs h : bytes_eqb (lower n1) (lower n2) = false ->
  get_all n1 (set_all n2 vs h) = get_all n1 h.
Proof.
  intros Hne. unfold set_all. pose proof (get_all_set_all_go_other n1 (lower n2) h Hne vs) as G.
  destruct (set_all_go (lower n2) h vs) as [r rest]. simpl in G.
  unfold get_all in *. rewrite filter_app, map_app, G.
  assert (Z : filter (fun f => bytes_eqb (lower (fst f)) (lower n1)) (map (fun v => (n2, v)) rest) = []).
  { induction rest as [|v rest IH]; [reflexivity|]. simpl.
    destruct (bytes_eqb (lower n2) (lower n1)) eqn:E; [|exact IH].
    apply bytes_eqb_eq in E. rewrite E, bytes_eqb_refl in Hne. discriminate. }
  rewrite Z. simpl. rewrite app_nil_r. reflexivity.
Qed.

(* after the setter the getter sees exactly the plain form content-type, whatever was there before *)
Lemma ct_after_set h old l : ct_of (fst (set_form_msg h old l)) = FORM_CT.
Proof.
  unfold set_form_msg, set_content, ct_of, header_get. cbn [fst].
  destruct (has_header TE_NAME (set_all CT_NAME [FORM_CT] h)).
  - rewrite get_all_set_all. reflexivity.
  - rewrite get_all_set_all_other by reflexivity. rewrite get_all_set_all. reflexivity.
Qed.

Lemma body_after_set h old l : snd (set_form_msg h old l) = url_encode l old.
Proof. reflexivity. Qed.

Lemma enc_char_ascii c : implb (qpchar c || byte_eqb c EQS || byte_eqb c AMP) (is_ascii c) = true.
Proof. revert c. apply forall_bytes. vm_compute. reflexivity. Qed.

Lemma urlencode_ascii l : forallb is_ascii (urlencode l) = true.
Proof.
  apply (forallb_impl (fun c => qpchar c || byte_eqb c EQS || byte_eqb c AMP)); [|apply urlencode_chars].
  intros c H. pose proof (enc_char_ascii c) as E. destruct (qpchar c || byte_eqb c EQS || byte_eqb c AMP); [exact E|discriminate].
Qed.

Section FormMsg.
  (* Message.get_text(strict=False) as a function of the content-type header value and the body *)
  Variable get_text : bytes -> bytes -> bytes.
  (* contract: under the plain form content-type (no charset parameter) an ASCII body is its own text *)
  Hypothesis get_text_ascii : forall body, forallb is_ascii body = true -> get_text FORM_CT body = body.

  Theorem form_msg_roundtrip (h : fields) (old_text : option bytes) (l : pairs) :
    plain_mode old_text = true ->
    let m := set_form_msg h old_text l in
    get_form_msg (fst m) (get_text (ct_of (fst m)) (snd m)) = l.
  Proof.
    intros Hp m. unfold get_form_msg. subst m. rewrite ct_after_set, body_after_set.
    replace (contains FORM_CT (lower FORM_CT)) with true by (vm_compute; reflexivity).
    assert (E : url_encode l old_text = urlencode l).
    { unfold url_encode. destruct old_text as [st|]; [|rewrite andb_false_r; reflexivity].
      simpl in Hp. apply negb_true_iff in Hp. rewrite Hp, andb_false_r. reflexivity. }
    rewrite E. rewrite get_text_ascii by apply urlencode_ascii. apply parse_qsl_urlencode.
  Qed.
End FormMsg.

Example get_text_contract_satisfiable :
  forall body, forallb is_ascii body = true -> (fun _ b : bytes => b) FORM_CT body = body.
Proof. reflexivity. Qed.

(* the prior header may carry an ASCII-incompatible charset and duplicates: still exactly one plain header after *)
Lemma form_msg_sample :
  let h := [(CT_NAME, FORM_CT ++ [x3b; x20; x63; x68; x61; x72; x73; x65; x74; x3d; x75; x74; x66; x2d; x31; x36]);
            ([x58], [x31]); ([x43; x6f; x6e; x74; x65; x6e; x74; x2d; x54; x79; x70; x65], [x74])] in
  fst (set_form_msg h None [([x61], [x20])]) = [(CT_NAME, FORM_CT); ([x58], [x31]); (CL_NAME, [x33])]
  /\ snd (set_form_msg h None [([x61], [x20])]) = [x61; x3d; x2b].
Proof. vm_compute. split; reflexivity. Qed.
