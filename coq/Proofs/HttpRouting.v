(* Proofs/HttpRouting.v -- the invariant of HttpLayer.get_connection / register_connection (C08).
   One induction over the nesting fuel proves, for both functions at once, that the invariant
   (every waiting request matches the connection it waits on, that connection is handled by its own layer
   stack, all object numbers in use are below the allocation counter) is preserved, that every reply carries a
   connection satisfying R / E, that the heap below the allocation counter is untouched.
   The section abstracts R (relation between a request and the connection it is answered with), E (health of a
   replied connection) and P (provenance of a request) so that the same proof serves the routing theorem
   (R = spec equality, E = open and not failed) and the dispatch theorem (R, E trivial). *)
From Coq Require Import NArith List Bool Lia.
From MV Require Import Base.Bytes Model.HttpRoutingBase Gen.ConnSpec Model.HttpRouting Proofs.HttpRoutingBase.
Import ListNotations.
Open Scope N_scope.

Lemma reuse_loop_spec cf s g keys :
  match reuse_loop cf s g keys with
  | LQueue c => connection_spec_matches g (hget (l_heap s) c) = true /\ has_key (l_waiting s) c = true
  | LReuse c => connection_spec_matches g (hget (l_heap s) c) = true /\ c_error (hget (l_heap s) c) = false
                /\ connected (hget (l_heap s) c) = true /\ In c (map fst keys)
  | _ => True
  end.
Proof.
  induction keys as [|[c h] rest IH]; cbn [reuse_loop]; [exact I|].
  destruct (connection_spec_matches g (hget (l_heap s) c)) eqn:EM.
  - destruct (has_key (l_waiting s) c) eqn:EW; [split; assumption|].
    destruct (c_error (hget (l_heap s) c)) eqn:EE; [exact I|].
    destruct (connected (hget (l_heap s) c)) eqn:EC.
    + destruct (client_h2 cf && negb (c_h2 (hget (l_heap s) c))).
      * destruct (reuse_loop cf s g rest); auto.
        destruct IH as (H1 & H2 & H3 & H4). repeat split; auto. right; exact H4.
      * repeat split; auto. left; reflexivity.
    + destruct (reuse_loop cf s g rest); auto.
      destruct IH as (H1 & H2 & H3 & H4). repeat split; auto. right; exact H4.
  - destruct (reuse_loop cf s g rest); auto.
    destruct IH as (H1 & H2 & H3 & H4). repeat split; auto. right; exact H4.
Qed.

(* the LFall continuation of get_connection, named so that it can be reasoned about once *)
Definition fall (f : nat) (cf : cfg) (s : lstate) (w : waiter) : lstate * list out :=
  let g := snd w in
  let ctx := ctx_server cf in
  let kc := hget (l_heap s) ctx in
  let ctx_matches := negb (has_key (l_conns s) ctx) && connection_spec_matches g kc in
  let can_use := ctx_matches && connected kc in
  if ctx_matches && c_error kc then (s, [reply_err w])
  else if can_use then
    register_connection f cf
      (mkL (dict_set (l_conns s) ctx ctx) (waiting_add (l_waiting s) ctx w) (l_heap s) (l_next s)
           (l_stacks s ++ [(ctx, mkStack None false false)])) ctx false
  else
    let l := l_next s in
    match g_via g with
    | Some v =>
        let p := l + 1 in
        (mkL (dict_set (dict_set (l_conns s) l l) p l) (waiting_add (l_waiting s) l w)
             (hset (hset (l_heap s) l (new_server g)) p (new_carrier v)) (l + 2)
             (l_stacks s ++ [(l, mkStack (Some p) (g_tls g || negb (upstream_mode cf)) (g_tls g))]), [])
    | None =>
        (mkL (dict_set (l_conns s) l l) (waiting_add (l_waiting s) l w)
             (hset (l_heap s) l (new_server g)) (l + 1)
             (l_stacks s ++ [(l, mkStack None false (g_tls g))]), [])
    end.

Lemma get_connection_unfold f cf s w reuse :
  get_connection (S f) cf s w reuse =
  match (if reuse then reuse_loop cf s (snd w) (l_conns s) else LFall) with
  | LQueue c => (set_waiting s (waiting_add (l_waiting s) c w), [])
  | LErr c => (s, [reply_err w])
  | LReuse c => (s, [reply_conn s w c])
  | LFall => fall f cf s w
  end.
Proof. reflexivity. Qed.

Definition reg_fold (f : nat) (cf : cfg) :=
  fun (acc : lstate * list out) (w : waiter) =>
    let (st', o') := get_connection f cf (fst acc) w false in (st', snd acc ++ o').

Lemma register_connection_unfold f cf s l err :
  register_connection (S f) cf s l err =
  match waiting_pop (l_waiting s) l with
  | None => (s, [OKeyError])
  | Some (ws, w') =>
      let s1 := set_waiting s w' in
      if err then (s1, map reply_err ws)
      else if client_h2 cf && negb (c_h2 (hget (l_heap s1) l)) then
        match ws with
        | [] => (s1, [])
        | w0 :: rest => fold_left (reg_fold f cf) rest (s1, [reply_conn s1 w0 l])
        end
      else (s1, map (fun w => reply_conn s1 w l) ws)
  end.
Proof. reflexivity. Qed.

Section Invariant.
  Variable P : waiter -> Prop.
  Variable R : get_cmd -> conn -> Prop.
  Variable E : conn -> Prop.
  Hypothesis R_match : forall g k, connection_spec_matches g k = true -> R g k.
  Hypothesis R_new : forall g, R g (new_server g).
  Hypothesis E_ok : forall k, c_error k = false -> connected k = true -> E k.

  Definition inv (cf : cfg) (s : lstate) : Prop :=
    ctx_server cf < l_next s
    /\ (forall c, has_key (l_waiting s) c = true -> c < l_next s)
    /\ all_waiting (fun c x => R (snd x) (hget (l_heap s) c) /\ P x) (l_waiting s)
    /\ (forall c, has_key (l_waiting s) c = true -> handler_of (l_conns s) c = c).

  Definition out_ok (o : out) : Prop :=
    match o with
    | OReply rid g (Some (c, k, h)) => R g k /\ E k /\ P (rid, g)
    | OReply rid g None => P (rid, g)
    | _ => True
    end.

  (* the request head is dispatched to the layer stack of the replied connection itself *)
  Definition out_own (o : out) : Prop :=
    match o with
    | OReply _ _ (Some (c, _, h)) => h = c
    | _ => True
    end.

  Definition post (cf : cfg) (s s' : lstate) (outs : list out) : Prop :=
    inv cf s' /\ Forall out_ok outs /\ l_next s <= l_next s'
    /\ (forall c, c < l_next s -> hget (l_heap s') c = hget (l_heap s) c).

  Definition get_goal (fuel : nat) (cf : cfg) : Prop :=
    forall s w reuse s' outs, inv cf s -> P w -> get_connection fuel cf s w reuse = (s', outs) ->
      post cf s s' outs
      /\ ((reuse = true -> no_foreign_match s (SGet (fst w) (snd w)) = true) -> Forall out_own outs).

  Definition reg_goal (fuel : nat) (cf : cfg) : Prop :=
    forall s l err s' outs, inv cf s ->
      (err = false -> E (hget (l_heap s) l)) ->
      register_connection fuel cf s l err = (s', outs) ->
      post cf s s' outs /\ Forall out_own outs.

  Lemma post_refl cf s outs : inv cf s -> Forall out_ok outs -> post cf s s outs.
  Proof. intros HI HO. split; [exact HI|]. split; [exact HO|]. split; [lia|]. intros; reflexivity. Qed.

  Lemma post_same cf s s' outs :
    inv cf s' -> Forall out_ok outs -> l_next s' = l_next s -> l_heap s' = l_heap s -> post cf s s' outs.
  Proof.
    intros HI HO HN HH. split; [exact HI|]. split; [exact HO|]. split; [lia|]. intros; rewrite HH; reflexivity.
  Qed.

  Lemma new_conn_ok cf s w conns' heap' n' stacks' :
    inv cf s -> P w ->
    (n' = l_next s + 1 \/ n' = l_next s + 2) ->
    (forall c, c < l_next s -> hget heap' c = hget (l_heap s) c) ->
    hget heap' (l_next s) = new_server (snd w) ->
    handler_of conns' (l_next s) = l_next s ->
    (forall c, c < l_next s -> handler_of conns' c = handler_of (l_conns s) c) ->
    post cf s (mkL conns' (waiting_add (l_waiting s) (l_next s) w) heap' n' stacks') [].
  Proof.
    intros (I1 & I2 & I3 & I4) HP HN HH HL HD1 HD2.
    unfold post, inv; cbn [l_conns l_waiting l_heap l_next l_stacks].
    split; [split; [|split; [|split]] | split; [constructor | split]].
    - destruct HN; lia.
    - intros c Hc. apply waiting_add_keys in Hc. destruct Hc as [-> | Hc]; [destruct HN; lia|].
      apply I2 in Hc. destruct HN; lia.
    - apply all_waiting_add.
      + eapply all_waiting_weaken; [|exact I3]. cbn beta. intros c x Hc [HR HPx]. split; auto.
        apply I2 in Hc. rewrite HH by exact Hc. exact HR.
      + split; auto. rewrite HL. apply R_new.
    - intros c Hc. apply waiting_add_keys in Hc. destruct Hc as [-> | Hc]; [exact HD1|].
      rewrite HD2 by (apply I2; exact Hc). apply I4; exact Hc.
    - destruct HN; lia.
    - exact HH.
  Qed.

  Lemma fall_ok f cf : reg_goal f cf ->
    forall s w s' outs, inv cf s -> P w -> fall f cf s w = (s', outs) ->
      post cf s s' outs /\ Forall out_own outs.
  Proof.
    intros IHr s [rid g] s' outs HI HP. unfold fall. cbn [snd fst].
    pose proof HI as (I1 & I2 & I3 & I4).
    set (ctx := ctx_server cf) in *. set (kc := hget (l_heap s) ctx).
    assert (NEW : (let l := l_next s in
      match g_via g with
      | Some v =>
          (mkL (dict_set (dict_set (l_conns s) l l) (l + 1) l) (waiting_add (l_waiting s) l (rid, g))
               (hset (hset (l_heap s) l (new_server g)) (l + 1) (new_carrier v)) (l + 2)
               (l_stacks s ++ [(l, mkStack (Some (l + 1)) (g_tls g || negb (upstream_mode cf)) (g_tls g))]), [])
      | None =>
          (mkL (dict_set (l_conns s) l l) (waiting_add (l_waiting s) l (rid, g))
               (hset (l_heap s) l (new_server g)) (l + 1)
               (l_stacks s ++ [(l, mkStack None false (g_tls g))]), [])
      end = (s', outs)) -> post cf s s' outs /\ Forall out_own outs).
    { cbv zeta. destruct (g_via g) as [v|]; intros H; inversion H; subst; clear H; (split; [|constructor]).
      - apply new_conn_ok; auto.
        + intros c Hc. rewrite !hget_hset_other by lia. reflexivity.
        + rewrite hget_hset_other by lia. apply hget_hset_same.
        + rewrite handler_of_dict_set_other by lia. apply handler_of_dict_set_same.
        + intros c Hc. rewrite !handler_of_dict_set_other by lia. reflexivity.
      - apply new_conn_ok; auto.
        + intros c Hc. rewrite !hget_hset_other by lia. reflexivity.
        + apply hget_hset_same.
        + apply handler_of_dict_set_same.
        + intros c Hc. rewrite !handler_of_dict_set_other by lia. reflexivity. }
    destruct (negb (has_key (l_conns s) ctx) && connection_spec_matches g kc) eqn:EM; cbn [andb].
    - destruct (c_error kc) eqn:EE.
      + intros H; inversion H; subst. split; [|repeat constructor].
        apply post_refl; [exact HI|]. repeat constructor. exact HP.
      + destruct (connected kc) eqn:EC; [|exact NEW].
        (* the context connection is used *)
        apply andb_true_iff in EM. destruct EM as [_ EM].
        intros H. apply IHr in H.
        * destruct H as [(J1 & J2 & J3 & J4) HO]. split; auto.
          split; [exact J1|]. split; [exact J2|]. split; [exact J3|exact J4].
        * unfold inv; cbn [l_conns l_waiting l_heap l_next l_stacks]. split; [|split; [|split]].
          -- exact I1.
          -- intros c Hc. apply waiting_add_keys in Hc. destruct Hc as [-> | Hc]; auto.
          -- apply all_waiting_add; [exact I3 | split; auto].
          -- intros c Hc. destruct (N.eq_dec c ctx) as [-> | D]; [apply handler_of_dict_set_same|].
             rewrite handler_of_dict_set_other by exact D.
             apply waiting_add_keys in Hc. destruct Hc as [-> | Hc]; [congruence | auto].
        * intros _. cbn [l_heap]. apply E_ok; assumption.
    - exact NEW.
  Qed.

  Lemma get_step f cf : reg_goal f cf -> get_goal (S f) cf.
  Proof.
    intros IHr s [rid g] reuse s' outs HI HP. rewrite get_connection_unfold. cbn [snd fst].
    destruct reuse.
    - pose proof (reuse_loop_spec cf s g (l_conns s)) as HL.
      destruct (reuse_loop cf s g (l_conns s)) as [c|c|c|] eqn:EL.
      + (* queue on a pending connection *)
        destruct HL as [HM HK]. destruct HI as (I1 & I2 & I3 & I4).
        intros H; inversion H; subst; clear H. split; [|intros _; constructor].
        unfold post, inv; cbn [set_waiting l_conns l_waiting l_heap l_next l_stacks].
        split; [split; [|split; [|split]] | split; [constructor | split]].
        * exact I1.
        * intros c0 Hc. apply waiting_add_keys in Hc. destruct Hc as [-> | Hc]; auto.
        * apply all_waiting_add; [exact I3 | split; auto].
        * intros c0 Hc. apply waiting_add_keys in Hc. destruct Hc as [-> | Hc]; auto.
        * lia.
        * intros; reflexivity.
      + (* cached error *)
        intros H; inversion H; subst; clear H. split; [|intros _; repeat constructor].
        apply post_refl; [exact HI|]. repeat constructor. exact HP.
      + (* reuse *)
        destruct HL as (HM & HE & HC & HIn).
        intros H; inversion H; subst; clear H. split.
        * apply post_refl; [exact HI|]. constructor; [|constructor]. cbn. auto.
        * intros HG. specialize (HG eq_refl). cbn in HG. repeat constructor. cbn.
          rewrite forallb_forall in HG. apply in_map_iff in HIn. destruct HIn as [x [Hx HIn]].
          specialize (HG x HIn). rewrite Hx in HG. rewrite HM in HG. cbn in HG. apply N.eqb_eq in HG. exact HG.
      + intros H. destruct (fall_ok f cf IHr s (rid, g) s' outs HI HP H) as [H1 H2]. split; auto.
    - intros H. destruct (fall_ok f cf IHr s (rid, g) s' outs HI HP H) as [H1 H2]. split; auto.
  Qed.

  Lemma fold_ok f cf : get_goal f cf ->
    forall rest st acc s0 s' outs,
      inv cf st -> (forall x, In x rest -> P x) ->
      Forall out_ok acc -> Forall out_own acc -> l_next s0 <= l_next st ->
      (forall c, c < l_next s0 -> hget (l_heap st) c = hget (l_heap s0) c) ->
      fold_left (reg_fold f cf) rest (st, acc) = (s', outs) ->
      post cf s0 s' outs /\ Forall out_own outs.
  Proof.
    intros IHg rest. induction rest as [|x rest IH]; intros st acc s0 s' outs HI HP HA HO HN HH; cbn [fold_left].
    - intros H; inversion H; subst. split; auto. split; [exact HI|]. split; [exact HA|]. split; [exact HN|exact HH].
    - unfold reg_fold at 2. cbn [fst snd].
      destruct (get_connection f cf st x false) as [st1 o1] eqn:EG.
      destruct (IHg st x false st1 o1 HI (HP x (or_introl eq_refl)) EG) as [(J1 & J2 & J3 & J4) J5].
      apply IH; auto.
      + intros y Hy. apply HP. right; exact Hy.
      + apply Forall_app; auto.
      + apply Forall_app; split; auto. apply J5. discriminate.
      + lia.
      + intros c Hc. rewrite J4 by lia. auto.
  Qed.

  Lemma reg_step f cf : get_goal f cf -> reg_goal (S f) cf.
  Proof.
    intros IHg s l err s' outs HI HE. rewrite register_connection_unfold.
    destruct (waiting_pop (l_waiting s) l) as [[ws w']|] eqn:EP.
    - destruct HI as (I1 & I2 & I3 & I4).
      destruct (all_waiting_pop _ _ _ _ _ I3 EP) as [HWS HW'].
      assert (HK : has_key (l_waiting s) l = true).
      { apply has_key_In. exists ws. exact (proj1 (waiting_pop_spec _ _ _ _ EP)). }
      assert (HI1 : inv cf (set_waiting s w')).
      { unfold inv; cbn [set_waiting l_conns l_waiting l_heap l_next l_stacks]. split; [|split; [|split]].
        - exact I1.
        - intros c Hc. apply I2. eapply waiting_pop_keys; eauto.
        - exact HW'.
        - intros c Hc. apply I4. eapply waiting_pop_keys; eauto. }
      cbv zeta. destruct err.
      + intros H; inversion H; subst; clear H. split.
        * apply post_same; auto. apply Forall_forall. intros o Ho. apply in_map_iff in Ho.
          destruct Ho as [[r g] [<- Hx]]. cbn. apply (HWS _ Hx).
        * apply Forall_forall. intros o Ho. apply in_map_iff in Ho. destruct Ho as [x [<- _]]. exact I.
      + specialize (HE eq_refl).
        assert (HR : forall x, In x ws -> out_ok (reply_conn (set_waiting s w') x l) /\ out_own (reply_conn (set_waiting s w') x l)).
        { intros [r g] Hx. destruct (HWS _ Hx) as [H1 H2]. cbn in *. repeat split; auto. }
        destruct (client_h2 cf && negb (c_h2 (hget (l_heap (set_waiting s w')) l))).
        * destruct ws as [|w0 rest].
          -- intros H; inversion H; subst. split; [apply post_same; auto | constructor].
          -- intros H. eapply (fold_ok f cf IHg rest (set_waiting s w') _ s) in H; eauto.
             ++ intros x Hx. apply (HWS x). right; exact Hx.
             ++ constructor; [|constructor]. apply (HR w0). left; reflexivity.
             ++ constructor; [|constructor]. apply (HR w0). left; reflexivity.
             ++ cbn; lia.
        * intros H; inversion H; subst; clear H. split.
          -- apply post_same; auto. apply Forall_forall. intros o Ho. apply in_map_iff in Ho.
             destruct Ho as [x [<- Hx]]. apply (HR x Hx).
          -- apply Forall_forall. intros o Ho. apply in_map_iff in Ho.
             destruct Ho as [x [<- Hx]]. apply (HR x Hx).
    - intros H; inversion H; subst. split; [apply post_refl; auto | ]; repeat constructor.
  Qed.

  Lemma get_register_ok fuel cf : get_goal fuel cf /\ reg_goal fuel cf.
  Proof.
    induction fuel as [|f [IHg IHr]].
    - split.
      + intros s w reuse s' outs HI HP H. cbn in H. inversion H; subst. split; [apply post_refl; auto|]; repeat constructor.
      + intros s l err s' outs HI HE H. cbn in H. inversion H; subst. split; [apply post_refl; auto|]; repeat constructor.
    - split; [apply get_step; exact IHr | apply reg_step; exact IHg].
  Qed.

  (* one step of a history *)
  Lemma step_inv cf s e s' outs :
    inv cf s ->
    (forall rid g, e = SGet rid g -> P (rid, g)) ->
    (forall l, e = SRegister l false -> E (hget (l_heap s) l)) ->
    (forall c f k' g, e = SSet c f -> has_key (l_waiting s) c = true ->
        server_setattr (hget (l_heap s) c) f = Some k' -> R g (hget (l_heap s) c) -> R g k') ->
    step_fn cf s e = (s', outs) ->
    inv cf s' /\ Forall out_ok outs /\ (no_foreign_match s e = true -> Forall out_own outs).
  Proof.
    intros HI HP HE HS. destruct e as [rid g | l err | c f]; cbn [step_fn].
    - intros H. destruct (proj1 (get_register_ok nest_fuel cf) s (rid, g) true s' outs HI (HP _ _ eq_refl) H)
        as [(J1 & J2 & _) J3]. split; [exact J1|]. split; [exact J2|]. intros HG. apply J3. intros _. exact HG.
    - intros H. destruct (proj2 (get_register_ok nest_fuel cf) s l err s' outs HI) as [(J1 & J2 & _) J3]; auto.
      intros ->. apply HE. reflexivity.
    - destruct (server_setattr (hget (l_heap s) c) f) as [k'|] eqn:ES; intros H; inversion H; subst; clear H.
      + destruct HI as (I1 & I2 & I3 & I4).
        split; [|split; [repeat constructor | intros _; repeat constructor]].
        unfold inv; cbn [l_conns l_waiting l_heap l_next l_stacks]. split; [exact I1|]. split; [exact I2|]. split; [|exact I4].
        intros c0 ws x H1 H2. destruct (I3 c0 ws x H1 H2) as [HR HPx]. split; auto.
        destruct (N.eq_dec c0 c) as [-> | D].
        * rewrite hget_hset_same. eapply HS; eauto. apply has_key_In. eauto.
        * rewrite hget_hset_other by exact D. exact HR.
      + split; [exact HI|]. split; [repeat constructor | intros _; repeat constructor].
  Qed.
End Invariant.

