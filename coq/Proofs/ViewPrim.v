(* Proofs/ViewPrim.v -- specifications of the SortedKeyList methods on self._view, of View.__getitem__,
   of the Focus and Settings receivers, of _base_add and of _OrderKey.refresh. *)
From Coq Require Import List Bool Arith NArith ZArith Lia Permutation Sorted.
From MV Require Import Base.Bytes Model.View Proofs.ViewBase Proofs.ViewSpec.
Import ListNotations.

Ltac msimp := repeat (rewrite bind_assoc || rewrite bind_gets || rewrite bind_modify || rewrite bind_ret).

Lemma raw_ids_nth s i k id : nth_error (view s) i = Some (k, id) -> nth_error (raw_ids s) i = Some id.
Proof. intros H. unfold raw_ids. apply (map_nth_error snd) in H. exact H. Qed.

Lemma view_key_spec id s : exists k s', _view_key id s = Ok (k, s') /\ ext s s'
  /\ (In id (store s) -> forall k0, cache_of s id (okey s) = Some k0 -> k = k0)
  /\ (In id (store s) -> cache_of s' id (okey s) = Some k)
  /\ (~ In id (store s) \/ cache_of s id (okey s) = None -> k = generate (okey s) (attr s id)).
Proof. unfold _view_key. msimp. apply okey_call_spec. Qed.

(* __contains__ / index *)
Lemma view_find_spec id s : CoreV s -> exists r s', _view_find id s = Ok (r, s') /\ ext s s'
  /\ (forall i, r = Some i -> nth_error (raw_ids s) i = Some id)
  /\ (r = None -> ~ In id (raw_ids s)).
Proof.
  intros C. unfold _view_find. msimp. destruct (view s) as [|e v] eqn:V.
  - exists None, s. split; [reflexivity|]. split; [apply ext_refl|]. split; [discriminate|].
    intros _. unfold raw_ids. rewrite V. simpl. tauto.
  - destruct (view_key_spec id s) as (k & s1 & E & X & Hc & _ & _).
    rewrite (bind_ok _ _ _ _ _ E). msimp.
    eexists _, s1. split; [reflexivity|]. split; [exact X|].
    rewrite (e_view _ _ X). split.
    + intros i Hi. apply sl_index_some in Hi. eapply raw_ids_nth; eauto.
    + intros Hn Hin. apply in_ids_split in Hin as [k0 Hin].
      destruct (c_cached _ C _ _ Hin) as [Hst Hk].
      rewrite (Hc Hst _ Hk) in Hn.
      destruct (sl_index_in _ _ _ (c_sorted _ C) Hin) as [i Hi]. congruence.
Qed.

Lemma view_contains_spec id s : CoreV s -> exists b s', _view_contains id s = Ok (b, s') /\ ext s s'
  /\ (b = true <-> In id (raw_ids s)).
Proof.
  intros C. unfold _view_contains.
  destruct (view_find_spec id s C) as (r & s1 & E & X & H1 & H2).
  rewrite (bind_ok _ _ _ _ _ E). msimp. eexists _, s1. split; [reflexivity|]. split; [exact X|].
  destruct r as [i|].
  - split; [intros _|reflexivity]. eapply nth_error_In. apply H1. reflexivity.
  - split; [discriminate|]. intros Hin. exfalso. apply H2; auto.
Qed.

Lemma view_index_spec id s : CoreV s -> In id (raw_ids s) -> exists i s', _view_index id s = Ok (i, s') /\ ext s s'
  /\ nth_error (raw_ids s) i = Some id.
Proof.
  intros C Hin. unfold _view_index.
  destruct (view_find_spec id s C) as (r & s1 & E & X & H1 & H2).
  rewrite (bind_ok _ _ _ _ _ E). destruct r as [i|].
  - exists i, s1. split; [reflexivity|]. split; [exact X|]. apply H1. reflexivity.
  - exfalso. apply H2; auto.
Qed.

Lemma view_remove_spec id s : CoreV s -> In id (raw_ids s) -> exists s', _view_remove id s = Ok (tt, s')
  /\ updm s s' /\ focus s' = focus s /\ log s' = log s
  /\ exists k l1 l2, view s = l1 ++ (k, id) :: l2 /\ view s' = l1 ++ l2.
Proof.
  intros C Hin. unfold _view_remove. msimp. destruct (view s) as [|e v] eqn:V.
  - unfold raw_ids in Hin. rewrite V in Hin. destruct Hin.
  - destruct (view_key_spec id s) as (k & s1 & E & X & Hc & _ & _).
    rewrite (bind_ok _ _ _ _ _ E). msimp. rewrite (e_view _ _ X).
    apply in_ids_split in Hin as [k0 Hin0].
    destruct (c_cached _ C _ _ Hin0) as [Hst Hk]. rewrite (Hc Hst _ Hk).
    destruct (sl_remove_in _ _ _ (c_sorted _ C) Hin0) as [v' Hv]. rewrite Hv.
    destruct (sl_remove_some _ _ _ _ Hv) as (l1 & l2 & A & B).
    eexists. split; [reflexivity|]. destruct X as [[[Cf Nw Ids] Mo] Xv Xf Xl].
    split; [|split; [exact Xf | split; [exact Xl|]]].
    + constructor; [constructor|]; auto. destruct Cf; constructor; assumption.
    + exists k0, l1, l2. split; [rewrite <- V; exact A | exact B].
Qed.

Lemma view_add_spec id s : exists s', _view_add id s = Ok (tt, s')
  /\ updm s s' /\ focus s' = focus s /\ log s' = log s
  /\ exists k, view s' = sl_add k id (view s)
     /\ (In id (store s) -> forall k0, cache_of s id (okey s) = Some k0 -> k = k0)
     /\ (In id (store s) -> cache_of s' id (okey s) = Some k).
Proof.
  unfold _view_add. destruct (view_key_spec id s) as (k & s1 & E & X & Hc & Hn & _).
  rewrite (bind_ok _ _ _ _ _ E). unfold modify. eexists. split; [reflexivity|].
  destruct X as [[[Cf Nw Ids] Mo] Xv Xf Xl].
  split; [|split; [exact Xf | split; [exact Xl|]]].
  - constructor; [constructor|]; auto. destruct Cf; constructor; assumption.
  - exists k. simpl. rewrite Xv. split; [reflexivity|]. split; [exact Hc | exact Hn].
Qed.

(* ---------- View.__getitem__ and _bisect ---------- *)
Lemma view_getitem_spec offset s : (0 <= offset < Z.of_nat (length (view s)))%Z ->
  exists a, view_getitem offset s = Ok (a, s) /\ In a (raw_ids s).
Proof.
  intros Ho. unfold view_getitem, _rev, view_len. msimp.
  assert (G : forall i, (0 <= i < Z.of_nat (length (view s)))%Z ->
             exists a, _view_getitem i s = Ok (a, s) /\ In a (raw_ids s)).
  { intros i Hi. unfold _view_getitem. msimp.
    replace (Z.ltb i 0) with false by (symmetry; apply Z.ltb_ge; lia).
    replace (Z.ltb i 0 || Z.leb (Z.of_nat (length (view s))) i) with false.
    2:{ symmetry. apply orb_false_iff. split; [apply Z.ltb_ge; lia | apply Z.leb_gt; lia]. }
    destruct (nth_error (view s) (Z.to_nat i)) as [e|] eqn:E.
    - exists (snd e). split; [reflexivity|]. apply nth_error_In in E. unfold raw_ids. apply in_map. exact E.
    - apply nth_error_None in E. lia. }
  destruct (reversed s).
  - replace (Z.ltb offset 0) with false by (symmetry; apply Z.ltb_ge; lia). msimp.
    replace (Z.ltb (Z.of_nat (length (view s)) - offset - 1) 0) with false by (symmetry; apply Z.ltb_ge; lia).
    msimp. apply G. lia.
  - msimp. apply G. exact Ho.
Qed.

Lemma bisect_spec id s : exists r s', _bisect id s = Ok (r, s') /\ ext s s' /\ (0 <= r)%Z.
Proof.
  unfold _bisect, _view_bisect_right.
  destruct (view_key_spec id s) as (k & s1 & E & X & _).
  msimp. rewrite (bind_ok _ _ _ _ _ E). msimp.
  pose proof (sl_bisect_right_le k (view s1)) as Hle.
  unfold _rev, view_len. msimp. destruct (reversed s1).
  - destruct (Z.ltb (Z.of_nat (sl_bisect_right k (view s1)) - 1) 0) eqn:E1.
    + msimp. eexists _, s1. split; [reflexivity|]. split; [exact X|]. apply Z.ltb_lt in E1. lia.
    + msimp. apply Z.ltb_ge in E1.
      replace (Z.ltb (Z.of_nat (length (view s1)) - (Z.of_nat (sl_bisect_right k (view s1)) - 1) - 1) 0) with false
        by (symmetry; apply Z.ltb_ge; lia).
      msimp. eexists _, s1. split; [reflexivity|]. split; [exact X|]. lia.
  - msimp. eexists _, s1. split; [reflexivity|]. split; [exact X|]. lia.
Qed.

(* ---------- Focus ---------- *)
(* result of a Focus receiver: only focus (and settings, monotonically) changed *)
Record foc (s s' : state) : Prop := { f_updm : updm s s'; f_view : view s' = view s; f_log : log s' = log s }.
Lemma foc_ext s s' : ext s s' -> foc s s'. Proof. intros []. constructor; assumption. Qed.
Lemma foc_trans a b c : foc a b -> foc b c -> foc a c.
Proof. intros [] []. constructor; [eapply updm_trans; eauto | congruence..]. Qed.
Lemma updm_same_settings s s' : cfg_eq s s' -> settings s' = settings s -> updm s s'.
Proof.
  intros C E. constructor; [constructor|].
  - exact C.
  - intros id o k H. left. unfold cache_of in *. rewrite E in H. exact H.
  - intros id H. left. unfold settings_ids in *. rewrite E in H. exact H.
  - intros id o k H. unfold cache_of in *. rewrite E. exact H.
Qed.
Lemma foc_set_focus f s : foc s (set_focus f s).
Proof. constructor; [apply updm_same_settings; [constructor; reflexivity | reflexivity] | reflexivity..]. Qed.
Lemma CoreV_foc s s' : foc s s' -> CoreV s -> CoreV s'.
Proof. intros [U V _]. apply CoreV_updm; assumption. Qed.
Lemma raw_ids_foc s s' : foc s s' -> raw_ids s' = raw_ids s.
Proof. intros [_ V _]. unfold raw_ids. rewrite V. reflexivity. Qed.

Lemma focus_set_flow_some id s : CoreV s -> In id (raw_ids s) ->
  exists s', focus_set_flow (Some id) s = Ok (tt, s') /\ foc s s' /\ focus s' = Some id.
Proof.
  intros C Hin. unfold focus_set_flow, view_contains.
  destruct (view_contains_spec id s C) as (b & s1 & E & X & Hb).
  rewrite (bind_ok _ _ _ _ _ E). apply Hb in Hin. subst b.
  eexists. split; [reflexivity|]. split; [|reflexivity].
  eapply foc_trans; [apply foc_ext; exact X | apply foc_set_focus].
Qed.
Lemma focus_set_flow_none s : focus_set_flow None s = Ok (tt, set_focus None s).
Proof. reflexivity. Qed.

Lemma focus_set_index_spec idx s : CoreV s -> (0 <= idx < Z.of_nat (length (view s)))%Z ->
  exists s' f, focus_set_index idx s = Ok (tt, s') /\ foc s s' /\ focus s' = Some f /\ In f (raw_ids s).
Proof.
  intros C Hi. unfold focus_set_index, view_len. msimp.
  replace (Z.ltb idx 0 || Z.ltb (Z.of_nat (length (view s)) - 1) idx) with false.
  2:{ symmetry. apply orb_false_iff. split; apply Z.ltb_ge; lia. }
  destruct (view_getitem_spec idx s Hi) as (f & E & Hin).
  rewrite (bind_ok _ _ _ _ _ E).
  destruct (focus_set_flow_some f s C Hin) as (s' & E2 & X & Hf).
  exists s', f. auto.
Qed.

Lemma FocusOk_some s f : focus s = Some f -> In f (raw_ids s) -> FocusOk s.
Proof. unfold FocusOk. intros ->. auto. Qed.

Lemma view_len_zero s : Z.eqb (Z.of_nat (length (view s))) 0 = true -> view s = [].
Proof. intros H. apply Z.eqb_eq in H. destruct (view s); [reflexivity | simpl in H; lia]. Qed.

Lemma focus_sig_view_refresh_spec s : CoreV s ->
  exists s', focus_sig_view_refresh s = Ok (tt, s') /\ foc s s' /\ FocusOk s'.
Proof.
  intros C. unfold focus_sig_view_refresh, view_len. msimp.
  destruct (Z.eqb (Z.of_nat (length (view s))) 0) eqn:En.
  - rewrite focus_set_flow_none. eexists. split; [reflexivity|]. split; [apply foc_set_focus|].
    unfold FocusOk. simpl. apply view_len_zero. exact En.
  - apply Z.eqb_neq in En. msimp. destruct (focus s) as [g|] eqn:Fo.
    + unfold view_contains. destruct (view_contains_spec g s C) as (b & s1 & E & X & Hb).
      rewrite (bind_ok _ _ _ _ _ E). destruct b.
      * exists s1. split; [reflexivity|]. split; [apply foc_ext; exact X|].
        eapply FocusOk_some; [rewrite (e_focus _ _ X); exact Fo|].
        rewrite (raw_ids_foc _ _ (foc_ext _ _ X)). apply Hb. reflexivity.
      * unfold focus_nearest, view_len.
        destruct (bisect_spec g s1) as (r & s2 & E2 & X2 & Hr).
        msimp. rewrite (bind_ok _ _ _ _ _ E2). msimp.
        assert (C2 : CoreV s2).
        { apply (CoreV_foc s s2); [apply foc_ext; exact (ext_trans _ _ _ X X2) | exact C]. }
        assert (V2 : view s2 = view s) by (rewrite (e_view _ _ X2); apply (e_view _ _ X)).
        assert (Hi : (0 <= Z.min r (Z.of_nat (length (view s2)) - 1) < Z.of_nat (length (view s2)))%Z).
        { rewrite V2. lia. }
        destruct (view_getitem_spec _ s2 Hi) as (f & E3 & Hin).
        rewrite (bind_ok _ _ _ _ _ E3).
        destruct (focus_set_flow_some f s2 C2 Hin) as (s3 & E4 & X4 & Hf).
        exists s3. split; [exact E4|]. split.
        { eapply foc_trans; [apply foc_ext; eapply ext_trans; eauto | exact X4]. }
        eapply FocusOk_some; [exact Hf|]. rewrite (raw_ids_foc _ _ X4). exact Hin.
    + assert (Hi : (0 <= 0 < Z.of_nat (length (view s)))%Z) by lia.
      destruct (view_getitem_spec _ s Hi) as (f & E3 & Hin).
      rewrite (bind_ok _ _ _ _ _ E3).
      destruct (focus_set_flow_some f s C Hin) as (s3 & E4 & X4 & Hf).
      exists s3. split; [exact E4|]. split; [exact X4|].
      eapply FocusOk_some; [exact Hf|]. rewrite (raw_ids_foc _ _ X4). exact Hin.
Qed.

Lemma focus_sig_view_remove_spec id idx s : CoreV s ->
  match focus s with Some g => g = id \/ In g (raw_ids s) | None => False end ->
  exists s', focus_sig_view_remove id idx s = Ok (tt, s') /\ foc s s' /\ FocusOk s'.
Proof.
  intros C Hf. unfold focus_sig_view_remove, view_len. msimp.
  destruct (Z.eqb (Z.of_nat (length (view s))) 0) eqn:En.
  - rewrite focus_set_flow_none. eexists. split; [reflexivity|]. split; [apply foc_set_focus|].
    unfold FocusOk. simpl. apply view_len_zero. exact En.
  - apply Z.eqb_neq in En. msimp. destruct (focus s) as [g|] eqn:Fo; [|contradiction].
    destruct (N.eqb g id) eqn:Eg.
    + assert (Hi : (0 <= Z.min (Z.of_nat idx) (Z.of_nat (length (view s)) - 1) < Z.of_nat (length (view s)))%Z) by lia.
      destruct (focus_set_index_spec _ s C Hi) as (s' & f & E & X & Hfo & Hin).
      exists s'. split; [exact E|]. split; [exact X|].
      eapply FocusOk_some; [exact Hfo|]. rewrite (raw_ids_foc _ _ X). exact Hin.
    + apply N.eqb_neq in Eg. exists s. split; [reflexivity|]. split; [apply foc_ext, ext_refl|].
      eapply FocusOk_some; [exact Fo|]. destruct Hf; [contradiction | assumption].
Qed.

Lemma focus_sig_view_add_spec id s : CoreV s -> In id (raw_ids s) ->
  (forall g, focus s = Some g -> In g (raw_ids s)) ->
  exists s', focus_sig_view_add id s = Ok (tt, s') /\ foc s s' /\ FocusOk s'.
Proof.
  intros C Hin Hf. unfold focus_sig_view_add. msimp. destruct (focus s) as [g|] eqn:Fo.
  - exists s. split; [reflexivity|]. split; [apply foc_ext, ext_refl|].
    eapply FocusOk_some; [exact Fo | auto].
  - destruct (focus_set_flow_some id s C Hin) as (s' & E & X & Hfo).
    exists s'. split; [exact E|]. split; [exact X|].
    eapply FocusOk_some; [exact Hfo|]. rewrite (raw_ids_foc _ _ X). exact Hin.
Qed.

(* ---------- signals ---------- *)
Lemma emit_foc e s : foc s (set_log (log s ++ [e]) s) -> True. Proof. trivial. Qed.

Record sent (e : sig) (s s' : state) : Prop := { sn_updm : updm s s'; sn_view : view s' = view s; sn_log : log s' = log s ++ [e] }.

Lemma sent_of_foc e s s' : foc (set_log (log s ++ [e]) s) s' -> sent e s s'.
Proof.
  intros [U V L]. constructor.
  - destruct U as [[Cf Nw Ids] Mo]. constructor; [constructor|]; auto. destruct Cf; constructor; assumption.
  - exact V.
  - exact L.
Qed.
Lemma CoreV_set_log l s : CoreV s -> CoreV (set_log l s).
Proof. intros [A B C D]. constructor; assumption. Qed.

Lemma send_view_refresh_spec s : CoreV s ->
  exists s', send_view_refresh s = Ok (tt, s') /\ sent ViewRefresh s s' /\ FocusOk s'.
Proof.
  intros C. unfold send_view_refresh, emit. msimp.
  destruct (focus_sig_view_refresh_spec _ (CoreV_set_log (log s ++ [ViewRefresh]) s C)) as (s' & E & X & F).
  exists s'. split; [exact E|]. split; [apply sent_of_foc; exact X | exact F].
Qed.
Lemma send_view_remove_spec id idx s : CoreV s ->
  match focus s with Some g => g = id \/ In g (raw_ids s) | None => False end ->
  exists s', send_view_remove id idx s = Ok (tt, s') /\ sent (ViewRemove id idx) s s' /\ FocusOk s'.
Proof.
  intros C Hf. unfold send_view_remove, emit. msimp.
  destruct (focus_sig_view_remove_spec id idx _ (CoreV_set_log (log s ++ [ViewRemove id idx]) s C) Hf) as (s' & E & X & F).
  exists s'. split; [exact E|]. split; [apply sent_of_foc; exact X | exact F].
Qed.
Lemma send_view_add_spec id s : CoreV s -> In id (raw_ids s) ->
  (forall g, focus s = Some g -> In g (raw_ids s)) ->
  exists s', send_view_add id s = Ok (tt, s') /\ sent (ViewAdd id) s s' /\ FocusOk s'.
Proof.
  intros C Hin Hf. unfold send_view_add, emit. msimp.
  destruct (focus_sig_view_add_spec id _ (CoreV_set_log (log s ++ [ViewAdd id]) s C) Hin Hf) as (s' & E & X & F).
  exists s'. split; [exact E|]. split; [apply sent_of_foc; exact X | exact F].
Qed.

(* ---------- Settings.__getitem__ ---------- *)
Lemma settings_getitem_spec id s : In id (store s) ->
  exists c s', settings_getitem id s = Ok (c, s') /\ ext s s' /\ sget (settings s') id = Some c
  /\ (forall o, cget o c = cache_of s id o)
  /\ (forall id' o', cache_of s' id' o' = cache_of s id' o').
Proof.
  intros Hst. unfold settings_getitem. msimp.
  replace (memN id (store s)) with true by (symmetry; apply memN_In; exact Hst). msimp.
  destruct (sget (settings s) id) as [c|] eqn:Es.
  - exists c, s. split; [reflexivity|]. split; [apply ext_refl|]. split; [exact Es|].
    split; [|reflexivity]. intros o. unfold cache_of. rewrite Es. reflexivity.
  - msimp. eexists cempty, _. split; [reflexivity|]. split; [|split; [|split]].
    4:{ intros id' o'. rewrite cache_of_sset. destruct (N.eqb id id') eqn:E; [|reflexivity].
        apply N.eqb_eq in E. subst. unfold cache_of. rewrite Es. apply cget_cempty. }
    + constructor; try reflexivity. constructor; [constructor|].
      * constructor; reflexivity.
      * intros id' o k. rewrite cache_of_sset. destruct (N.eqb id id'); [rewrite cget_cempty; discriminate | auto].
      * intros id' H. unfold settings_ids in H. simpl in H. apply sset_ids in H. destruct H as [->|H]; auto.
      * intros id' o k. rewrite cache_of_sset. destruct (N.eqb id id') eqn:E; [|auto].
        apply N.eqb_eq in E. subst. unfold cache_of. rewrite Es. discriminate.
    + simpl. rewrite sget_sset, N.eqb_refl. reflexivity.
    + intros o. unfold cache_of. rewrite Es. apply cget_cempty.
Qed.

(* writing back a value that is already cached changes nothing observable *)
Lemma ext_cache_same s id o k c :
  sget (settings s) id = Some c -> cget o c = Some k ->
  ext s (set_settings (sset (settings s) id (cset o k c)) s).
Proof.
  intros Es Ec.
  assert (Q : forall id' o', cache_of (set_settings (sset (settings s) id (cset o k c)) s) id' o' = cache_of s id' o').
  { intros id' o'. rewrite cache_of_sset. destruct (N.eqb id id') eqn:E; [|reflexivity].
    apply N.eqb_eq in E. subst. unfold cache_of. rewrite Es, cget_cset.
    destruct (order_eqb o' o) eqn:E2; [|reflexivity]. apply order_eqb_eq in E2. subst. auto. }
  constructor; try reflexivity. constructor; [constructor|].
  - constructor; reflexivity.
  - intros id' o' k'. rewrite Q. auto.
  - intros id' H. unfold settings_ids in H. simpl in H. apply sset_ids in H. destruct H as [->|H]; auto.
    left. eapply sget_ids; eauto.
  - intros id' o' k'. rewrite Q. auto.
Qed.

(* ---------- _base_add ---------- *)
Lemma CoreV_add s s' k id :
  CoreV s -> updm s s' -> view s' = sl_add k id (view s) -> In id (store s) -> ~ In id (raw_ids s) ->
  cache_of s' id (okey s) = Some k -> CoreV s' /\ Permutation (raw_ids s') (id :: raw_ids s).
Proof.
  intros C U V Hst Hn Hk.
  assert (P : Permutation (raw_ids s') (id :: raw_ids s)).
  { unfold raw_ids. rewrite V. change (id :: map snd (view s)) with (map snd ((k, id) :: view s)).
    apply Permutation_map, sl_add_perm. }
  split; [|exact P]. destruct U as [[Cf Nw Ids] Mo]. constructor.
  - rewrite (ce_store _ _ Cf). apply (c_store _ C).
  - rewrite V. apply sl_add_sorted, (c_sorted _ C).
  - intros k' id' Hin. rewrite V in Hin. apply (Permutation_in _ (sl_add_perm k id (view s))) in Hin.
    rewrite (ce_store _ _ Cf), (ce_okey _ _ Cf). destruct Hin as [Hin|Hin].
    + inversion Hin; subst. auto.
    + destruct (c_cached _ C _ _ Hin). auto.
  - eapply Permutation_NoDup; [symmetry; exact P|]. constructor; [exact Hn | apply (c_nodup _ C)].
Qed.

